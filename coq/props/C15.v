(* C15 - value encoders round-trip every value with consistent sizes and the
   documented byte layout.  Closing theorems only; the proofs are in
   theories/EncodersProofs.v and theories/EncodersTableProofs.v.

   Every statement quantifies over ALL values of the encoder's domain and over
   ALL trailing byte strings [rest]; nothing is enumerated.  Domains:
     integer codec : the range of the Go type (in_range signed width v)
     String16      : strings of at most 65535 bytes (the code does not check
                     this; beyond it the prefix holds len mod 65536 and the
                     property fails - lemma s16_prefix_len_any describes it)
     Bytes{n}      : byte strings of length exactly n (Encode returns its
                     argument unchanged, so other lengths are outside the domain)
     Dummy         : nil
     TypeEncoder   : values of the fixed-size type (val_ok t v). *)
From Coq Require Import String.
From Coq Require Import List ZArith NArith Bool.  (* after String: length/concat are List's *)
From Coq.Strings Require Import Byte.
From Slim Require Import Encoders EncodersProofs EncodersTableProofs.
From SlimGen Require Import Gen_IntCodecs.
Import ListNotations.
Open Scope Z_scope.

(* ---- integer codecs: any width, signedness and byte order ---- *)
Theorem C15_int_generic :
  forall (c : icodec) (v : Z) (rest : list byte),
    in_range (ic_signed c) (ic_width c) v ->
    int_decode c (int_encode c v ++ rest) = DOk (List.length (int_encode c v), v) /\
    List.length (int_encode c v) = int_get_size c /\
    int_get_encoded_size c (int_encode c v ++ rest) = List.length (int_encode c v) /\
    (forall i, (i < ic_width c)%nat ->
       Z_of_byte (nth i (int_encode c v) x00) =
       (wrap (ic_width c) v / 2 ^ (8 * Z.of_nat (if ic_big c then ic_width c - 1 - i else i))) mod 256).
Proof. exact int_all. Qed.
Print Assumptions C15_int_generic.

(* ---- the codec types of encode/int.go, int8.go, nativeint.go, as read from
   the source: each is little endian, as wide as its Go type, round-trips every
   value of the type, agrees on all sizes, and byte i of the encoding is
   (two's complement of v) / 2^(8i) mod 256 (see codec_ok) ---- *)
Theorem C15_int_codecs : Forall codec_ok g_int_codecs.
Proof. exact g_int_codecs_ok. Qed.
Print Assumptions C15_int_codecs.

Theorem C15_int_codec_table :
  map (fun g => (sc_name g, (ic_width (codec_of_src g), ic_signed (codec_of_src g), ic_big (codec_of_src g))))
      g_int_codecs =
  [("U16", (2, false, false)); ("U32", (4, false, false)); ("U64", (8, false, false));
   ("I16", (2, true, false)); ("I32", (4, true, false)); ("I64", (8, true, false));
   ("I8", (1, true, false)); ("Int", (8, true, false))]%string%nat.
Proof. exact g_int_codecs_table. Qed.
Print Assumptions C15_int_codec_table.

(* short input: Decode panics (b[:size] out of range), it does not invent a value *)
Theorem C15_int_short :
  forall c bs, (List.length bs < ic_width c)%nat -> int_decode c bs = DPanic.
Proof. exact int_decode_short. Qed.
Print Assumptions C15_int_short.

(* ---- String16 ---- *)
Theorem C15_string16 :
  forall (s rest : list byte),
    Z.of_nat (List.length s) <= 65535 ->
    s16_decode (s16_encode s ++ rest) = DOk (List.length (s16_encode s), s) /\
    List.length (s16_encode s) = s16_get_size s /\
    s16_get_encoded_size (s16_encode s ++ rest) = DOk (List.length (s16_encode s)) /\
    (exists b0 b1, s16_encode s = b0 :: b1 :: s /\
                   Z_of_byte b0 * 256 + Z_of_byte b1 = Z.of_nat (List.length s) /\
                   [b0; b1] = ord_bytes true 2 (Z.of_nat (List.length s))).
Proof. exact s16_all. Qed.
Print Assumptions C15_string16.

(* ---- Bytes{Size: n} ---- *)
Theorem C15_bytes :
  forall (n : nat) (v rest : list byte),
    List.length v = n ->
    bytes_decode n (bytes_encode n v ++ rest) = DOk (List.length (bytes_encode n v), v) /\
    List.length (bytes_encode n v) = bytes_get_size n /\
    bytes_get_encoded_size n (bytes_encode n v ++ rest) = List.length (bytes_encode n v) /\
    bytes_encode n v = v.
Proof. exact bytes_all. Qed.
Print Assumptions C15_bytes.

(* ---- TypeEncoder: any fixed-size type, both byte orders ---- *)
Theorem C15_type_encoder :
  forall (big : bool) (t : ty) (v : value) (rest : list byte),
    val_ok t v = true ->
    te_encode big t v = DOk (te_bytes big t v) /\
    te_decode big t (te_bytes big t v ++ rest) = DOk (List.length (te_bytes big t v), v) /\
    List.length (te_bytes big t v) = te_size t /\
    te_bytes big t v = flat_map (leaf_bytes big) (leaves t v).
Proof. exact te_all. Qed.
Print Assumptions C15_type_encoder.

(* field by field / element by element, each integer in the configured order *)
Theorem C15_type_encoder_layout :
  (forall big ts vs, List.length ts = List.length vs ->
     te_bytes big (TStruct ts) (VSeq vs) =
     concat (map (fun tv => te_bytes big (fst tv) (snd tv)) (combine ts vs))) /\
  (forall big n t vs, te_bytes big (TArray n t) (VSeq vs) = concat (map (te_bytes big t) vs)) /\
  (forall big p z i, (i < prim_width p)%nat ->
     Z_of_byte (nth i (te_bytes big (TPrim p) (VInt z)) x00) =
     (wrap (prim_width p) z / 2 ^ (8 * Z.of_nat (if big then prim_width p - 1 - i else i))) mod 256).
Proof. exact te_layout_all. Qed.
Print Assumptions C15_type_encoder_layout.

(* ---- all encoders behind the Encoder interface (includes Dummy) ---- *)
Theorem C15_roundtrip :
  forall (e : encoder) (v : value) (rest : list byte), in_domain e v -> roundtrip_ok e v rest.
Proof. exact enc_roundtrip. Qed.
Print Assumptions C15_roundtrip.

(* ---- the property ---- *)
Definition C15_statement : Prop :=
  (* round trip, consumed size, GetSize, GetEncodedSize, with trailing bytes *)
  (forall e v rest, in_domain e v -> roundtrip_ok e v rest) /\
  (* the integer codecs of the source: little-endian two's complement *)
  Forall codec_ok g_int_codecs /\
  (* String16: big-endian 16-bit length, then the bytes *)
  (forall s : list byte, Z.of_nat (List.length s) <= 65535 ->
     exists b0 b1, s16_encode s = b0 :: b1 :: s /\
                   Z_of_byte b0 * 256 + Z_of_byte b1 = Z.of_nat (List.length s) /\
                   [b0; b1] = ord_bytes true 2 (Z.of_nat (List.length s))) /\
  (* TypeEncoder: the integer leaves in declared order, configured byte order *)
  (forall big t v, te_bytes big t v = flat_map (leaf_bytes big) (leaves t v)) /\
  (forall big w x i, (i < w)%nat ->
     Z_of_byte (nth i (ord_bytes big w x) x00) =
     (x / 2 ^ (8 * Z.of_nat (if big then w - 1 - i else i))) mod 256).

Theorem C15 : C15_statement.
Proof. exact c15_all. Qed.
Print Assumptions C15.

(* ---- the hypotheses are satisfiable; concrete values ---- *)
Definition ex_codec (name : String.string) : icodec :=
  match find_src_codec name g_int_codecs with
  | Some g => codec_of_src g
  | None => {| ic_width := 0; ic_signed := false; ic_big := false |}
  end.

Example ex_i16_minus1 :
  int_encode (ex_codec "I16"%string) (-1) = [xff; xff] /\
  int_decode (ex_codec "I16"%string) [xff; xff; x07] = DOk (2%nat, -1).
Proof. vm_compute. split; reflexivity. Qed.

Example ex_i16_min_max :
  int_encode (ex_codec "I16"%string) (-32768) = [x00; x80] /\
  int_encode (ex_codec "I16"%string) 32767 = [xff; x7f] /\
  int_decode (ex_codec "I16"%string) [x00; x80] = DOk (2%nat, -32768) /\
  in_range true 2 (-32768) /\ in_range true 2 32767.
Proof. vm_compute. repeat split; try reflexivity; discriminate. Qed.

Example ex_i64_min :
  int_encode (ex_codec "I64"%string) (-9223372036854775808) = [x00; x00; x00; x00; x00; x00; x00; x80] /\
  int_decode (ex_codec "I64"%string) [x00; x00; x00; x00; x00; x00; x00; x80; xaa] =
    DOk (8%nat, -9223372036854775808).
Proof. vm_compute. split; reflexivity. Qed.

Example ex_u64_max :
  int_encode (ex_codec "U64"%string) 18446744073709551615 = [xff; xff; xff; xff; xff; xff; xff; xff] /\
  int_decode (ex_codec "U64"%string) [xff; xff; xff; xff; xff; xff; xff; xff] =
    DOk (8%nat, 18446744073709551615).
Proof. vm_compute. split; reflexivity. Qed.

Example ex_u32_layout : int_encode (ex_codec "U32"%string) 305419896 = [x78; x56; x34; x12].
Proof. vm_compute. reflexivity. Qed.

Example ex_int_short : int_decode (ex_codec "Int"%string) [x01; x02; x03] = DPanic.
Proof. vm_compute. reflexivity. Qed.

Example ex_s16 :
  s16_encode [x61; x62; x00] = [x00; x03; x61; x62; x00] /\
  s16_decode [x00; x03; x61; x62; x00; xff; xff] = DOk (5%nat, [x61; x62; x00]) /\
  s16_decode [x00; x03; x61] = DPanic.
Proof. vm_compute. repeat split; reflexivity. Qed.

(* struct { A int16; B [2]uint32; C struct{ D uint8; E int64 } } *)
Definition ex_ty : ty :=
  TStruct [TPrim PI16; TArray 2 (TPrim PU32); TStruct [TPrim PU8; TPrim PI64]].
Definition ex_val : value :=
  VSeq [VInt (-2); VSeq [VInt 1; VInt 4294967295]; VSeq [VInt 255; VInt (-9223372036854775808)]].

Example ex_te_domain : in_domain (EType true ex_ty) ex_val /\ in_domain (EType false ex_ty) ex_val.
Proof. vm_compute. split; reflexivity. Qed.

Example ex_te_big :
  te_encode true ex_ty ex_val =
  DOk [xff; xfe; x00; x00; x00; x01; xff; xff; xff; xff; xff;
       x80; x00; x00; x00; x00; x00; x00; x00] /\
  te_decode true ex_ty
     [xff; xfe; x00; x00; x00; x01; xff; xff; xff; xff; xff;
      x80; x00; x00; x00; x00; x00; x00; x00; x55] = DOk (19%nat, ex_val).
Proof. vm_compute. split; reflexivity. Qed.

Example ex_te_little :
  te_encode false ex_ty ex_val =
  DOk [xfe; xff; x01; x00; x00; x00; xff; xff; xff; xff; xff;
       x00; x00; x00; x00; x00; x00; x00; x80].
Proof. vm_compute. reflexivity. Qed.

Example ex_te_wrong_type : te_encode false ex_ty (VInt 1) = DPanic.
Proof. vm_compute. reflexivity. Qed.
