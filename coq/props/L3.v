(* L3 - placeholder while the proofs are being written *)
From Slim Require Import Base Keys Model BitmapRank BitmapRank2 Bits.
