(* L3 - the bit-level layer: the protobuf message fields (rank/select bitmaps, packed label
   bitmaps with big / normal / table-compressed short nodes, step or prefix arrays, leaf-prefix
   and leaf-value VLenArrays) against the decoded node view.  Not a property of
   properties.jsonl; it is the refinement the trie properties (C01-C04, C08-C10, C13, C18, C19)
   rest on below the tree model, and the word-level half of C10 (no index out of range).
   Closing theorems only; proofs in theories/BitmapRank2Proofs.v, BitmapSelectProofs.v,
   BitsVlenProofs.v, BitsWfProofs.v, BitsEncProofs.v, BitsDecProofs.v, BitsNodeProofs.v,
   BitsProofs.v, BitsFlatProofs.v.

   Model: theories/Bits.v (encode_msg = creator.build + buildLeaves + newVLenArray;
   get_node / get_view / left_child / vlen_get = getNode, getLeafPrefix, getLeftChildID,
   VLenArray.get) over theories/BitmapRank.v + BitmapRank2.v (low/bitmap at word level).
   A Go panic (index out of range, nil message) is the outcome [Panic].

   Quantification: ALL flat node lists accepted by the checker [flat_wf] (every list produced by
   Model.build is accepted: theorem L3_built_wf), all leaf-value lists, both prefix modes; no
   size bound.  Assumed, not modelled: Go computes positions in int32, the model in N - the
   two agree as long as no bit position, byte offset or node id reaches 2^31. *)
From Slim Require Import Base Keys Model BitmapRank BitmapRankProofs BitmapRank2 BitmapRank2Proofs
     BitmapSelectProofs Bits BitsVlenProofs BitsWfProofs BitsEncProofs BitsDecProofs BitsNodeProofs
     BitsProofs BitsFlatProofs.
From Slim Require Import QueryProofs Flat FlatProofs Msg MsgProofs.
From SlimGen Require Gen_Consts.
Local Open Scope N_scope.

(* ---- (a) word-level library ------------------------------------------------ *)

(* Rank128 with the index of IndexRank128 (including the "(i+64)>>7" entry choice): the number
   of set bits below i, and bit i; never a panic below 64*len(words) *)
Theorem L3_rank128 : forall ws i,
  words_ok ws ->
  (forall r bit, rank128 ws (index_rank128 ws 0) i = Val (r, bit) ->
                 r = rank_spec ws i /\ bit = N.b2n (bm_get ws i)) /\
  (i < 64 * N.of_nat (length ws) -> exists r bit, rank128 ws (index_rank128 ws 0) i = Val (r, bit)).
Proof. exact rank128_both. Qed.
Print Assumptions L3_rank128.

(* Select32R64 with the indexes of IndexSelect32R64: position of the i-th set bit and of the
   next set bit (or the end of the bitmap); no panic for i below the number of set bits *)
Theorem L3_select32 : forall ws i,
  words_ok ws -> i < total_ones ws ->
  exists a b, select32_r64 ws (index_select32 ws) (index_rank64_t ws 0) i = Val (a, b) /\
              is_select ws i a /\ is_next ws a b.
Proof. exact select32_r64_correct. Qed.
Print Assumptions L3_select32.

(* OfMany = the concatenation of the sub-bitmaps: bit k and the rank at offset k of segment i *)
Theorem L3_of_many : forall segs,
  Forall seg_ok segs ->
  exists ws, of_many segs = Val ws /\ words_ok ws /\
    N.of_nat (length ws) = nwords_for (seg_off segs (length segs)) /\
    (forall k, bm_get ws k = true -> k < seg_off segs (length segs)) /\
    (forall i sub sz k, nth_error segs i = Some (sub, sz) -> k < sz ->
       (bm_get ws (seg_off segs i + k) = true <-> In k sub)) /\
    (forall i sub sz k, nth_error segs i = Some (sub, sz) -> k <= sz ->
       rank_spec ws (seg_off segs i + k) = N.of_nat (seg_cnt segs i + count_lt sub k)).
Proof. exact of_many_spec. Qed.
Print Assumptions L3_of_many.

(* bitmap.Of(positions, cap) for a monotone list (duplicates allowed) *)
Theorem L3_of_cap : forall idx cap,
  Sorted.StronglySorted N.le idx ->
  exists ws, of_cap idx cap = Val ws /\
    N.of_nat (length ws) = nwords_for (bits_cap idx cap) /\ words_ok ws /\
    (forall k, bm_get ws k = true <-> In k idx).
Proof. exact of_cap_sorted. Qed.
Print Assumptions L3_of_cap.

(* ---- (c) VLenArray --------------------------------------------------------- *)
Theorem L3_vlen_get : forall elts va i,
  new_vlen elts = Val (Some va) -> (i < length elts)%nat ->
  vlen_get va (N.of_nat i) = Val (nth i elts []).
Proof. exact vlen_get_correct. Qed.
Print Assumptions L3_vlen_get.

Theorem L3_vlen_total : forall elts,
  exists r, new_vlen elts = Val r /\ (r = None <-> Forall (fun e => e = []) elts).
Proof. exact new_vlen_total. Qed.
Print Assumptions L3_vlen_total.

Theorem L3_vlen_out_of_bound : forall elts va i,
  new_vlen elts = Val (Some va) -> blen elts <= i -> vlen_get va i = Panic.
Proof. exact vlen_get_out_of_bound. Qed.
Print Assumptions L3_vlen_out_of_bound.

(* ---- (b) the refinement ---------------------------------------------------- *)

(* creator.build and initVars never panic; ShortSize <= maxShortSize *)
Theorem L3_encode_total : forall nodes ipfx lpfx leaves,
  flat_wf ipfx lpfx nodes leaves = true -> nodes <> [] ->
  exists m vs, encode_msg nodes ipfx lpfx leaves = Val m /\ init_vars m = Val vs /\ m_shortsize m <= 10.
Proof. exact encode_total_fw. Qed.
Print Assumptions L3_encode_total.

(* getNode + label extraction + first child on the encoded message = the node of the list:
   leaf ordinal and tail; word size, labels, first child id, step or prefix - for big, normal
   and short inner nodes wherever they lie in the words *)
Theorem L3_get_view : forall nodes ipfx lpfx leaves m vs,
  flat_wf ipfx lpfx nodes leaves = true ->
  encode_msg nodes ipfx lpfx leaves = Val m -> init_vars m = Val vs ->
  forall p v, nth_error nodes p = Some v -> get_view m vs (N.of_nat p) = Val v.
Proof. exact get_view_fw. Qed.
Print Assumptions L3_get_view.

(* getLeftChildID for every label bit, leftMost's and rightMost's rank: the child behind the
   x-th label is node fc + x *)
Theorem L3_children : forall nodes ipfx lpfx leaves m vs,
  flat_wf ipfx lpfx nodes leaves = true ->
  encode_msg nodes ipfx lpfx leaves = Val m -> init_vars m = Val vs ->
  forall p id big step pfx fc labels,
    nth_error nodes p = Some (VInner id big step pfx fc labels) ->
    exists ith wsz from to bm plen pfxb,
      get_node m vs (N.of_nat p) = Val (DnInner ith wsz from to bm plen pfxb) /\
      first_child m from = Val (N.of_nat fc) /\
      last_child m to = Val (N.of_nat (fc + length labels - 1)) /\
      forall k, k < (if big then 257 else 17) ->
        left_child m from to bm k =
        Val (N.of_nat (fc - 1 + count_lt (map N.of_nat labels) k),
             N.b2n (existsb (N.eqb k) (map N.of_nat labels))).
Proof. exact children_fw. Qed.
Print Assumptions L3_children.

(* getIthLeafBytes *)
Theorem L3_leaves : forall nodes ipfx lpfx leaves m,
  flat_wf ipfx lpfx nodes leaves = true -> nodes <> [] ->
  encode_msg nodes ipfx lpfx leaves = Val m ->
  match leaves with
  | None => forall l, ith_leaf_bytes m l = Val None
  | Some elts =>
    (Forall (fun e => e = []) elts -> forall l, ith_leaf_bytes m l = Val None) /\
    (~ Forall (fun e => e = []) elts ->
     (forall l, (l < length elts)%nat -> ith_leaf_bytes m (N.of_nat l) = Val (Some (nth l elts []))) /\
     (forall l, blen elts <= l -> ith_leaf_bytes m l = Panic))
  end.
Proof. exact leaves_fw. Qed.
Print Assumptions L3_leaves.

(* ---- (d) no panic is reachable in the decoder on an encoded message --------- *)
Theorem L3_no_panic : forall nodes ipfx lpfx leaves m vs,
  flat_wf ipfx lpfx nodes leaves = true ->
  encode_msg nodes ipfx lpfx leaves = Val m -> init_vars m = Val vs ->
  forall p v, nth_error nodes p = Some v ->
    (exists d, get_node m vs (N.of_nat p) = Val d) /\
    match v with
    | VLeaf _ ord _ => exists b, ith_leaf_bytes m (N.of_nat ord) = Val b
    | VInner _ big _ _ _ _ =>
      forall ith wsz from to bm plen pfxb,
        get_node m vs (N.of_nat p) = Val (DnInner ith wsz from to bm plen pfxb) ->
        (exists l, node_labels m from to bm = Val l) /\
        (exists c, first_child m from = Val c) /\ (exists c, last_child m to = Val c) /\
        (forall k, k < (if big then 257 else 17) -> exists r, left_child m from to bm k = Val r)
    end.
Proof. exact decoder_no_panic. Qed.
Print Assumptions L3_no_panic.

(* ---- the link to the tree model: every built trie yields a well-formed list --- *)
Theorem L3_built_wf : forall o keys vals T,
  build o keys vals = Ok T -> trie_wf T = true.
Proof. exact built_trie_wf. Qed.
Print Assumptions L3_built_wf.

(* hence, for every built trie: the message exists and decodes to the trie's own node view *)
Theorem L3_trie_refinement : forall o keys vals T r,
  build o keys vals = Ok T -> t_root T = Some r ->
  exists m vs, encode_trie T = Val m /\ init_vars m = Val vs /\
    forall p v, nth_error (flat_nodes r) p = Some v -> get_view m vs (N.of_nat p) = Val v.
Proof. exact built_trie_refinement. Qed.
Print Assumptions L3_trie_refinement.

(* ---- the constants the model hard-wires are those of the source tree --------- *)
Example L3_consts :
  Gen_Consts.g_innerSize = 17 /\ Gen_Consts.g_bigInnerSize = 257 /\ Gen_Consts.g_maxShortSize = 10 /\
  Gen_Consts.g_wordSize = 4 /\ Gen_Consts.g_bigWordSize = 8 /\ Gen_Consts.g_stepLimit = 65535.
Proof. repeat split. Qed.

(* ---- non-vacuity ------------------------------------------------------------ *)
(* a chain of 40 one-label inner nodes (labels cycling 1,2,3) and a leaf: ShortSize 2 is chosen,
   table [0;2;8;0]; node 9 is a short node at bits [63,65) - it straddles the first word
   boundary; node 18 is a short node at [126,128) - it ends exactly on a word boundary; every
   node decodes to itself *)
Fixpoint ex_chain (n id : nat) : list nview :=
  match n with
  | O => [VLeaf id 0 None]
  | S n' => VInner id false 0 None (S id) [(1 + id mod 3)%nat] :: ex_chain n' (S id)
  end.
Definition ex_nodes : list nview := ex_chain 40 0.

Example L3_short_nodes :
  flat_wf false false ex_nodes None = true /\
  exists m vs, encode_msg ex_nodes false false None = Val m /\ init_vars m = Val vs /\
    m_shortsize m = 2 /\ m_shorttable m = [0; 2; 8; 0] /\
    get_node m vs 9 = Val (DnInner 9 4 63 65 2 0 None) /\
    get_node m vs 18 = Val (DnInner 18 4 126 128 2 0 None) /\
    get_node m vs 1 = Val (DnInner 1 4 2 19 0 0 None) /\
    map (fun p => get_view m vs (N.of_nat p)) (seq 0 41) = map Val ex_nodes.
Proof.
  split; [vm_compute; reflexivity|].
  destruct (encode_msg ex_nodes false false None) as [m|] eqn:E; [|vm_compute in E; discriminate].
  destruct (init_vars m) as [vs|] eqn:Ev; [|vm_compute in E; injection E as <-; vm_compute in Ev; discriminate].
  exists m, vs. vm_compute in E. injection E as <-. vm_compute in Ev. injection Ev as <-.
  vm_compute. repeat split.
Qed.

(* a built trie with values of unequal widths and an empty one, inner and leaf prefixes stored *)
Definition ex_keys : list key :=
  [ ["097"%byte]; ["097"%byte; "098"%byte; "099"%byte]; ["098"%byte; "120"%byte; "121"%byte] ].
Definition ex_vals : option (list (list byte)) := Some [ ["001"%byte]; []; ["002"%byte; "003"%byte] ].
Definition ex_opt : opts := {| o_dedup := false; o_inner := true; o_leaf := true |}.

Example L3_built_example :
  exists T r m vs, build ex_opt ex_keys ex_vals = Ok T /\ t_root T = Some r /\ trie_wf T = true /\
    encode_trie T = Val m /\ init_vars m = Val vs /\
    map (fun p => get_view m vs (N.of_nat p)) (seq 0 (length (flat_nodes r))) = map Val (flat_nodes r) /\
    (* leaf values are stored in breadth-first leaf order: "bxy" is the shallowest leaf *)
    map (fun l => ith_leaf_bytes m l) [0; 1; 2] = [Val (Some ["002"%byte; "003"%byte]); Val (Some ["001"%byte]); Val (Some [])] /\
    ith_leaf_bytes m 3 = Panic.
Proof.
  destruct (build ex_opt ex_keys ex_vals) as [T|] eqn:E; [|vm_compute in E; discriminate].
  vm_compute in E. injection E as <-.
  eexists _, _, _, _. split; [reflexivity|]. split; [reflexivity|]. split; [vm_compute; reflexivity|].
  split; [vm_compute; reflexivity|]. split; [vm_compute; reflexivity|]. vm_compute. repeat split.
Qed.

(* ====================================================================== *)
(* The query loop over the message: GetID / Get recomputed from the bitmaps *)
(* ====================================================================== *)
(* Msg.mgetid / Msg.mget are GetID / Get written the way the Go code runs them: every
   step reads the node with getNode (NodeTypeBM rank, label-bitmap range, short table,
   step / stored prefix), picks the child with getLeftChildID (Rank128 over the packed
   label bitmaps), compares the leaf prefix (getLeafPrefix) and fetches the value with
   VLenArray.get.  On the message of EVERY trie the builder returns they give exactly the
   answers of the tree model, about which C01/C02/C03/C08/C09/C10 are proved.  [fuel] only
   bounds the number of nodes visited; any fuel above the height gives the same answer. *)
Theorem L3_message_getid :
  forall o keys vals T m vs q fuel,
    build o keys vals = Ok T -> encode_trie T = Val m -> init_vars m = Val vs ->
    (trie_height T <= fuel)%nat ->
    mgetid (S fuel) m vs q = Ok (getid T q).
Proof. exact mgetid_getid. Qed.
Print Assumptions L3_message_getid.

Theorem L3_message_get :
  forall o keys vals T m vs q fuel,
    build o keys vals = Ok T -> encode_trie T = Val m -> init_vars m = Val vs ->
    (trie_height T <= fuel)%nat ->
    mget (S fuel) m vs q = get T q.
Proof. exact mget_get. Qed.
Print Assumptions L3_message_get.

(* searchID (the id triple behind Search / RangeGet / scans' seek) run over the message, with
   leftMost / rightMost following Rank128 of the node's bit range *)
Theorem L3_message_searchid :
  forall o keys vals T m vs q fuel,
    build o keys vals = Ok T -> encode_trie T = Val m -> init_vars m = Val vs ->
    (trie_height T <= fuel)%nat ->
    msearchid (S fuel) m vs q = Ok (let '(l, e, rr) := searchid T q in (oid l, oid e, oid rr)).
Proof. exact msearchid_searchid. Qed.
Print Assumptions L3_message_searchid.

(* Search and RangeGet: the values of the searchID triple read through getLeaf / VLenArray.get *)
Theorem L3_message_search :
  forall o keys vals T m vs q fuel,
    build o keys vals = Ok T -> encode_trie T = Val m -> init_vars m = Val vs ->
    (trie_height T <= fuel)%nat ->
    msearch (S fuel) m vs q = search T q /\ mrangeget (S fuel) m vs q = rangeget T q.
Proof.
  intros o keys vals T m vs q fuel Hb Em Ev Hf.
  split; [exact (msearch_search o keys vals T m vs q fuel Hb Em Ev Hf)|exact (mrangeget_rangeget o keys vals T m vs q fuel Hb Em Ev Hf)].
Qed.
Print Assumptions L3_message_search.

(* C01 end to end at the bit level: every retained key is found THROUGH THE MESSAGE with the
   bytes of its supplied value *)
Theorem L3_message_no_false_negatives :
  forall ropt keys vals T m vs i k fuel,
    build (normalize ropt) keys vals = Ok T -> encode_trie T = Val m -> init_vars m = Val vs ->
    (trie_height T <= fuel)%nat ->
    nth_error keys i = Some k -> retained (normalize ropt) keys vals i = true ->
    exists v, mget (S fuel) m vs k = Ok (Found v) /\ val_bytes v = supplied vals i.
Proof.
  intros ropt keys vals T m vs i k fuel Hb Em Ev Hf Hk Hr.
  destruct (kept_key_found (normalize ropt) keys vals T i k Hb Hk Hr) as (_ & v & Hg & Hv & _).
  exists v. rewrite (mget_get _ _ _ _ _ _ _ _ Hb Em Ev Hf). split; assumption.
Qed.
Print Assumptions L3_message_no_false_negatives.

Example L3_message_example :
  exists T m vs, build ex_opt ex_keys ex_vals = Ok T /\ encode_trie T = Val m /\ init_vars m = Val vs /\
    (trie_height T <= 5)%nat /\
    map (mget 6 m vs) (ex_keys ++ [["097"%byte; "098"%byte]]) =
      [Ok (Found (Some ["001"%byte])); Ok (Found (Some [])); Ok (Found (Some ["002"%byte; "003"%byte])); Ok NotFound].
Proof.
  destruct (build ex_opt ex_keys ex_vals) as [T|] eqn:E; [|vm_compute in E; discriminate].
  vm_compute in E. injection E as <-.
  eexists _, _, _. split; [reflexivity|]. split; [vm_compute; reflexivity|]. split; [vm_compute; reflexivity|].
  split; [vm_compute; repeat constructor|]. vm_compute. reflexivity.
Qed.
