(* C05 - Marshal/Unmarshal round trip preserves every answer and is byte-stable;
   no residue across Unmarshal/Reset histories.  Closing theorems only.

   Layer: the wire model (coq/theories/Varint, Proto, Semver, Frame, Instance,
   Wire) with the protobuf message Slim AS DATA and the constants regenerated
   from /repo (slimtrieVersion, compatibleVersions()).
     marshal_gen m      = SlimTrie.Marshal() of an instance whose inner message is m
     unmarshal_gen b    = the reading part of SlimTrie.Unmarshal(b)
     step / run         = Unmarshal / Reset histories on one instance, state =
                          (inner, vars = initVars(inner), levels = initLevels(inner))
     wf_msg m           = m is a value of the Go types (uint64 / int32 / uint32
                          ranges), has no unknown fields, body below 2^63 bytes.

   What is NOT proved here (see checks/C05.json, statement_status):
   * "answers every query identically" is proved as "the loaded instance has the
     same (inner, vars, levels) as an instance that holds m" (C05_load_state_partial),
     and, composed with L2/L3 (C05_loaded_trie_answers at the end of this file): GetID,
     Get and searchID run over the loaded message return the tree model's answers.
     The scanners likewise (C05_loaded_trie_scans).
   * determinism of the BUILD: the one step that reads unordered data (sortedBMCounts)
     is proved independent of map order and sort algorithm (C05_build_deterministic);
     Marshal being a function of the message is immediate (marshal_gen is a Coq function). *)
From Coq Require Import List NArith ZArith Bool.
From Coq.Strings Require Import Byte.
From Slim Require Import Varint VarintProofs Proto ProtoProofs Semver Frame FrameProofs Instance InstanceProofs Wire WireProofs.
From Slim Require Import Base Keys Model BitmapRank Flat FlatProofs Msg MsgProofs EndToEnd EndToEndProofs.
From Slim Require Import Scan ScanMsg EndToEndScan EndToEndScanProofs.
From Slim Require Bits BuildDetProofs.
From Coq Require Import Permutation Sorting.Sorted.
Import ListNotations.
Open Scope N_scope.

(* varints: the reader inverts the writer on every 64-bit value *)
Theorem C05_varint : forall n rest,
  n < two64 -> decode_varint (encode_varint n ++ rest) = Some (n, rest).
Proof. exact decode_encode_varint. Qed.
Print Assumptions C05_varint.

(* protobuf body: proto.Unmarshal inverts proto.Marshal on every well-formed message *)
Theorem C05_wire_roundtrip : forall m, wf_slim m = true -> parse_slim (ser_slim m) = Some m.
Proof. exact parse_slim_ser. Qed.
Print Assumptions C05_wire_roundtrip.

(* Marshal never fails; its length is 32 + proto.Size(inner), the size being
   computed from the field values without serialising *)
Theorem C05_marshal_total : forall m, exists s, marshal_gen m = Some s.
Proof. exact marshal_gen_total. Qed.
Print Assumptions C05_marshal_total.

Theorem C05_size : forall m s,
  marshal_gen m = Some s -> N.of_nat (length s) = 32 + size_slim m.
Proof. exact marshal_gen_length. Qed.
Print Assumptions C05_size.

(* Unmarshal(Marshal(t)) succeeds and yields exactly t's message *)
Theorem C05_roundtrip : forall m s,
  wf_msg m = true -> marshal_gen m = Some s -> unmarshal_gen s = OLoaded m.
Proof. exact roundtrip_gen. Qed.
Print Assumptions C05_roundtrip.

(* re-marshalling what was loaded reproduces the bytes *)
Theorem C05_remarshal : forall m s m',
  wf_msg m = true -> marshal_gen m = Some s -> unmarshal_gen s = OLoaded m' -> marshal_gen m' = Some s.
Proof. exact remarshal_gen. Qed.
Print Assumptions C05_remarshal.

(* the instance after loading Marshal(t) into ANY instance state is the state
   NewSlimTrie leaves for t: inner = m, vars = initVars(m), levels = initLevels(m).
   PARTIAL with respect to "answers every query identically": see the header. *)
Theorem C05_load_state_partial :
  forall (Vars Levels : Type) (init_vars : slim -> Vars) (init_levels : slim -> Levels)
         (reset_levels : Levels) (conv510 : slim -> slim) (conv3 : list byte -> list byte -> list byte -> slim)
         (st : inst Vars Levels) m s,
  wf_msg m = true -> marshal_gen m = Some s ->
  fst (step compat_gen cur_gen Vars Levels init_vars init_levels reset_levels conv510 conv3 st (OpUnmarshal s))
  = installed Vars Levels init_vars init_levels m.
Proof. exact load_state_gen. Qed.
Print Assumptions C05_load_state_partial.

(* no residue: after ANY history of Unmarshal (valid, invalid, any layout) and
   Reset calls from ANY state, a successful Unmarshal(b) leaves exactly the state
   of a fresh instance that unmarshalled b (histories of any length; the property
   asks for length <= 3) *)
Theorem C05_no_residue :
  forall (Vars Levels : Type) (init_vars : slim -> Vars) (init_levels : slim -> Levels)
         (reset_levels : Levels) (conv510 : slim -> slim) (conv3 : list byte -> list byte -> list byte -> slim)
         (h : list op) (st : inst Vars Levels) b,
  load_ok compat_gen cur_gen b = true ->
  run compat_gen cur_gen Vars Levels init_vars init_levels reset_levels conv510 conv3 st (h ++ [OpUnmarshal b])
  = run compat_gen cur_gen Vars Levels init_vars init_levels reset_levels conv510 conv3
        (fresh Vars Levels init_vars init_levels) [OpUnmarshal b].
Proof. exact no_residue_gen. Qed.
Print Assumptions C05_no_residue.

Theorem C05_no_residue_marshal :
  forall (Vars Levels : Type) (init_vars : slim -> Vars) (init_levels : slim -> Levels)
         (reset_levels : Levels) (conv510 : slim -> slim) (conv3 : list byte -> list byte -> list byte -> slim)
         (h : list op) (st : inst Vars Levels) m s,
  wf_msg m = true -> marshal_gen m = Some s ->
  run compat_gen cur_gen Vars Levels init_vars init_levels reset_levels conv510 conv3 st (h ++ [OpUnmarshal s])
  = installed Vars Levels init_vars init_levels m.
Proof. exact no_residue_marshal_gen. Qed.
Print Assumptions C05_no_residue_marshal.

(* ---- the hypotheses are satisfiable on a real message ------------------------------------
   Message and bytes of a real trie (harness case t2 of seed 1): keys 01a2c7, 01c7,
   a2, c7 with String16 values "", "", e9e423c3, 8f08d5, Opt{DedupValue: true}. *)
Definition ex_msg : slim :=
  mkSlim 0%Z 0%Z
    (Some (mkBitmap [0x3] [0%Z] [] []))
    (Some (mkBitmap [0x10002802] [0%Z] [] []))
    (Some (mkBitmap [0x0] [0%Z] [] []))
    [0]
    (Some (mkVlen 0%Z 1%Z None 2%Z
       [x00; x01]
       (Some (mkBitmap [0x2] [0%Z] [] [])) []))
    None
    (Some (mkVlen 3%Z 3%Z (Some (mkBitmap [0x2841] [0%Z; 4%Z] [0%Z] [])) 0%Z
       [x00; x04; xe9; xe4; x23; xc3; x00; x03; x8f; x08; xd5; x00; x00]
       (Some (mkBitmap [0x7] [0%Z] [] [])) []))
    [].

Definition ex_bytes : list byte :=
  [x30; x2e; x35; x2e; x31; x32; x00; x00; x00; x00; x00; x00; x00; x00; x00; x00;
   x20; x00; x00; x00; x00; x00; x00; x00; x74; x00; x00; x00; x00; x00; x00; x00;
   xa2; x01; x08; xa2; x01; x01; x03; xf2; x01; x01; x00; xf2; x01; x0c; xa2; x01;
   x05; x82; xd0; x80; x80; x01; xf2; x01; x01; x00; xfa; x01; x08; xa2; x01; x01;
   x00; xf2; x01; x01; x00; x82; x02; x01; x00; xb2; x02; x15; x58; x01; xb8; x01;
   x02; xf2; x01; x02; x00; x01; xea; x03; x08; xa2; x01; x01; x02; xf2; x01; x01;
   x00; xe2; x03; x30; x50; x03; x58; x03; xa2; x01; x0e; xa2; x01; x02; xc1; x50;
   xf2; x01; x02; x00; x04; xc2; x02; x01; x00; xf2; x01; x0d; x00; x04; xe9; xe4;
   x23; xc3; x00; x03; x8f; x08; xd5; x00; x00; xea; x03; x08; xa2; x01; x01; x07;
   xf2; x01; x01; x00].

Example ex_wf : wf_msg ex_msg = true.
Proof. vm_compute. reflexivity. Qed.

(* the model writes exactly the bytes the real Marshal() wrote *)
Example ex_marshal_is_real : marshal_gen ex_msg = Some ex_bytes.
Proof. vm_compute. reflexivity. Qed.

Example ex_unmarshal_real : unmarshal_gen ex_bytes = OLoaded ex_msg.
Proof. exact (C05_roundtrip ex_msg ex_bytes ex_wf ex_marshal_is_real). Qed.

Example ex_size : N.of_nat (length ex_bytes) = 32 + size_slim ex_msg.
Proof. exact (C05_size ex_msg ex_bytes ex_marshal_is_real). Qed.

(* negative int32 values are 10-byte varints and survive the round trip *)
Example ex_negative : parse_slim (ser_slim (mkSlim (-1)%Z (-2147483648)%Z None None None [4294967295] None None None []))
                      = Some (mkSlim (-1)%Z (-2147483648)%Z None None None [4294967295] None None None []).
Proof. vm_compute. reflexivity. Qed.

(* ---- the loaded trie answers identically (composition of L2, L3 and L4) -----------------
   Build a trie from ANY accepted input, take its bit-level message m (Bits.encode_trie,
   tied to creator.build field by field in check L3), Marshal it, and Unmarshal the bytes
   into an instance in ANY state after ANY history of Unmarshal / Reset calls.  Then GetID,
   Get and searchID, run the way the Go code runs them over the instance's inner message
   and vars (Msg.v: getNode, getLeftChildID, Rank128, leaf prefix, VLenArray.get), return
   exactly the tree model's answers - the answers of the trie that was marshalled.
   [wf_msg (to_wire m)] says that the counts and offsets fit the Go field types (int32 /
   uint32 / uint64) and the body is below 2^63 bytes.  to_wire is the identity on fields.
   The scanners follow in C05_loaded_trie_scans, determinism of the build at the end. *)
Theorem C05_loaded_trie_answers :
  forall (Levels : Type) (init_levels : slim -> Levels) (reset_levels : Levels)
         (conv510 : slim -> slim) (conv3 : list byte -> list byte -> list byte -> slim)
         o keys vals T m vs s (st : inst VarsT Levels) h q fuel,
    build o keys vals = Ok T -> Bits.encode_trie T = Val m -> Bits.init_vars m = Val vs ->
    wf_msg (to_wire m) = true -> marshal_gen (to_wire m) = Some s ->
    (trie_height T <= fuel)%nat ->
    let st' := run compat_gen cur_gen VarsT Levels ivars init_levels reset_levels conv510 conv3 st (h ++ [OpUnmarshal s]) in
    inst_getid Levels st' (S fuel) q = Ok (getid T q) /\
    inst_get Levels st' (S fuel) q = get T q /\
    inst_searchid Levels st' (S fuel) q = Ok (let '(l, e, rr) := searchid T q in (oid l, oid e, oid rr)).
Proof. exact loaded_answers. Qed.
Print Assumptions C05_loaded_trie_answers.

(* ... Search and RangeGet (the stored values of the searchID triple) *)
Theorem C05_loaded_trie_values :
  forall (Levels : Type) (init_levels : slim -> Levels) (reset_levels : Levels)
         (conv510 : slim -> slim) (conv3 : list byte -> list byte -> list byte -> slim)
         o keys vals T m vs s (st : inst VarsT Levels) h q fuel,
    build o keys vals = Ok T -> Bits.encode_trie T = Val m -> Bits.init_vars m = Val vs ->
    wf_msg (to_wire m) = true -> marshal_gen (to_wire m) = Some s ->
    (trie_height T <= fuel)%nat ->
    let st' := run compat_gen cur_gen VarsT Levels ivars init_levels reset_levels conv510 conv3 st (h ++ [OpUnmarshal s]) in
    inst_search Levels st' (S fuel) q = search T q /\
    inst_rangeget Levels st' (S fuel) q = rangeget T q.
Proof. exact loaded_answers_values. Qed.
Print Assumptions C05_loaded_trie_values.

(* ... and scans identically: NewIter (every call of the returned closure, also after
   exhaustion), ScanFrom and ScanFromTo with any callback, run over the loaded instance the
   way the Go code runs them (ScanMsg.v: getGEPath, newIter, next over node ids, getNode,
   Rank128 child ids, VLenArray values), equal Scan.v's results on the tree - about which
   C04 is proved.  (On an incomplete trie both sides are the refusal, Err (EPanic 20).) *)
Theorem C05_loaded_trie_scans :
  forall (Levels : Type) (init_levels : slim -> Levels) (reset_levels : Levels)
         (conv510 : slim -> slim) (conv3 : list byte -> list byte -> list byte -> slim)
         o keys vals T m vs s (st : inst VarsT Levels) h fuel,
    build o keys vals = Ok T -> Bits.encode_trie T = Val m -> Bits.init_vars m = Val vs ->
    wf_msg (to_wire m) = true -> marshal_gen (to_wire m) = Some s ->
    (trie_height T <= fuel)%nat ->
    let st' := run compat_gen cur_gen VarsT Levels ivars init_levels reset_levels conv510 conv3 st (h ++ [OpUnmarshal s]) in
    (forall start incl withv extra,
       inst_iter_all Levels st' fuel (scan_fuel T) start incl withv extra = iter_all T start incl withv extra) /\
    (forall start incl withv fn,
       inst_scan_from Levels st' fuel (scan_fuel T) start incl withv fn = scan_from T start incl withv fn) /\
    (forall start incl e incle withv fn,
       inst_scan_from_to Levels st' fuel (scan_fuel T) start incl e incle withv fn = scan_from_to T start incl e incle withv fn).
Proof. exact loaded_scans. Qed.
Print Assumptions C05_loaded_trie_scans.

(* the hypotheses hold for a concrete built trie: values of unequal widths, both prefix modes *)
Definition e2e_keys : list key :=
  [ ["097"%byte]; ["097"%byte; "098"%byte; "099"%byte]; ["098"%byte; "120"%byte; "121"%byte] ].
Definition e2e_vals : option (list (list byte)) := Some [ ["001"%byte]; []; ["002"%byte; "003"%byte] ].
Definition e2e_opt : opts := {| o_dedup := false; o_inner := true; o_leaf := true |}.

Example C05_loaded_example :
  exists T m vs s, build e2e_opt e2e_keys e2e_vals = Ok T /\ Bits.encode_trie T = Val m /\
    Bits.init_vars m = Val vs /\ wf_msg (to_wire m) = true /\ marshal_gen (to_wire m) = Some s /\
    (trie_height T <= 5)%nat /\ length s = 186%nat.
Proof.
  destruct (build e2e_opt e2e_keys e2e_vals) as [T|] eqn:E; [|vm_compute in E; discriminate].
  vm_compute in E. injection E as <-.
  eexists _, _, _, _. split; [reflexivity|]. split; [vm_compute; reflexivity|]. split; [vm_compute; reflexivity|].
  split; [vm_compute; reflexivity|]. split; [vm_compute; reflexivity|]. split; [vm_compute; repeat constructor|].
  vm_compute. reflexivity.
Qed.

(* ---- determinism of the build ---------------------------------------------------------------
   The only step of creator.build that consults unordered data is sortedBMCounts: it ranges
   over Go maps (iteration order unspecified) and calls sort.Slice (algorithm unspecified,
   not stable).  Whatever order the map yields its (distinct) entries in, and whatever sorted
   arrangement sort.Slice returns, the result is the list the model computes: the comparator
   is a strict total order on distinct entries.  Everything else in the model of the build
   is a Coq function of (options, keys, values); so ShortSize, ShortTable and with them every
   field of the message and every byte of Marshal() are determined by the input.  (The oracle
   additionally rebuilds every case 5 times and compares the bytes.) *)
Theorem C05_build_deterministic :
  forall ins cs nbit s,
    Bits.count_bms ins [] = Val cs ->
    let entries := map (fun e : N * N * N => (snd (fst e), snd e))
                       (filter (fun e => (fst (fst e) =? nbit)%N) cs) in
    Permutation entries s -> StronglySorted BuildDetProofs.cnt_lt s -> s = Bits.cnt_sort entries.
Proof. exact BuildDetProofs.sorted_counts_unique. Qed.
Print Assumptions C05_build_deterministic.

Theorem C05_sort_order_independent :
  forall entries entries', NoDup entries -> Permutation entries entries' ->
    Bits.cnt_sort entries' = Bits.cnt_sort entries.
Proof. exact BuildDetProofs.cnt_sort_order_independent. Qed.
Print Assumptions C05_sort_order_independent.

Example C05_sort_example :
  Bits.cnt_sort [(5, 2); (9, 7); (3, 2); (1, 7)]%N = [(9, 7); (1, 7); (5, 2); (3, 2)]%N /\
  Bits.cnt_sort [(3, 2); (1, 7); (5, 2); (9, 7)]%N = [(9, 7); (1, 7); (5, 2); (3, 2)]%N.
Proof. split; vm_compute; reflexivity. Qed.

From SlimGen Require Gen_Consts.
From Coq Require Import String.

(* ---- the protobuf schema the wire model was written for ----------------------------------
   Gen_Consts.g_proto_fields is REGENERATED on every run from the struct tags of the generated
   *.pb.go files in /repo (message, field, number, Go type, wire kind / repeated / packed):
   a renumbered, retyped, added or removed field of trie.Slim / Bitmap / VLenArray breaks this obligation. *)
Example C05_schema :
  filter (fun r => String.prefix "trie."%string (fst (fst (fst r)))) SlimGen.Gen_Consts.g_proto_fields =
  [("trie.Bitmap"%string, "Words"%string, 20, "[]uint64 varint,20,rep,packed,proto3"%string);
   ("trie.Bitmap"%string, "RankIndex"%string, 30, "[]int32 varint,30,rep,packed,proto3"%string);
   ("trie.Bitmap"%string, "SelectIndex"%string, 40, "[]int32 varint,40,rep,packed,proto3"%string);
   ("trie.VLenArray"%string, "N"%string, 10, "int32 varint,10,opt,proto3"%string);
   ("trie.VLenArray"%string, "EltCnt"%string, 11, "int32 varint,11,opt,proto3"%string);
   ("trie.VLenArray"%string, "PresenceBM"%string, 61, "*Bitmap bytes,61,opt,proto3"%string);
   ("trie.VLenArray"%string, "PositionBM"%string, 20, "*Bitmap bytes,20,opt,proto3"%string);
   ("trie.VLenArray"%string, "FixedSize"%string, 23, "int32 varint,23,opt,proto3"%string);
   ("trie.VLenArray"%string, "Bytes"%string, 30, "[]byte bytes,30,opt,proto3"%string);
   ("trie.Slim"%string, "BigInnerCnt"%string, 11, "int32 varint,11,opt,proto3"%string);
   ("trie.Slim"%string, "ShortSize"%string, 14, "int32 varint,14,opt,proto3"%string);
   ("trie.Slim"%string, "NodeTypeBM"%string, 20, "*Bitmap bytes,20,opt,proto3"%string);
   ("trie.Slim"%string, "Inners"%string, 30, "*Bitmap bytes,30,opt,proto3"%string);
   ("trie.Slim"%string, "ShortBM"%string, 31, "*Bitmap bytes,31,opt,proto3"%string);
   ("trie.Slim"%string, "ShortTable"%string, 32, "[]uint32 varint,32,rep,packed,proto3"%string);
   ("trie.Slim"%string, "InnerPrefixes"%string, 38, "*VLenArray bytes,38,opt,proto3"%string);
   ("trie.Slim"%string, "LeafPrefixes"%string, 58, "*VLenArray bytes,58,opt,proto3"%string);
   ("trie.Slim"%string, "Leaves"%string, 60, "*VLenArray bytes,60,opt,proto3"%string)]%N.
Proof. vm_compute. reflexivity. Qed.
