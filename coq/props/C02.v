(* C02 - RangeGet maps every indexed key to the value of its range.
   Closing theorem only; proofs in theories/SearchProofs.v (rangeget_indexed):
   for a retained key RangeGet follows Get (C01, C10); for a key de-duplicated
   away the exact result is empty, the left result is the last retained key
   before it, and that key carries the same value because every key in between
   was dropped for having its predecessor's value. *)
From Slim Require Import Base Keys Model QueryProofs SearchProofs.
From Slim Require Import BitmapRank Bits Msg MsgProofs.

Theorem C02_rangeget_indexed :
  forall (ropt : raw_opt) keys vals T i k,
    build (normalize ropt) keys vals = Ok T ->
    nth_error keys i = Some k ->
    match vals with Some vs => length vs = length keys | None => True end ->
    exists v, rangeget T k = Ok (Found v) /\ val_bytes v = supplied vals i /\ (vals = None -> v = None).
Proof. intros ropt keys vals T i k. exact (rangeget_indexed (normalize ropt) keys vals T i k). Qed.
Print Assumptions C02_rangeget_indexed.

(* a run that starts at a key which is a prefix of later keys and crosses a branch *)
Definition ex_keys : list key := [ ["097"%byte]; ["097"%byte; "098"%byte]; ["097"%byte; "099"%byte]; ["098"%byte]; ["099"%byte] ].
Definition ex_vals : option (list (list byte)) := Some [ ["001"%byte]; ["001"%byte]; ["001"%byte]; ["001"%byte]; ["002"%byte] ].
Definition ex_opt : raw_opt := {| r_dedup := None; r_inner := None; r_leaf := None; r_complete := None |}.
Example C02_example :
  exists T, build (normalize ex_opt) ex_keys ex_vals = Ok T /\
            retained (normalize ex_opt) ex_keys ex_vals 3 = false /\
            get T ["098"%byte] = Ok NotFound /\
            rangeget T ["098"%byte] = Ok (Found (Some ["001"%byte])).
Proof. eexists. repeat split; vm_compute; reflexivity. Qed.

(* ---- the same through the bit-level message (sub-check L3 ties Msg.v to the code) ----
   RangeGet run the way the Go code runs it over the rank/select bitmaps of the message of the
   built trie (Msg.mrangeget: searchID over getNode / getLeftChildID / Rank128, leftMost /
   rightMost, then getLeaf + VLenArray.get) maps every indexed key to its range value *)
Theorem C02_rangeget_indexed_message :
  forall (ropt : raw_opt) keys vals T m vs i k fuel,
    build (normalize ropt) keys vals = Ok T -> encode_trie T = Val m -> init_vars m = Val vs ->
    trie_height T <= fuel ->
    nth_error keys i = Some k ->
    match vals with Some vs => length vs = length keys | None => True end ->
    exists v, mrangeget (S fuel) m vs k = Ok (Found v) /\ val_bytes v = supplied vals i /\ (vals = None -> v = None).
Proof.
  intros ropt keys vals T m vs i k fuel Hb Em Ev Hf Hk Hl.
  rewrite (mrangeget_rangeget _ _ _ _ _ _ _ _ Hb Em Ev Hf).
  exact (rangeget_indexed (normalize ropt) keys vals T i k Hb Hk Hl).
Qed.
Print Assumptions C02_rangeget_indexed_message.
