(* C02 - RangeGet maps every indexed key to the value of its range.
   Closing theorem only; proofs in theories/SearchProofs.v (rangeget_indexed):
   for a retained key RangeGet follows Get (C01, C10); for a key de-duplicated
   away the exact result is empty, the left result is the last retained key
   before it, and that key carries the same value because every key in between
   was dropped for having its predecessor's value. *)
From Slim Require Import Base Keys Model QueryProofs SearchProofs.

Theorem C02_rangeget_indexed :
  forall (ropt : raw_opt) keys vals T i k,
    build (normalize ropt) keys vals = Ok T ->
    nth_error keys i = Some k ->
    match vals with Some vs => length vs = length keys | None => True end ->
    exists v, rangeget T k = Ok (Found v) /\ val_bytes v = supplied vals i /\ (vals = None -> v = None).
Proof. intros ropt keys vals T i k. exact (rangeget_indexed (normalize ropt) keys vals T i k). Qed.
Print Assumptions C02_rangeget_indexed.

(* a run that starts at a key which is a prefix of later keys and crosses a branch *)
Definition ex_keys : list key := [ ["097"%byte]; ["097"%byte; "098"%byte]; ["097"%byte; "099"%byte]; ["098"%byte]; ["099"%byte] ].
Definition ex_vals : option (list (list byte)) := Some [ ["001"%byte]; ["001"%byte]; ["001"%byte]; ["001"%byte]; ["002"%byte] ].
Definition ex_opt : raw_opt := {| r_dedup := None; r_inner := None; r_leaf := None; r_complete := None |}.
Example C02_example :
  exists T, build (normalize ex_opt) ex_keys ex_vals = Ok T /\
            retained (normalize ex_opt) ex_keys ex_vals 3 = false /\
            get T ["098"%byte] = Ok NotFound /\
            rangeget T ["098"%byte] = Ok (Found (Some ["001"%byte])).
Proof. eexists. repeat split; vm_compute; reflexivity. Qed.
