(* C06f (sub-check of C06) - the legacy branches of SlimTrie.Unmarshal END TO END through the
   instance state machine: bytes of an old writer -> header, version gate, pbcmpl sections,
   protobuf (Frame.unmarshal with the constants regenerated from /repo) -> the legacy
   conversion -> instance state (inner, vars = initVars(inner), levels = initLevels(inner))
   -> the queries run over that instance the way the Go code runs them (EndToEnd.v).

   Instance.v keeps the two conversions abstract (conv510, conv3).  EndToEndLegacy.v
   instantiates them with the functions C06d / C06e / C06c / L3 tie to the code:
     conv510_e2e esize   before000512InnerPrefixTobitstr + before000512FixLeafSize on the
                         parsed message in place (Legacy510.conv510_msg; XXX_unrecognized kept)
     conv3_e2e esz       proto.Unmarshal of the three accepted bodies (ArrWire.parse_array32),
                         the accessors per old id (LegacyBytes.old_of_arrays),
                         before000510ToNewChildrenArray (LegacyConv.convert), c.build() +
                         c.buildLeaves(nil) (Bits.encode_msg on the node view, no prefixes)
   and adds the one serializer that was still missing:
     ser_0510 / marshal_0510   proto.Marshal + pbcmpl.Marshal of the 0.5.10 message: today's
                         fields with the removed scalars 12 / 13 / 15 at their places in tag
                         order; the Example below shows that it reproduces the ARCHIVED file
                         trie/testdata/slimtrie-data-11vl5-allpref-0.5.10 byte for byte.

   For ANY instance state st and ANY history h of Unmarshal / Reset calls:
   (A) C06f_loaded_0510_answers / _scans / _stat: the stream of an 0.5.10 / 0.5.11 writer for
       any trie T of Model.build with fixed-size values is dispatched to the OLegacy510 branch
       with exactly the parsed old message (fields 12 / 13 / 15 in XXX_unrecognized), the
       instance afterwards is installed (converted message) - nothing of st or h survives -,
       and GetID / Get / searchID, NewIter / ScanFrom / ScanFromTo, the level table, Stat() and
       String() over it are the tree model's for T.
   (B) C06f_loaded_arrays_answers: the stream of a three-array writer (six layouts) for any
       strictly ascending key list is dispatched to the OLegacy3 branch, the three bodies parse
       to the writer's messages, conv3 is to_wire of the message c.build() makes of the node
       view of Model.build_gen false, the instance is installed (that message), and GetID /
       Get / searchID over it are the answers of Model.build_gen false legacy_opts keys vals.
       This needed MsgProofs for a builder that starts with isBig = false
       (C06f_message_answers_any_flag) and the identity "node view in id order = flat node
       list of the tree" (C06f_views_are_flat_nodes), so that c.build() on the converted view
       is Bits.encode_trie of the built trie.
   None is _partial for the statement it makes.  Hypotheses that are not discharged (as in
   C05): wf_0510 (the old message is a value of the Go field types and its body is below 2^63
   bytes); for (B) the boundaries of C06e (the old writer accepts the keys: every step fits 16
   bits; at most 2^26 old nodes; value size below 2^31).  Not stated for (B): scans and
   Stat/String over the instance (ScanMsgMainProofs / StatMsgProofs are stated for Model.build
   only; a three-array stream stores no prefixes, so scans are the explicit refusal anyway). *)
From Coq Require Import List NArith ZArith Bool.
From Coq.Strings Require Import Byte.
From Slim Require Import Base Keys KeysProofs Model BitmapRank Flat FlatProofs Msg MsgProofs Stat Str Scan.
From Slim Require Bits Legacy510 LegacyConv LegacyConvMainProofs ArrWire LegacyBytes.
From Slim Require Import Varint Proto Semver Frame Instance Wire EndToEnd EndToEndScan StatMsgInst
     EndToEndLegacy EndToEndLegacyWireProofs EndToEndLegacyMsgProofs EndToEndLegacyProofs.
Import ListNotations.

(* ---------------------------------------------------------------- *)
(* 1. the bytes of the 0.5.10 section and the dispatch                *)
(* ---------------------------------------------------------------- *)

(* proto.Unmarshal(&Slim{}) of the 0.5.10 body: the known fields as written, the removed
   fields 12 / 13 / 15 verbatim (canonical tag + value) in XXX_unrecognized, for ANY
   well-formed message s and ANY values of the three fields *)
Theorem C06f_old_body_parses :
  forall (s : slim) (z12 z13 : Z) (v15 : N),
    wf_slim s = true -> (v15 < two64)%N ->
    parse_slim (ser_toks (toks_old_slim s z12 z13 v15)) = Some (set_unk s (ser_toks (toks_removed z12 z13 v15))).
Proof. exact parse_old_slim. Qed.
Print Assumptions C06f_old_body_parses.

(* the loader's conversions read the fields of Legacy510.parse510: what protobuf keeps of
   12 / 13 / 15 does not reach them *)
Theorem C06f_parsed_fields : forall o : Legacy510.msg510, of_wire (wire_0510 o) = Legacy510.parse510 o.
Proof. exact of_wire_0510. Qed.
Print Assumptions C06f_parsed_fields.

(* SlimTrie.Unmarshal's reading part on the section an 0.5.10 / 0.5.11 writer framed: the
   0.5.10 branch, with exactly the parsed old message *)
Theorem C06f_dispatch_0510 :
  forall (ver : list byte) (o : Legacy510.msg510) (s : list byte),
    (ver = ver_0_5_10 \/ ver = ver_0_5_11) -> wf_0510 o = true -> marshal_0510 ver o = Some s ->
    unmarshal_gen s = OLegacy510 (wire_0510 o).
Proof. exact unmarshal_0510. Qed.
Print Assumptions C06f_dispatch_0510.

Theorem C06f_marshal_0510_total :
  forall (ver : list byte) (o : Legacy510.msg510),
    (ver = ver_0_5_10 \/ ver = ver_0_5_11) -> exists s, marshal_0510 ver o = Some s.
Proof. exact marshal_0510_total. Qed.
Print Assumptions C06f_marshal_0510_total.

(* whatever the state and the history: an Unmarshal that is dispatched to a legacy branch
   leaves installed (conv ..) - inner, vars and levels all re-initialised from the converted
   message (for ANY instantiation of the machine) *)
Theorem C06f_legacy_load_state :
  forall (compat : list str) (cur : str) (Vars Levels : Type) (init_vars : slim -> Vars) (init_levels : slim -> Levels)
         (reset_levels : Levels) (conv510 : slim -> slim) (conv3 : list byte -> list byte -> list byte -> slim)
         (h : list op) (st : inst Vars Levels) (b : list byte),
    (forall w, unmarshal compat cur b = OLegacy510 w ->
       run compat cur Vars Levels init_vars init_levels reset_levels conv510 conv3 st (h ++ [OpUnmarshal b])
       = installed Vars Levels init_vars init_levels (conv510 w)) /\
    (forall c s l, unmarshal compat cur b = OLegacy3 c s l ->
       run compat cur Vars Levels init_vars init_levels reset_levels conv510 conv3 st (h ++ [OpUnmarshal b])
       = installed Vars Levels init_vars init_levels (conv3 c s l)).
Proof.
  exact (fun compat cur Vars Levels iv il rl c5 c3 h st b =>
    conj (fun w H => run_legacy510 compat cur Vars Levels iv il rl c5 c3 h st b w H)
         (fun c s l H => run_legacy3 compat cur Vars Levels iv il rl c5 c3 h st b c s l H)).
Qed.
Print Assumptions C06f_legacy_load_state.

(* ---------------------------------------------------------------- *)
(* 2. (A) 0.5.10 / 0.5.11 end to end                                  *)
(* ---------------------------------------------------------------- *)
Theorem C06f_loaded_0510_answers :
  forall (Levels : Type) (init_levels : slim -> Levels) (reset_levels : Levels) (esize : N) (esz : nat)
         (o : opts) (keys : list key) (vals : option (list (list byte))) (T : trie)
         (ver : list byte) (Om : Legacy510.msg510) (s : list byte) (st : inst VarsT Levels) (h : list op),
    build o keys vals = Ok T -> Legacy510.leaves_fixed esize T ->
    Legacy510.encode_0510 T = Val Om -> wf_0510 Om = true ->
    (ver = ver_0_5_10 \/ ver = ver_0_5_11) -> marshal_0510 ver Om = Some s ->
    let st' := run_legacy Levels init_levels reset_levels esize esz st (h ++ [OpUnmarshal s]) in
    exists L : Bits.msg,
      unmarshal_gen s = OLegacy510 (wire_0510 Om) /\
      Legacy510.load510 esize Om = Ok L /\
      st' = installed_legacy Levels init_levels (set_unk (to_wire L) (unk_0510 Om)) /\
      forall (q : key) (fuel : nat), (trie_height T <= fuel)%nat ->
        inst_getid Levels st' (S fuel) q = Ok (getid T q) /\
        inst_get Levels st' (S fuel) q = get T q /\
        inst_searchid Levels st' (S fuel) q = Ok (let '(l, e, rr) := searchid T q in (oid l, oid e, oid rr)).
Proof. exact loaded_0510_answers. Qed.
Print Assumptions C06f_loaded_0510_answers.

Theorem C06f_loaded_0510_scans :
  forall (Levels : Type) (init_levels : slim -> Levels) (reset_levels : Levels) (esize : N) (esz : nat)
         (o : opts) (keys : list key) (vals : option (list (list byte))) (T : trie)
         (ver : list byte) (Om : Legacy510.msg510) (s : list byte) (st : inst VarsT Levels) (h : list op) (fuel : nat),
    build o keys vals = Ok T -> Legacy510.leaves_fixed esize T ->
    Legacy510.encode_0510 T = Val Om -> wf_0510 Om = true ->
    (ver = ver_0_5_10 \/ ver = ver_0_5_11) -> marshal_0510 ver Om = Some s ->
    (trie_height T <= fuel)%nat ->
    let st' := run_legacy Levels init_levels reset_levels esize esz st (h ++ [OpUnmarshal s]) in
    (forall start incl withv extra,
       inst_iter_all Levels st' fuel (scan_fuel T) start incl withv extra = iter_all T start incl withv extra) /\
    (forall start incl withv fn,
       inst_scan_from Levels st' fuel (scan_fuel T) start incl withv fn = scan_from T start incl withv fn) /\
    (forall start incl e incle withv fn,
       inst_scan_from_to Levels st' fuel (scan_fuel T) start incl e incle withv fn = scan_from_to T start incl e incle withv fn).
Proof. exact loaded_0510_scans. Qed.
Print Assumptions C06f_loaded_0510_scans.

Theorem C06f_loaded_0510_stat :
  forall (esize : N) (esz : nat) (o : opts) (keys : list key) (vals : option (list (list byte))) (T : trie)
         (ver : list byte) (Om : Legacy510.msg510) (s : list byte) (st : inst VarsT LevelsT) (h : list op),
    build o keys vals = Ok T -> Legacy510.leaves_fixed esize T ->
    Legacy510.encode_0510 T = Val Om -> wf_0510 Om = true ->
    (ver = ver_0_5_10 \/ ver = ver_0_5_11) -> marshal_0510 ver Om = Some s ->
    let st' := run_legacy LevelsT ilevels reset_lv esize esz st (h ++ [OpUnmarshal s]) in
    inst_levels st' = Ok (levels T) /\ inst_stat st' = stat T /\
    forall fuel : nat, (trie_height T <= fuel)%nat -> inst_render st' fuel = render T.
Proof. exact loaded_0510_stat. Qed.
Print Assumptions C06f_loaded_0510_stat.

(* ---------------------------------------------------------------- *)
(* 3. (B) three-array layouts end to end                              *)
(* ---------------------------------------------------------------- *)

(* MsgProofs for a builder with ANY initial isBig flag (Model.build = build_gen true; the
   legacy loader's creator starts with isBig = false) *)
Theorem C06f_message_answers_any_flag :
  forall (b0 : bool) (o : opts) (keys : list key) (vals : option (list (list byte))) (T : trie)
         (m : Bits.msg) (vs : Bits.vars) (q : key) (fuel : nat),
    build_gen b0 o keys vals = Ok T -> Bits.encode_trie T = Val m -> Bits.init_vars m = Val vs ->
    (trie_height T <= fuel)%nat ->
    mgetid (S fuel) m vs q = Ok (getid T q) /\
    mget (S fuel) m vs q = get T q /\
    msearchid (S fuel) m vs q = Ok (let '(l, e, rr) := searchid T q in (oid l, oid e, oid rr)) /\
    msearch (S fuel) m vs q = search T q /\
    mrangeget (S fuel) m vs q = rangeget T q.
Proof.
  exact (fun b0 o keys vals T m vs q fuel Hb Em Ev Hf =>
    conj (mgetid_getid_g b0 o keys vals T m vs q fuel Hb Em Ev Hf)
    (conj (mget_get_g b0 o keys vals T m vs q fuel Hb Em Ev Hf)
    (conj (msearchid_searchid_g b0 o keys vals T m vs q fuel Hb Em Ev Hf)
    (conj (msearch_search_g b0 o keys vals T m vs q fuel Hb Em Ev Hf)
          (mrangeget_rangeget_g b0 o keys vals T m vs q fuel Hb Em Ev Hf))))).
Qed.
Print Assumptions C06f_message_answers_any_flag.

(* the node view in id order (what C06c / C06e prove the conversion returns) IS the flat
   node list creator.build is modelled on: c.build() on it is Bits.encode_trie *)
Theorem C06f_views_are_flat_nodes :
  forall (b0 : bool) (o : opts) (keys : list key) (vals : option (list (list byte))) (T : trie) (r : tree)
         (views : list nview),
    build_gen b0 o keys vals = Ok T -> t_root T = Some r ->
    LegacyConvMainProofs.trie_views T views -> views = Bits.flat_nodes r.
Proof. exact views_flat. Qed.
Print Assumptions C06f_views_are_flat_nodes.

Theorem C06f_loaded_arrays_answers :
  forall (Levels : Type) (init_levels : slim -> Levels) (reset_levels : Levels) (esize : N) (esz : nat)
         (l : LegacyBytes.layout) (keys : list key) (vals : list (list byte)) (ot : LegacyConv.old_trie)
         (b : list byte) (st : inst VarsT Levels) (h : list op),
    In l LegacyBytes.layouts ->
    AdjSorted keys -> length vals = length keys -> LegacyBytes.vals_ok esz vals = true ->
    LegacyConv.old_write (LegacyBytes.l_leafsteps l) keys = Ok ot ->
    (N.of_nat (length ot) <= 2 ^ 26)%N -> (N.of_nat esz < 2 ^ 31)%N ->
    LegacyBytes.write_stream l keys vals = LegacyBytes.LOk b ->
    let st' := run_legacy Levels init_levels reset_levels esize esz st (h ++ [OpUnmarshal b]) in
    exists (T : trie) (views : list nview) (m : Bits.msg) (c s sl : list byte),
      build_gen false LegacyConv.legacy_opts keys (Some vals) = Ok T /\
      unmarshal_gen b = OLegacy3 c s sl /\
      LegacyBytes.load_stream esz b = LegacyBytes.LOk (views, t_leaves T) /\
      build_views views (t_leaves T) = Val m /\
      conv3_e2e esz c s sl = to_wire m /\
      st' = installed_legacy Levels init_levels (to_wire m) /\
      forall (q : key) (fuel : nat), (trie_height T <= fuel)%nat ->
        inst_getid Levels st' (S fuel) q = Ok (getid T q) /\
        inst_get Levels st' (S fuel) q = get T q /\
        inst_searchid Levels st' (S fuel) q = Ok (let '(l0, e, rr) := searchid T q in (oid l0, oid e, oid rr)).
Proof. exact loaded_arrays_answers. Qed.
Print Assumptions C06f_loaded_arrays_answers.

(* ---------------------------------------------------------------- *)
(* Examples: the key set 11vl5 of the archived fixtures
   (abc abcd abcdx abcdy abcdz abd abde bc bcd bcde cde), values int32 0..10, and the two
   ARCHIVED files trie/testdata/slimtrie-data-11vl5-allpref-0.5.10 (233 bytes) and
   trie/testdata/slimtrie-data-11vl5-0.5.9 (216 bytes), copied byte for byte. *)
Local Open Scope N_scope.
Definition ex_bs (l : list N) : list byte :=
  map (fun n => match Byte.of_N n with Some b => b | None => "000"%byte end) l.
Definition ex_keys : list key := map ex_bs
  [[97;98;99]; [97;98;99;100]; [97;98;99;100;120]; [97;98;99;100;121]; [97;98;99;100;122];
   [97;98;100]; [97;98;100;101]; [98;99]; [98;99;100]; [98;99;100;101]; [99;100;101]].
Definition ex_vals : list (list byte) := map (fun i => ex_bs [i; 0; 0; 0]) [0;1;2;3;4;5;6;7;8;9;10].
Definition ex_opts : opts := {| o_dedup := false; o_inner := true; o_leaf := true |}.
Definition ex_T : trie := match build ex_opts ex_keys (Some ex_vals) with Ok T => T | Err _ => empty_trie end.
Definition ex_Om : Legacy510.msg510 :=
  match Legacy510.encode_0510 ex_T with Val Om => Om | Panic => Legacy510.mkOld Bits.empty_msg 0 0%Z 0 end.

Definition file_0510 : list byte := ex_bs
  [48; 46; 53; 46; 49; 48; 0; 0; 0; 0; 0; 0; 0; 0; 0; 0; 32; 0; 0; 0; 0; 0; 0; 0; 201; 0; 0; 0; 0; 0; 0; 0;
   104; 239; 255; 255; 255; 255; 255; 255; 255; 255; 1; 162; 1; 10; 162; 1; 3; 183; 133; 2; 242; 1; 1; 0; 242; 1; 25; 162; 1; 17; 156; 128;
   128; 131; 192; 192; 128; 132; 4; 144; 144; 128; 129; 129; 136; 16; 7; 242; 1; 2; 0; 15; 250; 1; 8; 162; 1; 1; 0; 242; 1; 1; 0; 130;
   2; 1; 0; 178; 2; 44; 88; 5; 162; 1; 14; 162; 1; 2; 165; 21; 242; 1; 2; 0; 6; 194; 2; 1; 0; 242; 1; 11; 1; 104; 1; 98;
   104; 0; 99; 0; 100; 0; 100; 234; 3; 8; 162; 1; 1; 103; 242; 1; 1; 0; 210; 3; 34; 162; 1; 13; 162; 1; 1; 29; 242; 1; 2; 0;
   4; 194; 2; 1; 0; 242; 1; 4; 100; 101; 101; 101; 234; 3; 8; 162; 1; 1; 81; 242; 1; 1; 0; 226; 3; 47; 242; 1; 44; 10; 0; 0;
   0; 7; 0; 0; 0; 0; 0; 0; 0; 5; 0; 0; 0; 6; 0; 0; 0; 8; 0; 0; 0; 9; 0; 0; 0; 1; 0; 0; 0; 2; 0; 0;
   0; 3; 0; 0; 0; 4; 0; 0; 0].
Definition file_059 : list byte := ex_bs
  [48; 46; 53; 46; 57; 0; 0; 0; 0; 0; 0; 0; 0; 0; 0; 0; 32; 0; 0; 0; 0; 0; 0; 0; 44; 0; 0; 0; 0; 0; 0; 0;
   8; 8; 18; 2; 247; 9; 26; 1; 0; 80; 3; 160; 1; 16; 242; 1; 27; 80; 123; 162; 1; 17; 142; 128; 224; 128; 128; 136; 128; 32; 192; 128;
   128; 130; 128; 144; 128; 128; 7; 242; 1; 2; 0; 13; 48; 46; 53; 46; 57; 0; 0; 0; 0; 0; 0; 0; 0; 0; 0; 0; 32; 0; 0; 0;
   0; 0; 0; 0; 21; 0; 0; 0; 0; 0; 0; 0; 8; 5; 18; 2; 199; 1; 26; 1; 0; 34; 10; 2; 0; 4; 0; 3; 0; 2; 0; 2;
   0; 48; 46; 53; 46; 57; 0; 0; 0; 0; 0; 0; 0; 0; 0; 0; 0; 32; 0; 0; 0; 0; 0; 0; 0; 55; 0; 0; 0; 0; 0; 0;
   0; 8; 11; 18; 2; 252; 119; 26; 1; 0; 34; 44; 7; 0; 0; 0; 10; 0; 0; 0; 0; 0; 0; 0; 5; 0; 0; 0; 8; 0; 0; 0;
   1; 0; 0; 0; 6; 0; 0; 0; 9; 0; 0; 0; 2; 0; 0; 0; 3; 0; 0; 0; 4; 0; 0; 0].

(* the model's writer of the 0.5.10 section (encode_0510 + ser_0510 + pbcmpl frame) produces
   the archived 0.5.10 file, the three-array writer the archived 0.5.9 file *)
Example ex_writers_reproduce_archive :
  marshal_0510 ver_0_5_10 ex_Om = Some file_0510 /\
  LegacyBytes.write_stream LegacyBytes.a059 ex_keys ex_vals = LegacyBytes.LOk file_059.
Proof. split; vm_compute; reflexivity. Qed.

(* the hypotheses of (A) hold on it; the three removed fields are really in the stream and
   end up in XXX_unrecognized (field 13 = -17: ten bytes) *)
Example ex_hypotheses_0510 :
  build ex_opts ex_keys (Some ex_vals) = Ok ex_T /\ Legacy510.leaves_fixed 4 ex_T /\
  Legacy510.encode_0510 ex_T = Val ex_Om /\ wf_0510 ex_Om = true /\
  (Legacy510.o_bigoff ex_Om, Legacy510.o_shortminus ex_Om, Legacy510.o_mask ex_Om) = (0, (-17)%Z, 0) /\
  unk_0510 ex_Om = ex_bs [104; 239; 255; 255; 255; 255; 255; 255; 255; 255; 1] /\
  unmarshal_gen file_0510 = OLegacy510 (wire_0510 ex_Om) /\
  (trie_height ex_T <= 8)%nat.
Proof.
  split; [vm_compute; reflexivity|].
  split; [apply (Legacy510QueryProofs.built_leaves_fixed ex_opts ex_keys (Some ex_vals)); [vm_compute; reflexivity|];
          split; [reflexivity|]; vm_compute; repeat constructor|].
  split; [vm_compute; reflexivity|]. split; [vm_compute; reflexivity|]. split; [vm_compute; reflexivity|].
  split; [vm_compute; reflexivity|]. split; [vm_compute; reflexivity|]. vm_compute. repeat constructor.
Qed.

(* the machine run on the REAL archived bytes, after a history that left other data behind
   (a Reset, and a load of the 0.5.9 file): Get of abd is its value 5, of abx nothing;
   and the other way round *)
Definition ex_run (h : list op) : inst VarsT unit :=
  run_legacy unit (fun _ => tt) tt 4 4 (fresh VarsT unit ivars (fun _ => tt)) h.

Example ex_machine_on_archived_files :
  inst_get unit (ex_run [OpReset; OpUnmarshal file_059; OpUnmarshal file_0510]) 9 (ex_bs [97; 98; 100]) = Ok (Found (Some (ex_bs [5; 0; 0; 0]))) /\
  inst_get unit (ex_run [OpReset; OpUnmarshal file_059; OpUnmarshal file_0510]) 9 (ex_bs [97; 98; 120]) = Ok NotFound /\
  inst_get unit (ex_run [OpUnmarshal file_0510; OpUnmarshal file_059]) 9 (ex_bs [97; 98; 100]) = Ok (Found (Some (ex_bs [5; 0; 0; 0]))) /\
  inst_getid unit (ex_run [OpUnmarshal file_0510; OpUnmarshal file_059]) 9 (ex_bs [99; 100; 101]) =
    Ok (match build_gen false LegacyConv.legacy_opts ex_keys (Some ex_vals) with Ok T => getid T (ex_bs [99; 100; 101]) | Err _ => None end).
Proof. vm_compute. repeat split; reflexivity. Qed.

(* the hypotheses of (B) hold on it *)
Example ex_hypotheses_arrays :
  In LegacyBytes.a059 LegacyBytes.layouts /\ AdjSorted ex_keys /\ length ex_vals = length ex_keys /\
  LegacyBytes.vals_ok 4 ex_vals = true /\
  (exists ot, LegacyConv.old_write (LegacyBytes.l_leafsteps LegacyBytes.a059) ex_keys = Ok ot /\ (N.of_nat (length ot) <= 2 ^ 26)) /\
  (N.of_nat 4 < 2 ^ 31) /\
  (exists c s l, unmarshal_gen file_059 = OLegacy3 c s l /\ (length c, length s, length l) = (44%nat, 21%nat, 55%nat)).
Proof.
  split; [cbn; tauto|]. split; [apply check_order_none; vm_compute; reflexivity|].
  split; [reflexivity|]. split; [vm_compute; reflexivity|].
  split; [eexists; split; [vm_compute; reflexivity|vm_compute; discriminate]|].
  split; [vm_compute; reflexivity|]. eexists _, _, _. split; vm_compute; reflexivity.
Qed.
