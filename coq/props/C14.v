(* C14 - Typed integer getters agree with Get.  Closing theorems only; the proofs
   are in theories/GetIntProofs.v (model: theories/GetInt.v).

   [geti w] is GetI8/GetI16/GetI32/GetI64 for w = 1/2/4/8: GetID, the leaf
   ordinal, the slice Leaves.Bytes[ith*w : ith*w+w] of the packed leaf buffer
   and the shift/or expression evaluated with Go's wrapping signed conversions
   (a nil leaf array or a slice beyond the buffer are explicit panic outcomes).
   [get] is Get on the same trie (the stored bytes of the leaf); the number Get's
   caller sees is the decoder of the matching encoder applied to those bytes,
   [int_decode c] of C15, which returns the encoded number (C15_int_generic).

   The theorems hold for EVERY query string (indexed or not), every option
   combination (the trie may have de-duplicated leaves), all key lists and all
   value lists over the full range of the integer type.  A loaded trie is the
   same model value as the trie it was marshalled from (C05), so the statement
   covers loaded tries.  What ties [geti w] to the four Go functions, and the
   widths 1/2/4/8 to their names, is the correspondence of this check. *)
From Coq Require Import String.
From Coq Require Import List ZArith NArith Bool Lia.
From Coq.Strings Require Import Byte.
From Slim Require Import Base Keys Model GetInt GetIntProofs.
From Slim Require Encoders EncodersProofs.
From SlimGen Require Gen_IntCodecs.
Import ListNotations.

(* the shift/or expression with Go's signed wrap-around is the little-endian
   two's complement decode, for every width and all bytes *)
Theorem C14_expression_is_signed_le_decode :
  forall (w : nat) (bs : list byte), List.length bs = w -> 0 < w -> geti_value w bs = le_signed w bs.
Proof. exact geti_value_decode. Qed.
Print Assumptions C14_expression_is_signed_le_decode.

(* on a trie whose values all have width w: for every query, the typed getter
   computes exactly "Get, then decode"; Get's hit carries a supplied value and
   the getter reports its decode *)
Theorem C14_geti_is_get_then_decode :
  forall (ropt : raw_opt) (keys : list key) (vs : list (list byte)) (T : trie) (w : nat) (q : key),
    build (normalize ropt) keys (Some vs) = Ok T ->
    List.length vs = List.length keys -> Forall (fun v => List.length v = w) vs -> 0 < w ->
    geti w T q = get_then_decode w T q /\
    ((get T q = Ok NotFound /\ geti w T q = Ok (0%Z, false)) \/
     (exists i b, i < List.length keys /\ nth_error vs i = Some b /\
                  get T q = Ok (Found (Some b)) /\ geti w T q = Ok (le_signed w b, true))).
Proof. intros ropt keys vs T w q. exact (geti_agrees (normalize ropt) keys vs T w q). Qed.
Print Assumptions C14_geti_is_get_then_decode.

(* the property: values are numbers of the integer type encoded with the
   matching (signed, little-endian, w-byte) encoder; for every query the getter
   returns Get's found flag, and on a hit the number z whose encoding Get found,
   which is the number Get's decoder returns *)
Theorem C14_typed_getters_agree_with_get :
  forall (c : Encoders.icodec) (ropt : raw_opt) (keys : list key) (zs : list Z) (T : trie) (q : key),
    Encoders.ic_signed c = true -> Encoders.ic_big c = false -> 0 < Encoders.ic_width c ->
    Forall (Encoders.in_range true (Encoders.ic_width c)) zs -> List.length zs = List.length keys ->
    build (normalize ropt) keys (Some (map (Encoders.int_encode c) zs)) = Ok T ->
    (get T q = Ok NotFound /\ geti (Encoders.ic_width c) T q = Ok (0%Z, false)) \/
    (exists i z, i < List.length keys /\ nth_error zs i = Some z /\
                 get T q = Ok (Found (Some (Encoders.int_encode c z))) /\
                 Encoders.int_decode c (Encoders.int_encode c z) = Encoders.DOk (Encoders.ic_width c, z) /\
                 geti (Encoders.ic_width c) T q = Ok (z, true)).
Proof. intros c ropt keys zs T q. exact (geti_same_number c (normalize ropt) keys zs T q). Qed.
Print Assumptions C14_typed_getters_agree_with_get.

(* the codecs I8, I16, I32, I64 as read from encode/int.go and int8.go satisfy
   the hypotheses, with widths 1, 2, 4, 8 *)
Example C14_codecs_of_the_source :
  map (fun n => match Encoders.find_src_codec n Gen_IntCodecs.g_int_codecs with
                | Some g => let c := Encoders.codec_of_src g in
                            Some (Encoders.ic_width c, Encoders.ic_signed c, Encoders.ic_big c)
                | None => None
                end) ["I8"; "I16"; "I32"; "I64"]%string
  = [Some (1, true, false); Some (2, true, false); Some (4, true, false); Some (8, true, false)].
Proof. vm_compute. reflexivity. Qed.

(* non-vacuity: int16 values min, -1, max with a de-duplicated run; an absent
   key that is a false positive returns the same number through both paths *)
Definition ex_c16 : Encoders.icodec :=
  {| Encoders.ic_width := 2; Encoders.ic_signed := true; Encoders.ic_big := false |}.
Definition ex_keys : list key :=
  [ ["097"%byte]; ["097"%byte; "098"%byte; "099"%byte]; ["098"%byte]; ["099"%byte] ].
Definition ex_zs : list Z := [(-32768)%Z; (-1)%Z; (-1)%Z; 32767%Z].
Definition ex_opt : raw_opt := {| r_dedup := None; r_inner := None; r_leaf := None; r_complete := None |}.
Example C14_example :
  exists T, build (normalize ex_opt) ex_keys (Some (map (Encoders.int_encode ex_c16) ex_zs)) = Ok T /\
            geti 2 T ["097"%byte] = Ok ((-32768)%Z, true) /\
            geti 2 T ["097"%byte; "109"%byte] = Ok ((-1)%Z, true) /\
            get T ["097"%byte; "109"%byte] = Ok (Found (Some ["255"%byte; "255"%byte])) /\
            geti 2 T ["099"%byte] = Ok (32767%Z, true) /\
            geti 2 T ["098"%byte] = Ok (0%Z, false) /\
            get T ["098"%byte] = Ok NotFound.
Proof. eexists. split; [vm_compute; reflexivity|]. vm_compute. repeat split. Qed.

(* ------------------------------------------------------------------------------------
   C14 THROUGH THE BITMAPS (message level, L3).  [encode_trie T] is the protobuf message of
   the built trie as data (Bits.v: 64-bit words with their rank/select indexes, packed
   label bitmaps, short-node table, VLenArrays) and [init_vars] is initVars.
   [mgeti w] (GetIntMsg.v) is GetI8/16/32/64 computed from that message the way the Go code
   does: GetID over the bitmaps (Msg.mgetid), getLeafIndex = id - Rank64(NodeTypeBM, id), the
   slice Leaves.Bytes[ith*w : ith*w+w] read directly from the packed buffer of the Leaves
   VLenArray (a nil Leaves / a slice beyond the buffer are explicit panic outcomes), the
   shift/or expression.  [mget] (Msg.v) is Get computed from the message (getNode,
   getLeftChildID, getLeafPrefix, VLenArray.get through the presence bitmap).  The fuel
   bounds the number of nodes visited; any value from the height of the trie on will do.
   Proofs in theories/GetIntMsgProofs.v (on top of MsgProofs.v and the L3 refinement). *)
From Slim Require Import BitmapRank BitmapRank2 Bits Msg MsgProofs GetIntMsg GetIntMsgProofs.

(* every built trie has a message and initVars accepts it: the hypotheses below are satisfiable *)
Theorem C14_message_exists :
  forall (ropt : raw_opt) (keys : list key) (vals : option (list (list byte))) (T : trie),
    build (normalize ropt) keys vals = Ok T ->
    exists m vs, encode_trie T = Val m /\ init_vars m = Val vs.
Proof. intros ropt keys vals T. exact (built_message_exists (normalize ropt) keys vals T). Qed.
Print Assumptions C14_message_exists.

(* the getters computed from the message are the getters of the tree model: for every built
   trie (any values, any width), every query *)
Theorem C14_message_getters_are_the_tree_getters :
  forall (ropt : raw_opt) (keys : list key) (vals : option (list (list byte))) (T : trie)
         (m : msg) (vs : vars) (w : nat) (q : key) (fuel : nat),
    build (normalize ropt) keys vals = Ok T -> encode_trie T = Val m -> init_vars m = Val vs ->
    trie_height T <= fuel ->
    mgeti w (S fuel) m vs q = geti w T q /\ mget (S fuel) m vs q = get T q.
Proof. intros ropt keys vals T m vs w q fuel. exact (mgeti_mget_tree (normalize ropt) keys vals T m vs w q fuel). Qed.
Print Assumptions C14_message_getters_are_the_tree_getters.

(* C14_geti_is_get_then_decode, computed from the message *)
Theorem C14_message_geti_is_get_then_decode :
  forall (ropt : raw_opt) (keys : list key) (vls : list (list byte)) (T : trie)
         (m : msg) (vs : vars) (w : nat) (q : key) (fuel : nat),
    build (normalize ropt) keys (Some vls) = Ok T -> encode_trie T = Val m -> init_vars m = Val vs ->
    trie_height T <= fuel ->
    List.length vls = List.length keys -> Forall (fun v => List.length v = w) vls -> 0 < w ->
    mgeti w (S fuel) m vs q = mget_then_decode w (S fuel) m vs q /\
    ((mget (S fuel) m vs q = Ok NotFound /\ mgeti w (S fuel) m vs q = Ok (0%Z, false)) \/
     (exists i b, i < List.length keys /\ nth_error vls i = Some b /\
                  mget (S fuel) m vs q = Ok (Found (Some b)) /\
                  mgeti w (S fuel) m vs q = Ok (le_signed w b, true))).
Proof. intros ropt keys vls T m vs w q fuel. exact (mgeti_agrees (normalize ropt) keys vls T m vs w q fuel). Qed.
Print Assumptions C14_message_geti_is_get_then_decode.

(* the property, computed from the message: values are numbers of the integer type encoded
   with the matching codec; for every query the typed getter run over the bitmaps returns the
   found flag of Get run over the bitmaps and, on a hit, the number whose encoding Get found *)
Theorem C14_message_level :
  forall (c : Encoders.icodec) (ropt : raw_opt) (keys : list key) (zs : list Z) (T : trie)
         (m : msg) (vs : vars) (q : key) (fuel : nat),
    Encoders.ic_signed c = true -> Encoders.ic_big c = false -> 0 < Encoders.ic_width c ->
    Forall (Encoders.in_range true (Encoders.ic_width c)) zs -> List.length zs = List.length keys ->
    build (normalize ropt) keys (Some (map (Encoders.int_encode c) zs)) = Ok T ->
    encode_trie T = Val m -> init_vars m = Val vs -> trie_height T <= fuel ->
    (mget (S fuel) m vs q = Ok NotFound /\ mgeti (Encoders.ic_width c) (S fuel) m vs q = Ok (0%Z, false)) \/
    (exists i z, i < List.length keys /\ nth_error zs i = Some z /\
                 mget (S fuel) m vs q = Ok (Found (Some (Encoders.int_encode c z))) /\
                 Encoders.int_decode c (Encoders.int_encode c z) = Encoders.DOk (Encoders.ic_width c, z) /\
                 mgeti (Encoders.ic_width c) (S fuel) m vs q = Ok (z, true)).
Proof. intros c ropt keys zs T m vs q fuel. exact (mgeti_same_number c (normalize ropt) keys zs T m vs q fuel). Qed.
Print Assumptions C14_message_level.

(* non-vacuity: the int16 example above, the getters computed from the message *)
Example C14_message_example :
  exists T m vs, build (normalize ex_opt) ex_keys (Some (map (Encoders.int_encode ex_c16) ex_zs)) = Ok T /\
            encode_trie T = Val m /\ init_vars m = Val vs /\ trie_height T <= 3 /\
            option_map v_bytes (m_leaves m) = Some ["255"; "127"; "000"; "128"; "255"; "255"]%byte /\   (* breadth-first leaf order: "c", "a", "abc" *)
            mgeti 2 4 m vs ["097"%byte] = Ok ((-32768)%Z, true) /\
            mgeti 2 4 m vs ["097"%byte; "109"%byte] = Ok ((-1)%Z, true) /\
            mget 4 m vs ["097"%byte; "109"%byte] = Ok (Found (Some ["255"%byte; "255"%byte])) /\
            mgeti 2 4 m vs ["099"%byte] = Ok (32767%Z, true) /\
            mgeti 2 4 m vs ["098"%byte] = Ok (0%Z, false) /\
            mget 4 m vs ["098"%byte] = Ok NotFound.
Proof. eexists. eexists. eexists. split; [vm_compute; reflexivity|]. split; [vm_compute; reflexivity|]. split; [vm_compute; reflexivity|]. vm_compute. repeat split; apply le_n. Qed.
