(* C03 - Complete mode is an exact ordered map for arbitrary query strings.
   Closing theorem only; proofs in theories/OrderProofs.v and SearchProofs.v.

   With inner and leaf prefixes stored (Complete, or InnerPrefix+LeafPrefix), for
   EVERY query string q the retained entries (in key order) split as Bl ++ Ar or
   Bl ++ x :: Ar with every key of Bl below q, every key of Ar above q and x's
   key equal to q (plain bytewise order, [key_lt]); Get/GetID report found exactly
   in the second case, with x's value; Search returns the values of last(Bl), x,
   head(Ar); RangeGet returns x's value, else last(Bl)'s, else not-found. *)
From Slim Require Import Base Keys KeysProofs Model TrieInv BuildProofs QueryProofs OrderProofs SearchProofs.
From Slim Require Import BitmapRank Bits Msg MsgProofs.

Theorem C03_complete_exact :
  forall (ropt : raw_opt) keys vals T q,
    build (normalize ropt) keys vals = Ok T -> keys <> [] ->
    o_inner (normalize ropt) = true -> o_leaf (normalize ropt) = true ->
    let root := root_subset (normalize ropt) keys vals in
    let sv := fun x => stored T vals (e_idx x) in
    exists Bl Ar,
      Forall (fun x => key_lt (e_key x) q) Bl /\ Forall (fun x => key_lt q (e_key x)) Ar /\
      ((kept root = Bl ++ Ar /\ getid T q = None /\ get T q = Ok NotFound /\
        search T q = Ok (option_map sv (last_opt Bl), None, option_map sv (hd_opt Ar)) /\
        rangeget T q = Ok (match last_opt Bl with Some x => Found (sv x) | None => NotFound end))
       \/
       (exists x, kept root = Bl ++ x :: Ar /\ e_key x = q /\ (exists id, getid T q = Some id) /\
                  get T q = Ok (Found (sv x)) /\
                  search T q = Ok (option_map sv (last_opt Bl), Some (sv x), option_map sv (hd_opt Ar)) /\
                  rangeget T q = Ok (Found (sv x)))).
Proof. intros ropt keys vals T q. exact (complete_exact (normalize ropt) keys vals T q). Qed.
Print Assumptions C03_complete_exact.

(* Complete implies both prefixes, whatever the other option fields say *)
Theorem C03_complete_option :
  forall d i l, o_inner (normalize {| r_dedup := d; r_inner := i; r_leaf := l; r_complete := Some true |}) = true /\
                o_leaf (normalize {| r_dedup := d; r_inner := i; r_leaf := l; r_complete := Some true |}) = true.
Proof. intros d i l. split; reflexivity. Qed.
Print Assumptions C03_complete_option.

(* the empty key set: nothing is found *)
Theorem C03_empty : forall ropt vals T q, build (normalize ropt) [] vals = Ok T ->
  getid T q = None /\ get T q = Ok NotFound /\ rangeget T q = Ok NotFound /\ search T q = Ok (None, None, None).
Proof. intros ropt vals T q H. inversion H; subst. repeat split. Qed.
Print Assumptions C03_empty.

Definition ex_keys : list key := [ ["097"%byte]; ["097"%byte; "098"%byte; "099"%byte]; ["098"%byte] ].
Definition ex_vals : option (list (list byte)) := Some [ ["001"%byte]; ["002"%byte]; ["003"%byte] ].
Definition ex_opt : raw_opt := {| r_dedup := None; r_inner := Some false; r_leaf := Some false; r_complete := Some true |}.
(* "am" was a false positive in filter mode (props/C10.v); here it is absent, between "abc" and "b" *)
Example C03_example :
  exists T, build (normalize ex_opt) ex_keys ex_vals = Ok T /\
            get T ["097"%byte; "109"%byte] = Ok NotFound /\
            search T ["097"%byte; "109"%byte] = Ok (Some (Some ["002"%byte]), None, Some (Some ["003"%byte])).
Proof. eexists. repeat split; vm_compute; reflexivity. Qed.

(* ---- the same through the bit-level message (sub-check L3 ties Msg.v to the code) ----
   In Complete mode GetID, Get, Search and RangeGet run over the bitmaps of the message are
   the exact ordered map over the retained keys, for EVERY query string *)
Theorem C03_complete_exact_message :
  forall (ropt : raw_opt) keys vals T m vs q fuel,
    build (normalize ropt) keys vals = Ok T -> encode_trie T = Val m -> init_vars m = Val vs ->
    trie_height T <= fuel -> keys <> [] ->
    o_inner (normalize ropt) = true -> o_leaf (normalize ropt) = true ->
    let root := root_subset (normalize ropt) keys vals in
    let sv := fun x => stored T vals (e_idx x) in
    exists Bl Ar,
      Forall (fun x => key_lt (e_key x) q) Bl /\ Forall (fun x => key_lt q (e_key x)) Ar /\
      ((kept root = Bl ++ Ar /\ mgetid (S fuel) m vs q = Ok None /\ mget (S fuel) m vs q = Ok NotFound /\
        msearch (S fuel) m vs q = Ok (option_map sv (last_opt Bl), None, option_map sv (hd_opt Ar)) /\
        mrangeget (S fuel) m vs q = Ok (match last_opt Bl with Some x => Found (sv x) | None => NotFound end))
       \/
       (exists x, kept root = Bl ++ x :: Ar /\ e_key x = q /\ (exists id, mgetid (S fuel) m vs q = Ok (Some id)) /\
                  mget (S fuel) m vs q = Ok (Found (sv x)) /\
                  msearch (S fuel) m vs q = Ok (option_map sv (last_opt Bl), Some (sv x), option_map sv (hd_opt Ar)) /\
                  mrangeget (S fuel) m vs q = Ok (Found (sv x)))).
Proof.
  intros ropt keys vals T m vs q fuel Hb Em Ev Hf Hne Hi Hl root sv.
  rewrite (mgetid_getid _ _ _ _ _ _ q _ Hb Em Ev Hf), (mget_get _ _ _ _ _ _ q _ Hb Em Ev Hf),
          (msearch_search _ _ _ _ _ _ q _ Hb Em Ev Hf), (mrangeget_rangeget _ _ _ _ _ _ q _ Hb Em Ev Hf).
  destruct (complete_exact (normalize ropt) keys vals T q Hb Hne Hi Hl) as (Bl & Ar & H1 & H2 & H).
  exists Bl, Ar. split; [exact H1|]. split; [exact H2|].
  destruct H as [(Ha & Hg & Hb' & Hc & Hd)|(x & Ha & Hx & (id & Hid) & Hb' & Hc & Hd)].
  - left. rewrite Hg. repeat split; assumption.
  - right. exists x. rewrite Hid. repeat split; try assumption. exists id. reflexivity.
Qed.
Print Assumptions C03_complete_exact_message.
