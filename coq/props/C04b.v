(* C04b - the BYTE-level key buffer of the scan iterator refines the nibble
   buffer of the C04 model, for all inputs.
   Closing theorems only; the definitions are in theories/ScanBytes.v (the byte
   buffer operations exactly as trie/slimtrie_scan.go performs them:
   scanStackElt.init / updateLabel / appendLabel / appendInnerPrefix /
   appendLeafPrefix on a list of bytes with prefixStart / prefixEnd / labelEnd
   in BITS; bitstr.New / bitstr.Len of github.com/openacid/low; the iterator of
   Scan.v with these operations in place of the nibble ones), the proofs in
   theories/ScanBytesProofs.v.

   Vocabulary:
     unpack_n n bb      the first n nibbles of the byte buffer bb;
     represents nb bb   unpack_n |nb| bb = nb and bb has ceil(|nb|/2) bytes.  When
                        |nb| is odd the low half of the last byte is NOT
                        constrained (in the code it is 0 after a stored prefix,
                        bitstr.New masks it, and a stale nibble after a cut); no
                        operation reads it: the merge of appendLabel masks it out,
                        the other operations cut the buffer at a byte boundary;
     frame_rel f bf     the byte-level stack element has the cursors of the
                        nibble-level one times 4, the same label bitmap and
                        label index, and (labelWidth, label) as updateLabel sets
                        them: (0,0) for the end-of-key label, else (4 | 8, bit-1);
     lab_ok big lb      the label index fits its bitmap (<= 16, <= 256 when big);
     nib_wf t           every stored prefix below t consists of nibbles (< 16)
                        and every label index fits: true on every built trie
                        (C04b_built_side_condition);
     iter_rel it bit    same mode and flags, stacks related by frame_rel, the
                        byte buffer represents the nibble buffer.
   Outcomes: the byte operations return Err (EPanic 41) when the buffer is
   shorter than the length it is cut to (Go would reslice into stale capacity),
   EPanic 47 for index -1; the theorems show neither happens when the nibble
   operation succeeds.

   Not covered (named in checks/C04b.json): Go slices as lists (capacity,
   aliasing of the returned key with the buffer - the property text says keys
   are temporary), int32 wrap-around of bit positions (keys >= 256 MiB), and the
   word-level decoding of a node (getNode, nextLabelBit over the label bitmap):
   the tree model supplies the label list and the stored prefix; that the
   implementation stores exactly [bitstr_of_nibs pfx] is compared node by node
   on every generated trie by the C04b correspondence. *)
From Slim Require Import Base Keys KeysProofs Model TrieInv BuildProofs OrderProofs QueryProofs
     Scan ScanBasicProofs ScanIterProofs ScanProofs ScanBytes ScanBytesProofs.

(* ---------- bitstr ---------- *)
(* setPrefix stores bitstr.New(key, prefixBitFrom, prefixBitTo).  For nibble
   positions from <= to within the key, the result starts at the byte boundary at
   or below from: it is the bitstr (payload bytes, last one masked, + the byte of
   valid bits) of the nibbles [even_down from, to) of the key. *)
Theorem C04b_bitstr_new :
  forall (key : list byte) (from to : nat),
    from <= to -> to <= 2 * length key ->
    bitstr_new key (4 * from) (4 * to) =
    Ok (bitstr_of_nibs (firstn (to - even_down from) (skipn (even_down from) (nibs key)))).
Proof. exact bitstr_new_nibs. Qed.
Print Assumptions C04b_bitstr_new.

(* the prefix the tree model stores for an inner node (process_subset, i.e. one
   queue entry of newSlim) is, as a bitstr, what setPrefix computes from the first
   key of the subset *)
Theorem C04b_stored_prefix :
  forall o isbig s big step p labels kids b',
    SubInv s ->
    process_subset o isbig s = Ok (DInner big step (Some p) labels kids, b') ->
    exists e0 r, s_ents s = e0 :: r /\
      bitstr_new (e_key e0) (4 * s_from s) (4 * sub_w big s) = Ok (bitstr_of_nibs p).
Proof. exact stored_prefix_is_bitstr_new. Qed.
Print Assumptions C04b_stored_prefix.

(* bitstr.Len of a stored prefix = 4 x its number of nibbles (= qr.innerPrefixLen) *)
Theorem C04b_bitstr_len : forall p, bitstr_len (bitstr_of_nibs p) = Ok (4 * length p).
Proof. exact bitstr_len_of_nibs. Qed.
Print Assumptions C04b_bitstr_len.

(* ---------- init / updateLabel: the cursors ---------- *)
(* prefixStart = bufBitIdx, prefixEnd = bufBitIdx&^7 + innerPrefixLen (bufBitIdx
   without a stored prefix), labelEnd = prefixEnd + labelWidth are 4 x the
   nibble cursors of Scan.init_frame *)
Theorem C04b_init :
  forall t child i f,
    init_frame t child i = Ok f ->
    exists bf, b_init_frame t child (4 * i) = Ok bf /\ frame_rel f bf /\ (nib_wf t -> frame_nib f).
Proof. exact init_frame_sim. Qed.
Print Assumptions C04b_init.

(* ---------- (1) appendInnerPrefix ---------- *)
Theorem C04b_append_inner_prefix :
  forall f bf p nb bb nb',
    frame_rel f bf -> represents nb bb -> Forall (fun x => x < 16) p ->
    append_inner_prefix f (Some p) nb = Ok nb' ->
    exists bb', b_append_inner_prefix bf (Some (bitstr_of_nibs p)) bb = Ok bb' /\ represents nb' bb'.
Proof. exact append_inner_prefix_rep. Qed.
Print Assumptions C04b_append_inner_prefix.

(* ---------- (2) appendLabel: widths 0, 4 (even and odd nibble position), 8 ---------- *)
Theorem C04b_append_label :
  forall f bf nb bb nb',
    frame_rel f bf -> represents nb bb ->
    (forall lb c, nth_error (f_ch f) (f_idx f) = Some (lb, c) -> lab_ok (f_big f) lb) ->
    append_label f nb = Ok nb' ->
    exists bb', b_append_label bf bb = Ok bb' /\ represents nb' bb'.
Proof. exact append_label_rep. Qed.
Print Assumptions C04b_append_label.

(* the three byte computations of appendLabel: the merge c&^mask | label&mask keeps
   the high half of the last byte and sets the low half to the label; the fresh
   byte of a 4-bit label is label<<4; the fresh byte of an 8-bit label is the label *)
Theorem C04b_label_bytes :
  (forall c v, v < 16 -> nibs_of_byte (merge_label c v (mask8 4)) = [Byte.to_nat c / 16; v]) /\
  (forall v, v < 16 -> nibs_of_byte (fresh_label v 4 (mask8 4)) = [v; 0]) /\
  (forall v, v < 256 -> nibs_of_byte (fresh_label v 8 (mask8 8)) = [v / 16; v mod 16]).
Proof. split; [exact merge_label_nibs|split; [exact fresh_label4_nibs|exact fresh_label8_nibs]]. Qed.
Print Assumptions C04b_label_bytes.

(* ---------- (3) appendLeafPrefix and (4) the key handed out ---------- *)
(* the buffer after appendLeafPrefix represents the nibble-level key buffer, whose
   length is even, so the byte buffer is exactly its packing: the key bytes *)
Theorem C04b_append_leaf_prefix :
  forall f bf tail nb bb nb',
    frame_rel f bf -> represents nb bb ->
    append_leaf_prefix f tail nb = Ok nb' ->
    exists bb', b_append_leaf_prefix bf tail bb = Ok bb' /\ represents nb' bb' /\
                Nat.even (length nb') = true /\ pack nb' = Some bb'.
Proof. exact append_leaf_prefix_rep. Qed.
Print Assumptions C04b_append_leaf_prefix.

Theorem C04b_key_bytes :
  forall nb bb, represents nb bb -> Nat.even (length nb) = true ->
    pack nb = Some bb /\ pack0 nb = bb /\ nibs bb = nb.
Proof.
  intros nb bb R E. split; [exact (rep_pack nb bb R E)|split; [exact (rep_pack0_eq nb bb R E)|exact (rep_even_nibs nb bb R E)]].
Qed.
Print Assumptions C04b_key_bytes.

(* the re-included half byte: a stored prefix / a leaf tail starts at the byte
   boundary at or below the cursor; on a built trie the buffer agrees with the
   keys of the node's subset below the cursor ([agree]), and then cutting the
   buffer at that byte boundary and appending the stored bytes leaves the buffer
   below the cursor unchanged (the repeated high nibble equals the one the
   buffer holds); for a leaf the result is the key *)
Theorem C04b_prefix_overlap :
  forall o isbig s big step pfx labels kids b' buf,
    o_inner o = true -> SubInv s ->
    process_subset o isbig s = Ok (DInner big step pfx labels kids, b') ->
    agree s (s_from s) buf ->
    firstn (s_from s) (b1_of pfx (s_from s) buf) = firstn (s_from s) buf.
Proof. exact prefix_overlap. Qed.
Print Assumptions C04b_prefix_overlap.

Theorem C04b_leaf_overlap :
  forall o e from buf,
    o_leaf o = true -> ent_ok e -> firstn from (e_nibs e) = firstn from buf ->
    firstn (even_down from) buf ++ tail_nibs (leaf_tail o e from) = e_nibs e /\
    firstn from (firstn (even_down from) buf ++ tail_nibs (leaf_tail o e from)) = firstn from buf.
Proof. exact leaf_overlap. Qed.
Print Assumptions C04b_leaf_overlap.

(* ---------- the iterator ---------- *)
(* one call of the closure: whenever the nibble-level call succeeds, the
   byte-level call hands out the same key bytes and value and the states stay
   related (the key of the nibble level is the packing of its buffer; the key of
   the byte level is the buffer itself) *)
Theorem C04b_next_call :
  forall T it bit r it',
    iter_rel it bit -> iter_next T it = Ok (r, it') ->
    exists bit', b_iter_next T bit = Ok (r, bit') /\ iter_rel it' bit'.
Proof. exact iter_next_sim. Qed.
Print Assumptions C04b_next_call.

(* the side condition of the simulation holds on every built trie, whatever the options *)
Theorem C04b_built_side_condition :
  forall o keys vals T, build o keys vals = Ok T -> forall r, t_root T = Some r -> nib_wf r.
Proof. exact built_nib. Qed.
Print Assumptions C04b_built_side_condition.

(* refinement on every built trie (any options, any values): NewIter and every
   number of calls, ScanFrom and ScanFromTo with every callback give the same
   results at the byte level whenever the nibble level does not fail *)
Theorem C04b_refines :
  forall o keys vals T,
    build o keys vals = Ok T ->
    forall s incl withv it,
      iter_init T s incl withv = Ok it ->
      exists bit,
        b_iter_init T s incl withv = Ok bit /\
        (forall n rs, iter_run n T it = Ok rs -> b_iter_run n T bit = Ok rs) /\
        (forall fn xs, scan_from T s incl withv fn = Ok xs -> b_scan_from T s incl withv fn = Ok xs) /\
        (forall e incle fn xs, scan_from_to T s incl e incle withv fn = Ok xs ->
                               b_scan_from_to T s incl e incle withv fn = Ok xs).
Proof. exact scan_bytes_refine. Qed.
Print Assumptions C04b_refines.

(* C04_iter for the byte-level iterator (composition with ScanProofs.scan_complete) *)
Theorem C04b_iter :
  forall (ropt : raw_opt) (keys : list key) (vals : option (list (list byte))) (T : trie),
    build (normalize ropt) keys vals = Ok T ->
    complete_opts (normalize ropt) = true ->
    forall (s : key) (incl withv : bool), exists bit outs,
      b_iter_init T s incl withv = Ok bit /\
      Forall2 (elem_ok keys vals withv) (scan_indexes (normalize ropt) keys vals s incl) outs /\
      (forall n, b_iter_run n T bit = Ok (firstn n (map Some outs ++ repeat None n))) /\
      (forall fn, b_scan_from T s incl withv fn = Ok (cut fn 0 outs)) /\
      (forall e incle fn, b_scan_from_to T s incl e incle withv fn = Ok (cut_to e incle fn 0 outs)).
Proof. intros ropt keys vals T. exact (scan_bytes_complete (normalize ropt) keys vals T). Qed.
Print Assumptions C04b_iter.

(* ---------- non-vacuity ---------- *)
(* keys "Abc" "Abd" "a1" "a2" "b": the root has no prefix and 4-bit labels at
   nibble 0 (fresh bytes 0x40, 0x60); the node below label 4 starts at the odd
   nibble 1 and stores the prefix 4,1,6,2,6 from the byte boundary below (it
   re-includes the nibble 4; odd length: the bitstr ends with 0x60 0xf0) and has
   4-bit labels at the odd nibble 5 (merged into the low half of 0x60); node 5
   (keys "a1" "a2", below the labels 6 and 1) stores the single nibble 3 *)
Definition exb (l : list nat) : key := map (fun n => match Byte.of_nat n with Some b => b | None => x00 end) l.
Definition exb_keys : list key :=
  [ exb [65; 98; 99]; exb [65; 98; 100]; exb [97; 49]; exb [97; 50]; exb [98] ].
Definition exb_complete : raw_opt := {| r_dedup := None; r_inner := None; r_leaf := None; r_complete := Some true |}.

Definition exb_trie : trie :=
  match build (normalize exb_complete) exb_keys None with Ok T => T | Err _ => empty_trie end.

Example C04b_hypotheses_satisfiable :
  build (normalize exb_complete) exb_keys None = Ok exb_trie /\
  complete_opts (normalize exb_complete) = true /\
  trie_prefixes exb_trie = [ (1, exb [65; 98; 96; 240], Ok 20); (5, exb [48; 240], Ok 4) ] /\
  b_iter_all exb_trie (exb [65; 98; 99]) false false 2 =
    Ok ([ (exb [65; 98; 100], None); (exb [97; 49], None); (exb [97; 50], None); (exb [98], None) ],
        [None; None]) /\
  iter_all exb_trie (exb [65; 98; 99]) false false 2 = b_iter_all exb_trie (exb [65; 98; 99]) false false 2.
Proof. vm_compute. repeat split. Qed.

(* a buffer with a stale low half (0x6f after the nibbles 6,1,6), a 4-bit label 2
   at the odd nibble 1: the byte level cuts to one byte and merges *)
Definition exb_frame : frame :=
  {| f_big := false; f_ch := [(3, Leaf 0 0 None 0)]; f_idx := 0; f_ps := 0; f_pe := 1; f_le := 2 |}.
Definition exb_bframe : bframe :=
  {| bf_big := false; bf_ch := [(3, Leaf 0 0 None 0)]; bf_idx := 0; bf_ps := 0; bf_pe := 4; bf_le := 8;
     bf_lw := 4; bf_label := 2 |}.

Example C04b_merge_example :
  frame_rel exb_frame exb_bframe /\
  represents [6; 1; 6] (exb [97; 111]) /\
  append_label exb_frame [6; 1; 6] = Ok [6; 2] /\
  b_append_label exb_bframe (exb [97; 111]) = Ok (exb [98]) /\
  represents [6; 2] (exb [98]) /\
  bitstr_new (exb [97; 98; 99]) 5 12 = Ok (exb [97; 96; 240]).
Proof.
  split; [|vm_compute; repeat split].
  unfold frame_rel. repeat split. exists 3, (Leaf 0 0 None 0). split; reflexivity.
Qed.
