(* C07 - incompatible versions and interrupted writes are rejected, never
   half-loaded.  Closing theorems only.

   Layer: the wire model (Varint, Proto, Semver, Frame, Instance, Wire) on the
   constants regenerated from /repo.  A stream is a sequence of pbcmpl sections
     frame ver body = Version[16] NUL padded | uint64 LE 32 | uint64 LE len(body) | body
   one section for the current and the 0.5.10/0.5.11 layouts, three sections
   (children, steps, leaves) for the layouts before 0.5.10.

   What is NOT proved here (see checks/C07.json, statement_status):
   * "answers lookups and scans as an empty trie" is proved as "st.inner is the
     empty message; vars and levels keep their previous values"
     (C07_empty_after_*_partial) and, for GetID / Get / searchID run over that state
     (EndToEnd.inst_getid etc.), as "not found for every query" (C07_*_answers_as_empty).
     Scans on the emptied instance: C07_*_scans_as_empty.
   * that the archived legacy files ARE sequences of framed sections is checked by
     the correspondence (the model reads every fixture completely), not proved. *)
From Coq.Strings Require Import String.
From Coq Require Import List NArith ZArith Bool.
From Coq.Strings Require Import Byte.
From Slim Require Import Varint VarintProofs Proto ProtoProofs Semver Frame FrameProofs Instance InstanceProofs Wire WireProofs.
From Slim Require Import Base Keys Model Msg EndToEnd EndToEndProofs EndToEndScan EndToEndScanProofs.
Import ListNotations.
Open Scope N_scope.

(* ---- interrupted writes ------------------------------------------------------------------ *)
(* current layout: EVERY strict prefix of EVERY Marshal() output is rejected, with
   exactly this error (io.ReadFull semantics on the header, then on the body) *)
Theorem C07_cut : forall m s cut,
  blen (ser_slim m) < two63 -> marshal_gen m = Some s -> (cut < length s)%nat ->
  unmarshal_gen (firstn cut s) =
  if (cut =? 0)%nat then OErr SHeader CEOF
  else if (cut <? 32)%nat then OErr SHeader CUnexpectedEOF
  else if (cut =? 32)%nat then OErr SInner CEOF
  else OErr SInner CUnexpectedEOF.
Proof. exact cut_gen. Qed.
Print Assumptions C07_cut.

(* any one-section stream (current, 0.5.10, 0.5.11 - or any other version string in
   the header, any body bytes): every strict prefix is an error, never a load or a panic *)
Theorem C07_cut_one_section : forall ver body s cut,
  frame ver body = Some s -> blen body < two63 -> (cut < length s)%nat ->
  is_err (unmarshal_gen (firstn cut s)) = true.
Proof. exact cut_single_gen. Qed.
Print Assumptions C07_cut_one_section.

(* three-section legacy streams (any section contents): every strict prefix - a cut
   inside any of the three headers or bodies - is an error *)
Theorem C07_cut_three_sections : forall v1 b1 s1 v2 b2 s2 v3 b3 s3 cut,
  three_path compat_gen cur_gen v1 ->
  frame v1 b1 = Some s1 -> frame v2 b2 = Some s2 -> frame v3 b3 = Some s3 ->
  blen b1 < two63 -> blen b2 < two63 -> blen b3 < two63 ->
  (cut < length (s1 ++ s2 ++ s3))%nat ->
  is_err (unmarshal_gen (firstn cut (s1 ++ s2 ++ s3))) = true.
Proof. exact cut_three_gen. Qed.
Print Assumptions C07_cut_three_sections.

(* ---- the version gate ---------------------------------------------------------------------- *)
(* the compatible set, characterised: the 16-byte field with its trailing NULs
   removed must parse as MAJOR.MINOR.PATCH[+build] (semver.Parse: exactly three
   numeric parts, no leading zeros, < 2^64; no pre-release part) and name one of
   the six listed releases *)
Theorem C07_compatible_set : forall ver,
  is_compatible ver compat_gen = Some true <-> listed ver.
Proof. exact compatible_gen_iff. Qed.
Print Assumptions C07_compatible_set.

(* every stream (any length >= 32, any content) whose version field is outside
   that set is rejected with ErrIncompatible, before any body byte is looked at *)
Theorem C07_version : forall b,
  (32 <= length b)%nat -> ~ listed (strip_nul (firstn 16 b)) -> unmarshal_gen b = OIncompatible.
Proof. exact version_gen. Qed.
Print Assumptions C07_version.

(* ---- never half-loaded ------------------------------------------------------------------------ *)
Theorem C07_empty_after_cut_partial :
  forall (Vars Levels : Type) (init_vars : slim -> Vars) (init_levels : slim -> Levels)
         (reset_levels : Levels) (conv510 : slim -> slim) (conv3 : list byte -> list byte -> list byte -> slim)
         (st : inst Vars Levels) m s cut,
  blen (ser_slim m) < two63 -> marshal_gen m = Some s -> (cut < length s)%nat ->
  emptied Vars Levels st
    (fst (step compat_gen cur_gen Vars Levels init_vars init_levels reset_levels conv510 conv3 st
               (OpUnmarshal (firstn cut s)))).
Proof. exact empty_after_cut_gen. Qed.
Print Assumptions C07_empty_after_cut_partial.

Theorem C07_empty_after_incompatible_partial :
  forall (Vars Levels : Type) (init_vars : slim -> Vars) (init_levels : slim -> Levels)
         (reset_levels : Levels) (conv510 : slim -> slim) (conv3 : list byte -> list byte -> list byte -> slim)
         (st : inst Vars Levels) b,
  (32 <= length b)%nat -> ~ listed (strip_nul (firstn 16 b)) ->
  emptied Vars Levels st
    (fst (step compat_gen cur_gen Vars Levels init_vars init_levels reset_levels conv510 conv3 st (OpUnmarshal b))).
Proof. exact empty_after_incompatible_gen. Qed.
Print Assumptions C07_empty_after_incompatible_partial.

(* every rejected load except a protobuf error inside a completely read body
   leaves the empty message (general form, any layout) *)
Theorem C07_rejected_load_state_partial :
  forall (Vars Levels : Type) (init_vars : slim -> Vars) (init_levels : slim -> Levels)
         (reset_levels : Levels) (conv510 : slim -> slim) (conv3 : list byte -> list byte -> list byte -> slim)
         (st : inst Vars Levels) b,
  clean_reject (unmarshal compat_gen cur_gen b) = true ->
  let st' := fst (step compat_gen cur_gen Vars Levels init_vars init_levels reset_levels conv510 conv3 st (OpUnmarshal b)) in
  i_inner _ _ st' = IMsg empty_slim /\ i_vars _ _ st' = i_vars _ _ st /\ i_levels _ _ st' = i_levels _ _ st.
Proof. exact (rejected_load_state compat_gen cur_gen). Qed.
Print Assumptions C07_rejected_load_state_partial.

(* ---- the rejected load answers as an empty trie ------------------------------------------
   GetID, Get and searchID run the way the Go code runs them over the instance state
   (EndToEnd.inst_*: test st.inner.NodeTypeBM == nil first, only then read vars): after an
   interrupted or incompatible load they answer -1 / not found / (-1,-1,-1) for EVERY query,
   whatever stale vars and levels the instance still holds (also the nil vars left by
   Reset).  The scanners follow below. *)
Theorem C07_cut_answers_as_empty :
  forall (Levels : Type) (init_levels : slim -> Levels) (reset_levels : Levels)
         (conv510 : slim -> slim) (conv3 : list byte -> list byte -> list byte -> slim)
         (st : inst VarsT Levels) m s cut q fuel,
  blen (ser_slim m) < two63 -> marshal_gen m = Some s -> (cut < length s)%nat ->
  let st' := fst (step compat_gen cur_gen VarsT Levels ivars init_levels reset_levels conv510 conv3 st
                       (OpUnmarshal (firstn cut s))) in
  inst_getid Levels st' fuel q = Ok None /\
  inst_get Levels st' fuel q = Ok NotFound /\
  inst_searchid Levels st' fuel q = Ok (None, None, None).
Proof.
  intros Levels il rl c5 c3 st m s cut q fuel Hb Hm Hc st'. apply (emptied_answers Levels st st').
  exact (empty_after_cut_gen VarsT Levels ivars il rl c5 c3 st m s cut Hb Hm Hc).
Qed.
Print Assumptions C07_cut_answers_as_empty.

Theorem C07_incompatible_answers_as_empty :
  forall (Levels : Type) (init_levels : slim -> Levels) (reset_levels : Levels)
         (conv510 : slim -> slim) (conv3 : list byte -> list byte -> list byte -> slim)
         (st : inst VarsT Levels) b q fuel,
  (32 <= length b)%nat -> ~ listed (strip_nul (firstn 16 b)) ->
  let st' := fst (step compat_gen cur_gen VarsT Levels ivars init_levels reset_levels conv510 conv3 st (OpUnmarshal b)) in
  inst_getid Levels st' fuel q = Ok None /\
  inst_get Levels st' fuel q = Ok NotFound /\
  inst_searchid Levels st' fuel q = Ok (None, None, None).
Proof.
  intros Levels il rl c5 c3 st b q fuel Hl Hn st'. apply (emptied_answers Levels st st').
  exact (empty_after_incompatible_gen VarsT Levels ivars il rl c5 c3 st b Hl Hn).
Qed.
Print Assumptions C07_incompatible_answers_as_empty.

(* ... and scans as an empty trie: every iterator call returns nil, ScanFrom / ScanFromTo
   deliver nothing (getGEPath tests NodeTypeBM first and yields the empty path) *)
Theorem C07_cut_scans_as_empty :
  forall (Levels : Type) (init_levels : slim -> Levels) (reset_levels : Levels)
         (conv510 : slim -> slim) (conv3 : list byte -> list byte -> list byte -> slim)
         (st : inst VarsT Levels) m s cut fuel lfuel,
  blen (ser_slim m) < two63 -> marshal_gen m = Some s -> (cut < length s)%nat ->
  let st' := fst (step compat_gen cur_gen VarsT Levels ivars init_levels reset_levels conv510 conv3 st
                       (OpUnmarshal (firstn cut s))) in
  (forall start incl withv extra, inst_iter_all Levels st' fuel lfuel start incl withv extra = Ok ([], repeat None extra)) /\
  (forall start incl withv fn, inst_scan_from Levels st' fuel lfuel start incl withv fn = Ok []) /\
  (forall start incl e incle withv fn, inst_scan_from_to Levels st' fuel lfuel start incl e incle withv fn = Ok []).
Proof.
  intros Levels il rl c5 c3 st m s cut fuel lfuel Hb Hm Hc st'. apply (emptied_scans Levels st st').
  exact (empty_after_cut_gen VarsT Levels ivars il rl c5 c3 st m s cut Hb Hm Hc).
Qed.
Print Assumptions C07_cut_scans_as_empty.

Theorem C07_incompatible_scans_as_empty :
  forall (Levels : Type) (init_levels : slim -> Levels) (reset_levels : Levels)
         (conv510 : slim -> slim) (conv3 : list byte -> list byte -> list byte -> slim)
         (st : inst VarsT Levels) b fuel lfuel,
  (32 <= length b)%nat -> ~ listed (strip_nul (firstn 16 b)) ->
  let st' := fst (step compat_gen cur_gen VarsT Levels ivars init_levels reset_levels conv510 conv3 st (OpUnmarshal b)) in
  (forall start incl withv extra, inst_iter_all Levels st' fuel lfuel start incl withv extra = Ok ([], repeat None extra)) /\
  (forall start incl withv fn, inst_scan_from Levels st' fuel lfuel start incl withv fn = Ok []) /\
  (forall start incl e incle withv fn, inst_scan_from_to Levels st' fuel lfuel start incl e incle withv fn = Ok []).
Proof.
  intros Levels il rl c5 c3 st b fuel lfuel Hl Hn st'. apply (emptied_scans Levels st st').
  exact (empty_after_incompatible_gen VarsT Levels ivars il rl c5 c3 st b Hl Hn).
Qed.
Print Assumptions C07_incompatible_scans_as_empty.

(* ---- the constants the model was written for, and concrete version strings ----------------- *)
Definition s (x : String.string) : list byte := String.list_byte_of_string x.
Arguments s x%string.

Example ex_constants :
  cur_gen = s "0.5.12" /\
  compat_gen = [s "==1.0.0"; s "==0.5.8"; s "==0.5.9"; s "==0.5.10"; s "==0.5.11"; s "==0.5.12"] /\
  specs_in_fragment compat_gen = true.
Proof. vm_compute. repeat split; reflexivity. Qed.

Example ex_versions :
  map (fun v => is_compatible (s v) compat_gen)
      ["0.5.12"; "0.5.11"; "0.5.10"; "0.5.9"; "0.5.8"; "1.0.0"; "0.5.12+x"; "0.5.12+a-b.7";
       "0.5.7"; "0.5.0"; "0.5.13"; "0.5.100"; "0.6.0"; "1.0.1"; "2.0.0";
       "0.5.12-rc1"; "0.5.12-"; "0.5.12+"; "0.5.012"; "v0.5.12"; "0.5"; "0.5.12.0"; ""; "0.5.12 ";
       "18446744073709551616.0.0"; "1234567890.12.12"]%string
  = [Some true; Some true; Some true; Some true; Some true; Some true; Some true; Some true;
     Some false; Some false; Some false; Some false; Some false; Some false; Some false;
     Some false; Some false; Some false; Some false; Some false; Some false; Some false; Some false; Some false;
     Some false; Some false].
Proof. vm_compute. reflexivity. Qed.

(* the three-section path is taken by exactly the legacy header versions *)
Example ex_three_path :
  three_path compat_gen cur_gen (s "1.0.0") /\ three_path compat_gen cur_gen (s "0.5.8") /\
  three_path compat_gen cur_gen (s "0.5.9").
Proof. repeat split; left; vm_compute; reflexivity. Qed.

(* the empty trie: the 32-byte header alone; every cut of it is a header error *)
Example ex_empty_stream :
  marshal_gen empty_slim =
  Some (s "0.5.12" ++ repeat x00 10 ++ [x20; x00; x00; x00; x00; x00; x00; x00] ++ repeat x00 8).
Proof. vm_compute. reflexivity. Qed.

(* a 16-byte version field without any NUL is read as a 16-byte string *)
Example ex_full16 :
  unmarshal_gen (s "0.5.13+abcdefghi" ++ le64 32 ++ le64 0) = OIncompatible /\
  unmarshal_gen (s "0.5.12+abcdefghi" ++ le64 32 ++ le64 0) = OLoaded empty_slim.
Proof. vm_compute. split; reflexivity. Qed.
