(* C07 - closing theorems only. *)
From Slim Require Import Varint Proto Semver Frame Instance Wire.
