(* C06d (sub-check of C06) - the single-section legacy layouts 0.5.10 / 0.5.11 at MESSAGE
   level: what the loader (trie/slimtrie_marshal.go: before000512InnerPrefixTobitstr +
   before000512FixLeafSize) makes of the message an 0.5.10 / 0.5.11 release wrote for a trie
   IS today's message of that trie (Bits.encode_trie), except for the two select indexes
   InnerPrefixes.PositionBM.SelectIndex / LeafPrefixes.PositionBM.SelectIndex, which the
   loader leaves as stored (0.5.10: word index of every 32nd set bit; today: its bit
   position) - and those are irrelevant: Select32R64, hence getNode, getLeafPrefix and every
   query (Msg.v), scan (ScanMsg.v) and Stat/String computation (StatMsg.v) over the message,
   return the same with either.

   Legacy510.encode_0510 T    the 0.5.10 / 0.5.11 message of T (control-byte inner prefixes,
                              old select indexes, bare Leaves.Bytes, fields 12/13/15); twin
                              of the reference writer harness/c06_writers.go:c06WriteSlim
                              (which reproduces the archived 0.5.10 files)
   Legacy510.load510 esize    protobuf parse (unknown fields dropped) + the loader's in-place
                              conversion loop over PositionBM + the leaf-size fix-up, esize =
                              st.encoder.GetEncodedSize(nil)
   Legacy510.old_sel_msg M    M with the two select indexes >> 6
   Both are executed against the implementation on every run (checks/C06d.json): the fields
   parsed from the stream = encode_0510, the fields of the really loaded instance = load510
   (encode_0510) = old_sel_msg (encode_trie).

   All theorems are for ALL tries returned by Model.build (any options, keys, values) whose
   leaf values have the loader's fixed encoder size (the only leaves 0.5.10 could store; it
   holds for every value list of that width: C06d_fixed_values); none is _partial for the
   statement it makes.  Not in these theorems (stays with C05/C07/C16 and the correspondence):
   the protobuf/pbcmpl bytes of the section and the version dispatch of Unmarshal. *)
From Slim Require Import Base Keys Model BitmapRank BitmapRank2 BitmapSelectProofs Bits Msg MsgProofs FlatProofs
     Scan ScanBasicProofs ScanProofs ScanMsg ScanMsgIterProofs Stat Str StatMsg
     Legacy510 Legacy510Proofs Legacy510QueryProofs Legacy510ScanProofs Legacy510StatProofs.
Local Open Scope N_scope.

(* 1. the loaded message is today's message up to the two select indexes, never a panic *)
Theorem C06d_conversion_is_current_message :
  forall (o : opts) (keys : list key) (vals : option (list (list byte))) (T : trie) (esize : N) (M : msg),
    build o keys vals = Ok T -> encode_trie T = Val M -> leaves_fixed esize T ->
    exists Om, encode_0510 T = Val Om /\ load510 esize Om = Ok (old_sel_msg M).
Proof. exact conv510_built. Qed.
Print Assumptions C06d_conversion_is_current_message.

(* the same for every well-formed flat trie (Bits.trie_wf), built or not *)
Theorem C06d_conversion_wf :
  forall (T : trie) (esize : N) (M : msg),
    trie_wf T = true -> encode_trie T = Val M -> leaves_fixed esize T ->
    exists Om, encode_0510 T = Val Om /\ conv510_msg esize (parse510 Om) = Ok (old_sel_msg M).
Proof. exact conv510_encode. Qed.
Print Assumptions C06d_conversion_wf.

(* 2. the old select index is irrelevant: Select32R64 answers the same for EVERY i ... *)
Theorem C06d_select_index_irrelevant :
  forall (ws : list N) (i : N), words_ok ws ->
    select32_r64 ws (map word_of (index_select32 ws)) (index_rank64_t ws 0) i =
    select32_r64 ws (index_select32 ws) (index_rank64_t ws 0) i.
Proof. exact select_shift. Qed.
Print Assumptions C06d_select_index_irrelevant.

(* ... hence every node and every query over the message: for ALL ids, keys and fuels *)
Theorem C06d_old_index_same_reads :
  forall (m : msg), pos_ok m ->
    (forall vs id, get_node (old_sel_msg m) vs id = get_node m vs id) /\
    (forall vs id, get_view (old_sel_msg m) vs id = get_view m vs id) /\
    (forall ith, ith_leaf_bytes (old_sel_msg m) ith = ith_leaf_bytes m ith) /\
    init_vars (old_sel_msg m) = init_vars m /\
    (forall fuel vs q, mgetid fuel (old_sel_msg m) vs q = mgetid fuel m vs q) /\
    (forall fuel vs q, mget fuel (old_sel_msg m) vs q = mget fuel m vs q) /\
    (forall fuel vs q, msearchid fuel (old_sel_msg m) vs q = msearchid fuel m vs q) /\
    (forall fuel vs q, msearch fuel (old_sel_msg m) vs q = msearch fuel m vs q) /\
    (forall fuel vs q, mrangeget fuel (old_sel_msg m) vs q = mrangeget fuel m vs q).
Proof.
  exact (fun m H =>
    conj (get_node_old m H) (conj (get_view_old m H) (conj (ith_leaf_bytes_old m) (conj (init_vars_old m)
    (conj (fun fuel vs q => mgetid_old m H fuel vs q) (conj (fun fuel vs q => mget_old m H fuel vs q)
    (conj (fun fuel vs q => msearchid_old m H fuel vs q) (conj (fun fuel vs q => msearch_old m H fuel vs q)
          (fun fuel vs q => mrangeget_old m H fuel vs q))))))))).
Qed.
Print Assumptions C06d_old_index_same_reads.

(* the hypothesis pos_ok holds for the message of every trie *)
Theorem C06d_encoded_pos_ok : forall (T : trie) (M : msg), encode_trie T = Val M -> pos_ok M.
Proof. exact encoded_pos_ok. Qed.
Print Assumptions C06d_encoded_pos_ok.

(* 3. composition: an 0.5.10 / 0.5.11 stream of a built trie, loaded, answers GetID / Get /
   searchID / Search / RangeGet over the message exactly like the tree model *)
Theorem C06d_loaded_answers :
  forall (o : opts) (keys : list key) (vals : option (list (list byte))) (T : trie) (esize : N),
    build o keys vals = Ok T -> leaves_fixed esize T ->
    exists Om M L vs,
      encode_0510 T = Val Om /\ encode_trie T = Val M /\
      load510 esize Om = Ok L /\ L = old_sel_msg M /\ init_vars L = Val vs /\
      forall q fuel, (trie_height T <= fuel)%nat ->
        mgetid (S fuel) L vs q = Ok (getid T q) /\
        mget (S fuel) L vs q = get T q /\
        msearchid (S fuel) L vs q = Ok (let '(l, e, rr) := searchid T q in (oid l, oid e, oid rr)) /\
        msearch (S fuel) L vs q = search T q /\
        mrangeget (S fuel) L vs q = rangeget T q.
Proof. exact loaded510_answers. Qed.
Print Assumptions C06d_loaded_answers.

(* 3b. the same for the scan APIs run over the loaded message (ScanMsg.v: getGEPath, NewIter, the
   iterator closure, ScanFrom, ScanFromTo): NewIter and every call of the closure give what
   Scan.v gives on the tree; with full prefixes a scan yields exactly the retained entries in
   range, in order, with their value bytes (vocabulary of C04); without, the explicit refusal *)
Theorem C06d_loaded_scans :
  forall (o : opts) (keys : list key) (vals : option (list (list byte))) (T : trie) (esize : N),
    build o keys vals = Ok T -> leaves_fixed esize T ->
    exists Om L vs,
      encode_0510 T = Val Om /\ load510 esize Om = Ok L /\ init_vars L = Val vs /\
      forall fuel, (trie_height T <= fuel)%nat ->
        (forall s incl withv,
           match iter_init T s incl withv with
           | Ok it => miter_init fuel L vs s incl withv = Ok (miter_of it) /\
                      forall n, miter_run fuel n L vs (miter_of it) = iter_run n T it
           | Err e => miter_init fuel L vs s incl withv = Err e
           end) /\
        (complete_opts o = true ->
         forall s incl withv, exists mit outs,
           miter_init fuel L vs s incl withv = Ok mit /\
           Forall2 (elem_ok keys vals withv) (scan_indexes o keys vals s incl) outs /\
           (forall n, miter_run fuel n L vs mit = Ok (firstn n (map Some outs ++ repeat None n))) /\
           (forall lfuel fn, (scan_fuel T <= lfuel)%nat -> mscan_from fuel lfuel L vs s incl withv fn = Ok (cut fn 0 outs)) /\
           (forall lfuel e incle fn, (scan_fuel T <= lfuel)%nat ->
              mscan_from_to fuel lfuel L vs s incl e incle withv fn = Ok (cut_to e incle fn 0 outs))) /\
        (keys <> [] -> complete_opts o = false ->
         forall lfuel s incl withv,
           miter_init fuel L vs s incl withv = Err (EPanic 20) /\
           (forall fn, mscan_from fuel lfuel L vs s incl withv fn = Err (EPanic 20)) /\
           (forall e incle fn, mscan_from_to fuel lfuel L vs s incl e incle withv fn = Err (EPanic 20))).
Proof. exact loaded510_scans. Qed.
Print Assumptions C06d_loaded_scans.

(* 3c. and for what st.init() computes after the conversion and Stat() / String() read: the level
   table, the Stat fields and the rendered lines over the loaded message are the tree's *)
Theorem C06d_loaded_stat :
  forall (o : opts) (keys : list key) (vals : option (list (list byte))) (T : trie) (esize : N),
    build o keys vals = Ok T -> leaves_fixed esize T ->
    exists Om L vs,
      encode_0510 T = Val Om /\ load510 esize Om = Ok L /\ init_vars L = Val vs /\
      minit_levels L = Ok (levels T) /\
      mstat L (minit_levels L) = stat T /\
      forall fuel, (trie_height T <= fuel)%nat -> mrender fuel L vs = render T.
Proof. exact loaded510_stat. Qed.
Print Assumptions C06d_loaded_stat.

(* 4. the hypothesis on the leaves: it holds whenever every supplied value has esize bytes *)
Theorem C06d_fixed_values :
  forall (o : opts) (keys : list key) (vals : option (list (list byte))) (T : trie) (esize : N),
    build o keys vals = Ok T ->
    match vals with
    | Some vs => length vs = length keys /\ Forall (fun v => blen v = esize) vs
    | None => True
    end ->
    leaves_fixed esize T.
Proof. exact built_leaves_fixed. Qed.
Print Assumptions C06d_fixed_values.

(* 5. the conversion loop is modelled with fuel 32 * len(SelectIndex) + 1; it is never
   exhausted, on ANY message (Select32R64 panics first) *)
Theorem C06d_conversion_never_out_of_fuel :
  forall (esize : N) (m : msg), conv510_msg esize m <> Err EFuel.
Proof. exact conv510_never_fuel. Qed.
Print Assumptions C06d_conversion_never_out_of_fuel.

(* 6. one element: the loop body turns the control-byte form of any nibble string into its
   bitstr form (through C06's element-level theorem LegacyProofs.conv_prefix_ctl) *)
Theorem C06d_prefix_element :
  forall (p : list nat), Forall (fun x => (x < 16)%nat) p ->
    conv_elt (ctl_of_nibs p) = Ok (bitstr_of_nibs p) /\ length (ctl_of_nibs p) = length (bitstr_of_nibs p).
Proof. exact (fun p H => conj (conv_elt_ctl p H) (ctl_length p)). Qed.
Print Assumptions C06d_prefix_element.

(* ---------------------------------------------------------------- *)
(* Examples: the key set 11vl5 of the archived fixtures
   (abc abcd abcdx abcdy abcdz abd abde bc bcd bcde cde) with both prefix kinds stored
   (slimtrie-data-11vl5-allpref-0.5.10), values int32 0..10. *)
Definition ex_bs (l : list N) : list byte :=
  map (fun n => match Byte.of_N n with Some b => b | None => "000"%byte end) l.
Definition ex_keys : list key := map ex_bs
  [[97;98;99]; [97;98;99;100]; [97;98;99;100;120]; [97;98;99;100;121]; [97;98;99;100;122];
   [97;98;100]; [97;98;100;101]; [98;99]; [98;99;100]; [98;99;100;101]; [99;100;101]].
Definition ex_vals : list (list byte) := map (fun i => ex_bs [i; 0; 0; 0]) [0;1;2;3;4;5;6;7;8;9;10].
Definition ex_opts : opts := {| o_dedup := false; o_inner := true; o_leaf := true |}.

Definition ex_T : trie := match build ex_opts ex_keys (Some ex_vals) with Ok T => T | Err _ => empty_trie end.
Definition ex_old : msg := match encode_0510 ex_T with Val Om => parse510 Om | Panic => empty_msg end.
Definition ex_cur : msg := match encode_trie ex_T with Val M => M | Panic => empty_msg end.
Definition pfx_bytes (m : msg) : list byte := match m_innerpfx m with Some v => v_bytes v | None => [] end.
Definition pfx_sel (m : msg) : list N :=
  match m_innerpfx m with
  | Some v => match v_position v with Some ps => b_sel ps | None => [] end
  | None => []
  end.

(* the hypotheses of the theorems hold on it *)
Example ex_hypotheses :
  build ex_opts ex_keys (Some ex_vals) = Ok ex_T /\ t_root ex_T <> None /\
  leaves_fixed 4 ex_T /\ trie_wf ex_T = true /\
  (exists Om, encode_0510 ex_T = Val Om /\ (o_bigoff Om, o_shortminus Om, o_mask Om) = (0, (-17)%Z, 0)) /\
  encode_trie ex_T = Val ex_cur.
Proof.
  split; [vm_compute; reflexivity|]. split; [vm_compute; discriminate|].
  split; [apply (built_leaves_fixed ex_opts ex_keys (Some ex_vals)); [vm_compute; reflexivity|];
          split; [reflexivity|]; vm_compute; repeat constructor|].
  split; [vm_compute; reflexivity|]. split; [eexists; split; vm_compute; reflexivity|vm_compute; reflexivity].
Qed.

(* five stored inner prefixes, in nibbles 6 | 6 2 6 | 6 3 | 6 4 | 6 4:
   0.5.10 wrote 01 68 | 01 62 68 | 00 63 | 00 64 | 00 64, the loader rewrites them in place to
   60 f0 | 62 60 f0 | 63 ff | 64 ff | 64 ff, which is what today's builder stores *)
Example ex_prefix_bytes :
  pfx_bytes ex_old = ex_bs [1; 104; 1; 98; 104; 0; 99; 0; 100; 0; 100] /\
  pfx_bytes ex_cur = ex_bs [96; 240; 98; 96; 240; 99; 255; 100; 255; 100; 255] /\
  (exists L, conv510_msg 4 ex_old = Ok L /\ pfx_bytes L = pfx_bytes ex_cur /\ L = old_sel_msg ex_cur /\
             m_leaves L = m_leaves ex_cur /\ m_leaves ex_old <> m_leaves ex_cur).
Proof.
  split; [vm_compute; reflexivity|]. split; [vm_compute; reflexivity|].
  eexists. split; [vm_compute; reflexivity|]. split; [vm_compute; reflexivity|].
  split; [vm_compute; reflexivity|]. split; [vm_compute; reflexivity|vm_compute; discriminate].
Qed.

(* a position bitmap with more than 64 bits: 40 one-byte-payload prefixes of 2 bytes each put
   the 33rd set bit at position 64; today's select index is [0; 64], 0.5.10's [0; 1] *)
Definition ex_words : list N := [6148914691236517205; 6148914691236517205].   (* 0x5555...: every 2nd bit *)
Example ex_select_index :
  index_select32 ex_words = [0; 64] /\ map word_of (index_select32 ex_words) = [0; 1] /\
  select32_r64 ex_words [0; 1] (index_rank64_t ex_words 0) 40 = Val (80, 82) /\
  select32_r64 ex_words [0; 64] (index_rank64_t ex_words 0) 40 = Val (80, 82).
Proof. vm_compute. repeat split; reflexivity. Qed.

(* messages no 0.5.10 writer produces end in the explicit outcomes, never in a normal-looking
   value: an element of zero length (old[0]), a leaf array with FixedSize but no PresenceBM,
   an encoder of size 0 *)
Example ex_ill_formed :
  conv_elt [] = Err (EPanic 603) /\
  fix_leaves 4 (Some (mkVL 0 0 None None 4 [])) = Err (EPanic 653) /\
  fix_leaves 0 (Some (mkVL 0 0 None None 0 (ex_bs [1; 2]))) = Err (EPanic 631) /\
  conv510_msg 4 empty_msg = Ok empty_msg.
Proof. vm_compute. repeat split; reflexivity. Qed.
