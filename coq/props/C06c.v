(* C06c (sub-check of C06) - the loader's conversion of a three-array legacy stream
   (0.5.0 - 0.5.9), trie/slimtrie_marshal.go:before000510ToNewChildrenArray, yields
   EXACTLY the trie today's builder makes from the same keys without big nodes,
   without prefixes and without de-duplication: Model.build_gen false legacy_opts.

   LegacyConv.old_write ls keys   the node table of the old writers in OLD node ids
                                  (twin of the reference writer harness/c06_writers.go:
                                  c06BuildOld, which reproduces the archived fixtures);
                                  ls = the 0.5.0 layout, whose leaves carry a step too.
   LegacyConv.convert ot          the queue loop of before000510ToNewChildrenArray on that
                                  table: the node view in NEW id order of what the creator
                                  is fed with + the key indexes of the leaves in new leaf
                                  order (getStepBefore000510, the extra leaf-only child
                                  first, label b -> b+1, nextOldID, isBig = false).
   Both are executed against the implementation on every run (checks/C06c.json):
   the table decoded from the stream bytes = old_write keys, the node view of the
   REALLY loaded trie = convert (old_write keys).

   All theorems are for ALL strictly ascending key lists (AdjSorted) and all values;
   every one is full (none is _partial) for the statement it makes.  Not in these
   theorems (they stay with C06 / the correspondence): the byte encoding of the three
   arrays (Legacy.v element lemmas in C06.v), and creator.build on the converted node
   view (short table, bitmap packing: node-view correspondence as for every trie). *)
From Slim Require Import Base Keys KeysProofs Model QueryProofs SearchProofs LegacyConv
     LegacyConvMainProofs LegacyConvAnswerProofs.
From Coq Require Import Sorting.Permutation.

(* [trie_views T views]: views is the node view of T sorted by node id, ids 0,1,2,..
   (Permutation of Model.node_views + consecutive ids determine it uniquely) *)
Definition C06c_statement : Prop :=
  forall (ls : bool) (keys : list key) (vals : option (list (list byte))) (ot : old_trie),
    AdjSorted keys -> old_write ls keys = Ok ot ->
    exists T views lidx,
      build_gen false legacy_opts keys vals = Ok T /\
      convert ot = Ok (views, lidx) /\
      trie_views T views /\
      t_leaves T = select_leaves vals lidx /\ t_innerpfx T = false /\ t_leafpfx T = false.

(* 1. whatever the old writer could write converts, without panic, to exactly the trie
   of today's builder: same nodes under the same ids (inner: not big, same step, no
   stored prefix, same first child id, same label list; leaf: same leaf ordinal, no
   tail), leaf values in the same order. *)
Theorem C06c_conversion_is_build : C06c_statement.
Proof. exact legacy_conversion. Qed.
Print Assumptions C06c_conversion_is_build.

(* 2. read from today's builder: if it accepts the keys and the old 16-bit step field
   can hold every step, the old table exists and its conversion is that very trie. *)
Theorem C06c_conversion_of_build :
  forall (ls : bool) (keys : list key) (vals : option (list (list byte))) (T : trie),
    AdjSorted keys -> build_gen false legacy_opts keys vals = Ok T ->
    old_write ls keys <> Err EStepTooLong ->
    exists ot views lidx, old_write ls keys = Ok ot /\ convert ot = Ok (views, lidx) /\
                          trie_views T views /\ t_leaves T = select_leaves vals lidx.
Proof. exact legacy_conversion_of_build. Qed.
Print Assumptions C06c_conversion_of_build.

(* 3. the old writer is total on strictly ascending key lists up to the 16-bit step
   field (no fuel exhaustion, no empty subset) ... *)
Theorem C06c_old_writer_outcomes :
  forall (ls : bool) (keys : list key), AdjSorted keys ->
    (exists ot, old_write ls keys = Ok ot) \/ old_write ls keys = Err EStepTooLong.
Proof. exact old_write_outcomes. Qed.
Print Assumptions C06c_old_writer_outcomes.

(* ... and keys of at most 32767 bytes never hit that limit: the hypothesis of
   theorem 1 holds for every such key list. *)
Theorem C06c_old_writer_accepts :
  forall (ls : bool) (keys : list key),
    AdjSorted keys -> (forall k, In k keys -> (N.of_nat (length k) <= 32767)%N) ->
    exists ot, old_write ls keys = Ok ot.
Proof. exact old_write_accepts. Qed.
Print Assumptions C06c_old_writer_accepts.

(* 4. composition with the trie theorems (C01/C02/C09): the converted trie answers Get,
   RangeGet and Search of every indexed key exactly. *)
Theorem C06c_converted_trie_answers :
  forall (ls : bool) (keys : list key) (vs : list (list byte)) (ot : old_trie),
    AdjSorted keys -> length vs = length keys -> old_write ls keys = Ok ot ->
    exists T views lidx,
      convert ot = Ok (views, lidx) /\ trie_views T views /\
      t_leaves T = loaded_leaves vs lidx /\ t_innerpfx T = false /\ t_leafpfx T = false /\
      forall i k, nth_error keys i = Some k ->
        (exists id, getid T k = Some id) /\
        (exists v, get T k = Ok (Found v) /\ val_bytes v = nth i vs []) /\
        (exists v, rangeget T k = Ok (Found v) /\ val_bytes v = nth i vs []) /\
        search T k = Ok (match i with 0 => None | S j => Some (stored T (Some vs) j) end,
                         Some (stored T (Some vs) i),
                         if S i <? length keys then Some (stored T (Some vs) (S i)) else None).
Proof. exact legacy_converted_answers. Qed.
Print Assumptions C06c_converted_trie_answers.

(* ---------------------------------------------------------------- *)
(* Examples: the key set 11vl5 of the archived fixtures
   (abc abcd abcdx abcdy abcdz abd abde bc bcd bcde cde), DESIGN.md appendix A:
   14 old nodes, children bitmap 0x4f7 (inner ids 0,1,2,4,5,6,7,10), leaves bitmap
   0x3bfc, old node 2 (bc|bcd|bcde) is inner AND leaf.  The harness compares the
   same table with the one decoded from the archived files on every run. *)
Definition ex_bs (l : list N) : list byte :=
  map (fun n => match Byte.of_N n with Some b => b | None => "000"%byte end) l.
Definition ex_keys : list key := map ex_bs
  [[97;98;99]; [97;98;99;100]; [97;98;99;100;120]; [97;98;99;100;121]; [97;98;99;100;122];
   [97;98;100]; [97;98;100;101]; [98;99]; [98;99;100]; [98;99;100;101]; [99;100;101]]%N.

Definition ex_old : old_trie :=
  [{| on_bm := [1; 2; 3]; on_step := 2; on_leaf := None |};
   {| on_bm := [3; 4]; on_step := 4; on_leaf := None |};
   {| on_bm := [6]; on_step := 3; on_leaf := Some 7 |};
   {| on_bm := []; on_step := 0; on_leaf := Some 10 |};
   {| on_bm := [6]; on_step := 0; on_leaf := Some 0 |};
   {| on_bm := [6]; on_step := 0; on_leaf := Some 5 |};
   {| on_bm := [6]; on_step := 2; on_leaf := Some 8 |};
   {| on_bm := [7]; on_step := 2; on_leaf := Some 1 |};
   {| on_bm := []; on_step := 0; on_leaf := Some 6 |};
   {| on_bm := []; on_step := 0; on_leaf := Some 9 |};
   {| on_bm := [8; 9; 10]; on_step := 0; on_leaf := None |};
   {| on_bm := []; on_step := 0; on_leaf := Some 2 |};
   {| on_bm := []; on_step := 0; on_leaf := Some 3 |};
   {| on_bm := []; on_step := 0; on_leaf := Some 4 |}].

(* the hypotheses of the theorems hold on it *)
Example ex_hypotheses : AdjSorted ex_keys /\ old_write false ex_keys = Ok ex_old /\
  old_first_children 1 ex_old =
    [Some 1; Some 4; Some 6; None; Some 7; Some 8; Some 9; Some 10; None; None; Some 11; None; None; None].
Proof. split; [apply check_order_none; vm_compute; reflexivity|]. split; vm_compute; reflexivity. Qed.

(* 19 new nodes: the five inner-and-leaf old nodes 2,4,5,6,7 each get an extra first
   child under the empty label 0; label b -> b+1; step 4 -> 3 nibbles *)
Example ex_convert :
  convert ex_old =
  Ok ([VInner 0 false 1 None 1 [2; 3; 4]; VInner 1 false 3 None 4 [4; 5];
       VInner 2 false 2 None 6 [0; 7]; VLeaf 3 0 None;
       VInner 4 false 0 None 8 [0; 7]; VInner 5 false 0 None 10 [0; 7];
       VLeaf 6 1 None; VInner 7 false 1 None 12 [0; 7];
       VLeaf 8 2 None; VInner 9 false 1 None 14 [0; 8];
       VLeaf 10 3 None; VLeaf 11 4 None; VLeaf 12 5 None;
       VLeaf 13 6 None; VLeaf 14 7 None;
       VInner 15 false 0 None 16 [9; 10; 11];
       VLeaf 16 8 None; VLeaf 17 9 None; VLeaf 18 10 None],
      [10; 7; 0; 5; 6; 8; 9; 1; 2; 3; 4]).
Proof. vm_compute. reflexivity. Qed.

(* and today's builder without big nodes gives a trie with exactly that node view *)
Example ex_build : exists T r, build_gen false legacy_opts ex_keys None = Ok T /\ t_root T = Some r /\
  Permutation (match convert ex_old with Ok (v, _) => v | Err _ => [] end) (node_views r).
Proof.
  destruct (legacy_conversion false ex_keys None ex_old) as (T & views & lidx & Hb & Hc & Hv & _).
  - apply check_order_none. vm_compute. reflexivity.
  - vm_compute. reflexivity.
  - unfold trie_views in Hv. destruct (t_root T) as [r|] eqn:Er.
    + exists T, r. rewrite Hc. destruct Hv as [Hp _]. auto.
    + rewrite ex_convert in Hc. inversion Hc; subst. discriminate.
Qed.

(* the 0.5.0 layout stores a step on leaves as well; the conversion ignores it *)
Example ex_leaf_steps :
  old_write true [ex_bs [97%N]; ex_bs [97%N; 98%N]] =
    Ok [{| on_bm := [6]; on_step := 3; on_leaf := Some 0 |}; {| on_bm := []; on_step := 2; on_leaf := Some 1 |}] /\
  old_write false [ex_bs [97%N]; ex_bs [97%N; 98%N]] =
    Ok [{| on_bm := [6]; on_step := 3; on_leaf := Some 0 |}; {| on_bm := []; on_step := 0; on_leaf := Some 1 |}] /\
  convert [{| on_bm := [6]; on_step := 3; on_leaf := Some 0 |}; {| on_bm := []; on_step := 2; on_leaf := Some 1 |}] =
    Ok ([VInner 0 false 2 None 1 [0; 7]; VLeaf 1 0 None; VLeaf 2 1 None], [0; 1]).
Proof. vm_compute. repeat split; reflexivity. Qed.

(* tables no old writer produces end in the explicit outcomes of the model, never in a
   normal-looking value: a child id beyond the arrays (641: the must.Be assertion), the
   empty table is the empty trie *)
Example ex_ill_formed :
  convert [{| on_bm := [3]; on_step := 0; on_leaf := None |}] = Err (EPanic 641) /\
  convert [] = Ok ([], []).
Proof. vm_compute. split; reflexivity. Qed.
