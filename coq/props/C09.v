(* C09 - Search on an indexed key returns its exact neighbours in every mode.
   Closing theorem only; proofs in theories/OrderProofs.v and SearchProofs.v.

   [retained_idx] lists the indexes of the retained keys in key order (they are
   ascending); the theorem says that for the retained key number i, with
   retained_idx = P ++ i :: S, Search returns the stored values of last(P), i and
   head(S) - nil where P resp. S is empty.  [stored T vals j] is what the trie
   returns for key j: its supplied bytes, or nil when the trie stores no values. *)
From Slim Require Import Base Keys Model TrieInv BuildProofs QueryProofs OrderProofs SearchProofs.
From Slim Require Import BitmapRank Bits Msg MsgProofs.

Definition retained_idx (o : opts) (keys : list key) (vals : option (list (list byte))) : list nat :=
  map e_idx (kept (root_subset o keys vals)).

Theorem C09_search_exact_neighbours :
  forall (ropt : raw_opt) keys vals T i k P S,
    build (normalize ropt) keys vals = Ok T ->
    nth_error keys i = Some k ->
    retained_idx (normalize ropt) keys vals = P ++ i :: S ->
    search T k = Ok (option_map (stored T vals) (last_opt P),
                     Some (stored T vals i),
                     option_map (stored T vals) (hd_opt S)).
Proof. intros ropt keys vals T i k P S. exact (search_retained (normalize ropt) keys vals T i k P S). Qed.
Print Assumptions C09_search_exact_neighbours.

(* [retained_idx] is the ascending list of exactly the retained positions *)
Theorem C09_retained_idx_spec :
  forall o keys vals j, In j (retained_idx o keys vals) <-> (j < length keys /\ retained o keys vals j = true).
Proof.
  intros o keys vals j. unfold retained_idx. rewrite in_map_iff. split.
  - intros (e & <- & He). apply filter_In in He. destruct He as [He Hk].
    destruct (root_ent_in o keys vals e He) as (i & k & Hi & ->). cbn in *. split; [|exact Hk].
    apply nth_error_Some. rewrite Hi. discriminate.
  - intros [Hj Hr]. destruct (nth_error keys j) as [k|] eqn:Ek; [|apply nth_error_None in Ek; lia].
    exists (root_ent o keys vals j k). split; [reflexivity|]. apply filter_In. split; [|exact Hr].
    eapply nth_error_In. apply root_ent_nth. exact Ek.
Qed.
Print Assumptions C09_retained_idx_spec.

Definition ex_keys : list key := [ ["097"%byte]; ["097"%byte; "098"%byte]; ["098"%byte]; ["099"%byte; "100"%byte] ].
Definition ex_vals : option (list (list byte)) := Some [ ["001"%byte]; ["001"%byte]; ["002"%byte]; ["003"%byte] ].
Definition ex_opt : raw_opt := {| r_dedup := None; r_inner := None; r_leaf := None; r_complete := None |}.
(* "ab" is de-duplicated away; the neighbours of "b" are "a" and "cd" *)
Example C09_example :
  retained_idx (normalize ex_opt) ex_keys ex_vals = [0; 2; 3] /\
  exists T, build (normalize ex_opt) ex_keys ex_vals = Ok T /\
            search T ["098"%byte] = Ok (Some (Some ["001"%byte]), Some (Some ["002"%byte]), Some (Some ["003"%byte])).
Proof. split; [vm_compute; reflexivity|]. eexists. split; vm_compute; reflexivity. Qed.

(* ---- the same through the bit-level message (sub-check L3 ties Msg.v to the code) ---- *)
Theorem C09_search_exact_neighbours_message :
  forall (ropt : raw_opt) keys vals T m vs i k P S fuel,
    build (normalize ropt) keys vals = Ok T -> encode_trie T = Val m -> init_vars m = Val vs ->
    trie_height T <= fuel ->
    nth_error keys i = Some k ->
    retained_idx (normalize ropt) keys vals = P ++ i :: S ->
    msearch (Datatypes.S fuel) m vs k = Ok (option_map (stored T vals) (last_opt P),
                                Some (stored T vals i),
                                option_map (stored T vals) (hd_opt S)).
Proof.
  intros ropt keys vals T m vs i k P S fuel Hb Em Ev Hf Hk Hr.
  rewrite (msearch_search _ _ _ _ _ _ _ _ Hb Em Ev Hf).
  exact (search_retained (normalize ropt) keys vals T i k P S Hb Hk Hr).
Qed.
Print Assumptions C09_search_exact_neighbours_message.
