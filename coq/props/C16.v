(* C16 - compacted arrays behave as a sparse map and survive serialization.
   Closing theorems only; the model is coq/theories/Arrays.v + BitmapRank.v, the proofs are
   in ArraysProofs.v + BitmapRankProofs.v.

   Reading guide.  Positions are N (non-negative int32), [ascending idx = true] is "strictly
   ascending" ([C16_ascending_means]), [idx_ok idx] says every position is < MaxInt32 (the
   property only asks for [0,2^20); at MaxInt32 bitmap.Of panics, [C16_maxint32_panics]),
   [elts_fit] says the element buffer is shorter than 2^31 bytes: the proofs do not need it,
   it delimits the inputs on which the model's unbounded arithmetic is Go's int32 arithmetic.
   [span a] = 64 * number of bitmap words.  Outcomes: [Val x] is a normal return, [Panic] a Go
   run-time panic.  Section 6 is the round trip at the level of the message fields; sections
   8-12 close it over the protobuf WIRE FORMAT: [ser_array32] / [parse_array32] (ArrWire.v, over
   the varint/token machinery of Varint.v/Proto.v) are proto.Marshal / proto.Unmarshal of
   array.Array32 (with its sub-message array.Bits) as golang/protobuf 1.3.1 writes and reads
   them; [marshal_array] / [unmarshal_typed] / [unmarshal_generic] compose them with the field
   copies of section 6; [array32_wire_ok] says every field fits its Go type (int32 fields
   < 2^31, uint32 < 2^32, words < 2^64, length prefixes < 2^64) - section 11 proves it for
   everything the constructors build. *)
From Coq Require Import List NArith ZArith Lia.
From Coq.Strings Require Import Byte.
From Slim Require Import BitmapRank BitmapRankProofs Arrays ArraysProofs.
From Slim Require Import Varint Proto ProtoProofs ArrWire ArrWireProofs.
Import ListNotations.
Local Open Scope N_scope.

(* 1. typed arrays (NewU16 .. NewI64; k is any integer kind) *)
Theorem C16_typed_sparse_map : forall k idx zs,
  ascending idx = true -> idx_ok idx -> length zs = length idx -> Forall (int_ok k) zs ->
  elts_fit [k] idx ->
  exists b, new_typed k idx zs = Val (Built b) /\ enc b = None /\
    Cnt (arr b) = N.of_nat (length idx) /\
    span (arr b) = 64 * span_words idx /\
    (forall j, (j < length idx)%nat ->
       nth j idx 0 < span (arr b) /\
       typed_get k (arr b) (nth j idx 0) = Val (nth j zs 0%Z, true) /\
       get_bytes (arr b) (nth j idx 0) (k_bytes k) = Val (Some (encode_int k (nth j zs 0%Z)))) /\
    (forall i, i < span (arr b) -> ~ In i idx ->
       typed_get k (arr b) i = Val (0%Z, false) /\ get_bytes (arr b) i (k_bytes k) = Val None) /\
    (forall i, span (arr b) <= i ->
       typed_get k (arr b) i = Panic /\ get_bytes (arr b) i (k_bytes k) = Panic).
Proof. exact typed_array_sparse_map. Qed.
Print Assumptions C16_typed_sparse_map.

(* 2. the generic Array built by array.New from a slice of fixed-size values of type [ty]
      (with no element the array keeps a nil encoder and an empty span) *)
Theorem C16_generic_sparse_map : forall ty idx vs,
  ascending idx = true -> idx_ok idx -> length vs = length idx -> Forall (value_ok ty) vs ->
  elts_fit ty idx ->
  exists b, new_generic ty idx vs = Val (Built b) /\
    enc b = (match idx with [] => None | _ => Some ty end) /\
    Cnt (arr b) = N.of_nat (length idx) /\
    (idx <> [] ->
       span (arr b) = 64 * span_words idx /\
       (forall j, (j < length idx)%nat ->
          nth j idx 0 < span (arr b) /\
          base_get b (nth j idx 0) = Val (Some (nth j vs [])) /\
          get_bytes (arr b) (nth j idx 0) (enc_size ty) = Val (Some (encode_fields ty (nth j vs [])))) /\
       (forall i, i < span (arr b) -> ~ In i idx ->
          base_get b i = Val None /\ get_bytes (arr b) i (enc_size ty) = Val None) /\
       (forall i, span (arr b) <= i ->
          base_get b i = Panic /\ get_bytes (arr b) i (enc_size ty) = Panic)) /\
    (idx = [] -> span (arr b) = 0 /\ forall i, base_get b i = Panic).
Proof. exact generic_array_sparse_map. Qed.
Print Assumptions C16_generic_sparse_map.

(* 3. the generic Array with a user-supplied encoder [e] *)
Theorem C16_encoder_sparse_map : forall e idx vs,
  ascending idx = true -> idx_ok idx -> length vs = length idx -> Forall (value_ok e) vs ->
  elts_fit e idx ->
  exists b, new_with_encoder e idx vs = Val (Built b) /\ enc b = Some e /\
    Cnt (arr b) = N.of_nat (length idx) /\
    span (arr b) = 64 * span_words idx /\
    (forall j, (j < length idx)%nat ->
       nth j idx 0 < span (arr b) /\
       base_get b (nth j idx 0) = Val (Some (nth j vs [])) /\
       get_bytes (arr b) (nth j idx 0) (enc_size e) = Val (Some (encode_fields e (nth j vs [])))) /\
    (forall i, i < span (arr b) -> ~ In i idx ->
       base_get b i = Val None /\ get_bytes (arr b) i (enc_size e) = Val None) /\
    (forall i, span (arr b) <= i ->
       base_get b i = Panic /\ get_bytes (arr b) i (enc_size e) = Panic).
Proof. exact encoder_array_sparse_map. Qed.
Print Assumptions C16_encoder_sparse_map.

(* 4. typed = generic = raw-bytes accessor, on EVERY array whose Offsets are as long as its
      Bitmaps (whatever its content, hence also after any reload), at every probe: the typed
      and the generic answer are the decodings of the raw answer, panics included *)
Theorem C16_accessors_agree : forall k e a i,
  length (Offsets a) = length (Bitmaps a) ->
  typed_get k a i = typed_of_raw k (get_bytes a i (k_bytes k)) /\
  base_get {| arr := a; enc := Some e |} i = generic_of_raw e (get_bytes a i (enc_size e)) /\
  base_get {| arr := a; enc := Some [k] |} i = generic_of_typed (typed_get k a i).
Proof.
  intros k e a i H. split; [apply typed_eq_raw; exact H|].
  split; [apply generic_eq_raw|apply generic_eq_typed; exact H].
Qed.
Print Assumptions C16_accessors_agree.

(* 5. rejection: the length check comes first; the receiver is returned unchanged ("builds
      nothing"), the constructors return no array *)
Theorem C16_rejects : forall b k ty idx (zs : list Z) (vs : list value),
  (length idx <> length vs ->
     base_init b ty idx vs = Val (b, Some ErrIndexLen) /\
     array_init b ty idx vs = Val (b, Some ErrIndexLen) /\
     new_generic ty idx vs = Val (Rejected ErrIndexLen) /\
     new_with_encoder ty idx vs = Val (Rejected ErrIndexLen)) /\
  (length idx = length vs -> ascending idx = false ->
     base_init b ty idx vs = Val (b, Some ErrIndexNotAscending) /\
     array_init b ty idx vs = Val (b, Some ErrIndexNotAscending) /\
     new_generic ty idx vs = Val (Rejected ErrIndexNotAscending) /\
     new_with_encoder ty idx vs = Val (Rejected ErrIndexNotAscending)) /\
  (length idx <> length zs -> new_typed k idx zs = Val (Rejected ErrIndexLen)) /\
  (length idx = length zs -> ascending idx = false ->
     new_typed k idx zs = Val (Rejected ErrIndexNotAscending)).
Proof.
  intros b k ty idx zs vs.
  destruct (constructors_reject k ty idx zs vs) as (C1 & C2 & C3 & C4).
  split; [|split; [|split]].
  - intros H. destruct (rejects_length b ty idx vs H). destruct (C2 H). auto.
  - intros H H'. destruct (rejects_order b ty idx vs H H'). destruct (C4 H H'). auto.
  - exact C1.
  - exact C3.
Qed.
Print Assumptions C16_rejects.

(* "not ascending" = an equal or descending pair of neighbours at some position *)
Theorem C16_ascending_means : forall idx,
  ascending idx = true <-> forall p, (S p < length idx)%nat -> nth p idx 0 < nth (S p) idx 0.
Proof. exact ascending_neighbours. Qed.
Print Assumptions C16_ascending_means.

(* 6. serialization at the level of message fields: reloading into the array's own type is
      the identity, reloading into the other type keeps all seven fields, and a typed array
      reloaded as a generic one (or the other way round) answers every probe identically *)
Theorem C16_roundtrip : forall b ty k,
  (enc b = None -> of_msg_typed (to_msg b) = b) /\
  (enc b = Some ty -> of_msg_generic ty (to_msg b) = b) /\
  arr (of_msg_typed (to_msg b)) = arr b /\ arr (of_msg_generic ty (to_msg b)) = arr b /\
  (length (Offsets (arr b)) = length (Bitmaps (arr b)) ->
   forall i,
     base_get (of_msg_generic [k] (to_msg b)) i = generic_of_typed (typed_get k (arr b) i) /\
     generic_of_typed (typed_get k (arr (of_msg_typed (to_msg b))) i)
       = base_get {| arr := arr b; enc := Some [k] |} i).
Proof.
  intros b ty k. split; [apply roundtrip_typed|]. split; [apply roundtrip_generic|].
  split; [reflexivity|]. split; [reflexivity|].
  intros H i. split; [apply reload_typed_as_generic; exact H|apply reload_generic_as_typed; exact H].
Qed.
Print Assumptions C16_roundtrip.

(* 7. the core lemma: rank correctness of the bitmap helpers, and the statement that is
      actually true about the stored offsets (the deliberate quirk of InitIndex): for a word
      with a set bit the stored offset is the rank before the word, for an empty word it is
      0 - which no successful lookup ever reads *)
Theorem C16_rank_correct : forall ws i r bit,
  words_ok ws -> rank64 ws (index_rank64 ws 0) i = Val (r, bit) ->
  r = rank_spec ws i /\ bit = N.b2n (bm_get ws i).
Proof. exact rank64_correct. Qed.
Print Assumptions C16_rank_correct.

Theorem C16_offsets_quirk : forall ws i x,
  nthN ws (word_of i) = Some x ->
  (x <> 0 -> rank64 ws (offsets_of ws) i = rank64 ws (index_rank64 ws 0) i) /\
  (x = 0 -> rank64 ws (offsets_of ws) i = Val (0, 0)).
Proof.
  intros ws i x H. split.
  - intros Hx. eapply rank64_offsets_nonzero; eassumption.
  - intros ->. apply rank64_offsets_zero. exact H.
Qed.
Print Assumptions C16_offsets_quirk.

Theorem C16_bitmap_of : forall idx,
  ascending idx = true -> idx_ok idx ->
  exists ws, bm_of idx = Val ws /\ words_ok ws /\
             (forall k, bm_get ws k = true <-> In k idx) /\
             N.of_nat (length ws) = span_words idx.
Proof.
  intros idx H Hok. apply bm_of_spec; [apply ascending_sorted; exact H|exact Hok].
Qed.
Print Assumptions C16_bitmap_of.

(* beyond the property's domain: position MaxInt32 makes bitmap.Of panic *)
Theorem C16_maxint32_panics : forall k z, new_typed k [int32_max] [z] = Panic.
Proof. exact maxint32_panics. Qed.
Print Assumptions C16_maxint32_panics.

(* ---- the hypotheses are satisfiable on a concrete non-trivial input ---- *)

Definition ex_idx : list N := [1; 5; 9; 203].
Definition ex_vals : list Z := [12; 15; 19; 120]%Z.

Example ex_ascending : ascending ex_idx = true.
Proof. reflexivity. Qed.

Example ex_idx_ok : idx_ok ex_idx.
Proof. repeat constructor. Qed.

Example ex_vals_ok : Forall (int_ok U16) ex_vals.
Proof. repeat (constructor; [split; [cbn; lia|vm_compute; split; [discriminate|reflexivity]]|]). constructor. Qed.

Example ex_fit : elts_fit [U16] ex_idx.
Proof. vm_compute. discriminate. Qed.

(* the built array: words 1 and 2 are empty and carry the quirky offset 0 (their rank is 3);
   this is the Offsets field 0,0,0,3 of array/array_test.go:TestArrayAndU32InterMarshal *)
Example ex_built :
  new_typed U16 ex_idx ex_vals =
  Val (Built {| arr := {| Cnt := 4; Bitmaps := [546; 0; 0; 2048]; Offsets := [0; 0; 0; 3];
                          Elts := [x0c; x00; x0f; x00; x13; x00; x78; x00];
                          Flags := 0; EltWidth := 0; BMElts := None |};
                enc := None |}).
Proof. vm_compute. reflexivity. Qed.

Example ex_get :
  match new_typed U16 ex_idx ex_vals with
  | Val (Built b) =>
    typed_get U16 (arr b) 203 = Val (120%Z, true) /\
    typed_get U16 (arr b) 100 = Val (0%Z, false) /\
    get_bytes (arr b) 9 2 = Val (Some [x13; x00]) /\
    base_get (of_msg_generic [U16] (to_msg b)) 9 = Val (Some [19%Z]) /\
    typed_get U16 (arr b) 256 = Panic
  | _ => False
  end.
Proof. vm_compute. repeat split. Qed.

Example ex_struct :
  match new_generic [I32; U16] [10; 12; 13] [[1; 2]; [-3; 4]; [5; 65535]]%Z with
  | Val (Built b) => base_get b 12 = Val (Some [-3; 4]%Z) /\ base_get b 11 = Val None
  | _ => False
  end.
Proof. vm_compute. repeat split. Qed.

Example ex_rejected :
  new_typed U16 [5; 5] [1; 2]%Z = Val (Rejected ErrIndexNotAscending) /\
  new_typed U16 [9; 5] [1]%Z = Val (Rejected ErrIndexLen).
Proof. vm_compute. split; reflexivity. Qed.

(* ================= the protobuf wire format (proto.Marshal / proto.Unmarshal) ================= *)

(* 8. the reader inverts the writer on EVERY well-formed message Array32 (any field values the
      Go types can hold: negative int32, full-range uint32/uint64, absent / empty / filled
      BMElts, any sizes), and [size_array32] (proto.Size) is the length of what is written *)
Theorem C16_wire_roundtrip : forall a,
  wf_array32 a = true -> parse_array32 (ser_array32 a) = Some a.
Proof. exact parse_array32_ser. Qed.
Print Assumptions C16_wire_roundtrip.

Theorem C16_wire_roundtrip_bits : forall b,
  wf_bits b = true -> parse_bits (ser_bits b) = Some b.
Proof. exact parse_bits_ser. Qed.
Print Assumptions C16_wire_roundtrip_bits.

Theorem C16_wire_size : forall a, blen (ser_array32 a) = size_array32 a.
Proof. exact size_array32_length. Qed.
Print Assumptions C16_wire_size.

(* 9. fields a newer writer added (any field number the schema does not know, varint or
      length-delimited) are retained in XXX_unrecognized and written back: the message is
      still reproduced exactly *)
Theorem C16_wire_unknown_fields : forall a us,
  wf_array32 a = true -> Forall canon us -> Forall (fun t => arr_known (tok_tag t) = false) us ->
  parse_array32 (ser_array32 (wa_with_unk a (ser_toks us))) = Some (wa_with_unk a (ser_toks us)).
Proof. exact parse_array32_ser_unknown. Qed.
Print Assumptions C16_wire_unknown_fields.

(* 10. proto.Unmarshal on ANY byte string (truncated, malformed, hostile) has exactly two
       outcomes - its one error or a message; there is no third one (no panic), and which of
       the two is decided by the acceptance scan [accepts_array32] that C07 uses for the legacy
       three-section streams; every field of a loaded message fits its Go type ([fits_array32]:
       int32 / uint32 / uint64 ranges), whatever the input was *)
Theorem C16_wire_total : forall b,
  (accepts_array32 b = true /\ exists a, parse_array32 b = Some a /\ fits_array32 a = true) \/
  (accepts_array32 b = false /\ parse_array32 b = None).
Proof. exact parse_array32_total_fits. Qed.
Print Assumptions C16_wire_total.

(* 11. what the three constructors build from a valid input can be marshalled: every field
       fits its Go type and every length prefix fits a uint64 *)
Theorem C16_built_arrays_wire_ok : forall k ty idx zs vs b,
  ascending idx = true -> idx_ok idx ->
  (length zs = length idx -> Forall (int_ok k) zs -> elts_fit [k] idx ->
     new_typed k idx zs = Val (Built b) -> array32_wire_ok (arr b) = true) /\
  (length vs = length idx -> Forall (value_ok ty) vs -> elts_fit ty idx ->
     (new_generic ty idx vs = Val (Built b) -> array32_wire_ok (arr b) = true) /\
     (new_with_encoder ty idx vs = Val (Built b) -> array32_wire_ok (arr b) = true)).
Proof.
  intros k ty idx zs vs b Hasc Hok. split.
  - intros. eapply typed_array_wire_ok; eassumption.
  - intros. split; intros; [eapply generic_array_wire_ok|eapply encoder_array_wire_ok]; eassumption.
Qed.
Print Assumptions C16_built_arrays_wire_ok.

(* 12. the round trip THROUGH THE BYTES, for every array whose fields fit their Go types:
       Unmarshal(Marshal(b)) into the array's own type is b itself; into either type it has
       the same seven fields, hence the same answer of every accessor at every probe (section
       4), and a typed array reloaded as a generic one (or the other way round) answers every
       probe identically *)
Theorem C16_roundtrip_bytes : forall b ty k,
  array32_wire_ok (arr b) = true ->
  (enc b = None -> unmarshal_typed (marshal_array b) = Some b) /\
  (enc b = Some ty -> unmarshal_generic ty (marshal_array b) = Some b) /\
  (exists bt bg,
     unmarshal_typed (marshal_array b) = Some bt /\ unmarshal_generic ty (marshal_array b) = Some bg /\
     arr bt = arr b /\ enc bt = None /\ arr bg = arr b /\ enc bg = Some ty) /\
  (length (Offsets (arr b)) = length (Bitmaps (arr b)) ->
   exists bg bt,
     unmarshal_generic [k] (marshal_array b) = Some bg /\ unmarshal_typed (marshal_array b) = Some bt /\
     forall i,
       base_get bg i = generic_of_typed (typed_get k (arr b) i) /\
       generic_of_typed (typed_get k (arr bt) i) = base_get {| arr := arr b; enc := Some [k] |} i).
Proof. exact wire_roundtrip. Qed.
Print Assumptions C16_roundtrip_bytes.

(* end to end, typed arrays: build, Marshal to bytes, Unmarshal - the typed reload IS the
   array (so it is the same sparse map), the generic reload has the same fields and answers
   every probe like the typed accessor; the bytes are as long as proto.Size says *)
Theorem C16_typed_survives_bytes : forall k idx zs,
  ascending idx = true -> idx_ok idx -> length zs = length idx -> Forall (int_ok k) zs ->
  elts_fit [k] idx ->
  exists b, new_typed k idx zs = Val (Built b) /\
    sparse_map_typed k b idx zs /\
    blen (marshal_array b) = size_array32 (wire_of_array32 (arr b)) /\
    unmarshal_typed (marshal_array b) = Some b /\
    unmarshal_generic [k] (marshal_array b) = Some {| arr := arr b; enc := Some [k] |} /\
    (forall i, base_get {| arr := arr b; enc := Some [k] |} i = generic_of_typed (typed_get k (arr b) i)).
Proof. exact typed_array_survives_bytes. Qed.
Print Assumptions C16_typed_survives_bytes.

(* end to end, generic arrays (at least one element) *)
Theorem C16_generic_survives_bytes : forall ty idx vs,
  ascending idx = true -> idx_ok idx -> length vs = length idx -> Forall (value_ok ty) vs ->
  elts_fit ty idx -> idx <> [] ->
  exists b, new_generic ty idx vs = Val (Built b) /\
    sparse_map_generic ty b idx vs /\
    blen (marshal_array b) = size_array32 (wire_of_array32 (arr b)) /\
    unmarshal_generic ty (marshal_array b) = Some b /\
    unmarshal_typed (marshal_array b) = Some {| arr := arr b; enc := None |}.
Proof. exact generic_array_survives_bytes. Qed.
Print Assumptions C16_generic_survives_bytes.

(* ---- concrete bytes: what the real proto.Marshal wrote (harness case with ex_idx/ex_vals,
        and wire message m1), reproduced by the model and read back ---- *)
Definition ex_bytes : list byte :=
  [x08; x04; x12; x06; xa2; x04; x00; x00; x80; x10; x1a; x04; x00; x00; x00; x03;
   x22; x08; x0c; x00; x0f; x00; x13; x00; x78; x00].

Example ex_marshal :
  match new_typed U16 ex_idx ex_vals with
  | Val (Built b) =>
    array32_wire_ok (arr b) = true /\ marshal_array b = ex_bytes /\
    size_array32 (wire_of_array32 (arr b)) = 26 /\
    unmarshal_typed ex_bytes = Some b /\
    match unmarshal_generic [U16] ex_bytes with
    | Some g => base_get g 203 = Val (Some [120%Z]) /\ base_get g 100 = Val None
    | None => False
    end
  | _ => False
  end.
Proof. vm_compute. repeat split. Qed.

(* negative int32, a uint32 above 2^31, a word with bit 63, a filled sub-message *)
Definition ex_wire_msg : warray :=
  mkWArray 3 [9223372036854775809; 0] [0; -1]%Z [x61; x62; x63] 2147483648 (-2)
           (Some (mkWBits 1 300 [255] [0; 7]%Z [])) [].
Definition ex_wire_bytes : list byte :=
  [x08; x03; x12; x0b; x81; x80; x80; x80; x80; x80; x80; x80; x80; x01; x00; x1a;
   x0b; x00; xff; xff; xff; xff; xff; xff; xff; xff; xff; x01; x22; x03; x61; x62;
   x63; x50; x80; x80; x80; x80; x08; xa0; x01; xfe; xff; xff; xff; xff; xff; xff;
   xff; xff; x01; xf2; x01; x0f; x08; x01; x50; xac; x02; xa2; x01; x02; xff; x01;
   xf2; x01; x02; x00; x07].

Example ex_wire :
  wf_array32 ex_wire_msg = true /\ ser_array32 ex_wire_msg = ex_wire_bytes /\
  size_array32 ex_wire_msg = 69 /\ parse_array32 ex_wire_bytes = Some ex_wire_msg.
Proof. vm_compute. repeat split. Qed.

(* malformed input is rejected, unknown fields are kept: a truncated stream, a length prefix
   beyond the end, field number 0, an unknown varint field 7 *)
Example ex_wire_malformed :
  parse_array32 (firstn 20 ex_bytes) = None /\
  parse_array32 [x22; x05; x61] = None /\
  parse_array32 [x00; x01] = None /\
  parse_array32 [x08; x04; x38; x2a] = Some (mkWArray 4 [] [] [] 0 0 None [x38; x2a]).
Proof. vm_compute. repeat split. Qed.

From SlimGen Require Gen_Consts.
From Coq Require Import String.

(* ---- the protobuf schema the wire model was written for ----------------------------------
   Gen_Consts.g_proto_fields is REGENERATED on every run from the struct tags of the generated
   *.pb.go files in /repo (message, field, number, Go type, wire kind / repeated / packed):
   a renumbered, retyped, added or removed field of array.Array32 / Bits breaks this obligation. *)
Example C16_schema :
  filter (fun r => String.prefix "array."%string (fst (fst (fst r)))) SlimGen.Gen_Consts.g_proto_fields =
  [("array.Array32"%string, "Cnt"%string, 1, "int32 varint,1,opt,proto3"%string);
   ("array.Array32"%string, "Bitmaps"%string, 2, "[]uint64 varint,2,rep,packed,proto3"%string);
   ("array.Array32"%string, "Offsets"%string, 3, "[]int32 varint,3,rep,packed,proto3"%string);
   ("array.Array32"%string, "Elts"%string, 4, "[]byte bytes,4,opt,proto3"%string);
   ("array.Array32"%string, "Flags"%string, 10, "uint32 varint,10,opt,proto3"%string);
   ("array.Array32"%string, "EltWidth"%string, 20, "int32 varint,20,opt,proto3"%string);
   ("array.Array32"%string, "BMElts"%string, 30, "*Bits bytes,30,opt,proto3"%string);
   ("array.Bits"%string, "Flags"%string, 1, "uint32 varint,1,opt,proto3"%string);
   ("array.Bits"%string, "N"%string, 10, "int32 varint,10,opt,proto3"%string);
   ("array.Bits"%string, "Words"%string, 20, "[]uint64 varint,20,rep,packed,proto3"%string);
   ("array.Bits"%string, "RankIndex"%string, 30, "[]int32 varint,30,rep,packed,proto3"%string)]%N.
Proof. vm_compute. reflexivity. Qed.
