(* C18 - Stat reports the exact key count and consistent level totals.
   Closing theorems only; proofs are in theories/StatProofs.v.

   Model level: L2 (tree model with BFS ids, coq/theories/Model.v) plus
   coq/theories/Stat.v ([levels], [stat], [levels_walk]).  The correspondence
   check compares Stat() and the level table st.levels (hook VerifLevels) with
   [stat] / [levels] / [levels_walk] on generated tries, fresh and reloaded.
   [build .. = Ok T] is the success of NewSlimTrie (C08 says when that happens).
   Counts are [nat]; the code uses int32 (a trie has fewer than 2^31 nodes). *)
From Slim Require Import Base Keys KeysProofs Model QueryProofs Stat StatProofs.
From Coq Require Import Sorting.Sorted.

(* Every clause of the property for tries built by NewSlimTrie:
   KeyCnt = number of retained keys; NodeCnt = inner + leaf = number of nodes;
   LevelCnt = length of the table; the table starts with {0,0,0}; every entry
   has total = inner + leaf; entries never decrease; the last entry is the
   totals; (0 keys, 0 nodes) for the empty key list, (1 key, 1 node) for one key.
   Stat does not panic ([stat T = Ok s]). *)
Theorem C18_stat :
  forall (ropt : raw_opt) (keys : list key) (vals : option (list (list byte))) (T : trie),
    build (normalize ropt) keys vals = Ok T ->
    exists s, stat T = Ok s /\
      st_keycnt s = length (filter (retained (normalize ropt) keys vals) (List.seq 0 (length keys))) /\
      st_nodecnt s = inner_count T + leaf_count T /\
      st_nodecnt s = length (nodes_of T) /\
      st_levels s = levels T /\ st_levelcnt s = length (st_levels s) /\
      hd_opt (st_levels s) = Some (0, 0, 0) /\
      Forall (fun e => lv_total e = lv_inner e + lv_leaf e) (st_levels s) /\
      StronglySorted (fun a b => lv_total a <= lv_total b /\ lv_inner a <= lv_inner b /\ lv_leaf a <= lv_leaf b) (st_levels s) /\
      last_opt (st_levels s) = Some (st_nodecnt s, inner_count T, leaf_count T) /\
      (keys = [] -> st_keycnt s = 0 /\ st_nodecnt s = 0 /\ st_levels s = [(0, 0, 0)]) /\
      (length keys = 1 -> st_keycnt s = 1 /\ st_nodecnt s = 1 /\ st_levels s = [(0, 0, 0); (1, 0, 1)]).
Proof. intros ropt keys vals T. exact (stat_correct (normalize ropt) keys vals T). Qed.
Print Assumptions C18_stat.

(* "per-level": entry k+1 of the table counts the nodes of depth <= k
   (inner / leaf), and the table has one entry per depth plus the leading zero entry *)
Theorem C18_levels_are_depth_counts :
  forall (T : trie) (r : tree) (k : nat),
    t_root T = Some r -> k < length (profile r) ->
    length (levels T) = S (length (profile r)) /\
    nth (S k) (levels T) (0, 0, 0) =
      (count_inner (upto_depth k r) + count_leaf (upto_depth k r),
       count_inner (upto_depth k r), count_leaf (upto_depth k r)).
Proof. exact levels_depth_counts. Qed.
Print Assumptions C18_levels_are_depth_counts.

(* the leaves of a built tree, left to right, are exactly the retained keys in
   key order (the bijection behind KeyCnt) *)
Theorem C18_leaves_are_retained_keys :
  forall o keys vals T r lidx,
    BuildProofs.Built o keys vals T r lidx ->
    map snd (BuildProofs.leaves_of r) = filter (retained o keys vals) (List.seq 0 (length keys)).
Proof. exact leaves_retained. Qed.
Print Assumptions C18_leaves_are_retained_keys.

(* the id walk of initLevels (first node of the next level = first child of the
   first inner node at or after the current id; counts by rank over the node
   type bitmap) computes the same table, because node ids are breadth-first *)
Theorem C18_level_walk :
  forall (ropt : raw_opt) (keys : list key) (vals : option (list (list byte))) (T : trie),
    build (normalize ropt) keys vals = Ok T -> levels_walk T = Ok (levels T).
Proof. intros ropt keys vals T. exact (levels_walk_ok (normalize ropt) keys vals T). Qed.
Print Assumptions C18_level_walk.

(* PARTIAL: the clauses "unchanged by a marshal round trip" and "KeyCnt is
   preserved when an equivalent legacy stream is loaded".  Proved here: the
   report is a function of the tree alone.  Missing: that Unmarshal (Marshal t)
   and the legacy loaders decode to the same tree / the same number of leaves -
   that is C05's (wire level) and C06's subject; for C18 both clauses are
   checked by the oracle on every generated trie (reloaded; written in all 12
   legacy layouts and loaded; all archived fixtures). *)
Theorem C18_report_depends_on_tree_only_partial :
  forall T T' : trie, t_root T = t_root T' -> stat T = stat T' /\ levels T = levels T'.
Proof. exact stat_depends_on_root. Qed.
Print Assumptions C18_report_depends_on_tree_only_partial.

(* non-vacuity: the empty key, a key that is a prefix of another, bytes
   0x00/0xff, duplicate values under the default options (dedup on): 6 keys,
   3 retained, 6 nodes on 3 depths *)
Definition ex_keys : list key := [ []; ["000"%byte]; ["000"%byte; "255"%byte]; ["097"%byte]; ["097"%byte; "098"%byte]; ["255"%byte] ].
Definition ex_vals : option (list (list byte)) :=
  Some [ ["001"%byte]; ["001"%byte]; ["002"%byte]; ["002"%byte]; ["003"%byte]; ["003"%byte] ].
Definition ex_opt : raw_opt := {| r_dedup := None; r_inner := None; r_leaf := None; r_complete := None |}.

Example C18_hypotheses_satisfiable :
  exists T, build (normalize ex_opt) ex_keys ex_vals = Ok T /\
            filter (retained (normalize ex_opt) ex_keys ex_vals) (List.seq 0 (length ex_keys)) = [0; 2; 4] /\
            stat T = Ok {| st_keycnt := 3; st_nodecnt := 6; st_levelcnt := 4;
                           st_levels := [(0, 0, 0); (1, 1, 0); (4, 3, 1); (6, 3, 3)] |} /\
            levels_walk T = Ok [(0, 0, 0); (1, 1, 0); (4, 3, 1); (6, 3, 3)].
Proof. vm_compute. eexists. repeat split. Qed.

(* ---- Stat over the MESSAGE and over the LOADED INSTANCE (composition of L2, L3 and L4) -------
   coq/theories/StatMsg.v runs initLevels and Stat the way the Go code runs them over the
   protobuf message fields (Bits.msg): Rank64 on NodeTypeBM at the last bit position (number
   of inner nodes) and at the first id of every level, Rank128 on Inners at the last bit
   position (number of label bits + 1 = NodeCnt) and at the label-bitmap offset computed by
   getIthInnerFrom (BigInnerCnt, ShortBM rank, vars), Stat reading the stored table and
   NodeTypeBM == nil.  coq/theories/StatMsgInst.v puts this into the instance state machine
   of Unmarshal / Reset (Instance.v): levels = initLevels(inner), Reset leaves {{0,0,0}}. *)
From Coq Require Import NArith ZArith.
From Slim Require Import BitmapRank Proto Instance Wire EndToEnd StatMsg StatMsgProofs StatMsgInst StatMsgInstProofs.
From Slim Require Bits.
Local Open Scope nat_scope.

(* on the message of every built trie the level table computed from the message fields is
   the table of the tree, and Stat over it is the tree's Stat: every clause of C18_stat
   holds for what the implementation computes from its bitmaps *)
Theorem C18_message_level_stat :
  forall o keys vals T m vs,
    build o keys vals = Ok T -> Bits.encode_trie T = Val m -> Bits.init_vars m = Val vs ->
    minit_levels m = Ok (levels T) /\ mstat m (minit_levels m) = stat T.
Proof.
  intros o keys vals T m vs Hb Em Ev.
  exact (conj (minit_levels_levels o keys vals T m vs Hb Em Ev) (mstat_stat o keys vals T m vs Hb Em Ev)).
Qed.
Print Assumptions C18_message_level_stat.

(* "unchanged by a marshal round trip": build a trie from ANY accepted input, take its
   message m (tied to creator.build field by field in check L3), Marshal it and Unmarshal the
   bytes into an instance in ANY state after ANY history of Unmarshal / Reset calls.  The
   loaded instance holds the same level table and reports the same Stat() as the instance
   NewSlimTrie returned ([built]: inner = m, vars = initVars(m), levels = initLevels(m)),
   and both are the tree's.  [wf_msg (to_wire m)]: counts and offsets fit the Go field types
   and the body is below 2^63 bytes; to_wire is the identity on fields. *)
Theorem C18_roundtrip_unchanged :
  forall (conv510 : slim -> slim) (conv3 : list byte -> list byte -> list byte -> slim)
         o keys vals T m vs s (st : inst VarsT LevelsT) h,
    build o keys vals = Ok T -> Bits.encode_trie T = Val m -> Bits.init_vars m = Val vs ->
    wf_msg (to_wire m) = true -> marshal_gen (to_wire m) = Some s ->
    let built := installed VarsT LevelsT ivars ilevels (to_wire m) in
    let loaded := run compat_gen cur_gen VarsT LevelsT ivars ilevels reset_lv conv510 conv3 st (h ++ [OpUnmarshal s]) in
    inst_levels loaded = inst_levels built /\ inst_stat loaded = inst_stat built /\
    inst_levels loaded = Ok (levels T) /\ inst_stat loaded = stat T.
Proof. exact loaded_stat. Qed.
Print Assumptions C18_roundtrip_unchanged.

(* the hypotheses hold for the trie of the example above; the message-level functions
   compute its table from the bitmaps *)
Example C18_roundtrip_example :
  exists T m vs s, build (normalize ex_opt) ex_keys ex_vals = Ok T /\ Bits.encode_trie T = Val m /\
    Bits.init_vars m = Val vs /\ wf_msg (to_wire m) = true /\ marshal_gen (to_wire m) = Some s /\
    mstat m (minit_levels m) = Ok {| st_keycnt := 3; st_nodecnt := 6; st_levelcnt := 4;
                                     st_levels := [(0, 0, 0); (1, 1, 0); (4, 3, 1); (6, 3, 3)] |}.
Proof.
  destruct (build (normalize ex_opt) ex_keys ex_vals) as [T|] eqn:E; [|vm_compute in E; discriminate].
  vm_compute in E. injection E as <-.
  eexists _, _, _, _. split; [reflexivity|]. split; [vm_compute; reflexivity|]. split; [vm_compute; reflexivity|].
  split; [vm_compute; reflexivity|]. split; [vm_compute; reflexivity|]. vm_compute. reflexivity.
Qed.
