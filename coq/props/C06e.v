(* C06e (sub-check of C06) - the BYTE level of the three-array legacy layouts (0.5.0 - 0.5.9):
   from the bytes of a stream to the old node table, composed with C06c.

   LegacyBytes.write_stream l keys vals   the old writer down to the stream bytes:
                                  LegacyConv.old_write (the node table), arrays_of_old (the three
                                  array.Array32 messages children / steps / leaves in layout l:
                                  index bitmaps, Offsets as array.InitIndex writes them - 0 for an
                                  empty word -, 0.5.9 padding, children as uint32 or as 16-bit
                                  bitmaps in BMElts, uint16 steps, leaf values), stream_of_arrays
                                  (three pbcmpl sections of the protobuf encoding, Frame.frame +
                                  ArrWire.ser_array32).  Twin of harness/c06_writers.go.
   LegacyBytes.load_stream esz b  the loader: arrays_of_stream (pbcmpl.Unmarshal x 3:
                                  Frame.read_section + ArrWire.parse_array32), old_of_arrays (per
                                  old id: bmhas, getBM16Child = bitmap.Rank64 on Bitmaps/Offsets +
                                  Elts / BMElts.Words, steps.Get, lvs.GetBytes), LegacyConv.convert
                                  (before000510ToNewChildrenArray), c.buildLeaves.
   Both are executed against the implementation on every run (checks/C06e.json): the bytes
   of the reference writer / of the archived files = write_stream; the table the repository's
   accessors read from the REAL bytes = old_of_arrays (arrays_of_stream bytes); the node view of
   the trie the REAL Unmarshal loads = load_stream bytes.

   All theorems are for ALL strictly ascending key lists, all six layouts, all values of
   the loader's fixed size.  None is _partial: the composed theorem C06e_stream_loads has
   every equality of the chain bytes -> sections -> arrays -> node table -> conversion ->
   Model.build_gen false.  Explicit boundaries: at most 2^26 old nodes (Go computes the
   positions inside BMElts in int32) and a value size below 2^31. *)
From Slim Require Import Base Keys KeysProofs Model QueryProofs SearchProofs LegacyConv LegacyConvMainProofs.
From Slim Require Import Varint Proto BitmapRank Arrays ArrWire Semver Frame Wire
     LegacyBytes LegacyBytesProofs LegacyBytesFitProofs LegacyBytesMainProofs.

(* 1. THE ARRAY LEVEL.  For every well-formed node table (ascending nibble labels below 16,
   every id inner or leaf, 16-bit steps, leaves pointing at values, int32 ids) and every
   layout the writer's three arrays exist and the reader gives the table back: same labels
   and steps per old id, the leaves numbered in id order with the values in that order
   (LegacyBytes.renumbered) - no panic, nothing outside the table abstraction. *)
Theorem C06e_array_roundtrip :
  forall (l : layout) (ot : old_trie) (vals : list (list byte)) (esz : nat),
    table_wf (length vals) ot = true -> vals_ok esz vals = true ->
    exists ch st lv,
      arrays_of_old l ot vals = Val (ch, st, lv) /\
      old_of_arrays esz ch st lv = LOk (renumbered ot vals).
Proof. exact old_of_arrays_written. Qed.
Print Assumptions C06e_array_roundtrip.

(* 2. every table the old writer produces is well formed ... *)
Theorem C06e_written_tables_wf :
  forall (ls : bool) (keys : list key) (ot : old_trie),
    AdjSorted keys -> old_write ls keys = Ok ot -> (N.of_nat (length ot) <= int32_max)%N ->
    table_wf (length keys) ot = true.
Proof. exact old_write_table_wf. Qed.
Print Assumptions C06e_written_tables_wf.

(* ... and its three messages are representable: every field fits its Go type, every
   section body is shorter than 2^63 bytes *)
Theorem C06e_written_arrays_fit :
  forall (l : layout) (ot : old_trie) (vals : list (list byte)) (esz : nat) a,
    table_wf (length vals) ot = true -> vals_ok esz vals = true ->
    (N.of_nat (length ot) <= 2 ^ 26)%N -> (N.of_nat esz < 2 ^ 31)%N ->
    arrays_of_old l ot vals = Val a -> arrays_fit a = true.
Proof. exact written_arrays_fit. Qed.
Print Assumptions C06e_written_arrays_fit.

(* 3. THE STREAM LEVEL.  Three representable messages, framed with a version of at most 16
   bytes, read back to exactly those messages (ArrWire + Frame round trips) ... *)
Theorem C06e_stream_roundtrip :
  forall (ver : list byte) (a : warray * warray * warray),
    (length ver <= 16)%nat -> arrays_fit a = true ->
    exists b, stream_of_arrays ver a = Some b /\ arrays_of_stream b = LOk a.
Proof. exact stream_roundtrip. Qed.
Print Assumptions C06e_stream_roundtrip.

(* ... also through the reading part of SlimTrie.Unmarshal with the version gate and the
   constants regenerated from /repo (Frame.unmarshal compat_gen cur_gen): the headers
   1.0.0 / 0.5.8 / 0.5.9 of the six layouts take the three-section path *)
Theorem C06e_stream_roundtrip_gated :
  forall (l : layout) (a : warray * warray * warray),
    In l layouts -> arrays_fit a = true ->
    exists b, stream_of_arrays (l_header l) a = Some b /\
              arrays_of_stream_gated compat_gen cur_gen b = GArrays a.
Proof. exact stream_roundtrip_gated. Qed.
Print Assumptions C06e_stream_roundtrip_gated.

(* 4. THE COMPOSITION.  For every strictly ascending key list the old writer can write
   (every step fits 16 bits: C06c_old_writer_accepts), every one of the six layouts and
   all values of the loader's fixed size: the stream exists; its bytes read back to the
   very three messages the writer laid out; those to the writer's node table (leaves
   renumbered in id order); and load_stream = bytes -> arrays -> table -> convert returns
   the node view (id for id) and the leaf values of Model.build_gen false legacy_opts. *)
Definition C06e_statement : Prop :=
  forall (l : layout) (keys : list key) (vals : list (list byte)) (ot : old_trie) (esz : nat),
    In l layouts ->
    AdjSorted keys -> length vals = length keys -> vals_ok esz vals = true ->
    old_write (l_leafsteps l) keys = Ok ot ->
    (N.of_nat (length ot) <= 2 ^ 26)%N -> (N.of_nat esz < 2 ^ 31)%N ->
    exists b a T views,
      write_stream l keys vals = LOk b /\
      arrays_of_old l ot vals = Val a /\
      arrays_of_stream b = LOk a /\
      arrays_of_stream_gated compat_gen cur_gen b = GArrays a /\
      old_of_arrays esz (fst (fst a)) (snd (fst a)) (snd a) = LOk (renumbered ot vals) /\
      load_stream esz b = LOk (views, t_leaves T) /\
      build_gen false legacy_opts keys (Some vals) = Ok T /\ trie_views T views /\
      t_innerpfx T = false /\ t_leafpfx T = false.

Theorem C06e_stream_loads : C06e_statement.
Proof. exact stream_loads_all. Qed.
Print Assumptions C06e_stream_loads.

(* 5. ... and the trie loaded from the bytes answers Get, RangeGet and Search of every
   indexed key exactly (composition with the trie theorems C01/C02/C09) *)
Theorem C06e_loaded_stream_answers :
  forall (l : layout) (keys : list key) (vals : list (list byte)) (ot : old_trie) (esz : nat),
    In l layouts ->
    AdjSorted keys -> length vals = length keys -> vals_ok esz vals = true ->
    old_write (l_leafsteps l) keys = Ok ot ->
    (N.of_nat (length ot) <= 2 ^ 26)%N -> (N.of_nat esz < 2 ^ 31)%N ->
    exists b T views,
      write_stream l keys vals = LOk b /\
      load_stream esz b = LOk (views, t_leaves T) /\ trie_views T views /\
      t_innerpfx T = false /\ t_leafpfx T = false /\
      forall i k, nth_error keys i = Some k ->
        (exists id, getid T k = Some id) /\
        (exists v, get T k = Ok (Found v) /\ val_bytes v = nth i vals []) /\
        (exists v, rangeget T k = Ok (Found v) /\ val_bytes v = nth i vals []) /\
        search T k = Ok (match i with O => None | S j => Some (stored T (Some vals) j) end,
                         Some (stored T (Some vals) i),
                         if (S i <? length keys)%nat then Some (stored T (Some vals) (S i)) else None).
Proof. exact stream_loaded_answers. Qed.
Print Assumptions C06e_loaded_stream_answers.

(* ---------------------------------------------------------------- *)
(* Examples.  Keys a, ab, abc, abd, b with the values the harness drew for them (seed 1,
   case g5); the stream bytes below are the ones harness/c06_writers.go:c06WriteArrays
   REALLY produced for the layouts a051-u32children and a059-bm16children-padded (copied
   from a run of ./run.sh C06e quick; the run re-confirms on every execution that the
   reference writer's bytes equal write_stream's for this very case). *)
Definition ex_bs (l : list N) : list byte :=
  map (fun n => match Byte.of_N n with Some b => b | None => "000"%byte end) l.
Definition ex_keys : list key := map ex_bs [[97]; [97; 98]; [97; 98; 99]; [97; 98; 100]; [98]]%N.
Definition ex_vals : list (list byte) :=
  map ex_bs [[104; 19; 206; 147]; [25; 141; 5; 50]; [202; 6; 61; 208]; [123; 128; 116; 110]; [44; 250; 171; 12]]%N.

Definition ex_stream_a051 : list byte := ex_bs
  [49; 46; 48; 46; 48; 0; 0; 0; 0; 0; 0; 0; 0; 0; 0; 0; 32; 0; 0; 0; 0; 0; 0; 0; 26; 0; 0; 0; 0; 0; 0; 0;
   8; 4; 18; 1; 27; 26; 1; 0; 34; 16; 6; 0; 1; 0; 64; 0; 3; 0; 64; 0; 4; 0; 24; 0; 5; 0;
   49; 46; 48; 46; 48; 0; 0; 0; 0; 0; 0; 0; 0; 0; 0; 0; 32; 0; 0; 0; 0; 0; 0; 0; 14; 0; 0; 0; 0; 0; 0; 0;
   8; 2; 18; 1; 9; 26; 1; 0; 34; 4; 2; 0; 2; 0;
   49; 46; 48; 46; 48; 0; 0; 0; 0; 0; 0; 0; 0; 0; 0; 0; 32; 0; 0; 0; 0; 0; 0; 0; 30; 0; 0; 0; 0; 0; 0; 0;
   8; 5; 18; 1; 110; 26; 1; 0; 34; 20; 104; 19; 206; 147; 44; 250; 171; 12; 25; 141; 5; 50; 202; 6; 61; 208;
   123; 128; 116; 110]%N.

Definition ex_stream_a059 : list byte := ex_bs
  [48; 46; 53; 46; 57; 0; 0; 0; 0; 0; 0; 0; 0; 0; 0; 0; 32; 0; 0; 0; 0; 0; 0; 0; 33; 0; 0; 0; 0; 0; 0; 0;
   8; 4; 18; 1; 27; 26; 1; 0; 80; 3; 160; 1; 16; 242; 1; 17; 80; 53; 162; 1; 8; 134; 128; 128; 130; 128; 136;
   128; 12; 242; 1; 1; 0;
   48; 46; 53; 46; 57; 0; 0; 0; 0; 0; 0; 0; 0; 0; 0; 0; 32; 0; 0; 0; 0; 0; 0; 0; 14; 0; 0; 0; 0; 0; 0; 0;
   8; 2; 18; 1; 9; 26; 1; 0; 34; 4; 2; 0; 2; 0;
   48; 46; 53; 46; 57; 0; 0; 0; 0; 0; 0; 0; 0; 0; 0; 0; 32; 0; 0; 0; 0; 0; 0; 0; 30; 0; 0; 0; 0; 0; 0; 0;
   8; 5; 18; 1; 110; 26; 1; 0; 34; 20; 104; 19; 206; 147; 44; 250; 171; 12; 25; 141; 5; 50; 202; 6; 61; 208;
   123; 128; 116; 110]%N.

(* the old node table of the five keys: root a|b (step 2 = branch at the second nibble),
   old node 1 = key a AND inner (inner-and-leaf), old node 3 = key ab AND inner *)
Definition ex_old : old_trie :=
  [{| on_bm := [1; 2]; on_step := 2; on_leaf := None |};
   {| on_bm := [6]; on_step := 0; on_leaf := Some 0%nat |};
   {| on_bm := []; on_step := 0; on_leaf := Some 4%nat |};
   {| on_bm := [6]; on_step := 2; on_leaf := Some 1%nat |};
   {| on_bm := [3; 4]; on_step := 0; on_leaf := None |};
   {| on_bm := []; on_step := 0; on_leaf := Some 2%nat |};
   {| on_bm := []; on_step := 0; on_leaf := Some 3%nat |}]%nat.

(* the hypotheses of the theorems hold on it *)
Example ex_hypotheses :
  AdjSorted ex_keys /\ old_write false ex_keys = Ok ex_old /\ vals_ok 4 ex_vals = true /\
  table_wf (length ex_vals) ex_old = true /\ In a051 layouts /\ In a059 layouts.
Proof.
  split; [apply check_order_none; vm_compute; reflexivity|].
  repeat split; try (vm_compute; reflexivity); cbn; tauto.
Qed.

(* the model's writer produces exactly the bytes of the reference writer, in both layouts *)
Example ex_write :
  write_stream a051 ex_keys ex_vals = LOk ex_stream_a051 /\
  write_stream a059 ex_keys ex_vals = LOk ex_stream_a059.
Proof. split; vm_compute; reflexivity. Qed.

(* the reader on those bytes: the table with the leaves numbered in id order (old ids 1, 2, 3,
   5, 6 carry leaves 0..4) and the values in that order - the same from both layouts *)
Example ex_read :
  let tab := ([{| on_bm := [1; 2]; on_step := 2; on_leaf := None |};
               {| on_bm := [6]; on_step := 0; on_leaf := Some 0 |};
               {| on_bm := []; on_step := 0; on_leaf := Some 1 |};
               {| on_bm := [6]; on_step := 2; on_leaf := Some 2 |};
               {| on_bm := [3; 4]; on_step := 0; on_leaf := None |};
               {| on_bm := []; on_step := 0; on_leaf := Some 3 |};
               {| on_bm := []; on_step := 0; on_leaf := Some 4 |}]%nat,
              map ex_bs [[104; 19; 206; 147]; [44; 250; 171; 12]; [25; 141; 5; 50]; [202; 6; 61; 208]; [123; 128; 116; 110]]%N) in
  renumbered ex_old ex_vals = tab /\
  lbind (arrays_of_stream ex_stream_a051) (fun '(ch, st, lv) => old_of_arrays 4 ch st lv) = LOk tab /\
  lbind (arrays_of_stream ex_stream_a059) (fun '(ch, st, lv) => old_of_arrays 4 ch st lv) = LOk tab.
Proof. vm_compute. repeat split; reflexivity. Qed.

(* the whole loader on the real bytes: 10 new nodes (the inner-and-leaf old nodes 1 and 3 get
   an extra first child under the empty label 0), the leaves in new leaf order *)
Example ex_load :
  let res := ([VInner 0 false 1 None 1 [2; 3]; VInner 1 false 0 None 3 [0; 7]; VLeaf 2 0 None;
               VLeaf 3 1 None; VInner 4 false 1 None 5 [0; 7]; VLeaf 5 2 None;
               VInner 6 false 0 None 7 [4; 5]; VLeaf 7 3 None; VLeaf 8 4 None]%nat,
              Some (map ex_bs [[44; 250; 171; 12]; [104; 19; 206; 147]; [25; 141; 5; 50]; [202; 6; 61; 208]; [123; 128; 116; 110]]%N)) in
  load_stream 4 ex_stream_a051 = LOk res /\ load_stream 4 ex_stream_a059 = LOk res.
Proof. vm_compute. split; reflexivity. Qed.

(* streams no old writer produces end in explicit outcomes: a cut stream is a read error of
   the section it hits, a stored step 0 is outside the table abstraction (uint16 wrap of
   stp--), a children id whose element is missing is the panic of ch.Elts[eltIdx*4:] *)
Example ex_ill_formed :
  arrays_of_stream (firstn 100 ex_stream_a051) = LErr (LRead SSteps CUnexpectedEOF) /\
  old_of_arrays 4 (mkWArray 1 [1%N] [0%Z] [] 0 0 None [])
                  (mkWArray 1 [1%N] [0%Z] (ex_bs [0; 0]%N) 0 0 None []) empty_warray = LErr (LPanic 652) /\
  old_of_arrays 4 empty_warray (mkWArray 1 [1%N] [0%Z] (ex_bs [0; 0]%N) 0 0 None []) empty_warray = LErr (LOutside 3) /\
  old_of_arrays 4 empty_warray empty_warray empty_warray = LOk ([], []).
Proof. vm_compute. repeat split; reflexivity. Qed.
