(* C10 - Every lookup is total, and hits are consistent and carry supplied values.
   Closing theorem only; proofs in theories/ConsistProofs.v.

   On the tree model (L2) a Go panic is the outcome [Err (EPanic _)] (a result node
   that is not a leaf, or a leaf ordinal outside the leaf array); the model's
   lookups are structural recursions, so termination is by construction and the
   theorem says that no panic outcome is reachable, for EVERY query string, in
   every mode, with and without values, including the empty and single-key tries.
   Word-level index bounds (bitmaps, rank indexes) are below this model: they are
   covered by the correspondence, where a Go panic is an observable the model
   never predicts. *)
From Slim Require Import Base Keys Model QueryProofs ConsistProofs Flat FlatProofs.

Theorem C10_total_and_consistent :
  forall (ropt : raw_opt) (keys : list key) (vals : option (list (list byte))) (T : trie) (q : key),
    build (normalize ropt) keys vals = Ok T ->
    (exists f, get T q = Ok f) /\ (exists f, rangeget T q = Ok f) /\ (exists s, search T q = Ok s) /\
    (get T q = Ok NotFound <-> getid T q = None) /\
    (forall v, get T q = Ok (Found v) -> exists lv rv, search T q = Ok (lv, Some v, rv)) /\
    (get T q = Ok NotFound -> exists lv rv, search T q = Ok (lv, None, rv)) /\
    (forall v, get T q = Ok (Found v) -> rangeget T q = Ok (Found v)) /\
    (forall v, get T q = Ok (Found v) ->
       exists i, i < length keys /\ retained (normalize ropt) keys vals i = true /\
                 val_bytes v = supplied vals i /\ (vals = None -> v = None)).
Proof. intros ropt keys vals T q. exact (lookups_total_consistent (normalize ropt) keys vals T q). Qed.
Print Assumptions C10_total_and_consistent.

(* One layer closer to the code: GetID and searchID as the Go code runs them - loops
   over node ids in which the next node is "first child id + rank of the label in
   the node's label bitmap", leftMost/rightMost by first/last child id, getNode by
   id (Flat.v) - never hit an id that is not a node, never run out of fuel, and
   return exactly the ids of the nodes the tree recursion returns. *)
Theorem C10_getid_id_loop :
  forall (ropt : raw_opt) keys vals T q,
    build (normalize ropt) keys vals = Ok T -> fgetid T q = Ok (getid T q).
Proof. intros ropt keys vals T q. exact (fgetid_getid (normalize ropt) keys vals T q). Qed.
Print Assumptions C10_getid_id_loop.

Theorem C10_searchid_id_loop :
  forall (ropt : raw_opt) keys vals T q,
    build (normalize ropt) keys vals = Ok T ->
    fsearchid T q = Ok (let '(l, e, rr) := searchid T q in (oid l, oid e, oid rr)).
Proof. intros ropt keys vals T q. exact (fsearchid_searchid (normalize ropt) keys vals T q). Qed.
Print Assumptions C10_searchid_id_loop.

(* non-vacuity: a false positive in filter mode is consistent across the APIs *)
Definition ex_keys : list key := [ ["097"%byte]; ["097"%byte; "098"%byte; "099"%byte]; ["098"%byte] ].
Definition ex_vals : option (list (list byte)) := Some [ ["001"%byte]; ["002"%byte]; ["003"%byte] ].
Definition ex_opt : raw_opt := {| r_dedup := None; r_inner := None; r_leaf := None; r_complete := None |}.
Example C10_false_positive_is_consistent :
  exists T, build (normalize ex_opt) ex_keys ex_vals = Ok T /\
            get T ["097"%byte; "109"%byte] = Ok (Found (Some ["002"%byte])) /\
            rangeget T ["097"%byte; "109"%byte] = Ok (Found (Some ["002"%byte])).
Proof. vm_compute. eexists. repeat split. Qed.
