(* C04 - Scans yield exactly the retained entries in range, in order, once;
   refusal on tries that do not store complete keys.
   Closing theorems only; the proofs are in theories/Scan*Proofs.v
   (ScanBasicProofs: refusal, exhaustion, callbacks; ScanIdProofs: breadth-first
   ids; ScanIterProofs: the iterator state machine = the in-order listing;
   ScanPathProofs: newIter; ScanItemsProofs: the listing = the kept entries with
   keys rebuilt exactly; ScanGeProofs: getGEPath; ScanProofs: the assembly),
   on top of the trie invariants of TrieInv/BuildProofs/ConsistProofs/OrderProofs.

   Model level: L2, the tree model with breadth-first ids (theories/Model.v) and
   the scan model theories/Scan.v, which follows trie/slimtrie_scan.go function
   by function (getGEPath with its rID/rightPathLen fallback, newIter, the two
   closures, next, scanStackElt.*, ScanFrom, ScanFromTo) with positions and the key
   buffer in nibbles.  The correspondence check runs this model and the
   implementation on the same generated tries and scan operations (fresh and
   reloaded) and compares every yielded key and value byte for byte; a Go panic
   is the observable PANIC.  [build .. = Ok T] is the success of NewSlimTrie
   (C08); values are their encoded bytes (C15); a loaded trie answers like the
   trie it was marshalled from (C05).

   iter_init = NewIter (the state of the returned closure), iter_next = one call
   of the closure (None = (nil, nil)), iter_run n = n consecutive calls,
   scan_from / scan_from_to = the list of pairs the user's callback is invoked
   on, a callback being any function of (number of earlier invocations, pair). *)
From Slim Require Import Base Keys KeysProofs Model QueryProofs Scan ScanBasicProofs ScanProofs.
From Coq Require Import Sorting.Sorted.

(* (d) Complete tries: every option spelling whose normal form stores inner and
   leaf prefixes; any keys; values None (nil), or any byte strings (fixed or
   variable width, possibly empty); any start string, both inclusivities, with
   and without values.  [scan_indexes] = the indexes i (ascending) of the
   retained keys with keys[i] >= s (> s when exclusive); [elem_ok i x]: x's key is
   keys[i] and its value is the bytes supplied for i (None when not requested,
   and when no values were supplied).  The closure yields exactly these, then nil
   on every later call; ScanFrom hands the callback that sequence up to and
   including the first pair it answers false on; ScanFromTo the same, testing the
   end bound before the callback. *)
Theorem C04_iter :
  forall (ropt : raw_opt) (keys : list key) (vals : option (list (list byte))) (T : trie),
    build (normalize ropt) keys vals = Ok T ->
    complete_opts (normalize ropt) = true ->
    forall (s : key) (incl withv : bool), exists it outs,
      iter_init T s incl withv = Ok it /\
      Forall2 (elem_ok keys vals withv) (scan_indexes (normalize ropt) keys vals s incl) outs /\
      (forall n, iter_run n T it = Ok (firstn n (map Some outs ++ repeat None n))) /\
      (forall fn, scan_from T s incl withv fn = Ok (cut fn 0 outs)) /\
      (forall e incle fn, scan_from_to T s incl e incle withv fn = Ok (cut_to e incle fn 0 outs)).
Proof. intros ropt keys vals T. exact (scan_complete (normalize ropt) keys vals T). Qed.
Print Assumptions C04_iter.

(* "in strictly ascending byte order, each once": the yielded keys are strictly
   ascending (bytewise order on the nibble view = Go's string order, KeysProofs.bytes_cmp_nibs) *)
Theorem C04_ascending :
  forall (ropt : raw_opt) keys vals T s incl,
    build (normalize ropt) keys vals = Ok T ->
    StronglySorted key_lt (map (fun i => nth i keys []) (scan_indexes (normalize ropt) keys vals s incl)).
Proof. intros ropt keys vals T s incl. exact (scan_keys_ascending (normalize ropt) keys vals T s incl). Qed.
Print Assumptions C04_ascending.

(* (a) refusal: every option spelling whose normal form lacks inner or leaf
   prefixes, with and without values, every non-empty key list, every start:
   NewIter / ScanFrom / ScanFromTo panic (site 20 = the explicit panic of getGEPath) *)
Theorem C04_refuse :
  forall (ropt : raw_opt) keys vals T,
    build (normalize ropt) keys vals = Ok T -> keys <> [] ->
    complete_opts (normalize ropt) = false ->
    forall s incl withv,
      iter_init T s incl withv = Err (EPanic 20) /\
      (forall fn, scan_from T s incl withv fn = Err (EPanic 20)) /\
      (forall e incle fn, scan_from_to T s incl e incle withv fn = Err (EPanic 20)).
Proof. intros ropt keys vals T. exact (scan_refuses (normalize ropt) keys vals T). Qed.
Print Assumptions C04_refuse.

(* the empty trie yields nothing and does not panic, under every option spelling *)
Theorem C04_empty :
  forall (ropt : raw_opt) vals T,
    build (normalize ropt) [] vals = Ok T ->
    forall s incl withv,
      iter_init T s incl withv = Ok (empty_iter withv) /\
      iter_next T (empty_iter withv) = Ok (None, empty_iter withv) /\
      (forall fn, scan_from T s incl withv fn = Ok []) /\
      (forall e incle fn, scan_from_to T s incl e incle withv fn = Ok []).
Proof. intros ropt vals T. exact (scan_empty (normalize ropt) vals T). Qed.
Print Assumptions C04_empty.

(* (b) exhaustion is absorbing, for every trie and every iterator state *)
Theorem C04_exhaustion_absorbing :
  forall T it it', iter_next T it = Ok (None, it') -> it' = it /\ iter_next T it' = Ok (None, it').
Proof. exact exhaustion_absorbing. Qed.
Print Assumptions C04_exhaustion_absorbing.

(* (c) callbacks, for every trie (complete or not) on which the iterator runs:
   ScanFrom / ScanFromTo deliver [cut] / [cut_to] of the iterator's sequence *)
Theorem C04_callbacks :
  forall T s incl withv it xs it',
    iter_init T s incl withv = Ok it ->
    iter_drain (scan_fuel T) T it = Ok (xs, it') ->
    (forall fn, scan_from T s incl withv fn = Ok (cut fn 0 xs)) /\
    (forall e incle fn, scan_from_to T s incl e incle withv fn = Ok (cut_to e incle fn 0 xs)).
Proof. exact scan_callback_semantics. Qed.
Print Assumptions C04_callbacks.

(* what [cut] and [cut_to] mean: a prefix; every delivered pair but the last was
   answered true (the callback is never invoked after answering false); a proper
   prefix ends with a false answer; nothing beyond the end bound is delivered, and
   without a false answer everything up to the bound is *)
Theorem C04_cut_meaning :
  (forall fn xs, exists n, cut fn 0 xs = firstn n xs) /\
  (forall fn xs pre x post, cut fn 0 xs = pre ++ x :: post -> post <> [] -> fn (length pre) x = true) /\
  (forall fn xs, cut fn 0 xs = xs \/ exists pre x, cut fn 0 xs = pre ++ [x] /\ fn (length pre) x = false) /\
  (forall e incle fn xs, exists n, cut_to e incle fn 0 xs = firstn n xs) /\
  (forall e incle fn xs, Forall (fun x => beyond e incle (fst x) = false) (cut_to e incle fn 0 xs)) /\
  (forall e incle fn xs, (forall i x, fn i x = true) ->
     cut_to e incle fn 0 xs = take_while (fun x => negb (beyond e incle (fst x))) xs).
Proof.
  split; [intros; apply cut_prefix|].
  split; [intros fn xs pre x post H Hne; exact (cut_stops fn xs 0 pre x post H Hne)|].
  split; [intros fn xs; exact (cut_complete fn xs 0)|].
  split; [intros; apply cut_to_prefix|].
  split; [intros; apply cut_to_within|].
  intros; apply cut_to_all; assumption.
Qed.
Print Assumptions C04_cut_meaning.

(* ---------- non-vacuity ---------- *)
(* keys "", "a", "ab", "b\255", "b\255\000" with variable-width values (two equal
   neighbours: "ab" is dropped by the default de-duplication); Complete *)
Definition ex_keys : list key :=
  [ []; ["097"%byte]; ["097"%byte; "098"%byte]; ["098"%byte; "255"%byte]; ["098"%byte; "255"%byte; "000"%byte] ].
Definition ex_vals : option (list (list byte)) :=
  Some [ ["001"%byte]; ["002"%byte; "003"%byte]; ["002"%byte; "003"%byte]; []; ["004"%byte; "005"%byte; "006"%byte] ].
Definition ex_complete : raw_opt := {| r_dedup := None; r_inner := None; r_leaf := None; r_complete := Some true |}.
Definition ex_leafonly : raw_opt := {| r_dedup := None; r_inner := None; r_leaf := Some true; r_complete := None |}.

Example C04_hypotheses_satisfiable :
  exists T, build (normalize ex_complete) ex_keys ex_vals = Ok T /\
            complete_opts (normalize ex_complete) = true /\
            scan_indexes (normalize ex_complete) ex_keys ex_vals ["097"%byte] false = [3; 4] /\
            scan_from T ["097"%byte] false true never_stop =
              Ok [ (["098"%byte; "255"%byte], Some []);
                   (["098"%byte; "255"%byte; "000"%byte], Some ["004"%byte; "005"%byte; "006"%byte]) ] /\
            scan_from T [] true false (stop_at 1) = Ok [ ([], None); (["097"%byte], None) ].
Proof. vm_compute. eexists. repeat split. Qed.

Example C04_refusal_satisfiable :
  exists T, build (normalize ex_leafonly) ex_keys ex_vals = Ok T /\
            complete_opts (normalize ex_leafonly) = false /\
            iter_init T [] true true = Err (EPanic 20).
Proof. vm_compute. eexists. repeat split. Qed.
