(* C04 - placeholder while the proofs are being written *)
From Slim Require Import Base Keys Model Scan.
