(* C01 - Indexed keys are always found with their own value (no false negatives).
   Closing theorems only; proofs are in theories/QueryProofs.v.

   Model level: L2 (tree model with BFS ids, coq/theories/Model.v), which the
   correspondence check compares node by node and lookup by lookup with the
   implementation, for fresh tries and for tries loaded from their own
   Marshal output.  Values are their encoded byte strings (C15 relates those to
   the typed values).  [build .. = Ok T] is the success of NewSlimTrie (C08
   says when that happens). *)
From Slim Require Import Base Keys KeysProofs Model QueryProofs.

(* every option combination goes through [normalize]; keys are arbitrary byte
   strings of any length; values: None (nil), or any list of byte strings (fixed
   or variable width, possibly empty strings) *)
Theorem C01_no_false_negatives :
  forall (ropt : raw_opt) (keys : list key) (vals : option (list (list byte))) (T : trie) (i : nat) (k : key),
    build (normalize ropt) keys vals = Ok T ->
    nth_error keys i = Some k ->
    retained (normalize ropt) keys vals i = true ->
    (exists id, getid T k = Some id) /\
    (exists v, get T k = Ok (Found v) /\ val_bytes v = supplied vals i /\ (vals = None -> v = None)).
Proof. intros ropt keys vals T i k. exact (kept_key_found (normalize ropt) keys vals T i k). Qed.
Print Assumptions C01_no_false_negatives.

(* [retained] is exactly the property's notion of a retained key *)
Theorem C01_retained_characterisation :
  forall o keys vals i, i < length keys ->
    match vals with
    | Some vs => length vs = length keys ->
                 (retained o keys vals i = true <->
                  (o_dedup o = false \/ i = 0 \/ nth (i - 1) vs [] <> nth i vs []))
    | None => retained o keys vals i = true
    end.
Proof. exact retained_spec. Qed.
Print Assumptions C01_retained_characterisation.

(* non-vacuity: a concrete trie with a key that is a prefix of another, the
   empty key, bytes 0x00/0xff, duplicate values (default options: dedup on) *)
Definition ex_keys : list key := [ []; ["000"%byte]; ["000"%byte; "255"%byte]; ["097"%byte]; ["097"%byte; "098"%byte]; ["255"%byte] ].
Definition ex_vals : option (list (list byte)) :=
  Some [ ["001"%byte]; ["001"%byte]; ["002"%byte]; ["002"%byte]; ["003"%byte]; ["003"%byte] ].
Definition ex_opt : raw_opt := {| r_dedup := None; r_inner := None; r_leaf := None; r_complete := None |}.

Example C01_hypotheses_satisfiable :
  exists T, build (normalize ex_opt) ex_keys ex_vals = Ok T /\
            retained (normalize ex_opt) ex_keys ex_vals 2 = true /\
            retained (normalize ex_opt) ex_keys ex_vals 3 = false /\
            get T ["000"%byte; "255"%byte] = Ok (Found (Some ["002"%byte])).
Proof. vm_compute. eexists. repeat split. Qed.

From Slim Require Import Encoders EncodersProofs TypedProofs.

(* ---- the typed view: what Get returns to the caller ---------------------------------------
   NewSlimTrie stores e.Encode(v_i) for every value and Get passes the stored bytes to
   e.Decode.  For EVERY encoder of the library (integer codecs regenerated from the source,
   String16, Bytes, Dummy, TypeEncoder over any fixed-size type - the encoders of C15) and
   every list of values in the encoder's domain: the value decoded from what Get finds for a
   retained key is the value supplied for it, and Decode consumes exactly the stored bytes. *)
Theorem C01_typed_values :
  forall (e : encoder) (ropt : raw_opt) keys (tvals : list value) (encs : list (list byte)) T i k tv,
    Forall (in_domain e) tvals ->
    Forall2 (fun v b => enc_encode e v = DOk b) tvals encs ->
    build (normalize ropt) keys (Some encs) = Ok T ->
    nth_error keys i = Some k -> nth_error tvals i = Some tv ->
    retained (normalize ropt) keys (Some encs) i = true ->
    exists v, get T k = Ok (Found v) /\ enc_decode e (val_bytes v) = DOk (length (val_bytes v), tv).
Proof. intros e ropt keys tvals encs T i k tv. exact (typed_value_found e (normalize ropt) keys tvals encs T i k tv). Qed.
Print Assumptions C01_typed_values.
