(* C08 - Construction is all-or-nothing: invalid input is rejected, never mis-indexed.
   Closing theorems only; proofs in theories/AcceptProofs.v and QueryProofs.v.

   [AdjSorted keys] is "strictly ascending in plain bytewise (unsigned) order"
   (key_lt is the order of Go strings, KeysProofs.bytes_cmp_nibs).  The model of
   newSlim reports [EOutOfOrder i] for trie.ErrKeyOutOfOrder at index i,
   [EStepTooLong] for trie.ErrStepTooLong, [EPanic _] for a Go panic and [EFuel]
   when the model's fuel runs out. *)
From Slim Require Import Base Keys KeysProofs Model QueryProofs AcceptProofs.

(* every list that is not strictly ascending is rejected with the out-of-order error,
   whatever the options and values; and nothing else is *)
Theorem C08_reject :
  forall (ropt : raw_opt) keys vals,
    (exists i, build (normalize ropt) keys vals = Err (EOutOfOrder i)) <-> ~ AdjSorted keys.
Proof. intros ropt keys vals. exact (build_rejects_unsorted (normalize ropt) keys vals). Qed.
Print Assumptions C08_reject.

(* the index reported is the first violation: keys[0..i] are ascending, keys[i] >= keys[i+1] *)
Theorem C08_reject_index :
  forall (ropt : raw_opt) keys vals i,
    build (normalize ropt) keys vals = Err (EOutOfOrder i) ->
    exists a b, nth_error keys i = Some a /\ nth_error keys (S i) = Some b /\ ~ key_lt a b /\
                AdjSorted (firstn (S i) keys).
Proof. intros ropt keys vals i. exact (build_order_error_first (normalize ropt) keys vals i). Qed.
Print Assumptions C08_reject_index.

(* every strictly ascending list within the documented key length (16 KiB) is accepted:
   no error, no panic, and the model's fuel suffices *)
Theorem C08_accept :
  forall (ropt : raw_opt) keys vals,
    AdjSorted keys ->
    (forall k, In k keys -> (N.of_nat (length k) <= 16384)%N) ->
    exists T, build (normalize ropt) keys vals = Ok T.
Proof. intros ropt keys vals. exact (build_accepts_documented (normalize ropt) keys vals). Qed.
Print Assumptions C08_accept.

(* beyond the documented length: still accepted whenever no length-only step overflows
   (always, when inner prefixes are stored) *)
Theorem C08_accept_any_length :
  forall (ropt : raw_opt) keys vals,
    AdjSorted keys ->
    (o_inner (normalize ropt) = false -> (N.of_nat (max_nibs keys) <= max_step)%N) ->
    exists T, build (normalize ropt) keys vals = Ok T.
Proof. intros ropt keys vals. exact (build_accepts_sorted (normalize ropt) keys vals). Qed.
Print Assumptions C08_accept_any_length.

(* no accepted input - of any key length - fails to find a key it was built from *)
Theorem C08_accepted_is_indexed :
  forall (ropt : raw_opt) keys vals T i k,
    build (normalize ropt) keys vals = Ok T ->
    nth_error keys i = Some k ->
    retained (normalize ropt) keys vals i = true ->
    (exists id, getid T k = Some id) /\
    (exists v, get T k = Ok (Found v) /\ val_bytes v = supplied vals i /\ (vals = None -> v = None)).
Proof. intros ropt keys vals T i k. exact (kept_key_found (normalize ropt) keys vals T i k). Qed.
Print Assumptions C08_accepted_is_indexed.

(* non-vacuity and the signed/unsigned clause: 0x7f.. < 0x80.. is accepted, the reverse rejected at index 0 *)
Example C08_unsigned_order :
  (exists T, build (normalize {| r_dedup := None; r_inner := None; r_leaf := None; r_complete := None |})
                   [ ["127"%byte]; ["128"%byte] ] None = Ok T) /\
  build (normalize {| r_dedup := None; r_inner := None; r_leaf := None; r_complete := None |})
        [ ["128"%byte]; ["127"%byte] ] None = Err (EOutOfOrder 0).
Proof. split; [eexists; vm_compute; reflexivity|vm_compute; reflexivity]. Qed.
