(* C13 - Storing more key information only removes false positives.
   Closing theorems only; proofs in theories/MonoProofs.v (shape of two builds,
   the paired descent) and theories/MonoCompleteProofs.v (corollary of C03).

   Modes are the normalised options [opts]: what is stored is (o_inner, o_leaf);
   Complete = both.  "o2 stores at least what o1 stores" is
   (o_inner o1 = true -> o_inner o2 = true) /\ (o_leaf o1 = true -> o_leaf o2 = true),
   so the four stored-information classes none <= inner, leaf <= complete and every
   pair of raw option combinations that normalise into comparable classes are
   covered.  Both tries are built from the same keys and values with equal
   DedupValue; the statements hold for EVERY query string. *)
From Slim Require Import Base Keys Model QueryProofs MonoProofs MonoCompleteProofs.

(* found in the mode that stores more => found with the same value (and the
   same node id) in the mode that stores less *)
Theorem C13_more_information_only_removes_positives :
  forall (r1 r2 : raw_opt) (keys : list key) (vals : option (list (list byte))) (T1 T2 : trie) (q : key) (v : option (list byte)),
    o_dedup (normalize r1) = o_dedup (normalize r2) ->
    (o_inner (normalize r1) = true -> o_inner (normalize r2) = true) ->
    (o_leaf (normalize r1) = true -> o_leaf (normalize r2) = true) ->
    build (normalize r1) keys vals = Ok T1 -> build (normalize r2) keys vals = Ok T2 ->
    get T2 q = Ok (Found v) ->
    get T1 q = Ok (Found v) /\ getid T1 q = getid T2 q.
Proof.
  intros r1 r2 keys vals T1 T2 q v Hd Hi Hl.
  exact (richer_found_poorer_found (normalize r1) (normalize r2) keys vals T1 T2 q v Hd (conj Hi Hl)).
Qed.
Print Assumptions C13_more_information_only_removes_positives.

(* a mode that stores both prefixes reports found only for retained keys *)
Theorem C13_complete_reports_only_retained_keys :
  forall (r : raw_opt) (keys : list key) (vals : option (list (list byte))) (T : trie) (q : key) (v : option (list byte)),
    build (normalize r) keys vals = Ok T ->
    o_inner (normalize r) = true -> o_leaf (normalize r) = true ->
    get T q = Ok (Found v) ->
    exists i, nth_error keys i = Some q /\ retained (normalize r) keys vals i = true.
Proof. intros r keys vals T q v. exact (complete_found_retained (normalize r) keys vals T q v). Qed.
Print Assumptions C13_complete_reports_only_retained_keys.

(* every two modes (comparable or not) with equal DedupValue give the same
   answer - found, the same value, the same node id - for a retained key *)
Theorem C13_retained_keys_identical_in_all_modes :
  forall (r1 r2 : raw_opt) (keys : list key) (vals : option (list (list byte))) (T1 T2 : trie) (i : nat) (k : key),
    o_dedup (normalize r1) = o_dedup (normalize r2) ->
    build (normalize r1) keys vals = Ok T1 -> build (normalize r2) keys vals = Ok T2 ->
    nth_error keys i = Some k -> retained (normalize r1) keys vals i = true ->
    exists v id, get T1 k = Ok (Found v) /\ get T2 k = Ok (Found v) /\
                 getid T1 k = Some id /\ getid T2 k = Some id /\
                 val_bytes v = supplied vals i /\ (vals = None -> v = None).
Proof.
  intros r1 r2 keys vals T1 T2 i k.
  exact (retained_key_same_answer (normalize r1) (normalize r2) keys vals T1 T2 i k).
Qed.
Print Assumptions C13_retained_keys_identical_in_all_modes.

(* Complete normalises to both prefixes whatever the other fields say *)
Theorem C13_complete_is_top :
  forall d i l, o_inner (normalize {| r_dedup := d; r_inner := i; r_leaf := l; r_complete := Some true |}) = true /\
                o_leaf (normalize {| r_dedup := d; r_inner := i; r_leaf := l; r_complete := Some true |}) = true.
Proof. intros d i l. split; reflexivity. Qed.
Print Assumptions C13_complete_is_top.

(* non-vacuity: the absent key "am" is accepted by the mode that stores nothing
   and by the one that stores inner prefixes only, and rejected once leaf tails
   are stored; the retained key "abc" is found everywhere *)
Definition ex_keys : list key := [ ["097"%byte]; ["097"%byte; "098"%byte; "099"%byte]; ["098"%byte] ].
Definition ex_vals : option (list (list byte)) := Some [ ["001"%byte]; ["002"%byte]; ["003"%byte] ].
Definition ex_raw (i l c : option bool) : raw_opt := {| r_dedup := None; r_inner := i; r_leaf := l; r_complete := c |}.
Definition am : key := ["097"%byte; "109"%byte].
Definition abc : key := ["097"%byte; "098"%byte; "099"%byte].
Definition ex_get (r : raw_opt) (q : key) : res found :=
  match build (normalize r) ex_keys ex_vals with Ok T => get T q | Err e => Err e end.
Example C13_example :
  ex_get (ex_raw None None None) am = Ok (Found (Some ["002"%byte])) /\
  ex_get (ex_raw (Some true) None None) am = Ok (Found (Some ["002"%byte])) /\
  ex_get (ex_raw None (Some true) None) am = Ok NotFound /\
  ex_get (ex_raw None None (Some true)) am = Ok NotFound /\
  ex_get (ex_raw None None None) abc = Ok (Found (Some ["002"%byte])) /\
  ex_get (ex_raw (Some true) None None) abc = Ok (Found (Some ["002"%byte])) /\
  ex_get (ex_raw None (Some true) None) abc = Ok (Found (Some ["002"%byte])) /\
  ex_get (ex_raw None None (Some true)) abc = Ok (Found (Some ["002"%byte])).
Proof. vm_compute. repeat split. Qed.

(* ------------------------------------------------------------------------------------
   C13 THROUGH THE BITMAPS (message level, L3).  Both tries of the pair are encoded to their
   protobuf messages as data ([encode_trie]: 64-bit words with rank/select indexes, packed
   label bitmaps, short-node table, VLenArrays of prefixes, tails and values; [init_vars] is
   initVars) and GetID / Get are computed from those messages the way the Go code does
   (Msg.mgetid / Msg.mget: getNode, getLeftChildID, getLeafPrefix, VLenArray.get).  The
   fuels bound the number of nodes visited; any value from the height of the trie on will
   do.  Proofs in theories/MonoMsgProofs.v (on top of MsgProofs.v and the L3 refinement). *)
From Slim Require Import BitmapRank BitmapRank2 Bits Msg MsgProofs MonoMsgProofs GetIntMsgProofs.

(* every built trie has a message and initVars accepts it: the hypotheses below are satisfiable *)
Theorem C13_message_exists :
  forall (r : raw_opt) (keys : list key) (vals : option (list (list byte))) (T : trie),
    build (normalize r) keys vals = Ok T ->
    exists m vs, encode_trie T = Val m /\ init_vars m = Val vs.
Proof. intros r keys vals T. exact (built_message_exists (normalize r) keys vals T). Qed.
Print Assumptions C13_message_exists.

(* found (computed from the message) in the mode that stores more => found with the same
   value and the same node id (computed from the other message) in the mode that stores less *)
Theorem C13_message_level :
  forall (r1 r2 : raw_opt) (keys : list key) (vals : option (list (list byte))) (T1 T2 : trie)
         (m1 : msg) (vs1 : vars) (m2 : msg) (vs2 : vars) (fuel1 fuel2 : nat) (q : key) (v : option (list byte)),
    o_dedup (normalize r1) = o_dedup (normalize r2) ->
    (o_inner (normalize r1) = true -> o_inner (normalize r2) = true) ->
    (o_leaf (normalize r1) = true -> o_leaf (normalize r2) = true) ->
    build (normalize r1) keys vals = Ok T1 -> build (normalize r2) keys vals = Ok T2 ->
    encode_trie T1 = Val m1 -> init_vars m1 = Val vs1 -> trie_height T1 <= fuel1 ->
    encode_trie T2 = Val m2 -> init_vars m2 = Val vs2 -> trie_height T2 <= fuel2 ->
    mget (S fuel2) m2 vs2 q = Ok (Found v) ->
    mget (S fuel1) m1 vs1 q = Ok (Found v) /\ mgetid (S fuel1) m1 vs1 q = mgetid (S fuel2) m2 vs2 q.
Proof.
  intros r1 r2 keys vals T1 T2 m1 vs1 m2 vs2 fuel1 fuel2 q v Hd Hi Hl.
  exact (mrich_found_poorer_found (normalize r1) (normalize r2) keys vals T1 T2 m1 vs1 m2 vs2 fuel1 fuel2 q v Hd (conj Hi Hl)).
Qed.
Print Assumptions C13_message_level.

(* a mode that stores both prefixes reports found (from the message) only for retained keys *)
Theorem C13_message_level_complete :
  forall (r : raw_opt) (keys : list key) (vals : option (list (list byte))) (T : trie)
         (m : msg) (vs : vars) (fuel : nat) (q : key) (v : option (list byte)),
    build (normalize r) keys vals = Ok T ->
    o_inner (normalize r) = true -> o_leaf (normalize r) = true ->
    encode_trie T = Val m -> init_vars m = Val vs -> trie_height T <= fuel ->
    mget (S fuel) m vs q = Ok (Found v) ->
    exists i, nth_error keys i = Some q /\ retained (normalize r) keys vals i = true.
Proof. intros r keys vals T m vs fuel q v. exact (mcomplete_found_retained (normalize r) keys vals T m vs fuel q v). Qed.
Print Assumptions C13_message_level_complete.

(* every two modes with equal DedupValue give the same answer, computed from their two
   messages, for a retained key *)
Theorem C13_message_level_retained :
  forall (r1 r2 : raw_opt) (keys : list key) (vals : option (list (list byte))) (T1 T2 : trie)
         (m1 : msg) (vs1 : vars) (m2 : msg) (vs2 : vars) (fuel1 fuel2 : nat) (i : nat) (k : key),
    o_dedup (normalize r1) = o_dedup (normalize r2) ->
    build (normalize r1) keys vals = Ok T1 -> build (normalize r2) keys vals = Ok T2 ->
    encode_trie T1 = Val m1 -> init_vars m1 = Val vs1 -> trie_height T1 <= fuel1 ->
    encode_trie T2 = Val m2 -> init_vars m2 = Val vs2 -> trie_height T2 <= fuel2 ->
    nth_error keys i = Some k -> retained (normalize r1) keys vals i = true ->
    exists v id, mget (S fuel1) m1 vs1 k = Ok (Found v) /\ mget (S fuel2) m2 vs2 k = Ok (Found v) /\
                 mgetid (S fuel1) m1 vs1 k = Ok (Some id) /\ mgetid (S fuel2) m2 vs2 k = Ok (Some id) /\
                 val_bytes v = supplied vals i /\ (vals = None -> v = None).
Proof.
  intros r1 r2 keys vals T1 T2 m1 vs1 m2 vs2 fuel1 fuel2 i k.
  exact (mretained_key_same_answer (normalize r1) (normalize r2) keys vals T1 T2 m1 vs1 m2 vs2 fuel1 fuel2 i k).
Qed.
Print Assumptions C13_message_level_retained.

(* non-vacuity: the example above with Get computed from the message of each mode *)
Definition ex_mget (r : raw_opt) (q : key) : res found :=
  match build (normalize r) ex_keys ex_vals with
  | Ok T => match encode_trie T with
            | Val m => match init_vars m with
                       | Val vs => if Nat.leb (trie_height T) 4 then mget 5 m vs q else Err EFuel
                       | Panic => Err (EPanic 0)
                       end
            | Panic => Err (EPanic 0)
            end
  | Err e => Err e
  end.
Example C13_message_example :
  ex_mget (ex_raw None None None) am = Ok (Found (Some ["002"%byte])) /\
  ex_mget (ex_raw (Some true) None None) am = Ok (Found (Some ["002"%byte])) /\
  ex_mget (ex_raw None (Some true) None) am = Ok NotFound /\
  ex_mget (ex_raw None None (Some true)) am = Ok NotFound /\
  ex_mget (ex_raw None None None) abc = Ok (Found (Some ["002"%byte])) /\
  ex_mget (ex_raw (Some true) None None) abc = Ok (Found (Some ["002"%byte])) /\
  ex_mget (ex_raw None (Some true) None) abc = Ok (Found (Some ["002"%byte])) /\
  ex_mget (ex_raw None None (Some true)) abc = Ok (Found (Some ["002"%byte])).
Proof. vm_compute. repeat split. Qed.
