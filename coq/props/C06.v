(* C06 - data written by every older compatible version loads and answers correctly.

   Closed here: the byte- and word-level conversions the loader applies to old
   data (trie/slimtrie_marshal.go), each for ALL inputs in the domain of the old
   writers.  Every theorem is named _partial: the full statement "a
   legacy-loaded trie answers Get/RangeGet/Search like the index it encodes"
   additionally needs
     (a) before000510ToNewChildrenArray: the BFS renumbering with the explicit
         empty-label leaf child preserves the trie relation of the main model
         (the harness checks on every run that the loaded node view EQUALS the
         view the extracted main model builds from the same keys, see
         checks/C06.json), and creator.build on its output (short table etc.);
     (b) the main trie theorems (C01/C02/C09, C03/C04 for full prefixes) applied
         to that trie;
     (c) protobuf/pbcmpl decoding and the version dispatch of Unmarshal;
     (d) bitmap.Select32R64 cutting InnerPrefixes.Bytes into elements (incl. the
         0.5.10 SelectIndex that is stored in word units).
   These are composed by the main development. *)
From Slim Require Import Base Legacy LegacyProofs.
From Slim Require Base Keys KeysProofs Model BuildProofs QueryProofs OrderProofs SearchProofs LegacyCompose.
Open Scope Z_scope.

(* 1. before000512InnerPrefixTobitstr on one element: for EVERY bit string the
   control-byte form converts to the bitstr form of the same bit string, the
   two forms have the same number of bytes (so the in-place copy(old, newPref)
   is exact), and the bitstr form reads back as exactly those bits. *)
Theorem C06_prefix_conversion_partial : forall bits : list bool,
  conv_prefix (ctl_of_bits bits) = Ok (bitstr_of_bits bits) /\
  length (ctl_of_bits bits) = length (bitstr_of_bits bits) /\
  bitstr_len (bitstr_of_bits bits) = Z.of_nat (length bits) /\
  bitstr_bits (bitstr_of_bits bits) = bits.
Proof. exact prefix_conversion_all. Qed.
Print Assumptions C06_prefix_conversion_partial.

(* the whole InnerPrefixes.Bytes buffer: element boundaries do not move *)
Theorem C06_prefix_buffer_partial : forall bss : list (list bool),
  conv_all (map ctl_of_bits bss) = Ok (map bitstr_of_bits bss) /\
  map (@length Z) (map ctl_of_bits bss) = map (@length Z) (map bitstr_of_bits bss).
Proof. exact prefix_buffer_all. Qed.
Print Assumptions C06_prefix_buffer_partial.

(* 2. getStepBefore000510: an old node branching at nibble p under a parent
   branching at nibble pp (root: pp = -1) gets a prefix of 4*(p-(pp+1)) bits:
   the nibbles strictly between the parent's label and its own branch. *)
Theorem C06_step_rebase_partial : forall p pp : Z, pp < p -> p - pp <= 65535 ->
  step_new (old_step (p - pp)) = 4 * (p - (pp + 1)).
Proof. exact step_rebase. Qed.
Print Assumptions C06_step_rebase_partial.

(* 3. bitmap.Rank64 over the Offsets written by array.InitIndex (0 for an empty
   word) returns the true rank for every SET bit. *)
Theorem C06_rank64_offsets_quirk_partial : forall (words : list Z) (i : Z),
  0 <= i < 64 * Z.of_nat (length words) -> bit_at words i = true ->
  rank64 words (offsets_quirk words) i = Ok (count_below words (Z.to_nat i), 1).
Proof. exact rank64_quirk_correct. Qed.
Print Assumptions C06_rank64_offsets_quirk_partial.

(* 4. getBM16Child under both encodings of the children elements: the label
   bitmap of the r-th inner node, shifted by one (bit 0 = the empty label). *)
Theorem C06_children_element_partial : forall (is_bm : bool) (bitmaps bms fcs : list Z) (idx : Z),
  0 <= idx < 64 * Z.of_nat (length bitmaps) -> bit_at bitmaps idx = true ->
  length fcs = length bms -> Forall bm16 bms ->
  (Z.to_nat (count_below bitmaps (Z.to_nat idx)) < length bms)%nat ->
  get_bm16_child is_bm bitmaps (offsets_quirk bitmaps) (enc_u32 bms fcs) (enc_bm bms) idx =
  Ok (2 * nth (Z.to_nat (count_below bitmaps (Z.to_nat idx))) bms 0).
Proof. exact get_bm16_child_both. Qed.
Print Assumptions C06_children_element_partial.

(* 5. before000512FixLeafSize: from the bare Leaves.Bytes of n values of the
   encoder's fixed size it rebuilds N = EltCnt = n, FixedSize, PresenceBM, and
   VLenArray.get then returns exactly the i-th value. *)
Theorem C06_leaf_size_partial : forall (vs : list (list Z)) (size : Z), 0 < size ->
  Forall (fun v => Z.of_nat (length v) = size) vs ->
  exists va, fix_leaf (concat vs) size = Ok va /\
    va_n va = Z.of_nat (length vs) /\ va_eltcnt va = Z.of_nat (length vs) /\ va_fixed va = size /\
    va_bytes va = concat vs /\
    forall i, (i < length vs)%nat -> vlen_get va (Z.of_nat i) = Ok (nth i vs []).
Proof. exact fix_leaf_get. Qed.
Print Assumptions C06_leaf_size_partial.

(* ---------------------------------------------------------------- *)
(* Examples on bytes of the archived fixtures (key set 11vl5:
   abc abcd abcdx abcdy abcdz abd abde bc bcd bcde cde).  The harness confirms
   on every run that the real loader turns exactly these input bytes into
   exactly these output bytes (evidence: oracle.coq_examples_confirmed). *)

(* slimtrie-data-11vl5-innpref-0.5.10, InnerPrefixes.Bytes =
   01 68 | 01 62 68 | 00 63 | 00 64 | 00 64   ->   60 f0 | 62 60 f0 | 63 ff | 64 ff | 64 ff *)
Example ex_conv_fixture :
  conv_all [[1; 104]; [1; 98; 104]; [0; 99]; [0; 100]; [0; 100]] =
  Ok [[96; 240]; [98; 96; 240]; [99; 255]; [100; 255]; [100; 255]].
Proof. vm_compute. reflexivity. Qed.

(* the second element is the control-byte form of the 12 bits 0110 0010 0110 *)
Example ex_ctl_fixture :
  ctl_of_bits [false; true; true; false; false; false; true; false; false; true; true; false] = [1; 98; 104] /\
  bitstr_of_bits [false; true; true; false; false; false; true; false; false; true; true; false] = [98; 96; 240].
Proof. vm_compute. split; reflexivity. Qed.

(* a prefix that ends on a half byte after a 0xff byte: 12 bits 1111 1111 1111 *)
Example ex_ff_halfbyte :
  conv_prefix (ctl_of_bits (repeat true 12)) = Ok [255; 240; 240] /\ ctl_of_bits (repeat true 12) = [1; 255; 248].
Proof. vm_compute. split; reflexivity. Qed.

(* not in the writer's domain: the model reports the Go panic instead of a value *)
Example ex_out_of_domain : conv_prefix [1] = Err (EPanic 601) /\ conv_prefix [] = Err (EPanic 603).
Proof. vm_compute. split; reflexivity. Qed.

(* slimtrie-data-11vl5-0.5.1 (uint32 children) and -0.5.4 (BMElts): old node 4
   is the inner node of rank 3, labels {6} -> bit 7 *)
Example ex_children_fixture :
  get_bm16_child false [1271] (offsets_quirk [1271])
    [14;0;1;0; 24;0;4;0; 64;0;6;0; 64;0;7;0; 64;0;8;0; 64;0;9;0; 128;0;10;0; 0;7;11;0] [] 4 = Ok 128 /\
  get_bm16_child true [1271] (offsets_quirk [1271]) [] [18014673388961806; 504403708025503808] 4 = Ok 128 /\
  enc_bm [14; 24; 64; 64; 64; 64; 128; 1792] = [18014673388961806; 504403708025503808] /\
  enc_u32 [14; 24; 64; 64; 64; 64; 128; 1792] [1; 4; 6; 7; 8; 9; 10; 11] =
    [14;0;1;0; 24;0;4;0; 64;0;6;0; 64;0;7;0; 64;0;8;0; 64;0;9;0; 128;0;10;0; 0;7;11;0].
Proof. vm_compute. repeat split; reflexivity. Qed.

(* the hypotheses of C06_children_element_partial hold on that fixture *)
Example ex_children_hyps :
  0 <= 4 < 64 * Z.of_nat (length [1271]) /\ bit_at [1271] 4 = true /\
  Forall bm16 [14; 24; 64; 64; 64; 64; 128; 1792] /\
  Nat.lt (Z.to_nat (count_below [1271] (Z.to_nat 4))) (length [14; 24; 64; 64; 64; 64; 128; 1792]).
Proof.
  split; [cbn; lia|]. split; [reflexivity|]. split; [repeat constructor; unfold bm16; lia|].
  vm_compute. unfold Nat.lt. lia.
Qed.

(* the Offsets quirk: an empty word gets offset 0, later words their true rank *)
Example ex_quirk : offsets_quirk [5; 0; 3; 0] = [0; 0; 2; 0] /\ offsets_true [5; 0; 3; 0] = [0; 2; 2; 4] /\
  rank64 [5; 0; 3; 0] (offsets_quirk [5; 0; 3; 0]) 129 = Ok (3, 1).
Proof. vm_compute. repeat split; reflexivity. Qed.

(* steps of 11vl5: old node 1 (abc.. / abd..) stores step 4 -> 12 prefix bits; absent -> 0 *)
Example ex_step : step_new (Some 4) = 12 /\ step_new None = 0 /\ old_step 1 = None /\ old_step 4 = Some 4.
Proof. vm_compute. repeat split; reflexivity. Qed.

(* slimtrie-data-11vl5-nopref-0.5.10: Leaves.Bytes starts 0a000000 07000000 00000000 *)
Example ex_leaf_fixture :
  (do va <- fix_leaf [10;0;0;0; 7;0;0;0; 0;0;0;0] 4; vlen_get va 1) = Ok [7; 0; 0; 0] /\
  (do va <- fix_leaf [10;0;0;0; 7;0;0;0; 0;0;0;0] 4; vlen_get va 3) = Err (EPanic 632) /\
  fix_leaf [10;0;0;0] 0 = Err (EPanic 631).
Proof. vm_compute. repeat split; reflexivity. Qed.

(* ------------------------------------------------------------------------------------------
   Composition with the trie theorems (main development).  The correspondence of this check
   establishes, node by node through the implementation's own getNode, that a trie loaded
   from a three-array stream (0.5.0-0.5.9) is [Model.build_gen false o keys vals] with
   o = (dedup false, no prefixes) - the conversion runs the creator with isBig = false - and
   that a trie loaded from a 0.5.10/0.5.11 stream is [Model.build_gen true o keys vals] with the
   stream's prefix options and dedup false.  On EVERY such trie every indexed key is answered
   exactly: Get and RangeGet return its value, Search returns the values of the previous key,
   the key and the next key (nil at the ends).  [b] is the initial isBig flag. *)
Theorem C06_loaded_trie_answers_partial :
  forall (b : bool) (o : Model.opts) (keys : list Keys.key) (vs : list (list Byte.byte)) (T : Model.trie) (i : nat) (k : Keys.key),
    Model.o_dedup o = false -> length vs = length keys ->
    Model.build_gen b o keys (Some vs) = Base.Ok T -> nth_error keys i = Some k ->
    (exists id, Model.getid T k = Some id) /\
    (exists v, Model.get T k = Base.Ok (Model.Found v) /\ QueryProofs.val_bytes v = nth i vs nil) /\
    (exists v, Model.rangeget T k = Base.Ok (Model.Found v) /\ QueryProofs.val_bytes v = nth i vs nil) /\
    Model.search T k =
      Base.Ok (match i with O => None | S j => Some (SearchProofs.stored T (Some vs) j) end,
               Some (SearchProofs.stored T (Some vs) i),
               if Nat.ltb (S i) (length keys) then Some (SearchProofs.stored T (Some vs) (S i)) else None).
Proof. exact LegacyCompose.legacy_answers. Qed.
Print Assumptions C06_loaded_trie_answers_partial.

(* full-prefix streams (0.5.10 allpref): exact answers for every query string *)
Theorem C06_allpref_exact_partial :
  forall (b : bool) (o : Model.opts) keys vals T q,
    Model.build_gen b o keys vals = Base.Ok T -> keys <> nil ->
    Model.o_inner o = true -> Model.o_leaf o = true ->
    let root := BuildProofs.root_subset o keys vals in
    let sv := fun x => SearchProofs.stored T vals (Model.e_idx x) in
    exists Bl Ar,
      Forall (fun x => KeysProofs.key_lt (Model.e_key x) q) Bl /\ Forall (fun x => KeysProofs.key_lt q (Model.e_key x)) Ar /\
      ((OrderProofs.kept root = Bl ++ Ar /\ Model.getid T q = None /\ Model.get T q = Base.Ok Model.NotFound /\
        Model.search T q = Base.Ok (option_map sv (Base.last_opt Bl), None, option_map sv (Base.hd_opt Ar)) /\
        Model.rangeget T q = Base.Ok (match Base.last_opt Bl with Some x => Model.Found (sv x) | None => Model.NotFound end))
       \/
       (exists x, OrderProofs.kept root = Bl ++ x :: Ar /\ Model.e_key x = q /\ (exists id, Model.getid T q = Some id) /\
                  Model.get T q = Base.Ok (Model.Found (sv x)) /\
                  Model.search T q = Base.Ok (option_map sv (Base.last_opt Bl), Some (sv x), option_map sv (Base.hd_opt Ar)) /\
                  Model.rangeget T q = Base.Ok (Model.Found (sv x)))).
Proof. exact SearchProofs.complete_exact_gen. Qed.
Print Assumptions C06_allpref_exact_partial.
(* What remains outside the theorems (hence _partial): that the loader's conversion
   (before000510ToNewChildrenArray + creator.build, resp. the 0.5.10 prefix/leaf fix-ups)
   yields exactly that trie is established by the node-view correspondence on generated
   streams of all 12 layout variants and on the 97 fixtures, not proved. *)
