(* Extraction of the bit-level model (Bits.v over BitmapRank.v / BitmapRank2.v, on top of the
   tree model).  ExtrOcamlBasic only: bool, option, unit, list, prod map to OCaml's; nat, N,
   Z, positive, byte stay the Coq inductives.  No Extract Constant of our own. *)
From Coq Require Import Extraction ExtrOcamlBasic.
From Coq Require Import NArith ZArith.
From Coq.Strings Require Import Byte.
From Slim Require Import Base Keys Model BitmapRank BitmapRank2 Bits Msg.
From Slim Require Wire EndToEnd.
(* C04m: the scan APIs run over the message fields (MS lines of the driver) *)
From Slim Require Scan ScanMsg.
(* C18/C19: initLevels / Stat / String run over the message fields (MT lines of the driver) *)
From Slim Require StatMsg.
(* C14: GetI8/16/32/64 run over the message fields (MI lines of the driver) *)
From Slim Require GetInt GetIntMsg.
Extraction Language OCaml.
Extraction "bitsx.ml"
  Byte.of_N Byte.to_N N.of_nat N.to_nat N.add N.mul
  Model.normalize Model.build
  BitmapRank.index_rank64 BitmapRank.rank64
  BitmapRank2.of_cap BitmapRank2.of_many BitmapRank2.index_rank64_t BitmapRank2.index_rank128
  BitmapRank2.rank128 BitmapRank2.to_array BitmapRank2.index_select32 BitmapRank2.select32_r64
  BitmapRank2.get_bits BitmapRank2.true_pos
  Bits.encode_trie Bits.trie_wf Bits.init_vars Bits.node_count Bits.get_view Bits.get_node
  Bits.ith_leaf_bytes Bits.bitstr_of_nibs Bits.bitstr_len Bits.path_to_index Bits.index_to_path
  Bits.set_bits_below Msg.mgetid Msg.mget Msg.msearchid Msg.msearch Msg.mrangeget
  EndToEnd.to_wire Wire.marshal_gen
  ScanMsg.miter_all ScanMsg.mscan_from ScanMsg.mscan_from_to Scan.stop_at Scan.never_stop
  StatMsg.minit_levels StatMsg.mstat StatMsg.mrender
  GetIntMsg.mgeti GetInt.z_be8.
