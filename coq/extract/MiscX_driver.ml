(* MiscX_driver.ml - case files of C12 (mode index) and C14 (mode geti).
   Parsing and printing only; every computation is an extracted Coq function. *)
open Miscx

let rec nat_of_int (i : int) : nat = if i <= 0 then O else S (nat_of_int (i - 1))
let int_of_nat (n : nat) : int =
  let rec go n acc = match n with O -> acc | S m -> go m (acc + 1) in go n 0
let rec pos_of_int (i : int) : positive =
  if i = 1 then XH else if i land 1 = 0 then XO (pos_of_int (i lsr 1)) else XI (pos_of_int (i lsr 1))
let n_of_int (i : int) : n = if i = 0 then N0 else Npos (pos_of_int i)
let rec int_of_pos (p : positive) : int =
  match p with XH -> 1 | XO q -> 2 * int_of_pos q | XI q -> 2 * int_of_pos q + 1
let int_of_n (x : n) : int = match x with N0 -> 0 | Npos p -> int_of_pos p

let byte_tab : byte array =
  Array.init 256 (fun i -> match byte_of_N (n_of_int i) with Some b -> b | None -> failwith "byte")
let byte_of_int i = byte_tab.(i)
let int_of_byte (b : byte) : int = int_of_n (byte_to_N b)

let hexval c =
  match c with
  | '0' .. '9' -> Char.code c - 48
  | 'a' .. 'f' -> Char.code c - 87
  | 'A' .. 'F' -> Char.code c - 55
  | _ -> failwith "hex"

let bytes_of_hex (s : string) : byte list =
  if s = "." then [] else begin
    let n = String.length s / 2 in
    let rec go i acc = if i < 0 then acc
      else go (i - 1) (byte_of_int (hexval s.[2*i] * 16 + hexval s.[2*i+1]) :: acc) in
    go (n - 1) []
  end

let hex_of_bytes (l : byte list) : string =
  match l with
  | [] -> "."
  | _ -> String.concat "" (List.map (fun b -> Printf.sprintf "%02x" (int_of_byte b)) l)

let optbool s = match s with "-" -> None | "1" -> Some true | "0" -> Some false | _ -> failwith "optbool"

let err_str (e : err) : string =
  match e with
  | EOutOfOrder i -> Printf.sprintf "err:order:%d" (int_of_nat i)
  | EStepTooLong -> "err:step"
  | EPanic _ -> "PANIC"
  | EFuel -> "FUEL"

let val_str (v : byte list option) : string =
  match v with None -> "nil" | Some b -> hex_of_bytes b

let found_str (r : found res) : string =
  match r with
  | Err e -> err_str e
  | Ok NotFound -> "N"
  | Ok (Found v) -> "F:" ^ val_str v

let split_ws (s : string) : string list =
  List.filter (fun x -> x <> "") (String.split_on_char ' ' s)

(* ---------- C14: typed getters ---------- *)
let width_of_enc (e : string) : int =
  match e with "I8" -> 1 | "I16" -> 2 | "I32" -> 4 | "I64" -> 8 | _ -> failwith ("encoder " ^ e)

let geti_str (r : (z * bool) res) : string =
  match r with
  | Err e -> err_str e
  | Ok (v, f) -> Printf.sprintf "%d %s" (if f then 1 else 0) (hex_of_bytes (z_be8 v))

let run_geti (inp : in_channel) (out : out_channel) =
  let cid = ref "" and ropt = ref { r_dedup = None; r_inner = None; r_leaf = None; r_complete = None }
  and keys = ref [] and vals = ref [] and hasvals = ref false and w = ref 1
  and built = ref None in
  let buf = Buffer.create 65536 in
  let pr fmt = Printf.bprintf buf fmt in
  let get_built () =
    match !built with
    | Some b -> b
    | None ->
      let b = build (normalize !ropt) (List.rev !keys) (if !hasvals then Some (List.rev !vals) else None) in
      built := Some b;
      (match b with Err e -> pr "B %s\n" (err_str e) | Ok _ -> pr "B ok\n");
      b in
  (try
     while true do
       let line = input_line inp in
       match split_ws line with
       | "T" :: id :: d :: i :: l :: cc :: hv :: enc :: _ ->
         cid := id;
         ropt := { r_dedup = optbool d; r_inner = optbool i; r_leaf = optbool l; r_complete = optbool cc };
         keys := []; vals := []; hasvals := (hv = "1"); built := None; w := width_of_enc enc;
         Buffer.clear buf;
         Printf.fprintf out "C %s\n" id
       | "K" :: k :: v :: _ ->
         keys := bytes_of_hex k :: !keys;
         if !hasvals then vals := bytes_of_hex v :: !vals
       | "Q" :: q :: _ ->
         (match get_built () with
          | Err _ -> ()
          | Ok t ->
            let qb = bytes_of_hex q in
            let wn = nat_of_int !w in
            pr "q %s G %s I %s D %s\n" q (found_str (get t qb)) (geti_str (geti wn t qb)) (geti_str (get_then_decode wn t qb)))
       | "E" :: _ -> ignore (get_built ()); output_string out (Buffer.contents buf)
       | "L" :: id :: _ -> Printf.fprintf out "C %s+L\n" id; output_string out (Buffer.contents buf)
       | [] -> ()
       | _ -> failwith ("bad line: " ^ line)
     done
   with End_of_file -> ())

(* ---------- C12: SlimIndex ---------- *)
let oval_str (r : byte list option res) : string =
  match r with
  | Err e -> err_str e
  | Ok None -> "N"
  | Ok (Some v) -> "F:" ^ hex_of_bytes v

let run_index (inp : in_channel) (out : out_channel) =
  let recs = ref [] and built = ref None in
  let buf = Buffer.create 65536 in
  let pr fmt = Printf.bprintf buf fmt in
  let table () = List.rev !recs in
  let get_built () =
    match !built with
    | Some b -> b
    | None ->
      let b = index_build (table ()) in
      built := Some b;
      (match b with Err e -> pr "B %s\n" (err_str e) | Ok _ -> pr "B ok\n");
      b in
  (try
     while true do
       let line = input_line inp in
       match split_ws line with
       | "X" :: id :: _ ->
         recs := []; built := None; Buffer.clear buf;
         Printf.fprintf out "C %s\n" id
       | "R" :: k :: off :: v :: _ ->
         (* off: 16 hex digits, big-endian two's complement *)
         let o = off_of_le_bytes (List.rev (bytes_of_hex off)) in
         recs := { r_key = bytes_of_hex k; r_off = o; r_val = bytes_of_hex v } :: !recs
       | "Q" :: q :: _ ->
         (match get_built () with
          | Err _ -> ()
          | Ok t ->
            let qb = bytes_of_hex q in
            let rd = table_reader (table ()) in
            pr "q %s G %s R %s M %s\n" q (oval_str (index_get t rd qb)) (oval_str (index_rangeget t rd qb))
              (oval_str (Ok (lookup (table ()) qb))))
       | "E" :: _ -> ignore (get_built ()); output_string out (Buffer.contents buf)
       | "L" :: id :: _ -> Printf.fprintf out "C %s+L\n" id; output_string out (Buffer.contents buf)
       | [] -> ()
       | _ -> failwith ("bad line: " ^ line)
     done
   with End_of_file -> ())

(* ---------- C13: node view and lookups of one trie (format of TrieX, mode trie) ---------- *)
let hex_of_nibs (l : nat list) : string =
  match l with
  | [] -> "."
  | _ -> String.concat "" (List.map (fun x -> Printf.sprintf "%x" (int_of_nat x)) l)

let ov_str (v : byte list option option) : string =
  match v with None | Some None -> "-" | Some v -> val_str v

let print_views buf (t : tree) =
  let vs = node_views t in
  let idof v = (match v with VLeaf (i, _, _) -> int_of_nat i | VInner (i, _, _, _, _, _) -> int_of_nat i) in
  let vs = List.sort (fun a b -> compare (idof a) (idof b)) vs in
  List.iter (fun v ->
      match v with
      | VLeaf (id, ord, tail) ->
        Printf.bprintf buf "N %d L %d %s\n" (int_of_nat id) (int_of_nat ord)
          (match tail with None -> "-" | Some t -> hex_of_bytes t)
      | VInner (id, big, step, pfx, fc, labels) ->
        Printf.bprintf buf "N %d I %d %d %s %d %s\n" (int_of_nat id) (if big then 1 else 0)
          (match pfx with None -> int_of_nat step | Some p -> List.length p)
          (match pfx with None -> "-" | Some p -> hex_of_nibs p)
          (int_of_nat fc)
          (String.concat "," (List.map (fun x -> string_of_int (int_of_nat x)) labels)))
    vs

let run_trie (inp : in_channel) (out : out_channel) =
  let ropt = ref { r_dedup = None; r_inner = None; r_leaf = None; r_complete = None }
  and keys = ref [] and vals = ref [] and hasvals = ref false and built = ref None in
  let buf = Buffer.create 65536 in
  let pr fmt = Printf.bprintf buf fmt in
  let get_built () =
    match !built with
    | Some b -> b
    | None ->
      let b = build (normalize !ropt) (List.rev !keys) (if !hasvals then Some (List.rev !vals) else None) in
      built := Some b;
      (match b with
       | Err e -> pr "B %s\n" (err_str e)
       | Ok t ->
         pr "B ok\n";
         (match t.t_leaves with
          | None -> pr "LV nil\n"
          | Some ls -> pr "LV %s\n" (String.concat "," (List.map hex_of_bytes ls)));
         (match t.t_root with None -> () | Some r -> print_views buf r));
      b in
  let idstr (t : tree option) = match t with None -> -1 | Some t -> int_of_nat (tree_id t) in
  (try
     while true do
       let line = input_line inp in
       match split_ws line with
       | "T" :: id :: d :: i :: l :: cc :: hv :: _ ->
         ropt := { r_dedup = optbool d; r_inner = optbool i; r_leaf = optbool l; r_complete = optbool cc };
         keys := []; vals := []; hasvals := (hv = "1"); built := None;
         Buffer.clear buf;
         Printf.fprintf out "C %s\n" id
       | "K" :: k :: v :: _ ->
         keys := bytes_of_hex k :: !keys;
         if !hasvals then vals := bytes_of_hex v :: !vals
       | "Q" :: q :: _ ->
         (match get_built () with
          | Err _ -> ()
          | Ok t ->
            let qb = bytes_of_hex q in
            let g = (match getid t qb with None -> -1 | Some i -> int_of_nat i) in
            let gv = found_str (get t qb) in
            let rv = found_str (rangeget t qb) in
            let sv = (match search t qb with
                | Err e -> err_str e
                | Ok ((l, e), r) -> Printf.sprintf "%s %s %s" (ov_str l) (ov_str e) (ov_str r)) in
            let ((il, ie), ir) = searchid t qb in
            pr "q %s G %d %s R %s S %s I %d %d %d\n" q g gv rv sv (idstr il) (idstr ie) (idstr ir))
       | "E" :: _ -> ignore (get_built ()); output_string out (Buffer.contents buf)
       | "L" :: id :: _ -> Printf.fprintf out "C %s+L\n" id; output_string out (Buffer.contents buf)
       | [] -> ()
       | _ -> failwith ("bad line: " ^ line)
     done
   with End_of_file -> ())

let () =
  match Array.to_list Sys.argv with
  | _ :: "trie" :: infile :: outfile :: _ ->
    let inp = open_in infile in let out = open_out outfile in
    run_trie inp out; close_out out
  | _ :: "geti" :: infile :: outfile :: _ ->
    let inp = open_in infile in let out = open_out outfile in
    run_geti inp out; close_out out
  | _ :: "index" :: infile :: outfile :: _ ->
    let inp = open_in infile in let out = open_out outfile in
    run_index inp out; close_out out
  | _ -> prerr_endline "usage: driver <geti|index|trie> <in> <out>"; exit 2
