(* Extraction for C06f (mode "e2e"): the instance state machine with both legacy
   conversions in place (EndToEndLegacy.step_e2e from fresh_e2e), the queries over the
   instance, and the two old writers down to the stream bytes (write_0510,
   LegacyBytes.write_stream).  ExtrOcamlBasic only. *)
From Coq Require Import Extraction ExtrOcamlBasic.
From Coq Require Import NArith ZArith.
From Coq.Strings Require Import Byte.
From Slim Require Import Base Keys Model LegacyBytes Frame Instance EndToEnd EndToEndLegacy.
Extraction Language OCaml.
Extraction "e2elegacyx.ml"
  Byte.of_N Byte.to_N N.of_nat N.to_nat
  LegacyBytes.layouts LegacyBytes.write_stream
  EndToEndLegacy.ver_0_5_10 EndToEndLegacy.ver_0_5_11 EndToEndLegacy.write_0510
  EndToEndLegacy.fresh_e2e EndToEndLegacy.step_e2e
  EndToEndLegacy.getid_e2e EndToEndLegacy.get_e2e EndToEndLegacy.searchid_e2e.
