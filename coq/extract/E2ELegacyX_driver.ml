(* E2ELegacyX_driver.ml - reads the case file written by harness/prop_c06f.go, runs the
   extracted instance state machine with both legacy conversions in place
   (EndToEndLegacy.step_e2e from fresh_e2e) on the REAL stream bytes of every history, the
   extracted queries over the instance, and the extracted old writers; prints one canonical
   observable per line.  Parsing and printing only; every computation is an extracted Coq
   function. *)
open E2elegacyx
type string = Stdlib.String.t

let rec nat_of_int (i : int) : nat = if i <= 0 then O else S (nat_of_int (i - 1))
let int_of_nat (n : nat) : int =
  let rec go n acc = match n with O -> acc | S m -> go m (acc + 1) in go n 0

let rec pos_of_int (i : int) : positive =
  if i = 1 then XH else if i land 1 = 0 then XO (pos_of_int (i lsr 1)) else XI (pos_of_int (i lsr 1))
let n_of_int (i : int) : n = if i <= 0 then N0 else Npos (pos_of_int i)
let rec int_of_pos (p : positive) : int =
  match p with XH -> 1 | XO q -> 2 * int_of_pos q | XI q -> 2 * int_of_pos q + 1
let int_of_n (x : n) : int = match x with N0 -> 0 | Npos p -> int_of_pos p

let byte_tab : byte array =
  Array.init 256 (fun i -> match of_N (n_of_int i) with Some b -> b | None -> failwith "byte")
let byte_of_int i = byte_tab.(i)
let int_of_byte (b : byte) : int = int_of_n (to_N b)

let hexval c =
  match c with
  | '0' .. '9' -> Char.code c - 48
  | 'a' .. 'f' -> Char.code c - 87
  | 'A' .. 'F' -> Char.code c - 55
  | _ -> failwith "hex"

let bytes_of_hex (s : string) : byte list =
  if s = "." then [] else begin
    let n = String.length s / 2 in
    let rec go i acc = if i < 0 then acc
      else go (i - 1) (byte_of_int (hexval s.[2*i] * 16 + hexval s.[2*i+1]) :: acc) in
    go (n - 1) []
  end

let hex_of_bytes (l : byte list) : string =
  match l with
  | [] -> "."
  | _ ->
    let b = Buffer.create 64 in
    List.iter (fun x -> Printf.bprintf b "%02x" (int_of_byte x)) l;
    Buffer.contents b

let split_ws (s : string) : string list =
  List.filter (fun x -> x <> "") (String.split_on_char ' ' s)

(* outcome kinds, as harness/prop_c07.go:c07ErrKind prints them *)
let stage_str s = match s with
  | SHeader -> "header" | SInner -> "inner" | SChildren -> "children" | SSteps -> "steps" | SLeaves -> "leaves"
let cause_str c = match c with
  | CEOF -> "eof" | CUnexpectedEOF -> "bad" | CHeaderSize -> "headersize" | CProto -> "bad"
let outcome_str (o : outcome) : string =
  match o with
  | OLoaded _ -> "ok"
  | OLegacy510 _ -> "ok"
  | OLegacy3 _ -> "ok"
  | OErr (s, c) -> Printf.sprintf "err:%s:%s" (stage_str s) (cause_str c)
  | OIncompatible -> "err:incompatible"
  | OPanic -> "PANIC"
  | OUnmodelled -> "UNMODELLED"

let query_str (st : inst_e2e) (q : string) : string =
  let key = bytes_of_hex q in
  let oid x = match x with None -> -1 | Some id -> int_of_nat id in
  let fstr f = match f with
    | NotFound -> "N"
    | Found None -> "F:nil"
    | Found (Some b) -> "F:" ^ hex_of_bytes b in
  match getid_e2e st key, get_e2e st key, searchid_e2e st key with
  | Ok g, Ok f, Ok ((l, e), r) -> Printf.sprintf "%d %s S %d %d %d" (oid g) (fstr f) (oid l) (oid e) (oid r)
  | _, _, _ -> "PANIC"

let run_file (inp : in_channel) (out : out_channel) =
  let lays = Array.of_list layouts in
  let lay = ref 0 and esize = ref 4 and keys = ref [] and vals = ref [] in
  let st = ref fresh_e2e in
  (try
     while true do
       let line = input_line inp in
       match split_ws line with
       | "T" :: id :: l :: es :: _ ->
         lay := int_of_string l; esize := int_of_string es; keys := []; vals := []; st := fresh_e2e;
         Printf.fprintf out "C %s\n" id
       | "K" :: k :: v :: _ -> keys := bytes_of_hex k :: !keys; vals := bytes_of_hex v :: !vals
       | "E" :: _ ->
         (* the stream the model's old writer produces for the case's keys / values / layout *)
         let ks = List.rev !keys and vs = List.rev !vals in
         let w =
           if !lay < 6 then
             (match write_stream lays.(!lay) ks vs with LOk b -> Some b | LErr _ -> None)
           else begin
             let k = !lay - 6 in
             let ver = if k < 3 then ver_0_5_10 else ver_0_5_11 in
             let inner = (k mod 3) >= 1 and leaf = (k mod 3) = 2 in
             write_0510 inner leaf ver ks vs
           end in
         Printf.fprintf out "W %s\n" (match w with Some b -> hex_of_bytes b | None -> "none")
       | "R" :: _ ->
         let (st', _) = step_e2e (n_of_int !esize) (nat_of_int !esize) !st OpReset in
         st := st'; Printf.fprintf out "h reset\n"
       | "U" :: s :: _ ->
         let (st', o) = step_e2e (n_of_int !esize) (nat_of_int !esize) !st (OpUnmarshal (bytes_of_hex s)) in
         st := st';
         Printf.fprintf out "h %s\n" (match o with Some o -> outcome_str o | None -> "?")
       | "Q" :: q :: _ -> Printf.fprintf out "q %s %s\n" q (query_str !st q)
       | [] -> ()
       | _ -> failwith ("bad line: " ^ (if String.length line > 60 then String.sub line 0 60 else line))
     done
   with End_of_file -> ())

let () =
  match Array.to_list Sys.argv with
  | _ :: "e2e" :: infile :: outfile :: _ ->
    let inp = open_in infile in
    let out = open_out outfile in
    run_file inp out; close_out out
  | _ -> prerr_endline "usage: driver e2e <in> <out>"; exit 2
