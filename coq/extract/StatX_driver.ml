(* StatX_driver.ml - reads the trie cases written by the Go harness (C18, C19),
   evaluates the extracted model (build, stat, levels, levels_walk, render) and
   prints one canonical observable per line.  Parsing and printing only; every
   computation is an extracted Coq function. *)
open Statx

let rec nat_of_int (i : int) : nat = if i <= 0 then O else S (nat_of_int (i - 1))
let int_of_nat (n : nat) : int =
  let rec go n acc = match n with O -> acc | S m -> go m (acc + 1) in go n 0

let rec pos_of_int (i : int) : positive =
  if i = 1 then XH else if i land 1 = 0 then XO (pos_of_int (i lsr 1)) else XI (pos_of_int (i lsr 1))
let n_of_int (i : int) : n = if i = 0 then N0 else Npos (pos_of_int i)
let rec int_of_pos (p : positive) : int =
  match p with XH -> 1 | XO q -> 2 * int_of_pos q | XI q -> 2 * int_of_pos q + 1
let int_of_n (x : n) : int = match x with N0 -> 0 | Npos p -> int_of_pos p

let byte_tab : byte array =
  Array.init 256 (fun i -> match of_N (n_of_int i) with Some b -> b | None -> failwith "byte")
let byte_of_int i = byte_tab.(i)
let int_of_byte (b : byte) : int = int_of_n (to_N b)

let hexval c =
  match c with
  | '0' .. '9' -> Char.code c - 48
  | 'a' .. 'f' -> Char.code c - 87
  | 'A' .. 'F' -> Char.code c - 55
  | _ -> failwith "hex"

(* "." is the empty string *)
let bytes_of_hex (s : string) : byte list =
  if s = "." then [] else begin
    let n = String.length s / 2 in
    let rec go i acc = if i < 0 then acc
      else go (i - 1) (byte_of_int (hexval s.[2*i] * 16 + hexval s.[2*i+1]) :: acc) in
    go (n - 1) []
  end

let hex_of_bytes (l : byte list) : string =
  match l with
  | [] -> "."
  | _ -> String.concat "" (List.map (fun b -> Printf.sprintf "%02x" (int_of_byte b)) l)

let optbool s = match s with "-" -> None | "1" -> Some true | "0" -> Some false | _ -> failwith "optbool"

let err_str (e : err) : string =
  match e with
  | EOutOfOrder i -> Printf.sprintf "err:order:%d" (int_of_nat i)
  | EStepTooLong -> "err:step"
  | EPanic _ -> "PANIC"
  | EFuel -> "FUEL"

let split_ws (s : string) : string list =
  List.filter (fun x -> x <> "") (String.split_on_char ' ' s)

let triple_str (((t, i), l) : (nat * nat) * nat) : string =
  Printf.sprintf "%d,%d,%d" (int_of_nat t) (int_of_nat i) (int_of_nat l)

let levels_str (ls : ((nat * nat) * nat) list) : string =
  match ls with [] -> "-" | _ -> String.concat " " (List.map triple_str ls)

type tcase = {
  mutable cid : string;
  mutable ropt : raw_opt;
  mutable keys : byte list list;   (* reversed while reading *)
  mutable vals : byte list list;   (* reversed while reading *)
  mutable hasvals : bool;
  mutable legacy : string list;    (* reversed while reading *)
}

let stat_block buf (c : tcase) (b : trie res) =
  let pr fmt = Printf.bprintf buf fmt in
  match b with
  | Err e -> pr "B %s\n" (err_str e)
  | Ok t ->
    pr "B ok\n";
    (match stat t with
     | Err e -> pr "S %s\n" (err_str e)
     | Ok s ->
       pr "S %d %d %d\n" (int_of_nat s.st_keycnt) (int_of_nat s.st_nodecnt) (int_of_nat s.st_levelcnt);
       pr "L %s\n" (levels_str s.st_levels));
    (match levels_walk t with
     | Err e -> pr "W %s\n" (err_str e)
     | Ok ls -> pr "W %s\n" (levels_str ls))

let legacy_block buf (c : tcase) (b : trie res) =
  let pr fmt = Printf.bprintf buf fmt in
  match b with
  | Err _ -> ()
  | Ok t ->
    List.iter (fun name ->
        match stat t with
        | Err e -> pr "G %s %s\n" name (err_str e)
        | Ok s -> pr "G %s %d\n" name (int_of_nat s.st_keycnt))
      (List.rev c.legacy)

let bits_str (b : bool list) : string =
  match b with
  | [] -> "e"
  | _ -> String.concat "" (List.map (fun x -> if x then "1" else "0") b)

let str_block buf (c : tcase) (b : trie res) =
  let pr fmt = Printf.bprintf buf fmt in
  match b with
  | Err e -> pr "B %s\n" (err_str e)
  | Ok t ->
    pr "B ok\n";
    (match render t with
     | Err e -> pr "R %s\n" (err_str e)
     | Ok ls ->
       List.iter (fun l ->
           pr "R %d %s %d %d %d %s\n" (int_of_nat l.l_indent)
             (match l.l_label with None -> "^" | Some b -> bits_str b)
             (int_of_nat l.l_id) (int_of_nat l.l_step) (int_of_nat l.l_fan)
             (match l.l_val with
              | None -> "-"
              | Some None -> "nil"
              | Some (Some v) -> hex_of_bytes v))
         ls)

let run_file (mode : string) (inp : in_channel) (out : out_channel) =
  let c = { cid = ""; ropt = { r_dedup = None; r_inner = None; r_leaf = None; r_complete = None };
            keys = []; vals = []; hasvals = false; legacy = [] } in
  let buf = Buffer.create 65536 in
  (try
     while true do
       let line = input_line inp in
       match split_ws line with
       | "T" :: cid :: d :: i :: l :: cc :: hv :: _ ->
         c.cid <- cid;
         c.ropt <- { r_dedup = optbool d; r_inner = optbool i; r_leaf = optbool l; r_complete = optbool cc };
         c.keys <- []; c.vals <- []; c.hasvals <- (hv = "1"); c.legacy <- [];
         Buffer.clear buf;
         Printf.fprintf out "C %s\n" cid
       | "K" :: k :: v :: _ ->
         c.keys <- bytes_of_hex k :: c.keys;
         if c.hasvals then c.vals <- bytes_of_hex v :: c.vals
       | "G" :: name :: _ -> c.legacy <- name :: c.legacy
       | "Q" :: _ -> ()
       | "E" :: _ ->
         let o = normalize c.ropt in
         let keys = List.rev c.keys in
         let vals = if c.hasvals then Some (List.rev c.vals) else None in
         let b = build o keys vals in
         (match mode with
          | "stat" -> stat_block buf c b
          | "str" -> str_block buf c b
          | _ -> failwith "mode");
         output_string out (Buffer.contents buf);
         if mode = "stat" then begin
           let lb = Buffer.create 256 in
           legacy_block lb c b;
           output_string out (Buffer.contents lb)
         end
       | "L" :: cid :: _ ->
         (* the same trie after Marshal/Unmarshal: the answers are functions of the tree *)
         Printf.fprintf out "C %s+L\n" cid;
         output_string out (Buffer.contents buf)
       | [] -> ()
       | _ -> failwith ("bad line: " ^ line)
     done
   with End_of_file -> ())

let () =
  match Array.to_list Sys.argv with
  | _ :: (("stat" | "str") as mode) :: infile :: outfile :: _ ->
    let inp = open_in infile in
    let out = open_out outfile in
    run_file mode inp out; close_out out
  | _ -> prerr_endline "usage: driver stat|str <in> <out>"; exit 2
