(* Extraction for C06e (mode "bytes"): the byte level of the three-array legacy layouts:
   the old writer down to the stream bytes [write_stream], the reader from the stream
   bytes to the three arrays [arrays_of_stream], to the old node table [old_of_arrays]
   and through LegacyConv.convert to the node view [load_stream].  ExtrOcamlBasic only. *)
From Coq Require Import Extraction ExtrOcamlBasic.
From Slim Require Import Base Keys Model LegacyConv LegacyBytes.
Extraction Language OCaml.
Extraction "legacybx.ml"
  Byte.of_N Byte.to_N N.of_nat N.to_nat
  LegacyBytes.layouts LegacyBytes.write_stream LegacyBytes.arrays_of_stream
  LegacyBytes.old_of_arrays LegacyBytes.load_stream.
