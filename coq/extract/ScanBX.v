(* Extraction of the byte-level scan model (ScanBytes.v) together with Model.build.
   ExtrOcamlBasic only; nat, N, positive, byte stay the Coq inductives. *)
From Coq Require Import Extraction ExtrOcamlBasic.
From Slim Require Import Base Keys Model Scan ScanBytes.
Extraction Language OCaml.
Extraction "scanbx.ml"
  Byte.of_N Byte.to_N N.of_nat N.to_nat
  Model.normalize Model.build
  Scan.stop_at Scan.never_stop
  ScanBytes.b_iter_all ScanBytes.b_scan_from ScanBytes.b_scan_from_to
  ScanBytes.trie_prefixes ScanBytes.bitstr_new ScanBytes.bitstr_len ScanBytes.key_prefix_bitstr.
