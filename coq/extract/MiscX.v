(* Extraction for C12 (mode "index"), C13 (mode "trie": node view + lookups of
   each of the 16 option combinations) and C14 (mode "geti"): the trie model plus
   the typed getters and the SlimIndex model.  ExtrOcamlBasic only. *)
From Coq Require Import Extraction ExtrOcamlBasic.
From Slim Require Import Base Keys Model Encoders GetInt Index.
Extraction Language OCaml.
Extraction "miscx.ml"
  GetInt.byte_of_N GetInt.byte_to_N N.of_nat N.to_nat
  Model.normalize Model.build Model.get Model.getid Model.rangeget Model.search Model.searchid
  Model.node_views Model.tree_id
  GetInt.geti GetInt.get_then_decode GetInt.z_be8
  Index.index_build Index.index_get Index.index_rangeget Index.table_reader Index.lookup Index.off_of_le_bytes.
