(* Extraction of the executable wire model (Varint/Proto/Semver/Frame/Instance/Wire).
   ExtrOcamlBasic only; nat, N, Z, positive, byte stay the Coq inductives. *)
From Coq Require Import Extraction ExtrOcamlBasic.
From Coq Require Import NArith ZArith.
From Slim Require Import Varint Proto Semver Frame Instance Wire.
Extraction Language OCaml.
Extraction "wirex.ml"
  Byte.of_N Byte.to_N N.of_nat N.to_nat N.add N.mul
  Varint.blen
  Proto.ser_slim Proto.parse_slim Proto.wf_slim Proto.size_slim Proto.empty_slim
  Semver.is_compatible Semver.specs_in_fragment
  Frame.unmarshal Frame.marshal Frame.read_header
  Instance.i_inner Instance.i_vars Instance.i_levels Instance.inner_state
  Wire.fresh_gen Wire.step_gen
  Wire.compat_gen Wire.cur_gen Wire.marshal_gen Wire.unmarshal_gen Wire.marshal_size Wire.wf_msg.
