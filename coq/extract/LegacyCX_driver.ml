(* LegacyCX_driver.ml - reads the C06c case file, evaluates the extracted
   old_write / old_first_children / convert / loaded_leaves, prints the old node table
   and the converted node view in the format of harness/prop_c06c.go.  Parsing and
   printing only. *)
open Legacycx

let rec nat_of_int (i : int) : nat = if i <= 0 then O else S (nat_of_int (i - 1))
let int_of_nat (n : nat) : int =
  let rec go n acc = match n with O -> acc | S m -> go m (acc + 1) in go n 0
let rec pos_of_int (i : int) : positive =
  if i = 1 then XH else if i land 1 = 0 then XO (pos_of_int (i lsr 1)) else XI (pos_of_int (i lsr 1))
let n_of_int (i : int) : n = if i = 0 then N0 else Npos (pos_of_int i)
let rec int_of_pos (p : positive) : int =
  match p with XH -> 1 | XO q -> 2 * int_of_pos q | XI q -> 2 * int_of_pos q + 1
let int_of_n (x : n) : int = match x with N0 -> 0 | Npos p -> int_of_pos p

let byte_tab : byte array =
  Array.init 256 (fun i -> match of_N (n_of_int i) with Some b -> b | None -> failwith "byte")
let byte_of_int i = byte_tab.(i)
let int_of_byte (b : byte) : int = int_of_n (to_N b)

let hexval c =
  match c with
  | '0' .. '9' -> Char.code c - 48
  | 'a' .. 'f' -> Char.code c - 87
  | 'A' .. 'F' -> Char.code c - 55
  | _ -> failwith "hex"

let bytes_of_hex (s : string) : byte list =
  if s = "." then [] else begin
    let n = String.length s / 2 in
    let rec go i acc = if i < 0 then acc
      else go (i - 1) (byte_of_int (hexval s.[2*i] * 16 + hexval s.[2*i+1]) :: acc) in
    go (n - 1) []
  end

let hex_of_bytes (l : byte list) : string =
  match l with
  | [] -> "."
  | _ -> String.concat "" (List.map (fun b -> Printf.sprintf "%02x" (int_of_byte b)) l)

let err_str (e : err) : string =
  match e with
  | EOutOfOrder i -> Printf.sprintf "err:order:%d" (int_of_nat i)
  | EStepTooLong -> "err:step"
  | EPanic c -> Printf.sprintf "PANIC:%d" (int_of_nat c)
  | EFuel -> "FUEL"

let split_ws (s : string) : string list =
  List.filter (fun x -> x <> "") (String.split_on_char ' ' s)

let csv (l : nat list) : string =
  match l with
  | [] -> "-"
  | _ -> String.concat "," (List.map (fun x -> string_of_int (int_of_nat x)) l)

let optnat (o : nat option) : string =
  match o with None -> "-" | Some x -> string_of_int (int_of_nat x)

let run_case out cid ls keys vals =
  Printf.fprintf out "C %s\n" cid;
  match old_write ls keys with
  | Err e -> Printf.fprintf out "W %s\n" (err_str e)
  | Ok ot ->
    Printf.fprintf out "W ok %d\n" (List.length ot);
    let fcs = old_first_children (S O) ot in
    List.iteri (fun i (nd, fc) ->
        Printf.fprintf out "O %d %s %d %s %s\n" i (csv nd.on_bm) (int_of_nat nd.on_step)
          (optnat nd.on_leaf) (optnat fc))
      (List.combine ot fcs);
    (match convert ot with
     | Err e -> Printf.fprintf out "V %s\n" (err_str e)
     | Ok (views, lidx) ->
       Printf.fprintf out "V ok\n";
       (match loaded_leaves vals lidx with
        | None -> Printf.fprintf out "LV nil\n"
        | Some lv -> Printf.fprintf out "LV %s\n" (String.concat "," (List.map hex_of_bytes lv)));
       List.iter (fun v ->
           match v with
           | VLeaf (id, ord, tail) ->
             Printf.fprintf out "N %d L %d %s\n" (int_of_nat id) (int_of_nat ord)
               (match tail with None -> "-" | Some t -> hex_of_bytes t)
           | VInner (id, big, step, pfx, fc, labels) ->
             Printf.fprintf out "N %d I %d %d %s %d %s\n" (int_of_nat id) (if big then 1 else 0)
               (int_of_nat step)
               (match pfx with None -> "-" | Some _ -> "?")
               (int_of_nat fc)
               (String.concat "," (List.map (fun x -> string_of_int (int_of_nat x)) labels)))
         views)

let run_file (inp : in_channel) (out : out_channel) =
  let cid = ref "" and ls = ref false and keys = ref [] and vals = ref [] in
  (try
     while true do
       let line = input_line inp in
       match split_ws line with
       | "T" :: id :: l :: _ -> cid := id; ls := (l = "1"); keys := []; vals := []
       | "K" :: k :: v :: _ -> keys := bytes_of_hex k :: !keys; vals := bytes_of_hex v :: !vals
       | "E" :: _ -> run_case out !cid !ls (List.rev !keys) (List.rev !vals)
       | [] -> ()
       | _ -> failwith ("bad line: " ^ line)
     done
   with End_of_file -> ())

let () =
  match Array.to_list Sys.argv with
  | _ :: "conv" :: infile :: outfile :: _ ->
    let inp = open_in infile in
    let out = open_out outfile in
    run_file inp out; close_out out
  | _ -> prerr_endline "usage: driver conv <in> <out>"; exit 2
