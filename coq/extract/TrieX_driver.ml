(* driver.ml - reads case files written by the Go harness, evaluates the
   extracted model, prints one canonical observable per line.  Parsing and
   printing only; every computation is an extracted Coq function. *)
open Model

let rec nat_of_int (i : int) : nat = if i <= 0 then O else S (nat_of_int (i - 1))
let int_of_nat (n : nat) : int =
  let rec go n acc = match n with O -> acc | S m -> go m (acc + 1) in go n 0

let rec pos_of_int (i : int) : positive =
  if i = 1 then XH else if i land 1 = 0 then XO (pos_of_int (i lsr 1)) else XI (pos_of_int (i lsr 1))
let n_of_int (i : int) : n = if i = 0 then N0 else Npos (pos_of_int i)
let rec int_of_pos (p : positive) : int =
  match p with XH -> 1 | XO q -> 2 * int_of_pos q | XI q -> 2 * int_of_pos q + 1
let int_of_n (x : n) : int = match x with N0 -> 0 | Npos p -> int_of_pos p

let byte_tab : byte array =
  Array.init 256 (fun i -> match of_N (n_of_int i) with Some b -> b | None -> failwith "byte")
let byte_of_int i = byte_tab.(i)
let int_of_byte (b : byte) : int = int_of_n (to_N b)

let hexval c =
  match c with
  | '0' .. '9' -> Char.code c - 48
  | 'a' .. 'f' -> Char.code c - 87
  | 'A' .. 'F' -> Char.code c - 55
  | _ -> failwith "hex"

(* "." is the empty string *)
let bytes_of_hex (s : string) : byte list =
  if s = "." then [] else begin
    let n = String.length s / 2 in
    let rec go i acc = if i < 0 then acc
      else go (i - 1) (byte_of_int (hexval s.[2*i] * 16 + hexval s.[2*i+1]) :: acc) in
    go (n - 1) []
  end

let hex_of_bytes (l : byte list) : string =
  match l with
  | [] -> "."
  | _ -> String.concat "" (List.map (fun b -> Printf.sprintf "%02x" (int_of_byte b)) l)

let hex_of_nibs (l : nat list) : string =
  match l with
  | [] -> "."
  | _ -> String.concat "" (List.map (fun x -> Printf.sprintf "%x" (int_of_nat x)) l)

let optbool s = match s with "-" -> None | "1" -> Some true | "0" -> Some false | _ -> failwith "optbool"

let err_str (e : err) : string =
  match e with
  | EOutOfOrder i -> Printf.sprintf "err:order:%d" (int_of_nat i)
  | EStepTooLong -> "err:step"
  | EPanic _ -> "PANIC"
  | EFuel -> "FUEL"

let val_str (v : byte list option) : string =
  match v with None -> "nil" | Some b -> hex_of_bytes b

let found_str (r : found res) : string =
  match r with
  | Err e -> err_str e
  | Ok NotFound -> "N"
  | Ok (Found v) -> "F:" ^ val_str v

let ov_str (v : byte list option option) : string =
  match v with None | Some None -> "-" | Some v -> val_str v

let split_ws (s : string) : string list =
  List.filter (fun x -> x <> "") (String.split_on_char ' ' s)

(* ---------- trie cases ---------- *)
type tcase = {
  mutable cid : string;
  mutable ropt : raw_opt;
  mutable keys : byte list list;   (* reversed while reading *)
  mutable vals : byte list list;   (* reversed while reading *)
  mutable hasvals : bool;
  mutable nobig : bool;
  mutable built : trie res option;
}

let print_views buf (t : tree) =
  let vs = node_views t in
  let vs = List.sort (fun a b ->
      let ida = (match a with VLeaf (i, _, _) -> int_of_nat i | VInner (i, _, _, _, _, _) -> int_of_nat i) in
      let idb = (match b with VLeaf (i, _, _) -> int_of_nat i | VInner (i, _, _, _, _, _) -> int_of_nat i) in
      compare ida idb) vs in
  List.iter (fun v ->
      match v with
      | VLeaf (id, ord, tail) ->
        Printf.bprintf buf "N %d L %d %s\n" (int_of_nat id) (int_of_nat ord)
          (match tail with None -> "-" | Some t -> hex_of_bytes t)
      | VInner (id, big, step, pfx, fc, labels) ->
        Printf.bprintf buf "N %d I %d %d %s %d %s\n" (int_of_nat id) (if big then 1 else 0)
          (match pfx with None -> int_of_nat step | Some p -> List.length p)
          (match pfx with None -> "-" | Some p -> hex_of_nibs p)
          (int_of_nat fc)
          (String.concat "," (List.map (fun x -> string_of_int (int_of_nat x)) labels)))
    vs

let run_trie_file (inp : in_channel) (out : out_channel) =
  let c = { cid = ""; ropt = { r_dedup = None; r_inner = None; r_leaf = None; r_complete = None };
            keys = []; vals = []; hasvals = false; nobig = false; built = None } in
  let buf = Buffer.create 65536 in
  let pr fmt = Printf.bprintf buf fmt in
  let flush_case () = output_string out (Buffer.contents buf) in
  let get_built () =
    match c.built with
    | Some b -> b
    | None ->
      let o = normalize c.ropt in
      let keys = List.rev c.keys in
      let vals = if c.hasvals then Some (List.rev c.vals) else None in
      let b = build_gen (not c.nobig) o keys vals in
      c.built <- Some b;
      (match b with
       | Err e -> pr "B %s\n" (err_str e)
       | Ok t ->
         pr "B ok\n";
         (match t.t_leaves with
          | None -> pr "LV nil\n"
          | Some ls -> pr "LV %s\n" (String.concat "," (List.map hex_of_bytes ls)));
         (match t.t_root with None -> () | Some r -> print_views buf r));
      b
  in
  let idstr (t : tree option) = match t with None -> -1 | Some t -> int_of_nat (tree_id t) in
  (try
     while true do
       let line = input_line inp in
       match split_ws line with
       | "T" :: cid :: d :: i :: l :: cc :: hv :: rest ->
         c.cid <- cid;
         c.nobig <- List.mem "nobig" rest;
         c.ropt <- { r_dedup = optbool d; r_inner = optbool i; r_leaf = optbool l; r_complete = optbool cc };
         c.keys <- []; c.vals <- []; c.hasvals <- (hv = "1"); c.built <- None;
         Buffer.clear buf;
         Printf.fprintf out "C %s\n" cid
       | "K" :: k :: v :: _ ->
         c.keys <- bytes_of_hex k :: c.keys;
         if c.hasvals then c.vals <- bytes_of_hex v :: c.vals
       | "Q" :: q :: _ ->
         (match get_built () with
          | Err _ -> ()
          | Ok t ->
            let qb = bytes_of_hex q in
            let g = (match getid t qb with None -> -1 | Some i -> int_of_nat i) in
            (* GetID as the id loop of the Go code (Flat.fgetid) must agree with the tree recursion *)
            (* node_at is a linear scan, so the id-loop cross-check is done on small tries only *)
            let small = (match t.t_root with None -> true | Some r -> List.length (node_views r) <= 150) in
            let g = if not small then g else (match fgetid t qb with
                | Ok None -> if g = -1 then g else -777
                | Ok (Some i) -> if int_of_nat i = g then g else -777
                | Err _ -> -778) in
            let gv = found_str (get t qb) in
            let rv = found_str (rangeget t qb) in
            let sv = (match search t qb with
                | Err e -> err_str e
                | Ok ((l, e), r) -> Printf.sprintf "%s %s %s" (ov_str l) (ov_str e) (ov_str r)) in
            let ((il, ie), ir) = searchid t qb in
            (* searchID as id loops (Flat.fsearchid) must agree with the tree recursion *)
            let flat_ok = if not small then true else (match fsearchid t qb with
                | Ok ((fl, fe), fr) ->
                  let oi x = (match x with None -> -1 | Some i -> int_of_nat i) in
                  oi fl = idstr il && oi fe = idstr ie && oi fr = idstr ir
                | Err _ -> false) in
            let il = if flat_ok then il else None in
            let g = if flat_ok then g else -779 in
            pr "q %s G %d %s R %s S %s I %d %d %d\n" q g gv rv sv (idstr il) (idstr ie) (idstr ir))
       | "E" :: _ -> ignore (get_built ()); flush_case ()
       | "L" :: cid :: _ ->
         (* the same trie after Marshal/Unmarshal: the model of a loaded trie is the trie *)
         Printf.fprintf out "C %s+L\n" cid; flush_case ()
       | [] -> ()
       | _ -> failwith ("bad line: " ^ line)
     done
   with End_of_file -> ())

let () =
  match Array.to_list Sys.argv with
  | _ :: "trie" :: infile :: outfile :: _ ->
    let inp = open_in infile in
    let out = open_out outfile in
    run_trie_file inp out; close_out out
  | _ -> prerr_endline "usage: driver <mode> <in> <out>"; exit 2
