(* ArrX_driver.ml - reads the C16 case file written by harness/prop_c16.go, evaluates the
   extracted array model (Arrays.v) and prints the same observables as the harness prints
   for the implementation.  Parsing and printing only: every array operation (building,
   the three accessors, the message round trip through the wire bytes: ser_array32,
   size_array32, parse_array32) is an extracted Coq function.  Wire cases: "M id" + w? lines + "Y"
   is a message given by its fields, "X id hex" an arbitrary byte string. *)
open Arrx

(* ---- number conversion (printing/parsing only) ---- *)
let rec nat_of_int (i : int) : nat = if i <= 0 then O else S (nat_of_int (i - 1))
let int_of_nat (n : nat) : int =
  let rec go n acc = match n with O -> acc | S m -> go m (acc + 1) in go n 0

(* unsigned 64-bit patterns travel as Int64 *)
let rec pos_of_i64 (x : int64) : positive =
  if Int64.equal x 1L then XH
  else if Int64.equal (Int64.logand x 1L) 0L then XO (pos_of_i64 (Int64.shift_right_logical x 1))
  else XI (pos_of_i64 (Int64.shift_right_logical x 1))
let n_of_i64 (x : int64) : n = if Int64.equal x 0L then N0 else Npos (pos_of_i64 x)
let rec i64_of_pos (p : positive) : int64 =
  match p with
  | XH -> 1L
  | XO q -> Int64.shift_left (i64_of_pos q) 1
  | XI q -> Int64.logor (Int64.shift_left (i64_of_pos q) 1) 1L
let i64_of_n (x : n) : int64 = match x with N0 -> 0L | Npos p -> i64_of_pos p

let n_of_int (i : int) : n = n_of_i64 (Int64.of_int i)

(* decimal, possibly negative, magnitude < 2^64 *)
let z_of_string (s : string) : z =
  if s = "0" then Z0
  else if s.[0] = '-' then
    Zneg (pos_of_i64 (Int64.of_string ("0u" ^ String.sub s 1 (String.length s - 1))))
  else Zpos (pos_of_i64 (Int64.of_string ("0u" ^ s)))
let string_of_z (x : z) : string =
  match x with
  | Z0 -> "0"
  | Zpos p -> Printf.sprintf "%Lu" (i64_of_pos p)
  | Zneg p -> "-" ^ Printf.sprintf "%Lu" (i64_of_pos p)

let int_of_byte (b : byte) : int = Int64.to_int (i64_of_n (to_N b))
let hex_of_bytes (l : byte list) : string =
  match l with
  | [] -> "."
  | _ ->
    let buf = Buffer.create 1024 in
    List.iter (fun b -> Buffer.add_string buf (Printf.sprintf "%02x" (int_of_byte b))) l;
    Buffer.contents buf

let split_ws (s : string) : string list =
  List.filter (fun x -> x <> "") (String.split_on_char ' ' s)

(* ---- wire model helpers (printing/parsing only) ---- *)
let byte_of_int (i : int) : byte =
  match of_N (n_of_int i) with Some b -> b | None -> failwith "byte out of range"
let bytes_of_hex (s : string) : byte list =
  if s = "." then []
  else begin
    let n = String.length s / 2 in
    let rec go i acc =
      if i < 0 then acc
      else go (i - 1) (byte_of_int (int_of_string ("0x" ^ String.sub s (2 * i) 2)) :: acc) in
    go (n - 1) []
  end

(* long byte strings are compared by length + FNV-1a 64 (+ the bytes when short), as in the harness *)
let digest (l : byte list) : string =
  let h = ref 0xcbf29ce484222325L in
  let len = ref 0 in
  List.iter (fun b ->
      h := Int64.mul (Int64.logxor !h (Int64.of_int (int_of_byte b))) 0x100000001b3L;
      incr len) l;
  let s = Printf.sprintf "len=%d fnv=%016Lx" !len !h in
  if !len <= 2048 then s ^ " hex=" ^ hex_of_bytes l else s

let n_of_string (s : string) : n = n_of_i64 (Int64.of_string ("0u" ^ s))

let wbits_str (o : wbits option) : string =
  match o with
  | None -> "-"
  | Some b ->
    Printf.sprintf "{flags=%Lu n=%s words=[%s] rank=[%s] unk=%s}" (i64_of_n b.wb_flags) (string_of_z b.wb_n)
      (String.concat "," (List.map (fun w -> Printf.sprintf "%016Lx" (i64_of_n w)) b.wb_words))
      (String.concat "," (List.map string_of_z b.wb_rank))
      (hex_of_bytes b.wb_unk)

let wire_fields (m : warray) : string =
  Printf.sprintf "cnt=%s bm=[%s] off=[%s] elts=%s flags=%Lu ew=%s bme=%s unk=%s"
    (string_of_z m.wa_cnt)
    (String.concat "," (List.map (fun w -> Printf.sprintf "%016Lx" (i64_of_n w)) m.wa_bitmaps))
    (String.concat "," (List.map string_of_z m.wa_offsets))
    (hex_of_bytes m.wa_elts)
    (i64_of_n m.wa_flags) (string_of_z m.wa_eltwidth)
    (wbits_str m.wa_bmelts) (hex_of_bytes m.wa_unk)

(* a message given by its fields: ser_array32, size_array32, parse_array32 of the bytes written *)
let run_wire_msg (id : string) (m : warray) (out : out_channel) =
  let pr fmt = Printf.fprintf out fmt in
  pr "C %s\n" id;
  let buf = ser_array32 m in
  pr "M size=%Lu %s\n" (i64_of_n (size_array32 m)) (digest buf);
  match parse_array32 buf with
  | None -> pr "U err\n"
  | Some m' -> pr "U ok %s\n" (wire_fields m')

(* an arbitrary byte string: parse_array32, the fields, and ser_array32 of the loaded message *)
let run_wire_bytes (id : string) (b : byte list) (out : out_channel) =
  let pr fmt = Printf.fprintf out fmt in
  pr "C %s\n" id;
  match parse_array32 b with
  | None -> pr "U err\n"
  | Some m ->
    pr "U ok %s\n" (wire_fields m);
    pr "M size=%Lu %s\n" (i64_of_n (size_array32 m)) (digest (ser_array32 m))

(* ---- the case ---- *)
let kind_of_name (s : string) : ikind =
  match s with
  | "u8" -> u8 | "u16" -> u16 | "u32" -> u32 | "u64" -> u64
  | "i8" -> i8 | "i16" -> i16 | "i32" -> i32 | "i64" -> i64
  | _ -> failwith ("kind " ^ s)

type case = {
  mutable cid : string;
  mutable kinds : string list;
  mutable idx : z list;
  mutable vals : z list list;
  mutable again : bool;
  mutable idx2 : z list;
  mutable vals2 : z list list;
  mutable probes : z list;
}

let value_of_string (s : string) : z list = List.map z_of_string (String.split_on_char ':' s)
let string_of_value (v : z list) : string = String.concat ":" (List.map string_of_z v)

(* index lists are int32 in Go; the model takes non-negative positions (N).  The harness
   never writes a negative index into an index list. *)
let n_of_z (x : z) : n =
  match x with Z0 -> N0 | Zpos p -> Npos p | Zneg _ -> failwith "negative index in an index list"

let err_str (e : aerr) : string =
  match e with ErrIndexNotAscending -> "err:notasc" | ErrIndexLen -> "err:len"

let fieldline (tag : string) (m : array32) : string =
  Printf.sprintf "F %s cnt=%Lu bm=[%s] off=[%s] elts=%s flags=%Lu ew=%Lu bme=%s" tag
    (i64_of_n m.cnt)
    (String.concat "," (List.map (fun w -> Printf.sprintf "%016Lx" (i64_of_n w)) m.bitmaps))
    (String.concat "," (List.map (fun o -> Printf.sprintf "%Lu" (i64_of_n o)) m.offsets))
    (hex_of_bytes m.elts)
    (i64_of_n m.flags) (i64_of_n m.eltWidth)
    (match m.bMElts with None -> "-" | Some _ -> "set")

let typed_str (r : (z * bool) out) : string =
  match r with
  | Panic -> "PANIC"
  | Val (v, true) -> string_of_z v ^ ",1"
  | Val (v, false) -> string_of_z v ^ ",0"

let generic_str (r : value option out) : string =
  match r with
  | Panic -> "PANIC"
  | Val None -> "nil,0"
  | Val (Some v) -> string_of_value v ^ ",1"

let raw_str (r : byte list option out) : string =
  match r with
  | Panic -> "PANIC"
  | Val None -> "nil,0"
  | Val (Some b) -> hex_of_bytes b ^ ",1"

(* an observed array: its tag, whether its Go type is a typed array, and the model value *)
type obs = { tag : string; is_typed : bool; b : base }

let run_case (c : case) (out : out_channel) =
  let pr fmt = Printf.fprintf out fmt in
  pr "C %s\n" c.cid;
  let kinds = List.map kind_of_name c.kinds in
  let typed_kind =
    match c.kinds with
    | [ ("u16" | "u32" | "u64" | "i16" | "i32" | "i64") ] -> Some (List.hd kinds)
    | _ -> None in
  let custom = (c.kinds = [ "u16"; "i32"; "u8" ]) in     (* type s3: hand-written encoder *)
  let idx = List.map n_of_z c.idx in
  let obs = ref [] in
  let add o = obs := !obs @ [ o ] in
  (* build: typed, then generic *)
  let tb =
    match typed_kind with
    | None -> None
    | Some k ->
      let zs = List.map (fun v -> match v with [ z ] -> z | _ -> failwith "scalar expected") c.vals in
      (match new_typed k idx zs with
       | Panic -> pr "B t PANIC\n"; None
       | Val (Rejected e) -> pr "B t %s\n" (err_str e); None
       | Val (Built b) -> pr "B t ok\n"; add { tag = "t"; is_typed = true; b }; Some b) in
  let gb =
    let r = if custom then new_with_encoder kinds idx c.vals else new_generic kinds idx c.vals in
    (match r with
     | Panic -> pr "B g PANIC\n"; None
     | Val (Rejected e) -> pr "B g %s\n" (err_str e); None
     | Val (Built b) -> pr "B g ok\n"; add { tag = "g"; is_typed = false; b }; Some b) in
  (* the wire bytes of the built arrays: ser_array32 of the message fields, and size_array32 *)
  let wire_line tag (src : base) =
    let buf = marshal_array src in
    pr "M %s size=%Lu %s\n" tag (i64_of_n (size_array32 (wire_of_array32 (to_msg src)))) (digest buf);
    buf in
  let tbuf = match tb with Some b -> Some (wire_line "t" b) | None -> None in
  let gbuf = match gb with Some b -> Some (wire_line "g" b) | None -> None in
  (* serialization round trips THROUGH THE BYTES: marshal_array, then parse_array32 into
     the typed / the generic array type *)
  let reload tag (buf : byte list option) into_typed =
    match buf with
    | None -> ()
    | Some buf ->
      (match (if into_typed then unmarshal_typed buf else unmarshal_generic kinds buf) with
       | None -> pr "R %s unmarshal-error\n" tag
       | Some b ->
         pr "R %s ok\n" tag;
         add { tag; is_typed = into_typed; b }) in
  (match tb with Some _ -> reload "tt" tbuf true; reload "tg" tbuf false | None -> ());
  (match gb with
   | Some _ -> (if typed_kind <> None then reload "gt" gbuf true); reload "gg" gbuf false
   | None -> ());
  let width = enc_size kinds in
  List.iter (fun o ->
      pr "%s\n" (fieldline o.tag o.b.arr);
      List.iter (fun p ->
          let ty =
            if o.is_typed then
              (match typed_kind with
               | Some k -> typed_str (probe (typed_get k o.b.arr) p)
               | None -> failwith "typed array without kind")
            else "-" in
          let ge = generic_str (probe (base_get o.b) p) in
          let ra = raw_str (probe (fun i -> get_bytes o.b.arr i width) p) in
          pr "Q %s %s %s %s %s\n" o.tag (string_of_z p) ty ge ra)
        c.probes)
    !obs;
  (* second Init on the built arrays *)
  if c.again then begin
    let idx2 = List.map n_of_z c.idx2 in
    List.iter (fun o ->
        if o.tag = "t" || o.tag = "g" then begin
          let r = if o.is_typed then base_init o.b kinds idx2 c.vals2
            else array_init o.b kinds idx2 c.vals2 in
          match r with
          | Panic -> pr "B %s2 PANIC\n" o.tag
          | Val (b', e) ->
            pr "B %s2 %s\n" o.tag (match e with None -> "ok" | Some e -> err_str e);
            pr "%s\n" (fieldline (o.tag ^ "2") b'.arr)
        end)
      !obs
  end

let () =
  let mode = Sys.argv.(1) in
  if mode <> "arr" then failwith ("unknown mode " ^ mode);
  let inp = open_in Sys.argv.(2) in
  let out = open_out Sys.argv.(3) in
  let fresh () = { cid = ""; kinds = []; idx = []; vals = []; again = false; idx2 = []; vals2 = []; probes = [] } in
  let c = ref (fresh ()) in
  (* a wire message under construction *)
  let empty_w = { wa_cnt = Z0; wa_bitmaps = []; wa_offsets = []; wa_elts = []; wa_flags = N0;
                  wa_eltwidth = Z0; wa_bmelts = None; wa_unk = [] } in
  let wid = ref "" in
  let wm = ref empty_w in
  let with_bits f =
    match !wm.wa_bmelts with
    | Some b -> wm := { !wm with wa_bmelts = Some (f b) }
    | None -> failwith "Bits line without wm" in
  let rest line = (* the tokens after the one-letter tag *)
    match split_ws line with _ :: r -> r | [] -> [] in
  (try
     while true do
       let line = input_line inp in
       if line <> "" then
         match line.[0] with
         | 'A' ->
           (match split_ws line with
            | _ :: cid :: ks :: _ ->
              c := fresh ();
              !c.cid <- cid;
              !c.kinds <- String.split_on_char ',' ks
            | _ -> failwith "bad A line")
         | 'I' -> !c.idx <- List.map z_of_string (rest line)
         | 'V' -> !c.vals <- List.map value_of_string (rest line)
         | 'J' -> !c.again <- true; !c.idx2 <- List.map z_of_string (rest line)
         | 'W' -> !c.vals2 <- List.map value_of_string (rest line)
         | 'P' -> !c.probes <- List.map z_of_string (rest line)
         | 'E' -> run_case !c out
         | 'M' -> (match split_ws line with
             | _ :: id :: _ -> wid := id; wm := empty_w
             | _ -> failwith "bad M line")
         | 'w' ->
           let r = rest line in
           (match line.[1] with
            | 'c' -> (match r with
                | [ a; b; c ] -> wm := { !wm with wa_cnt = z_of_string a; wa_flags = n_of_string b; wa_eltwidth = z_of_string c }
                | _ -> failwith "bad wc line")
            | 'b' -> wm := { !wm with wa_bitmaps = List.map n_of_string r }
            | 'o' -> wm := { !wm with wa_offsets = List.map z_of_string r }
            | 'e' -> wm := { !wm with wa_elts = bytes_of_hex (List.hd r) }
            | 'u' -> wm := { !wm with wa_unk = bytes_of_hex (List.hd r) }
            | 'm' -> (match r with
                | [ "-" ] -> wm := { !wm with wa_bmelts = None }
                | [ a; b ] -> wm := { !wm with wa_bmelts =
                                                 Some { wb_flags = n_of_string a; wb_n = z_of_string b; wb_words = []; wb_rank = []; wb_unk = [] } }
                | _ -> failwith "bad wm line")
            | 'w' -> with_bits (fun b -> { b with wb_words = List.map n_of_string r })
            | 'r' -> with_bits (fun b -> { b with wb_rank = List.map z_of_string r })
            | 'x' -> with_bits (fun b -> { b with wb_unk = bytes_of_hex (List.hd r) })
            | _ -> failwith ("bad line " ^ line))
         | 'Y' -> run_wire_msg !wid !wm out
         | 'X' -> (match split_ws line with
             | [ _; id; hex ] -> run_wire_bytes id (bytes_of_hex hex) out
             | _ -> failwith "bad X line")
         | _ -> failwith ("bad line " ^ line)
     done
   with End_of_file -> ());
  close_out out
