(* Extraction for C06d (mode "c06d"): the 0.5.10 / 0.5.11 message of a trie
   [Legacy510.encode_0510], the loader's conversion [Legacy510.load510], today's message
   [Bits.encode_trie] and the queries over a message (Msg.v).  ExtrOcamlBasic only. *)
From Coq Require Import Extraction ExtrOcamlBasic.
From Coq Require Import NArith ZArith.
From Coq.Strings Require Import Byte.
From Slim Require Import Base Keys Model BitmapRank BitmapRank2 Bits Msg Legacy510.
Extraction Language OCaml.
Extraction "legacy510x.ml"
  Byte.of_N Byte.to_N N.of_nat N.to_nat N.add N.mul
  Model.normalize Model.build
  Bits.encode_trie Bits.init_vars Bits.node_count
  Msg.mgetid Msg.mget Msg.msearchid Msg.msearch Msg.mrangeget
  Legacy510.encode_0510 Legacy510.parse510 Legacy510.load510.
