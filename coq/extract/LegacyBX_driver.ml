(* LegacyBX_driver.ml - reads the C06e case file, evaluates the extracted
   write_stream / arrays_of_stream / old_of_arrays / load_stream and prints the stream
   bytes, the old node table read from the REAL stream bytes and the node view loaded
   from them, in the format of harness/prop_c06e.go.  Parsing and printing only. *)
open Legacybx

let rec nat_of_int (i : int) : nat = if i <= 0 then O else S (nat_of_int (i - 1))
let int_of_nat (n : nat) : int =
  let rec go n acc = match n with O -> acc | S m -> go m (acc + 1) in go n 0
let rec pos_of_int (i : int) : positive =
  if i = 1 then XH else if i land 1 = 0 then XO (pos_of_int (i lsr 1)) else XI (pos_of_int (i lsr 1))
let n_of_int (i : int) : n = if i = 0 then N0 else Npos (pos_of_int i)
let rec int_of_pos (p : positive) : int =
  match p with XH -> 1 | XO q -> 2 * int_of_pos q | XI q -> 2 * int_of_pos q + 1
let int_of_n (x : n) : int = match x with N0 -> 0 | Npos p -> int_of_pos p

let byte_tab : byte array =
  Array.init 256 (fun i -> match of_N0 (n_of_int i) with Some b -> b | None -> failwith "byte")
let byte_of_int i = byte_tab.(i)
let int_of_byte (b : byte) : int = int_of_n (to_N0 b)

let hexval c =
  match c with
  | '0' .. '9' -> Char.code c - 48
  | 'a' .. 'f' -> Char.code c - 87
  | 'A' .. 'F' -> Char.code c - 55
  | _ -> failwith "hex"

let bytes_of_hex (s : string) : byte list =
  if s = "." then [] else begin
    let n = String.length s / 2 in
    let rec go i acc = if i < 0 then acc
      else go (i - 1) (byte_of_int (hexval s.[2*i] * 16 + hexval s.[2*i+1]) :: acc) in
    go (n - 1) []
  end

let hex_of_bytes (l : byte list) : string =
  match l with
  | [] -> "."
  | _ ->
    let b = Buffer.create 64 in
    List.iter (fun x -> Buffer.add_string b (Printf.sprintf "%02x" (int_of_byte x))) l;
    Buffer.contents b

let err_str (e : err) : string =
  match e with
  | EOutOfOrder i -> Printf.sprintf "err:order:%d" (int_of_nat i)
  | EStepTooLong -> "err:step"
  | EPanic c -> Printf.sprintf "PANIC:%d" (int_of_nat c)
  | EFuel -> "FUEL"

let stage_str (s : stage) : string =
  match s with
  | SHeader -> "header" | SInner -> "inner" | SChildren -> "children" | SSteps -> "steps"
  | SLeaves -> "leaves"
let cause_str (c : cause) : string =
  match c with
  | CEOF -> "eof" | CUnexpectedEOF -> "unexpected-eof" | CHeaderSize -> "header-size"
  | CProto -> "proto"

let lerr_str (e : lerr) : string =
  match e with
  | LPanic s -> Printf.sprintf "PANIC:%d" (int_of_nat s)
  | LOutside w -> Printf.sprintf "OUTSIDE:%d" (int_of_nat w)
  | LRead (s, c) -> Printf.sprintf "err:read:%s:%s" (stage_str s) (cause_str c)
  | LReadPanic -> "PANIC:makeslice"
  | LConv e -> err_str e

let split_ws (s : string) : string list =
  List.filter (fun x -> x <> "") (String.split_on_char ' ' s)

let csv (l : nat list) : string =
  match l with
  | [] -> "-"
  | _ -> String.concat "," (List.map (fun x -> string_of_int (int_of_nat x)) l)

let four : nat = nat_of_int 4

let print_views out views leaves =
  (match leaves with
   | None -> Printf.fprintf out "LV nil\n"
   | Some lv -> Printf.fprintf out "LV %s\n" (String.concat "," (List.map hex_of_bytes lv)));
  List.iter (fun v ->
      match v with
      | VLeaf (id, ord, tail) ->
        Printf.fprintf out "N %d L %d %s\n" (int_of_nat id) (int_of_nat ord)
          (match tail with None -> "-" | Some t -> hex_of_bytes t)
      | VInner (id, big, step, pfx, fc, labels) ->
        Printf.fprintf out "N %d I %d %d %s %d %s\n" (int_of_nat id) (if big then 1 else 0)
          (int_of_nat step)
          (match pfx with None -> "-" | Some _ -> "?")
          (int_of_nat fc)
          (String.concat "," (List.map (fun x -> string_of_int (int_of_nat x)) labels)))
    views

let run_case out cid (lay : layout) keys vals (stream : byte list option) =
  Printf.fprintf out "C %s\n" cid;
  (* 1. the bytes the model's old writer produces *)
  (match write_stream lay keys vals with
   | LErr e -> Printf.fprintf out "B %s\n" (lerr_str e)
   | LOk b -> Printf.fprintf out "B %s\n" (hex_of_bytes b));
  (* 2. the model's reader on the REAL bytes *)
  match stream with
  | None -> ()
  | Some b ->
    (match arrays_of_stream b with
     | LErr e -> Printf.fprintf out "A %s\n" (lerr_str e)
     | LOk ((ch, st), lv) ->
       Printf.fprintf out "A ok\n";
       (match old_of_arrays four ch st lv with
        | LErr e -> Printf.fprintf out "W %s\n" (lerr_str e)
        | LOk (ot, lvals) ->
          let lv_arr = Array.of_list lvals in
          Printf.fprintf out "W ok %d\n" (List.length ot);
          List.iteri (fun i nd ->
              Printf.fprintf out "O %d %s %d %s\n" i (csv nd.on_bm) (int_of_nat nd.on_step)
                (match nd.on_leaf with
                 | None -> "-"
                 | Some k -> hex_of_bytes lv_arr.(int_of_nat k)))
            ot));
    (match load_stream four b with
     | LErr e -> Printf.fprintf out "V %s\n" (lerr_str e)
     | LOk (views, leaves) ->
       Printf.fprintf out "V ok\n";
       print_views out views leaves)

let run_file (inp : in_channel) (out : out_channel) =
  let lays = Array.of_list layouts in
  let cid = ref "" and lay = ref lays.(0) and keys = ref [] and vals = ref [] and stream = ref None in
  (try
     while true do
       let line = input_line inp in
       match split_ws line with
       | "T" :: id :: l :: _ ->
         cid := id; lay := lays.(int_of_string l); keys := []; vals := []; stream := None
       | "K" :: k :: v :: _ -> keys := bytes_of_hex k :: !keys; vals := bytes_of_hex v :: !vals
       | "S" :: s :: _ -> stream := if s = "-" then None else Some (bytes_of_hex s)
       | "E" :: _ -> run_case out !cid !lay (List.rev !keys) (List.rev !vals) !stream
       | [] -> ()
       | _ -> failwith ("bad line: " ^ (if String.length line > 60 then String.sub line 0 60 else line))
     done
   with End_of_file -> ())

let () =
  match Array.to_list Sys.argv with
  | _ :: "bytes" :: infile :: outfile :: _ ->
    let inp = open_in infile in
    let out = open_out outfile in
    run_file inp out; close_out out
  | _ -> prerr_endline "usage: driver bytes <in> <out>"; exit 2
