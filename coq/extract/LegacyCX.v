(* Extraction for C06c (mode "conv"): the reference legacy writer [old_write], the old
   first-child numbering and the loader's conversion [convert].  ExtrOcamlBasic only. *)
From Coq Require Import Extraction ExtrOcamlBasic.
From Slim Require Import Base Keys Model LegacyConv.
Extraction Language OCaml.
Extraction "legacycx.ml"
  Byte.of_N Byte.to_N N.of_nat N.to_nat
  LegacyConv.old_write LegacyConv.old_first_children LegacyConv.convert LegacyConv.loaded_leaves.
