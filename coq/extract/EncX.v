(* Extraction of the executable encoder model (C15).  ExtrOcamlBasic only: bool,
   option, unit, list, prod, sumbool, sumor map to OCaml's; nat, N, Z, positive,
   byte, ascii, string stay the Coq inductives.  No Extract Constant of our own.
   g_int_codecs is the codec table regenerated from the Go source; the driver
   resolves codec names through find_src_codec / codec_of_src. *)
From Coq Require Import Extraction ExtrOcamlBasic.
From Coq.Strings Require Import Byte.
From Slim Require Import Encoders.
From SlimGen Require Import Gen_IntCodecs.
Extraction Language OCaml.
Extraction "encx.ml"
  Byte.of_N Byte.to_N
  Encoders.enc_encode Encoders.enc_decode Encoders.enc_get_size Encoders.enc_get_encoded_size
  Encoders.find_src_codec Encoders.codec_of_src
  Gen_IntCodecs.g_int_codecs Gen_IntCodecs.g_uintsize.
