(* Extraction of the Stat / String models (C18, C19).  ExtrOcamlBasic only:
   nat, N, positive, byte stay the Coq inductives; the driver converts. *)
From Coq Require Import Extraction ExtrOcamlBasic.
From Slim Require Import Base Keys Model Stat Str.
Extraction Language OCaml.
Extraction "statx.ml"
  Byte.of_N Byte.to_N N.of_nat N.to_nat
  Model.normalize Model.build
  Stat.levels Stat.stat Stat.levels_walk
  Str.render.
