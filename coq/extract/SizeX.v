(* Extraction of the size model (C17): build a filter-mode trie from keys and lay
   out the Slim message of creator.build.  ExtrOcamlBasic only. *)
From Coq Require Import Extraction ExtrOcamlBasic.
From Slim Require Import Base Keys Model Varint Proto Size SizeBitsCheck.
Extraction Language OCaml.
Extraction "sizemodel.ml"
  Byte.of_N Byte.to_N N.of_nat N.to_nat List.app
  Model.normalize Model.build
  Size.encode_trie Size.marshal_size Proto.size_slim
  SizeBitsCheck.same_bytes_with SizeBitsCheck.models_same_bytes.
