(* Extraction of the executable model.  ExtrOcamlBasic only: bool, option, unit,
   list, prod, sumbool, sumor map to OCaml's (plus its inlined andb/orb/negb/fst/snd);
   nat, N, Z, positive, byte stay the Coq inductives.  No Extract Constant of our own.
   Run coqc from the directory that should receive model.ml / model.mli. *)
From Coq Require Import Extraction ExtrOcamlBasic.
From Slim Require Import Base Keys Model Flat.
Extraction Language OCaml.
Extraction "model.ml"
  Byte.of_N Byte.to_N N.of_nat N.to_nat
  Keys.nibs Keys.bytes_cmp
  Model.normalize Model.build Model.build_gen Model.getid Model.get Model.rangeget Model.search Model.searchid
  Model.node_views Model.tree_id Flat.fgetid Flat.fsearchid.
