(* BitsX_driver.ml - reads the case file written by harness/prop_l3.go, evaluates the
   extracted bit-level model, prints one canonical observable per line.  Parsing and printing
   only; every computation is an extracted Coq function. *)
open Bitsx
(* the extracted code defines the Coq inductive [string] (version constants); the driver means OCaml's *)
type string = Stdlib.String.t

let rec nat_of_int (i : int) : nat = if i <= 0 then O else S (nat_of_int (i - 1))
let int_of_nat (n : nat) : int =
  let rec go n acc = match n with O -> acc | S m -> go m (acc + 1) in go n 0

let rec pos_of_int (i : int) : positive =
  if i = 1 then XH else if i land 1 = 0 then XO (pos_of_int (i lsr 1)) else XI (pos_of_int (i lsr 1))
let n_of_int (i : int) : n = if i <= 0 then N0 else Npos (pos_of_int i)
let rec int_of_pos (p : positive) : int =
  match p with XH -> 1 | XO q -> 2 * int_of_pos q | XI q -> 2 * int_of_pos q + 1
let int_of_n (x : n) : int = match x with N0 -> 0 | Npos p -> int_of_pos p

let byte_tab : byte array =
  Array.init 256 (fun i -> match of_N (n_of_int i) with Some b -> b | None -> failwith "byte")
let byte_of_int i = byte_tab.(i)
let int_of_byte (b : byte) : int = int_of_n (to_N b)

let hexval c =
  match c with
  | '0' .. '9' -> Char.code c - 48
  | 'a' .. 'f' -> Char.code c - 87
  | 'A' .. 'F' -> Char.code c - 55
  | _ -> failwith "hex"

(* 64-bit words do not fit an OCaml int: digit by digit with the extracted N.add / N.mul *)
let n16 = n_of_int 16
let n_of_hex (s : string) : n =
  let acc = ref N0 in
  String.iter (fun c -> acc := N.add (N.mul !acc n16) (n_of_int (hexval c))) s;
  !acc

let hex_of_n (x : n) : string =
  match x with
  | N0 -> "0"
  | Npos p ->
    let rec bits p acc = match p with
      | XH -> 1 :: acc
      | XO q -> bits q (0 :: acc)
      | XI q -> bits q (1 :: acc) in
    (* msb first *)
    let b = bits p [] in
    let b = List.rev b in (* lsb first *)
    let rec groups l acc = match l with
      | [] -> acc
      | a :: [] -> (a) :: acc
      | a :: b :: [] -> (a + 2*b) :: acc
      | a :: b :: c :: [] -> (a + 2*b + 4*c) :: acc
      | a :: b :: c :: d :: r -> groups r ((a + 2*b + 4*c + 8*d) :: acc) in
    String.concat "" (List.map (fun d -> Printf.sprintf "%x" d) (groups b []))

let bytes_of_hex (s : string) : byte list =
  if s = "." then [] else begin
    let n = String.length s / 2 in
    let rec go i acc = if i < 0 then acc
      else go (i - 1) (byte_of_int (hexval s.[2*i] * 16 + hexval s.[2*i+1]) :: acc) in
    go (n - 1) []
  end

let hex_of_bytes (l : byte list) : string =
  match l with
  | [] -> "."
  | _ ->
    let b = Buffer.create 64 in
    List.iter (fun x -> Printf.bprintf b "%02x" (int_of_byte x)) l;
    Buffer.contents b

let hex_of_nibs (l : nat list) : string =
  match l with
  | [] -> "."
  | _ -> String.concat "" (List.map (fun x -> Printf.sprintf "%x" (int_of_nat x)) l)

let optbool s = match s with "-" -> None | "1" -> Some true | "0" -> Some false | _ -> failwith "optbool"

let err_str (e : err) : string =
  match e with
  | EOutOfOrder i -> Printf.sprintf "err:order:%d" (int_of_nat i)
  | EStepTooLong -> "err:step"
  | EPanic _ -> "PANIC"
  | EFuel -> "FUEL"

let split_ws (s : string) : string list =
  List.filter (fun x -> x <> "") (String.split_on_char ' ' s)

let split_comma (s : string) : string list =
  if s = "-" || s = "" then [] else String.split_on_char ',' s

let words_of_str (s : string) : n list = List.map n_of_hex (split_comma s)
let ints_of_str (s : string) : n list = List.map (fun x -> n_of_int (int_of_string x)) (split_comma s)

let str_of_words (l : n list) : string =
  match l with [] -> "-" | _ -> String.concat "," (List.map hex_of_n l)
let str_of_ints (l : n list) : string =
  match l with [] -> "-" | _ -> String.concat "," (List.map (fun x -> string_of_int (int_of_n x)) l)

(* ---------- printing a message ---------- *)
let pr_bm buf name (b : bitmap option) =
  match b with
  | None -> Printf.bprintf buf "BM %s nil\n" name
  | Some b -> Printf.bprintf buf "BM %s W %s R %s S %s\n" name (str_of_words b.b_words) (str_of_ints b.b_rank) (str_of_ints b.b_sel)

let pr_vl buf name (v : vlen option) =
  match v with
  | None -> Printf.bprintf buf "VL %s nil\n" name
  | Some v ->
    Printf.bprintf buf "VL %s %d %d %d %s\n" name (int_of_n v.v_n) (int_of_n v.v_eltcnt) (int_of_n v.v_fixed) (hex_of_bytes v.v_bytes);
    pr_bm buf (name ^ ".presence") v.v_presence;
    pr_bm buf (name ^ ".position") v.v_position

let pr_msg buf (m : msg) =
  Printf.bprintf buf "S %d %d\n" (int_of_n m.m_bigcnt) (int_of_n m.m_shortsize);
  Printf.bprintf buf "ST %s\n" (str_of_ints m.m_shorttable);
  pr_bm buf "nodetype" m.m_nodetype;
  pr_bm buf "inners" m.m_inners;
  pr_bm buf "shortbm" m.m_shortbm;
  pr_vl buf "innerpfx" m.m_innerpfx;
  pr_vl buf "leafpfx" m.m_leafpfx;
  pr_vl buf "leaves" m.m_leaves

(* ---------- parsing a message (the lines between M and EM) ---------- *)
let parse_bm (toks : string list) : bitmap option =
  match toks with
  | [ "nil" ] -> None
  | [ "W"; w; "R"; r; "S"; s ] -> Some { b_words = words_of_str w; b_rank = ints_of_str r; b_sel = ints_of_str s }
  | _ -> failwith "bad BM line"

type pvl = { mutable hdr : (int * int * int * string) option; mutable pres : bitmap option; mutable posi : bitmap option }

let parse_msg (lines : string list) : msg =
  let big = ref 0 and short = ref 0 and table = ref [] in
  let bms : (string, bitmap option) Hashtbl.t = Hashtbl.create 16 in
  let vls : (string, pvl) Hashtbl.t = Hashtbl.create 4 in
  List.iter (fun line ->
      match split_ws line with
      | [ "S"; b; s ] -> big := int_of_string b; short := int_of_string s
      | [ "ST"; t ] -> table := ints_of_str t
      | "BM" :: name :: rest -> Hashtbl.replace bms name (parse_bm rest)
      | [ "VL"; name; "nil" ] -> Hashtbl.replace vls name { hdr = None; pres = None; posi = None }
      | [ "VL"; name; n; e; f; by ] ->
        Hashtbl.replace vls name { hdr = Some (int_of_string n, int_of_string e, int_of_string f, by); pres = None; posi = None }
      | [] -> ()
      | _ -> failwith ("bad message line: " ^ line)) lines;
  let bm name = try Hashtbl.find bms name with Not_found -> None in
  let vl name =
    match (try (Hashtbl.find vls name).hdr with Not_found -> None) with
    | None -> None
    | Some (n, e, f, by) ->
      Some { v_n = n_of_int n; v_eltcnt = n_of_int e; v_presence = bm (name ^ ".presence");
             v_position = bm (name ^ ".position"); v_fixed = n_of_int f; v_bytes = bytes_of_hex by } in
  { m_bigcnt = n_of_int !big; m_shortsize = n_of_int !short; m_nodetype = bm "nodetype";
    m_inners = bm "inners"; m_shortbm = bm "shortbm"; m_shorttable = !table;
    m_innerpfx = vl "innerpfx"; m_leafpfx = vl "leafpfx"; m_leaves = vl "leaves" }

(* ---------- the decoder on a message: DumpView's format ---------- *)
exception Model_panic

let unval (o : 'a out) : 'a = match o with Val a -> a | Panic -> raise Model_panic

let pr_view buf (v : nview) =
  match v with
  | VLeaf (id, ord, tail) ->
    Printf.bprintf buf "N %d L %d %s\n" (int_of_nat id) (int_of_nat ord)
      (match tail with None -> "-" | Some t -> hex_of_bytes t)
  | VInner (id, big, step, pfx, fc, labels) ->
    Printf.bprintf buf "N %d I %d %d %s %d %s\n" (int_of_nat id) (if big then 1 else 0)
      (match pfx with None -> int_of_nat step | Some p -> List.length p)
      (match pfx with None -> "-" | Some p -> hex_of_nibs p)
      (int_of_nat fc)
      (String.concat "," (List.map (fun x -> string_of_int (int_of_nat x)) labels))

let decode_msg (m : msg) : string =
  let buf = Buffer.create 65536 in
  try
    let n = int_of_n (node_count m) in
    let views =
      if n = 0 then [] else begin
        let vs = unval (init_vars m) in
        List.init n (fun id -> unval (get_view m vs (n_of_int id)))
      end in
    (* the leaves, placed by leaf ordinal as DumpView does *)
    (match m.m_leaves with
     | None -> Buffer.add_string buf "LV nil\n"
     | Some _ ->
       let leaves = ref [||] in
       let any = ref false in
       List.iter (fun v ->
           match v with
           | VLeaf (_, ord, _) ->
             let i = int_of_nat ord in
             any := true;
             if i >= Array.length !leaves then
               leaves := Array.append !leaves (Array.make (i + 1 - Array.length !leaves) "?");
             (match unval (ith_leaf_bytes m (n_of_int i)) with
              | Some b -> !leaves.(i) <- hex_of_bytes b
              | None -> ())
           | _ -> ()) views;
       if !any then Printf.bprintf buf "LV %s\n" (String.concat "," (Array.to_list !leaves))
       else Buffer.add_string buf "LV nil\n");
    List.iter (pr_view buf) views;
    Buffer.contents buf
  with Model_panic -> "DUMP PANIC\n"

(* ---------- function-level cases ---------- *)
let out_pair (o : (n * n) out) : string =
  match o with Val (a, b) -> Printf.sprintf "%d %d" (int_of_n a) (int_of_n b) | Panic -> "PANIC"

let run_fn (out : out_channel) (toks : string list) =
  match toks with
  | [ "words"; w; "P"; probes ] ->
    let ws = words_of_str w in
    let r64 = index_rank64 ws N0 in
    let r64t = index_rank64_t ws N0 in
    let r128 = index_rank128 ws N0 in
    let sidx = index_select32 ws in
    Printf.fprintf out "r64 %s\nr64t %s\nr128 %s\ns32 %s\ns32r %s\n" (str_of_ints r64) (str_of_ints r64t)
      (str_of_ints r128) (str_of_ints sidx) (str_of_ints r64t);
    let arr = to_array ws in
    Printf.fprintf out "toarray %s\n" (str_of_ints arr);
    List.iter (fun p ->
        let i = n_of_int (int_of_string p) in
        Printf.fprintf out "rank %s : %s : %s\n" p (out_pair (rank64 ws r64 i)) (out_pair (rank128 ws r128 i)))
      (split_comma probes);
    let ones = List.length arr in
    for i = 0 to ones do
      Printf.fprintf out "select %d : %s\n" i (out_pair (select32_r64 ws sidx r64t (n_of_int i)))
    done
  | [ "slice"; w; from; to_ ] ->
    let ws = words_of_str w in
    let f = int_of_string from and t = int_of_string to_ in
    (match get_bits ws (n_of_int f) (nat_of_int (t - f)) with
     | Panic -> Printf.fprintf out "slice PANIC\n"
     | Val l -> Printf.fprintf out "slice %s\n" (str_of_ints (true_pos l N0)))
  | [ "of"; ps; cap ] ->
    (match of_cap (ints_of_str ps) (n_of_int (int_of_string cap)) with
     | Panic -> Printf.fprintf out "of PANIC\n"
     | Val ws -> Printf.fprintf out "of %s\n" (str_of_words ws))
  | "ofmany" :: parts ->
    let segs = List.map (fun p ->
        match String.split_on_char ':' p with
        | [ sz; sub ] -> (ints_of_str sub, n_of_int (int_of_string sz))
        | _ -> failwith "bad ofmany part") parts in
    (match of_many segs with
     | Panic -> Printf.fprintf out "ofmany PANIC\n"
     | Val ws -> Printf.fprintf out "ofmany %s\n" (str_of_words ws))
  | [ "bitstr"; nibs ] ->
    let p = List.init (String.length nibs) (fun i -> nat_of_int (hexval nibs.[i])) in
    let bs = bitstr_of_nibs p in
    (match bitstr_len bs with
     | Panic -> Printf.fprintf out "bitstr PANIC\n"
     | Val l -> Printf.fprintf out "bitstr %s %d\n" (hex_of_bytes bs) (int_of_n l))
  | [ "pathidx"; paths ] ->
    Printf.fprintf out "pathidx %s\n"
      (String.concat "," (List.map (fun p -> string_of_int (int_of_n (path_to_index (n_of_hex p)))) (split_comma paths)))
  | [ "decode"; sz; w ] ->
    let ws = words_of_str w in
    let size = int_of_string sz in
    let h = n_of_int (if size = 257 then 8 else 4) in
    let idxs = set_bits_below ws (n_of_int size) in
    Printf.fprintf out "decode %s\n" (str_of_words (List.map (index_to_path h) idxs))
  | _ -> failwith ("bad F line: " ^ String.concat " " toks)

(* ---------- C04m: the scan APIs run over the message fields (MS lines) ----------
   ScanMsg.miter_all / mscan_from / mscan_from_to on the last parsed message; printed in the
   format of harness/prop_c04.go (c04Op.head / c04Res.text) *)
let ms_val_str (v : byte list option) : string = match v with None -> "nil" | Some b -> hex_of_bytes b
let ms_item_str ((k, v) : byte list * byte list option) : string = hex_of_bytes k ^ ":" ^ ms_val_str v
let ms_items_str l = String.concat " " (List.map ms_item_str l)
let ms_flag s = (s = "1")
let ms_callback s = if s = "-" then never_stop else stop_at (nat_of_int (int_of_string s))

let run_ms (out : out_channel) (lm : msg option) (toks : string list) =
  match lm with
  | None -> failwith "MS without message"
  | Some m ->
    let r =
      match init_vars m with
      | Panic -> "PANIC"
      | Val vs ->
        (* walk fuel: any bound >= the height; call budget: any bound > the number of leaves *)
        let fuel = nat_of_int (int_of_n (node_count m) + 2) in
        (match toks with
         | [ "I"; s; incl; wv ] ->
           (match miter_all fuel fuel m vs (bytes_of_hex s) (ms_flag incl) (ms_flag wv) (nat_of_int 3) with
            | Err e -> err_str e
            | Ok (xs, more) ->
              Printf.sprintf "%s | %s" (ms_items_str xs)
                (String.concat " " (List.map (fun o -> match o with None -> "nil" | Some x -> ms_item_str x) more)))
         | [ "S"; s; incl; wv; stop ] ->
           (match mscan_from fuel fuel m vs (bytes_of_hex s) (ms_flag incl) (ms_flag wv) (ms_callback stop) with
            | Err e -> err_str e
            | Ok xs -> ms_items_str xs)
         | [ "R"; s; incl; e; incle; wv; stop ] ->
           (match mscan_from_to fuel fuel m vs (bytes_of_hex s) (ms_flag incl) (bytes_of_hex e) (ms_flag incle) (ms_flag wv) (ms_callback stop) with
            | Err e -> err_str e
            | Ok xs -> ms_items_str xs)
         | _ -> failwith ("bad MS line: " ^ String.concat " " toks)) in
    Printf.fprintf out "s %s = %s\n" (String.concat " " toks) r

(* ---------- C18/C19: initLevels / Stat / String run over the message fields (MT lines) ----------
   StatMsg.minit_levels / mstat / mrender on the last parsed message; the level table and the
   Stat() fields in the format of harness/prop_c18.go, the String() lines in the format of
   harness/prop_c19.go (c19Obs.write) *)
let mt_bits_str (b : bool list) : string =
  match b with
  | [] -> "e"
  | _ -> String.concat "" (List.map (fun x -> if x then "1" else "0") b)

let run_mt (out : out_channel) (lm : msg option) =
  match lm with
  | None -> failwith "MT without message"
  | Some m ->
    let lv = minit_levels m in
    let trip ((t, i), l) = Printf.sprintf "%d,%d,%d" (int_of_nat t) (int_of_nat i) (int_of_nat l) in
    (match lv, mstat m lv with
     | Ok ls, Ok s ->
       Printf.fprintf out "t %s | %d %d %d\n" (String.concat " " (List.map trip ls))
         (int_of_nat s.st_keycnt) (int_of_nat s.st_nodecnt) (int_of_nat s.st_levelcnt)
     | Err e, _ | _, Err e -> Printf.fprintf out "t %s\n" (err_str e));
    (match init_vars m with
     | Panic -> if int_of_n (node_count m) = 0 then () else Printf.fprintf out "R PANIC\n"
     | Val vs ->
       let fuel = nat_of_int (int_of_n (node_count m) + 2) in
       (match mrender fuel m vs with
        | Err e -> Printf.fprintf out "R %s\n" (err_str e)
        | Ok ls ->
          List.iter (fun l ->
              Printf.fprintf out "R %d %s %d %d %d %s\n" (int_of_nat l.l_indent)
                (match l.l_label with None -> "^" | Some b -> mt_bits_str b)
                (int_of_nat l.l_id) (int_of_nat l.l_step) (int_of_nat l.l_fan)
                (match l.l_val with
                 | None -> "-"
                 | Some None -> "nil"
                 | Some (Some v) -> hex_of_bytes v))
            ls))

(* ---------- trie cases ---------- *)
type tcase = {
  mutable cid : string;
  mutable ropt : raw_opt;
  mutable keys : byte list list;   (* reversed while reading *)
  mutable vals : byte list list;   (* reversed while reading *)
  mutable hasvals : bool;
  mutable block : string;          (* the printed block of the last T case *)
}

let run_file (inp : in_channel) (out : out_channel) =
  let c = { cid = ""; ropt = { r_dedup = None; r_inner = None; r_leaf = None; r_complete = None };
            keys = []; vals = []; hasvals = false; block = "" } in
  let mlines = ref [] and mid = ref "" and in_m = ref false in
  let last_m = ref None in
  (try
     while true do
       let line = input_line inp in
       if !in_m then begin
         if line = "EM" then begin
           in_m := false;
           let m = parse_msg (List.rev !mlines) in
           last_m := Some m;
           Printf.fprintf out "C %s\n%s" !mid (decode_msg m)
         end else mlines := line :: !mlines
       end else
         match split_ws line with
         | "T" :: cid :: d :: i :: l :: cc :: hv :: _ ->
           c.cid <- cid;
           c.ropt <- { r_dedup = optbool d; r_inner = optbool i; r_leaf = optbool l; r_complete = optbool cc };
           c.keys <- []; c.vals <- []; c.hasvals <- (hv = "1"); c.block <- ""
         | "K" :: k :: v :: _ ->
           c.keys <- bytes_of_hex k :: c.keys;
           if c.hasvals then c.vals <- bytes_of_hex v :: c.vals
         | "E" :: _ ->
           let buf = Buffer.create 65536 in
           let o = normalize c.ropt in
           let keys = List.rev c.keys in
           let vals = if c.hasvals then Some (List.rev c.vals) else None in
           (match build o keys vals with
            | Err e -> Printf.bprintf buf "B %s\n" (err_str e)
            | Ok t ->
              Printf.bprintf buf "B ok\nWF %d\n" (if trie_wf t then 1 else 0);
              (match encode_trie t with
               | Panic -> Buffer.add_string buf "ENC PANIC\n"
               | Val m ->
                 pr_msg buf m;
                 (match marshal_gen (to_wire m) with
                  | Some bs -> Printf.bprintf buf "MB %s\n" (hex_of_bytes bs)
                  | None -> Buffer.add_string buf "MB FAIL\n")));
           c.block <- Buffer.contents buf;
           Printf.fprintf out "C %s\n%s" c.cid c.block
         | "L" :: cid :: _ ->
           (* the same trie after Marshal/Unmarshal carries the same fields *)
           Printf.fprintf out "C %s+L\n%s" cid c.block
         | "M" :: id :: _ -> in_m := true; mid := id; mlines := []
         | "MQ" :: q :: _ ->
           (* GetID / Get recomputed from the message fields: Msg.mgetid / Msg.mget *)
           (match !last_m with
            | None -> failwith "MQ without message"
            | Some m ->
              let key = bytes_of_hex q in
              let ans =
                match init_vars m with
                | Panic -> if int_of_n (node_count m) = 0 then "-1 N S -1 -1 -1 V - - - R N" else "PANIC"
                | Val vs ->
                  let fuel = nat_of_int (int_of_n (node_count m) + 2) in
                  let oid x = match x with None -> -1 | Some id -> int_of_nat id in
                  let fstr f = match f with
                    | NotFound -> "N"
                    | Found None -> "F:nil"
                    | Found (Some b) -> "F:" ^ hex_of_bytes b in
                  let ov x = match x with
                    | None | Some None -> "-"
                    | Some (Some b) -> hex_of_bytes b in
                  (match mgetid fuel m vs key, mget fuel m vs key, msearchid fuel m vs key,
                         msearch fuel m vs key, mrangeget fuel m vs key with
                   | Ok g, Ok f, Ok ((l, e), r), Ok ((lv, ev), rv), Ok rg ->
                     Printf.sprintf "%d %s S %d %d %d V %s %s %s R %s"
                       (oid g) (fstr f) (oid l) (oid e) (oid r) (ov lv) (ov ev) (ov rv) (fstr rg)
                   | _, _, _, _, _ -> "PANIC") in
              Printf.fprintf out "q %s G %s\n" q ans)
         | "MI" :: w :: q :: _ ->
           (* C14: GetI<N> (N = 8w) recomputed from the message fields: GetIntMsg.mgeti *)
           (match !last_m with
            | None -> failwith "MI without message"
            | Some m ->
              let key = bytes_of_hex q in
              let wi = int_of_string w in
              let ans =
                match init_vars m with
                | Panic -> if int_of_n (node_count m) = 0 then "0 0000000000000000" else "PANIC"
                | Val vs ->
                  let fuel = nat_of_int (int_of_n (node_count m) + 2) in
                  (match mgeti (nat_of_int wi) fuel m vs key with
                   | Ok (z, f) -> Printf.sprintf "%d %s" (if f then 1 else 0) (hex_of_bytes (z_be8 z))
                   | Err _ -> "PANIC") in
              Printf.fprintf out "i %s W%d %s\n" q wi ans)
         | "MS" :: rest -> run_ms out !last_m rest
         | "MT" :: _ -> run_mt out !last_m
         | "F" :: id :: rest ->
           Printf.fprintf out "C %s\n" id;
           run_fn out rest
         | [] -> ()
         | _ -> failwith ("bad line: " ^ line)
     done
   with End_of_file -> ())

let () =
  match Array.to_list Sys.argv with
  | _ :: "l3" :: infile :: outfile :: _ ->
    let inp = open_in infile in
    let out = open_out outfile in
    run_file inp out; close_out out
  | _ -> prerr_endline "usage: driver l3 <in> <out>"; exit 2
