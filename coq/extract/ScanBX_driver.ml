(* ScanBX_driver.ml - reads the C04b case file written by the Go harness
   (harness/prop_c04b.go), evaluates the extracted BYTE-level scan model
   (theories/ScanBytes.v), prints one canonical observable per line.  Parsing and
   printing only; every computation is an extracted Coq function.

   case file:
     T <id> <dedup> <inner> <leaf> <complete> <hasvals> <enc>     (TrieCase.WriteCase)
     K <keyhex> <valhex|->
     Q <hex>                                                       (ignored)
     E
     P                                              the stored inner prefixes, pre-order: id:bitstr:len
     I <start> <incl> <withv>                       NewIter: all pairs, then 3 more calls
     S <start> <incl> <withv> <stop|->              ScanFrom, callback false at invocation <stop>
     R <start> <incl> <end> <incle> <withv> <stop|->   ScanFromTo
     Z                                              end of the case
     L <id>                                         the same trie after Marshal/Unmarshal
   function level:
     F <id>                                         start of a block of function-level lines
     N <hex> <fromBit> <toBit>                      bitstr.New + bitstr.Len of the result
     H <hex> <fromNib> <toNib>                      the bitstr of the nibbles [even_down from, to) of the key
     B <hex>                                        bitstr.Len *)
open Scanbx

let rec nat_of_int (i : int) : nat = if i <= 0 then O else S (nat_of_int (i - 1))
let int_of_nat (n : nat) : int =
  let rec go n acc = match n with O -> acc | S m -> go m (acc + 1) in go n 0

let rec pos_of_int (i : int) : positive =
  if i = 1 then XH else if i land 1 = 0 then XO (pos_of_int (i lsr 1)) else XI (pos_of_int (i lsr 1))
let n_of_int (i : int) : n = if i = 0 then N0 else Npos (pos_of_int i)
let rec int_of_pos (p : positive) : int =
  match p with XH -> 1 | XO q -> 2 * int_of_pos q | XI q -> 2 * int_of_pos q + 1
let int_of_n (x : n) : int = match x with N0 -> 0 | Npos p -> int_of_pos p

let byte_tab : byte array =
  Array.init 256 (fun i -> match of_N (n_of_int i) with Some b -> b | None -> failwith "byte")
let byte_of_int i = byte_tab.(i)
let int_of_byte (b : byte) : int = int_of_n (to_N b)

let hexval c =
  match c with
  | '0' .. '9' -> Char.code c - 48
  | 'a' .. 'f' -> Char.code c - 87
  | 'A' .. 'F' -> Char.code c - 55
  | _ -> failwith "hex"

(* "." is the empty string *)
let bytes_of_hex (s : string) : byte list =
  if s = "." then [] else begin
    let n = String.length s / 2 in
    let rec go i acc = if i < 0 then acc
      else go (i - 1) (byte_of_int (hexval s.[2*i] * 16 + hexval s.[2*i+1]) :: acc) in
    go (n - 1) []
  end

let hex_of_bytes (l : byte list) : string =
  match l with
  | [] -> "."
  | _ ->
    let b = Buffer.create 64 in
    List.iter (fun x -> Printf.bprintf b "%02x" (int_of_byte x)) l;
    Buffer.contents b

let optbool s = match s with "-" -> None | "1" -> Some true | "0" -> Some false | _ -> failwith "optbool"
let flag s = (s = "1")

let err_str (e : err) : string =
  match e with
  | EOutOfOrder i -> Printf.sprintf "err:order:%d" (int_of_nat i)
  | EStepTooLong -> "err:step"
  | EPanic _ -> "PANIC"
  | EFuel -> "FUEL"

(* bitstr.Len: a negative result is outside the model (EPanic 63) *)
let len_str (r : nat res) : string =
  match r with
  | Ok n -> string_of_int (int_of_nat n)
  | Err (EPanic c) when int_of_nat c = 63 -> "NEG"
  | Err e -> err_str e

let val_str (v : byte list option) : string =
  match v with None -> "nil" | Some b -> hex_of_bytes b

let item_str ((k, v) : byte list * byte list option) : string = hex_of_bytes k ^ ":" ^ val_str v

let items_str l = String.concat " " (List.map item_str l)

let split_ws (s : string) : string list =
  List.filter (fun x -> x <> "") (String.split_on_char ' ' s)

let callback_of (s : string) = if s = "-" then never_stop else stop_at (nat_of_int (int_of_string s))

let run_file (inp : in_channel) (out : out_channel) =
  let ropt = ref { r_dedup = None; r_inner = None; r_leaf = None; r_complete = None } in
  let keys = ref [] and vals = ref [] and hasvals = ref false in
  let built : trie res option ref = ref None in
  let buf = Buffer.create 65536 in
  let pr fmt = Printf.bprintf buf fmt in
  let get_built () =
    match !built with
    | Some b -> b
    | None ->
      let o = normalize !ropt in
      let ks = List.rev !keys in
      let vs = if !hasvals then Some (List.rev !vals) else None in
      let b = build o ks vs in
      built := Some b;
      (match b with
       | Err e -> pr "B %s\n" (err_str e)
       | Ok _ -> pr "B ok\n");
      b
  in
  (try
     while true do
       let line = input_line inp in
       match split_ws line with
       | "T" :: id :: d :: i :: l :: cc :: hv :: _ ->
         ropt := { r_dedup = optbool d; r_inner = optbool i; r_leaf = optbool l; r_complete = optbool cc };
         keys := []; vals := []; hasvals := (hv = "1"); built := None;
         Buffer.clear buf;
         Printf.fprintf out "C %s\n" id
       | "K" :: k :: v :: _ ->
         keys := bytes_of_hex k :: !keys;
         if !hasvals then vals := bytes_of_hex v :: !vals
       | "Q" :: _ -> ()
       | "E" :: _ -> ignore (get_built ())
       | "P" :: _ ->
         (match get_built () with
          | Err _ -> ()
          | Ok t ->
            let items = List.map (fun ((id, bs), ln) ->
                Printf.sprintf "%d:%s:%s" (int_of_nat id) (hex_of_bytes bs) (len_str ln)) (trie_prefixes t) in
            pr "P = %s\n" (String.concat " " items))
       | "I" :: s :: incl :: wv :: _ ->
         (match get_built () with
          | Err _ -> ()
          | Ok t ->
            let r = (match b_iter_all t (bytes_of_hex s) (flag incl) (flag wv) (nat_of_int 3) with
                | Err e -> err_str e
                | Ok (xs, more) ->
                  Printf.sprintf "%s | %s" (items_str xs)
                    (String.concat " " (List.map (fun o -> match o with None -> "nil" | Some x -> item_str x) more))) in
            pr "I %s %s %s = %s\n" s incl wv r)
       | "S" :: s :: incl :: wv :: stop :: _ ->
         (match get_built () with
          | Err _ -> ()
          | Ok t ->
            let r = (match b_scan_from t (bytes_of_hex s) (flag incl) (flag wv) (callback_of stop) with
                | Err e -> err_str e
                | Ok xs -> items_str xs) in
            pr "S %s %s %s %s = %s\n" s incl wv stop r)
       | "R" :: s :: incl :: e :: incle :: wv :: stop :: _ ->
         (match get_built () with
          | Err _ -> ()
          | Ok t ->
            let r = (match b_scan_from_to t (bytes_of_hex s) (flag incl) (bytes_of_hex e) (flag incle) (flag wv) (callback_of stop) with
                | Err e -> err_str e
                | Ok xs -> items_str xs) in
            pr "R %s %s %s %s %s %s = %s\n" s incl e incle wv stop r)
       | "Z" :: _ -> output_string out (Buffer.contents buf)
       | "L" :: id :: _ ->
         (* the model of a trie loaded from its own Marshal output is the trie *)
         Printf.fprintf out "C %s+L\n" id; output_string out (Buffer.contents buf)
       | "F" :: id :: _ -> Printf.fprintf out "C %s\n" id
       | "N" :: h :: f :: t :: _ ->
         let r = (match bitstr_new (bytes_of_hex h) (nat_of_int (int_of_string f)) (nat_of_int (int_of_string t)) with
             | Err e -> err_str e
             | Ok bs -> Printf.sprintf "%s len=%s" (hex_of_bytes bs) (len_str (bitstr_len bs))) in
         Printf.fprintf out "N %s %s %s = %s\n" h f t r
       | "H" :: h :: f :: t :: _ ->
         let bs = key_prefix_bitstr (bytes_of_hex h) (nat_of_int (int_of_string f)) (nat_of_int (int_of_string t)) in
         Printf.fprintf out "H %s %s %s = %s len=%s\n" h f t (hex_of_bytes bs) (len_str (bitstr_len bs))
       | "B" :: h :: _ ->
         Printf.fprintf out "B %s = %s\n" h (len_str (bitstr_len (bytes_of_hex h)))
       | [] -> ()
       | _ -> failwith ("bad line: " ^ line)
     done
   with End_of_file -> ())

let () =
  match Array.to_list Sys.argv with
  | _ :: "scanb" :: infile :: outfile :: _ ->
    let inp = open_in infile in
    let out = open_out outfile in
    run_file inp out; close_out out
  | _ -> prerr_endline "usage: driver scanb <in> <out>"; exit 2
