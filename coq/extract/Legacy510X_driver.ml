(* Legacy510X_driver.ml - reads the case file written by harness/prop_c06d.go, evaluates the
   extracted model (Legacy510.encode_0510 / load510, Bits.encode_trie, the queries of Msg.v), prints one
   canonical observable per line in the format of harness/prop_l3.go:l3DumpMsg.  Parsing and
   printing only; every computation is an extracted Coq function. *)
open Legacy510x
type string = Stdlib.String.t

let rec nat_of_int (i : int) : nat = if i <= 0 then O else S (nat_of_int (i - 1))
let int_of_nat (n : nat) : int =
  let rec go n acc = match n with O -> acc | S m -> go m (acc + 1) in go n 0

let rec pos_of_int (i : int) : positive =
  if i = 1 then XH else if i land 1 = 0 then XO (pos_of_int (i lsr 1)) else XI (pos_of_int (i lsr 1))
let n_of_int (i : int) : n = if i <= 0 then N0 else Npos (pos_of_int i)
let rec int_of_pos (p : positive) : int =
  match p with XH -> 1 | XO q -> 2 * int_of_pos q | XI q -> 2 * int_of_pos q + 1
let int_of_n (x : n) : int = match x with N0 -> 0 | Npos p -> int_of_pos p
let int_of_z (x : z) : int = match x with Z0 -> 0 | Zpos p -> int_of_pos p | Zneg p -> - (int_of_pos p)

let byte_tab : byte array =
  Array.init 256 (fun i -> match of_N (n_of_int i) with Some b -> b | None -> failwith "byte")
let byte_of_int i = byte_tab.(i)
let int_of_byte (b : byte) : int = int_of_n (to_N b)

let hexval c =
  match c with
  | '0' .. '9' -> Char.code c - 48
  | 'a' .. 'f' -> Char.code c - 87
  | 'A' .. 'F' -> Char.code c - 55
  | _ -> failwith "hex"

(* a 64-bit word as lower-case hex without leading zeros *)
let hex_of_n (x : n) : string =
  match x with
  | N0 -> "0"
  | Npos p ->
    let rec bits p acc = match p with
      | XH -> 1 :: acc
      | XO q -> bits q (0 :: acc)
      | XI q -> bits q (1 :: acc) in
    let b = List.rev (bits p []) in (* lsb first *)
    let rec groups l acc = match l with
      | [] -> acc
      | a :: [] -> (a) :: acc
      | a :: b :: [] -> (a + 2*b) :: acc
      | a :: b :: c :: [] -> (a + 2*b + 4*c) :: acc
      | a :: b :: c :: d :: r -> groups r ((a + 2*b + 4*c + 8*d) :: acc) in
    String.concat "" (List.map (fun d -> Printf.sprintf "%x" d) (groups b []))

let bytes_of_hex (s : string) : byte list =
  if s = "." then [] else begin
    let n = String.length s / 2 in
    let rec go i acc = if i < 0 then acc
      else go (i - 1) (byte_of_int (hexval s.[2*i] * 16 + hexval s.[2*i+1]) :: acc) in
    go (n - 1) []
  end

let hex_of_bytes (l : byte list) : string =
  match l with
  | [] -> "."
  | _ ->
    let b = Buffer.create 64 in
    List.iter (fun x -> Printf.bprintf b "%02x" (int_of_byte x)) l;
    Buffer.contents b

let err_str (e : err) : string =
  match e with
  | EOutOfOrder i -> Printf.sprintf "err:order:%d" (int_of_nat i)
  | EStepTooLong -> "err:step"
  | EPanic _ -> "PANIC"
  | EFuel -> "FUEL"

let split_ws (s : string) : string list =
  List.filter (fun x -> x <> "") (String.split_on_char ' ' s)

let str_of_words (l : n list) : string =
  match l with [] -> "-" | _ -> String.concat "," (List.map hex_of_n l)
let str_of_ints (l : n list) : string =
  match l with [] -> "-" | _ -> String.concat "," (List.map (fun x -> string_of_int (int_of_n x)) l)

(* ---------- printing a message (harness/prop_l3.go:l3DumpMsg) ---------- *)
let pr_bm buf name (b : bitmap option) =
  match b with
  | None -> Printf.bprintf buf "BM %s nil\n" name
  | Some b -> Printf.bprintf buf "BM %s W %s R %s S %s\n" name (str_of_words b.b_words) (str_of_ints b.b_rank) (str_of_ints b.b_sel)

let pr_vl buf name (v : vlen option) =
  match v with
  | None -> Printf.bprintf buf "VL %s nil\n" name
  | Some v ->
    Printf.bprintf buf "VL %s %d %d %d %s\n" name (int_of_n v.v_n) (int_of_n v.v_eltcnt) (int_of_n v.v_fixed) (hex_of_bytes v.v_bytes);
    pr_bm buf (name ^ ".presence") v.v_presence;
    pr_bm buf (name ^ ".position") v.v_position

let pr_msg buf (m : msg) =
  Printf.bprintf buf "S %d %d\n" (int_of_n m.m_bigcnt) (int_of_n m.m_shortsize);
  Printf.bprintf buf "ST %s\n" (str_of_ints m.m_shorttable);
  pr_bm buf "nodetype" m.m_nodetype;
  pr_bm buf "inners" m.m_inners;
  pr_bm buf "shortbm" m.m_shortbm;
  pr_vl buf "innerpfx" m.m_innerpfx;
  pr_vl buf "leafpfx" m.m_leafpfx;
  pr_vl buf "leaves" m.m_leaves

(* ---------- queries over a message (format of harness/prop_c06d.go:c06dQueryLine) ---------- *)
let query_str (m : msg) (q : string) : string =
  let key = bytes_of_hex q in
  match init_vars m with
  | Panic -> if int_of_n (node_count m) = 0 then "-1 N S -1 -1 -1 V - - - R N" else "PANIC"
  | Val vs ->
    let fuel = nat_of_int (int_of_n (node_count m) + 2) in
    let oid x = match x with None -> -1 | Some id -> int_of_nat id in
    let fstr f = match f with
      | NotFound -> "N"
      | Found None -> "F:nil"
      | Found (Some b) -> "F:" ^ hex_of_bytes b in
    let ov x = match x with
      | None | Some None -> "-"
      | Some (Some b) -> hex_of_bytes b in
    (match mgetid fuel m vs key, mget fuel m vs key, msearchid fuel m vs key,
           msearch fuel m vs key, mrangeget fuel m vs key with
     | Ok g, Ok f, Ok ((l, e), r), Ok ((lv, ev), rv), Ok rg ->
       Printf.sprintf "%d %s S %d %d %d V %s %s %s R %s"
         (oid g) (fstr f) (oid l) (oid e) (oid r) (ov lv) (ov ev) (ov rv) (fstr rg)
     | _, _, _, _, _ -> "PANIC")

(* ---------- cases ---------- *)
type tcase = {
  mutable cid : string;
  mutable inner : bool;
  mutable leaf : bool;
  mutable esize : int;
  mutable keys : byte list list;   (* reversed while reading *)
  mutable vals : byte list list;   (* reversed while reading *)
}

let run_file (inp : in_channel) (out : out_channel) =
  let c = { cid = ""; inner = false; leaf = false; esize = 0; keys = []; vals = [] } in
  let loaded : msg option ref = ref None in
  (try
     while true do
       let line = input_line inp in
       match split_ws line with
       | [ "T"; cid; i; l; es ] ->
         c.cid <- cid; c.inner <- (i = "1"); c.leaf <- (l = "1"); c.esize <- int_of_string es;
         c.keys <- []; c.vals <- []; loaded := None
       | [ "K"; k; v ] ->
         c.keys <- bytes_of_hex k :: c.keys;
         c.vals <- bytes_of_hex v :: c.vals
       | [ "E" ] ->
         let buf = Buffer.create 65536 in
         (* the reference writer builds with DedupValue off and the prefix options of the layout *)
         let o = normalize { r_dedup = Some false; r_inner = Some c.inner; r_leaf = Some c.leaf; r_complete = None } in
         (match build o (List.rev c.keys) (Some (List.rev c.vals)) with
          | Err e -> Printf.bprintf buf "B %s\n" (err_str e)
          | Ok t ->
            (match encode_0510 t with
             | Panic -> Buffer.add_string buf "B ok\nOLD\nENC PANIC\n"
             | Val om ->
               Buffer.add_string buf "B ok\nOLD\n";
               pr_msg buf (parse510 om);
               Printf.bprintf buf "X %d %d %d\n" (int_of_n om.o_bigoff) (int_of_z om.o_shortminus) (int_of_n om.o_mask);
               (match load510 (n_of_int c.esize) om with
                | Err e -> Printf.bprintf buf "NEW %s\n" (match e with EPanic _ -> "load-panic" | _ -> err_str e)
                | Ok l ->
                  Buffer.add_string buf "NEW ok\n";
                  pr_msg buf l;
                  loaded := Some l;
                  Buffer.add_string buf "CUR\n";
                  (match encode_trie t with
                   | Panic -> Buffer.add_string buf "ENC PANIC\n"
                   | Val m -> pr_msg buf m))));
         Printf.fprintf out "C %s\n%s" c.cid (Buffer.contents buf)
       | [ "MQ"; q ] ->
         (match !loaded with
          | None -> Printf.fprintf out "q %s G NOMSG\n" q
          | Some m -> Printf.fprintf out "q %s G %s\n" q (query_str m q))
       | [] -> ()
       | _ -> failwith ("bad line: " ^ line)
     done
   with End_of_file -> ())

let () =
  match Array.to_list Sys.argv with
  | _ :: "c06d" :: infile :: outfile :: _ ->
    let inp = open_in infile in
    let out = open_out outfile in
    run_file inp out; close_out out
  | _ -> prerr_endline "usage: driver c06d <in> <out>"; exit 2
