(* WireX_driver.ml - reads the case files written by harness/prop_c05.go and
   prop_c07.go, evaluates the extracted wire model (wirex.ml), prints one
   canonical observable per line.  Parsing and printing only; every computation
   is an extracted Coq function.

   usage: driver c05|c07 cases.txt model.txt *)
open Wirex
type string = Stdlib.String.t   (* Wirex.string is the extracted Coq string type *)

(* ---------- conversions ---------- *)
let rec nat_of_int (i : int) : nat = if i <= 0 then O else S (nat_of_int (i - 1))
let int_of_nat (n : nat) : int =
  let rec go n acc = match n with O -> acc | S m -> go m (acc + 1) in go n 0

let rec pos_of_int (i : int) : positive =
  if i = 1 then XH else if i land 1 = 0 then XO (pos_of_int (i lsr 1)) else XI (pos_of_int (i lsr 1))
let n_of_int (i : int) : n = if i = 0 then N0 else Npos (pos_of_int i)
let rec int_of_pos (p : positive) : int =
  match p with XH -> 1 | XO q -> 2 * int_of_pos q | XI q -> 2 * int_of_pos q + 1
let int_of_n (x : n) : int = match x with N0 -> 0 | Npos p -> int_of_pos p

let z_of_int (i : int) : z = if i = 0 then Z0 else if i > 0 then Zpos (pos_of_int i) else Zneg (pos_of_int (- i))
let int_of_z (x : z) : int = match x with Z0 -> 0 | Zpos p -> int_of_pos p | Zneg p -> - (int_of_pos p)

let byte_tab : byte array =
  Array.init 256 (fun i -> match of_N (n_of_int i) with Some b -> b | None -> failwith "byte")
let byte_of_int i = byte_tab.(i)
let int_of_byte (b : byte) : int = int_of_n (to_N b)

let hexval c =
  match c with
  | '0' .. '9' -> Char.code c - 48
  | 'a' .. 'f' -> Char.code c - 87
  | 'A' .. 'F' -> Char.code c - 55
  | _ -> failwith "hex"

(* "." is the empty string *)
let bytes_of_hex (s : string) : byte list =
  if s = "." then [] else begin
    let n = String.length s / 2 in
    let rec go i acc = if i < 0 then acc
      else go (i - 1) (byte_of_int (hexval s.[2*i] * 16 + hexval s.[2*i+1]) :: acc) in
    go (n - 1) []
  end

let hexdigits = "0123456789abcdef"
let hex_of_bytes (l : byte list) : string =
  match l with
  | [] -> "."
  | _ ->
    let b = Buffer.create 256 in
    List.iter (fun x -> let i = int_of_byte x in
                Buffer.add_char b hexdigits.[i lsr 4]; Buffer.add_char b hexdigits.[i land 15]) l;
    Buffer.contents b

(* 64-bit values do not fit OCaml int: hex string <-> N digit by digit *)
let n16 = n_of_int 16
let n_of_hex (s : string) : n =
  let acc = ref N0 in
  String.iter (fun c -> acc := N.add (N.mul !acc n16) (n_of_int (hexval c))) s;
  !acc
let hex_of_n (x : n) : string =
  match x with
  | N0 -> "0"
  | Npos p ->
    (* bits, least significant first *)
    let rec bits p = match p with XH -> [1] | XO q -> 0 :: bits q | XI q -> 1 :: bits q in
    let bs = Array.of_list (bits p) in
    let nb = Array.length bs in
    let nd = (nb + 3) / 4 in
    let b = Buffer.create nd in
    for d = nd - 1 downto 0 do
      let v = ref 0 in
      for k = 3 downto 0 do
        let i = 4 * d + k in
        v := !v * 2 + (if i < nb then bs.(i) else 0)
      done;
      Buffer.add_char b hexdigits.[!v]
    done;
    Buffer.contents b

let split_ws (s : string) : string list =
  List.filter (fun x -> x <> "") (String.split_on_char ' ' s)
let csv (s : string) : string list = if s = "." then [] else String.split_on_char ',' s
let csv_out (l : string list) : string = match l with [] -> "." | _ -> String.concat "," l

(* ---------- message <-> lines ----------
   SLIM <BigInnerCnt> <ShortSize> <ShortTable csv dec|.> <unk hex|.>
   BM - | BM + <words csv hex|.> <rank csv dec|.> <select csv dec|.> <unk>
   VL - | VL + <N> <EltCnt> <FixedSize> <bytes hex> <unk>   then BM (PositionBM), BM (PresenceBM)
   order: SLIM, BM NodeTypeBM, BM Inners, BM ShortBM, VL InnerPrefixes, VL LeafPrefixes, VL Leaves *)
let bm_line (o : bitmap option) : string =
  match o with
  | None -> "BM -"
  | Some b ->
    Printf.sprintf "BM + %s %s %s %s"
      (csv_out (List.map hex_of_n b.bm_words))
      (csv_out (List.map (fun x -> string_of_int (int_of_z x)) b.bm_rank))
      (csv_out (List.map (fun x -> string_of_int (int_of_z x)) b.bm_select))
      (hex_of_bytes b.bm_unk)

let vl_lines (o : vlen option) : string list =
  match o with
  | None -> ["VL -"]
  | Some a ->
    [ Printf.sprintf "VL + %d %d %d %s %s" (int_of_z a.vl_n) (int_of_z a.vl_eltcnt) (int_of_z a.vl_fixed)
        (hex_of_bytes a.vl_bytes) (hex_of_bytes a.vl_unk);
      bm_line a.vl_position; bm_line a.vl_presence ]

let slim_lines (m : slim) : string list =
  [ Printf.sprintf "SLIM %d %d %s %s" (int_of_z m.s_bigcnt) (int_of_z m.s_shortsize)
      (csv_out (List.map (fun x -> string_of_int (int_of_n x)) m.s_shorttable))
      (hex_of_bytes m.s_unk);
    bm_line m.s_nodetype; bm_line m.s_inners; bm_line m.s_shortbm ]
  @ vl_lines m.s_innerpref @ vl_lines m.s_leafpref @ vl_lines m.s_leaves

let parse_bm (line : string) : bitmap option =
  match split_ws line with
  | ["BM"; "-"] -> None
  | ["BM"; "+"; w; r; s; u] ->
    Some { bm_words = List.map n_of_hex (csv w);
           bm_rank = List.map (fun x -> z_of_int (int_of_string x)) (csv r);
           bm_select = List.map (fun x -> z_of_int (int_of_string x)) (csv s);
           bm_unk = bytes_of_hex u }
  | _ -> failwith ("bad BM line: " ^ line)

(* reads a message from a line supplier *)
let read_slim (next : unit -> string) : slim =
  let l = next () in
  let (big, short, table, unk) =
    match split_ws l with
    | ["SLIM"; a; b; c; d] -> (z_of_int (int_of_string a), z_of_int (int_of_string b),
                               List.map (fun x -> n_of_int (int_of_string x)) (csv c), bytes_of_hex d)
    | _ -> failwith ("bad SLIM line: " ^ l) in
  let nt = parse_bm (next ()) in
  let inn = parse_bm (next ()) in
  let sb = parse_bm (next ()) in
  let read_vl () : vlen option =
    let l = next () in
    match split_ws l with
    | ["VL"; "-"] -> None
    | ["VL"; "+"; n; e; f; by; u] ->
      let pos = parse_bm (next ()) in
      let pre = parse_bm (next ()) in
      Some { vl_n = z_of_int (int_of_string n); vl_eltcnt = z_of_int (int_of_string e);
             vl_position = pos; vl_fixed = z_of_int (int_of_string f); vl_bytes = bytes_of_hex by;
             vl_presence = pre; vl_unk = bytes_of_hex u }
    | _ -> failwith ("bad VL line: " ^ l) in
  let ip = read_vl () in
  let lp = read_vl () in
  let lv = read_vl () in
  { s_bigcnt = big; s_shortsize = short; s_nodetype = nt; s_inners = inn; s_shortbm = sb;
    s_shorttable = table; s_innerpref = ip; s_leafpref = lp; s_leaves = lv; s_unk = unk }

(* ---------- outcomes ---------- *)
let stage_str = function
  | SHeader -> "header" | SInner -> "inner" | SChildren -> "children" | SSteps -> "steps" | SLeaves -> "leaves"
(* ErrUnexpectedEOF is also what proto.Unmarshal returns for truncated fields, so the
   projection merges both into "bad" (see harness c07ErrKind) *)
let cause_str = function
  | CEOF -> "eof" | CUnexpectedEOF -> "bad" | CHeaderSize -> "headersize" | CProto -> "bad"
let outcome_str (o : outcome) : string =
  match o with
  | OLoaded _ | OLegacy510 _ | OLegacy3 _ -> "ok"
  | OErr (s, c) -> Printf.sprintf "err:%s:%s" (stage_str s) (cause_str c)
  | OIncompatible -> "err:incompatible"
  | OPanic -> "PANIC"
  | OUnmodelled -> "UNMODELLED"

(* projection "gate": only whether the version gate let the stream through *)
let project (proj : string) (o : outcome) : string =
  match proj with
  | "gate" ->
    (match o with
     | OIncompatible -> "err:incompatible"
     | OErr (SHeader, _) -> outcome_str o
     | OUnmodelled -> "UNMODELLED"
     | _ -> "gate:pass")
  | _ -> outcome_str o

let marshal_hex (i : inner_state) : string =
  match i with
  | IPartial -> "?"
  | IMsg m ->
    match marshal_gen m with
    | None -> "PANIC"
    | Some b -> hex_of_bytes b

(* The extracted functions are not tail recursive (firstn, app, take_exact ...): a
   700 kB fixture needs more than the default 8 MB stack.  Re-execute once under
   a larger stack limit. *)
let () =
  match Sys.getenv_opt "WIREX_STACK" with
  | Some _ -> ()
  | None ->
    let q = Filename.quote in
    let cmd = Printf.sprintf
        "ulimit -s unlimited 2>/dev/null || ulimit -s 4000000 2>/dev/null; WIREX_STACK=1 exec %s %s %s %s"
        (q Sys.executable_name) (q Sys.argv.(1)) (q Sys.argv.(2)) (q Sys.argv.(3)) in
    exit (Sys.command cmd)

(* ---------- main loop ---------- *)
let () =
  let mode = Sys.argv.(1) in
  let inp = open_in Sys.argv.(2) in
  let out = open_out Sys.argv.(3) in
  let pr fmt = Printf.fprintf out fmt in
  let next () = input_line inp in
  ignore mode;
  (try
     while true do
       let line = next () in
       match split_ws line with
       (* --- a message as data + the real stream (c05) --- *)
       | ["M"; cid; load] ->
         pr "C %s\n" cid;
         let m = read_slim next in
         let stream = (match split_ws (next ()) with ["X"; h] -> bytes_of_hex h | _ -> failwith "X expected") in
         (match split_ws (next ()) with ["E"] -> () | _ -> failwith "E expected");
         pr "wf %b\n" (wf_msg m);
         pr "ser %s\n" (marshal_hex (IMsg m));
         pr "size %s\n" (hex_of_n (marshal_size m));
         let body = (match read_header stream with
             | ROk (_, rest) -> Some rest
             | _ -> None) in
         (match body with
          | None -> pr "parse noheader\n"
          | Some b ->
            (match parse_slim b with
             | None -> pr "parse err\n"
             | Some m' -> pr "parse ok\n"; List.iter (fun l -> pr "%s\n" l) (slim_lines m')));
         if load = "1" then begin
           let (st, o) = step_gen fresh_gen (OpUnmarshal stream) in
           (match o with
            | Some (OLoaded _ as oc) ->
              pr "load %s\n" (outcome_str oc);
              (match st.i_inner with
               | IMsg mi -> List.iter (fun l -> pr "%s\n" l) (slim_lines mi)
               | IPartial -> pr "partial\n");
              pr "remarshal %s\n" (marshal_hex st.i_inner)
            | Some oc -> pr "load %s\n" (outcome_str oc)
            | None -> pr "load ?\n")
         end
       (* --- arbitrary body bytes through the parser (c05) --- *)
       | ["F"; cid] ->
         pr "C %s\n" cid;
         let h = (match split_ws (next ()) with ["X"; h] -> h | _ -> failwith "X expected") in
         (match split_ws (next ()) with ["E"] -> () | _ -> failwith "E expected");
         (match parse_slim (bytes_of_hex h) with
          | None -> pr "parse err\n"
          | Some m ->
            pr "parse ok\n";
            List.iter (fun l -> pr "%s\n" l) (slim_lines m);
            pr "reser %s\n" (hex_of_bytes (ser_slim m));
            pr "size %s\n" (hex_of_n (size_slim m)))
       (* --- a history of Unmarshal / Reset on one instance (c05) --- *)
       | ["H"; cid] ->
         pr "C %s\n" cid;
         let streams = Hashtbl.create 8 in
         let st = ref fresh_gen in
         let fin = ref false in
         while not !fin do
           match split_ws (next ()) with
           | ["S"; name; h] -> Hashtbl.replace streams name (bytes_of_hex h)
           | ["O"; "R"] ->
             let (s', _) = step_gen !st OpReset in
             st := s';
             pr "reset\n"
           | ["O"; "U"; name] ->
             let (s', o) = step_gen !st (OpUnmarshal (Hashtbl.find streams name)) in
             st := s';
             pr "unmarshal %s\n" (match o with Some oc -> outcome_str oc | None -> "?")
           | ["E"] ->
             pr "inner %s\n" (marshal_hex (!st).i_inner);
             pr "vars %s\n" (match (!st).i_vars with None -> "nil" | Some _ -> "set");
             fin := true
           | l -> failwith ("bad H line: " ^ String.concat " " l)
         done
       (* --- constants (c07) --- *)
       | ["K"; cid] ->
         pr "C %s\n" cid;
         (match split_ws (next ()) with ["E"] -> () | _ -> failwith "E expected");
         pr "specs-in-fragment %b\n" (specs_in_fragment compat_gen);
         pr "version %s\n" (hex_of_bytes cur_gen);
         pr "compatible %s\n" (String.concat "," (List.map hex_of_bytes compat_gen))
       (* --- a stream and cut points (c07) --- *)
       | ["S"; cid; preload] ->
         pr "C %s\n" cid;
         let stream = (match split_ws (next ()) with ["X"; h] -> bytes_of_hex h | _ -> failwith "X expected") in
         let cuts = (match split_ws (next ()) with
             | ["CUTS"; "all"] -> List.init (List.length stream) (fun i -> i)
             | ["CUTS"; l] -> List.map int_of_string (csv l)
             | _ -> failwith "CUTS expected") in
         (match split_ws (next ()) with ["E"] -> () | _ -> failwith "E expected");
         (* the full stream first *)
         let (st0, o0) = step_gen fresh_gen (OpUnmarshal stream) in
         pr "full %s\n" (match o0 with Some oc -> outcome_str oc | None -> "?");
         let base = if preload = "1" then st0 else fresh_gen in
         (* run-length encoded outcomes over the cuts, in the given order *)
         let cur = ref None in
         let flush () =
           match !cur with
           | None -> ()
           | Some (a, b, n, s) -> pr "R %d %d %d %s\n" a b n s in
         (* prefixes are built incrementally: cuts are ascending *)
         let arr = Array.of_list stream in
         let prefix k = Array.to_list (Array.sub arr 0 k) in
         List.iter (fun k ->
             let (st, o) = step_gen base (OpUnmarshal (prefix k)) in
             let s = Printf.sprintf "%s inner=%s"
                 (match o with Some oc -> outcome_str oc | None -> "?") (marshal_hex st.i_inner) in
             (match !cur with
              | Some (a, _, n, s0) when s0 = s -> cur := Some (a, k, n + 1, s0)
              | _ -> flush (); cur := Some (k, k, 1, s)))
           cuts;
         flush ()
       (* --- streams with rewritten headers (c07) --- *)
       | ["G"; cid; preload] ->
         pr "C %s\n" cid;
         let base = ref fresh_gen in
         let fin = ref false in
         while not !fin do
           match split_ws (next ()) with
           | ["P"; h] ->
             (* the stream the instance holds before each attempt *)
             let (st0, _) = step_gen fresh_gen (OpUnmarshal (bytes_of_hex h)) in
             if preload = "1" then base := st0
           | ["B"; label; proj; h] ->
             let (st, o) = step_gen !base (OpUnmarshal (bytes_of_hex h)) in
             let os = (match o with Some oc -> project proj oc | None -> "?") in
             let failed = (match o with Some (OErr _) | Some OIncompatible -> true | _ -> false) in
             if failed then pr "g %s %s inner=%s\n" label os (marshal_hex st.i_inner)
             else pr "g %s %s\n" label os
           | ["E"] -> fin := true
           | l -> failwith ("bad G line: " ^ String.concat " " l)
         done
       | [] -> ()
       | _ -> failwith ("bad line: " ^ line)
     done
   with End_of_file -> ());
  close_out out
