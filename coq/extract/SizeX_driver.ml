(* SizeX_driver.ml - reads the C17 case file, builds the trie with the extracted
   model (the raw option spelling of the case through Model.normalize, no values), prints the Slim message of
   Size.encode_trie field by field, and whether the end-to-end byte model agrees with it
   (SizeBitsCheck.models_same_bytes).  Parsing and printing only. *)
(* the extracted module defines Coq's [string] (version constants of Wire.v): keep OCaml's *)
type ostr = string
open Sizemodel

let rec pos_of_int (i : int) : positive =
  if i = 1 then XH else if i land 1 = 0 then XO (pos_of_int (i lsr 1)) else XI (pos_of_int (i lsr 1))
let n_of_int (i : int) : n = if i = 0 then N0 else Npos (pos_of_int i)
let rec int_of_pos (p : positive) : int =
  match p with XH -> 1 | XO q -> 2 * int_of_pos q | XI q -> 2 * int_of_pos q + 1
let int_of_n (x : n) : int = match x with N0 -> 0 | Npos p -> int_of_pos p
let int_of_z (x : z) : int = match x with Z0 -> 0 | Zpos p -> int_of_pos p | Zneg p -> - (int_of_pos p)
let int_of_nat (n : nat) : int =
  let rec go n acc = match n with O -> acc | S m -> go m (acc + 1) in go n 0

(* hexadecimal of an N of any width (64-bit words do not fit an OCaml int) *)
let hex_of_n (x : n) : ostr =
  match x with
  | N0 -> "0"
  | Npos p ->
    let rec bits p acc = match p with
      | XH -> 1 :: acc
      | XO q -> bits q (0 :: acc)
      | XI q -> bits q (1 :: acc) in
    (* most significant bit first *)
    let bs = bits p [] in
    let pad = (4 - List.length bs mod 4) mod 4 in
    let bs = List.init pad (fun _ -> 0) @ bs in
    let buf = Buffer.create 16 in
    let rec go l = match l with
      | a :: b :: c :: d :: r -> Buffer.add_string buf (Printf.sprintf "%x" (8*a + 4*b + 2*c + d)); go r
      | _ -> () in
    go bs; Buffer.contents buf

let byte_tab : byte array =
  Array.init 256 (fun i -> match of_N0 (n_of_int i) with Some b -> b | None -> failwith "byte")
let byte_of_int i = byte_tab.(i)
let int_of_byte (b : byte) : int = int_of_n (to_N0 b)

let hexval c =
  match c with
  | '0' .. '9' -> Char.code c - 48
  | 'a' .. 'f' -> Char.code c - 87
  | 'A' .. 'F' -> Char.code c - 55
  | _ -> failwith "hex"

let bytes_of_hex (s : ostr) : byte list =
  if s = "." then [] else begin
    let n = String.length s / 2 in
    let rec go i acc = if i < 0 then acc
      else go (i - 1) (byte_of_int (hexval s.[2*i] * 16 + hexval s.[2*i+1]) :: acc) in
    go (n - 1) []
  end

let hex_of_bytes (l : byte list) : ostr =
  match l with
  | [] -> "."
  | _ -> String.concat "" (List.map (fun b -> Printf.sprintf "%02x" (int_of_byte b)) l)

let err_str (e : err) : ostr =
  match e with
  | EOutOfOrder i -> Printf.sprintf "err:order:%d" (int_of_nat i)
  | EStepTooLong -> "err:step"
  | EPanic _ -> "PANIC"
  | EFuel -> "FUEL"

let split_ws (s : ostr) : ostr list =
  List.filter (fun x -> x <> "") (String.split_on_char ' ' s)

let list_str f l = match l with [] -> "." | _ -> String.concat "," (List.map f l)

let dump_bm buf name (b : bitmap option) =
  match b with
  | None -> Printf.bprintf buf "%s nil\n" name
  | Some b ->
    Printf.bprintf buf "%s w=%s r=%s s=%s\n" name
      (list_str hex_of_n b.bm_words)
      (list_str (fun z -> string_of_int (int_of_z z)) b.bm_rank)
      (list_str (fun z -> string_of_int (int_of_z z)) b.bm_select)

let dump_vl buf name (a : vlen option) =
  match a with
  | None -> Printf.bprintf buf "%s nil\n" name
  | Some a ->
    Printf.bprintf buf "%s n=%d elt=%d fixed=%d bytes=%s\n" name (int_of_z a.vl_n) (int_of_z a.vl_eltcnt)
      (int_of_z a.vl_fixed) (hex_of_bytes a.vl_bytes);
    dump_bm buf (name ^ ".presence") a.vl_presence;
    dump_bm buf (name ^ ".position") a.vl_position

let run (inp : in_channel) (out : out_channel) =
  let keys = ref [] in
  let prefix = ref [] in
  let cid = ref "" in
  let buf = Buffer.create 65536 in
  let ropt = ref { r_dedup = None; r_inner = None; r_leaf = None; r_complete = None } in
  let optbool s = match s with "-" -> None | "1" -> Some true | "0" -> Some false | _ -> failwith "optbool" in
  (try
     while true do
       let line = input_line inp in
       match split_ws line with
       | "T" :: id :: d :: i :: l :: c :: _ ->
         cid := id; keys := []; prefix := [];
         ropt := { r_dedup = optbool d; r_inner = optbool i; r_leaf = optbool l; r_complete = optbool c }
       | "P" :: p :: _ -> prefix := bytes_of_hex p
       | "K" :: k :: _ -> keys := app !prefix (bytes_of_hex k) :: !keys
       | "E" :: _ ->
         Buffer.clear buf;
         Printf.bprintf buf "C %s\n" !cid;
         (match build (normalize !ropt) (List.rev !keys) None with
          | Err e -> Printf.bprintf buf "B %s\n" (err_str e)
          | Ok t ->
            let m = encode_trie t in
            Printf.bprintf buf "B ok\n";
            Printf.bprintf buf "SZ marshal=%d proto=%d\n" (int_of_n (marshal_size t)) (int_of_n (size_slim m));
            Printf.bprintf buf "H big=%d short=%d\n" (int_of_z m.s_bigcnt) (int_of_z m.s_shortsize);
            dump_bm buf "NT" m.s_nodetype;
            dump_bm buf "IN" m.s_inners;
            dump_bm buf "SB" m.s_shortbm;
            Printf.bprintf buf "ST %s\n" (list_str hex_of_n m.s_shorttable);
            dump_vl buf "IP" m.s_innerpref;
            dump_vl buf "LP" m.s_leafpref;
            dump_vl buf "LV" m.s_leaves;
            (* the end-to-end byte model (Bits.encode_trie + to_wire + marshal_gen) gives the
               same bytes as the size model's message m = encode_trie t and 32 + size_slim m is
               their length: models_same_bytes t, without computing m again *)
            Printf.bprintf buf "X %d\n" (if same_bytes_with m t then 1 else 0));
         output_string out (Buffer.contents buf)
       | [] -> ()
       | _ -> failwith ("bad line: " ^ line)
     done
   with End_of_file -> ())

let () =
  match Array.to_list Sys.argv with
  | _ :: "size" :: infile :: outfile :: _ ->
    let inp = open_in infile in
    let out = open_out outfile in
    run inp out; close_out out
  | _ -> prerr_endline "usage: driver size <in> <out>"; exit 2
