(* EncX_driver.ml - reads the C15 case file written by the Go harness
   (harness/prop_c15.go), evaluates the extracted encoder model on every case and
   prints the same canonical observables as the implementation runner.
   Parsing and printing only: every computation is an extracted Coq function
   (numbers are converted between hexadecimal text and the binary inductives
   positive/N/Z structurally, bit by bit, without arithmetic).

   case lines:
     V <id> <enc> <value> <rest>     encode value, then sizes/decode on enc++rest
     D <id> <enc> <input>            sizes/decode of arbitrary bytes
     G <id>                          the codec table the model was compiled with
   <enc>   : a codec name of the generated table (I8 I16 ... Int) | S16 | B<n> |
             Dummy | TL:<type> | TB:<type>      (little / big endian TypeEncoder)
   <type>  : i8 i16 i32 i64 u8 u16 u32 u64 | a<n>(<type>) | s(<type>,...)
   <value> : i:[-]<hex> | b:<hex or .> | nil | (<value>,...)
   bytes   : hex, "." for the empty string *)
module M = Encx

let rec nat_of_int (i : int) : M.nat = if i <= 0 then M.O else M.S (nat_of_int (i - 1))
let int_of_nat (n : M.nat) : int =
  let rec go n acc = match n with M.O -> acc | M.S m -> go m (acc + 1) in go n 0

let rec pos_of_int (i : int) : M.positive =
  if i = 1 then M.XH else if i land 1 = 0 then M.XO (pos_of_int (i lsr 1)) else M.XI (pos_of_int (i lsr 1))
let n_of_int (i : int) : M.n = if i = 0 then M.N0 else M.Npos (pos_of_int i)
let rec int_of_pos (p : M.positive) : int =
  match p with M.XH -> 1 | M.XO q -> 2 * int_of_pos q | M.XI q -> 2 * int_of_pos q + 1
let int_of_n (x : M.n) : int = match x with M.N0 -> 0 | M.Npos p -> int_of_pos p

let byte_tab : M.byte array =
  Array.init 256 (fun i -> match M.of_N (n_of_int i) with Some b -> b | None -> failwith "byte")
let byte_of_int i = byte_tab.(i)
let int_of_byte (b : M.byte) : int = int_of_n (M.to_N b)

let hexval c =
  match c with
  | '0' .. '9' -> Char.code c - 48
  | 'a' .. 'f' -> Char.code c - 87
  | 'A' .. 'F' -> Char.code c - 55
  | _ -> failwith "hex"

let bytes_of_hex (s : String.t) : M.byte list =
  if s = "." then [] else begin
    let n = String.length s / 2 in
    let rec go i acc = if i < 0 then acc
      else go (i - 1) (byte_of_int (hexval s.[2*i] * 16 + hexval s.[2*i+1]) :: acc) in
    go (n - 1) []
  end

let hex_of_bytes (l : M.byte list) : String.t =
  match l with
  | [] -> "."
  | _ ->
    let b = Buffer.create 64 in
    List.iter (fun x -> Buffer.add_string b (Printf.sprintf "%02x" (int_of_byte x))) l;
    Buffer.contents b

(* hexadecimal magnitude -> positive option, most significant bit first *)
let pos_of_hex (s : String.t) : M.positive option =
  let acc = ref None in
  String.iter (fun c ->
      let d = hexval c in
      for k = 3 downto 0 do
        let bit = (d lsr k) land 1 = 1 in
        acc := (match !acc with
            | None -> if bit then Some M.XH else None
            | Some p -> Some (if bit then M.XI p else M.XO p))
      done) s;
  !acc

let z_of_text (s : String.t) : M.z =
  let neg = String.length s > 0 && s.[0] = '-' in
  let body = if neg then String.sub s 1 (String.length s - 1) else s in
  match pos_of_hex body with
  | None -> M.Z0
  | Some p -> if neg then M.Zneg p else M.Zpos p

let hex_of_pos (p : M.positive) : String.t =
  (* bits, least significant first *)
  let rec bits p acc = match p with
    | M.XH -> List.rev (true :: acc)
    | M.XO q -> bits q (false :: acc)
    | M.XI q -> bits q (true :: acc) in
  let bs = Array.of_list (bits p []) in
  let nb = Array.length bs in
  let nd = (nb + 3) / 4 in
  let b = Buffer.create 16 in
  for d = nd - 1 downto 0 do
    let v = ref 0 in
    for k = 3 downto 0 do
      let i = 4 * d + k in
      v := !v * 2 + (if i < nb && bs.(i) then 1 else 0)
    done;
    Buffer.add_char b "0123456789abcdef".[!v]
  done;
  Buffer.contents b

let text_of_z (z : M.z) : String.t =
  match z with
  | M.Z0 -> "0"
  | M.Zpos p -> hex_of_pos p
  | M.Zneg p -> "-" ^ hex_of_pos p

(* OCaml string <-> Coq string *)
let coq_string (s : String.t) : M.string =
  let ascii_of_char c =
    let n = Char.code c in
    let b i = (n lsr i) land 1 = 1 in
    M.Ascii (b 0, b 1, b 2, b 3, b 4, b 5, b 6, b 7) in
  let rec go i = if i >= String.length s then M.EmptyString else M.String (ascii_of_char s.[i], go (i + 1)) in
  go 0

let ocaml_string (s : M.string) : String.t =
  let b = Buffer.create 16 in
  let rec go s = match s with
    | M.EmptyString -> ()
    | M.String (M.Ascii (b0, b1, b2, b3, b4, b5, b6, b7), r) ->
      let v = List.fold_left (fun acc x -> acc * 2 + (if x then 1 else 0)) 0 [b7; b6; b5; b4; b3; b2; b1; b0] in
      Buffer.add_char b (Char.chr v); go r in
  go s; Buffer.contents b

(* ---------- type / value / encoder syntax ---------- *)
exception Parse of String.t

(* recursive descent over a string with a cursor *)
let parse_ty (s : String.t) : M.ty =
  let pos = ref 0 in
  let peek () = if !pos < String.length s then s.[!pos] else '\000' in
  let adv () = incr pos in
  let expect c = if peek () = c then adv () else raise (Parse ("type: expected " ^ String.make 1 c ^ " in " ^ s)) in
  let number () =
    let st = !pos in
    while (match peek () with '0' .. '9' -> true | _ -> false) do adv () done;
    int_of_string (String.sub s st (!pos - st)) in
  let rec ty () : M.ty =
    match peek () with
    | 'i' | 'u' ->
      let signed = peek () = 'i' in
      adv ();
      let bits = number () in
      let p = (match signed, bits with
          | true, 8 -> M.PI8 | true, 16 -> M.PI16 | true, 32 -> M.PI32 | true, 64 -> M.PI64
          | false, 8 -> M.PU8 | false, 16 -> M.PU16 | false, 32 -> M.PU32 | false, 64 -> M.PU64
          | _ -> raise (Parse ("prim in " ^ s))) in
      M.TPrim p
    | 'a' ->
      adv ();
      let n = number () in
      expect '(';
      let t = ty () in
      expect ')';
      M.TArray (nat_of_int n, t)
    | 's' ->
      adv ();
      expect '(';
      let fs = ref [] in
      if peek () = ')' then adv ()
      else begin
        let fin = ref false in
        while not !fin do
          fs := ty () :: !fs;
          (match peek () with
           | ',' -> adv ()
           | ')' -> adv (); fin := true
           | _ -> raise (Parse ("struct in " ^ s)))
        done
      end;
      M.TStruct (List.rev !fs)
    | _ -> raise (Parse ("type " ^ s))
  in
  let t = ty () in
  if !pos <> String.length s then raise (Parse ("trailing type text " ^ s));
  t

let parse_value (s : String.t) : M.value =
  let pos = ref 0 in
  let peek () = if !pos < String.length s then s.[!pos] else '\000' in
  let adv () = incr pos in
  let token () =
    let st = !pos in
    while (match peek () with ',' | ')' | '\000' -> false | _ -> true) do adv () done;
    String.sub s st (!pos - st) in
  let rec value () : M.value =
    match peek () with
    | '(' ->
      adv ();
      let vs = ref [] in
      if peek () = ')' then adv ()
      else begin
        let fin = ref false in
        while not !fin do
          vs := value () :: !vs;
          (match peek () with
           | ',' -> adv ()
           | ')' -> adv (); fin := true
           | _ -> raise (Parse ("seq in " ^ s)))
        done
      end;
      M.VSeq (List.rev !vs)
    | _ ->
      let t = token () in
      if t = "nil" then M.VNil
      else if String.length t >= 2 && t.[0] = 'i' && t.[1] = ':' then
        M.VInt (z_of_text (String.sub t 2 (String.length t - 2)))
      else if String.length t >= 2 && t.[0] = 'b' && t.[1] = ':' then
        M.VBytes (bytes_of_hex (String.sub t 2 (String.length t - 2)))
      else raise (Parse ("value " ^ t))
  in
  let v = value () in
  if !pos <> String.length s then raise (Parse "trailing value text");
  v

let rec text_of_value (v : M.value) : String.t =
  match v with
  | M.VInt z -> "i:" ^ text_of_z z
  | M.VBytes b -> "b:" ^ hex_of_bytes b
  | M.VNil -> "nil"
  | M.VSeq vs -> "(" ^ String.concat "," (List.map text_of_value vs) ^ ")"

let parse_encoder (s : String.t) : M.encoder =
  let n = String.length s in
  if s = "S16" then M.EString16
  else if s = "Dummy" then M.EDummy
  else if n > 3 && s.[0] = 'T' && s.[2] = ':' then
    M.EType (s.[1] = 'B', parse_ty (String.sub s 3 (n - 3)))
  else if n >= 2 && s.[0] = 'B' && (match s.[1] with '0' .. '9' -> true | _ -> false) then
    M.EBytes (nat_of_int (int_of_string (String.sub s 1 (n - 1))))
  else
    match M.find_src_codec (coq_string s) M.g_int_codecs with
    | Some g -> M.EInt (M.codec_of_src g)
    | None -> raise (Parse ("encoder " ^ s))

(* ---------- running ---------- *)
let split_ws (s : String.t) : String.t list =
  List.filter (fun x -> x <> "") (String.split_on_char ' ' s)

let pr_esize out (e : M.encoder) (inp : M.byte list) =
  match M.enc_get_encoded_size e inp with
  | M.DPanic -> output_string out "esize PANIC\n"
  | M.DOk n -> Printf.fprintf out "esize %d\n" (int_of_nat n)

let pr_dec out (e : M.encoder) (inp : M.byte list) =
  match M.enc_decode e inp with
  | M.DPanic -> output_string out "dec PANIC\n"
  | M.DOk (n, v) -> Printf.fprintf out "dec %d %s\n" (int_of_nat n) (text_of_value v)

let b01 b = if b then 1 else 0

let run (inp : in_channel) (out : out_channel) =
  try
    while true do
      let line = input_line inp in
      match split_ws line with
      | "V" :: id :: enc :: value :: rest :: _ ->
        Printf.fprintf out "C %s\n" id;
        let e = parse_encoder enc in
        let v = parse_value value in
        let rest = bytes_of_hex rest in
        (match M.enc_encode e v with
         | M.DPanic -> output_string out "enc PANIC\n"
         | M.DOk bs ->
           Printf.fprintf out "enc %s\n" (hex_of_bytes bs);
           (match M.enc_get_size e v with
            | M.DPanic -> output_string out "size PANIC\n"
            | M.DOk n -> Printf.fprintf out "size %d\n" (int_of_nat n));
           let all = M.app bs rest in
           pr_esize out e all;
           pr_dec out e all)
      | "D" :: id :: enc :: input :: _ ->
        Printf.fprintf out "C %s\n" id;
        let e = parse_encoder enc in
        let bs = bytes_of_hex input in
        pr_esize out e bs;
        pr_dec out e bs
      | "G" :: id :: _ ->
        Printf.fprintf out "C %s\n" id;
        Printf.fprintf out "uintsize %d\n" (int_of_n M.g_uintsize);
        List.iter (fun (g : M.src_codec) ->
            Printf.fprintf out "codec %s signed=%d valbits=%d enc=%d/%d/%d dec=%d/%d/%d ret=%d/%d getsize=%d getencodedsize=%d\n"
              (ocaml_string g.M.sc_name) (b01 g.M.sc_signed) (int_of_n g.M.sc_valbits)
              (int_of_n g.M.sc_enc_len) (int_of_n g.M.sc_enc_bits) (b01 g.M.sc_enc_big)
              (int_of_n g.M.sc_dec_len) (int_of_n g.M.sc_dec_bits) (b01 g.M.sc_dec_big)
              (b01 g.M.sc_ret_signed) (int_of_n g.M.sc_ret_bits)
              (int_of_n g.M.sc_get_size) (int_of_n g.M.sc_get_encoded_size))
          M.g_int_codecs
      | [] -> ()
      | _ -> raise (Parse ("line " ^ line))
    done
  with End_of_file -> ()

let () =
  match Array.to_list Sys.argv with
  | _ :: "enc" :: cases :: outp :: _ ->
    let inp = open_in_bin cases in
    let out = open_out_bin outp in
    run inp out;
    close_in inp;
    close_out out
  | _ ->
    prerr_endline "usage: driver enc <cases.txt> <model.txt>";
    exit 2
