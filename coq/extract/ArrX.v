(* Extraction of the executable array model (Arrays.v, BitmapRank.v) and of its protobuf
   wire model (ArrWire.v over Varint.v/Proto.v).  ExtrOcamlBasic only:
   bool, option, unit, list, prod map to OCaml's; nat, N, Z, positive, byte stay the Coq
   inductives.  No Extract Constant of our own. *)
From Coq Require Import Extraction ExtrOcamlBasic.
From Coq Require Import NArith ZArith.
From Coq.Strings Require Import Byte.
From Slim Require Import BitmapRank Arrays Varint Proto ArrWire.
Extraction Language OCaml.
Extraction "arrx.ml"
  Byte.of_N Byte.to_N N.of_nat N.to_nat
  Arrays.U8 Arrays.U16 Arrays.U32 Arrays.U64 Arrays.I8 Arrays.I16 Arrays.I32 Arrays.I64
  Arrays.enc_size
  Arrays.base_init Arrays.array_init
  Arrays.new_typed Arrays.new_generic Arrays.new_with_encoder
  Arrays.get_bytes Arrays.base_get Arrays.typed_get Arrays.probe
  Arrays.to_msg Arrays.of_msg_typed Arrays.of_msg_generic
  Varint.blen
  ArrWire.ser_array32 ArrWire.parse_array32 ArrWire.size_array32 ArrWire.wf_array32
  ArrWire.ser_bits ArrWire.parse_bits
  ArrWire.wire_of_array32 ArrWire.array32_of_wire ArrWire.array32_wire_ok
  ArrWire.marshal_array ArrWire.unmarshal_typed ArrWire.unmarshal_generic.
