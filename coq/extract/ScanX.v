(* Extraction of the scan model (Scan.v) together with Model.build.
   ExtrOcamlBasic only; nat, N, positive, byte stay the Coq inductives. *)
From Coq Require Import Extraction ExtrOcamlBasic.
From Slim Require Import Base Keys Model Scan.
Extraction Language OCaml.
Extraction "scanx.ml"
  Byte.of_N Byte.to_N N.of_nat N.to_nat
  Model.normalize Model.build
  Scan.iter_all Scan.scan_from Scan.scan_from_to Scan.stop_at Scan.never_stop.
