#!/bin/sh
# mutrun.sh <worktree-with-change-applied> <Cxx> [tier]  - run a check from a private copy of /verif
# against another checkout of the repository, without touching /repo or /verif's work directory.
set -e
WT="$1"; PID="$2"; TIER="${3:-quick}"
COPY=/tmp/vmut
mkdir -p $COPY
rsync -a --delete --exclude .git --exclude 'work/*/cases.txt' --exclude 'work/*/impl.txt' --exclude 'work/*/model.txt' --exclude replays --exclude evidence /verif/ $COPY/
cd $COPY && VERIF_REPO="$WT" ./run.sh "$PID" "$TIER"
