#!/bin/sh
# mutrun.sh <worktree-with-change-applied> <Cxx> [tier]  - run a check from a private copy of /verif
# against another checkout of the repository, without touching /repo or /verif's work directory.
# Every invocation uses its own copy (removed afterwards) so that concurrent runs do not collide.
WT="$1"; PID="$2"; TIER="${3:-quick}"
SRC="${VERIF_SRC:-/verif}"
COPY=$(mktemp -d /tmp/vmut.XXXXXX)
# only the build products that save time are copied from work/ (harness binary, OCaml drivers)
rsync -a --exclude .git --include 'work/' --include 'work/bin/***' --include 'work/ocaml/***' --exclude 'work/*' --exclude replays --exclude evidence $SRC/ $COPY/
cd $COPY && VERIF_REPO="$WT" ./run.sh "$PID" "$TIER"
RC=$?
mkdir -p /tmp/vmut-replays && cp -f $COPY/replays/* /tmp/vmut-replays/ 2>/dev/null
cd / && rm -rf $COPY
exit $RC
