#!/bin/sh
# coverage.sh - which statements of /repo the correspondence + oracle harness actually executes.
# Builds the harness with Go's coverage instrumentation for the repository's packages, runs every
# property's quick tier (seed 1) and writes notes/coverage.txt (per package, then every function
# of hand-written code that is not fully covered).  A measurement for DESIGN.md / the generators,
# not a check (the main package is instrumented too: without it the runtime writes no data); scratch files live under a temporary directory that is removed at the end.
export GOFLAGS=-mod=mod GOPROXY=off GOSUMDB=off GOTOOLCHAIN=local
V=$(cd "$(dirname "$0")/.." && pwd)
T=$(mktemp -d /tmp/vcov.XXXXXX)
PKGS=.,github.com/openacid/slim/trie,github.com/openacid/slim/array,github.com/openacid/slim/encode,github.com/openacid/slim/index
( cd "$V/harness" && timeout 900 go build -tags verif -cover -coverpkg=$PKGS -o "$T/harness" . ) || { rm -rf "$T"; exit 2; }
IDS=$(ls "$V/checks" | sed 's/\.json$//' | grep -v '^C11$\|^C20$')
for p in $IDS; do
  mkdir -p "$T/data/$p" "$T/out/$p"
  ( GOCOVERDIR="$T/data/$p" timeout 1200 "$T/harness" prop $p --seed 1 --tier quick --out "$T/out/$p" --repo /repo > "$T/out/$p.log" 2>&1 ) &
done
wait
DIRS=$(ls -d "$T"/data/* | tr '\n' ',' | sed 's/,$//')
{
  echo "# statements of /repo executed by the harness (all checks, quick tier, seed 1), $(git -C /repo rev-parse --short HEAD)"
  ( cd "$V/harness" && go tool covdata percent -i="$DIRS" 2>&1 | grep 'openacid/slim' )
  ( cd "$V/harness" && go tool covdata textfmt -i="$DIRS" -o "$T/all.txt" && go tool cover -func="$T/all.txt" 2>/dev/null ) > "$T/func.txt"
  echo; echo "# functions of hand-written code not fully covered (generated *.pb.go and the hook file omitted)"
  grep 'openacid/slim' "$T/func.txt" | grep -v '100.0%' | grep -v '\.pb\.go\|verif_hooks' | sort -k3 -n
} > "$V/notes/coverage.txt"
cat "$V/notes/coverage.txt"
rm -rf "$T"
