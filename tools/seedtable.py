#!/usr/bin/env python3
"""seedtable.py - markdown table "seeded change -> checks run against it -> result" from the
"matrix" entries that tools/seedmatrix.py stored in seeded/<id>/meta.json."""
import json, os
rows = []
for sid in sorted(os.listdir("/verif/seeded")):
    mp = os.path.join("/verif/seeded", sid, "meta.json")
    if not os.path.exists(mp):
        continue
    m = json.load(open(mp))
    mx = m.get("matrix", {}).get("checks", {})
    what = (m.get("summary") or m.get("what") or "").strip().replace("\n", " ").replace("|", "/")
    if len(what) > 150:
        what = what[:147] + "..."
    res = []
    for c, r in mx.items():
        d = (r.get("detail") or [""])[0].replace("|", "/")
        if len(d) > 110:
            d = d[:107] + "..."
        res.append("%s: %s%s" % (c, r["result"], (" - " + d) if d else ""))
    rows.append("| %s | %s | %s |" % (sid, what, "<br>".join(res)))
print("| change | what it does | checks run against it (quick tier, seed 1) |\n|---|---|---|")
print("\n".join(rows))
