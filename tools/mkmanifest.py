#!/usr/bin/env python3
"""mkmanifest.py - derive MANIFEST.json from checks/*.json (one file per claimed property)."""
import json, os, glob
V = os.path.dirname(os.path.dirname(os.path.abspath(__file__)))
props = [json.loads(l) for l in open(os.path.join(V, "properties.jsonl"))]
checks, na = [], []
for p in props:
    pid = p["id"]
    cp = os.path.join(V, "checks", pid + ".json")
    cfg = json.load(open(cp)) if os.path.exists(cp) else None
    if cfg is None or cfg.get("not_applicable"):
        na.append({"property_id": pid, "reason": (cfg or {}).get("not_applicable", "no check built yet (work in progress)")})
        continue
    checks.append({
        "property_id": pid,
        "quick_cmd": "./run.sh %s quick" % pid,
        "thorough_cmd": "./run.sh %s thorough" % pid,
        "evidence_file": "/verif/evidence/%s.json" % pid,
        "replay_cmd_template": "./run.sh --replay {path}",
        "engine": "coq-proof+correspondence",
        "level_claimed": {"category": cfg.get("level", "proof"), "text": cfg.get("level_text", ""), "design_ref": cfg.get("design_ref", "DESIGN.md section 0.2b (status of %s as built), section 6 (plan), section 8 (trusted base)" % pid)},
        "level_note": cfg.get("level_note", ""),
        "technique": cfg.get("technique", ""),
    })
m = {
    "version": 1,
    "setup_cmd": "./run.sh --setup",
    "hooks": {
        "guard": "verif",
        "enable": "go build -tags verif (the harness module replaces github.com/openacid/slim with /repo); hook file trie/verif_hooks.go",
        "baseline_off_cmd": "cd /repo && GOFLAGS=-mod=mod GOPROXY=off GOSUMDB=off go test -mod=mod -json -vet=off -count=1 -timeout 25m ./...",
        "source_commits": ["d4e810f", "b103f3b"],
        "add_only": True,
    },
    "engines": [{
        "name": "coq-proof+correspondence", "path": "/verif/tools/check.py",
        "serves_properties": [c["property_id"] for c in checks],
        "kind_free_text": "Coq 8.16.1 theorems over a hand-written executable Gallina model (coq/theories, closing theorems in coq/props); the model is extracted (ExtrOcamlBasic) and run against the implementation built from /repo's working tree on generated inputs (correspondence); Go-side property oracles search for failing inputs; constants regenerated from source (genconsts)",
    }],
    "checks": checks,
    "not_applicable": na,
    "notes": "Every check rebuilds the harness from /repo's working tree with -tags verif. KNOWN_FINDINGS.txt lists repaired defects (fixed:) - none is suppressed.",
}
json.dump(m, open(os.path.join(V, "MANIFEST.json"), "w"), indent=1)
print("claimed:", [c["property_id"] for c in checks], "not claimed:", [n["property_id"] for n in na])
