#!/usr/bin/env python3
"""check.py - the single entry point behind ./run.sh.

  check.py <Cxx> [quick|thorough]          run the check of one property
  check.py --setup                         build everything (MANIFEST.setup_cmd)
  check.py --replay <file>                 show a replay file and re-run its case

One check =
  1. (locked) regenerate coq/gen/*.v from /repo's working tree, `make` the Coq
     development (full .vo), extract + compile the OCaml model driver(s),
     `go build -tags verif` the harness against /repo's working tree;
  2. compile coq/props/<Cxx>.v afresh, capture every `Print Assumptions`;
     scan all sources for forbidden commands;
  3. harness: generate cases from VERIF_SEED, run the implementation
     (impl.txt), run the Go-side property oracle (oracle.json);
  4. extracted model on the same cases (model.txt); compare projected observables;
  5. verdict, evidence/<Cxx>.json, exit status.
"""
import fcntl, glob, hashlib, json, os, re, shutil, subprocess, sys, time

V = os.path.dirname(os.path.dirname(os.path.abspath(__file__)))
COQ = os.path.join(V, "coq")
WORK = os.path.join(V, "work")
REPO = os.environ.get("VERIF_REPO", "/repo")
GOENV = dict(os.environ, GOFLAGS="-mod=mod", GOPROXY="off", GOSUMDB="off", GOTOOLCHAIN="local",
             CGO_ENABLED="0")
FORBIDDEN = re.compile(r"\b(Admitted|admit|Axiom|Parameter|Conjecture|Unset\s+Guard|bypass_check|"
                       r"Admit\s+Obligations|type-in-type|impredicative-set)\b")

def log(*a):
    print(*a, flush=True)

def sh(cmd, cwd=None, env=None, timeout=None, inp=None):
    """run, return (rc, combined output)"""
    try:
        p = subprocess.run(cmd, cwd=cwd, env=env, stdout=subprocess.PIPE, stderr=subprocess.STDOUT,
                           timeout=timeout, input=inp, shell=isinstance(cmd, str))
        return p.returncode, p.stdout.decode("utf-8", "replace")
    except subprocess.TimeoutExpired as e:
        out = (e.stdout or b"").decode("utf-8", "replace")
        return 124, out + "\n[timeout after %ss]" % timeout

def write_if_changed(path, text):
    old = None
    if os.path.exists(path):
        with open(path) as f:
            old = f.read()
    if old != text:
        os.makedirs(os.path.dirname(path), exist_ok=True)
        with open(path, "w") as f:
            f.write(text)
        return True
    return False

class Lock:
    def __init__(self, path):
        os.makedirs(os.path.dirname(path), exist_ok=True)
        self.f = open(path, "w")
    def __enter__(self):
        fcntl.flock(self.f, fcntl.LOCK_EX)
    def __exit__(self, *a):
        fcntl.flock(self.f, fcntl.LOCK_UN)

# ---------------------------------------------------------------- build
def coq_files():
    with open(os.path.join(COQ, "_CoqProject")) as f:
        return [l.strip() for l in f if l.strip().endswith(".v")]

def build_harness():
    os.makedirs(os.path.join(WORK, "bin"), exist_ok=True)
    cmd = ["go", "build", "-tags", "verif"]
    if os.path.realpath(REPO) != "/repo":
        # testing against another checkout of the repository (e.g. a scratch worktree with a
        # seeded change): same harness, alternative go.mod whose replace points there
        alt = os.path.join(WORK, "altmod")
        os.makedirs(alt, exist_ok=True)
        with open(os.path.join(V, "harness", "go.mod")) as f:
            gm = f.read().replace("=> /repo", "=> " + os.path.realpath(REPO))
        write_if_changed(os.path.join(alt, "go.mod"), gm)
        shutil.copy(os.path.join(V, "harness", "go.sum"), os.path.join(alt, "go.sum"))
        cmd += ["-modfile", os.path.join(alt, "go.mod")]
    # go.sum of the repository covers every dependency of the harness
    # built beside the target and renamed over it: a check that is executing the previous binary
    # (checks of different properties may run at the same time) keeps its open file
    tmp = os.path.join(WORK, "bin", "harness.new.%d" % os.getpid())
    rc, out = sh(cmd + ["-o", tmp, "."], cwd=os.path.join(V, "harness"), env=GOENV, timeout=600)
    if rc == 0:
        os.replace(tmp, os.path.join(WORK, "bin", "harness"))
    elif os.path.exists(tmp):
        os.remove(tmp)
    return rc, out

TRANSLATORS = [("genconsts", "Gen_Consts.v"), ("genc15", "Gen_IntCodecs.v")]

def gen_sources(with_effects=True):
    """translators: regenerate coq/gen/*.v from /repo's working tree"""
    msgs = []
    for sub, fn in TRANSLATORS:
        rc, out = sh([os.path.join(WORK, "bin", "harness"), sub, REPO], timeout=120)
        if rc != 0:
            return rc, "translator %s failed:\n%s" % (sub, out)
        changed = write_if_changed(os.path.join(COQ, "gen", fn), out)
        msgs.append("%s %s" % (fn, "regenerated (changed)" if changed else "unchanged"))
    # store-effect summary (go/ssa), its own small module under tools/geneffects
    gdir = os.path.join(V, "tools", "geneffects")
    if with_effects and os.path.exists(os.path.join(gdir, "main.go")):
        exe = os.path.join(WORK, "bin", "geneffects")
        rc, out = sh(["go", "build", "-o", exe, "."], cwd=gdir, env=GOENV, timeout=600)
        if rc != 0:
            return rc, "go build geneffects failed:\n" + out
        rc, out = sh([exe, REPO], cwd=gdir, env=GOENV, timeout=600)
        if rc != 0:
            return rc, "translator geneffects failed:\n" + out[-3000:]
        changed = write_if_changed(os.path.join(COQ, "gen", "Gen_Effects.v"), out)
        msgs.append("Gen_Effects.v %s" % ("regenerated (changed)" if changed else "unchanged"))
    return 0, "; ".join(msgs)

def sync_coqproject():
    """_CoqProject is derived from the files present (theories/*.v, gen/*.v)"""
    files = sorted(glob.glob(os.path.join(COQ, "gen", "*.v"))) + sorted(glob.glob(os.path.join(COQ, "theories", "*.v")))
    text = "-Q theories Slim\n-Q gen SlimGen\n" + "".join(os.path.relpath(f, COQ) + "\n" for f in files)
    return write_if_changed(os.path.join(COQ, "_CoqProject"), text)

def build_coq(targets=None):
    """full .vo build (never -vos) of the given .v files and what they depend on; all files when None"""
    mk = os.path.join(COQ, "Makefile")
    proj = os.path.join(COQ, "_CoqProject")
    changed = sync_coqproject()
    if changed or not os.path.exists(mk) or os.path.getmtime(mk) < os.path.getmtime(proj):
        rc, out = sh(["coq_makefile", "-f", "_CoqProject", "-o", "Makefile"], cwd=COQ, timeout=120)
        if rc != 0:
            return rc, out
    if targets is None:
        rc, out = sh(["make", "-j16"], cwd=COQ, timeout=3000)
    else:
        vos = sorted(set(os.path.relpath(t, COQ)[:-2] + ".vo" for t in targets
                         if t.startswith(os.path.join(COQ, "theories")) or t.startswith(os.path.join(COQ, "gen"))))
        if not vos:
            return 0, ""
        rc, out = sh(["make", "-j16"] + vos, cwd=COQ, timeout=3000)
    return rc, out

def build_drivers(only=None):
    """extract the model (ExtrOcamlBasic only) and compile the drivers, when stale"""
    msgs = []
    for ev in sorted(glob.glob(os.path.join(COQ, "extract", "*.v"))):
        name = os.path.basename(ev)[:-2]           # e.g. TrieX -> work/ocaml/TrieX/driver
        if only is not None and name not in only:
            continue
        d = os.path.join(WORK, "ocaml", name)
        drv_src = os.path.join(COQ, "extract", name + "_driver.ml")
        exe = os.path.join(d, "driver")
        # stale when any .vo or the sources are newer than the binary
        deps = [x[:-2] + ".vo" for x in coq_closure(ev) if not x.endswith(ev)] + [ev, drv_src]
        if os.path.exists(exe) and all(os.path.getmtime(x) <= os.path.getmtime(exe) for x in deps if os.path.exists(x)):
            continue
        # built in a fresh directory that replaces the old one when complete (a check of another
        # property may be executing the previous driver)
        final = d
        d = final + ".new.%d" % os.getpid()
        shutil.rmtree(d, ignore_errors=True)
        os.makedirs(d)
        rc, out = sh(["coqc", "-Q", os.path.join(COQ, "theories"), "Slim", "-Q", os.path.join(COQ, "gen"), "SlimGen",
                      "-o", os.path.join(d, name + ".vo"), ev], cwd=d, timeout=900)
        if rc != 0:
            return rc, "extraction %s failed:\n%s" % (name, out)
        shutil.copy(drv_src, os.path.join(d, "driver.ml"))
        mods = sorted(x for x in glob.glob(os.path.join(d, "*.ml")) if not x.endswith("driver.ml"))
        srcs = []
        for m in mods:
            if os.path.exists(m + "i"):
                srcs.append(os.path.basename(m) + "i")
            srcs.append(os.path.basename(m))
        rc, out = sh(["ocamlfind", "ocamlopt", "-O3", "-w", "-a", "-package", "str", "-linkpkg"] + srcs + ["driver.ml", "-o", "driver"], cwd=d, timeout=900)
        if rc != 0:
            rc, out = sh(["ocamlfind", "ocamlopt", "-w", "-a", "-package", "str", "-linkpkg"] + srcs + ["driver.ml", "-o", "driver"], cwd=d, timeout=900)
        if rc != 0:
            return rc, "ocaml build %s failed:\n%s" % (name, out)
        old_d = final + ".old.%d" % os.getpid()
        if os.path.exists(final):
            os.rename(final, old_d)
        os.rename(d, final)
        shutil.rmtree(old_d, ignore_errors=True)
        msgs.append("built driver " + name)
    return 0, "; ".join(msgs) or "drivers up to date"

def build_all(pid=None, driver=None):
    """returns (ok, stage, output). With pid: build only what that property needs."""
    targets = None
    only = None
    if pid is not None:
        targets = []
        pf = os.path.join(COQ, "props", pid + ".v")
        if os.path.exists(pf):
            targets += coq_closure(pf)
        only = []
        if driver:
            only = [driver]
            targets += coq_closure(os.path.join(COQ, "extract", driver + ".v"))
        targets.append(os.path.join(COQ, "gen", "Gen_Consts.v"))
        targets.append(os.path.join(COQ, "gen", "Gen_IntCodecs.v"))
    with Lock(os.path.join(WORK, ".buildlock")):
        rc, out = build_harness()
        if rc != 0:
            return False, "go build -tags verif (harness against /repo)", out
        rc, out = gen_sources(with_effects=(pid is None or pid in ("C11", "C20")))
        if rc != 0:
            return False, "translator", out
        gmsg = out
        rc, out = build_coq(targets)
        if rc != 0:
            return False, "coq make", out[-6000:]
        rc, out = build_drivers(only)
        if rc != 0:
            return False, "extraction/driver build", out[-6000:]
        return True, "ok", gmsg + "; " + out

# ---------------------------------------------------------------- proof stage
def coq_closure(props_file):
    """Slim.* / SlimGen.* modules a props file transitively requires -> list of .v paths"""
    seen, order = set(), []
    def mod_path(m):
        for d in ("theories", "gen", "props"):
            p = os.path.join(COQ, d, m + ".v")
            if os.path.exists(p):
                return p
        return None
    def visit(path):
        if path in seen or not path:
            return
        seen.add(path)
        with open(path) as f:
            src = f.read()
        src_nc = re.sub(r"\(\*.*?\*\)", "", src, flags=re.S)
        for m in re.finditer(r"From\s+(Slim|SlimGen)\s+Require\s+(?:Import|Export)?\s*([^.]*)\.", src_nc):
            for name in m.group(2).split():
                visit(mod_path(name))
        order.append(path)
    visit(props_file)
    return order

def count_obligations(paths):
    n = 0
    names = []
    for p in paths:
        with open(p) as f:
            src = re.sub(r"\(\*.*?\*\)", "", f.read(), flags=re.S)
        for m in re.finditer(r"\b(Theorem|Lemma|Corollary|Example|Fact|Proposition)\s+([A-Za-z0-9_']+)", src):
            n += 1
            names.append(m.group(2))
    return n, names

def scan_forbidden():
    bad = []
    for p in glob.glob(os.path.join(COQ, "**", "*.v"), recursive=True):
        with open(p) as f:
            src = re.sub(r"\(\*.*?\*\)", "", f.read(), flags=re.S)
        for i, line in enumerate(src.split("\n")):
            if FORBIDDEN.search(line):
                bad.append("%s:%d: %s" % (os.path.relpath(p, V), i + 1, line.strip()[:100]))
    return bad

def proof_stage(pid, work):
    """compile props/<pid>.v from scratch, collect Print Assumptions"""
    pf = os.path.join(COQ, "props", pid + ".v")
    res = {"props_file": os.path.relpath(pf, V), "ok": False, "theorems": [], "assumptions": {}, "log": ""}
    if not os.path.exists(pf):
        res["log"] = "no props file"
        return res
    t0 = time.time()
    rc, out = sh(["coqc", "-Q", os.path.join(COQ, "theories"), "Slim", "-Q", os.path.join(COQ, "gen"), "SlimGen",
                  "-o", os.path.join(work, pid + ".vo"), pf], cwd=work, timeout=1500)
    res["coqc_s"] = round(time.time() - t0, 1)
    res["log"] = out[-4000:]
    with open(pf) as f:
        src = re.sub(r"\(\*.*?\*\)", "", f.read(), flags=re.S)
    thms = re.findall(r"\bTheorem\s+([A-Za-z0-9_']+)", src)
    printed = re.findall(r"Print\s+Assumptions\s+([A-Za-z0-9_'.]+)\s*\.", src)
    res["theorems"] = thms
    # Print Assumptions output, in order
    chunks = re.split(r"(?m)^(?=Closed under the global context|Axioms:)", out)
    outs = [c.strip() for c in chunks if c.startswith("Closed under") or c.startswith("Axioms:")]
    for name, o in zip(printed, outs):
        res["assumptions"][name] = o if o.startswith("Axioms:") else "Closed under the global context"
    res["all_closed"] = (len(outs) == len(printed) and all(o.startswith("Closed under") for o in outs))
    res["ok"] = (rc == 0)
    res["printed_for_all_theorems"] = all(t in printed for t in thms)
    return res

# ---------------------------------------------------------------- comparison
def split_cases(path):
    cases, cur, cid = {}, None, None
    order = []
    if not os.path.exists(path):
        return cases, order
    with open(path, errors="replace") as f:
        for line in f:
            line = line.rstrip("\n")
            if line.startswith("C "):
                cid = line[2:].strip()
                cur = []
                cases[cid] = cur
                order.append(cid)
            elif cur is not None:
                cur.append(line)
    return cases, order

def compare(impl_path, model_path):
    ic, order = split_cases(impl_path)
    mc, morder = split_cases(model_path)
    mism = []
    lines = 0
    for cid in order:
        a = ic[cid]
        b = mc.get(cid)
        lines += len(a)
        if b is None:
            mism.append({"case": cid, "line": 0, "impl": a[:1], "model": ["<missing case>"]})
            continue
        if a != b:
            k = 0
            while k < min(len(a), len(b)) and a[k] == b[k]:
                k += 1
            mism.append({"case": cid, "line": k, "impl": a[k:k + 1], "model": b[k:k + 1]})
    for cid in morder:
        if cid not in ic:
            mism.append({"case": cid, "line": 0, "impl": ["<missing case>"], "model": mc[cid][:1]})
    return len(order), lines, mism

def case_text(cases_path, cid):
    """the input block of one case from cases.txt (blocks start with 'T <id> ' or similar and end with 'E')"""
    out, on = [], False
    if not os.path.exists(cases_path):
        return out
    with open(cases_path, errors="replace") as f:
        for line in f:
            s = line.rstrip("\n")
            parts = s.split(" ")
            if len(parts) >= 2 and parts[0].isupper() and len(parts[0]) <= 2 and parts[1] == cid and not on and parts[0] != "Q" and parts[0] != "K":
                on = True
            if on:
                out.append(s)
                if s == "E":
                    break
    return out[:4000]

# ---------------------------------------------------------------- known findings
def known_findings(pid):
    kf = []
    p = os.path.join(V, "KNOWN_FINDINGS.txt")
    if os.path.exists(p):
        with open(p) as f:
            for line in f:
                line = line.strip()
                m = re.match(r"known:\s+property=(\S+)\s+key=(\S+)\s+(.*)", line)
                if m and m.group(1) == pid:
                    kf.append((m.group(2), m.group(3)))
    return kf

# ---------------------------------------------------------------- main check
def ev_path(pid, report_as=None):
    if report_as:
        return os.path.join(WORK, report_as + "+" + pid, "evidence.json")
    return os.path.join(V, "evidence", pid + ".json")

def run_check(pid, tier, report_as=None):
    t0 = time.time()
    seed = int(os.environ.get("VERIF_SEED", "1") or "1")
    cfgp = os.path.join(V, "checks", pid + ".json")
    with open(cfgp) as f:
        cfg = json.load(f)
    # a sub-check run on behalf of a property has its own work directory, evidence and replay
    # file, so that two properties sharing a sub-check can be checked at the same time
    tag = pid if not report_as else report_as + "+" + pid
    work = os.path.join(WORK, tag)
    shutil.rmtree(work, ignore_errors=True)
    os.makedirs(work)
    os.makedirs(os.path.join(V, "replays"), exist_ok=True)
    os.makedirs(os.path.join(V, "evidence"), exist_ok=True)
    evp = ev_path(pid, report_as)
    if os.path.exists(evp):
        os.remove(evp)
    replay_path = os.path.join(V, "replays", "%s-%s-%d.json" % (tag, tier, seed))
    broken = []      # proof obligations / correspondences that no longer check
    violations = []  # concrete failing inputs on the implementation
    notes = []

    ok, stage, out = build_all(pid, (cfg.get("driver") or {}).get("name"))
    proof = {"ok": False, "theorems": [], "assumptions": {}, "log": "not run"}
    oracle = {}
    ncases = nlines = 0
    mism = []
    if not ok:
        broken.append({"kind": "build", "what": stage, "detail": out[-3000:]})
    else:
        notes.append(out)
        proof = proof_stage(pid, work)
        if not proof["ok"]:
            broken.append({"kind": "proof", "what": "coqc %s failed" % proof.get("props_file"), "detail": proof["log"][-3000:]})
        elif not proof.get("all_closed"):
            # standard-library axioms are allowed only when whitelisted in the config
            allowed = cfg.get("allowed_axioms", [])
            for name, a in proof["assumptions"].items():
                if a.startswith("Axioms:"):
                    names = re.findall(r"(?m)^\s*([A-Za-z0-9_.']+)\s*:", a[len("Axioms:"):])
                    extra = [n for n in names if n not in allowed]
                    if extra:
                        broken.append({"kind": "proof", "what": "theorem %s depends on axioms %s" % (name, extra), "detail": a})
            if len(proof["assumptions"]) == 0:
                broken.append({"kind": "proof", "what": "no Print Assumptions output", "detail": proof["log"][-2000:]})
        if not proof.get("printed_for_all_theorems", True):
            broken.append({"kind": "proof", "what": "a Theorem in props file lacks Print Assumptions", "detail": ""})
    bad = scan_forbidden()
    if bad:
        broken.append({"kind": "proof", "what": "forbidden command in Coq sources", "detail": "\n".join(bad[:20])})

    # harness + model.  The Go-side oracle does not depend on the Coq build: when a proof
    # obligation (e.g. one over a regenerated constant) or the extraction no longer builds, the
    # oracle still searches the implementation for a failing input.
    harness_ready = ok or (stage != "go build -tags verif (harness against /repo)" and os.path.exists(os.path.join(WORK, "bin", "harness")))
    if harness_ready:
        hcmd = [os.path.join(WORK, "bin", "harness"), "prop", pid, "--seed", str(seed), "--tier", tier, "--out", work, "--repo", REPO]
        tmo = cfg.get("timeout_s", {}).get(tier, 900 if tier == "quick" else 7200)
        th = time.time()
        rc, hout = sh(hcmd, cwd=V, env=GOENV, timeout=tmo)
        harness_s = round(time.time() - th, 1)
        with open(os.path.join(work, "harness.log"), "w") as f:
            f.write(hout)
        op = os.path.join(work, "oracle.json")
        if rc != 0 or not os.path.exists(op):
            broken.append({"kind": "harness", "what": "harness exited %d" % rc, "detail": hout[-3000:]})
            # findings flushed before the process died (an implementation that exhausts memory or
            # never returns gets the harness killed): they are failing inputs all the same
            pp = os.path.join(work, "oracle.partial.json")
            if os.path.exists(pp):
                try:
                    with open(pp) as f:
                        for v in json.load(f).get("violations", []):
                            violations.append(v)
                except Exception:
                    pass
            ip = os.path.join(work, "inflight.json")
            if os.path.exists(ip) and not violations:
                try:
                    with open(ip) as f:
                        violations.append({"key": pid + ":process-died", "what": "%s: the process died (exit %d) while the implementation ran on this input" % (pid, rc), "replay": json.load(f).get("replay")})
                except Exception:
                    pass
        else:
            with open(op) as f:
                oracle = json.load(f)
            oracle["harness_s"] = harness_s
            for v in oracle.get("violations", []):
                violations.append(v)
        drv = cfg.get("driver") if ok else None
        if drv and os.path.exists(os.path.join(work, "cases.txt")):
            exe = os.path.join(WORK, "ocaml", drv["name"], "driver")
            tm = time.time()
            rc, dout = sh("ulimit -v 12000000; ulimit -s unlimited 2>/dev/null || ulimit -s 1000000 2>/dev/null; exec %s %s %s %s" % (exe, drv["mode"], os.path.join(work, "cases.txt"), os.path.join(work, "model.txt")),
                          timeout=tmo)
            model_s = round(time.time() - tm, 1)
            if rc != 0:
                broken.append({"kind": "correspondence", "what": "model driver exited %d" % rc, "detail": dout[-2000:]})
            else:
                ncases, nlines, mism = compare(os.path.join(work, "impl.txt"), os.path.join(work, "model.txt"))
                oracle["model_s"] = model_s
                # extraction cross-check: a sample of the cases is evaluated inside Coq (vm_compute)
                # and must give what the extracted OCaml model printed
                if drv["name"] == "TrieX":
                    xv = os.path.join(work, "crosscheck.v")
                    rcx, outx = sh(["python3", os.path.join(V, "tools", "crosscheck.py"), os.path.join(work, "cases.txt"),
                                    os.path.join(work, "model.txt"), xv, "8" if tier == "quick" else "60"], timeout=300)
                    nx = int(outx.strip().split()[-1]) if rcx == 0 and outx.strip() else 0
                    if nx > 0:
                        rcx, outx = sh(["coqc", "-Q", os.path.join(COQ, "theories"), "Slim", "-Q", os.path.join(COQ, "gen"), "SlimGen", xv], cwd=work, timeout=1200)
                        oracle["extraction_crosscheck"] = {"cases_evaluated_in_coq": nx, "agree": rcx == 0}
                        if rcx != 0:
                            broken.append({"kind": "correspondence", "what": "extracted model and vm_compute disagree (crosscheck.v)", "detail": outx[-2000:]})
                if mism:
                    first = mism[0]
                    broken.append({"kind": "correspondence",
                                   "what": "model and implementation differ on %d of %d cases (first: case %s line %d)" % (len(mism), ncases, first["case"], first["line"]),
                                   "detail": first, "input": case_text(os.path.join(work, "cases.txt"), first["case"])})
        elif drv:
            broken.append({"kind": "correspondence", "what": "harness wrote no cases.txt", "detail": ""})

    # thorough: independent re-check of the compiled closure (coqchk), once per run
    coqchk = None
    if ok and tier == "thorough" and cfg.get("coqchk", True) and proof["ok"]:
        tc = time.time()
        rc, cout = sh(["coqchk", "-silent", "-o", "-Q", os.path.join(COQ, "theories"), "Slim", "-Q", os.path.join(COQ, "gen"), "SlimGen",
                       "-R", work, "", pid], cwd=work, timeout=3000)
        coqchk = {"rc": rc, "s": round(time.time() - tc, 1), "tail": cout[-1500:]}
        if rc != 0:
            broken.append({"kind": "proof", "what": "coqchk rejected the compiled closure", "detail": cout[-2000:]})

    # known findings filter
    kf = known_findings(pid)
    reported = []
    for v in violations:
        key = v.get("key", "")
        hit = [k for k in kf if k[0] == key]
        if hit:
            log("KNOWN-FINDING: property=%s %s" % (report_as or pid, hit[0][1]))
        else:
            reported.append(v)

    status = 0
    if reported:
        with open(replay_path, "w") as f:
            json.dump({"property": pid, "tier": tier, "seed": seed, "kind": "failing-input",
                       "violations": reported[:20], "also_broken": broken}, f, indent=1)
        log("VIOLATION property=%s replay=%s" % (report_as or pid, replay_path))
        for v in reported[:5]:
            log("  " + str(v.get("what", ""))[:300])
        status = 1
    elif broken:
        with open(replay_path, "w") as f:
            json.dump({"property": pid, "tier": tier, "seed": seed, "kind": "no-failing-input-found",
                       "no_longer_checks": broken,
                       "search": {"evaluations": oracle.get("evaluations", 0), "note": "the Go-side property oracle ran on these inputs and found no input on which the implementation breaks the property as stated"}},
                      f, indent=1)
        for b in broken[:5]:
            log("  no longer checks: [%s] %s" % (b["kind"], b["what"]))
        log("VIOLATION property=%s replay=%s no-failing-input-found" % (report_as or pid, replay_path))
        status = 1

    # evidence
    closure = coq_closure(os.path.join(COQ, "props", pid + ".v")) if os.path.exists(os.path.join(COQ, "props", pid + ".v")) else []
    nobl, names = count_obligations(closure)
    discharged = nobl if (ok and proof["ok"]) else 0
    cov = {
        "obligations": nobl,
        "discharged": discharged,
        "checker_cmd": "make -C coq (coqc 8.16.1, full .vo) && coqc coq/props/%s.v" % pid + (" && coqchk -o" if coqchk else ""),
        "trusted_base": cfg.get("trusted_base", []) + [
            "Coq 8.16.1 kernel (coqc; vm_compute used for finite reflection and model evaluation; no native_compute)",
            "extraction: ExtrOcamlBasic only (bool/option/unit/list/prod/sumbool/sumor + inlined andb/orb/negb/fst/snd); nat/N/Z/positive/byte stay Coq inductives; OCaml 4.13.1; hand-written driver (parsing/printing)",
            "Go harness (generators, canonicalisation, oracles) and the build-tag-verif hook file trie/verif_hooks.go",
            "translator genconsts (go/parser) for coq/gen/Gen_Consts.v",
        ],
        "property_theorems": proof.get("theorems", []),
        "print_assumptions": proof.get("assumptions", {}),
        "coq_files_in_closure": [os.path.relpath(p, V) for p in closure],
        "evaluations": int(oracle.get("evaluations", 0)),
        "distinct_nontrivial": int(oracle.get("distinct_nontrivial", 0)),
        "rule": oracle.get("rule", ""),
        "samples": oracle.get("samples", [])[:5],
        "distribution": oracle.get("distribution", {}),
        "correspondence": {"cases_compared": ncases, "observable_lines_compared": nlines, "mismatching_cases": len(mism),
                           "model_s": oracle.get("model_s"), "harness_s": oracle.get("harness_s")},
        "oracle": oracle.get("oracle", {}),
        "extraction_crosscheck": oracle.get("extraction_crosscheck", {}),
        "proved_layer": cfg.get("proved_layer", ""),
        "statement_status": cfg.get("statement_status", ""),
        "broken": [b["what"] for b in broken],
        "notes": notes,
    }
    if coqchk:
        cov["coqchk"] = coqchk
    ev = {
        "property_id": pid, "tier": tier, "seed": seed, "level": cfg.get("level", "proof"),
        "coverage": cov,
        "assumptions": cfg.get("assumptions", []),
        "wall_s": round(time.time() - t0, 1),
        "violations": len(reported) + (1 if (broken and not reported) else 0),
    }
    with open(evp, "w") as f:
        json.dump(ev, f, indent=1)
    log("%s %s: %s  (theorems %s; obligations %d; cases %d, lines %d; oracle evaluations %s; %.0fs)" % (
        pid, tier, "OK" if status == 0 else "FAIL", ",".join(proof.get("theorems", [])) or "-", nobl, ncases, nlines,
        oracle.get("evaluations", 0), time.time() - t0))
    return status

def main():
    a = sys.argv[1:]
    if not a:
        print(__doc__)
        return 2
    if a[0] == "--setup":
        # build what the claimed checks need (closure of each props file + its driver)
        os.makedirs(WORK, exist_ok=True)
        rc = 0
        for cp in sorted(glob.glob(os.path.join(V, "checks", "*.json"))):
            pid = os.path.basename(cp)[:-5]
            with open(cp) as f:
                cfg = json.load(f)
            if cfg.get("not_applicable"):
                continue
            t0 = time.time()
            ok, stage, out = build_all(pid, (cfg.get("driver") or {}).get("name"))
            log("setup %s: %s (%.0fs)" % (pid, "ok" if ok else "FAILED at " + stage, time.time() - t0))
            if not ok:
                log(out[-3000:])
                rc = 1
        return rc
    if a[0] == "--replay":
        with open(a[1]) as f:
            print(f.read())
        return 0
    pid = a[0]
    tier = a[1] if len(a) > 1 else os.environ.get("VERIF_TIER", "quick")
    if tier not in ("quick", "thorough"):
        tier = "quick"
    status = run_check(pid, tier)
    # sub-checks that belong to the same property (a deeper layer of the same model): they have
    # their own props file / harness stream / evidence file and are reported under the property
    with open(os.path.join(V, "checks", pid + ".json")) as f:
        cfg = json.load(f)
    subs = {}
    for sub in cfg.get("also", []):
        st = run_check(sub, tier, report_as=pid)
        try:
            with open(ev_path(sub, pid)) as f:
                se = json.load(f)
            subs[sub] = {"status": "ok" if st == 0 else "violation", "property_theorems": se["coverage"].get("property_theorems"),
                         "print_assumptions": se["coverage"].get("print_assumptions"), "obligations": se["coverage"].get("obligations"),
                         "evaluations": se["coverage"].get("evaluations"), "correspondence": se["coverage"].get("correspondence"),
                         "proved_layer": se["coverage"].get("proved_layer"), "wall_s": se.get("wall_s")}
        except Exception as ex:
            subs[sub] = {"status": "no evidence", "error": str(ex)}
        status = status or st
    if subs:
        evp = os.path.join(V, "evidence", pid + ".json")
        with open(evp) as f:
            ev = json.load(f)
        ev["coverage"]["sub_checks"] = subs
        ev["wall_s"] = round(ev.get("wall_s", 0) + sum((v.get("wall_s") or 0) for v in subs.values()), 1)
        if status and not ev.get("violations"):
            ev["violations"] = 1
        with open(evp, "w") as f:
            json.dump(ev, f, indent=1)
    return status

if __name__ == "__main__":
    sys.exit(main())
