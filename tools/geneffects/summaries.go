package main

// External summaries: every call that leaves package trie is opaque to the
// analysis. Its effect on memory is ASSUMED to be what this table says. Each
// entry that is used is printed into Gen_Effects.v (external_assumptions) and
// copied into the evidence; none of it is proved. A callee that is not in the
// table yields an Unknown effect, which makes the frame theorems fail.
//
// Argument indexes count the receiver of a method as argument 0.

type extSum struct {
	Writes    []int    // arguments whose pointee memory the callee may write (copying bytes/values into it, retaining no pointer)
	CacheOnly bool     // the writes only touch the protobuf XXX_sizecache words of the argument (sync/atomic)
	Retain    [][2]int // {dst, src}: memory of argument dst may keep pointers into memory of argument src
	Fresh     bool     // result is (or points into) memory allocated by the callee, private to the caller
	FreshKeep []int    // ... and that fresh memory keeps pointers into these arguments
	Alias     []int    // result may point into memory reachable from these arguments
	Callbacks []string // methods of package trie the callee may call on its interface-typed arguments
	CallsFunc bool     // the callee may call function-typed arguments
	Note      string
}

var pure = extSum{Note: "pure: reads its arguments, writes nothing, result is a scalar/string or absent"}

func pureN(note string) extSum { return extSum{Note: "pure: " + note} }
func fresh(note string) extSum {
	return extSum{Fresh: true, Note: "reads its arguments, returns freshly allocated memory: " + note}
}

var summaries = map[string]extSum{
	// --- github.com/openacid/low: bit tricks over slices, no state
	"github.com/openacid/low/bitmap.Rank64":           pure,
	"github.com/openacid/low/bitmap.Rank128":          pure,
	"github.com/openacid/low/bitmap.Select32R64":      pure,
	"github.com/openacid/low/bitmap.SafeGet1":         pure,
	"github.com/openacid/low/bitmap.Get":              pure,
	"github.com/openacid/low/bitmap.Get1":             pure,
	"github.com/openacid/low/bitmap.Getw":             pure,
	"github.com/openacid/low/bitmap.ToArray":          fresh("[]int32 of the set bits"),
	"github.com/openacid/low/bitmap.Of":               fresh("bitmap words"),
	"github.com/openacid/low/bitmap.OfMany":           fresh("bitmap words"),
	"github.com/openacid/low/bitmap.Slice":            fresh("copied bit range"),
	"github.com/openacid/low/bitmap.IndexRank64":      fresh("rank index"),
	"github.com/openacid/low/bitmap.IndexRank128":     fresh("rank index"),
	"github.com/openacid/low/bitmap.IndexSelect32":    fresh("select index"),
	"github.com/openacid/low/bitmap.IndexSelect32R64": fresh("select index"),
	// --- github.com/openacid/slim/array: the legacy (<0.5.10) containers, read-only accessors
	"(*github.com/openacid/slim/array.Base).GetBytes": {Alias: []int{0}, Note: "a sub-slice of the legacy array's own Elts; writes nothing"},
	"(*github.com/openacid/slim/array.U16).Get":       pure,
	"github.com/openacid/low/bitmap.Fmt":              pure,
	"github.com/openacid/low/bitstr.New":              fresh("bitstr bytes copied out of a string"),
	// bitstr.StrCmpUpto is deliberately NOT summarised: it reinterprets a 16-byte string header as
	// a 24-byte slice header (the capacity is whatever follows on the stack), see defect D6
	// (fixed by 650a41a). A call to it counts as an unsummarised callee and breaks facts_ok.
	"github.com/openacid/low/bitstr.CmpUpto":          pure,
	"github.com/openacid/low/bitstr.Cmp":              pure,
	"github.com/openacid/low/bitstr.Len":              pure,
	"github.com/openacid/low/bmtree.Decode":           fresh("decoded paths"),
	"github.com/openacid/low/bmtree.PathStr":          pure,
	"github.com/openacid/low/bmtree.PathsOf":          fresh("paths"),
	"github.com/openacid/low/bmtree.PathOf":           pure,
	"github.com/openacid/low/bmtree.PathLen":          pure,
	"github.com/openacid/low/bmtree.PathToIndex":      pure,
	"github.com/openacid/low/bmtree.AllPaths":         fresh("paths"),
	"github.com/openacid/low/sigbits.New": {Fresh: true, FreshKeep: []int{0},
		Note: "returns a fresh *SigBits; it may keep the keys slice (used only inside newSlim)"},
	"(*github.com/openacid/low/sigbits.SigBits).CountPrefixes": fresh("counters"),
	"github.com/openacid/low/vers.IsCompatible":                pure,
	"github.com/openacid/low/vers.Check":                       pure,
	"github.com/openacid/low/tree.String": {Callbacks: []string{"Child", "Labels", "NodeID", "LabelInfo", "NodeInfo", "LeafVal"},
		Note: "walks the tree.Tree by calling its methods (analysed: they are in package trie); writes nothing itself; returns a string"},

	// --- pbcmpl / protobuf (library internals: assumed)
	"github.com/openacid/low/pbcmpl.Marshal": {Writes: []int{0}, Callbacks: []string{"GetVersion", "XXX_Size", "XXX_Marshal", "ProtoMessage"},
		Note: "proto.Marshal(msg) into fresh bytes, then w.Write: writes only the writer (argument 0), copying; keeps no pointer into msg; msg itself is touched only through the callbacks XXX_Size/XXX_Marshal"},
	"github.com/openacid/low/pbcmpl.Unmarshal": {Writes: []int{1}, Callbacks: []string{"Reset", "XXX_Unmarshal", "ProtoMessage"},
		Note: "reads header and body from the reader into FRESH buffers (io.ReadFull), proto.Unmarshal(body, msg): writes msg (argument 1); msg keeps no pointer into the reader's buffer; the reader is advanced"},
	"github.com/openacid/low/pbcmpl.ReadHeader": {Fresh: true,
		Note: "reads 32 bytes from the reader into a fresh header; result does not alias the reader's buffer"},
	"(*github.com/openacid/low/pbcmpl.headerInfo).GetVersion": pure,
	"invoke github.com/openacid/low/pbcmpl.Header.GetVersion": pure,
	"(*github.com/golang/protobuf/proto.InternalMessageInfo).Size": {Writes: []int{1}, CacheOnly: true,
		Note: "computes the encoded size of the message; stores it with sync/atomic into the XXX_sizecache words of the message (and nested messages); the stored value is a function of the immutable message; package trie never reads that field"},
	"(*github.com/golang/protobuf/proto.InternalMessageInfo).Marshal": {Writes: []int{1}, Alias: []int{1},
		Note: "appends the encoding of the message (argument 2, read-only apart from atomic XXX_sizecache loads) to the byte slice argument 1 and returns it; copies all bytes fields"},
	"(*github.com/golang/protobuf/proto.InternalMessageInfo).Unmarshal": {Writes: []int{1},
		Note: "decodes argument 2 into the message argument 1; `bytes` and repeated fields are COPIED into fresh slices (golang/protobuf v1.3.1 table_unmarshal: append(emptyBuf[:], b[:x]...)); the message keeps no pointer into argument 2"},
	"(*github.com/golang/protobuf/proto.InternalMessageInfo).Merge": {Writes: []int{1},
		Note: "deep-copies src into dst"},
	"(*github.com/golang/protobuf/proto.InternalMessageInfo).DiscardUnknown": {Writes: []int{1}, Note: "drops XXX_unrecognized of the message"},
	"github.com/golang/protobuf/proto.CompactTextString":                     pure,
	"github.com/golang/protobuf/proto.RegisterType":                          pure,

	// --- the value encoder (interface encode.Encoder; implementations are the caller's)
	"invoke github.com/openacid/slim/encode.Encoder.Encode": {Alias: []int{1}, Fresh: true,
		Note: "returns the encoded bytes of the value: fresh, or (encode.Bytes) the caller's own []byte; assumed to write nothing"},
	"invoke github.com/openacid/slim/encode.Encoder.Decode": {Alias: []int{1}, Fresh: true,
		Note: "returns the decoded value: fresh, or (encode.Bytes.Decode) a slice ALIASING its input, i.e. memory of the trie; assumed to write nothing"},
	"invoke github.com/openacid/slim/encode.Encoder.GetSize":        pureN("size of a value"),
	"invoke github.com/openacid/slim/encode.Encoder.GetEncodedSize": pureN("size of an encoded value"),

	// --- standard library
	"bytes.NewBuffer":                       {Fresh: true, FreshKeep: []int{0}, Note: "fresh *Buffer that adopts the given slice"},
	"bytes.NewReader":                       {Fresh: true, FreshKeep: []int{0}, Note: "fresh *Reader that reads from (keeps) the given slice, never writes it"},
	"(*bytes.Buffer).Bytes":                 {Alias: []int{0}, Note: "the buffer's own storage"},
	"(*bytes.Buffer).String":                pure,
	"(*bytes.Buffer).Write":                 {Writes: []int{0}, Note: "copies p into the buffer"},
	"(*bytes.Buffer).WriteString":           {Writes: []int{0}, Note: "copies s into the buffer"},
	"bytes.Equal":                           pure,
	"bytes.Compare":                         pure,
	"math/bits.OnesCount64":                 pure,
	"math/bits.TrailingZeros8":              pure,
	"math/bits.TrailingZeros64":             pure,
	"math/bits.Len64":                       pure,
	"math/bits.Len32":                       pure,
	"strings.Join":                          pure,
	"strings.Repeat":                        pure,
	"strings.Split":                         fresh("substrings (strings are immutable)"),
	"fmt.Sprintf":                           pureN("formats its operands into a new string; calls String()/Error() only on operands that have them"),
	"fmt.Sprint":                            pureN("formats its operands into a new string"),
	"fmt.Errorf":                            fresh("a new error value"),
	"sort.Strings":                          {Writes: []int{0}, Note: "sorts the slice in place"},
	"sort.Slice":                            {Writes: []int{0}, CallsFunc: true, Note: "sorts the slice in place, calling less"},
	"sort.Sort":                             {Writes: []int{0}, Note: "sorts in place through the interface"},
	"(encoding/binary.littleEndian).Uint32": pure,
	"(encoding/binary.littleEndian).Uint64": pure,
	"(encoding/binary.littleEndian).Uint16": pure,
	"reflect.ValueOf":                       {Alias: []int{0}, Note: "a reflect.Value referring to the same memory as the interface operand"},
	"(reflect.Value).Index":                 {Alias: []int{0}, Note: "element i of the slice, same memory"},
	"(reflect.Value).Interface":             {Alias: []int{0}, Fresh: true, Note: "the element boxed in an interface: a copy for scalars, the same backing memory for slices"},
	"(reflect.Value).IsNil":                 pure,
	"(reflect.Value).Len":                   pure,
	"(reflect.Value).Kind":                  pure,

	// --- openacid/errors, openacid/must
	"github.com/openacid/errors.WithMessage": {Fresh: true, FreshKeep: []int{0}, Note: "wraps an error"},
	"github.com/openacid/errors.Wrapf":       {Fresh: true, FreshKeep: []int{0}, Note: "wraps an error"},
	"github.com/openacid/errors.Wrap":        {Fresh: true, FreshKeep: []int{0}, Note: "wraps an error"},
	"github.com/openacid/errors.New":         fresh("a new error value"),
}

// must.Be.* are assertions: no-ops in the default build, panics with -tags debug.
func mustSummary(name string) (extSum, bool) {
	const p1 = "(*github.com/openacid/must/disabled.foo)."
	if len(name) > len(p1) && name[:len(p1)] == p1 {
		return extSum{CallsFunc: true, Note: "assertion of package must: compiled to a no-op in the default build (may call the function it is given; writes nothing)"}, true
	}
	return extSum{}, false
}
