// geneffects: store-effect summary of github.com/openacid/slim/trie for the
// Coq development in /verif (properties C11 and C20).
//
//	geneffects <repo-dir>  > coq/gen/Gen_Effects.v
//
// It loads package trie of the working tree (default build: no build tags),
// builds SSA, and for three groups of entry points
//
//	read : Get GetID RangeGet Search searchID GetI8..GetI64 ScanFrom ScanFromTo
//	       NewIter (and the closures it returns) Stat String Marshal
//	build: NewSlimTrie
//	load : Unmarshal Reset
//
// runs a small flow-insensitive, field-insensitive, context-insensitive
// points-to analysis over the functions of package trie reachable from the
// entries. Abstract objects: one per allocation site (FreshAlloc), one for all
// memory reachable from the entry's receiver (Receiver), one per entry
// parameter (Param i), one for package variables (Global), Unknown. Strings are
// immutable and carry no object. Calls leaving the package are replaced by the
// assumptions in summaries.go. For every instruction that writes memory the
// root kinds of the written address are printed; nothing is dropped: an address
// with no known root is printed as Unknown.
//
// TRUSTED: this program, go/ssa, and the summaries. See Effects.v for how the
// output is consumed.
package main

import (
	"fmt"
	"go/token"
	"go/types"
	"os"
	"path/filepath"
	"sort"
	"strings"

	"golang.org/x/tools/go/packages"
	"golang.org/x/tools/go/ssa"
	"golang.org/x/tools/go/ssa/ssautil"
)

const triePath = "github.com/openacid/slim/trie"

type okind int

const (
	kFresh okind = iota
	kRecv
	kParam
	kGlobal
	kUnknown
	kCode     // a function value without state: nothing to write
	kLibCache // only produced when printing (CacheOnly write into Receiver memory)
)

type object struct {
	kind okind
	idx  int // parameter index for kParam
	desc string
	fn   *ssa.Function // closure/code objects: the function
}

type set map[int]bool

// centry: object obj was stored into a cell of static type tk ("" = any type).
type centry struct {
	obj int
	tk  string
}

type effect struct {
	fn, instr, path string
	kind            okind
	idx             int
}

type ifaceRec struct {
	t types.Type
	v ssa.Value
}

type analysis struct {
	prog    *ssa.Program
	pkg     *ssa.Package
	group   string
	entries []*ssa.Function

	objs    []object
	site    map[interface{}]int
	pts     map[ssa.Value]set
	cont    map[int]map[centry]bool
	types   map[string]types.Type
	compatM map[[2]string]bool
	ret     map[*ssa.Function]set
	reach   map[*ssa.Function]bool
	order   []*ssa.Function
	ifaces  []ifaceRec
	ifseen  map[string]bool
	changed bool

	collect  bool
	effects  map[effect]bool
	used     map[string]extSum // external summaries used
	unknown  map[string]bool   // callees without summary
	facts    map[string]bool
	recvObj  int
	globObj  int
	unkObj   int
	paramObj map[string]int
}

func newAnalysis(prog *ssa.Program, pkg *ssa.Package, group string, entries []*ssa.Function) *analysis {
	a := &analysis{prog: prog, pkg: pkg, group: group, entries: entries,
		site: map[interface{}]int{}, pts: map[ssa.Value]set{}, cont: map[int]map[centry]bool{}, types: map[string]types.Type{}, compatM: map[[2]string]bool{}, ret: map[*ssa.Function]set{},
		reach: map[*ssa.Function]bool{}, ifseen: map[string]bool{}, effects: map[effect]bool{},
		used: map[string]extSum{}, unknown: map[string]bool{}, facts: map[string]bool{}, paramObj: map[string]int{}}
	a.recvObj = a.newObj(object{kind: kRecv, desc: "receiver"})
	a.globObj = a.newObj(object{kind: kGlobal, desc: "package variables"})
	a.unkObj = a.newObj(object{kind: kUnknown, desc: "unknown"})
	// collapsed objects contain themselves
	a.addCont(a.recvObj, set{a.recvObj: true}, nil)
	a.addCont(a.globObj, set{a.globObj: true}, nil)
	a.addCont(a.unkObj, set{a.unkObj: true}, nil)
	for _, f := range entries {
		a.markReach(f)
		np := 0
		for i, p := range f.Params {
			if i == 0 && f.Signature.Recv() != nil {
				a.add(p, set{a.recvObj: true})
				continue
			}
			if hasPtr(p.Type()) {
				key := fmt.Sprintf("%s#%d", f.Name(), np)
				o := a.newObj(object{kind: kParam, idx: np, desc: "parameter " + p.Name() + " of " + f.Name()})
				a.paramObj[key] = o
				a.addCont(o, set{o: true}, nil)
				a.add(p, set{o: true})
			}
			np++
		}
	}
	return a
}

func (a *analysis) newObj(o object) int { a.objs = append(a.objs, o); return len(a.objs) - 1 }

func (a *analysis) siteObj(key interface{}, mk func() object) int {
	if o, ok := a.site[key]; ok {
		return o
	}
	o := a.newObj(mk())
	a.site[key] = o
	return o
}

func (a *analysis) markReach(f *ssa.Function) {
	if f == nil || a.reach[f] {
		return
	}
	a.reach[f] = true
	a.order = append(a.order, f)
	a.changed = true
}

func hasPtr(t types.Type) bool {
	switch u := t.Underlying().(type) {
	case *types.Basic:
		return u.Kind() == types.UnsafePointer
	case *types.Pointer, *types.Slice, *types.Map, *types.Chan, *types.Signature, *types.Interface:
		return true
	case *types.Struct:
		for i := 0; i < u.NumFields(); i++ {
			if hasPtr(u.Field(i).Type()) {
				return true
			}
		}
		return false
	case *types.Array:
		return hasPtr(u.Elem())
	case *types.Tuple:
		for i := 0; i < u.Len(); i++ {
			if hasPtr(u.At(i).Type()) {
				return true
			}
		}
		return false
	}
	return true
}

func isString(t types.Type) bool {
	b, ok := t.Underlying().(*types.Basic)
	return ok && b.Info()&types.IsString != 0
}

// P is the points-to set of a value.
func (a *analysis) P(v ssa.Value) set {
	switch x := v.(type) {
	case *ssa.Const, *ssa.Builtin:
		return nil
	case *ssa.Global:
		return set{a.globObj: true}
	case *ssa.Function:
		o := a.siteObj(x, func() object { return object{kind: kCode, desc: "func " + x.Name(), fn: x} })
		return set{o: true}
	}
	return a.pts[v]
}

func (a *analysis) add(v ssa.Value, s set) {
	if len(s) == 0 {
		return
	}
	cur := a.pts[v]
	if cur == nil {
		cur = set{}
		a.pts[v] = cur
	}
	for o := range s {
		if !cur[o] {
			cur[o] = true
			a.changed = true
		}
	}
}

// addCont: pointers to the objects of s are stored into object o, in a cell
// of static type t (nil: unknown type).
func (a *analysis) addCont(o int, s set, t types.Type) {
	if len(s) == 0 {
		return
	}
	tk := ""
	if t != nil {
		tk = types.TypeString(t, nil)
		a.types[tk] = t
	}
	cur := a.cont[o]
	if cur == nil {
		cur = map[centry]bool{}
		a.cont[o] = cur
	}
	for x := range s {
		e := centry{x, tk}
		if !cur[e] {
			cur[e] = true
			a.changed = true
		}
	}
}

// copyCont: everything stored in the objects of src may also be stored in o (copy, append).
func (a *analysis) copyCont(o int, src set) {
	cur := a.cont[o]
	if cur == nil {
		cur = map[centry]bool{}
		a.cont[o] = cur
	}
	for so := range src {
		for e := range a.cont[so] {
			if !cur[e] {
				cur[e] = true
				a.changed = true
			}
		}
	}
}

func same(x, y types.Type) bool {
	return types.Identical(x, y) || types.Identical(x.Underlying(), y.Underlying())
}

// inside: a value of type u can be part of a value of type t.
func inside(t, u types.Type, depth int) bool {
	if depth > 6 {
		return true
	}
	switch x := t.Underlying().(type) {
	case *types.Struct:
		for i := 0; i < x.NumFields(); i++ {
			if f := x.Field(i).Type(); same(f, u) || inside(f, u, depth+1) {
				return true
			}
		}
	case *types.Array:
		return same(x.Elem(), u) || inside(x.Elem(), u, depth+1)
	case *types.Tuple:
		for i := 0; i < x.Len(); i++ {
			if f := x.At(i).Type(); same(f, u) || inside(f, u, depth+1) {
				return true
			}
		}
	}
	return false
}

// compat: a load of type l can observe a pointer stored at type st. Go is
// type safe (package trie does not import unsafe: checked), so a cell is
// read at the type it was written at, or as a part / a whole of it.
func (a *analysis) compat(stk string, l types.Type) bool {
	lk := types.TypeString(l, nil)
	k := [2]string{stk, lk}
	if r, ok := a.compatM[k]; ok {
		return r
	}
	st := a.types[stk]
	r := same(st, l) || inside(st, l, 0) || inside(l, st, 0)
	a.compatM[k] = r
	return r
}

// contOf: what a load of type l from the objects of s may yield.
func (a *analysis) contOf(s set, l types.Type) set {
	r := set{}
	for o := range s {
		for e := range a.cont[o] {
			if e.tk == "" || l == nil || a.compat(e.tk, l) {
				r[e.obj] = true
			}
		}
	}
	return r
}

// reachOf: s and everything reachable from it through contents.
func (a *analysis) reachOf(s set) set {
	r := set{}
	var work []int
	for o := range s {
		r[o] = true
		work = append(work, o)
	}
	for len(work) > 0 {
		o := work[len(work)-1]
		work = work[:len(work)-1]
		for e := range a.cont[o] {
			if !r[e.obj] {
				r[e.obj] = true
				work = append(work, e.obj)
			}
		}
	}
	return r
}

func union(ss ...set) set {
	r := set{}
	for _, s := range ss {
		for o := range s {
			r[o] = true
		}
	}
	return r
}

func (a *analysis) inPkg(f *ssa.Function) bool {
	if f == nil || f.Blocks == nil {
		return false
	}
	for g := f; g != nil; g = g.Parent() {
		if g.Pkg == a.pkg {
			return true
		}
	}
	// synthetic wrappers (bound methods, thunks) around package methods
	if f.Pkg == nil && f.Synthetic != "" {
		if o := f.Object(); o != nil && o.Pkg() != nil && o.Pkg().Path() == triePath {
			return true
		}
		if recv := f.Signature.Recv(); recv != nil && strings.Contains(recv.Type().String(), triePath) {
			return true
		}
		if len(f.FreeVars) > 0 && strings.Contains(f.FreeVars[0].Type().String(), triePath) {
			return true
		}
	}
	return false
}

func (a *analysis) pos(i ssa.Instruction) string {
	p := i.Pos()
	if !p.IsValid() {
		// look for a neighbouring instruction with a position
		b := i.Block()
		idx := -1
		for k, x := range b.Instrs {
			if x == i {
				idx = k
			}
		}
		for k := idx; k >= 0 && !p.IsValid(); k-- {
			p = b.Instrs[k].Pos()
		}
		if !p.IsValid() {
			p = i.Parent().Pos()
		}
	}
	pp := a.prog.Fset.Position(p)
	return fmt.Sprintf("%s:%d", filepath.Base(pp.Filename), pp.Line)
}

func fnName(f *ssa.Function) string {
	s := f.String()
	return strings.ReplaceAll(s, triePath+".", "")
}

// synPath describes, for the auditor, how the written address is formed.
func synPath(v ssa.Value, depth int) string {
	if depth > 10 {
		return "..."
	}
	switch x := v.(type) {
	case *ssa.FieldAddr:
		st := x.X.Type().Underlying().(*types.Pointer).Elem().Underlying().(*types.Struct)
		return synPath(x.X, depth+1) + "." + st.Field(x.Field).Name()
	case *ssa.Field:
		st := x.X.Type().Underlying().(*types.Struct)
		return synPath(x.X, depth+1) + "." + st.Field(x.Field).Name()
	case *ssa.IndexAddr:
		return synPath(x.X, depth+1) + "[i]"
	case *ssa.Slice:
		return synPath(x.X, depth+1) + "[:]"
	case *ssa.UnOp:
		if x.Op == token.MUL {
			return "*(" + synPath(x.X, depth+1) + ")"
		}
	case *ssa.Parameter:
		return "param " + x.Name()
	case *ssa.FreeVar:
		return "freevar " + x.Name()
	case *ssa.Alloc:
		if x.Comment != "" {
			return "alloc " + x.Comment
		}
		return "alloc"
	case *ssa.Global:
		return "global " + x.Name()
	case *ssa.MakeSlice:
		return "make([])"
	case *ssa.MakeMap:
		return "make(map)"
	case *ssa.Phi:
		parts := []string{}
		for i, e := range x.Edges {
			if i == 3 {
				parts = append(parts, "...")
				break
			}
			parts = append(parts, synPath(e, depth+3))
		}
		return "phi(" + strings.Join(parts, " | ") + ")"
	case *ssa.Call:
		if c := x.Call.StaticCallee(); c != nil {
			return "result of " + fnName(c)
		}
		if b, ok := x.Call.Value.(*ssa.Builtin); ok {
			return "result of " + b.Name()
		}
		return "result of call"
	case *ssa.Extract:
		return synPath(x.Tuple, depth+1)
	case *ssa.ChangeType:
		return synPath(x.X, depth+1)
	case *ssa.Convert:
		return "convert(" + synPath(x.X, depth+1) + ")"
	case *ssa.MakeInterface:
		return synPath(x.X, depth+1)
	case *ssa.TypeAssert:
		return synPath(x.X, depth+1)
	case *ssa.Lookup:
		return synPath(x.X, depth+1) + "[k]"
	case *ssa.Const:
		return "const"
	}
	return fmt.Sprintf("%T", v)
}

// write records a memory write through address/slice/map value addr.
func (a *analysis) write(i ssa.Instruction, what string, addr ssa.Value, cacheOnly bool) {
	if !a.collect {
		return
	}
	s := a.P(addr)
	fn := fnName(i.Parent())
	in := a.pos(i) + ": " + what
	path := synPath(addr, 0)
	if len(s) == 0 {
		if c, ok := addr.(*ssa.Const); ok && c.IsNil() {
			return // append(nil, ...) / copy(nil, ...): nothing is written
		}
		a.effects[effect{fn, in, path, kUnknown, 0}] = true
		return
	}
	emitted := 0
	for o := range s {
		ob := a.objs[o]
		k := ob.kind
		if k == kCode {
			continue
		}
		if cacheOnly && k == kRecv {
			k = kLibCache
		}
		a.effects[effect{fn, in, path, k, ob.idx}] = true
		emitted++
	}
	if emitted == 0 {
		a.effects[effect{fn, in, path, kUnknown, 0}] = true // never drop a write
	}
}

func (a *analysis) run() {
	for {
		a.changed = false
		for k := 0; k < len(a.order); k++ {
			a.doFunc(a.order[k])
		}
		if !a.changed {
			break
		}
	}
	a.collect = true
	for k := 0; k < len(a.order); k++ {
		a.doFunc(a.order[k])
	}
}

func (a *analysis) doFunc(f *ssa.Function) {
	for _, b := range f.Blocks {
		for _, ins := range b.Instrs {
			a.doInstr(f, ins)
		}
	}
}

func (a *analysis) freshAt(key interface{}, desc string) set {
	o := a.siteObj(key, func() object { return object{kind: kFresh, desc: desc} })
	return set{o: true}
}

func (a *analysis) doInstr(f *ssa.Function, ins ssa.Instruction) {
	switch x := ins.(type) {
	case *ssa.Alloc:
		a.add(x, a.freshAt(x, "alloc"))
	case *ssa.MakeSlice:
		a.add(x, a.freshAt(x, "make slice"))
	case *ssa.MakeMap:
		a.add(x, a.freshAt(x, "make map"))
	case *ssa.MakeChan:
		a.add(x, a.freshAt(x, "make chan"))
	case *ssa.MakeClosure:
		fn := x.Fn.(*ssa.Function)
		o := a.siteObj(x, func() object { return object{kind: kFresh, desc: "closure " + fn.Name(), fn: fn} })
		a.add(x, set{o: true})
		a.markReach(fn)
		for i, b := range x.Bindings {
			a.add(fn.FreeVars[i], a.P(b))
			a.addCont(o, a.P(b), nil)
		}
	case *ssa.FieldAddr:
		a.add(x, a.P(x.X))
		if a.collect {
			st := x.X.Type().Underlying().(*types.Pointer).Elem().Underlying().(*types.Struct)
			if st.Field(x.Field).Name() == "XXX_sizecache" {
				a.facts["sizecache"] = true
			}
		}
	case *ssa.IndexAddr:
		a.add(x, a.P(x.X))
	case *ssa.Field:
		if hasPtr(x.Type()) {
			a.add(x, a.P(x.X))
		}
	case *ssa.Index:
		if hasPtr(x.Type()) {
			a.add(x, a.P(x.X))
		}
	case *ssa.Slice:
		if !isString(x.X.Type()) {
			a.add(x, a.P(x.X))
		}
	case *ssa.Phi:
		if hasPtr(x.Type()) {
			for _, e := range x.Edges {
				a.add(x, a.P(e))
			}
		}
	case *ssa.UnOp:
		if (x.Op == token.MUL || x.Op == token.ARROW) && hasPtr(x.Type()) {
			a.add(x, a.contOf(a.P(x.X), x.Type()))
		}
	case *ssa.ChangeType:
		a.add(x, a.P(x.X))
	case *ssa.ChangeInterface:
		a.add(x, a.P(x.X))
	case *ssa.SliceToArrayPointer:
		a.add(x, a.P(x.X))
	case *ssa.MakeInterface:
		if hasPtr(x.X.Type()) {
			a.add(x, a.P(x.X))
		}
		a.noteIface(x.X.Type(), x.X)
	case *ssa.Convert:
		from, to := x.X.Type(), x.Type()
		switch {
		case isString(from) && !isString(to) && hasPtr(to): // []byte(s), []rune(s): a copy
			a.add(x, a.freshAt(x, "[]byte(string)"))
		case !hasPtr(to):
		default:
			if b, ok := from.Underlying().(*types.Basic); ok && b.Kind() == types.Uintptr {
				a.add(x, set{a.unkObj: true})
			}
			a.add(x, a.P(x.X))
		}
	case *ssa.TypeAssert:
		if hasPtr(x.Type()) {
			a.add(x, a.P(x.X))
		}
	case *ssa.Extract:
		if hasPtr(x.Type()) {
			a.add(x, a.P(x.Tuple))
		}
	case *ssa.Lookup:
		if !isString(x.X.Type()) && hasPtr(x.Type()) {
			a.add(x, a.contOf(a.P(x.X), x.Type()))
		}
	case *ssa.Range:
		if !isString(x.X.Type()) {
			a.add(x, a.P(x.X))
		}
	case *ssa.Next:
		if !x.IsString && hasPtr(x.Type()) {
			a.add(x, a.contOf(a.P(x.Iter), x.Type()))
		}
	case *ssa.Select:
		a.add(x, set{a.unkObj: true})
		if a.collect {
			a.effects[effect{fnName(f), a.pos(x) + ": select", "select", kUnknown, 0}] = true
		}
	case *ssa.BinOp, *ssa.Jump, *ssa.If, *ssa.Panic, *ssa.DebugRef, *ssa.RunDefers:
	case *ssa.Return:
		for _, r := range x.Results {
			if hasPtr(r.Type()) {
				s := a.P(r)
				cur := a.ret[f]
				if cur == nil {
					cur = set{}
					a.ret[f] = cur
				}
				for o := range s {
					if !cur[o] {
						cur[o] = true
						a.changed = true
					}
				}
			}
		}
	case *ssa.Store:
		a.write(x, "store "+x.String(), x.Addr, false)
		if hasPtr(x.Val.Type()) {
			for o := range a.P(x.Addr) {
				a.addCont(o, a.P(x.Val), x.Val.Type())
			}
		}
	case *ssa.MapUpdate:
		a.write(x, "mapupdate "+x.String(), x.Map, false)
		for o := range a.P(x.Map) {
			if hasPtr(x.Key.Type()) {
				a.addCont(o, a.P(x.Key), x.Key.Type())
			}
			if hasPtr(x.Value.Type()) {
				a.addCont(o, a.P(x.Value), x.Value.Type())
			}
		}
	case *ssa.Send:
		a.write(x, "send "+x.String(), x.Chan, false)
		if a.collect {
			a.facts["send"] = true
		}
		for o := range a.P(x.Chan) {
			a.addCont(o, a.P(x.X), x.X.Type())
		}
	case *ssa.Go:
		if a.collect {
			a.facts["go"] = true
			a.effects[effect{fnName(f), a.pos(x) + ": " + x.String(), "go statement", kUnknown, 0}] = true
		}
		a.doCall(f, x, &x.Call, nil)
	case *ssa.Defer:
		a.doCall(f, x, &x.Call, nil)
	case *ssa.Call:
		a.doCall(f, x, &x.Call, x)
	default:
		if a.collect {
			a.effects[effect{fnName(f), a.pos(ins) + ": " + ins.String(), fmt.Sprintf("unhandled %T", ins), kUnknown, 0}] = true
		}
		if v, ok := ins.(ssa.Value); ok {
			a.add(v, set{a.unkObj: true})
		}
	}
}

func (a *analysis) noteIface(t types.Type, v ssa.Value) {
	named := t
	if p, ok := t.(*types.Pointer); ok {
		named = p.Elem()
	}
	n, ok := named.(*types.Named)
	if !ok || n.Obj().Pkg() == nil || n.Obj().Pkg().Path() != triePath {
		return
	}
	key := fmt.Sprintf("%s@%p", t.String(), v)
	if a.ifseen[key] {
		return
	}
	a.ifseen[key] = true
	a.ifaces = append(a.ifaces, ifaceRec{t, v})
	a.changed = true
}

// method looks a method up without panicking when it does not exist.
func (a *analysis) method(t types.Type, pkg *types.Package, name string) *ssa.Function {
	sel := a.prog.MethodSets.MethodSet(t).Lookup(pkg, name)
	if sel == nil {
		return nil
	}
	return a.prog.MethodValue(sel)
}

// bind a call to a function of package trie.
func (a *analysis) bind(callee *ssa.Function, args []set, res ssa.Value) {
	a.markReach(callee)
	for i, p := range callee.Params {
		if i < len(args) && hasPtr(p.Type()) {
			a.add(p, args[i])
		}
	}
	if res != nil && hasPtr(res.Type()) {
		a.add(res, a.ret[callee])
	}
}

func (a *analysis) doCall(f *ssa.Function, ins ssa.Instruction, c *ssa.CallCommon, res ssa.Value) {
	args := make([]ssa.Value, 0, len(c.Args)+1)
	if c.IsInvoke() {
		args = append(args, c.Value)
	}
	args = append(args, c.Args...)
	argSets := make([]set, len(args))
	for i, v := range args {
		argSets[i] = a.P(v)
	}

	if b, ok := c.Value.(*ssa.Builtin); ok && !c.IsInvoke() {
		a.doBuiltin(ins, b, args, res)
		return
	}

	if c.IsInvoke() {
		iface := c.Value.Type()
		// implementations inside package trie that were converted to an interface
		for _, r := range a.ifaces {
			if types.Implements(r.t, iface.Underlying().(*types.Interface)) {
				if m := a.method(r.t, c.Method.Pkg(), c.Method.Name()); m != nil && a.inPkg(m) {
					as := append([]set{a.P(r.v)}, argSets[1:]...)
					a.bind(m, as, res)
				}
			}
		}
		name := "invoke " + strings.TrimPrefix(types.TypeString(iface, nil), "*") + "." + c.Method.Name()
		a.external(f, ins, name, args, argSets, res)
		return
	}

	if callee := c.StaticCallee(); callee != nil {
		if a.inPkg(callee) {
			if mc, ok := c.Value.(*ssa.MakeClosure); ok {
				_ = mc // free variables were bound at the MakeClosure
			}
			a.bind(callee, argSets, res)
			return
		}
		a.external(f, ins, callee.String(), args, argSets, res)
		return
	}

	// dynamic call of a function value
	known := true
	for o := range a.P(c.Value) {
		ob := a.objs[o]
		if ob.fn != nil && a.inPkg(ob.fn) {
			a.bind(ob.fn, argSets, res)
			continue
		}
		known = false
		switch ob.kind {
		case kParam:
			// a callback supplied by the caller of the API (WalkFn)
			name := fmt.Sprintf("callback: function-typed parameter %d of the API", ob.idx)
			a.used[name] = extSum{Note: "the caller's callback (e.g. WalkFn): assumed not to write through the slices it is given and not to keep them (documented: they are temporary)"}
		default:
			if a.collect {
				a.effects[effect{fnName(f), a.pos(ins) + ": " + ins.String(), "call of unknown function value (" + ob.desc + ")", kUnknown, 0}] = true
			}
			if res != nil {
				a.add(res, set{a.unkObj: true})
			}
		}
	}
	if len(a.P(c.Value)) == 0 && a.collect {
		a.effects[effect{fnName(f), a.pos(ins) + ": " + ins.String(), "call of function value with no known target", kUnknown, 0}] = true
	}
	_ = known
}

func (a *analysis) doBuiltin(ins ssa.Instruction, b *ssa.Builtin, args []ssa.Value, res ssa.Value) {
	switch b.Name() {
	case "append":
		a.write(ins, "append "+ins.String(), args[0], false)
		fr := a.freshAt(ins, "append")
		if res != nil {
			a.add(res, a.P(args[0]))
			a.add(res, fr)
		}
		elem := res.Type().Underlying().(*types.Slice).Elem()
		if hasPtr(elem) {
			for o := range union(a.P(args[0]), fr) {
				if len(args) > 1 && !isString(args[1].Type()) {
					a.copyCont(o, a.P(args[1]))
				}
				a.copyCont(o, a.P(args[0]))
			}
		}
	case "copy":
		a.write(ins, "copy "+ins.String(), args[0], false)
		if sl, ok := args[0].Type().Underlying().(*types.Slice); ok && hasPtr(sl.Elem()) && !isString(args[1].Type()) {
			for o := range a.P(args[0]) {
				a.copyCont(o, a.P(args[1]))
			}
		}
	case "delete", "clear":
		a.write(ins, b.Name()+" "+ins.String(), args[0], false)
	case "len", "cap", "print", "println", "real", "imag", "complex", "min", "max", "recover", "ssa:wrapnilchk":
		if res != nil && hasPtr(res.Type()) {
			if b.Name() == "ssa:wrapnilchk" {
				a.add(res, a.P(args[0]))
			} else {
				a.add(res, set{a.unkObj: true})
			}
		}
	case "close":
		a.write(ins, "close "+ins.String(), args[0], false)
	default:
		if a.collect {
			a.effects[effect{fnName(ins.Parent()), a.pos(ins) + ": " + ins.String(), "unhandled builtin " + b.Name(), kUnknown, 0}] = true
		}
	}
}

func (a *analysis) external(f *ssa.Function, ins ssa.Instruction, name string, args []ssa.Value, argSets []set, res ssa.Value) {
	s, ok := summaries[name]
	if !ok {
		s, ok = mustSummary(name)
	}
	if !ok {
		a.unknown[name] = true
		if a.collect {
			a.effects[effect{fnName(f), a.pos(ins) + ": " + ins.String(), "external call without summary: " + name, kUnknown, 0}] = true
		}
		if res != nil && hasPtr(res.Type()) {
			a.add(res, set{a.unkObj: true})
		}
		// it may do anything with its arguments
		for _, as := range argSets {
			for o := range as {
				a.addCont(o, set{a.unkObj: true}, nil)
			}
			a.addCont(a.unkObj, as, nil)
		}
		return
	}
	a.used[name] = s
	for _, w := range s.Writes {
		if w < len(args) {
			a.write(ins, fmt.Sprintf("extern %s writes argument %d", shortName(name), w), args[w], s.CacheOnly)
		}
	}
	for _, r := range s.Retain {
		if r[0] < len(args) && r[1] < len(args) {
			for o := range argSets[r[0]] {
				a.addCont(o, argSets[r[1]], nil)
			}
		}
	}
	if res != nil && hasPtr(res.Type()) {
		if s.Fresh {
			fr := a.freshAt(ins, "result of "+shortName(name))
			a.add(res, fr)
			for _, k := range s.FreshKeep {
				if k < len(args) {
					for o := range fr {
						a.addCont(o, argSets[k], nil)
					}
				}
			}
		}
		for _, k := range s.Alias {
			if k < len(args) {
				a.add(res, a.reachOf(argSets[k]))
			}
		}
		if !s.Fresh && len(s.Alias) == 0 {
			// a pointer-typed result that the summary calls scalar: treat as fresh but say so
			a.add(res, a.freshAt(ins, "result of "+shortName(name)))
		}
	}
	if len(s.Callbacks) > 0 || s.CallsFunc {
		// What the library passes to a callback: memory it allocated itself, or
		// values an earlier callback returned to it (ASSUMED; part of the summary).
		cbArg := a.freshAt(struct {
			i ssa.Instruction
			s string
		}{ins, "cb"}, "memory passed by "+shortName(name)+" to a callback")
		var ms []*ssa.Function
		var recvs []set
		for _, cb := range s.Callbacks {
			for _, r := range a.ifaces {
				if m := a.method(r.t, a.pkg.Pkg, cb); m != nil && a.inPkg(m) {
					ms = append(ms, m)
					recvs = append(recvs, a.P(r.v))
				}
			}
		}
		if s.CallsFunc {
			for _, as := range argSets {
				for o := range as {
					if fn := a.objs[o].fn; fn != nil && a.inPkg(fn) {
						ms = append(ms, fn)
						recvs = append(recvs, nil)
					}
				}
			}
		}
		for _, m := range ms {
			cbArg = union(cbArg, a.ret[m])
		}
		for k, m := range ms {
			ps := make([]set, len(m.Params))
			for i := range ps {
				ps[i] = cbArg
			}
			if recvs[k] != nil {
				ps[0] = recvs[k]
			}
			a.bind(m, ps, nil)
		}
	}
}

func shortName(n string) string {
	n = strings.ReplaceAll(n, "github.com/openacid/", "")
	n = strings.ReplaceAll(n, "github.com/golang/protobuf/", "")
	return n
}

// ---------------------------------------------------------------- output

func kindCoq(k okind, idx int) string {
	switch k {
	case kFresh:
		return "FreshAlloc"
	case kRecv:
		return "Receiver"
	case kParam:
		return fmt.Sprintf("Param %d", idx)
	case kGlobal:
		return "Global"
	case kLibCache:
		return "LibCache"
	}
	return "Unknown"
}

func q(s string) string {
	var sb strings.Builder
	sb.WriteByte('"')
	for _, r := range s {
		switch {
		case r == '"':
			sb.WriteString(`""`)
		case r < 32 || r > 126:
			sb.WriteByte('?')
		default:
			sb.WriteRune(r)
		}
	}
	sb.WriteByte('"')
	return sb.String()
}

func emitList(w *strings.Builder, name, typ string, items []string) {
	// chunks keep the list notation shallow
	const chunk = 64
	n := 0
	var parts []string
	for i := 0; i < len(items); i += chunk {
		j := i + chunk
		if j > len(items) {
			j = len(items)
		}
		pn := fmt.Sprintf("%s_%d", name, n)
		fmt.Fprintf(w, "Definition %s : list %s :=\n  [ %s ].\n", pn, typ, strings.Join(items[i:j], ";\n    "))
		parts = append(parts, pn)
		n++
	}
	if len(parts) == 0 {
		fmt.Fprintf(w, "Definition %s : list %s := [].\n\n", name, typ)
		return
	}
	fmt.Fprintf(w, "Definition %s : list %s := %s.\n\n", name, typ, strings.Join(parts, " ++ "))
}

func (a *analysis) effectItems(api string) []string {
	var es []effect
	for e := range a.effects {
		es = append(es, e)
	}
	sort.Slice(es, func(i, j int) bool {
		x, y := es[i], es[j]
		if x.fn != y.fn {
			return x.fn < y.fn
		}
		if x.instr != y.instr {
			return x.instr < y.instr
		}
		if x.kind != y.kind {
			return x.kind < y.kind
		}
		return x.idx < y.idx
	})
	var out []string
	for _, e := range es {
		out = append(out, fmt.Sprintf("{| fn := %s; instr := %s; path := %s; root := %s; api := %s |}",
			q(e.fn), q(e.instr), q(e.path), kindCoq(e.kind, e.idx), api))
	}
	return out
}

func (a *analysis) kindsOf(s set) []string {
	m := map[string]bool{}
	for o := range s {
		ob := a.objs[o]
		if ob.kind == kCode {
			continue
		}
		m[kindCoq(ob.kind, ob.idx)] = true
	}
	var r []string
	for k := range m {
		r = append(r, k)
	}
	sort.Strings(r)
	return r
}

func lookupMethod(prog *ssa.Program, pkg *ssa.Package, typ, name string) *ssa.Function {
	t := pkg.Type(typ)
	if t == nil {
		return nil
	}
	return prog.LookupMethod(types.NewPointer(t.Type()), pkg.Pkg, name)
}

func main() {
	if len(os.Args) < 2 {
		fmt.Fprintln(os.Stderr, "usage: geneffects <repo-dir>")
		os.Exit(2)
	}
	repo := os.Args[1]
	cfg := &packages.Config{
		Mode: packages.NeedName | packages.NeedFiles | packages.NeedCompiledGoFiles | packages.NeedImports | packages.NeedDeps |
			packages.NeedTypes | packages.NeedSyntax | packages.NeedTypesInfo | packages.NeedTypesSizes,
		Dir: repo,
		Env: append(os.Environ(), "GOFLAGS=-mod=mod", "GOPROXY=off", "GOSUMDB=off", "GOTOOLCHAIN=local"),
	}
	pkgs, err := packages.Load(cfg, triePath)
	if err != nil {
		fmt.Fprintln(os.Stderr, "load:", err)
		os.Exit(1)
	}
	if packages.PrintErrors(pkgs) > 0 || len(pkgs) != 1 {
		os.Exit(1)
	}
	usesUnsafe := false
	for p := range pkgs[0].Imports {
		if p == "unsafe" {
			usesUnsafe = true
		}
	}
	prog, spkgs := ssautil.Packages(pkgs, ssa.BuilderMode(0))
	pkg := spkgs[0]
	pkg.Build()

	need := func(f *ssa.Function, what string) *ssa.Function {
		if f == nil {
			fmt.Fprintln(os.Stderr, "entry point not found:", what)
			os.Exit(1)
		}
		return f
	}
	var readE, buildE, loadE []*ssa.Function
	readNames := []string{"Get", "GetID", "RangeGet", "Search", "searchID", "GetI8", "GetI16", "GetI32", "GetI64",
		"ScanFrom", "ScanFromTo", "NewIter", "Stat", "String", "Marshal"}
	for _, n := range readNames {
		readE = append(readE, need(lookupMethod(prog, pkg, "SlimTrie", n), "(*SlimTrie)."+n))
	}
	buildE = append(buildE, need(pkg.Func("NewSlimTrie"), "NewSlimTrie"))
	for _, n := range []string{"Unmarshal", "Reset"} {
		loadE = append(loadE, need(lookupMethod(prog, pkg, "SlimTrie", n), "(*SlimTrie)."+n))
	}

	groups := []struct {
		name, api string
		entries   []*ssa.Function
	}{{"read", "ApiRead", readE}, {"build", "ApiBuild", buildE}, {"load", "ApiLoad", loadE}}

	var w strings.Builder
	fmt.Fprintf(&w, "(* GENERATED by /verif/tools/geneffects from the working tree of package %s (default build).\n   Do not edit: regenerated on every check. *)\n", triePath)
	w.WriteString("From Coq Require Import String List.\nFrom Slim Require Import Effects.\nImport ListNotations.\nOpen Scope string_scope.\n\n")

	used := map[string]extSum{}
	var flows, results, fnsAll []string
	facts := map[string]bool{}
	unknown := map[string]bool{}
	for _, g := range groups {
		a := newAnalysis(prog, pkg, g.name, g.entries)
		a.run()
		items := a.effectItems(g.api)
		emitList(&w, g.name+"_effects", "effect", items)
		for k, v := range a.used {
			used[k] = v
		}
		for k := range a.unknown {
			unknown[k] = true
		}
		for k, v := range a.facts {
			if v {
				facts[g.name+":"+k] = true
			}
		}
		var fns []string
		for _, f := range a.order {
			fns = append(fns, fnName(f))
		}
		sort.Strings(fns)
		for _, f := range fns {
			fnsAll = append(fnsAll, fmt.Sprintf("(%s, %s)", g.api, q(f)))
		}
		// flows: caller-owned parameter memory that becomes reachable from the
		// receiver, a package variable or the result of an entry
		addFlow := func(entry string, from set, dst string) {
			seen := map[string]bool{}
			for o := range a.reachOf(from) {
				ob := a.objs[o]
				if ob.kind == kParam || ob.kind == kUnknown {
					k := kindCoq(ob.kind, ob.idx)
					if !seen[k] {
						seen[k] = true
						flows = append(flows, fmt.Sprintf("{| fl_api := %s; fl_fn := %s; fl_src := %s; fl_dst := %s; fl_note := %s |}",
							g.api, q(entry), k, dst, q(ob.desc)))
					}
				}
			}
		}
		for _, e := range g.entries {
			rs := a.ret[e]
			addFlow(e.Name(), rs, "ToResult")
			for _, k := range a.kindsOf(rs) {
				results = append(results, fmt.Sprintf("{| rs_api := %s; rs_fn := %s; rs_root := %s |}", g.api, q(e.Name()), k))
			}
		}
		hasRecv := false
		for _, e := range g.entries {
			if e.Signature.Recv() != nil {
				hasRecv = true
			}
		}
		if hasRecv {
			addFlow("(receiver)", a.contOf(set{a.recvObj: true}, nil), "ToReceiver")
		}
		addFlow("(package variables)", a.contOf(set{a.globObj: true}, nil), "ToGlobal")
	}
	sort.Strings(flows)
	sort.Strings(results)
	emitList(&w, "flows", "flow", flows)
	emitList(&w, "results", "result", results)

	var names []string
	for k := range used {
		names = append(names, k)
	}
	sort.Strings(names)
	var as []string
	for _, k := range names {
		s := used[k]
		shape := []string{}
		if len(s.Writes) > 0 {
			shape = append(shape, fmt.Sprintf("writes args %v", s.Writes))
		}
		if s.CacheOnly {
			shape = append(shape, "XXX_sizecache only")
		}
		if s.Fresh {
			shape = append(shape, "fresh result")
		}
		if len(s.FreshKeep) > 0 {
			shape = append(shape, fmt.Sprintf("result keeps args %v", s.FreshKeep))
		}
		if len(s.Alias) > 0 {
			shape = append(shape, fmt.Sprintf("result aliases args %v", s.Alias))
		}
		if len(s.Retain) > 0 {
			shape = append(shape, fmt.Sprintf("retains %v", s.Retain))
		}
		if len(s.Callbacks) > 0 {
			shape = append(shape, "calls back "+strings.Join(s.Callbacks, ","))
		}
		if s.CallsFunc {
			shape = append(shape, "calls function arguments")
		}
		if len(shape) == 0 {
			shape = append(shape, "no write, no alias")
		}
		as = append(as, fmt.Sprintf("{| callee := %s; shape := %s; note := %s |}", q(k), q(strings.Join(shape, "; ")), q(s.Note)))
	}
	emitList(&w, "external_assumptions", "assumption", as)
	emitList(&w, "reachable_fns", "(api_kind * string)", fnsAll)

	b := func(v bool) string {
		if v {
			return "true"
		}
		return "false"
	}
	fmt.Fprintf(&w, "Definition facts : pkg_facts :=\n  {| uses_unsafe := %s;\n     read_touches_sizecache := %s;\n     read_spawns_goroutine := %s;\n     read_sends_on_channel := %s;\n     unsummarised_calls := %d |}.\n",
		b(usesUnsafe), b(facts["read:sizecache"]), b(facts["read:go"]), b(facts["read:send"]), len(unknown))
	fmt.Print(w.String())
	if len(unknown) > 0 {
		var u []string
		for k := range unknown {
			u = append(u, k)
		}
		sort.Strings(u)
		fmt.Fprintln(os.Stderr, "geneffects: external callees without summary (emitted as Unknown):")
		for _, k := range u {
			fmt.Fprintln(os.Stderr, "  ", k)
		}
	}
}
