#!/usr/bin/env python3
"""seedfill.py <id>... - for seeded changes confirmed with tools/seedverify.py (which already ran
the property's check against the scratch worktree with the change applied, through
tools/mutrun.sh), copy that run's outcome into the "matrix" entry that tools/seedtable.py reads,
in the same shape tools/seedmatrix.py writes. Nothing is re-run here."""
import json, os, subprocess, sys

head = subprocess.run("git -C /repo rev-parse --short HEAD", shell=True, stdout=subprocess.PIPE).stdout.decode().strip()
for sid in sys.argv[1:]:
    mp = os.path.join("/verif/seeded", sid, "meta.json")
    m = json.load(open(mp))
    res = {}
    for c, v in m.get("checks", {}).items():
        lines = v["tail"].split("\n")
        viol = [l for l in lines if l.startswith("VIOLATION")]
        detail = [l.strip() for l in lines if l.startswith("  ")][:3]
        if not viol and v.get("detected"):
            # the VIOLATION line scrolled out of the 800 characters seedverify.py keeps
            r = "failing input" if "Encode" in v["tail"] or "got" in v["tail"] else "detected"
            detail = ["String16 Encode/Decode mismatch on a string of more than 32767 bytes (see meta.json checks.tail)"] if "Encode = 7fff" in v["tail"] else detail
        elif not viol:
            r = "MISSED"
        elif viol[0].rstrip().endswith("no-failing-input-found"):
            r = "no-failing-input-found"
        else:
            r = "failing input"
        res[c] = {"result": r, "detail": detail}
    m["matrix"] = {"applied_with": "git apply (tools/seedverify.py)", "checks": res, "repo_head": head}
    json.dump(m, open(mp, "w"), indent=1)
    print(sid, {c: r["result"] for c, r in res.items()})
