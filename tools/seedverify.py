#!/usr/bin/env python3
"""seedverify.py <Cxx> [m1 m2 ...] [--checks C01,C10] - confirm a seeded change delivered by a
sub-agent in /tmp/seed/out/<Cxx>/ using the scratch worktree /tmp/seed/<Cxx>:
  1. the change applies, the library builds and the WHOLE existing suite passes with it;
  2. the demonstration fails with the change and passes without it;
then store it as /verif/seeded/<Cxx>-<m>/ (patch.diff, demo, meta.json) and run the given checks
(from a private copy of /verif, see mutrun.sh) against the worktree with the change applied.
Nothing is ever applied to /repo."""
import json, os, shutil, subprocess, sys, time

ENV = dict(os.environ, GOFLAGS="-mod=mod", GOPROXY="off", GOSUMDB="off", GOTOOLCHAIN="local")

def sh(cmd, cwd=None, timeout=3000):
    p = subprocess.run(cmd, cwd=cwd, env=ENV, shell=True, stdout=subprocess.PIPE, stderr=subprocess.STDOUT, timeout=timeout)
    return p.returncode, p.stdout.decode("utf-8", "replace")

def main():
    pid = sys.argv[1]
    args = sys.argv[2:]
    checks = [pid]
    names = []
    skip_suite = False
    i = 0
    while i < len(args):
        if args[i] == "--checks":
            checks = args[i + 1].split(","); i += 2
        elif args[i] == "--skip-suite":
            skip_suite = True; i += 1
        else:
            names.append(args[i]); i += 1
    wt = os.environ.get("SEED_WT", "/tmp/seed/" + pid)
    out = os.environ.get("SEED_OUT", "/tmp/seed/out/" + pid)
    meta = json.load(open(os.path.join(out, "meta.json")))
    for m in meta["mutations"]:
        name = m["name"]
        if names and name not in names:
            continue
        rec = {"property": pid, "mutation": name, "summary": m.get("summary"), "needs": m.get("needs"), "files": m.get("files"), "ran": []}
        patch = os.path.join(out, name + ".diff")
        demo = m["demo"]["file"]
        place = m["demo"].get("place_in", "trie/")
        run = m["demo"]["run"]
        sh("git checkout -- . && git clean -fdq", cwd=wt)
        rc, o = sh("git apply " + patch, cwd=wt)
        rec["applies"] = rc == 0
        if rc != 0:
            print(pid, name, "patch does not apply", o); continue
        if not skip_suite:
            t = time.time()
            rc, o = sh("timeout 2400 go test -mod=mod -vet=off -count=1 ./... 2>&1 | tail -15", cwd=wt)
            rec["suite_passes_with_change"] = ("FAIL" not in o and "panic" not in o)
            rec["ran"].append("go test -mod=mod -vet=off -count=1 ./... (with change): " + ("ok" if rec["suite_passes_with_change"] else "FAIL") + " %.0fs" % (time.time() - t))
            if not rec["suite_passes_with_change"]:
                print(pid, name, "SUITE FAILS WITH CHANGE\n", o)
        shutil.copy(os.path.join(out, demo), os.path.join(wt, place, demo))
        rc, o = sh("timeout 900 " + run, cwd=wt)
        rec["demo_fails_with_change"] = rc != 0
        rec["ran"].append(run + " (with change): rc=%d" % rc)
        rec["demo_output_with_change"] = o[-1500:]
        print("demo with change rc", rc, o[-300:])
        # our checks against the changed tree
        os.remove(os.path.join(wt, place, demo))
        rec["checks"] = {}
        for c in checks:
            rc, o = sh("/verif/tools/mutrun.sh %s %s quick 2>&1 | tail -40" % (wt, c), timeout=3000)
            viol = [l for l in o.split("\n") if l.startswith("VIOLATION")]
            rec["checks"][c] = {"detected": bool(viol), "tail": o[-800:]}
            print(pid, name, "check", c, "->", "DETECTED" if viol else "missed", "|", (viol or [""])[0])
        sh("git checkout -- . && git clean -fdq", cwd=wt)
        shutil.copy(os.path.join(out, demo), os.path.join(wt, place, demo))
        rc, o = sh("timeout 900 " + run, cwd=wt)
        rec["demo_passes_without_change"] = rc == 0
        rec["ran"].append(run + " (clean tree): rc=%d" % rc)
        sh("git checkout -- . && git clean -fdq", cwd=wt)
        ok = rec.get("suite_passes_with_change", skip_suite) and rec["demo_fails_with_change"] and rec["demo_passes_without_change"]
        rec["confirmed"] = bool(ok)
        print(pid, name, "confirmed" if ok else "NOT CONFIRMED", {k: rec.get(k) for k in ("suite_passes_with_change", "demo_fails_with_change", "demo_passes_without_change")})
        if ok:
            d = "/verif/seeded/%s-%s" % (pid, name)
            os.makedirs(d, exist_ok=True)
            shutil.copy(patch, os.path.join(d, "patch.diff"))
            shutil.copy(os.path.join(out, demo), os.path.join(d, demo))
            rec["demo"] = {"file": demo, "place_in": place, "run": run}
            json.dump(rec, open(os.path.join(d, "meta.json"), "w"), indent=1)

if __name__ == "__main__":
    main()
