#!/usr/bin/env python3
"""seedmatrix.py [ids...] - run, for every confirmed seeded change in /verif/seeded/<id>/, the check of
the property it breaks (and any extra checks listed below) against a scratch worktree with the
change applied; record the result in seeded/<id>/meta.json ("matrix") and print a markdown table.
Nothing is applied to /repo."""
import json, os, subprocess, sys, time

WT = "/tmp/seed/M"
EXTRA = {"C13-m5": ["C13", "C08"], "C01-m5": ["C01", "C15"], "C02-m3": ["C02", "C12"], "C12-m2": ["C12", "C08"], "C13-m1": ["C13", "C08"], "D1": ["C04"], "D2": ["C04"], "D3": ["C08"], "D4": ["C19"], "D5": ["C01", "C10"], "D6": ["C11"]}

def sh(cmd, cwd=None, timeout=3600):
    p = subprocess.run(cmd, cwd=cwd, shell=True, stdout=subprocess.PIPE, stderr=subprocess.STDOUT, timeout=timeout)
    return p.returncode, p.stdout.decode("utf-8", "replace")

def main():
    ids = sys.argv[1:] or sorted(os.listdir("/verif/seeded"))
    if not os.path.exists(WT):
        sh("git -C /repo worktree add --detach %s HEAD" % WT)
    rows = []
    for sid in ids:
        d = os.path.join("/verif/seeded", sid)
        patch = os.path.join(d, "patch.diff")
        if not os.path.exists(patch):
            continue
        checks = EXTRA.get(sid) or [sid.split("-")[0]]
        sh("git checkout -q -- . && git clean -fdq", cwd=WT)
        rc, o = sh("git apply %s" % patch, cwd=WT)
        how = "git apply"
        if rc != 0:
            rc, o = sh("patch -p1 --fuzz=3 < %s" % patch, cwd=WT)
            how = "patch --fuzz=3"
        if rc != 0:
            rows.append((sid, "-", "does not apply to HEAD", ""))
            continue
        res = {}
        for c in checks:
            t = time.time()
            rc, o = sh("/verif/tools/mutrun.sh %s %s quick 2>&1 | tail -60" % (WT, c))
            v = [l for l in o.split("\n") if l.startswith("VIOLATION")]
            kind = "missed"
            if v:
                kind = "no-failing-input-found" if "no-failing-input-found" in v[0] else "failing input"
            detail = [l.strip() for l in o.split("\n") if l.startswith("  ")][:2]
            res[c] = {"result": kind, "detail": detail, "s": round(time.time() - t)}
            rows.append((sid, c, kind, "; ".join(detail)[:160]))
            print(sid, c, kind, flush=True)
        mp = os.path.join(d, "meta.json")
        meta = json.load(open(mp)) if os.path.exists(mp) else {"property": checks[0], "mutation": sid}
        meta["matrix"] = {"applied_with": how, "checks": res, "repo_head": sh("git -C /repo rev-parse --short HEAD")[1].strip()}
        json.dump(meta, open(mp, "w"), indent=1)
    sh("git checkout -q -- . && git clean -fdq", cwd=WT)
    sh("git -C /repo worktree remove --force %s" % WT)
    print("\n| seeded change | check | result | first finding |\n|---|---|---|---|")
    for r in rows:
        print("| %s | %s | %s | %s |" % r)

if __name__ == "__main__":
    main()
