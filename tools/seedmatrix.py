#!/usr/bin/env python3
"""seedmatrix.py [ids...] - run, for every confirmed seeded change in /verif/seeded/<id>/, the check of
the property it breaks (and any extra checks listed below) against a scratch worktree with the
change applied; record the result in seeded/<id>/meta.json ("matrix") and print a markdown table.
Nothing is applied to /repo."""
import json, os, subprocess, sys, time

WT = "/tmp/seed/M"
EXTRA = {"C02-m8": ["C02", "C12"], "C13-m5": ["C13", "C08"], "C01-m5": ["C01", "C15"], "C02-m3": ["C02", "C12"], "C12-m2": ["C12", "C08"], "C13-m1": ["C13", "C08"], "D1": ["C04"], "D2": ["C04"], "D3": ["C08"], "D4": ["C19"], "D5": ["C01", "C10"], "D6": ["C11"]}

def sh(cmd, cwd=None, timeout=3600):
    p = subprocess.run(cmd, cwd=cwd, shell=True, stdout=subprocess.PIPE, stderr=subprocess.STDOUT, timeout=timeout)
    return p.returncode, p.stdout.decode("utf-8", "replace")

def run_one(sid, wt):
    rows = []
    d = os.path.join("/verif/seeded", sid)
    patch = os.path.join(d, "patch.diff")
    if not os.path.exists(patch):
        return rows
    checks = EXTRA.get(sid) or [sid.split("-")[0]]
    sh("git checkout -q -- . && git clean -fdq", cwd=wt)
    rc, o = sh("git apply %s" % patch, cwd=wt)
    how = "git apply"
    if rc != 0:
        rc, o = sh("patch -p1 --fuzz=3 < %s" % patch, cwd=wt)
        how = "patch --fuzz=3"
    if rc != 0:
        return [(sid, "-", "does not apply to HEAD", "")]
    res = {}
    for c in checks:
        t = time.time()
        rc, o = sh("/verif/tools/mutrun.sh %s %s quick 2>&1 | tail -60" % (wt, c))
        v = [l for l in o.split("\n") if l.startswith("VIOLATION")]
        kind = "missed"
        if v:
            kind = "failing input" if any("no-failing-input-found" not in x for x in v) else "no-failing-input-found"
        detail = [l.strip() for l in o.split("\n") if l.startswith("  ")][:2]
        res[c] = {"result": kind, "detail": detail, "s": round(time.time() - t)}
        rows.append((sid, c, kind, "; ".join(detail)[:160]))
        print(sid, c, kind, flush=True)
    mp = os.path.join(d, "meta.json")
    meta = json.load(open(mp)) if os.path.exists(mp) else {"property": checks[0], "mutation": sid}
    meta["matrix"] = {"applied_with": how, "checks": res, "repo_head": sh("git -C /repo rev-parse --short HEAD")[1].strip()}
    json.dump(meta, open(mp, "w"), indent=1)
    sh("git checkout -q -- . && git clean -fdq", cwd=wt)
    return rows

def main():
    import queue, threading
    ids = sys.argv[1:] or sorted(os.listdir("/verif/seeded"))
    par = int(os.environ.get("SEED_PAR", "1"))
    q = queue.Queue()
    for sid in ids:
        q.put(sid)
    rows, lock = [], threading.Lock()
    def worker(k):
        wt = "%s%d" % (WT, k)
        if not os.path.exists(wt):
            sh("git -C /repo worktree add --detach %s HEAD" % wt)
        while True:
            try:
                sid = q.get_nowait()
            except queue.Empty:
                break
            r = run_one(sid, wt)
            with lock:
                rows.extend(r)
        sh("git -C /repo worktree remove --force %s" % wt)
    ts = [threading.Thread(target=worker, args=(k,)) for k in range(par)]
    for t in ts:
        t.start()
    for t in ts:
        t.join()
    rows.sort()
    print("\n| seeded change | check | result | first finding |\n|---|---|---|---|")
    for r in rows:
        print("| %s | %s | %s | %s |" % r)

if __name__ == "__main__":
    main()
