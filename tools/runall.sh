#!/bin/sh
# runall.sh [tier] - run every claimed check once, validate the evidence files against the schema.
TIER="${1:-quick}"
cd /verif
for p in $(python3 -c "
import json
for c in json.load(open('MANIFEST.json'))['checks']: print(c['property_id'])"); do
  S=$(date +%s)
  ./run.sh $p $TIER 2>&1 | grep -E "VIOLATION|KNOWN-FINDING|$p $TIER:" 
  echo "   rc=$? $(( $(date +%s) - S ))s"
done
python3-vt - <<'PY'
import json, jsonschema, glob
sch = json.load(open('/root/.vp/EVIDENCE.schema.json'))
man = json.load(open('/verif/MANIFEST.json'))
jsonschema.validate(man, json.load(open('/root/.vp/MANIFEST.schema.json')))
for c in man['checks']:
    p = c['evidence_file']
    try:
        e = json.load(open(p)); jsonschema.validate(e, sch)
        assert e['level'] == c['level_claimed']['category'], (e['level'], c['level_claimed']['category'])
        print(c['property_id'], 'evidence ok', e['level'], 'obligations', e['coverage'].get('obligations'), 'discharged', e['coverage'].get('discharged'), 'wall', e['wall_s'])
    except Exception as ex:
        print(c['property_id'], 'EVIDENCE PROBLEM', str(ex)[:200])
PY
