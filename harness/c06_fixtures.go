package main

// C06: the archived fixtures (trie/testdata) and the acceptance test of the
// reference legacy writers against them.

import (
	"bytes"
	"fmt"
	"io/ioutil"
	"path/filepath"
	"sort"
	"strings"

	"github.com/golang/protobuf/proto"
	"github.com/openacid/low/pbcmpl"
	"github.com/openacid/slim/array"
	"github.com/openacid/slim/encode"
	"github.com/openacid/slim/trie"
	"github.com/openacid/testkeys"
)

type c06Fixture struct {
	File   string
	Set    string // testkeys asset name
	Ver    string // version suffix of the file name
	Opt    string // "" or nopref/innpref/allpref
	Layout *c06Layout
	Buf    []byte
}

var c06KeyCache = map[string][]string{}

func c06Keys(set string) []string {
	if ks, ok := c06KeyCache[set]; ok {
		return ks
	}
	ks := testkeys.Load(set)
	c06KeyCache[set] = ks
	return ks
}

// the values of the fixtures: int32 0..n-1 (trie/slimtrie_marshal_test.go makeI32s), encoder encode.I32
func c06FixtureValues(n int) ([][]byte, []int32) {
	vals := make([][]byte, n)
	typed := make([]int32, n)
	for i := range vals {
		vals[i] = le(4, uint64(i))
		typed[i] = int32(i)
	}
	return vals, typed
}

func c06LayoutFor(ver, opt string) *c06Layout {
	for _, l := range c06Layouts {
		for _, fv := range l.Fixtures {
			if fv == ver && l.Opt == opt {
				return l
			}
		}
	}
	return nil
}

// c06LoadFixtures lists trie/testdata the way trie/slimtrie_test.go:testOldData does.
func c06LoadFixtures(repo string) ([]*c06Fixture, []string, error) {
	dir := filepath.Join(repo, "trie", "testdata")
	infos, err := ioutil.ReadDir(dir)
	if err != nil {
		return nil, nil, err
	}
	sets := testkeys.AssetNames()
	// longest set name first, so that a set name that is a prefix of another cannot steal a file
	sort.Slice(sets, func(i, j int) bool { return len(sets[i]) > len(sets[j]) })
	fx := []*c06Fixture{}
	skipped := []string{}
	for _, fi := range infos {
		fn := fi.Name()
		if !strings.HasPrefix(fn, "slimtrie-data-") {
			if fn != "README.md" {
				skipped = append(skipped, fn)
			}
			continue
		}
		parts := strings.Split(fn, "-")
		f := &c06Fixture{File: fn, Ver: parts[len(parts)-1]}
		switch len(parts) {
		case 4:
			f.Set = parts[2]
		case 5:
			f.Set, f.Opt = parts[2], parts[3]
		default:
			skipped = append(skipped, fn)
			continue
		}
		known := false
		for _, s := range sets {
			if s == f.Set {
				known = true
			}
		}
		f.Layout = c06LayoutFor(f.Ver, f.Opt)
		if !known || f.Layout == nil {
			skipped = append(skipped, fn)
			continue
		}
		f.Buf, err = ioutil.ReadFile(filepath.Join(dir, fn))
		if err != nil {
			return nil, nil, err
		}
		fx = append(fx, f)
	}
	return fx, skipped, nil
}

func c06ReadArrays(buf []byte) ([3]*array.Array32, []string, error) {
	var as [3]*array.Array32
	vers := []string{}
	r := bytes.NewReader(buf)
	for i := 0; i < 3; i++ {
		as[i] = &array.Array32{}
		_, ver, err := pbcmpl.Unmarshal(r, as[i])
		if err != nil {
			return as, vers, err
		}
		vers = append(vers, ver)
	}
	if r.Len() != 0 {
		return as, vers, fmt.Errorf("%d trailing bytes", r.Len())
	}
	return as, vers, nil
}

func c06EqU64(a, b []uint64) bool {
	if len(a) != len(b) {
		return false
	}
	for i := range a {
		if a[i] != b[i] {
			return false
		}
	}
	return true
}
func c06EqI32(a, b []int32) bool {
	if len(a) != len(b) {
		return false
	}
	for i := range a {
		if a[i] != b[i] {
			return false
		}
	}
	return true
}

// c06CmpArrays compares a written three-array stream with a fixture field by
// field. read = differences in fields the loader reads; ignored = differences
// in fields it does not read.
func c06CmpArrays(got, want []byte) (read, ignored []string) {
	ga, gv, err := c06ReadArrays(got)
	if err != nil {
		return []string{"written stream does not parse: " + err.Error()}, nil
	}
	wa, wv, err := c06ReadArrays(want)
	if err != nil {
		return []string{"fixture does not parse: " + err.Error()}, nil
	}
	names := []string{"children", "steps", "leaves"}
	for i := 0; i < 3; i++ {
		g, w := ga[i], wa[i]
		p := names[i] + "."
		if gv[i] != wv[i] {
			read = append(read, p+"header-version")
		}
		if !c06EqU64(g.Bitmaps, w.Bitmaps) {
			read = append(read, p+"Bitmaps")
		}
		if !c06EqI32(g.Offsets, w.Offsets) {
			read = append(read, p+"Offsets")
		}
		if g.Flags != w.Flags {
			read = append(read, p+"Flags")
		}
		if g.Cnt != w.Cnt {
			ignored = append(ignored, p+"Cnt")
		}
		if g.EltWidth != w.EltWidth {
			ignored = append(ignored, p+"EltWidth")
		}
		if i == 0 && g.Flags&array.ArrayFlagIsBitmap == 0 {
			// the loader reads the low 16 bits of every 4-byte element
			if len(g.Elts) != len(w.Elts) {
				read = append(read, p+"Elts(len)")
			} else {
				lo, hi := false, false
				for j := 0; j+3 < len(g.Elts); j += 4 {
					if g.Elts[j] != w.Elts[j] || g.Elts[j+1] != w.Elts[j+1] {
						lo = true
					}
					if g.Elts[j+2] != w.Elts[j+2] || g.Elts[j+3] != w.Elts[j+3] {
						hi = true
					}
				}
				if lo {
					read = append(read, p+"Elts(label bitmap)")
				}
				if hi {
					ignored = append(ignored, p+"Elts(first-child half)")
				}
			}
		} else if !bytes.Equal(g.Elts, w.Elts) {
			read = append(read, p+"Elts")
		}
		if (g.BMElts == nil) != (w.BMElts == nil) {
			if i == 0 && g.Flags&array.ArrayFlagIsBitmap != 0 {
				read = append(read, p+"BMElts(presence)")
			} else {
				ignored = append(ignored, p+"BMElts(presence)")
			}
		} else if g.BMElts != nil {
			if !c06EqU64(g.BMElts.Words, w.BMElts.Words) {
				read = append(read, p+"BMElts.Words")
			}
			if g.BMElts.N != w.BMElts.N {
				ignored = append(ignored, p+"BMElts.N")
			}
			if g.BMElts.Flags != w.BMElts.Flags {
				ignored = append(ignored, p+"BMElts.Flags")
			}
			if !c06EqI32(g.BMElts.RankIndex, w.BMElts.RankIndex) {
				ignored = append(ignored, p+"BMElts.RankIndex")
			}
		}
	}
	return
}

// c06CmpSlim compares two 0.5.10 streams: the known fields (all read by the
// loader) as decoded messages; fields 12/13/15 (kept as unknown bytes, never
// read) separately.
func c06CmpSlim(got, want []byte) (read, ignored []string) {
	dec := func(b []byte) (*trie.Slim, string, error) {
		s := &trie.Slim{}
		r := bytes.NewReader(b)
		_, ver, err := pbcmpl.Unmarshal(r, s)
		if err == nil && r.Len() != 0 {
			err = fmt.Errorf("%d trailing bytes", r.Len())
		}
		return s, ver, err
	}
	g, gv, err := dec(got)
	if err != nil {
		return []string{"written stream does not parse: " + err.Error()}, nil
	}
	w, wv, err := dec(want)
	if err != nil {
		return []string{"fixture does not parse: " + err.Error()}, nil
	}
	if gv != wv {
		read = append(read, "header-version")
	}
	if !bytes.Equal(g.XXX_unrecognized, w.XXX_unrecognized) {
		ignored = append(ignored, "fields 12/13/15")
	}
	g.XXX_unrecognized, w.XXX_unrecognized = nil, nil
	type fld struct {
		n    string
		a, b proto.Message
	}
	if g.BigInnerCnt != w.BigInnerCnt {
		read = append(read, "BigInnerCnt")
	}
	if g.ShortSize != w.ShortSize {
		read = append(read, "ShortSize")
	}
	if fmt.Sprint(g.ShortTable) != fmt.Sprint(w.ShortTable) {
		read = append(read, "ShortTable")
	}
	for _, f := range []fld{{"NodeTypeBM", g.NodeTypeBM, w.NodeTypeBM}, {"Inners", g.Inners, w.Inners}, {"ShortBM", g.ShortBM, w.ShortBM},
		{"InnerPrefixes", g.InnerPrefixes, w.InnerPrefixes}, {"LeafPrefixes", g.LeafPrefixes, w.LeafPrefixes}, {"Leaves", g.Leaves, w.Leaves}} {
		if !proto.Equal(f.a, f.b) {
			read = append(read, f.n)
		}
	}
	return
}

type c06Accept struct {
	Identical []string            `json:"byte_identical"`
	Logical   map[string][]string `json:"loader_fields_identical_but_ignored_fields_differ"`
	Failed    map[string][]string `json:"not_reproduced"`
	Skipped   []string            `json:"files_not_matched_to_a_layout"`
}

// c06Acceptance re-creates every fixture from its testkeys key set.
func c06Acceptance(c *Ctx, fx []*c06Fixture, skipped []string) *c06Accept {
	acc := &c06Accept{Identical: []string{}, Logical: map[string][]string{}, Failed: map[string][]string{}, Skipped: skipped}
	for _, f := range fx {
		keys := c06Keys(f.Set)
		vals, typed := c06FixtureValues(len(keys))
		got, err := c06Write(f.Layout, encode.I32{}, keys, vals, typed)
		tag := f.Layout.Name
		switch {
		case err != nil:
			acc.Failed[f.File] = []string{"writer error: " + err.Error()}
			c.Or.Count("accept:" + tag + ":failed")
		case bytes.Equal(got, f.Buf):
			acc.Identical = append(acc.Identical, f.File)
			c.Or.Count("accept:" + tag + ":byte-identical")
		default:
			var read, ign []string
			if f.Layout.Slim {
				read, ign = c06CmpSlim(got, f.Buf)
			} else {
				read, ign = c06CmpArrays(got, f.Buf)
			}
			if len(read) == 0 && len(ign) > 0 {
				acc.Logical[f.File] = ign
				c.Or.Count("accept:" + tag + ":loader-fields-identical")
			} else {
				if len(read) == 0 {
					read = []string{"bytes differ but no decoded field differs (encoding order/shape)"}
				}
				acc.Failed[f.File] = append(read, ign...)
				c.Or.Count("accept:" + tag + ":failed")
			}
		}
	}
	return acc
}
