package main

// C07: incompatible versions and interrupted writes are rejected, never
// half-loaded.
//
// (a) correspondence: for every evaluated cut point / rewritten header the
//     extracted wire model (Frame.unmarshal on the regenerated constants) must
//     predict the outcome kind of the real (*SlimTrie).Unmarshal and the bytes
//     the instance marshals afterwards;
// (b) oracle, written from the property text: every strict prefix of a valid
//     stream of every layout gives an error (not nil, not a panic); a header
//     version outside the compatible set gives ErrIncompatible; after the
//     rejected load the instance answers lookups and scans as an empty trie.

import (
	"bytes"
	"encoding/binary"
	"encoding/hex"
	"fmt"
	"io"
	"os"
	"path/filepath"
	"sort"
	"strings"

	"github.com/openacid/errors"
	"github.com/openacid/low/pbcmpl"
	"github.com/openacid/slim/encode"
	"github.com/openacid/slim/trie"
	"github.com/openacid/testkeys"
)

// c07ErrKind canonicalises the error of Unmarshal: stage from the message
// prefix the code attaches, cause from errors.Cause. io.ErrUnexpectedEOF is
// returned both by io.ReadFull and by proto.Unmarshal for a truncated field, so
// "unexpected EOF" and every other protobuf error are one kind ("bad").
func c07ErrKind(err error) string {
	if err == nil {
		return "ok"
	}
	cause := errors.Cause(err)
	if cause == trie.ErrIncompatible {
		return "err:incompatible"
	}
	stage := "?"
	msg := err.Error()
	for _, s := range []string{"header", "inner", "children", "steps", "leaves"} {
		if strings.HasPrefix(msg, "failed to unmarshal "+s) {
			stage = s
		}
	}
	c := "bad"
	switch cause {
	case io.EOF:
		c = "eof"
	case pbcmpl.ErrInvalidHeaderSize:
		c = "headersize"
	}
	return "err:" + stage + ":" + c
}

// c07Unmarshal runs st.Unmarshal(buf) and returns the outcome kind; PANIC is an observable.
func c07Unmarshal(st *trie.SlimTrie, buf []byte) (kind string, err error, pmsg string) {
	kind, pmsg = protect(func() string {
		err = st.Unmarshal(buf)
		return c07ErrKind(err)
	})
	return
}

func c07MarshalHex(st *trie.SlimTrie) string {
	s, _ := protect(func() string {
		b, err := st.Marshal()
		if err != nil {
			return "ERR"
		}
		return hx(b)
	})
	return s
}

// c07EmptyAnswers checks that the instance answers lookups and scans as an
// empty trie; returns "" or a description of the first deviation.
func c07EmptyAnswers(st *trie.SlimTrie, probes []string) string {
	for _, q := range probes {
		s, p := protect(func() string {
			if v, f := st.Get(q); f || v != nil {
				return fmt.Sprintf("Get(%s) = %v,%v", hxs(q), v, f)
			}
			if id := st.GetID(q); id != -1 {
				return fmt.Sprintf("GetID(%s) = %d", hxs(q), id)
			}
			if v, f := st.RangeGet(q); f || v != nil {
				return fmt.Sprintf("RangeGet(%s) = %v,%v", hxs(q), v, f)
			}
			if l, e, r := st.Search(q); l != nil || e != nil || r != nil {
				return fmt.Sprintf("Search(%s) = %v,%v,%v", hxs(q), l, e, r)
			}
			n := 0
			st.ScanFrom(q, true, true, func(k, v []byte) bool { n++; return n < 4 })
			if n != 0 {
				return fmt.Sprintf("ScanFrom(%s) yields %d+ entries", hxs(q), n)
			}
			nx := st.NewIter(q, true, true)
			if k, _ := nx(); k != nil {
				return fmt.Sprintf("NewIter(%s) yields %s", hxs(q), hx(k))
			}
			return ""
		})
		if s == "PANIC" {
			return "PANIC on query " + hxs(q) + ": " + p
		}
		if s != "" {
			return s
		}
	}
	return ""
}

type c07Stream struct {
	id      string
	layout  string // current | 0.5.10 | 3sec
	name    string
	enc     string
	buf     []byte
	probes  []string // keys of the stream and a few absent ones
	desc    interface{}
	loadErr string
}

type c07Replay struct {
	Property string      `json:"property"`
	Layout   string      `json:"layout"`
	Source   interface{} `json:"source"`
	Stream   string      `json:"stream_hex,omitempty"`
	Cut      int         `json:"cut,omitempty"`
	Version  string      `json:"version_field_hex,omitempty"`
	Got      string      `json:"got"`
	Want     string      `json:"want"`
}

func c07StreamHex(b []byte) string {
	if len(b) > 4096 {
		return hex.EncodeToString(b[:4096]) + "...(" + fmt.Sprint(len(b)) + " bytes)"
	}
	return hex.EncodeToString(b)
}

// cut points to evaluate: all when the stream is small, otherwise every cut in
// and around each section header and body boundary plus a spread sample.
func c07Cuts(r *RNG, buf []byte, maxAll int, nsample int) ([]int, bool) {
	n := len(buf)
	if n <= maxAll {
		cs := make([]int, n)
		for i := range cs {
			cs[i] = i
		}
		return cs, true
	}
	set := map[int]bool{}
	add := func(i int) {
		if i >= 0 && i < n {
			set[i] = true
		}
	}
	// section boundaries from the headers: every cut inside each header, the first
	// bytes of each body, the last bytes of each body
	off := 0
	for off+32 <= n {
		for i := off - 4; i <= off+36; i++ {
			add(i)
		}
		bs := int(binary.LittleEndian.Uint64(buf[off+24 : off+32]))
		if bs < 0 || off+32+bs > n {
			break
		}
		off += 32 + bs
	}
	for i := 0; i < 8; i++ {
		add(n - 1 - i)
	}
	for i := 0; i < nsample; i++ {
		add(r.Intn(n))
	}
	cs := make([]int, 0, len(set))
	for i := range set {
		cs = append(cs, i)
	}
	sort.Ints(cs)
	return cs, false
}

func c07IntsCSV(cs []int) string {
	var sb strings.Builder
	for i, c := range cs {
		if i > 0 {
			sb.WriteByte(',')
		}
		fmt.Fprint(&sb, c)
	}
	return sb.String()
}

// version strings of the property text
func c07Versions(r *RNG) [][2]string {
	vs := [][2]string{}
	add := func(label, v string) { vs = append(vs, [2]string{label, v}) }
	for p := 0; p <= 12; p++ {
		add(fmt.Sprintf("rel-0.5.%d", p), fmt.Sprintf("0.5.%d", p))
	}
	for _, v := range []string{"1.0.0", "0.5.13", "0.5.14", "0.5.100", "0.6.0", "0.6.12", "1.0.1", "1.1.0", "1.5.12", "2.0.0", "2.5.12", "10.0.0", "0.0.0", "0.4.12", "0.5.120", "0.5.1200000000", "18446744073709551615.0.0", "18446744073709551616.0.0", "0.5.99999999999", "99999999999999.0.0"} {
		add("num-"+v, v)
	}
	for _, v := range []string{"0.5.12-rc1", "0.5.12-0", "0.5.12-alpha.1", "1.0.0-rc1", "0.5.13-rc1", "0.5.12-", "0.5.12-01", "0.5.12-a..b", "0.5.12-rc1+b", "0.5.11-x", "0.5.12--"} {
		add("pre-"+v, v)
	}
	for _, v := range []string{"0.5.12+x", "0.5.12+build.7", "0.5.12+", "0.5.12+a-b", "0.5.12+a_b", "0.5.12+a..b", "1.0.0+1", "0.5.9+meta", "0.5.13+x", "0.5.12+-", "0.5.10+a", "0.5.11+0.1"} {
		add("build-"+v, v)
	}
	for _, v := range []string{"", "v0.5.12", "0.5", "0.5.12.0", "0.5.012", "00.5.12", "0.05.12", "0.5.", ".5.12", "0..12", "0.5.12 ", " 0.5.12", "0,5,12", "0.5.x", "abc", "0.5.12\x000", "\x000.5.12", "0.5.1\xb2", "1.0", "1", "1.0.0.0", "==0.5.12", "0.5.12\n", "٠.٥.١٢", "0.5.-12", "0.5.+12", "+0.5.12", "-0.5.12", "0x0.5.12", "0.5.1_2", "1.0.0 || 0.5"} {
		add("mal-"+hxs(v), v)
	}
	// 16 bytes without any NUL
	add("full16-digits", "1234567890.12.12")
	add("full16-0.5.12", "0.5.12+abcdefghi")
	add("full16-0.5.13", "0.5.13+abcdefghi")
	add("full16-garbage", "\xff\xfe\xfd\xfc\xfb\xfa\xf9\xf8\xf7\xf6\xf5\xf4\xf3\xf2\xf1\xf0")
	add("full16-dots", "................")
	add("full16-1.0.0", "1.0.0+0123456789")
	for i := 0; i < 12; i++ {
		b := make([]byte, 1+r.Intn(16))
		for j := range b {
			switch r.Intn(3) {
			case 0:
				b[j] = "0123456789.+-x"[r.Intn(14)]
			case 1:
				b[j] = "0.5.12"[r.Intn(6)]
			default:
				b[j] = byte(r.U64())
			}
		}
		add(fmt.Sprintf("rand-%d-%s", i, hx(b)), string(b))
	}
	return vs
}

// reference semantics of the gate, from the property text and the list in
// compatibleVersions(): exactly the released versions listed, written as
// MAJOR.MINOR.PATCH with optional +build metadata.
func c07RefCompatible(v string, compat []string) bool {
	if i := strings.IndexByte(v, '+'); i >= 0 {
		meta := v[i+1:]
		v = v[:i]
		if meta == "" {
			return false
		}
		for _, part := range strings.Split(meta, ".") {
			if part == "" {
				return false
			}
			for _, ch := range []byte(part) {
				if !(ch >= '0' && ch <= '9' || ch >= 'a' && ch <= 'z' || ch >= 'A' && ch <= 'Z' || ch == '-') {
					return false
				}
			}
		}
	}
	for _, c := range compat {
		if strings.TrimPrefix(c, "==") == v {
			return true
		}
	}
	return false
}

func c07WithVersion(buf []byte, ver string) []byte {
	b := append([]byte{}, buf...)
	for i := 0; i < 16; i++ {
		b[i] = 0
	}
	copy(b[:16], ver)
	return b
}

func c07CurrentStreams(c *Ctx, n int) []*c07Stream {
	out := []*c07Stream{}
	// the empty trie
	est, _ := trie.NewSlimTrie(encode.I32{}, nil, nil)
	eb, _ := est.Marshal()
	out = append(out, &c07Stream{id: "cur_empty", layout: "current", name: "empty trie", enc: "I32", buf: eb, probes: []string{"", "a", "\x00", "\xff\xff"}, desc: "NewSlimTrie(I32, nil, nil)"})
	kinds := []int{KTiny, KRegular, KFanout, KSharedPrefix, KChain, KNibble, KRandBytes, KLongRuns}
	for i := 0; len(out) < n+1 && i < 4*n; i++ {
		r := c.R.Fork()
		kind := kinds[i%len(kinds)]
		vk := []int{VDistinct, VNil, VRuns, VAllEqual}[(i/len(kinds))%4]
		tc := genTrieCase(r, fmt.Sprintf("cur_%d", i), kind, vk, 1, 6)
		o := i % 16
		tc.Opt = [4]int8{int8(o & 1), int8(o >> 1 & 1), int8(o >> 2 & 1), int8(o >> 3 & 1)}
		tc.Enc = []string{"I32", "S16", "U64", "I8", "B3"}[i%5]
		if !c.Thorough() && len(tc.Keys) > 120 {
			tc.Keys = tc.Keys[:120]
			if tc.IDs != nil {
				tc.IDs = tc.IDs[:120]
			}
		}
		b := tc.Build()
		if b.Err != nil {
			c.Or.Count("skipped:build-error")
			continue
		}
		buf, err := b.St.Marshal()
		if err != nil {
			continue
		}
		probes := append([]string{}, tc.Keys...)
		if len(probes) > 24 {
			probes = probes[:24]
		}
		probes = append(probes, "", "\xff")
		out = append(out, &c07Stream{id: tc.ID, layout: "current", name: tc.Kind + "/" + tc.VKind, enc: tc.Enc, buf: buf, probes: probes, desc: tc.replay("C07", "", false, "", "")})
	}
	return out
}

func c07FixtureStreams(c *Ctx) []*c07Stream {
	dir := filepath.Join(c.Repo, "trie", "testdata")
	ents, err := os.ReadDir(dir)
	if err != nil {
		panic(err)
	}
	out := []*c07Stream{}
	for _, e := range ents {
		fn := e.Name()
		if !strings.HasPrefix(fn, "slimtrie-data-") {
			continue
		}
		parts := strings.Split(fn, "-")
		typ := parts[2]
		ver := parts[len(parts)-1]
		info, _ := e.Info()
		big := info.Size() > 20000
		if big && !c.Thorough() {
			continue
		}
		buf, err := os.ReadFile(filepath.Join(dir, fn))
		if err != nil {
			panic(err)
		}
		layout := "3sec"
		if ver == "0.5.10" {
			layout = "0.5.10"
		}
		var probes []string
		func() {
			defer func() { recover() }()
			ks := testkeys.Load(typ)
			step := 1
			if len(ks) > 24 {
				step = len(ks) / 24
			}
			for i := 0; i < len(ks); i += step {
				probes = append(probes, ks[i])
			}
		}()
		probes = append(probes, "", "\xff")
		out = append(out, &c07Stream{id: "fix_" + strings.TrimPrefix(fn, "slimtrie-data-"), layout: layout, name: fn, enc: "I32", buf: buf, probes: probes, desc: "trie/testdata/" + fn})
	}
	return out
}

func init() {
	register("C07", func(c *Ctx) {
		c.Or.Rule = "streams: current-format Marshal() output of generated tries (all 16 option combos, 5 encoders, 8 key-set kinds, empty trie) and the archived fixtures in trie/testdata (three-section layouts 0.5.0-0.5.9, 0.5.10 layouts); " +
			"an evaluation = one Unmarshal of one strict prefix (cut point) or of one stream with a rewritten 16-byte version field on an instance that held the full stream before; all cuts for streams up to the size limit, else every cut from 4 bytes before to 36 bytes after the start of each section, the last 8 bytes and a random sample; " +
			"non-trivial = the instance held at least 2 keys before the rejected load; distinct = distinct (stream, cut | version) pair"
		w := c.Impl()
		cw := c.Cases()
		compat := []string{}
		func() {
			// the compatible list as the harness reads it from the regenerated constants is on the
			// model side; the oracle reference uses the list below, taken from the property anchors
			compat = []string{"==1.0.0", "==0.5.8", "==0.5.9", "==0.5.10", "==0.5.11", "==0.5.12"}
		}()

		// ---- constants: the model must be inside its modelled fragment
		fmt.Fprintf(cw, "K consts\nE\n")
		fmt.Fprintf(w, "C consts\nspecs-in-fragment true\nversion %s\ncompatible %s\n", hxs(c07RepoVersion(c)), c07RepoCompat(c))

		streams := c07CurrentStreams(c, c.N(40, 300))
		streams = append(streams, c07FixtureStreams(c)...)
		maxAll := c.N(1200, 6000)
		nsample := c.N(40, 60)
		reported := map[string]bool{}

		for _, s := range streams {
			spec := specByName(s.enc)
			c.Or.Count("layout:" + s.layout)
			c.Or.Count("stream-bytes:" + bucket(len(s.buf)))
			st, _ := trie.NewSlimTrie(spec.Enc, nil, nil)
			fullKind, _, pm := c07Unmarshal(st, s.buf)
			if fullKind != "ok" {
				// a stream the code itself produced / the archived fixtures must load
				key := "C07:valid-stream-rejected"
				if !reported[key] {
					reported[key] = true
					c.Or.Violate(key, fmt.Sprintf("C07 premise: the complete stream %s does not load: %s %s", s.name, fullKind, pm),
						c07Replay{Property: "C07", Layout: s.layout, Source: s.desc, Stream: c07StreamHex(s.buf), Got: fullKind, Want: "ok"})
				}
			}
			held := 0
			protect(func() string { held = int(st.Stat().KeyCnt); return "" })
			cuts, all := c07Cuts(c.R, s.buf, maxAll, nsample)
			fmt.Fprintf(cw, "S %s 1\nX %s\n", s.id, hx(s.buf))
			if all {
				fmt.Fprintf(cw, "CUTS all\n")
			} else {
				fmt.Fprintf(cw, "CUTS %s\n", c07IntsCSV(cuts))
			}
			fmt.Fprintf(cw, "E\n")
			fmt.Fprintf(w, "C %s\nfull %s\n", s.id, fullKind)
			if len(c.Or.Samples) < 3 {
				c.Or.Sample(map[string]interface{}{"stream": s.name, "layout": s.layout, "bytes": len(s.buf), "cuts": len(cuts), "source": s.desc})
			}

			type run struct {
				a, b, n int
				s       string
			}
			var cur *run
			flush := func() {
				if cur != nil {
					fmt.Fprintf(w, "R %d %d %d %s\n", cur.a, cur.b, cur.n, cur.s)
				}
			}
			for _, k := range cuts {
				// the instance holds the full stream before the interrupted one arrives
				if fullKind == "ok" {
					c07Unmarshal(st, s.buf)
				}
				kind, err, pm := c07Unmarshal(st, s.buf[:k])
				inner := c07MarshalHex(st)
				line := kind + " inner=" + inner
				if cur != nil && cur.s == line {
					cur.b, cur.n = k, cur.n+1
				} else {
					flush()
					cur = &run{k, k, 1, line}
				}
				c.Or.Case(fmt.Sprintf("%s cut %d", s.id, k), held >= 2)
				c.Or.Count("cut-outcome:" + kind)
				// ---- oracle (property text)
				bad := ""
				key := ""
				switch {
				case kind == "PANIC":
					key, bad = "C07:cut-panics", "Unmarshal of a strict prefix panics: "+pm
				case err == nil:
					key, bad = "C07:cut-accepted", "Unmarshal of a strict prefix returns nil (silently partial index)"
				default:
					if d := c07EmptyAnswers(st, s.probes); d != "" {
						key, bad = "C07:not-empty-after-rejected-cut", "after the rejected load the instance does not answer as an empty trie: "+d
					}
				}
				if bad != "" {
					key += ":" + s.layout
					if !reported[key] {
						reported[key] = true
						c.Or.Violate(key, fmt.Sprintf("C07: %s (stream %s, %d bytes, cut at %d)", bad, s.name, len(s.buf), k),
							c07Replay{Property: "C07", Layout: s.layout, Source: s.desc, Stream: c07StreamHex(s.buf), Cut: k, Got: kind, Want: "an error, and an empty trie afterwards"})
					}
				}
			}
			flush()
		}

		// ---- version strings, on several streams (current, 0.5.10 fixture, three-section fixture)
		vsrc := []*c07Stream{}
		for _, s := range streams {
			if s.layout == "current" && len(vsrc) < c.N(3, 12) && len(s.buf) > 32 {
				vsrc = append(vsrc, s)
			}
		}
		for _, want := range []string{"fix_11vl5-allpref-0.5.10", "fix_11vl5-0.5.9", "fix_10vl5-0.5.3", "fix_empty-0.5.8"} {
			for _, s := range streams {
				if s.id == want {
					vsrc = append(vsrc, s)
				}
			}
		}
		for _, s := range vsrc {
			spec := specByName(s.enc)
			st, _ := trie.NewSlimTrie(spec.Enc, nil, nil)
			fullKind, _, _ := c07Unmarshal(st, s.buf)
			own := string(bytes.TrimRight(s.buf[:16], "\x00"))
			fmt.Fprintf(cw, "G ver_%s 1\nP %s\n", s.id, hx(s.buf))
			fmt.Fprintf(w, "C ver_%s\n", s.id)
			for _, lv := range c07Versions(c.R.Fork()) {
				label, ver := lv[0], lv[1]
				mod := c07WithVersion(s.buf, ver)
				field := mod[:16]
				verStr := string(bytes.TrimRight(field, "\x00")) // what a reader of the field sees (pbcmpl: trailing NULs removed)
				// The full outcome is compared except for one situation: a label 0.5.10 / 0.5.11 on a
				// stream that is not of that layout sends the body through before000512* (C06's
				// conversions, not part of the wire model); there only the gate decision is compared.
				proj := "full"
				base := verStr
				if i := strings.IndexByte(base, '+'); i >= 0 {
					base = base[:i]
				}
				if (base == "0.5.10" || base == "0.5.11") && s.layout != "0.5.10" {
					proj = "gate"
				}
				if fullKind == "ok" {
					c07Unmarshal(st, s.buf)
				}
				kind, err, pm := c07Unmarshal(st, mod)
				inner := c07MarshalHex(st)
				fmt.Fprintf(cw, "B %s %s %s\n", label, proj, hx(mod))
				out := kind
				if proj == "gate" && kind != "err:incompatible" && !strings.HasPrefix(kind, "err:header") {
					out = "gate:pass"
				}
				if err != nil && kind != "PANIC" {
					fmt.Fprintf(w, "g %s %s inner=%s\n", label, out, inner)
				} else {
					fmt.Fprintf(w, "g %s %s\n", label, out)
				}
				c.Or.Case(fmt.Sprintf("%s version %s", s.id, hx(field)), true)
				c.Or.Count("version-outcome:" + out)
				if out == "gate:pass" {
					// what the real code did behind the gate with a foreign label (not claimed, not compared)
					c.Or.Count("foreign-label-raw-outcome:" + kind)
				}
				// ---- oracle
				wantCompat := c07RefCompatible(verStr, compat)
				bad, key := "", ""
				if !wantCompat {
					switch {
					case kind == "PANIC":
						key, bad = "C07:version-panics", "Unmarshal panics on an incompatible/unparsable version: "+pm
					case err == nil:
						key, bad = "C07:incompatible-version-accepted", "a stream with an incompatible/unparsable header version is loaded"
					case errors.Cause(err) != trie.ErrIncompatible:
						key, bad = "C07:incompatible-version-other-error", "an incompatible/unparsable version is rejected, but not with ErrIncompatible: "+err.Error()
					default:
						if d := c07EmptyAnswers(st, s.probes); d != "" {
							key, bad = "C07:not-empty-after-incompatible", "after the rejected load the instance does not answer as an empty trie: "+d
						}
					}
				} else {
					// a listed version must not be refused as incompatible
					if err != nil && errors.Cause(err) == trie.ErrIncompatible {
						key, bad = "C07:compatible-version-refused", "a version of the compatible set is refused as incompatible"
					} else if verStr == own && kind != fullKind {
						key, bad = "C07:own-version-differs", "the stream under its own version string gives "+kind
					} else if err != nil && kind != "PANIC" {
						if d := c07EmptyAnswers(st, s.probes); d != "" {
							key, bad = "C07:not-empty-after-rejected-load", "after the rejected load the instance does not answer as an empty trie: "+d
						}
					}
				}
				if bad != "" && !reported[key] {
					reported[key] = true
					c.Or.Violate(key, fmt.Sprintf("C07: %s (stream %s, version field %q)", bad, s.name, ver),
						c07Replay{Property: "C07", Layout: s.layout, Source: s.desc, Stream: c07StreamHex(mod), Version: hx(field), Got: kind, Want: map[bool]string{true: "accepted by the gate", false: "ErrIncompatible"}[wantCompat]})
				}
			}
			fmt.Fprintf(cw, "E\n")
		}

		// ---- hostile headers (correspondence only; not claimed by the property)
		if len(vsrc) > 0 {
			s := vsrc[0]
			spec := specByName(s.enc)
			st, _ := trie.NewSlimTrie(spec.Enc, nil, nil)
			fmt.Fprintf(cw, "G hdr_%s 1\nP %s\n", s.id, hx(s.buf))
			fmt.Fprintf(w, "C hdr_%s\n", s.id)
			mods := [][2]interface{}{}
			addm := func(label string, f func(b []byte)) {
				b := append([]byte{}, s.buf...)
				f(b)
				mods = append(mods, [2]interface{}{label, b})
			}
			addm("hsize33", func(b []byte) { b[16] = 33 })
			addm("hsize0", func(b []byte) { b[16] = 0 })
			addm("hsize-hi", func(b []byte) { b[23] = 1 })
			addm("bsize-2^63", func(b []byte) { binary.LittleEndian.PutUint64(b[24:], 1<<63) })
			addm("bsize-max", func(b []byte) { binary.LittleEndian.PutUint64(b[24:], ^uint64(0)) })
			addm("bsize+1", func(b []byte) { binary.LittleEndian.PutUint64(b[24:], uint64(len(b)-32+1)) })
			addm("bsize-1", func(b []byte) { binary.LittleEndian.PutUint64(b[24:], uint64(len(b)-32-1)) })
			addm("bsize0", func(b []byte) { binary.LittleEndian.PutUint64(b[24:], 0) })
			for _, m := range mods {
				label, mod := m[0].(string), m[1].([]byte)
				c07Unmarshal(st, s.buf)
				kind, err, _ := c07Unmarshal(st, mod)
				proj := "full"
				if label == "bsize-1" {
					// a shorter body is some other protobuf prefix: it may parse, and st.init() may then panic
					proj = "gate"
				}
				out := kind
				if proj == "gate" && kind != "err:incompatible" && !strings.HasPrefix(kind, "err:header") {
					out = "gate:pass"
				}
				fmt.Fprintf(cw, "B %s %s %s\n", label, proj, hx(mod))
				if kind == "err:inner:bad" && uint64(len(mod)-32) >= binary.LittleEndian.Uint64(mod[24:32]) {
					// the body was read completely and proto.Unmarshal rejected it: st.inner holds the
					// fields decoded before the error (not observed; the model calls this state IPartial)
					fmt.Fprintf(w, "g %s %s inner=?\n", label, out)
					var sb strings.Builder
					for _, l := range c05Dump(st.VerifInner()) {
						sb.WriteString(l + "|")
					}
					c.Or.Extra["partial_inner_after_rejected_body"] = "a body that proto.Unmarshal rejects leaves the fields decoded before the error in st.inner (header BodySize reduced by 1): " + c05Trunc(sb.String())
				} else if err != nil && kind != "PANIC" {
					fmt.Fprintf(w, "g %s %s inner=%s\n", label, out, c07MarshalHex(st))
				} else {
					fmt.Fprintf(w, "g %s %s\n", label, out)
				}
				c.Or.Count("hostile-header:" + label + ":" + kind)
			}
			fmt.Fprintf(cw, "E\n")
		}
		c.Or.Extra["note"] = "Stat() after a rejected load still reports the level table of the previous contents (vars/levels are not cleared by a failed Unmarshal); lookups and scans read st.inner only and answer as an empty trie"
	})
}

// the constants as the repository states them (printed for the correspondence
// with the regenerated Gen_Consts.v through the model driver)
func c07RepoVersion(c *Ctx) string {
	st, _ := trie.NewSlimTrie(encode.I32{}, nil, nil)
	return st.GetVersion()
}

func c07RepoCompat(c *Ctx) string {
	// compatibleVersions() is unexported; the error text of an incompatible load lists it
	st, _ := trie.NewSlimTrie(encode.I32{}, nil, nil)
	b, _ := st.Marshal()
	err := st.Unmarshal(c07WithVersion(b, "99.99.99"))
	if err == nil {
		return "?"
	}
	msg := err.Error()
	i := strings.Index(msg, `compatible versions:"`)
	if i < 0 {
		return "?"
	}
	msg = msg[i+len(`compatible versions:"`):]
	j := strings.Index(msg, `"`)
	if j < 0 {
		return "?"
	}
	parts := strings.Split(msg[:j], " || ")
	for i := range parts {
		parts[i] = hxs(parts[i])
	}
	return strings.Join(parts, ",")
}
