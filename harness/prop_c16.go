package main

// C16: compacted arrays (package array) behave as a sparse map and survive
// serialization.
//
// Per generated case the harness
//   (a) writes the case (index list, element values, probes, optionally a second
//       Init on the built array) for the extracted Coq model (coq/theories/Arrays.v),
//   (b) writes what the implementation does: error kind or the message fields
//       (Cnt, Bitmaps, Offsets, Elts, Flags, EltWidth, BMElts) of the typed and of the
//       generic array, the same after proto.Marshal/Unmarshal into the typed and into
//       the generic array type (4 reloaded arrays), and for every array and probe the
//       typed Get, the generic Get and GetBytes,
//   (c) runs the property oracle, written from the property text against a plain
//       map[int32]value reference, never against the model.

import (
	"encoding/binary"
	"fmt"
	"math"
	"sort"
	"strings"

	"github.com/golang/protobuf/proto"
	"github.com/openacid/slim/array"
	"reflect"
)

// ---- element types -------------------------------------------------------

type c16Kind struct {
	name   string
	signed bool
	bytes  int
}

var (
	c16U8  = c16Kind{"u8", false, 1}
	c16U16 = c16Kind{"u16", false, 2}
	c16U32 = c16Kind{"u32", false, 4}
	c16U64 = c16Kind{"u64", false, 8}
	c16I8  = c16Kind{"i8", true, 1}
	c16I16 = c16Kind{"i16", true, 2}
	c16I32 = c16Kind{"i32", true, 4}
	c16I64 = c16Kind{"i64", true, 8}
)

// a field value is kept as the raw two's-complement bits, truncated to the width
func (k c16Kind) trunc(x uint64) uint64 {
	if k.bytes == 8 {
		return x
	}
	return x & (uint64(1)<<(8*uint(k.bytes)) - 1)
}

func (k c16Kind) str(x uint64) string {
	x = k.trunc(x)
	if !k.signed {
		return fmt.Sprintf("%d", x)
	}
	sh := uint(64 - 8*k.bytes)
	return fmt.Sprintf("%d", int64(x<<sh)>>sh)
}

// fixed-size structs stored through the generic Array
type C16S1 struct {
	X int32
	Y uint16
}
type C16S2 struct {
	A uint8
	B int64
	C int16
	D uint32
}

// C16S3 is stored with a hand-written encoder (7 bytes, fields packed little endian)
type C16S3 struct {
	A uint16
	B int32
	C uint8
}

type c16S3Enc struct{}

func (c16S3Enc) Encode(v interface{}) []byte {
	s := v.(C16S3)
	b := make([]byte, 7)
	binary.LittleEndian.PutUint16(b[0:], s.A)
	binary.LittleEndian.PutUint32(b[2:], uint32(s.B))
	b[6] = s.C
	return b
}
func (c16S3Enc) Decode(b []byte) (int, interface{}) {
	return 7, C16S3{A: binary.LittleEndian.Uint16(b[0:]), B: int32(binary.LittleEndian.Uint32(b[2:])), C: b[6]}
}
func (c16S3Enc) GetSize(v interface{}) int   { return 7 }
func (c16S3Enc) GetEncodedSize(b []byte) int { return 7 }

// typed arrays behind one interface
type c16Typed interface {
	proto.Message
	get(i int32) (uint64, bool)
	base() *array.Base
}
type c16tU16 struct{ *array.U16 }
type c16tU32 struct{ *array.U32 }
type c16tU64 struct{ *array.U64 }
type c16tI16 struct{ *array.I16 }
type c16tI32 struct{ *array.I32 }
type c16tI64 struct{ *array.I64 }

func (a c16tU16) get(i int32) (uint64, bool) { v, ok := a.U16.Get(i); return uint64(v), ok }
func (a c16tU32) get(i int32) (uint64, bool) { v, ok := a.U32.Get(i); return uint64(v), ok }
func (a c16tU64) get(i int32) (uint64, bool) { v, ok := a.U64.Get(i); return uint64(v), ok }
func (a c16tI16) get(i int32) (uint64, bool) { v, ok := a.I16.Get(i); return uint64(v), ok }
func (a c16tI32) get(i int32) (uint64, bool) { v, ok := a.I32.Get(i); return uint64(v), ok }
func (a c16tI64) get(i int32) (uint64, bool) { v, ok := a.I64.Get(i); return uint64(v), ok }
func (a c16tU16) base() *array.Base          { return &a.U16.Base }
func (a c16tU32) base() *array.Base          { return &a.U32.Base }
func (a c16tU64) base() *array.Base          { return &a.U64.Base }
func (a c16tI16) base() *array.Base          { return &a.I16.Base }
func (a c16tI32) base() *array.Base          { return &a.I32.Base }
func (a c16tI64) base() *array.Base          { return &a.I64.Base }

type c16Type struct {
	name   string
	kinds  []c16Kind
	typed  bool
	custom bool
}

var c16Types = []c16Type{
	{"u16", []c16Kind{c16U16}, true, false},
	{"u32", []c16Kind{c16U32}, true, false},
	{"u64", []c16Kind{c16U64}, true, false},
	{"i16", []c16Kind{c16I16}, true, false},
	{"i32", []c16Kind{c16I32}, true, false},
	{"i64", []c16Kind{c16I64}, true, false},
	{"s1", []c16Kind{c16I32, c16U16}, false, false},
	{"s2", []c16Kind{c16U8, c16I64, c16I16, c16U32}, false, false},
	{"s3", []c16Kind{c16U16, c16I32, c16U8}, false, true},
}

func (t c16Type) width() int {
	w := 0
	for _, k := range t.kinds {
		w += k.bytes
	}
	return w
}

func (t c16Type) kindsStr() string {
	s := []string{}
	for _, k := range t.kinds {
		s = append(s, k.name)
	}
	return strings.Join(s, ",")
}

// the Go slice of elements for the raw field values
func (t c16Type) slice(vals [][]uint64) interface{} {
	n := len(vals)
	switch t.name {
	case "u16":
		s := make([]uint16, n)
		for i, v := range vals {
			s[i] = uint16(v[0])
		}
		return s
	case "u32":
		s := make([]uint32, n)
		for i, v := range vals {
			s[i] = uint32(v[0])
		}
		return s
	case "u64":
		s := make([]uint64, n)
		for i, v := range vals {
			s[i] = v[0]
		}
		return s
	case "i16":
		s := make([]int16, n)
		for i, v := range vals {
			s[i] = int16(v[0])
		}
		return s
	case "i32":
		s := make([]int32, n)
		for i, v := range vals {
			s[i] = int32(v[0])
		}
		return s
	case "i64":
		s := make([]int64, n)
		for i, v := range vals {
			s[i] = int64(v[0])
		}
		return s
	case "s1":
		s := make([]C16S1, n)
		for i, v := range vals {
			s[i] = C16S1{int32(v[0]), uint16(v[1])}
		}
		return s
	case "s2":
		s := make([]C16S2, n)
		for i, v := range vals {
			s[i] = C16S2{uint8(v[0]), int64(v[1]), int16(v[2]), uint32(v[3])}
		}
		return s
	case "s3":
		s := make([]C16S3, n)
		for i, v := range vals {
			s[i] = C16S3{uint16(v[0]), int32(v[1]), uint8(v[2])}
		}
		return s
	}
	panic("c16: type " + t.name)
}

func (t c16Type) zero() interface{} {
	switch t.name {
	case "u16":
		return uint16(0)
	case "u32":
		return uint32(0)
	case "u64":
		return uint64(0)
	case "i16":
		return int16(0)
	case "i32":
		return int32(0)
	case "i64":
		return int64(0)
	case "s1":
		return C16S1{}
	case "s2":
		return C16S2{}
	case "s3":
		return C16S3{}
	}
	panic("c16: type " + t.name)
}

// raw field values of what the generic Get returned
func c16Fields(v interface{}) ([]uint64, bool) {
	switch x := v.(type) {
	case uint16:
		return []uint64{uint64(x)}, true
	case uint32:
		return []uint64{uint64(x)}, true
	case uint64:
		return []uint64{x}, true
	case int16:
		return []uint64{uint64(x)}, true
	case int32:
		return []uint64{uint64(x)}, true
	case int64:
		return []uint64{uint64(x)}, true
	case C16S1:
		return []uint64{uint64(x.X), uint64(x.Y)}, true
	case C16S2:
		return []uint64{uint64(x.A), uint64(x.B), uint64(x.C), uint64(x.D)}, true
	case C16S3:
		return []uint64{uint64(x.A), uint64(x.B), uint64(x.C)}, true
	}
	return nil, false
}

func (t c16Type) valStr(v []uint64) string {
	s := make([]string, len(t.kinds))
	for i, k := range t.kinds {
		s[i] = k.str(v[i])
	}
	return strings.Join(s, ":")
}

// reference encoding of a value: fields packed little endian (what the property's
// raw-bytes accessor must return for the element)
func (t c16Type) refBytes(v []uint64) []byte {
	b := []byte{}
	for i, k := range t.kinds {
		x := k.trunc(v[i])
		for j := 0; j < k.bytes; j++ {
			b = append(b, byte(x>>(8*uint(j))))
		}
	}
	return b
}

func (t c16Type) newTyped(idx []int32, vals [][]uint64) (c16Typed, error) {
	s := t.slice(vals)
	switch t.name {
	case "u16":
		a, err := array.NewU16(idx, s.([]uint16))
		if a == nil {
			return nil, err
		}
		return c16tU16{a}, err
	case "u32":
		a, err := array.NewU32(idx, s.([]uint32))
		if a == nil {
			return nil, err
		}
		return c16tU32{a}, err
	case "u64":
		a, err := array.NewU64(idx, s.([]uint64))
		if a == nil {
			return nil, err
		}
		return c16tU64{a}, err
	case "i16":
		a, err := array.NewI16(idx, s.([]int16))
		if a == nil {
			return nil, err
		}
		return c16tI16{a}, err
	case "i32":
		a, err := array.NewI32(idx, s.([]int32))
		if a == nil {
			return nil, err
		}
		return c16tI32{a}, err
	case "i64":
		a, err := array.NewI64(idx, s.([]int64))
		if a == nil {
			return nil, err
		}
		return c16tI64{a}, err
	}
	panic("c16: not a typed array type")
}

func (t c16Type) emptyTyped() c16Typed {
	switch t.name {
	case "u16":
		return c16tU16{&array.U16{}}
	case "u32":
		return c16tU32{&array.U32{}}
	case "u64":
		return c16tU64{&array.U64{}}
	case "i16":
		return c16tI16{&array.I16{}}
	case "i32":
		return c16tI32{&array.I32{}}
	case "i64":
		return c16tI64{&array.I64{}}
	}
	panic("c16: not a typed array type")
}

// the generic array as a user builds it
func (t c16Type) newGeneric(idx []int32, vals [][]uint64) (*array.Array, error) {
	if t.custom {
		a := &array.Array{}
		a.EltEncoder = c16S3Enc{}
		err := a.Init(idx, t.slice(vals))
		if err != nil {
			// "builds nothing": the receiver must be as it was
			if a.Cnt != 0 || len(a.Bitmaps) != 0 || len(a.Offsets) != 0 || len(a.Elts) != 0 {
				return a, err
			}
			return nil, err
		}
		return a, nil
	}
	return array.New(idx, t.slice(vals))
}

// the generic array a serialized array is loaded into
func (t c16Type) emptyGeneric() *array.Array {
	if t.custom {
		a := &array.Array{}
		a.EltEncoder = c16S3Enc{}
		return a
	}
	a, err := array.NewEmpty(t.zero())
	if err != nil {
		panic(err)
	}
	return a
}

// ---- cases ---------------------------------------------------------------

type c16Case struct {
	ID     string
	Shape  string
	T      c16Type
	Idx    []int32
	Vals   [][]uint64
	Again  bool // a second Init on the built arrays
	Idx2   []int32
	Vals2  [][]uint64
	Probes []int32
}

func c16Ints(x []int32) string {
	s := make([]string, len(x))
	for i, v := range x {
		s[i] = fmt.Sprintf("%d", v)
	}
	return strings.Join(s, " ")
}

func (c *c16Case) valsStr(vals [][]uint64) string {
	s := make([]string, len(vals))
	for i, v := range vals {
		s[i] = c.T.valStr(v)
	}
	return strings.Join(s, " ")
}

func (c *c16Case) text() string {
	var b strings.Builder
	fmt.Fprintf(&b, "A %s %s\n", c.ID, c.T.kindsStr())
	fmt.Fprintf(&b, "I %s\n", c16Ints(c.Idx))
	fmt.Fprintf(&b, "V %s\n", c.valsStr(c.Vals))
	if c.Again {
		fmt.Fprintf(&b, "J %s\n", c16Ints(c.Idx2))
		fmt.Fprintf(&b, "W %s\n", c.valsStr(c.Vals2))
	}
	fmt.Fprintf(&b, "P %s\n", c16Ints(c.Probes))
	b.WriteString("E\n")
	return b.String()
}

func c16ErrKind(err error) string {
	switch err {
	case nil:
		return "ok"
	case array.ErrIndexNotAscending:
		return "err:notasc"
	case array.ErrIndexLen:
		return "err:len"
	}
	return "err:other"
}

func c16Hex(b []byte) string {
	if len(b) == 0 {
		return "."
	}
	return fmt.Sprintf("%x", b)
}

func c16Fieldline(tag string, m *array.Array32) string {
	bm := make([]string, len(m.Bitmaps))
	for i, w := range m.Bitmaps {
		bm[i] = fmt.Sprintf("%016x", w)
	}
	off := make([]string, len(m.Offsets))
	for i, o := range m.Offsets {
		off[i] = fmt.Sprintf("%d", o)
	}
	bme := "-"
	if m.BMElts != nil {
		bme = "set"
	}
	return fmt.Sprintf("F %s cnt=%d bm=[%s] off=[%s] elts=%s flags=%d ew=%d bme=%s", tag, m.Cnt,
		strings.Join(bm, ","), strings.Join(off, ","), c16Hex(m.Elts), m.Flags, m.EltWidth, bme)
}

// one accessor call, panics are an observable
type c16Ans struct {
	panicked bool
	found    bool
	val      []uint64 // typed / generic
	raw      []byte   // raw
	badType  bool
}

func c16Catch(f func() c16Ans) (r c16Ans) {
	defer func() {
		if e := recover(); e != nil {
			r = c16Ans{panicked: true}
		}
	}()
	return f()
}

func (c *c16Case) ansStr(a c16Ans, raw bool) string {
	switch {
	case a.panicked:
		return "PANIC"
	case a.badType:
		return "BADTYPE"
	case raw && !a.found:
		return "nil,0"
	case raw:
		return c16Hex(a.raw) + ",1"
	case !a.found && a.val == nil:
		return "nil,0"
	case !a.found:
		return c.T.valStr(a.val) + ",0"
	}
	return c.T.valStr(a.val) + ",1"
}

// an array under observation: typed (ty != nil) or generic (ge != nil)
type c16Obs struct {
	tag string
	ty  c16Typed
	ge  *array.Array
}

func (o c16Obs) msg() *array.Array32 {
	if o.ty != nil {
		return &o.ty.base().Array32
	}
	return &o.ge.Array32
}

func (o c16Obs) bs() *array.Base {
	if o.ty != nil {
		return o.ty.base()
	}
	return &o.ge.Base
}

func (o c16Obs) typedGet(i int32) c16Ans {
	return c16Catch(func() c16Ans {
		v, ok := o.ty.get(i)
		return c16Ans{found: ok, val: []uint64{v}}
	})
}

// Base.Get: the generic accessor (on a typed array it has no encoder)
func (o c16Obs) genericGet(i int32) c16Ans {
	return c16Catch(func() c16Ans {
		// through the value the user holds: on a generic array the method set of *array.Array
		// (today Get is promoted from Base; a Get defined on Array itself must be exercised too)
		var v interface{}
		var ok bool
		if o.ty == nil {
			v, ok = o.ge.Get(i)
		} else {
			v, ok = o.bs().Get(i)
		}
		if v == nil {
			return c16Ans{found: ok}
		}
		f, good := c16Fields(v)
		return c16Ans{found: ok, val: f, badType: !good}
	})
}

func (o c16Obs) rawGet(i int32, width int) c16Ans {
	return c16Catch(func() c16Ans {
		var b []byte
		var ok bool
		if o.ty == nil {
			b, ok = o.ge.GetBytes(i, width)
		} else {
			b, ok = o.bs().GetBytes(i, width)
		}
		return c16Ans{found: ok, raw: append([]byte{}, b...)}
	})
}

// ---- running one case ----------------------------------------------------

func c16Run(c *c16Case, ctx *Ctx) {
	w := ctx.Impl()
	fmt.Fprintf(w, "C %s\n", c.ID)
	t := c.T
	span := int32(0)
	valid := len(c.Idx) == len(c.Vals)
	for i := 0; i+1 < len(c.Idx); i++ {
		if c.Idx[i] >= c.Idx[i+1] {
			valid = false
		}
	}
	ref := map[int32][]uint64{}
	if valid {
		for i, x := range c.Idx {
			ref[x] = c.Vals[i]
		}
		if n := len(c.Idx); n > 0 {
			span = (c.Idx[n-1]/64 + 1) * 64
		}
	}
	wantErr := "ok"
	if len(c.Idx) != len(c.Vals) {
		wantErr = "err:len"
	} else if !valid {
		wantErr = "err:notasc"
	}
	replay := func() interface{} {
		return map[string]interface{}{"case": strings.Split(strings.TrimSpace(c.text()), "\n")}
	}

	obs := []c16Obs{}
	// build: typed, then generic
	var tArr c16Typed
	var gArr *array.Array
	if t.typed {
		kind := "ok"
		func() {
			defer func() {
				if e := recover(); e != nil {
					kind = "PANIC"
				}
			}()
			a, err := t.newTyped(c.Idx, c.Vals)
			kind = c16ErrKind(err)
			if err != nil && a != nil {
				kind += ":built"
			}
			tArr = a
		}()
		fmt.Fprintf(w, "B t %s\n", kind)
		if kind != wantErr {
			ctx.Or.Violate("C16:build-typed", fmt.Sprintf("New%s returned %s, the property demands %s", strings.ToUpper(t.name), kind, wantErr), replay())
		}
		if tArr != nil {
			obs = append(obs, c16Obs{tag: "t", ty: tArr})
		}
		// "rejected ... and build nothing", on the receiver itself: Init called directly on a zero
		// typed array (through the method set of the typed array) must leave it empty when it fails
		if wantErr != "ok" {
			ta := t.emptyTyped()
			func() {
				defer func() { recover() }()
				if err := c16InitTyped(ta, c.Idx, t.slice(c.Vals)); err != nil {
					b := ta.base()
					if b.Cnt != 0 || len(b.Bitmaps) != 0 || len(b.Offsets) != 0 || len(b.Elts) != 0 {
						ctx.Or.Violate("C16:rejected-init-builds-something", fmt.Sprintf("%s.Init returned %s but left Cnt=%d, %d bitmap words, %d offsets, %d element bytes in the array", strings.ToUpper(t.name), c16ErrKind(err), b.Cnt, len(b.Bitmaps), len(b.Offsets), len(b.Elts)), replay())
					}
				}
			}()
		}
	}
	{
		kind := "ok"
		func() {
			defer func() {
				if e := recover(); e != nil {
					kind = "PANIC"
				}
			}()
			a, err := t.newGeneric(c.Idx, c.Vals)
			kind = c16ErrKind(err)
			if err != nil && a != nil {
				kind += ":built"
			}
			gArr = a
		}()
		fmt.Fprintf(w, "B g %s\n", kind)
		if kind != wantErr {
			ctx.Or.Violate("C16:build-generic", fmt.Sprintf("generic array construction returned %s, the property demands %s", kind, wantErr), replay())
		}
		if gArr != nil {
			obs = append(obs, c16Obs{tag: "g", ge: gArr})
		}
	}
	// serialization round trips into both array types
	reload := func(tag string, src proto.Message, intoTyped bool) {
		buf, err := proto.Marshal(src)
		if err != nil {
			fmt.Fprintf(w, "R %s marshal-error\n", tag)
			ctx.Or.Violate("C16:marshal", "proto.Marshal failed: "+err.Error(), replay())
			return
		}
		var o c16Obs
		var dst proto.Message
		if intoTyped {
			ta := t.emptyTyped()
			o = c16Obs{tag: tag, ty: ta}
			dst = ta
		} else {
			ga := t.emptyGeneric()
			o = c16Obs{tag: tag, ge: ga}
			dst = ga
		}
		if err := proto.Unmarshal(buf, dst); err != nil {
			fmt.Fprintf(w, "R %s unmarshal-error\n", tag)
			ctx.Or.Violate("C16:unmarshal", "proto.Unmarshal failed: "+err.Error(), replay())
			return
		}
		fmt.Fprintf(w, "R %s ok\n", tag)
		obs = append(obs, o)
	}
	// the wire bytes of the built arrays (compared with the model's ser_array32) and proto.Size
	wireLine := func(tag string, src proto.Message) {
		buf, err := proto.Marshal(src)
		if err != nil {
			fmt.Fprintf(w, "M %s marshal-error\n", tag)
			return
		}
		fmt.Fprintf(w, "M %s size=%d %s\n", tag, proto.Size(src), c16Digest(buf))
		ctx.Or.Count("wire:built-array-marshalled")
		if len(buf) > 0 && len(buf) <= 300 && len(c16WireSeeds) < 200 {
			c16WireSeeds = append(c16WireSeeds, buf)
		}
		if proto.Size(src) != len(buf) {
			ctx.Or.Violate("C16:wire-size", fmt.Sprintf("proto.Size=%d but Marshal wrote %d bytes", proto.Size(src), len(buf)), replay())
		}
	}
	if tArr != nil {
		wireLine("t", tArr)
	}
	if gArr != nil {
		wireLine("g", gArr)
	}
	if tArr != nil {
		reload("tt", tArr, true)
		reload("tg", tArr, false)
	}
	if gArr != nil {
		if t.typed {
			reload("gt", gArr, true)
		}
		reload("gg", gArr, false)
	}

	// fields and probes
	width := t.width()
	for _, o := range obs {
		fmt.Fprintln(w, c16Fieldline(o.tag, o.msg()))
		for _, p := range c.Probes {
			ty, ge, ra := "-", "-", "-"
			var aty, age, ara c16Ans
			if o.ty != nil {
				aty = o.typedGet(p)
				ty = c.ansStr(aty, false)
			}
			age = o.genericGet(p)
			ge = c.ansStr(age, false)
			ara = o.rawGet(p, width)
			ra = c.ansStr(ara, true)
			fmt.Fprintf(w, "Q %s %d %s %s %s\n", o.tag, p, ty, ge, ra)

			// oracle: only probes within the span are constrained by the property
			if !valid || p < 0 || p >= span {
				continue
			}
			ctx.Or.Count("probes-in-span")
			want, present := ref[p]
			check := func(acc string, a c16Ans, raw bool) {
				ok := true
				if a.panicked || a.badType {
					ok = false
				} else if present {
					if !a.found {
						ok = false
					} else if raw {
						ok = string(a.raw) == string(t.refBytes(want))
					} else {
						ok = len(a.val) == len(want)
						for k := range want {
							if ok && t.kinds[k].trunc(a.val[k]) != t.kinds[k].trunc(want[k]) {
								ok = false
							}
						}
					}
				} else {
					if a.found {
						ok = false
					} else if raw {
						ok = len(a.raw) == 0
					} else if a.val != nil {
						for _, x := range a.val {
							if x != 0 {
								ok = false
							}
						}
					}
				}
				if !ok {
					exp := "(zero,false)"
					if present {
						exp = "(" + t.valStr(want) + ",true)"
					}
					ctx.Or.Violate("C16:get-"+acc, fmt.Sprintf("array %s (%s) probe %d: %s accessor returned %s, reference map says %s",
						o.tag, t.name, p, acc, c.ansStr(a, raw), exp), map[string]interface{}{"case": strings.Split(strings.TrimSpace(c.text()), "\n"), "array": o.tag, "probe": p})
				}
			}
			if o.ty != nil {
				check("typed", aty, false)
			}
			if o.ge != nil {
				check("generic", age, false)
			}
			check("raw", ara, true)
		}
	}

	// a second Init on the arrays just built: an invalid list must leave them as they were
	if c.Again {
		want2 := "ok"
		v2 := len(c.Idx2) == len(c.Vals2)
		if !v2 {
			want2 = "err:len"
		} else {
			for i := 0; i+1 < len(c.Idx2); i++ {
				if c.Idx2[i] >= c.Idx2[i+1] {
					want2 = "err:notasc"
				}
			}
		}
		for _, o := range obs[:] {
			if o.tag != "t" && o.tag != "g" {
				continue
			}
			before := c16Fieldline(o.tag+"2", o.msg())
			kind := "ok"
			func() {
				defer func() {
					if e := recover(); e != nil {
						kind = "PANIC"
					}
				}()
				var err error
				if o.ty != nil {
					err = o.ty.base().Init(c.Idx2, t.slice(c.Vals2))
				} else {
					err = o.ge.Init(c.Idx2, t.slice(c.Vals2))
				}
				kind = c16ErrKind(err)
			}()
			after := c16Fieldline(o.tag+"2", o.msg())
			fmt.Fprintf(w, "B %s2 %s\n", o.tag, kind)
			fmt.Fprintln(w, after)
			if kind != want2 {
				ctx.Or.Violate("C16:reinit-error", fmt.Sprintf("second Init returned %s, the property demands %s", kind, want2), replay())
			}
			if want2 != "ok" && before != after {
				ctx.Or.Violate("C16:reinit-built", "a rejected Init changed the array: "+before+" -> "+after, replay())
			}
		}
	}
}

// ---- generators ----------------------------------------------------------

const c16Max = 1 << 20

func c16Uniq(x []int32) []int32 {
	sort.Slice(x, func(i, j int) bool { return x[i] < x[j] })
	out := x[:0]
	for i, v := range x {
		if i == 0 || v != x[i-1] {
			out = append(out, v)
		}
	}
	return out
}

var c16Shapes = []string{"empty", "single", "dense", "holes", "sparse", "emptywords", "boundary", "wide"}

func c16GenIdx(r *RNG, shape string, big int) []int32 {
	switch shape {
	case "empty":
		return []int32{}
	case "single":
		switch r.Intn(6) {
		case 0:
			return []int32{0}
		case 1:
			return []int32{63}
		case 2:
			return []int32{64}
		case 3:
			return []int32{c16Max - 1}
		case 4:
			return []int32{int32(64*(1+r.Intn(12)) - r.Intn(2))}
		}
		return []int32{int32(r.Intn(700))}
	case "dense":
		lo := r.Intn(200)
		n := 1 + r.Intn(200)
		if r.Intn(4) == 0 {
			lo = 64 * r.Intn(4)
			n = 64 * (1 + r.Intn(3))
		}
		x := make([]int32, n)
		for i := range x {
			x[i] = int32(lo + i)
		}
		return x
	case "holes":
		lo := r.Intn(130)
		n := 1 + r.Intn(400)
		x := []int32{}
		for i := 0; i < n; i++ {
			if r.Intn(10) != 0 {
				x = append(x, int32(lo+i))
			}
		}
		return x
	case "sparse":
		n := 1 + r.Intn(20)
		rng := 64 + r.Intn(900)
		x := make([]int32, n)
		for i := range x {
			x[i] = int32(r.Intn(rng))
		}
		return c16Uniq(x)
	case "emptywords":
		// clusters separated by at least one completely empty 64-bit word
		x := []int32{}
		word := r.Intn(3)
		for k := 0; k < 1+r.Intn(4); k++ {
			for j := 0; j < 1+r.Intn(5); j++ {
				x = append(x, int32(64*word+r.Intn(64)))
			}
			word += 2 + r.Intn(3)
		}
		return c16Uniq(x)
	case "boundary":
		cand := []int32{}
		for wd := 0; wd < 1+r.Intn(5); wd++ {
			for _, d := range []int32{-2, -1, 0, 1} {
				v := int32(64*(wd+1)) + d
				cand = append(cand, v)
			}
		}
		cand = append(cand, 0, 1)
		x := []int32{}
		for _, v := range cand {
			if r.Intn(3) != 0 {
				x = append(x, v)
			}
		}
		return c16Uniq(x)
	case "wide":
		// up to the whole of [0, 2^20)
		n := 1 + r.Intn(big)
		x := make([]int32, 0, n+2)
		switch r.Intn(3) {
		case 0: // uniformly spread
			for i := 0; i < n; i++ {
				x = append(x, int32(r.Intn(c16Max)))
			}
		case 1: // dense run somewhere high, plus the extremes
			lo := r.Intn(c16Max - n)
			for i := 0; i < n; i++ {
				if r.Intn(8) != 0 {
					x = append(x, int32(lo+i))
				}
			}
			x = append(x, 0)
		default: // clusters around word boundaries far apart
			for i := 0; i < n; i++ {
				wd := r.Intn(c16Max / 64)
				x = append(x, int32(64*wd+[]int{0, 1, 62, 63}[r.Intn(4)]))
			}
		}
		if r.Bool() {
			x = append(x, c16Max-1)
		}
		return c16Uniq(x)
	}
	panic("c16: shape")
}

func c16GenField(r *RNG, k c16Kind) uint64 {
	bits := uint(8 * k.bytes)
	var ext []uint64
	if k.signed {
		ext = []uint64{0, 1, ^uint64(0), uint64(1)<<(bits-1) - 1, uint64(1) << (bits - 1), uint64(1)<<(bits-1) + 1, ^uint64(0) - 1}
	} else {
		ext = []uint64{0, 1, ^uint64(0), ^uint64(0) - 1, uint64(1) << (bits - 1), 255, 256}
	}
	switch r.Intn(3) {
	case 0:
		return k.trunc(ext[r.Intn(len(ext))])
	case 1:
		return k.trunc(r.U64() >> uint(r.Intn(64)))
	}
	return k.trunc(r.U64())
}

func c16GenVals(r *RNG, t c16Type, n int) [][]uint64 {
	v := make([][]uint64, n)
	for i := range v {
		f := make([]uint64, len(t.kinds))
		for j, k := range t.kinds {
			f[j] = c16GenField(r, k)
		}
		v[i] = f
	}
	return v
}

// probes: the whole span (+ a little beyond) when small, otherwise every listed index,
// its neighbours, word boundaries next to them and a random sample; plus a few probes
// outside the span, whose outcome (a panic) only the correspondence looks at
func c16GenProbes(r *RNG, idx []int32, sample int) []int32 {
	span := int32(0)
	if n := len(idx); n > 0 && idx[n-1] >= 0 {
		span = (idx[n-1]/64 + 1) * 64
	}
	p := []int32{}
	if sample <= 0 {
		sample = 30
	}
	if span <= 1024 {
		for i := int32(0); i < span; i++ {
			p = append(p, i)
		}
	} else {
		step := 1
		if len(idx) > sample {
			step = len(idx) / sample
		}
		for i := 0; i < len(idx); i += step {
			v := idx[i]
			for _, d := range []int32{-1, 0, 1} {
				p = append(p, v+d)
			}
			p = append(p, v/64*64, v/64*64+63, v/64*64-1, v/64*64+64)
		}
		p = append(p, idx[len(idx)-1], 0, span-1)
		for i := 0; i < sample; i++ {
			p = append(p, int32(r.Intn(int(span))))
		}
		q := p[:0]
		for _, v := range p {
			if v >= 0 && v < span {
				q = append(q, v)
			}
		}
		p = c16Uniq(q)
	}
	// outside the span
	p = append(p, span, span+1, span+63, span+64)
	if r.Intn(3) == 0 {
		p = append(p, -1, -64, math.MaxInt32, math.MinInt32, c16Max, int32(r.Intn(1<<30))+span+64)
	}
	return p
}

// make an index list invalid: equal or descending neighbours at position pos
func c16Break(r *RNG, idx []int32) ([]int32, string) {
	x := append([]int32{}, idx...)
	if len(x) < 2 {
		x = []int32{5, 9, 70}[:2+r.Intn(2)]
	}
	if r.Intn(4) == 0 {
		// a defect in the MIDDLE of a consecutive run: first, last and the count still look like a
		// dense ascending list (last-first == n-1)
		n := 3 + r.Intn(6)
		s := int32(r.Intn(200))
		x = make([]int32, n)
		for i := range x {
			x[i] = s + int32(i)
		}
		p := 1 + r.Intn(n-2)
		if p+1 < n-1 && r.Bool() {
			x[p], x[p+1] = x[p+1], x[p]
			return x, "dense-middle-swap"
		}
		x[p] = x[p-1]
		return x, "dense-middle-equal"
	}
	pos := r.Intn(len(x) - 1)
	switch r.Intn(3) {
	case 0:
		pos = 0
	case 1:
		pos = len(x) - 2
	}
	how := "equal"
	switch r.Intn(3) {
	case 0:
		x[pos+1] = x[pos]
	case 1:
		how = "swap"
		x[pos], x[pos+1] = x[pos+1], x[pos]
	default:
		how = "drop"
		x[pos+1] = int32(r.Intn(int(x[pos]) + 1))
	}
	return x, how
}

func c16GenCase(r *RNG, id string, shape string, t c16Type, big, sample int) *c16Case {
	c := &c16Case{ID: id, Shape: shape, T: t}
	c.Idx = c16GenIdx(r, shape, big)
	c.Vals = c16GenVals(r, t, len(c.Idx))
	c.Probes = c16GenProbes(r, c.Idx, sample)
	return c
}

// encodings of small built arrays, the seeds of the mutated byte strings
var c16WireSeeds [][]byte

func init() {
	register("C16", func(c *Ctx) {
		c16WireSeeds = nil
		c16SameNameTypes(c)
		c.Or.Rule = "cases: (shape x element type) over index sets in [0,2^20): empty, single, dense, holes, sparse, emptywords, boundary (63/64/127/128..), wide; " +
			"element types u16,u32,u64,i16,i32,i64 (typed + generic array), structs s1{i32,u16}, s2{u8,i64,i16,u32} (type encoder), s3{u16,i32,u8} (hand-written encoder); " +
			"field values: extremes, random magnitudes, random 64-bit patterns; invalid: equal/swapped/dropped neighbour at first/last/random position, lengths off by +-k; " +
			"reinit: a second Init (valid or invalid) on the built arrays; every case is evaluated on the built arrays and on 4 marshal/unmarshal reloads (typed->typed, typed->generic, generic->typed, generic->generic); " +
			"probes: the whole span when span<=1024, else listed indexes, neighbours, word boundaries and a sample, plus out-of-span/negative probes (correspondence only). " +
			"wire: for every built array the bytes of proto.Marshal and proto.Size; messages Array32 given by their fields (all int32/uint32/uint64 extremes, negative int32, BMElts absent/empty/filled, retained unknown fields) marshalled, sized and reloaded; " +
			"byte strings (fixed corner cases, noise, mutated real encodings: truncated/byte/bit/concatenated, and concatenations of fragments: scalars, packed/unpacked repeated, bytes, sub-message fragments, unknown fields of every wire type incl. nested groups, known numbers with the wrong wire type, tag 0, wire types 6/7, stray/missing end-group, truncated/overlong/non-minimal varints, lengths beyond the end, cut packed payloads) given to proto.Unmarshal: accept/reject, loaded fields incl. XXX_unrecognized, and the re-marshalled bytes. " +
			"non-trivial: every case except a valid empty one and the empty byte string; distinct by the full case text"
		cw := c.Cases()
		emit := func(cs *c16Case, class string) {
			txt := cs.text()
			cw.WriteString(txt)
			c16Run(cs, c)
			nontrivial := !(class == "valid" && len(cs.Idx) == 0)
			c.Or.Case(txt, nontrivial)
			c.Or.Count("class:" + class)
			c.Or.Count("shape:" + cs.Shape)
			c.Or.Count("type:" + cs.T.name)
			if class == "valid" && len(cs.Idx) > 0 && len(cs.Idx) < 6 {
				c.Or.Sample(map[string]interface{}{"type": cs.T.name, "idx": cs.Idx, "vals": cs.valsStr(cs.Vals)})
			}
		}
		n := 0
		id := func() string { n++; return fmt.Sprintf("a%d", n) }

		// fixed corner cases first
		for _, t := range c16Types {
			for _, ix := range [][]int32{{}, {0}, {63}, {64}, {63, 64}, {127, 128}, {0, 63, 64, 127, 128, 191}, {c16Max - 1}, {0, 200}, {1, 5, 9, 203}} {
				if len(ix) == 1 && ix[0] == c16Max-1 && t.name != "u64" && t.name != "s3" {
					continue
				}
				cs := &c16Case{ID: id(), Shape: "fixed", T: t, Idx: ix}
				cs.Vals = c16GenVals(c.R, t, len(ix))
				cs.Probes = c16GenProbes(c.R, ix, 50)
				if len(ix) > 0 && ix[len(ix)-1] > 1024 {
					cs.Probes = c16GenProbes(c.R, ix, 20)
				}
				emit(cs, "valid")
			}
		}
		// the example of coq/props/C16.v (ex_idx, ex_vals): its Marshal bytes are quoted there
		{
			cs := &c16Case{ID: id(), Shape: "fixed", T: c16Types[0], Idx: []int32{1, 5, 9, 203},
				Vals: [][]uint64{{12}, {15}, {19}, {120}}}
			cs.Probes = c16GenProbes(c.R, cs.Idx, 50)
			emit(cs, "valid")
		}
		// bitmap.Of meets the int32 boundary: position MaxInt32
		for _, t := range []c16Type{c16Types[0], c16Types[6]} {
			cs := &c16Case{ID: id(), Shape: "maxint32", T: t, Idx: []int32{7, math.MaxInt32}}
			cs.Vals = c16GenVals(c.R, t, 2)
			cs.Probes = []int32{7}
			// outside the property's domain [0,2^20): the oracle does not judge it
			cw.WriteString(cs.text())
			c16RunUnjudged(cs, c)
			c.Or.Count("class:beyond-domain")
		}

		rounds := c.N(14, 150)
		for round := 0; round < rounds; round++ {
			for _, shape := range c16Shapes {
				if shape == "wide" {
					continue
				}
				t := c16Types[c.R.Intn(len(c16Types))]
				r := c.R.Fork()
				cs := c16GenCase(r, id(), shape, t, 0, 0)
				emit(cs, "valid")

				// an invalid sibling
				t2 := c16Types[c.R.Intn(len(c16Types))]
				inv := c16GenCase(r, id(), shape, t2, 0, 0)
				class := "invalid-order"
				if r.Bool() {
					var how string
					inv.Idx, how = c16Break(r, inv.Idx)
					inv.Vals = c16GenVals(r, t2, len(inv.Idx))
					class += ":" + how
					if r.Intn(4) == 0 { // both defects at once: the length check comes first
						inv.Vals = inv.Vals[:len(inv.Vals)-1]
						class = "invalid-both"
					}
				} else {
					k := 1 + r.Intn(3)
					if r.Bool() && len(inv.Vals) >= k {
						inv.Vals = inv.Vals[:len(inv.Vals)-k]
					} else {
						inv.Vals = append(inv.Vals, c16GenVals(r, t2, k)...)
					}
					class = "invalid-length"
				}
				inv.Probes = []int32{0, 1, 64}
				emit(inv, class)

				// a second Init on a built array
				if round%2 == 0 {
					t3 := c16Types[c.R.Intn(len(c16Types))]
					re := c16GenCase(r, id(), shape, t3, 0, 0)
					re.Again = true
					re.Probes = re.Probes[:c16min(len(re.Probes), 8)]
					switch r.Intn(4) {
					case 0:
						re.Idx2, _ = c16Break(r, re.Idx)
						re.Vals2 = c16GenVals(r, t3, len(re.Idx2))
					case 1:
						re.Idx2 = c16GenIdx(r, c16Shapes[r.Intn(7)], 0)
						re.Vals2 = c16GenVals(r, t3, len(re.Idx2)+1+r.Intn(2))
					case 2:
						re.Idx2 = []int32{}
						re.Vals2 = [][]uint64{}
					default:
						re.Idx2 = c16GenIdx(r, c16Shapes[r.Intn(7)], 0)
						re.Vals2 = c16GenVals(r, t3, len(re.Idx2))
					}
					emit(re, "reinit")
				}
			}
		}
		// wide index sets over all of [0, 2^20)
		wide := c.N(9, 60)
		for i := 0; i < wide; i++ {
			t := c16Types[i%len(c16Types)]
			r := c.R.Fork()
			big := c.N(3000, 40000)
			if i%3 == 0 {
				big = 200
			}
			cs := c16GenCase(r, id(), "wide", t, big, c.N(60, 300))
			emit(cs, "valid")
		}
		// more than 2^16 elements: element positions (rank offsets, byte offsets into Elts) beyond
		// 16 bits, for every scalar type (seeded change C16-w5a: U64.Get adds offsets in uint16)
		for i := 0; i < 6; i++ {
			t := c16Types[i]
			r := c.R.Fork()
			n := 66000 + r.Intn(c.N(6000, 30000))
			lo := r.Intn(c16Max - n - 64)
			ix := make([]int32, 0, n)
			for j := 0; j < n; j++ {
				if j < 400 && r.Intn(8) == 0 {
					continue
				}
				ix = append(ix, int32(lo+j))
			}
			cs := &c16Case{ID: id(), Shape: "huge", T: t, Idx: ix}
			cs.Vals = c16GenVals(r, t, len(ix))
			cs.Probes = c16GenProbes(r, ix, 40)
			cs.Probes = append(cs.Probes, ix[65535], ix[65536], ix[65537], ix[len(ix)-1], ix[len(ix)-1]+1, ix[65536+r.Intn(len(ix)-65536)])
			emit(cs, "valid")
		}
		// the wire format: messages given by their fields, and arbitrary byte strings
		c16WireCases(c, c16WireSeeds)
	})
}

func c16min(a, b int) int {
	if a < b {
		return a
	}
	return b
}

// run a case for the correspondence only (no oracle judgement)
func c16RunUnjudged(cs *c16Case, c *Ctx) {
	saved := c.Or
	c.Or = NewOracle()
	c16Run(cs, c)
	c.Or = saved
}

// ---- wire format ---------------------------------------------------------
// proto.Marshal / proto.Size / proto.Unmarshal of array.Array32 (and its sub-message
// array.Bits) against the model's ser_array32 / size_array32 / parse_array32
// (coq/theories/ArrWire.v): byte-for-byte on generated messages, field-for-field
// (XXX_unrecognized included) and accept/reject on arbitrary byte strings.

// long byte strings are compared by length + FNV-1a 64 (+ the bytes themselves when short)
func c16Digest(b []byte) string {
	h := uint64(14695981039346656037)
	for _, x := range b {
		h ^= uint64(x)
		h *= 1099511628211
	}
	s := fmt.Sprintf("len=%d fnv=%016x", len(b), h)
	if len(b) <= 2048 {
		s += " hex=" + c16Hex(b)
	}
	return s
}

func c16U64s(x []uint64) string {
	s := make([]string, len(x))
	for i, v := range x {
		s[i] = fmt.Sprintf("%d", v)
	}
	return strings.Join(s, " ")
}

func c16BitsFields(b *array.Bits) string {
	if b == nil {
		return "-"
	}
	wd := make([]string, len(b.Words))
	for i, v := range b.Words {
		wd[i] = fmt.Sprintf("%016x", v)
	}
	rk := make([]string, len(b.RankIndex))
	for i, v := range b.RankIndex {
		rk[i] = fmt.Sprintf("%d", v)
	}
	return fmt.Sprintf("{flags=%d n=%d words=[%s] rank=[%s] unk=%s}", b.Flags, b.N,
		strings.Join(wd, ","), strings.Join(rk, ","), c16Hex(b.XXX_unrecognized))
}

// every field of the message, the retained unknown fields included
func c16WireFields(m *array.Array32) string {
	bm := make([]string, len(m.Bitmaps))
	for i, v := range m.Bitmaps {
		bm[i] = fmt.Sprintf("%016x", v)
	}
	off := make([]string, len(m.Offsets))
	for i, v := range m.Offsets {
		off[i] = fmt.Sprintf("%d", v)
	}
	return fmt.Sprintf("cnt=%d bm=[%s] off=[%s] elts=%s flags=%d ew=%d bme=%s unk=%s", m.Cnt,
		strings.Join(bm, ","), strings.Join(off, ","), c16Hex(m.Elts), m.Flags, m.EltWidth,
		c16BitsFields(m.BMElts), c16Hex(m.XXX_unrecognized))
}

// the case text of a message given by its fields
func c16WireMsgText(id string, m *array.Array32) string {
	var b strings.Builder
	fmt.Fprintf(&b, "M %s\n", id)
	fmt.Fprintf(&b, "wc %d %d %d\n", m.Cnt, m.Flags, m.EltWidth)
	fmt.Fprintf(&b, "wb %s\n", c16U64s(m.Bitmaps))
	fmt.Fprintf(&b, "wo %s\n", c16Ints(m.Offsets))
	fmt.Fprintf(&b, "we %s\n", c16Hex(m.Elts))
	fmt.Fprintf(&b, "wu %s\n", c16Hex(m.XXX_unrecognized))
	if m.BMElts == nil {
		b.WriteString("wm -\n")
	} else {
		fmt.Fprintf(&b, "wm %d %d\n", m.BMElts.Flags, m.BMElts.N)
		fmt.Fprintf(&b, "ww %s\n", c16U64s(m.BMElts.Words))
		fmt.Fprintf(&b, "wr %s\n", c16Ints(m.BMElts.RankIndex))
		fmt.Fprintf(&b, "wx %s\n", c16Hex(m.BMElts.XXX_unrecognized))
	}
	b.WriteString("Y\n")
	return b.String()
}

func c16ErrClass(err error) string {
	s := err.Error()
	switch {
	case strings.Contains(s, "unexpected EOF"):
		return "eof"
	case strings.Contains(s, "illegal tag"):
		return "tag0"
	case strings.Contains(s, "wire type"), strings.Contains(s, "wiretype"):
		return "wiretype"
	case strings.Contains(s, "group"):
		return "group"
	case strings.Contains(s, "overflow"):
		return "overflow"
	}
	return "other"
}

// proto.Unmarshal into a fresh Array32: "ok", "err:<class>" or "PANIC"
func c16Unmarshal(buf []byte, m *array.Array32) (kind string) {
	defer func() {
		if e := recover(); e != nil {
			kind = "PANIC"
		}
	}()
	if err := proto.Unmarshal(buf, m); err != nil {
		return "err:" + c16ErrClass(err)
	}
	return "ok"
}

// a message given by its fields: Marshal, Size, and Unmarshal of the bytes just written
func c16RunWireMsg(id string, m *array.Array32, ctx *Ctx) {
	w := ctx.Impl()
	fmt.Fprintf(w, "C %s\n", id)
	replay := map[string]interface{}{"case": strings.Split(strings.TrimSpace(c16WireMsgText(id, m)), "\n")}
	before := c16WireFields(m)
	buf, err := proto.Marshal(m)
	if err != nil {
		fmt.Fprintln(w, "M marshal-error")
		ctx.Or.Violate("C16:wire-marshal", "proto.Marshal failed: "+err.Error(), replay)
		return
	}
	fmt.Fprintf(w, "M size=%d %s\n", proto.Size(m), c16Digest(buf))
	if proto.Size(m) != len(buf) {
		ctx.Or.Violate("C16:wire-size", fmt.Sprintf("proto.Size=%d but Marshal wrote %d bytes", proto.Size(m), len(buf)), replay)
	}
	var back array.Array32
	kind := c16Unmarshal(buf, &back)
	if kind != "ok" {
		fmt.Fprintf(w, "U %s\n", strings.SplitN(kind, ":", 2)[0])
		ctx.Or.Count("wire:msg-reload-" + kind)
		if len(m.XXX_unrecognized) == 0 && (m.BMElts == nil || len(m.BMElts.XXX_unrecognized) == 0) {
			ctx.Or.Violate("C16:wire-roundtrip", "proto.Unmarshal rejected what proto.Marshal wrote: "+kind, replay)
		}
		return
	}
	after := c16WireFields(&back)
	fmt.Fprintf(w, "U ok %s\n", after)
	// the property: the contents survive serialization (messages without retained unknown fields)
	if len(m.XXX_unrecognized) == 0 && (m.BMElts == nil || len(m.BMElts.XXX_unrecognized) == 0) {
		ctx.Or.Count("wire:msg-roundtrip-checked")
		if before != after {
			ctx.Or.Violate("C16:wire-roundtrip", "fields changed by Marshal/Unmarshal: "+before+" -> "+after, replay)
		}
	}
}

// an arbitrary byte string: Unmarshal (accept/reject, never a panic), the fields it
// yields, and what Marshal writes for the loaded message
func c16RunWireBytes(id string, b []byte, ctx *Ctx) {
	w := ctx.Impl()
	fmt.Fprintf(w, "C %s\n", id)
	var m array.Array32
	kind := c16Unmarshal(b, &m)
	ctx.Or.Count("wire:bytes-" + kind)
	if kind == "PANIC" {
		fmt.Fprintln(w, "U PANIC")
		ctx.Or.Violate("C16:wire-panic", "proto.Unmarshal panicked on a byte string", map[string]interface{}{"bytes": c16Hex(b)})
		return
	}
	if kind != "ok" {
		fmt.Fprintln(w, "U err")
		return
	}
	fmt.Fprintf(w, "U ok %s\n", c16WireFields(&m))
	out, err := proto.Marshal(&m)
	if err != nil {
		fmt.Fprintln(w, "M marshal-error")
		return
	}
	fmt.Fprintf(w, "M size=%d %s\n", proto.Size(&m), c16Digest(out))
}

// ---- generators for the wire cases ---------------------------------------

func c16AppendVarint(b []byte, x uint64) []byte {
	for x >= 0x80 {
		b = append(b, byte(x)|0x80)
		x >>= 7
	}
	return append(b, byte(x))
}

func c16TagBytes(field uint64, wire int) []byte {
	return c16AppendVarint(nil, field<<3|uint64(wire))
}

var c16ExtU64 = []uint64{0, 1, 127, 128, 16383, 16384, 1<<31 - 1, 1 << 31, 1<<32 - 1, 1 << 32, 1<<56 - 1, 1 << 56, 1<<63 - 1, 1 << 63, ^uint64(0) - 1, ^uint64(0)}

func c16GenU64(r *RNG) uint64 {
	switch r.Intn(3) {
	case 0:
		return c16ExtU64[r.Intn(len(c16ExtU64))]
	case 1:
		return r.U64() >> uint(r.Intn(64))
	}
	return r.U64()
}

func c16GenI32(r *RNG) int32 {
	switch r.Intn(4) {
	case 0:
		return []int32{0, 1, -1, 127, 128, -128, -129, math.MaxInt32, math.MinInt32, math.MaxInt32 - 1, math.MinInt32 + 1}[r.Intn(11)]
	case 1:
		return int32(r.Intn(300))
	case 2:
		return int32(uint32(r.U64() >> uint(32+r.Intn(32))))
	}
	return int32(uint32(r.U64()))
}

func c16GenU32(r *RNG) uint32 {
	switch r.Intn(3) {
	case 0:
		return []uint32{0, 1, 127, 128, 1 << 31, math.MaxUint32, math.MaxUint32 - 1}[r.Intn(7)]
	case 1:
		return uint32(r.Intn(300))
	}
	return uint32(r.U64())
}

func c16GenBytes(r *RNG, max int) []byte {
	n := r.Intn(max + 1)
	b := make([]byte, n)
	for i := range b {
		b[i] = byte(r.U64())
	}
	return b
}

func c16Fixed(r *RNG, n int) []byte {
	b := make([]byte, n)
	for i := range b {
		b[i] = byte(r.U64())
	}
	return b
}

// well-formed field with number f and a random wire type among 0,1,2,5,3(group)
func c16GenFieldAnyWire(r *RNG, f uint64, depth int, wires []int) []byte {
	wire := wires[r.Intn(len(wires))]
	switch wire {
	case 0:
		return c16AppendVarint(c16TagBytes(f, 0), c16GenU64(r))
	case 1:
		return append(c16TagBytes(f, 1), c16Fixed(r, 8)...)
	case 5:
		return append(c16TagBytes(f, 5), c16Fixed(r, 4)...)
	case 2:
		p := c16GenBytes(r, 12)
		return append(c16AppendVarint(c16TagBytes(f, 2), uint64(len(p))), p...)
	}
	// group: start tag, nested well-formed fields, end tag (the end tag's number is not checked by the reader)
	b := c16TagBytes(f, 3)
	if depth < 3 {
		for i := 0; i < r.Intn(3); i++ {
			b = append(b, c16GenFieldAnyWire(r, uint64(1+r.Intn(50)), depth+1, []int{0, 1, 2, 5, 3})...)
		}
	}
	g := f
	if r.Intn(4) == 0 {
		g = uint64(1 + r.Intn(50))
	}
	return append(b, c16TagBytes(g, 4)...)
}

func c16UnknownNumber(r *RNG, known []uint64) uint64 {
	for {
		var f uint64
		switch r.Intn(4) {
		case 0:
			f = uint64(1 + r.Intn(40))
		case 1:
			f = uint64(1 + r.Intn(1<<29-1))
		case 2:
			f = []uint64{15, 16, 2047, 2048, 1<<29 - 1, 1 << 29, 1<<61 - 1}[r.Intn(7)]
		default:
			f = uint64(5 + r.Intn(5))
		}
		ok := true
		for _, k := range known {
			if k == f {
				ok = false
			}
		}
		if ok {
			return f
		}
	}
}

var c16KnownArray = []uint64{1, 2, 3, 4, 10, 20, 30}
var c16KnownBits = []uint64{1, 10, 20, 30}

func c16GenBitsMsg(r *RNG) *array.Bits {
	b := &array.Bits{}
	if r.Intn(5) == 0 {
		return b // present but empty: tag + length 0
	}
	if r.Bool() {
		b.Flags = c16GenU32(r)
	}
	if r.Bool() {
		b.N = c16GenI32(r)
	}
	for i := 0; i < r.Intn(5); i++ {
		b.Words = append(b.Words, c16GenU64(r))
	}
	for i := 0; i < r.Intn(5); i++ {
		b.RankIndex = append(b.RankIndex, c16GenI32(r))
	}
	if r.Intn(6) == 0 {
		b.XXX_unrecognized = c16GenFieldAnyWire(r, c16UnknownNumber(r, c16KnownBits), 0, []int{0, 1, 2, 5, 3})
	}
	return b
}

func c16GenWireMsg(r *RNG) *array.Array32 {
	m := &array.Array32{}
	if r.Intn(12) == 0 {
		return m
	}
	if r.Intn(4) != 0 {
		m.Cnt = c16GenI32(r)
	}
	for i := 0; i < r.Intn(7); i++ {
		m.Bitmaps = append(m.Bitmaps, c16GenU64(r))
	}
	for i := 0; i < r.Intn(7); i++ {
		m.Offsets = append(m.Offsets, c16GenI32(r))
	}
	if r.Bool() {
		m.Elts = c16GenBytes(r, 24)
		if r.Intn(8) == 0 {
			m.Elts = c16GenBytes(r, 400)
		}
	}
	if r.Intn(3) == 0 {
		m.Flags = c16GenU32(r)
	}
	if r.Intn(3) == 0 {
		m.EltWidth = c16GenI32(r)
	}
	if r.Intn(3) == 0 {
		m.BMElts = c16GenBitsMsg(r)
	}
	if r.Intn(6) == 0 {
		for i := 0; i < 1+r.Intn(2); i++ {
			m.XXX_unrecognized = append(m.XXX_unrecognized, c16GenFieldAnyWire(r, c16UnknownNumber(r, c16KnownArray), 0, []int{0, 1, 2, 5, 3})...)
		}
	}
	return m
}

func c16Packed(r *RNG, f uint64, n int, i32 bool) []byte {
	p := []byte{}
	for i := 0; i < n; i++ {
		if i32 {
			p = c16AppendVarint(p, uint64(int64(c16GenI32(r))))
		} else {
			p = c16AppendVarint(p, c16GenU64(r))
		}
	}
	return append(c16AppendVarint(c16TagBytes(f, 2), uint64(len(p))), p...)
}

// one piece of a byte string; class says what it is ("bad-..." pieces are malformed on their own)
func c16GenFragment(r *RNG, forBits bool, depth int) ([]byte, string) {
	scalars := []uint64{1, 10, 20}
	reps := []uint64{2, 3}
	known := c16KnownArray
	if forBits {
		scalars = []uint64{1, 10}
		reps = []uint64{20, 30}
		known = c16KnownBits
	}
	switch r.Intn(16) {
	case 0, 1: // scalar, any 64-bit value (the reader keeps the low 32 bits)
		f := scalars[r.Intn(len(scalars))]
		return c16AppendVarint(c16TagBytes(f, 0), c16GenU64(r)), "scalar"
	case 2: // packed repeated
		f := reps[r.Intn(len(reps))]
		return c16Packed(r, f, r.Intn(5), r.Bool()), "packed"
	case 3: // one unpacked element of a repeated field
		f := reps[r.Intn(len(reps))]
		return c16AppendVarint(c16TagBytes(f, 0), c16GenU64(r)), "unpacked"
	case 4: // bytes Elts
		if forBits {
			return c16Packed(r, 20, 1+r.Intn(3), false), "packed"
		}
		p := c16GenBytes(r, 10)
		return append(c16AppendVarint(c16TagBytes(4, 2), uint64(len(p))), p...), "bytes"
	case 5, 6: // sub-message BMElts made of Bits fragments (merged into an earlier one)
		if forBits || depth > 0 {
			return c16GenFieldAnyWire(r, c16UnknownNumber(r, known), 0, []int{0, 1, 2, 5, 3}), "unknown"
		}
		p := []byte{}
		cls := "submsg"
		for i := 0; i < r.Intn(4); i++ {
			q, c := c16GenFragment(r, true, depth+1)
			p = append(p, q...)
			if strings.HasPrefix(c, "bad") {
				cls = "bad-submsg"
			}
		}
		return append(c16AppendVarint(c16TagBytes(30, 2), uint64(len(p))), p...), cls
	case 7, 8: // unknown field number, any wire type, groups included
		return c16GenFieldAnyWire(r, c16UnknownNumber(r, known), 0, []int{0, 1, 2, 5, 3}), "unknown"
	case 9: // known number, unexpected wire type: kept as unknown
		f := known[r.Intn(len(known))]
		isRep := f == reps[0] || f == reps[1]
		isLen := !forBits && (f == 4 || f == 30)
		wires := []int{1, 5, 3}
		if !isRep && !isLen {
			wires = append(wires, 2)
		}
		if isLen {
			wires = append(wires, 0)
		}
		return c16GenFieldAnyWire(r, f, 0, wires), "wrongwire"
	case 10: // illegal: tag 0, wire types 6 and 7, a stray end-group
		switch r.Intn(4) {
		case 0:
			return append([]byte{byte(r.Intn(8))}, c16GenBytes(r, 3)...), "bad-tag0"
		case 1:
			return append(c16TagBytes(uint64(1+r.Intn(40)), 6), c16GenBytes(r, 3)...), "bad-wire6"
		case 2:
			return append(c16TagBytes(uint64(1+r.Intn(40)), 7), c16GenBytes(r, 3)...), "bad-wire7"
		}
		return c16TagBytes(uint64(1+r.Intn(40)), 4), "bad-endgroup"
	case 11: // varints: truncated, overlong, 10th byte >= 2; or merely non-minimal (legal)
		f := scalars[r.Intn(len(scalars))]
		t := c16TagBytes(f, 0)
		switch r.Intn(5) {
		case 0:
			n := 1 + r.Intn(9)
			for i := 0; i < n; i++ {
				t = append(t, 0x80|byte(r.U64()))
			}
			return t, "bad-varint-truncated"
		case 1:
			for i := 0; i < 10+r.Intn(3); i++ {
				t = append(t, 0xff)
			}
			return append(t, 0x01), "bad-varint-overlong"
		case 2:
			for i := 0; i < 9; i++ {
				t = append(t, 0x80|byte(r.U64()))
			}
			return append(t, byte(2+r.Intn(126))), "bad-varint-10th"
		case 3:
			for i := 0; i < 9; i++ {
				t = append(t, 0x80|byte(r.U64()))
			}
			return append(t, byte(r.Intn(2))), "varint-10-bytes"
		}
		n := 1 + r.Intn(8)
		for i := 0; i < n; i++ {
			t = append(t, 0x80)
		}
		return append(t, 0x00), "varint-nonminimal"
	case 12: // length prefix beyond the end / enormous
		f := []uint64{2, 3, 4, 30, 7}[r.Intn(5)]
		if forBits {
			f = []uint64{20, 30, 7}[r.Intn(3)]
		}
		t := c16TagBytes(f, 2)
		switch r.Intn(3) {
		case 0:
			t = c16AppendVarint(t, uint64(1+r.Intn(40)))
			return t, "bad-length"
		case 1:
			return c16AppendVarint(t, []uint64{1 << 31, 1 << 32, 1 << 63, ^uint64(0)}[r.Intn(4)]), "bad-length-huge"
		}
		p := c16GenBytes(r, 6)
		return append(c16AppendVarint(t, uint64(len(p)+1+r.Intn(3))), p...), "bad-length"
	case 13: // packed payload whose last varint is cut
		f := reps[r.Intn(len(reps))]
		p := []byte{}
		for i := 0; i < r.Intn(3); i++ {
			p = c16AppendVarint(p, c16GenU64(r))
		}
		p = append(p, 0x80|byte(r.U64()))
		return append(c16AppendVarint(c16TagBytes(f, 2), uint64(len(p))), p...), "bad-packed"
	case 14: // a tag written non-minimally (legal), or a tag above 2^32
		f := known[r.Intn(len(known))]
		x := f<<3 | 0
		t := []byte{}
		for i := 0; i < 1+r.Intn(3); i++ {
			t = append(t, byte(x)|0x80)
			x >>= 7
		}
		t = append(t, byte(x))
		return c16AppendVarint(t, c16GenU64(r)), "tag-nonminimal"
	}
	// unterminated group
	b := c16TagBytes(c16UnknownNumber(r, known), 3)
	for i := 0; i < r.Intn(3); i++ {
		b = append(b, c16GenFieldAnyWire(r, uint64(1+r.Intn(50)), 1, []int{0, 1, 2, 5})...)
	}
	return b, "bad-group-open"
}

func c16GenWireBytes(r *RNG, seedMsgs [][]byte) ([]byte, string) {
	switch r.Intn(10) {
	case 0: // noise
		return c16GenBytes(r, 24), "random"
	case 1, 2: // a mutated real encoding
		if len(seedMsgs) == 0 {
			return c16GenBytes(r, 8), "random"
		}
		b := append([]byte{}, seedMsgs[r.Intn(len(seedMsgs))]...)
		if len(b) == 0 {
			return b, "mutated:empty"
		}
		switch r.Intn(4) {
		case 0:
			return b[:r.Intn(len(b))], "mutated:truncated"
		case 1:
			b[r.Intn(len(b))] = byte(r.U64())
			return b, "mutated:byte"
		case 2:
			b[r.Intn(len(b))] ^= 1 << uint(r.Intn(8))
			return b, "mutated:bit"
		}
		// two encodings concatenated: the reader merges them
		return append(b, seedMsgs[r.Intn(len(seedMsgs))]...), "mutated:concat"
	}
	b := []byte{}
	cls := "fragments"
	for i := 0; i < r.Intn(6); i++ {
		q, c := c16GenFragment(r, false, 0)
		b = append(b, q...)
		if strings.HasPrefix(c, "bad") {
			cls = "fragments:with-bad"
		}
	}
	if len(b) > 0 && r.Intn(6) == 0 {
		b = b[:r.Intn(len(b))]
		cls = "fragments:truncated"
	}
	return b, cls
}

// the wire cases of one run
func c16WireCases(c *Ctx, seedMsgs [][]byte) {
	cw := c.Cases()
	nm := c.N(250, 3000)
	for i := 0; i < nm; i++ {
		r := c.R.Fork()
		m := c16GenWireMsg(r)
		if i == 0 {
			// the example of coq/props/C16.v (ex_wire_msg): its Marshal bytes are quoted there
			m = &array.Array32{Cnt: 3, Bitmaps: []uint64{0x8000000000000001, 0}, Offsets: []int32{0, -1},
				Elts: []byte("abc"), Flags: 1 << 31, EltWidth: -2,
				BMElts: &array.Bits{Flags: 1, N: 300, Words: []uint64{255}, RankIndex: []int32{0, 7}}}
		}
		id := fmt.Sprintf("m%d", i+1)
		txt := c16WireMsgText(id, m)
		cw.WriteString(txt)
		if b, err := proto.Marshal(m); err == nil && len(b) > 0 && len(seedMsgs) < 400 {
			seedMsgs = append(seedMsgs, b)
		}
		c16RunWireMsg(id, m, c)
		c.Or.Case(txt, true)
		c.Or.Count("class:wire-message")
		if m.BMElts != nil {
			c.Or.Count("wire:msg-with-BMElts")
		}
		if len(m.XXX_unrecognized) > 0 {
			c.Or.Count("wire:msg-with-unknown-fields")
		}
	}
	// fixed byte strings first, then generated ones
	fixed := [][]byte{
		{}, {0x00}, {0x08}, {0x08, 0x00}, {0x08, 0x80}, {0x0a, 0x00}, {0x12, 0x00}, {0x1a, 0x01, 0x80},
		{0xf2, 0x01, 0x00}, {0xf2, 0x01, 0x02, 0x08, 0x05}, {0xf2, 0x01, 0x01, 0x08},
		{0xf2, 0x01, 0x02, 0x08, 0x05, 0xf2, 0x01, 0x02, 0x50, 0x07}, // two BMElts fragments: merged
		{0x08, 0x01, 0x08, 0x02}, {0x22, 0x01, 0x41, 0x22, 0x00},     // last scalar / last bytes wins
		{0x10, 0x05, 0x12, 0x02, 0x06, 0x07, 0x10, 0x08}, // unpacked + packed + unpacked Bitmaps
		{0x3b, 0x08, 0x01, 0x3c}, {0x3b, 0x3b, 0x3c, 0x3c}, {0x3b, 0x3c, 0x3c}, {0x3c},
		{0x08, 0xff, 0xff, 0xff, 0xff, 0xff, 0xff, 0xff, 0xff, 0xff, 0x01},
		{0x08, 0xff, 0xff, 0xff, 0xff, 0xff, 0xff, 0xff, 0xff, 0xff, 0x02},
		{0x09, 1, 2, 3, 4, 5, 6, 7, 8}, {0x09, 1, 2, 3, 4, 5, 6, 7}, {0x0d, 1, 2, 3, 4}, {0x0d, 1, 2, 3},
	}
	nb := c.N(700, 10000)
	for i := 0; i < len(fixed)+nb; i++ {
		var b []byte
		cls := "fixed"
		if i < len(fixed) {
			b = fixed[i]
		} else {
			b, cls = c16GenWireBytes(c.R.Fork(), seedMsgs)
		}
		id := fmt.Sprintf("x%d", i+1)
		txt := fmt.Sprintf("X %s %s\n", id, c16Hex(b))
		cw.WriteString(txt)
		c16RunWireBytes(id, b, c)
		c.Or.Case("X "+c16Hex(b), len(b) > 0)
		c.Or.Count("class:wire-bytes")
		c.Or.Count("wirebytes:" + cls)
	}
}

// Two DIFFERENT fixed-size struct types that print the same type name (function-local types
// called "item", as equal package names under different import paths would give): generic arrays
// of both are built one after the other in one process and every element must come back as
// supplied - anything keyed by the type's NAME instead of the type confuses them.
func c16ItemsA(n int) (interface{}, func(v interface{}, i int) bool) {
	type item struct {
		X int32
		Y int32
	}
	vs := make([]item, n)
	for i := range vs {
		vs[i] = item{X: int32(i + 1), Y: int32(-i)}
	}
	return vs, func(v interface{}, i int) bool { x, ok := v.(item); return ok && x == vs[i] }
}

func c16ItemsB(n int) (interface{}, func(v interface{}, i int) bool) {
	type item struct {
		ID    uint16
		Score int64
		Tag   uint8
	}
	vs := make([]item, n)
	for i := range vs {
		vs[i] = item{ID: uint16(i + 1), Score: int64(-1 - i), Tag: uint8(200 + i)}
	}
	return vs, func(v interface{}, i int) bool { x, ok := v.(item); return ok && x == vs[i] }
}

func c16SameNameTypes(c *Ctx) {
	idx := []int32{1, 5, 64, 65, 300}
	for round, mk := range []func(int) (interface{}, func(interface{}, int) bool){c16ItemsA, c16ItemsB, c16ItemsA} {
		vs, same := mk(len(idx))
		res, p := protect(func() string {
			a, err := array.New(idx, vs)
			if err != nil {
				return "build error: " + err.Error()
			}
			for i, ix := range idx {
				v, ok := a.Get(ix)
				if !ok || !same(v, i) {
					return fmt.Sprintf("Get(%d) = %#v, %v; supplied %#v", ix, v, ok, reflect.ValueOf(vs).Index(i).Interface())
				}
			}
			return ""
		})
		c.Or.Count("same-name-struct-types")
		if res != "" {
			c.Or.Violate("C16:same-name-struct-types", fmt.Sprintf("generic arrays of two different struct types with the same type name, built one after the other (round %d): %s %s", round, res, p),
				map[string]interface{}{"indexes": idx, "round": round, "got": res})
			return
		}
	}
}

// Init through the typed array's own method set (today promoted from Base)
func c16InitTyped(ta c16Typed, idx []int32, s interface{}) error {
	switch x := ta.(type) {
	case c16tU16:
		return x.U16.Init(idx, s.([]uint16))
	case c16tU32:
		return x.U32.Init(idx, s.([]uint32))
	case c16tU64:
		return x.U64.Init(idx, s.([]uint64))
	case c16tI16:
		return x.I16.Init(idx, s.([]int16))
	case c16tI32:
		return x.I32.Init(idx, s.([]int32))
	case c16tI64:
		return x.I64.Init(idx, s.([]int64))
	}
	return nil
}
