// c11race: the race-detector half of property C11. Built and run by the
// harness as `go run -race ./c11race <seed> <rounds> <repo>`; it is a separate
// program because the harness itself is not built with -race.
//
// It builds shared SlimTrie instances (fresh, loaded from current bytes,
// loaded from legacy fixtures), computes every read result alone, then lets
// 2..32 goroutines run all read APIs concurrently on the one instance with
// randomized runtime.Gosched() yields, comparing every concurrent result with
// the solo result. A data race makes the race runtime print
// "WARNING: DATA RACE" and exit with status 66; a differing result prints a
// line starting with "MISMATCH".
package main

import (
	"encoding/hex"
	"fmt"
	"io/ioutil"
	"os"
	"path/filepath"
	"runtime"
	"runtime/debug"
	"sort"
	"strconv"
	"strings"
	"sync"

	"github.com/openacid/slim/encode"
	"github.com/openacid/slim/trie"
	"github.com/openacid/testkeys"
)

type rng struct{ s uint64 }

func (r *rng) u64() uint64 {
	r.s += 0x9E3779B97F4A7C15
	z := r.s
	z = (z ^ (z >> 30)) * 0xBF58476D1CE4E5B9
	z = (z ^ (z >> 27)) * 0x94D049BB133111EB
	return z ^ (z >> 31)
}
func (r *rng) intn(n int) int { return int(r.u64() % uint64(n)) }

type op struct {
	name string
	run  func(y *rng) string
}

func guard(f func() string) (s string) {
	defer func() {
		if e := recover(); e != nil {
			s = "PANIC"
			if os.Getenv("C11RACE_DEBUG") != "" {
				fmt.Printf("panic: %v\n%s\n", e, debug.Stack())
			}
		}
	}()
	return f()
}

func yield(y *rng) {
	if y.intn(3) == 0 {
		runtime.Gosched()
	}
}

func hx(b []byte) string {
	if b == nil {
		return "nil"
	}
	return hex.EncodeToString(b)
}

// ops lists every read API applied to the instance; each op returns a
// canonical string.
func ops(st *trie.SlimTrie, queries []string, complete bool) []op {
	var l []op
	cur := ""
	add := func(n string, f func(y *rng) string) {
		l = append(l, op{n + "(" + cur + ")", func(y *rng) string { return guard(func() string { return f(y) }) }})
	}
	for _, q := range queries {
		q := q
		cur = "0x" + hex.EncodeToString([]byte(q))
		add("Get", func(y *rng) string { v, f := st.Get(q); return fmt.Sprint(v, f) })
		add("GetID", func(y *rng) string { return fmt.Sprint(st.GetID(q)) })
		add("RangeGet", func(y *rng) string { v, f := st.RangeGet(q); return fmt.Sprint(v, f) })
		add("Search", func(y *rng) string { a, b, c := st.Search(q); return fmt.Sprint(a, b, c) })
		add("GetI8", func(y *rng) string { v, f := st.GetI8(q); return fmt.Sprint(v, f) })
		add("GetI16", func(y *rng) string { v, f := st.GetI16(q); return fmt.Sprint(v, f) })
		add("GetI32", func(y *rng) string { v, f := st.GetI32(q); return fmt.Sprint(v, f) })
		add("GetI64", func(y *rng) string { v, f := st.GetI64(q); return fmt.Sprint(v, f) })
	}
	cur = ""
	add("Stat", func(y *rng) string { return fmt.Sprintf("%+v", *st.Stat()) })
	add("String", func(y *rng) string { return st.String() })
	add("Marshal", func(y *rng) string { b, err := st.Marshal(); return hx(b) + fmt.Sprint(err) })
	if complete {
		for i, q := range queries {
			if i%3 != 0 {
				continue
			}
			q := q
			cur = "0x" + hex.EncodeToString([]byte(q))
			incl := i%2 == 0
			add("ScanFrom", func(y *rng) string {
				var sb strings.Builder
				n := 0
				st.ScanFrom(q, incl, true, func(k, v []byte) bool {
					sb.WriteString(hx(k) + "=" + hx(v) + ";")
					yield(y)
					n++
					return n < 40
				})
				return sb.String()
			})
			end := queries[(i+1)%len(queries)]
			add("ScanFromTo", func(y *rng) string {
				var sb strings.Builder
				n := 0
				st.ScanFromTo(q, incl, end, !incl, false, func(k, v []byte) bool {
					sb.WriteString(hx(k) + "=" + hx(v) + ";")
					yield(y)
					n++
					return n < 40
				})
				return sb.String()
			})
			add("NewIter", func(y *rng) string {
				var sb strings.Builder
				nxt := st.NewIter(q, incl, true)
				for n := 0; n < 40; n++ {
					k, v := nxt()
					if k == nil {
						break
					}
					sb.WriteString(hx(k) + "=" + hx(v) + ";")
					yield(y) // other iterators of the same trie advance in between
				}
				return sb.String()
			})
		}
	}
	return l
}

var failed bool

// batch: one goroutine running n random ops; differing results are recorded.
func batch(all []op, solo []string, y *rng, n int, skip map[int]bool, diff map[int]string, mu *sync.Mutex) {
	for j := 0; j < n; j++ {
		i := y.intn(len(all))
		yield(y)
		got := all[i].run(y)
		if got != solo[i] && !skip[i] {
			mu.Lock()
			if _, ok := diff[i]; !ok {
				diff[i] = got
			}
			mu.Unlock()
		}
	}
}

func hammer(label string, st *trie.SlimTrie, queries []string, complete bool, r *rng, rounds int) {
	all := ops(st, queries, complete)
	solo := make([]string, len(all))
	y0 := &rng{1}
	for i, o := range all {
		solo[i] = o.run(y0)
	}
	var mu sync.Mutex
	// Control, NO concurrency: fresh goroutines, one at a time, each running a
	// random sequence of ops. A result that differs here differs without any
	// sharing (it depends on what the goroutine's stack held before): reported
	// as NONDET and excluded from the concurrent comparison.
	nondet := map[int]string{}
	seq := func(n int) {
		for k := 0; k < n; k++ {
			var wg sync.WaitGroup
			y := &rng{r.u64()}
			wg.Add(1)
			go func() { defer wg.Done(); batch(all, solo, y, 20+y.intn(40), nil, nondet, &mu) }()
			wg.Wait()
		}
	}
	seq(8 * rounds)
	skip := map[int]bool{}
	for i := range nondet {
		skip[i] = true
	}
	diff := map[int]string{}
	for round := 0; round < rounds; round++ {
		g := 2 + r.intn(31) // 2..32
		var wg sync.WaitGroup
		for k := 0; k < g; k++ {
			y := &rng{r.u64()}
			wg.Add(1)
			go func() { defer wg.Done(); batch(all, solo, y, 20+y.intn(40), skip, diff, &mu) }()
		}
		wg.Wait()
	}
	if len(diff) > 0 {
		// does it also happen without concurrency, given more tries?
		seq(60 * rounds)
	}
	for i, got := range nondet {
		failed = true
		fmt.Printf("NONDET %s op=%s got=%.200s want=%.200s\n", label, all[i].name, got, solo[i])
	}
	for i, got := range diff {
		if _, ok := nondet[i]; ok {
			continue
		}
		failed = true
		fmt.Printf("MISMATCH %s op=%s got=%.200s want=%.200s\n", label, all[i].name, got, solo[i])
	}
	fmt.Printf("ok %s ops=%d rounds=%d\n", label, len(all), rounds)
}

func genKeys(r *rng, n int) []string {
	m := map[string]bool{}
	alpha := []byte{0x00, 0x01, 0x61, 0x62, 0x63, 0x7f, 0x80, 0xff}
	for len(m) < n {
		l := r.intn(7)
		b := make([]byte, l)
		for i := range b {
			b[i] = alpha[r.intn(len(alpha))]
		}
		m[string(b)] = true
	}
	ks := make([]string, 0, n)
	for k := range m {
		ks = append(ks, k)
	}
	sort.Strings(ks)
	return ks
}

func queriesOf(r *rng, keys []string, n int) []string {
	qs := []string{""}
	for i := 0; i < n && len(keys) > 0; i++ {
		k := keys[r.intn(len(keys))]
		switch r.intn(3) {
		case 0:
			qs = append(qs, k)
		case 1:
			qs = append(qs, k+"x")
		default:
			if len(k) > 0 {
				qs = append(qs, k[:len(k)-1])
			}
		}
	}
	return qs
}

func main() {
	if len(os.Args) < 4 {
		fmt.Println("usage: c11race <seed> <rounds> <repo>")
		os.Exit(2)
	}
	seed, _ := strconv.ParseUint(os.Args[1], 10, 64)
	rounds, _ := strconv.Atoi(os.Args[2])
	repo := os.Args[3]
	r := &rng{seed}

	optsets := []trie.Opt{
		{Complete: trie.Bool(true)},
		{},
		{InnerPrefix: trie.Bool(true)},
		{LeafPrefix: trie.Bool(true), DedupValue: trie.Bool(false)},
	}
	for ci, o := range optsets {
		n := []int{1, 2, 40, 300}[r.intn(4)]
		keys := genKeys(r, n)
		vals := make([]int32, len(keys))
		for i := range vals {
			vals[i] = int32(i / (1 + ci%2))
		}
		st, err := trie.NewSlimTrie(encode.I32{}, keys, vals, o)
		if err != nil {
			fmt.Println("build failed:", err)
			os.Exit(3)
		}
		complete := o.Complete != nil && *o.Complete
		qs := queriesOf(r, keys, 12)
		hammer(fmt.Sprintf("fresh#%d(n=%d)", ci, len(keys)), st, qs, complete, r, rounds)

		buf, err := st.Marshal()
		if err != nil {
			fmt.Println("marshal failed:", err)
			os.Exit(3)
		}
		st2, _ := trie.NewSlimTrie(encode.I32{}, nil, nil)
		if err := st2.Unmarshal(buf); err != nil {
			fmt.Println("unmarshal failed:", err)
			os.Exit(3)
		}
		hammer(fmt.Sprintf("loaded#%d(n=%d)", ci, len(keys)), st2, qs, complete, r, rounds)
	}

	// legacy fixtures: one three-array stream (<0.5.10), the three 0.5.10 layouts
	// (prefix re-encoding during load)
	for _, fx := range [][2]string{
		{"10vl5", "slimtrie-data-10vl5-0.5.0"},
		{"11vl5", "slimtrie-data-11vl5-0.5.4"},
		{"11vl5", "slimtrie-data-11vl5-0.5.9"},
		{"300vl50", "slimtrie-data-300vl50-allpref-0.5.10"},
		{"300vl50", "slimtrie-data-300vl50-innpref-0.5.10"},
		{"11vl5", "slimtrie-data-11vl5-nopref-0.5.10"},
	} {
		p := filepath.Join(repo, "trie", "testdata", fx[1])
		b, err := ioutil.ReadFile(p)
		if err != nil {
			fmt.Println("skip fixture (not present):", fx[1])
			continue
		}
		st, _ := trie.NewSlimTrie(encode.I32{}, nil, nil)
		if err := st.Unmarshal(b); err != nil {
			fmt.Println("legacy unmarshal failed:", fx[1], err)
			os.Exit(3)
		}
		keys := testkeys.Load(fx[0])
		complete := strings.Contains(fx[1], "allpref")
		hammer("legacy:"+fx[1], st, queriesOf(r, keys, 12), complete, r, rounds)
	}
	if failed {
		os.Exit(4)
	}
	fmt.Println("c11race: done")
}
