package main

// C04m - the scan APIs run over the REAL message fields.
//
// For every generated trie the harness writes the protobuf message fields of the
// implementation's own st.inner (an `M <id> ... EM` block, the format of the L3
// decoder cases) followed by `MS <scan op>` lines.  The extracted Coq model
// (coq/theories/ScanMsg.v through coq/extract/BitsX_driver.ml) runs getGEPath / newIter /
// the closure / ScanFrom / ScanFromTo over THOSE fields - node ids, getNode,
// getLeftChildID, Rank128 of the first / last child, the decoded label bitmaps, VLenArray.get -
// and must print what the implementation's NewIter / ScanFrom / ScanFromTo print (canonical
// form of harness/prop_c04.go).  ScanMsg*Proofs.v prove that on the message of every built
// trie the model equals the tree-level scan model about which C04 is proved.
//
// The same MS lines are appended to the decoder cases of the L3 check (c04mL3Hook).
// The oracle is C04's sorted reference (c04Expect), never the model.

import (
	"fmt"
	"strings"

	"github.com/openacid/slim/trie"
)

// c04mEmit writes the MS lines of one message block and the implementation's answers.
// Returns the first finding of the sorted-reference oracle, if any.
func c04mEmit(c *Ctx, st *trie.SlimTrie, tc *TrieCase, loaded bool, ops []c04Op) []*c04Finding {
	cw, iw := c.Cases(), c.Impl()
	ref := NewRef(tc)
	_, inner, leaf := tc.Norm()
	complete := inner && leaf
	fs := []*c04Finding{}
	for _, op := range ops {
		fmt.Fprintf(cw, "MS %s\n", op.head())
		gt, f := c04CheckBuilt(tc, ref, complete, st, loaded, op)
		fmt.Fprintf(iw, "s %s = %s\n", op.head(), gt)
		if f != nil {
			fs = append(fs, f)
		}
		c.Or.Count("message-level scan ops:" + string(op.Kind))
	}
	return fs
}

// c04mBlock: message block + node view (what the driver prints for an M block) + MS lines.
func c04mBlock(c *Ctx, id string, st *trie.SlimTrie, tc *TrieCase, loaded bool, ops []c04Op) []*c04Finding {
	cw, iw := c.Cases(), c.Impl()
	fmt.Fprintf(cw, "M %s\n", id)
	cw.WriteString(l3DumpMsgStr(st.VerifInner()))
	fmt.Fprintf(cw, "EM\n")
	fmt.Fprintf(iw, "C %s\n", id)
	DumpView(iw, st)
	return c04mEmit(c, st, tc, loaded, ops)
}

// a small set of scan ops for a trie of the L3 check (complete tries: real scans;
// incomplete non-empty tries: the refusal, decided from the message fields)
func c04mFewOps(r *RNG, tc *TrieCase) []c04Op {
	n := len(tc.Keys)
	if n > 400 {
		return nil
	}
	starts := []string{""}
	if n > 0 {
		starts = append(starts, tc.Keys[r.Intn(n)])
		k := tc.Keys[r.Intn(n)]
		starts = append(starts, k+randBytes(r, 1))
		if len(k) > 0 {
			starts = append(starts, k[:len(k)-1])
		}
	}
	_, inner, leaf := tc.Norm()
	if !(inner && leaf) {
		return []c04Op{{Kind: 'I', Start: starts[r.Intn(len(starts))], Incl: r.Bool(), WithV: r.Bool()}}
	}
	ops := []c04Op{}
	for i, s := range starts {
		if i == 0 || n <= 64 {
			ops = append(ops, c04Op{Kind: 'I', Start: s, Incl: r.Bool(), WithV: i%2 == 0})
		}
		ops = append(ops, c04Op{Kind: 'S', Start: s, Incl: r.Bool(), WithV: r.Bool(), Stop: r.Intn(4)})
		e := ""
		if n > 0 {
			e = tc.Keys[r.Intn(n)]
		}
		ops = append(ops, c04Op{Kind: 'R', Start: s, Incl: r.Bool(), End: e, InclEnd: r.Bool(), WithV: r.Bool(), Stop: -1})
	}
	return ops
}

// c04mL3Hook is called at the end of l3DecoderCase: MS lines on the message block just written.
func c04mL3Hook(c *Ctx, st *trie.SlimTrie, tc *TrieCase) {
	if tc == nil {
		return
	}
	ops := c04mFewOps(c.R.Fork(), tc)
	for _, f := range c04mEmit(c, st, tc, false, ops) {
		c.Or.Violate("L3:"+f.key, f.what, c04MkReplay(tc, f.op, f.loaded, c04trunc(f.got), c04trunc(f.want)))
		break
	}
}

func c04mRun(c *Ctx) {
	c.Or.Rule = "cases: one PRNG stream from VERIF_SEED. (a) Complete tries: key-set kinds " + strings.Join(kindNames, "/") +
		" x value layouts " + strings.Join(vkindNames, "/") + " x the complete option spellings x encoders " + strings.Join(c04Encs, "/") +
		" (C04's generator); per case the real message fields of the fresh trie and of the trie loaded from its Marshal output, and on each: " +
		"start strings = \"\", first/last key and a sample of the C03 query set; per start NewIter for both inclusivities x withValue (all pairs + 3 further calls), " +
		"ScanFrom stopping at 0,1,2,k and never, ScanFromTo with random end strings. (b) incomplete non-empty tries under every incomplete option spelling: every scan must panic " +
		"(the model decides it from InnerPrefixes.PositionBM / LeafPrefixes of the message). (c) empty tries. " +
		"a case = (options, encoder, keys, values, scan ops); non-trivial = at least 2 keys; distinct = distinct canonical case text"
	reported := map[string]bool{}
	doCase := func(tc *TrieCase, ops []c04Op, group string) {
		canon := fmt.Sprint(tc.Opt, tc.Enc, tc.Keys, tc.IDs, ops)
		c.Or.Case(canon, len(tc.Keys) >= 2)
		c.Or.Count("group:" + group)
		c.Or.Count("kind:" + tc.Kind)
		c.Or.Count("values:" + tc.VKind)
		c.Or.Count("norm:" + c04NormName(tc))
		c.Or.Count("enc:" + tc.Enc)
		c.Or.Count("keys:" + bucket(len(tc.Keys)))
		b := tc.Build()
		if b.Err != nil {
			c.Or.Count("build:" + buildErrStr(b.Err, tc.Keys))
			return
		}
		sh := l3ShapeOf(b.St)
		if sh.big > 0 {
			c.Or.Count("shape:has-big-nodes")
		}
		if sh.short > 0 {
			c.Or.Count("shape:has-short-nodes")
		}
		if len(c.Or.Samples) < 3 && len(tc.Keys) >= 2 && len(tc.Keys) <= 6 && len(ops) > 0 {
			c.Or.Sample(c04MkReplay(tc, ops[0], false, "", ""))
		}
		fs := c04mBlock(c, tc.ID+".msg", b.St, tc, false, ops)
		if st2, _, err := reload(b.St, b.Spec); err == nil {
			fs = append(fs, c04mBlock(c, tc.ID+"+L.msg", st2, tc, true, ops)...)
		}
		c.Or.Add("scan-ops(fresh+loaded)", 2*len(ops))
		for _, f := range fs {
			if reported[f.key] {
				continue
			}
			reported[f.key] = true
			c.Or.Violate(f.key, f.what, c04MkReplay(tc, f.op, f.loaded, c04trunc(f.got), c04trunc(f.want)))
		}
	}

	// (a) complete tries
	nComplete := c.N(110, 1200)
	budget := c.N(3000, 6000)
	for i := 0; i < nComplete; i++ {
		r := c.R.Fork()
		kind := r.Intn(KKindCnt)
		if r.Intn(5) == 0 {
			kind = KFanout // big (257-bit) nodes
		}
		tc := genTrieCase(r.Fork(), fmt.Sprintf("c04m_%d", i), kind, r.Intn(VKindCnt), 1, 40)
		for !isComplete(tc.Opt) {
			tc.Opt = randOpt(r)
		}
		tc.Enc = c04Encs[r.Intn(len(c04Encs))]
		if i%7 == 3 && tc.IDs != nil {
			tc.Enc = []string{"S16", "RAW"}[r.Intn(2)] // variable-width values
		}
		if len(tc.Keys) > 300 {
			tc.Queries = tc.Queries[:0]
		}
		starts := c04Starts(r, tc, budget)
		doCase(tc, c04Ops(r, tc, starts), "complete")
	}
	// (b) refusal on incomplete, non-empty tries
	inc := c04IncompleteOpts()
	for i := 0; i < c.N(len(inc), 4*len(inc)); i++ {
		r := c.R.Fork()
		vk := VNil
		if i%2 == 1 {
			vk = 1 + r.Intn(VKindCnt-1)
		}
		kind := r.Intn(KKindCnt)
		if kind == KLongRuns || kind == KRegular {
			kind = KSharedPrefix
		}
		tc := genTrieCase(r.Fork(), fmt.Sprintf("c04mr_%d", i), kind, vk, 1, 12)
		tc.Opt = inc[i%len(inc)]
		tc.Enc = c04Encs[r.Intn(len(c04Encs))]
		ops := []c04Op{}
		for _, s := range c04Starts(r, tc, 0) {
			ops = append(ops, c04Op{Kind: 'I', Start: s, Incl: r.Bool(), WithV: r.Bool()})
			ops = append(ops, c04Op{Kind: 'S', Start: s, Incl: r.Bool(), WithV: r.Bool(), Stop: -1})
			ops = append(ops, c04Op{Kind: 'R', Start: s, Incl: r.Bool(), End: s + "\xff", InclEnd: r.Bool(), WithV: r.Bool(), Stop: -1})
		}
		doCase(tc, ops, "refusal")
	}
	// (c) empty tries
	for i, o := range [][4]int8{{-1, -1, -1, 1}, {1, 1, 1, 1}, {-1, -1, -1, -1}, {0, 0, 1, 0}} {
		r := c.R.Fork()
		tc := &TrieCase{ID: fmt.Sprintf("c04me_%d", i), Opt: o, Enc: c04Encs[r.Intn(len(c04Encs))], Keys: []string{}, Kind: "empty", VKind: "nil"}
		if i%2 == 1 {
			tc.IDs = []uint64{}
			tc.VKind = "distinct"
		}
		ops := []c04Op{}
		for _, s := range []string{"", "a", "\xff\xff"} {
			ops = append(ops, c04Op{Kind: 'I', Start: s, Incl: r.Bool(), WithV: r.Bool()})
			ops = append(ops, c04Op{Kind: 'S', Start: s, Incl: r.Bool(), WithV: r.Bool(), Stop: -1})
			ops = append(ops, c04Op{Kind: 'R', Start: s, Incl: r.Bool(), End: "zz", InclEnd: r.Bool(), WithV: r.Bool(), Stop: -1})
		}
		doCase(tc, ops, "empty")
	}
}

func init() {
	register("C04m", c04mRun)
}
