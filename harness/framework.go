package main

import (
	"bufio"
	"crypto/sha1"
	"encoding/json"
	"fmt"
	"os"
	"path/filepath"
	"sort"
	"sync/atomic"
	"time"
)

// Violation is a concrete input on which the implementation breaks a property
// as stated. Key identifies the finding (for KNOWN_FINDINGS.txt).
type Violation struct {
	Key    string      `json:"key"`
	What   string      `json:"what"`
	Replay interface{} `json:"replay"`
}

// Oracle collects what a run covered; it is written to oracle.json and copied
// into the evidence by tools/check.py. Every number is counted here.
type Oracle struct {
	Evaluations int                    `json:"evaluations"`
	Distinct    int                    `json:"distinct_nontrivial"`
	Rule        string                 `json:"rule"`
	Dist        map[string]int         `json:"distribution"`
	Samples     []interface{}          `json:"samples"`
	Violations  []Violation            `json:"violations"`
	Extra       map[string]interface{} `json:"oracle"`
	seen        map[[20]byte]bool
	partial     string // where violations are flushed as they are found (survives a kill of the process)
}

func NewOracle() *Oracle {
	return &Oracle{Dist: map[string]int{}, Extra: map[string]interface{}{}, seen: map[[20]byte]bool{}, Samples: []interface{}{}, Violations: []Violation{}}
}

// Case records one evaluated case. canon is a canonical text of the case used
// to count distinct cases; nontrivial says whether it counts by the stated rule.
func (o *Oracle) Case(canon string, nontrivial bool) {
	o.Evaluations++
	if !nontrivial {
		return
	}
	h := sha1.Sum([]byte(canon))
	if !o.seen[h] {
		o.seen[h] = true
		o.Distinct++
	}
}

func (o *Oracle) Count(key string)      { o.Dist[key]++ }
func (o *Oracle) Add(key string, n int) { o.Dist[key] += n }

func (o *Oracle) Sample(s interface{}) {
	if len(o.Samples) < 4 {
		o.Samples = append(o.Samples, s)
	}
}

func (o *Oracle) Violate(key, what string, replay interface{}) {
	if len(o.Violations) < 50 {
		o.Violations = append(o.Violations, Violation{key, what, replay})
	}
	// the first findings are written out at once: an implementation that then exhausts memory
	// or never returns gets the process killed before oracle.json is written
	if o.partial != "" && len(o.Violations) <= 5 {
		if b, err := json.MarshalIndent(map[string]interface{}{"violations": o.Violations}, "", " "); err == nil {
			os.WriteFile(o.partial, b, 0o644)
		}
	}
}

type Ctx struct {
	PID   string
	Seed  uint64
	Tier  string
	Out   string
	Repo  string
	R     *RNG
	Or    *Oracle
	cases *bufio.Writer
	impl  *bufio.Writer
	files []*os.File
}

func (c *Ctx) Thorough() bool { return c.Tier == "thorough" }

// N picks the case count for the tier.
func (c *Ctx) N(quick, thorough int) int {
	if c.Thorough() {
		return thorough
	}
	return quick
}

func (c *Ctx) open(name string) *bufio.Writer {
	os.MkdirAll(c.Out, 0o755)
	f, err := os.Create(filepath.Join(c.Out, name))
	if err != nil {
		panic(err)
	}
	c.files = append(c.files, f)
	return bufio.NewWriterSize(f, 1<<20)
}

// Cases is the input file read by the extracted model; Impl the
// implementation's canonical observables for the same cases.
func (c *Ctx) Cases() *bufio.Writer {
	if c.cases == nil {
		c.cases = c.open("cases.txt")
	}
	return c.cases
}
func (c *Ctx) Impl() *bufio.Writer {
	if c.impl == nil {
		c.impl = c.open("impl.txt")
	}
	return c.impl
}

// InFlight records the input the implementation is about to run on; Landed removes the record.
// If the process dies in between (out of memory, fatal runtime error, kill after a hang) the
// record names the input: tools/check.py reports it as the failing input.
func (c *Ctx) InFlight(replay interface{}) {
	os.MkdirAll(c.Out, 0o755)
	if b, err := json.Marshal(map[string]interface{}{"replay": replay}); err == nil {
		os.WriteFile(filepath.Join(c.Out, "inflight.json"), b, 0o644)
	}
}
func (c *Ctx) Landed() { os.Remove(filepath.Join(c.Out, "inflight.json")) }

func (c *Ctx) Close() {
	if c.cases != nil {
		c.cases.Flush()
	}
	if c.impl != nil {
		c.impl.Flush()
	}
	for _, f := range c.files {
		f.Close()
	}
	b, err := json.MarshalIndent(c.Or, "", " ")
	if err != nil {
		panic(err)
	}
	if err := os.WriteFile(filepath.Join(c.Out, "oracle.json"), b, 0o644); err != nil {
		panic(err)
	}
}

// A watchdog for calls into the implementation that may never return (a lookup on a
// mis-initialised instance can loop forever): WatchStart before the call, WatchEnd after it.
// When a watched call is still running after 90 s the finding is recorded with its input, the
// evidence is written and the process exits (the stuck goroutine cannot be stopped).
type watch struct {
	since  time.Time
	what   string
	replay func() interface{}
}

var curWatch atomic.Value

func WatchStart(what string, replay func() interface{}) {
	curWatch.Store(&watch{time.Now(), what, replay})
}
func WatchEnd() { curWatch.Store((*watch)(nil)) }

func startWatchdog(c *Ctx) {
	go func() {
		for {
			time.Sleep(2 * time.Second)
			w, _ := curWatch.Load().(*watch)
			if w == nil || time.Since(w.since) < 90*time.Second {
				continue
			}
			var rp interface{}
			func() {
				defer func() { recover() }()
				if w.replay != nil {
					rp = w.replay()
				}
			}()
			c.Or.Violate(c.PID+":no-termination", fmt.Sprintf("%s: %s did not return within 90 s", c.PID, w.what), rp)
			c.Close()
			fmt.Printf("%s: evaluations=%d violations=%d (stopped at a call that does not return)\n", c.PID, c.Or.Evaluations, len(c.Or.Violations))
			os.Exit(0)
		}
	}()
}

// theCtx is the context of the running property (helpers without a Ctx parameter record the
// in-flight input through it)
var theCtx *Ctx

var props = map[string]func(*Ctx){}

func register(pid string, f func(*Ctx)) { props[pid] = f }

func runProp(args []string) bool {
	// prop <Cxx> --seed N --tier quick|thorough --out dir --repo dir
	if len(args) < 2 || args[0] != "prop" {
		return false
	}
	c := &Ctx{PID: args[1], Seed: 1, Tier: "quick", Out: "work/" + args[1], Repo: "/repo", Or: NewOracle()}
	for i := 2; i+1 < len(args); i += 2 {
		switch args[i] {
		case "--seed":
			fmt.Sscan(args[i+1], &c.Seed)
		case "--tier":
			c.Tier = args[i+1]
		case "--out":
			c.Out = args[i+1]
		case "--repo":
			c.Repo = args[i+1]
		}
	}
	f, ok := props[c.PID]
	if !ok {
		ids := []string{}
		for k := range props {
			ids = append(ids, k)
		}
		sort.Strings(ids)
		fmt.Fprintln(os.Stderr, "no harness for", c.PID, "; have", ids)
		os.Exit(2)
	}
	c.R = NewRNG(c.Seed)
	os.MkdirAll(c.Out, 0o755)
	c.Or.partial = filepath.Join(c.Out, "oracle.partial.json")
	os.Remove(c.Or.partial)
	os.Remove(filepath.Join(c.Out, "oracle.json"))
	c.Landed()
	theCtx = c
	startWatchdog(c)
	f(c)
	c.Close()
	fmt.Printf("%s: evaluations=%d distinct=%d violations=%d\n", c.PID, c.Or.Evaluations, c.Or.Distinct, len(c.Or.Violations))
	return true
}
