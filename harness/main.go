package main

import (
	"bufio"
	"fmt"
	"os"
	"path/filepath"
	"strconv"
)

var allEncNames = []string{"I8", "I16", "I32", "I64", "U16", "U32", "U64", "Int", "S16", "B3", "TE", "Dummy"}

// randOpt picks one of the 16 boolean combinations, or (1 in 4) a raw
// combination with nil pointers.
func randOpt(r *RNG) [4]int8 {
	var o [4]int8
	raw := r.Intn(4) == 0
	for i := range o {
		if raw {
			o[i] = int8(r.Intn(3)) - 1
		} else {
			o[i] = int8(r.Intn(2))
		}
	}
	return o
}

func genTrieCase(r *RNG, id string, kind, vkind int, scale, qbudget int) *TrieCase {
	c := &TrieCase{ID: id, Kind: kindNames[kind], VKind: vkindNames[vkind]}
	c.Opt = randOpt(r)
	c.Keys = genKeySet(r, kind, scale)
	c.IDs = genValueIDs(r, len(c.Keys), vkind)
	c.Enc = allEncNames[r.Intn(len(allEncNames))]
	c.Queries = genQueries(r, c.Keys, qbudget)
	return c
}

func mustCreate(path string) (*os.File, *bufio.Writer) {
	os.MkdirAll(filepath.Dir(path), 0o755)
	f, err := os.Create(path)
	if err != nil {
		panic(err)
	}
	return f, bufio.NewWriterSize(f, 1<<20)
}

func main() {
	if len(os.Args) < 2 {
		fmt.Fprintln(os.Stderr, "usage: harness <cmd> ...")
		os.Exit(2)
	}
	switch os.Args[1] {
	case "trie-smoke":
		seed, _ := strconv.ParseUint(os.Args[2], 10, 64)
		n, _ := strconv.Atoi(os.Args[3])
		out := os.Args[4]
		r := NewRNG(seed)
		fc, wc := mustCreate(filepath.Join(out, "cases.txt"))
		fi, wi := mustCreate(filepath.Join(out, "impl.txt"))
		for i := 0; i < n; i++ {
			c := genTrieCase(r.Fork(), fmt.Sprintf("s%d", i), r.Intn(KKindCnt), r.Intn(VKindCnt), 1, 60)
			c.WriteCase(wc)
			c.RunImpl(wi)
		}
		wc.Flush()
		wi.Flush()
		fc.Close()
		fi.Close()
	default:
		if !runProp(os.Args[1:]) {
			fmt.Fprintln(os.Stderr, "unknown command", os.Args[1])
			os.Exit(2)
		}
	}
}
