package main

import (
	"fmt"
	"os"
)

var allEncNames = []string{"I8", "I16", "I32", "I64", "U16", "U32", "U64", "Int", "S16", "RAW", "B3", "TE", "Dummy"}

// randOpt picks one of the 16 boolean combinations, or (1 in 4) a raw
// combination with nil pointers.
func randOpt(r *RNG) [4]int8 {
	var o [4]int8
	raw := r.Intn(4) == 0
	for i := range o {
		if raw {
			o[i] = int8(r.Intn(3)) - 1
		} else {
			o[i] = int8(r.Intn(2))
		}
	}
	return o
}

func genTrieCase(r *RNG, id string, kind, vkind int, scale, qbudget int) *TrieCase {
	c := &TrieCase{ID: id, Kind: kindNames[kind], VKind: vkindNames[vkind]}
	c.Opt = randOpt(r)
	c.Keys = genKeySet(r, kind, scale)
	c.IDs = genValueIDs(r, len(c.Keys), vkind)
	c.Enc = allEncNames[r.Intn(len(allEncNames))]
	c.Queries = genQueries(r, c.Keys, qbudget)
	return c
}

func main() {
	if len(os.Args) < 2 {
		fmt.Fprintln(os.Stderr, "usage: harness <cmd> ...")
		os.Exit(2)
	}
	switch os.Args[1] {
	case "genconsts":
		genConsts(os.Args[2])
	default:
		if !runProp(os.Args[1:]) {
			fmt.Fprintln(os.Stderr, "unknown command", os.Args[1])
			os.Exit(2)
		}
	}
}
