package main

// genc15: translator from /repo/encode/{int,int8,nativeint}.go to
// coq/gen/Gen_IntCodecs.v (`harness genc15 <repo>` prints the .v file).
//
// For every codec type declared in these files it reads, with go/parser, the
// parameters the Coq model is instantiated with (Slim.Encoders.src_codec):
//   Encode:  the asserted Go type d.(T); make([]byte, K); binary.<Order>.PutUint<N>
//            (or the one-byte shape []byte{byte(d.(T))})
//   Decode:  size := int(K) used as b[:size]; binary.<Order>.Uint<N>; the outer
//            conversion T(...) (or the one-byte shape T(b[0]))
//   GetSize / GetEncodedSize: the returned constant.
// `bits.UintSize / 8` is evaluated with the UintSize this harness is compiled
// with (the platform the implementation runs on in this check), and an
// `if size == 4 {..} else if size == 8 {..}` chain is followed along the branch
// that is taken for that value. A shape that is not recognised is emitted as 0
// so that src_codec_wf fails in Coq instead of silently keeping an old value.

import (
	"fmt"
	"go/ast"
	"go/parser"
	"go/token"
	"math/bits"
	"os"
	"path/filepath"
	"strconv"
	"strings"
)

type c15SrcCodec struct {
	Name                      string
	Signed                    bool
	ValBits                   int
	EncLen, EncBits           int
	EncBig                    bool
	DecLen, DecBits           int
	DecBig                    bool
	RetSigned                 bool
	RetBits                   int
	GetSize, GetEncodedSize   int
	seenEnc, seenDec, seenGet bool
}

func init() {
	// main.go is shared and has no subcommand table; this hook makes
	// `harness genc15 <repo>` work without touching it.
	if len(os.Args) >= 3 && os.Args[1] == "genc15" {
		fmt.Print(c15GenCodecsText(os.Args[2]))
		os.Exit(0)
	}
}

var c15IntTypes = map[string][2]int{ // name -> signed(1/0), bits
	"int8": {1, 8}, "int16": {1, 16}, "int32": {1, 32}, "int64": {1, 64},
	"uint8": {0, 8}, "uint16": {0, 16}, "uint32": {0, 32}, "uint64": {0, 64},
	"byte": {0, 8}, "int": {1, bits.UintSize}, "uint": {0, bits.UintSize},
}

// c15Eval evaluates the small integer expressions used for sizes.
func c15Eval(e ast.Expr, env map[string]int) (int, bool) {
	switch x := e.(type) {
	case *ast.BasicLit:
		if x.Kind == token.INT {
			v, err := strconv.ParseInt(x.Value, 0, 64)
			return int(v), err == nil
		}
	case *ast.Ident:
		v, ok := env[x.Name]
		return v, ok
	case *ast.ParenExpr:
		return c15Eval(x.X, env)
	case *ast.SelectorExpr:
		if p, ok := x.X.(*ast.Ident); ok && p.Name == "bits" && x.Sel.Name == "UintSize" {
			return bits.UintSize, true
		}
	case *ast.CallExpr:
		if f, ok := x.Fun.(*ast.Ident); ok && f.Name == "int" && len(x.Args) == 1 {
			return c15Eval(x.Args[0], env)
		}
	case *ast.BinaryExpr:
		a, ok1 := c15Eval(x.X, env)
		b, ok2 := c15Eval(x.Y, env)
		if ok1 && ok2 {
			switch x.Op {
			case token.QUO:
				if b != 0 {
					return a / b, true
				}
			case token.MUL:
				return a * b, true
			case token.ADD:
				return a + b, true
			case token.SUB:
				return a - b, true
			}
		}
	}
	return 0, false
}

// c15Live lists the statements of a body that execute for the evaluated
// sizes: an if-chain on `size == K` is replaced by the branch taken.
func c15Live(stmts []ast.Stmt, env map[string]int, out *[]ast.Stmt) {
	for _, s := range stmts {
		switch x := s.(type) {
		case *ast.AssignStmt:
			if len(x.Lhs) == 1 && len(x.Rhs) == 1 {
				if id, ok := x.Lhs[0].(*ast.Ident); ok {
					if v, ok := c15Eval(x.Rhs[0], env); ok {
						env[id.Name] = v
					}
				}
			}
			*out = append(*out, s)
		case *ast.IfStmt:
			taken := false
			if be, ok := x.Cond.(*ast.BinaryExpr); ok && be.Op == token.EQL {
				a, ok1 := c15Eval(be.X, env)
				b, ok2 := c15Eval(be.Y, env)
				if ok1 && ok2 {
					taken = true
					if a == b {
						c15Live(x.Body.List, env, out)
					} else if x.Else != nil {
						switch e := x.Else.(type) {
						case *ast.BlockStmt:
							c15Live(e.List, env, out)
						case *ast.IfStmt:
							c15Live([]ast.Stmt{e}, env, out)
						}
					}
				}
			}
			if !taken { // unknown condition: keep everything (the checks below then see both orders)
				*out = append(*out, s)
			}
		case *ast.BlockStmt:
			c15Live(x.List, env, out)
		default:
			*out = append(*out, s)
		}
	}
}

// c15BinaryCall recognises binary.<Order>.<Fn><bits>(...) and returns
// (fn prefix, bits, big).
func c15BinaryCall(c *ast.CallExpr) (string, int, bool, bool) {
	sel, ok := c.Fun.(*ast.SelectorExpr)
	if !ok {
		return "", 0, false, false
	}
	ord, ok := sel.X.(*ast.SelectorExpr)
	if !ok {
		return "", 0, false, false
	}
	pkg, ok := ord.X.(*ast.Ident)
	if !ok || pkg.Name != "binary" {
		return "", 0, false, false
	}
	var big bool
	switch ord.Sel.Name {
	case "LittleEndian":
		big = false
	case "BigEndian":
		big = true
	default:
		return "", 0, false, false
	}
	name := sel.Sel.Name
	for _, pre := range []string{"PutUint", "Uint"} {
		if strings.HasPrefix(name, pre) {
			n, err := strconv.Atoi(name[len(pre):])
			if err == nil {
				return pre, n, big, true
			}
		}
	}
	return "", 0, false, false
}

func c15Analyse(sc *c15SrcCodec, method string, fd *ast.FuncDecl) {
	env := map[string]int{}
	var live []ast.Stmt
	c15Live(fd.Body.List, env, &live)
	param := ""
	if len(fd.Type.Params.List) == 1 && len(fd.Type.Params.List[0].Names) == 1 {
		param = fd.Type.Params.List[0].Names[0].Name
	}
	switch method {
	case "Encode":
		sc.seenEnc = true
		puts := 0
		for _, s := range live {
			ast.Inspect(s, func(n ast.Node) bool {
				switch x := n.(type) {
				case *ast.TypeAssertExpr:
					if id, ok := x.X.(*ast.Ident); ok && id.Name == param {
						if t, ok := x.Type.(*ast.Ident); ok {
							if sb, ok := c15IntTypes[t.Name]; ok {
								sc.Signed, sc.ValBits = sb[0] == 1, sb[1]
							}
						}
					}
				case *ast.CallExpr:
					if f, ok := x.Fun.(*ast.Ident); ok && f.Name == "make" && len(x.Args) == 2 {
						if at, ok := x.Args[0].(*ast.ArrayType); ok && at.Len == nil {
							if el, ok := at.Elt.(*ast.Ident); ok && el.Name == "byte" {
								if v, ok := c15Eval(x.Args[1], env); ok {
									sc.EncLen = v
								}
							}
						}
					}
					if pre, n, big, ok := c15BinaryCall(x); ok && pre == "PutUint" {
						puts++
						sc.EncBits, sc.EncBig = n, big
					}
				case *ast.CompositeLit:
					// []byte{byte(d.(T))}: one byte per element, order irrelevant
					if at, ok := x.Type.(*ast.ArrayType); ok && at.Len == nil {
						if el, ok := at.Elt.(*ast.Ident); ok && el.Name == "byte" {
							sc.EncLen = len(x.Elts)
							sc.EncBits = 8 * len(x.Elts)
							sc.EncBig = false
							if len(x.Elts) != 1 {
								sc.EncBits = 0
							}
							puts++
						}
					}
				}
				return true
			})
		}
		if puts != 1 {
			sc.EncBits = 0
		}
	case "Decode":
		sc.seenDec = true
		gets := 0
		sliced := false
		var parents []ast.Node
		for _, s := range live {
			parents = parents[:0]
			ast.Inspect(s, func(n ast.Node) bool {
				if n == nil {
					parents = parents[:len(parents)-1]
					return true
				}
				var parent ast.Node
				if len(parents) > 0 {
					parent = parents[len(parents)-1]
				}
				parents = append(parents, n)
				outer := func(defBits int) {
					sc.RetSigned, sc.RetBits = false, defBits
					if pc, ok := parent.(*ast.CallExpr); ok {
						if f, ok := pc.Fun.(*ast.Ident); ok {
							if sb, ok := c15IntTypes[f.Name]; ok {
								sc.RetSigned, sc.RetBits = sb[0] == 1, sb[1]
							}
						}
					}
				}
				switch x := n.(type) {
				case *ast.SliceExpr:
					if id, ok := x.X.(*ast.Ident); ok && id.Name == param && x.Low == nil && x.High != nil {
						if v, ok := c15Eval(x.High, env); ok {
							sc.DecLen = v
							sliced = true
						}
					}
				case *ast.IndexExpr:
					// T(b[0]): the one-byte shape
					if id, ok := x.X.(*ast.Ident); ok && id.Name == param {
						if v, ok := c15Eval(x.Index, env); ok && v == 0 {
							gets++
							sc.DecLen, sc.DecBits, sc.DecBig = 1, 8, false
							sliced = true
							outer(8)
						}
					}
				case *ast.CallExpr:
					if pre, nb, big, ok := c15BinaryCall(x); ok && pre == "Uint" {
						gets++
						sc.DecBits, sc.DecBig = nb, big
						outer(nb)
					}
				}
				return true
			})
		}
		if gets != 1 || !sliced {
			sc.DecBits = 0
		}
	case "GetSize", "GetEncodedSize":
		sc.seenGet = true
		v := 0
		for _, s := range live {
			if r, ok := s.(*ast.ReturnStmt); ok && len(r.Results) == 1 {
				if x, ok := c15Eval(r.Results[0], env); ok {
					v = x
				}
			}
		}
		if method == "GetSize" {
			sc.GetSize = v
		} else {
			sc.GetEncodedSize = v
		}
	}
}

func c15ReadCodecs(repo string) []*c15SrcCodec {
	var order []*c15SrcCodec
	byName := map[string]*c15SrcCodec{}
	fset := token.NewFileSet()
	for _, fn := range []string{"int.go", "int8.go", "nativeint.go"} {
		f, err := parser.ParseFile(fset, filepath.Join(repo, "encode", fn), nil, 0)
		if err != nil {
			fmt.Fprintln(os.Stderr, "genc15:", err)
			os.Exit(1)
		}
		for _, d := range f.Decls {
			if gd, ok := d.(*ast.GenDecl); ok && gd.Tok == token.TYPE {
				for _, sp := range gd.Specs {
					ts := sp.(*ast.TypeSpec)
					if _, ok := ts.Type.(*ast.StructType); ok {
						sc := &c15SrcCodec{Name: ts.Name.Name}
						byName[sc.Name] = sc
						order = append(order, sc)
					}
				}
			}
		}
		for _, d := range f.Decls {
			fd, ok := d.(*ast.FuncDecl)
			if !ok || fd.Recv == nil || len(fd.Recv.List) != 1 || fd.Body == nil {
				continue
			}
			rt := fd.Recv.List[0].Type
			if st, ok := rt.(*ast.StarExpr); ok {
				rt = st.X
			}
			id, ok := rt.(*ast.Ident)
			if !ok {
				continue
			}
			if sc := byName[id.Name]; sc != nil {
				c15Analyse(sc, fd.Name.Name, fd)
			}
		}
	}
	return order
}

func c15GenCodecsText(repo string) string {
	var b strings.Builder
	b.WriteString("(* Gen_IntCodecs.v - REGENERATED from /repo's working tree by `harness genc15`\n")
	b.WriteString("   (see harness/genc15.go): the integer codec types of encode/int.go, int8.go,\n")
	b.WriteString("   nativeint.go with the parameters found in their source. Do not edit. *)\n")
	b.WriteString("From Coq Require Import NArith List String.\nFrom Slim Require Import Encoders.\nImport ListNotations.\nOpen Scope N_scope.\nOpen Scope string_scope.\n\n")
	fmt.Fprintf(&b, "(* bits.UintSize of the platform the translator and the harness run on *)\nDefinition g_uintsize : N := %d.\n\n", bits.UintSize)
	b.WriteString("Definition g_int_codecs : list src_codec := [\n")
	cs := c15ReadCodecs(repo)
	bs := func(x bool) string {
		if x {
			return "true"
		}
		return "false"
	}
	for i, c := range cs {
		sep := ";"
		if i == len(cs)-1 {
			sep = ""
		}
		fmt.Fprintf(&b, "  {| sc_name := \"%s\"; sc_signed := %s; sc_valbits := %d;\n", c.Name, bs(c.Signed), c.ValBits)
		fmt.Fprintf(&b, "     sc_enc_len := %d; sc_enc_bits := %d; sc_enc_big := %s;\n", c.EncLen, c.EncBits, bs(c.EncBig))
		fmt.Fprintf(&b, "     sc_dec_len := %d; sc_dec_bits := %d; sc_dec_big := %s;\n", c.DecLen, c.DecBits, bs(c.DecBig))
		fmt.Fprintf(&b, "     sc_ret_signed := %s; sc_ret_bits := %d;\n", bs(c.RetSigned), c.RetBits)
		fmt.Fprintf(&b, "     sc_get_size := %d; sc_get_encoded_size := %d |}%s\n", c.GetSize, c.GetEncodedSize, sep)
	}
	b.WriteString("].\n")
	return b.String()
}
