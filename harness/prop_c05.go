package main

// C05: Marshal/Unmarshal round trip preserves every answer and is byte-stable;
// no residue across Unmarshal/Reset histories.
//
// (a) correspondence with the extracted wire model (Proto/Frame/Instance):
//     the message of a real trie, written as data, must serialise in the model
//     to exactly the real Marshal() bytes; the real bytes must parse in the
//     model to exactly the real message; size, load and re-marshal likewise;
//     arbitrary (mutated) bodies must be accepted/rejected and decoded alike;
//     histories of Unmarshal/Reset must end in the same stored message;
// (b) oracle from the property text: the loaded trie answers every query as
//     the original, Marshal is deterministic and has the advertised size,
//     re-marshal reproduces the bytes, histories leave no residue.

import (
	"bytes"
	"fmt"
	"math"
	"strconv"
	"strings"

	"github.com/golang/protobuf/proto"
	"github.com/openacid/low/pbcmpl"
	"github.com/openacid/slim/trie"
)

// ---- the message as data ------------------------------------------------------

func c05CSV(n int, f func(i int) string) string {
	if n == 0 {
		return "."
	}
	var sb strings.Builder
	for i := 0; i < n; i++ {
		if i > 0 {
			sb.WriteByte(',')
		}
		sb.WriteString(f(i))
	}
	return sb.String()
}

func c05BM(b *trie.Bitmap) string {
	if b == nil {
		return "BM -"
	}
	return fmt.Sprintf("BM + %s %s %s %s",
		c05CSV(len(b.Words), func(i int) string { return strconv.FormatUint(b.Words[i], 16) }),
		c05CSV(len(b.RankIndex), func(i int) string { return strconv.Itoa(int(b.RankIndex[i])) }),
		c05CSV(len(b.SelectIndex), func(i int) string { return strconv.Itoa(int(b.SelectIndex[i])) }),
		hx(b.XXX_unrecognized))
}

func c05VL(a *trie.VLenArray) []string {
	if a == nil {
		return []string{"VL -"}
	}
	return []string{
		fmt.Sprintf("VL + %d %d %d %s %s", a.N, a.EltCnt, a.FixedSize, hx(a.Bytes), hx(a.XXX_unrecognized)),
		c05BM(a.PositionBM), c05BM(a.PresenceBM)}
}

func c05Dump(m *trie.Slim) []string {
	ls := []string{
		fmt.Sprintf("SLIM %d %d %s %s", m.BigInnerCnt, m.ShortSize,
			c05CSV(len(m.ShortTable), func(i int) string { return strconv.FormatUint(uint64(m.ShortTable[i]), 10) }),
			hx(m.XXX_unrecognized)),
		c05BM(m.NodeTypeBM), c05BM(m.Inners), c05BM(m.ShortBM)}
	ls = append(ls, c05VL(m.InnerPrefixes)...)
	ls = append(ls, c05VL(m.LeafPrefixes)...)
	ls = append(ls, c05VL(m.Leaves)...)
	return ls
}

func c05DumpStr(m *trie.Slim) string { return strings.Join(c05Dump(m), "\n") + "\n" }

// ---- observations -------------------------------------------------------------

func c05Scan(st *trie.SlimTrie, start string, incl, withValue bool, limit int) string {
	s, p := protect(func() string {
		var sb strings.Builder
		n := 0
		st.ScanFrom(start, incl, withValue, func(k, v []byte) bool {
			fmt.Fprintf(&sb, "%s=%s;", hx(k), hx(v))
			n++
			return n < limit
		})
		return sb.String()
	})
	if s == "PANIC" {
		return "PANIC " + p
	}
	return s
}

func c05Stat(st *trie.SlimTrie) string {
	s, p := protect(func() string { return fmt.Sprintf("%+v", *st.Stat()) })
	if s == "PANIC" {
		return "PANIC " + p
	}
	return s
}

func c05String(st *trie.SlimTrie) string {
	s, p := protect(func() string { return st.String() })
	if s == "PANIC" {
		return "PANIC " + p
	}
	return s
}

// every observable answer of one instance on a query list
func c05Answers(st *trie.SlimTrie, spec *EncSpec, queries []string, scans bool) []string {
	out := make([]string, 0, len(queries)+8)
	for _, q := range queries {
		r := runQuery(st, spec, q)
		line := r.Line(q)
		if r.Panic != "" {
			line += " PANIC"
		}
		out = append(out, line)
	}
	if scans {
		out = append(out, "scan-all "+c05Scan(st, "", true, true, 1<<30))
		out = append(out, "scan-keys "+c05Scan(st, "", true, false, 1<<30))
		for i, q := range queries {
			if i%7 == 0 {
				out = append(out, "scan-from "+hxs(q)+" "+c05Scan(st, q, i%2 == 0, true, 5))
			}
		}
	}
	out = append(out, "stat "+c05Stat(st))
	out = append(out, "string "+c05String(st))
	return out
}

func c05FirstDiff(a, b []string) (int, string, string) {
	for i := 0; i < len(a) || i < len(b); i++ {
		x, y := "<none>", "<none>"
		if i < len(a) {
			x = a[i]
		}
		if i < len(b) {
			y = b[i]
		}
		if x != y {
			return i, x, y
		}
	}
	return -1, "", ""
}

func c05Trunc(s string) string {
	if len(s) > 600 {
		return s[:600] + "..."
	}
	return s
}

type c05Replay struct {
	Property string      `json:"property"`
	Case     interface{} `json:"case"`
	History  []string    `json:"history,omitempty"`
	What     string      `json:"what"`
	Got      string      `json:"got"`
	Want     string      `json:"want"`
}

// ---- generated tries ------------------------------------------------------------

func c05GenCase(c *Ctx, i int, scale int) *TrieCase {
	r := c.R.Fork()
	kinds := []int{KRegular, KFanout, KTiny, KSharedPrefix, KRandBytes, KRegular, KFanout, KChain, KNibble, KLongRuns}
	kind := kinds[i%len(kinds)]
	vk := []int{VDistinct, VNil, VRuns, VAllEqual, VLongRuns, VDistinct}[(i/3)%6]
	tc := genTrieCase(r, fmt.Sprintf("t%d", i), kind, vk, scale, 40)
	if i%5 != 4 {
		// cycle the 16 boolean combinations; the rest keep the random (possibly nil) options
		o := (i / 2) % 16
		tc.Opt = [4]int8{int8(o & 1), int8(o >> 1 & 1), int8(o >> 2 & 1), int8(o >> 3 & 1)}
	}
	if i%4 == 1 {
		tc.Enc = "S16"
	}
	return tc
}

func c05WriteMsgCase(c *Ctx, id string, load bool, live *trie.Slim, stream []byte) {
	cw := c.Cases()
	l := 0
	if load {
		l = 1
	}
	fmt.Fprintf(cw, "M %s %d\n%sX %s\nE\n", id, l, c05DumpStr(live), hx(stream))
}

// the implementation's observables for an M case
func c05ImplMsg(c *Ctx, id string, load bool, live *trie.Slim, stream []byte, spec *EncSpec) (st2 *trie.SlimTrie, loadKind string) {
	w := c.Impl()
	fmt.Fprintf(w, "C %s\nwf true\nser %s\n", id, hx(stream))
	fmt.Fprintf(w, "size %x\n", 32+proto.Size(live))
	parsed := &trie.Slim{}
	s, _ := protect(func() string {
		if err := proto.Unmarshal(stream[32:], parsed); err != nil {
			return "err"
		}
		return "ok"
	})
	fmt.Fprintf(w, "parse %s\n", s)
	if s == "ok" {
		w.WriteString(c05DumpStr(parsed))
	}
	if load {
		st2, _ = trie.NewSlimTrie(spec.Enc, nil, nil)
		loadKind, _, _ = c07Unmarshal(st2, stream)
		fmt.Fprintf(w, "load %s\n", loadKind)
		if loadKind == "ok" {
			w.WriteString(c05DumpStr(st2.VerifInner()))
			fmt.Fprintf(w, "remarshal %s\n", c07MarshalHex(st2))
		}
	}
	return
}

// ---- synthetic messages -----------------------------------------------------------

func c05RandI32(r *RNG) int32 {
	switch r.Intn(6) {
	case 0:
		return 0
	case 1:
		return []int32{1, -1, 127, 128, 300, 16383, 16384, math.MaxInt32, math.MinInt32, -128, 65535}[r.Intn(11)]
	case 2:
		return int32(r.U64())
	default:
		return int32(r.Intn(2000))
	}
}

func c05RandBM(r *RNG) *trie.Bitmap {
	if r.Intn(4) == 0 {
		return nil
	}
	b := &trie.Bitmap{}
	for i, n := 0, r.Intn(5); i < n; i++ {
		w := r.U64()
		switch r.Intn(4) {
		case 0:
			w = 0
		case 1:
			w = ^uint64(0)
		case 2:
			w >>= uint(r.Intn(64))
		}
		b.Words = append(b.Words, w)
	}
	for i, n := 0, r.Intn(4); i < n; i++ {
		b.RankIndex = append(b.RankIndex, c05RandI32(r))
	}
	for i, n := 0, r.Intn(3); i < n; i++ {
		b.SelectIndex = append(b.SelectIndex, c05RandI32(r))
	}
	return b
}

func c05RandVL(r *RNG) *trie.VLenArray {
	if r.Intn(3) == 0 {
		return nil
	}
	a := &trie.VLenArray{N: c05RandI32(r), EltCnt: c05RandI32(r), FixedSize: c05RandI32(r), PresenceBM: c05RandBM(r), PositionBM: c05RandBM(r)}
	if r.Bool() {
		a.Bytes = []byte(randBytes(r, r.Intn(300)))
	}
	return a
}

func c05RandSlim(r *RNG) *trie.Slim {
	m := &trie.Slim{BigInnerCnt: c05RandI32(r), ShortSize: c05RandI32(r), NodeTypeBM: c05RandBM(r), Inners: c05RandBM(r), ShortBM: c05RandBM(r),
		InnerPrefixes: c05RandVL(r), LeafPrefixes: c05RandVL(r), Leaves: c05RandVL(r)}
	for i, n := 0, r.Intn(4); i < n; i++ {
		m.ShortTable = append(m.ShortTable, []uint32{0, 1, 0x1ffff, math.MaxUint32, uint32(r.U64())}[r.Intn(5)])
	}
	return m
}

// ---- mutated bodies ---------------------------------------------------------------

func c05Varint(x uint64) []byte {
	b := []byte{}
	for x >= 0x80 {
		b = append(b, byte(x)|0x80)
		x >>= 7
	}
	return append(b, byte(x))
}

func c05Mutate(r *RNG, body []byte) []byte {
	b := append([]byte{}, body...)
	n := 1 + r.Intn(3)
	for k := 0; k < n; k++ {
		switch r.Intn(11) {
		case 0: // flip a bit
			if len(b) > 0 {
				b[r.Intn(len(b))] ^= 1 << uint(r.Intn(8))
			}
		case 1: // overwrite a byte
			if len(b) > 0 {
				b[r.Intn(len(b))] = byte(r.U64())
			}
		case 2: // truncate
			if len(b) > 0 {
				b = b[:r.Intn(len(b))]
			}
		case 3: // append an unknown / mistyped field
			tag := uint64([]int{0, 1, 5, 11, 12, 13, 14, 15, 20, 30, 31, 32, 38, 58, 60, 61, 1000, 1 << 28, 1 << 40}[r.Intn(19)])
			wire := uint64(r.Intn(8))
			f := c05Varint(tag<<3 | wire)
			switch wire {
			case 0:
				f = append(f, c05Varint(r.U64()>>uint(r.Intn(64)))...)
			case 1:
				f = append(f, []byte(randBytes(r, 8))...)
			case 2:
				p := []byte(randBytes(r, r.Intn(12)))
				f = append(f, c05Varint(uint64(len(p)))...)
				f = append(f, p...)
			case 3:
				// a group with some content and its end tag
				f = append(f, c05Varint(7<<3|0)...)
				f = append(f, c05Varint(uint64(r.Intn(1000)))...)
				if r.Bool() {
					f = append(f, c05Varint(9<<3|3)...)
					f = append(f, c05Varint(9<<3|4)...)
				}
				if r.Intn(4) != 0 {
					f = append(f, c05Varint(tag<<3|4)...)
				}
			case 5:
				f = append(f, []byte(randBytes(r, 4))...)
			}
			if r.Bool() {
				b = append(b, f...)
			} else {
				b = append(f, b...)
			}
		case 4: // duplicate a slice of the body (repeated fields, merged sub-messages)
			if len(b) > 2 {
				i := r.Intn(len(b))
				j := i + r.Intn(len(b)-i)
				b = append(b, b[i:j]...)
			}
		case 5: // the body twice
			b = append(b, body...)
		case 6: // non-minimal varint in front: field 11 (BigInnerCnt) = x with padding
			f := []byte{11 << 3, 0x80 | byte(r.Intn(128)), 0x80, 0x00}
			b = append(f, b...)
		case 7: // 10-byte varints at the limit
			f := append([]byte{14 << 3}, []byte{0xff, 0xff, 0xff, 0xff, 0xff, 0xff, 0xff, 0xff, 0xff, byte(r.Intn(4))}...)
			b = append(b, f...)
		case 8: // insert random bytes
			i := 0
			if len(b) > 0 {
				i = r.Intn(len(b))
			}
			b = append(b[:i:i], append([]byte(randBytes(r, 1+r.Intn(4))), b[i:]...)...)
		case 9: // unpacked occurrences of packed fields
			f := append(c05Varint(32<<3|0), c05Varint(r.U64())...)
			b = append(b, f...)
		case 10: // delete a slice
			if len(b) > 2 {
				i := r.Intn(len(b))
				j := i + r.Intn(len(b)-i)
				b = append(b[:i:i], b[j:]...)
			}
		}
	}
	return b
}

func c05FuzzCase(c *Ctx, id string, body []byte) {
	fmt.Fprintf(c.Cases(), "F %s\nX %s\nE\n", id, hx(body))
	w := c.Impl()
	fmt.Fprintf(w, "C %s\n", id)
	m := &trie.Slim{}
	s, _ := protect(func() string {
		if err := proto.Unmarshal(body, m); err != nil {
			return "err"
		}
		return "ok"
	})
	fmt.Fprintf(w, "parse %s\n", s)
	c.Or.Count("mutated-body:" + s)
	if s == "ok" {
		w.WriteString(c05DumpStr(m))
		out, err := proto.Marshal(m)
		if err != nil {
			fmt.Fprintf(w, "reser ERR\n")
		} else {
			fmt.Fprintf(w, "reser %s\n", hx(out))
		}
		fmt.Fprintf(w, "size %x\n", proto.Size(m))
	}
}

// ---- histories -----------------------------------------------------------------------

type c05Src struct {
	name  string
	tc    *TrieCase
	buf   []byte
	valid bool
}

func c05Histories(c *Ctx, set int, enc string, reported map[string]bool) {
	spec := specByName(enc)
	r := c.R.Fork()
	mk := func(name string, kind, vk, scale int, opt [4]int8, maxKeys int) *c05Src {
		for try := 0; try < 20; try++ {
			tc := genTrieCase(r.Fork(), fmt.Sprintf("h%d_%s", set, name), kind, vk, scale, 24)
			tc.Opt = opt
			tc.Enc = enc
			if len(tc.Keys) > maxKeys {
				tc.Keys = tc.Keys[:maxKeys]
				if tc.IDs != nil {
					tc.IDs = tc.IDs[:maxKeys]
				}
				tc.Queries = genQueries(r.Fork(), tc.Keys, 24)
			}
			b := tc.Build()
			if b.Err != nil {
				continue
			}
			buf, err := b.St.Marshal()
			if err != nil {
				continue
			}
			return &c05Src{name: name, tc: tc, buf: buf, valid: true}
		}
		return nil
	}
	ob := func() int8 { return int8(r.Intn(2)) }
	small := mk("S", []int{KTiny, KChain, KNibble}[r.Intn(3)], []int{VDistinct, VRuns}[r.Intn(2)], 1, [4]int8{ob(), ob(), ob(), ob()}, 12)
	large := mk("L", []int{KRegular, KFanout}[r.Intn(2)], VDistinct, 1, [4]int8{ob(), ob(), ob(), 1}, c.N(150, 600))
	if small == nil || large == nil {
		c.Or.Count("skipped:history-set")
		return
	}
	other := mk("O", []int{KSharedPrefix, KRandBytes, KRegular}[r.Intn(3)], []int{VNil, VAllEqual, VLongRuns}[r.Intn(3)], 1, [4]int8{1 - small.tc.Opt[0], 1 - small.tc.Opt[1], 1 - small.tc.Opt[2], 0}, 60)
	if other == nil {
		c.Or.Count("skipped:history-set")
		return
	}
	est, _ := trie.NewSlimTrie(spec.Enc, nil, nil)
	eb, _ := est.Marshal()
	empty := &c05Src{name: "E", tc: &TrieCase{ID: "empty", Enc: enc, Queries: []string{"", "a", "\xff"}}, buf: eb, valid: true}
	trunc := &c05Src{name: "T", buf: large.buf[:len(large.buf)/2]}
	srcs := map[string]*c05Src{"E": empty, "S": small, "L": large, "O": other, "T": trunc}
	opNames := []string{"E", "S", "L", "O", "T", "R"}
	finals := []*c05Src{small, large, other, empty}

	// queries: those of the final stream plus the keys of all the others (residue would show there)
	allKeys := []string{}
	for _, s := range []*c05Src{small, large, other} {
		ks := s.tc.Keys
		if len(ks) > 40 {
			ks = ks[:40]
		}
		allKeys = append(allKeys, ks...)
	}
	// expected behaviour: a fresh instance loaded from b
	type expect struct {
		answers []string
		bytes   string
	}
	exp := map[string]*expect{}
	qs := map[string][]string{}
	for _, f := range finals {
		st, _ := trie.NewSlimTrie(spec.Enc, nil, nil)
		c07Unmarshal(st, f.buf)
		q := append(append([]string{}, f.tc.Queries...), allKeys...)
		qs[f.name] = q
		exp[f.name] = &expect{answers: c05Answers(st, spec, q, isComplete(f.tc.Opt) && f != empty), bytes: c07MarshalHex(st)}
	}

	hists := [][]string{{}}
	for l := 1; l <= 3; l++ {
		var rec func(pre []string, d int)
		rec = func(pre []string, d int) {
			if d == l {
				hists = append(hists, append([]string{}, pre...))
				return
			}
			for _, o := range opNames {
				rec(append(pre, o), d+1)
			}
		}
		rec(nil, 0)
	}
	cw, w := c.Cases(), c.Impl()
	hi := 0
	for _, h := range hists {
		for _, f := range finals {
			// thin out in the quick tier: every history of length <= 2, a third of length 3
			if !c.Thorough() && len(h) == 3 && (hi+set)%3 != 0 {
				hi++
				continue
			}
			hi++
			id := fmt.Sprintf("h%d_%s_%s", set, strings.Join(h, ""), f.name)
			fmt.Fprintf(cw, "H %s\n", id)
			used := map[string]bool{}
			for _, o := range append(append([]string{}, h...), f.name) {
				if o != "R" && !used[o] {
					used[o] = true
					fmt.Fprintf(cw, "S %s %s\n", o, hx(srcs[o].buf))
				}
			}
			fmt.Fprintf(w, "C %s\n", id)
			st, _ := trie.NewSlimTrie(spec.Enc, nil, nil)
			for _, o := range append(append([]string{}, h...), f.name) {
				if o == "R" {
					fmt.Fprintf(cw, "O R\n")
					protect(func() string { st.Reset(); return "" })
					fmt.Fprintf(w, "reset\n")
				} else {
					fmt.Fprintf(cw, "O U %s\n", o)
					kind, _, _ := c07Unmarshal(st, srcs[o].buf)
					fmt.Fprintf(w, "unmarshal %s\n", kind)
				}
			}
			fmt.Fprintf(cw, "E\n")
			got := c07MarshalHex(st)
			fmt.Fprintf(w, "inner %s\nvars set\n", got)
			c.Or.Case("history "+id+fmt.Sprint(f.tc.Keys), len(h) > 0)
			c.Or.Count(fmt.Sprintf("history-length:%d", len(h)))
			// ---- oracle: no residue
			e := exp[f.name]
			ans := c05Answers(st, spec, qs[f.name], isComplete(f.tc.Opt) && f != empty)
			bad, gotS, wantS := "", "", ""
			if got != e.bytes {
				bad, gotS, wantS = "Marshal after the history differs from Marshal of a fresh instance loaded from the same stream", got, e.bytes
			} else if i, x, y := c05FirstDiff(ans, e.answers); i >= 0 {
				bad, gotS, wantS = "an answer after the history differs from the answer of a fresh instance loaded from the same stream", x, y
			}
			if bad != "" && !reported["C05:residue"] {
				reported["C05:residue"] = true
				c.Or.Violate("C05:residue", "C05: "+bad+" (history "+strings.Join(h, ",")+" then Unmarshal "+f.name+")",
					c05Replay{Property: "C05", Case: map[string]interface{}{"E": "empty trie", "S": small.tc.replay("C05", "", false, "", ""), "L": large.tc.replay("C05", "", false, "", ""), "O": other.tc.replay("C05", "", false, "", ""), "T": "first half of L's stream", "R": "Reset()"},
						History: append(append([]string{}, h...), f.name), What: bad, Got: c05Trunc(gotS), Want: c05Trunc(wantS)})
			}
		}
	}
}

func init() {
	register("C05", func(c *Ctx) {
		c.Or.Rule = "cases: (1) generated tries: 8 key-set kinds (emphasis on regular grids = short-node tables and on fan-out = big nodes) x 5 value layouts incl. none x the 16 option combos (+ raw nil options) x 12 encoders incl. variable-width String16, plus the empty trie; an evaluation = build, Marshal, load into a new instance, compare every answer (Get/GetID/RangeGet/Search on all keys and ~40 absent/mutated keys, full scans when complete, Stat, String), 5 rebuilds for determinism, size, re-marshal; " +
			"(2) synthetic Slim messages with extreme field values; (3) mutated protobuf bodies; (4) histories: every sequence of length <= 3 over {Unmarshal(empty), Unmarshal(small), Unmarshal(large), Unmarshal(other options), Unmarshal(truncated), Reset} followed by a valid Unmarshal, compared with a fresh load; " +
			"non-trivial = a trie with at least 2 keys / a history of length >= 1; distinct = distinct canonical case text"
		reported := map[string]bool{}
		violate := func(key, what string, tc *TrieCase, got, want string) {
			if reported[key] {
				return
			}
			reported[key] = true
			var cs interface{} = "n/a"
			if tc != nil {
				cs = tc.replay("C05", "", false, "", "")
			}
			c.Or.Violate(key, "C05: "+what, c05Replay{Property: "C05", Case: cs, What: what, Got: c05Trunc(got), Want: c05Trunc(want)})
		}

		// ---- (1) generated tries
		n := c.N(700, 4000)
		bodies := [][]byte{}
		var prevBuf, prevCopy []byte
		var prevTC *TrieCase
		for i := 0; i < n; i++ {
			scale := 1
			if c.Thorough() && i%4 == 0 {
				scale = 2
			}
			tc := c05GenCase(c, i, scale)
			if !c.Thorough() && len(tc.Keys) > 400 {
				tc.Keys = tc.Keys[:400]
				if tc.IDs != nil {
					tc.IDs = tc.IDs[:400]
				}
			}
			if i == 0 {
				// the empty trie
				tc.Keys, tc.IDs, tc.Queries = nil, nil, []string{"", "a", "\xff"}
			}
			canon := fmt.Sprint(tc.Opt, tc.Enc, tc.Keys, tc.IDs)
			b := tc.Build()
			if b.Err != nil {
				c.Or.Count("skipped:build-error")
				continue
			}
			c.Or.Case(canon, len(tc.Keys) >= 2)
			c.Or.Count("kind:" + tc.Kind)
			c.Or.Count("values:" + tc.VKind)
			c.Or.Count("opt:" + optc(tc.Opt[0]) + optc(tc.Opt[1]) + optc(tc.Opt[2]) + optc(tc.Opt[3]))
			c.Or.Count("enc:" + tc.Enc)
			c.Or.Count("keys:" + bucket(len(tc.Keys)))
			if i > 0 && i < 3 {
				c.Or.Sample(tc.replay("C05", "", false, "", ""))
			}
			st := b.St
			buf, err := st.Marshal()
			if err != nil {
				violate("C05:marshal-error", "Marshal returns an error: "+err.Error(), tc, err.Error(), "bytes")
				continue
			}
			// a stream handed out earlier belongs to the caller: marshalling ANOTHER trie must not
			// change it (it is loaded later, e.g. after being written to a file)
			if prevBuf != nil && !bytes.Equal(prevBuf, prevCopy) {
				violate("C05:stream-changed-by-later-marshal", "the bytes returned by an earlier Marshal() changed when another trie was marshalled; the earlier stream no longer round-trips", prevTC, hx(prevBuf), hx(prevCopy))
			}
			prevBuf, prevCopy, prevTC = buf, append([]byte{}, buf...), tc
			live := st.VerifInner()
			if live.ShortSize > 0 {
				c.Or.Count("shape:short-table")
			}
			if live.BigInnerCnt > 0 {
				c.Or.Count("shape:big-nodes")
			}
			c05WriteMsgCase(c, tc.ID, true, live, buf)
			st2, loadKind := c05ImplMsg(c, tc.ID, true, live, buf, b.Spec)
			if len(bodies) < 40 || i%7 == 0 {
				bodies = append(bodies, buf[32:])
			}

			// ---- oracle
			if loadKind != "ok" {
				violate("C05:reload-failed", "Unmarshal(Marshal(t)) fails: "+loadKind, tc, loadKind, "ok")
				continue
			}
			scans := isComplete(tc.Opt) && len(tc.Keys) > 0
			a1 := c05Answers(st, b.Spec, tc.Queries, scans)
			a2 := c05Answers(st2, b.Spec, tc.Queries, scans)
			c.Or.Add("queries", len(tc.Queries))
			if k, x, y := c05FirstDiff(a2, a1); k >= 0 {
				violate("C05:answer-differs-after-reload", "the loaded trie answers differently from the original", tc, x, y)
			}
			// size
			if got, want := len(buf), 32+proto.Size(live); got != want {
				violate("C05:size", "len(Marshal) differs from 32 + proto.Size(inner)", tc, fmt.Sprint(got), fmt.Sprint(want))
			}
			if got, want := len(buf), proto.Size(st); got != want {
				violate("C05:size-advertised", "len(Marshal) differs from proto.Size(st)", tc, fmt.Sprint(got), fmt.Sprint(want))
			}
			// re-marshal of the loaded trie
			if b2, err := st2.Marshal(); err != nil || !bytes.Equal(b2, buf) {
				violate("C05:remarshal", "re-marshalling the loaded trie does not reproduce the bytes", tc, hx(b2), hx(buf))
			}
			// re-marshal of the original
			if b2, err := st.Marshal(); err != nil || !bytes.Equal(b2, buf) {
				violate("C05:marshal-unstable", "a second Marshal of the same trie differs", tc, hx(b2), hx(buf))
			}
			// determinism of the build (Go map iteration order varies between runs of the loop)
			reps := 5
			if len(tc.Keys) > 300 && !c.Thorough() {
				reps = 2
			}
			for rep := 0; rep < reps; rep++ {
				bb := tc.Build()
				if bb.Err != nil {
					violate("C05:rebuild-failed", "building again from equal input fails", tc, bb.Err.Error(), "a trie")
					break
				}
				b3, _ := bb.St.Marshal()
				if !bytes.Equal(b3, buf) {
					violate("C05:nondeterministic-build", "building twice from equal input gives different bytes", tc, hx(b3), hx(buf))
					break
				}
			}
		}

		// ---- (2) synthetic messages: serialisation of extreme values (correspondence only)
		ns := c.N(200, 1000)
		for i := 0; i < ns; i++ {
			m := c05RandSlim(c.R.Fork())
			var wb bytes.Buffer
			if _, err := pbcmpl.Marshal(&wb, m); err != nil {
				continue
			}
			id := fmt.Sprintf("syn%d", i)
			c05WriteMsgCase(c, id, false, m, wb.Bytes())
			c05ImplMsg(c, id, false, m, wb.Bytes(), nil)
			c.Or.Count("synthetic-message")
			if i%3 == 0 {
				bodies = append(bodies, wb.Bytes()[32:])
			}
		}

		// ---- (3) mutated bodies through proto.Unmarshal (correspondence only)
		nf := c.N(2000, 12000)
		for i := 0; i < nf && len(bodies) > 0; i++ {
			r := c.R.Fork()
			body := bodies[r.Intn(len(bodies))]
			if len(body) > 1500 {
				continue
			}
			c05FuzzCase(c, fmt.Sprintf("fz%d", i), c05Mutate(r, body))
		}

		// ---- (4) histories
		encs := []string{"I32", "S16", "U64", "I8", "B3", "U16", "I64", "TE"}
		for s := 0; s < c.N(4, 12); s++ {
			c05Histories(c, s, encs[s%len(encs)], reported)
		}
	})
}
