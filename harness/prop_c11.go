package main

// C11: a SlimTrie is safely shareable between concurrent readers.
//
// Dynamic half of the (partial) proof: the failing-schedule search and the
// evidence for what the Coq theorem cannot carry (Go memory model, library
// internals). Two parts:
//  1. in this (non -race) binary: shared instances (fresh, loaded from current
//     bytes, loaded from legacy fixtures) over generated key sets; every read
//     result is computed alone first; then 2..32 goroutines mix every read API
//     on the one instance with randomized runtime.Gosched() yields and every
//     concurrent result must equal the solo result; iterators interleaved in
//     one goroutine and across goroutines must each yield their solo sequence.
//  2. `go run -race ./c11race`: the same kind of mix under the race detector.
// There is no model-side execution for this property (no cases.txt).

import (
	"bytes"
	"context"
	"fmt"
	"io/ioutil"
	"os"
	"os/exec"
	"path/filepath"
	"runtime"
	"strings"
	"sync"
	"time"

	"github.com/openacid/slim/trie"
	"github.com/openacid/testkeys"
)

type c11Inst struct {
	label    string // fresh | loaded | legacy:<file>
	st       *trie.SlimTrie
	spec     *EncSpec
	queries  []string
	complete bool
	nkeys    int
	desc     interface{} // JSON-able description for the replay
}

type c11Op struct {
	name string
	run  func(y *RNG) string
}

func c11Yield(y *RNG) {
	if y.Intn(3) == 0 {
		runtime.Gosched()
	}
}

func c11ScanStr(spec *EncSpec, k, v []byte) string { return hx(k) + "=" + hx(v) + ";" }

// c11Ops lists the read operations on an instance; every op returns a
// canonical string and reports a panic as "PANIC" (the solo result may be a
// panic too, e.g. a scan on an incomplete trie: it must then panic always).
func c11Ops(in *c11Inst) []c11Op {
	st, spec := in.st, in.spec
	var l []c11Op
	add := func(n string, f func(y *RNG) string) {
		l = append(l, c11Op{n, func(y *RNG) string {
			s, _ := protect(func() string { return f(y) })
			return s
		}})
	}
	for _, q := range in.queries {
		q := q
		// Get, GetID, RangeGet, Search, searchID
		add("lookups", func(y *RNG) string { return runQuery(st, spec, q).Line(q) })
		add("GetI8", func(y *RNG) string { v, f := st.GetI8(q); return fmt.Sprint(v, f) })
		add("GetI16", func(y *RNG) string { v, f := st.GetI16(q); return fmt.Sprint(v, f) })
		add("GetI32", func(y *RNG) string { v, f := st.GetI32(q); return fmt.Sprint(v, f) })
		add("GetI64", func(y *RNG) string { v, f := st.GetI64(q); return fmt.Sprint(v, f) })
	}
	add("Stat", func(y *RNG) string { return fmt.Sprintf("%+v", *st.Stat()) })
	if in.nkeys <= 2000 { // String() of a 20k-key trie from 32 goroutines only costs time
		add("String", func(y *RNG) string { return st.String() })
	}
	add("Marshal", func(y *RNG) string { b, err := st.Marshal(); return hx(b) + " " + fmt.Sprint(err) })
	nq := len(in.queries)
	for i := 0; i < nq; i += 2 {
		q := in.queries[i]
		end := in.queries[(i+1)%nq]
		incl := i%4 == 0
		add("ScanFrom", func(y *RNG) string {
			var sb strings.Builder
			n := 0
			st.ScanFrom(q, incl, true, func(k, v []byte) bool {
				sb.WriteString(c11ScanStr(spec, k, v))
				c11Yield(y)
				n++
				return n < 60
			})
			return sb.String()
		})
		add("ScanFromTo", func(y *RNG) string {
			var sb strings.Builder
			n := 0
			st.ScanFromTo(q, incl, end, !incl, i%3 == 0, func(k, v []byte) bool {
				sb.WriteString(c11ScanStr(spec, k, v))
				c11Yield(y)
				n++
				return n < 60
			})
			return sb.String()
		})
		add("NewIter", func(y *RNG) string {
			var sb strings.Builder
			nxt := st.NewIter(q, incl, true)
			for n := 0; n < 60; n++ {
				k, v := nxt()
				if k == nil {
					break
				}
				sb.WriteString(c11ScanStr(spec, k, v))
				c11Yield(y)
			}
			return sb.String()
		})
	}
	// three iterators of the same trie advanced in a random order inside ONE
	// goroutine: each must yield its own solo sequence
	if nq >= 3 {
		starts := []string{in.queries[0], in.queries[nq/2], in.queries[nq-1]}
		add("IterInterleaved", func(y *RNG) string {
			its := make([]trie.NextRaw, len(starts))
			out := make([]strings.Builder, len(starts))
			done := make([]bool, len(starts))
			for i, s := range starts {
				its[i] = st.NewIter(s, i%2 == 0, i != 1)
			}
			for steps, left := 0, len(starts); left > 0 && steps < 150; steps++ {
				i := y.Intn(len(starts))
				if done[i] {
					continue
				}
				k, v := its[i]()
				if k == nil {
					done[i] = true
					left--
					continue
				}
				out[i].WriteString(c11ScanStr(spec, k, v))
				if out[i].Len() > 4000 {
					done[i] = true
					left--
				}
			}
			// steps is bounded: finish every iterator sequentially
			for i := range its {
				for !done[i] {
					k, v := its[i]()
					if k == nil || out[i].Len() > 4000 {
						done[i] = true
						break
					}
					out[i].WriteString(c11ScanStr(spec, k, v))
				}
			}
			return out[0].String() + "|" + out[1].String() + "|" + out[2].String()
		})
	}
	return l
}

type c11Mismatch struct {
	op        string
	got, want string
	g         int
}

// c11Hammer runs the ops concurrently from g goroutines and compares with solo.
func c11Hammer(ops []c11Op, solo []string, g int, r *RNG, perG int) (*c11Mismatch, int) {
	var wg sync.WaitGroup
	var mu sync.Mutex
	var first *c11Mismatch
	total := 0
	start := make(chan struct{}) // all goroutines begin together
	for k := 0; k < g; k++ {
		y := r.Fork()
		wg.Add(1)
		go func() {
			defer wg.Done()
			<-start
			n := perG/2 + y.Intn(perG)
			for j := 0; j < n; j++ {
				i := y.Intn(len(ops))
				c11Yield(y)
				got := ops[i].run(y)
				if got != solo[i] {
					mu.Lock()
					if first == nil {
						first = &c11Mismatch{ops[i].name, got, solo[i], g}
					}
					mu.Unlock()
				}
			}
			mu.Lock()
			total += n
			mu.Unlock()
		}()
	}
	close(start)
	wg.Wait()
	return first, total
}

func c11Short(s string) string {
	if len(s) > 400 {
		return s[:400] + "..."
	}
	return s
}

type c11Fixture struct{ set, file string }

func c11Fixtures(c *Ctx) []c11Fixture {
	dir := filepath.Join(c.Repo, "trie", "testdata")
	fis, err := ioutil.ReadDir(dir)
	if err != nil {
		return nil
	}
	sets := map[string]bool{"10vl5": true, "11vl5": true, "empty": true, "300vl50": true}
	if c.Thorough() {
		sets["10ll16k"], sets["20kvl10"], sets["20kl10"] = true, true, true
	}
	var l []c11Fixture
	for _, fi := range fis {
		n := fi.Name()
		if !strings.HasPrefix(n, "slimtrie-data-") {
			continue
		}
		set := strings.Split(strings.TrimPrefix(n, "slimtrie-data-"), "-")[0]
		if !sets[set] {
			continue
		}
		if !c.Thorough() {
			// quick: one old layout per key set family and the three 0.5.10 layouts
			ok := strings.HasSuffix(n, "-0.5.10") || strings.HasSuffix(n, "-0.5.0") || strings.HasSuffix(n, "-0.5.4") || strings.HasSuffix(n, "-0.5.9")
			if !ok || set == "empty" && !strings.HasSuffix(n, "-0.5.10") {
				continue
			}
		}
		l = append(l, c11Fixture{set, n})
	}
	return l
}

func c11QueriesOf(r *RNG, keys []string, n int) []string {
	qs := []string{""}
	for i := 0; i < n && len(keys) > 0; i++ {
		k := keys[r.Intn(len(keys))]
		switch r.Intn(4) {
		case 0, 1:
			qs = append(qs, k)
		case 2:
			qs = append(qs, k+"\x00")
		default:
			if len(k) > 0 {
				qs = append(qs, k[:len(k)-1])
			}
		}
	}
	return qs
}

func c11HarnessDir(c *Ctx) string {
	cands := []string{}
	if v := os.Getenv("VERIF_HOME"); v != "" {
		cands = append(cands, filepath.Join(v, "harness"))
	}
	if abs, err := filepath.Abs(c.Out); err == nil {
		cands = append(cands, filepath.Join(abs, "..", "..", "harness"))
	}
	cands = append(cands, "harness", "/verif/harness")
	for _, d := range cands {
		if _, err := os.Stat(filepath.Join(d, "c11race", "main.go")); err == nil {
			return d
		}
	}
	return ""
}

// c11Race runs the race-detector program; returns a summary for the evidence.
func c11Race(c *Ctx, rounds int) map[string]interface{} {
	res := map[string]interface{}{"available": false}
	dir := c11HarnessDir(c)
	if dir == "" {
		res["why"] = "harness/c11race not found"
		return res
	}
	if _, err := exec.LookPath("gcc"); err != nil {
		res["why"] = "no gcc: -race needs cgo"
		return res
	}
	gobin, err := exec.LookPath("go")
	if err != nil {
		res["why"] = "no go toolchain on PATH"
		return res
	}
	ctx, cancel := context.WithTimeout(context.Background(), 25*time.Minute)
	defer cancel()
	cmd := exec.CommandContext(ctx, gobin, "run", "-race", "./c11race", fmt.Sprint(c.Seed), fmt.Sprint(rounds), c.Repo)
	cmd.Dir = dir
	cmd.Env = append(os.Environ(), "GOFLAGS=-mod=mod", "GOPROXY=off", "GOSUMDB=off", "GOTOOLCHAIN=local", "CGO_ENABLED=1", "GORACE=halt_on_error=0")
	var out bytes.Buffer
	cmd.Stdout, cmd.Stderr = &out, &out
	t0 := time.Now()
	err = cmd.Run()
	res["seconds"] = int(time.Since(t0).Seconds())
	res["command"] = fmt.Sprintf("cd %s && go run -race ./c11race %d %d %s", dir, c.Seed, rounds, c.Repo)
	s := out.String()
	okLines := 0
	for _, ln := range strings.Split(s, "\n") {
		if strings.HasPrefix(ln, "ok ") {
			okLines++
			c.Or.Count("race:instance")
		}
	}
	res["instances_ok"] = okLines
	switch {
	case strings.Contains(s, "WARNING: DATA RACE"):
		res["available"] = true
		i := strings.Index(s, "WARNING: DATA RACE")
		rep := s[i:]
		if len(rep) > 3500 {
			rep = rep[:3500]
		}
		c.Or.Violate("C11:data-race", "C11: the race detector reports a data race between concurrent read calls on one SlimTrie",
			map[string]interface{}{"property": "C11", "command": res["command"], "report": rep})
	case strings.Contains(s, "MISMATCH "):
		res["available"] = true
		i := strings.Index(s, "MISMATCH ")
		rep := s[i:]
		if len(rep) > 1500 {
			rep = rep[:1500]
		}
		c.Or.Violate("C11:race-run-mismatch", "C11: a concurrent read returned a result different from its solo result, and the same op is deterministic when run in fresh goroutines one at a time (race-detector build)",
			map[string]interface{}{"property": "C11", "command": res["command"], "report": rep})
	case strings.Contains(s, "NONDET "):
		// differs from the solo result WITHOUT any concurrency (fresh goroutines run
		// one at a time): not a sharing problem, but "what a call returns when run
		// alone" is then not a function of the instance and the arguments.
		res["available"] = true
		var lines []string
		for _, ln := range strings.Split(s, "\n") {
			if strings.HasPrefix(ln, "NONDET ") && len(lines) < 6 {
				lines = append(lines, ln)
			}
		}
		res["result"] = "no data race reported; some lookups are nondeterministic without concurrency in the -race build"
		c.Or.Violate("C11:lookup-nondeterministic-race-build",
			"C11: in the race-detector build a lookup run alone in a fresh goroutine returns a result different from the same lookup on the main goroutine (panic 'slice bounds out of range [:n] with capacity 0' in low/bitstr.CmpUpto): bitstr.StrCmpUpto casts a string header to a slice header with unsafe, so the capacity is a stale stack word; no data race is reported and the default build is unaffected (there the word is querySession.keyBitLen)",
			map[string]interface{}{"property": "C11", "command": res["command"], "report": lines,
				"site": "github.com/openacid/low@v0.1.21/bitstr/bitstr.go:132 StrCmpUpto, called from trie/slimtrie_query.go GetID/searchID and trie/slimtrie_scan.go getGEPath"})
	case err != nil || !strings.Contains(s, "c11race: done"):
		// could not build or run: reported, not a property violation
		res["why"] = "go run -race failed: " + fmt.Sprint(err)
		tail := s
		if len(tail) > 1500 {
			tail = tail[len(tail)-1500:]
		}
		res["output_tail"] = tail
	default:
		res["available"] = true
		res["result"] = "no race reported, every concurrent result equal to its solo result"
	}
	return res
}

// c11EffectSummary digests the regenerated coq/gen/Gen_Effects.v (the file the
// Coq theorems were checked against in this run) for the evidence: counts of
// write effects by API group and root kind, the flows, the result roots and
// every external assumption the translator used.
func c11EffectSummary(c *Ctx) map[string]interface{} {
	dir := c11HarnessDir(c)
	res := map[string]interface{}{}
	if dir == "" {
		res["error"] = "harness dir not found"
		return res
	}
	b, err := ioutil.ReadFile(filepath.Join(dir, "..", "coq", "gen", "Gen_Effects.v"))
	if err != nil {
		res["error"] = err.Error()
		return res
	}
	field := func(ln, name string) string {
		i := strings.Index(ln, name+" := ")
		if i < 0 {
			return ""
		}
		rest := ln[i+len(name)+4:]
		if strings.HasPrefix(rest, "\"") {
			// Coq string: "" is an escaped quote
			out := ""
			for j := 1; j < len(rest); j++ {
				if rest[j] == '"' {
					if j+1 < len(rest) && rest[j+1] == '"' {
						out += "\""
						j++
						continue
					}
					break
				}
				out += string(rest[j])
			}
			return out
		}
		if k := strings.IndexAny(rest, ";|"); k >= 0 {
			rest = rest[:k]
		}
		return strings.TrimSpace(rest)
	}
	counts := map[string]int{}
	var flows, results, assumptions []string
	for _, ln := range strings.Split(string(b), "\n") {
		switch {
		case strings.Contains(ln, "{| fn := "):
			counts[field(ln, "api")+":"+field(ln, "root")]++
		case strings.Contains(ln, "{| fl_api := "):
			flows = append(flows, field(ln, "fl_api")+" "+field(ln, "fl_fn")+": "+field(ln, "fl_src")+" -> "+field(ln, "fl_dst")+" ("+field(ln, "fl_note")+")")
		case strings.Contains(ln, "{| rs_api := "):
			results = append(results, field(ln, "rs_api")+" "+field(ln, "rs_fn")+" -> "+field(ln, "rs_root"))
		case strings.Contains(ln, "{| callee := "):
			assumptions = append(assumptions, field(ln, "callee")+" :: "+field(ln, "shape")+" :: "+field(ln, "note"))
		}
	}
	res["write_effects_by_api_and_root"] = counts
	res["flows"] = flows
	res["result_roots"] = results
	res["external_assumptions(ASSUMED, not proved)"] = assumptions
	return res
}

func init() {
	register("C11", func(c *Ctx) {
		c.Or.Rule = "instances: generated cases (key-set kinds " + strings.Join(kindNames, "/") + " x value layouts x options x encoders; every third forced Complete so that scans/iterators run) as fresh and as loaded-from-current-bytes, plus legacy fixtures of /repo/trie/testdata loaded with encode.I32; " +
			"a case = (instance, number of goroutines 2..32); every read op (lookups = Get+GetID+RangeGet+Search+searchID, GetI8..GetI64, ScanFrom, ScanFromTo, NewIter, three interleaved iterators, Stat, String, Marshal) is run alone first, then goroutines run random ops with random runtime.Gosched() yields and each result is compared with the solo result; " +
			"non-trivial = the instance has at least 2 keys; distinct = distinct (instance, goroutines). The race detector runs in a separate program (oracle.race_detector)."
		ncases := c.N(80, 600)
		perG := c.N(30, 60)
		gChoices := []int{2, 3, 4, 8, 16, 32}
		reported := map[string]bool{}
		totalOps := 0

		runInst := func(in *c11Inst) {
			ops := c11Ops(in)
			solo := make([]string, len(ops))
			y0 := c.R.Fork()
			for i, o := range ops {
				solo[i] = o.run(y0)
			}
			// solo determinism: a second solo pass must agree (otherwise "solo result" is undefined)
			for i, o := range ops {
				if s := o.run(y0); s != solo[i] && !reported["C11:solo-nondeterministic"] {
					reported["C11:solo-nondeterministic"] = true
					c.Or.Violate("C11:solo-nondeterministic", "C11: the same read call run twice alone on one instance returns different results: op "+o.name,
						map[string]interface{}{"property": "C11", "instance": in.label, "case": in.desc, "op": o.name, "first": c11Short(solo[i]), "second": c11Short(s)})
				}
			}
			ng := c.N(2, 4)
			for k := 0; k < ng; k++ {
				g := gChoices[c.R.Intn(len(gChoices))]
				if k == 0 && c.R.Intn(3) == 0 {
					g = 2 + c.R.Intn(31)
				}
				c.Or.Case(fmt.Sprint(in.label, in.desc, g), in.nkeys >= 2)
				c.Or.Count("instance:" + strings.SplitN(in.label, ":", 2)[0])
				c.Or.Count(fmt.Sprintf("goroutines:%s", bucket(g)))
				if in.complete {
					c.Or.Count("complete(scans run)")
				}
				mm, n := c11Hammer(ops, solo, g, c.R, perG)
				totalOps += n
				if mm != nil {
					key := "C11:concurrent-result-differs"
					if !reported[key] {
						reported[key] = true
						c.Or.Violate(key, fmt.Sprintf("C11: with %d goroutines reading one %s instance, %s returned a result different from its solo result", mm.g, in.label, mm.op),
							map[string]interface{}{"property": "C11", "instance": in.label, "case": in.desc, "op": mm.op, "goroutines": mm.g,
								"seed": c.Seed, "got": c11Short(mm.got), "want": c11Short(mm.want), "note": "schedule-dependent: rerun ./run.sh C11 with the same VERIF_SEED; the race-detector run pinpoints the write"})
					}
				}
			}
		}

		// first-touch: the reference results come from one loaded instance, the concurrent reads are the
		// FIRST reads of a second instance loaded from the same bytes (a lazy conversion or a cache
		// filled on first use would be exercised concurrently)
		runFirstTouch := func(ref, untouched *c11Inst) {
			refOps := c11Ops(ref)
			solo := make([]string, len(refOps))
			y0 := c.R.Fork()
			for i, o := range refOps {
				solo[i] = o.run(y0)
			}
			ops := c11Ops(untouched)
			g := []int{4, 8, 16}[c.R.Intn(3)]
			c.Or.Case(fmt.Sprint("first-touch", untouched.label, untouched.desc, g), untouched.nkeys >= 2)
			c.Or.Count("instance:first-touch")
			mm, n := c11Hammer(ops, solo, g, c.R, perG)
			totalOps += n
			if mm != nil && !reported["C11:first-concurrent-reads-differ"] {
				reported["C11:first-concurrent-reads-differ"] = true
				c.Or.Violate("C11:first-concurrent-reads-differ", fmt.Sprintf("C11: %d goroutines performing the first reads of a freshly loaded %s instance: %s returned a result different from the result of the same call on a separately loaded instance read by one goroutine", mm.g, untouched.label, mm.op),
					map[string]interface{}{"property": "C11", "instance": untouched.label, "case": untouched.desc, "op": mm.op, "goroutines": mm.g,
						"seed": c.Seed, "got": c11Short(mm.got), "want": c11Short(mm.want)})
			}
		}

		for i := 0; i < ncases; i++ {
			tc := genTrieCase(c.R.Fork(), fmt.Sprintf("c11_%d", i), c.R.Intn(KKindCnt), c.R.Intn(VKindCnt), 2, 24)
			if i%3 == 0 {
				tc.Opt[3] = 1
			}
			b := tc.Build()
			if b.Err != nil {
				// construction failures belong to C08; nothing to share
				c.Or.Count("build-failed(skipped)")
				continue
			}
			complete := isComplete(tc.Opt)
			desc := tc.replay("C11", "", false, "", "")
			if i < 2 {
				c.Or.Sample(desc)
			}
			c.Or.Count("kind:" + tc.Kind)
			c.Or.Count("enc:" + tc.Enc)
			fresh := &c11Inst{"fresh", b.St, b.Spec, tc.Queries, complete, len(tc.Keys), desc}
			runInst(fresh)
			st2, _, err := reload(b.St, b.Spec)
			if err != nil {
				c.Or.Count("reload-failed(skipped)")
				continue
			}
			runInst(&c11Inst{"loaded", st2, b.Spec, tc.Queries, complete, len(tc.Keys), desc})
		}

		for _, fx := range c11Fixtures(c) {
			buf, err := ioutil.ReadFile(filepath.Join(c.Repo, "trie", "testdata", fx.file))
			if err != nil {
				continue
			}
			spec := specByName("I32")
			st, _ := trie.NewSlimTrie(spec.Enc, nil, nil)
			var uerr error
			s, _ := protect(func() string { uerr = st.Unmarshal(buf); return "" })
			if s == "PANIC" || uerr != nil {
				c.Or.Count("legacy-load-failed(skipped, see C06)")
				continue
			}
			keys := testkeys.Load(fx.set)
			complete := strings.Contains(fx.file, "allpref")
			qs := c11QueriesOf(c.R, keys, 16)
			fdesc := map[string]interface{}{"fixture": fx.file, "keys": "testkeys.Load(" + fx.set + ")", "encoder": "I32"}
			// first-touch on a second, untouched instance loaded from the same bytes
			reps := 2
			if strings.Contains(fx.file, "pref-0.5.10") {
				reps = c.N(12, 40) // layouts whose load re-encodes stored prefixes
			}
			for rep := 0; rep < reps; rep++ {
				st2, _ := trie.NewSlimTrie(spec.Enc, nil, nil)
				var uerr2 error
				s2, _ := protect(func() string { uerr2 = st2.Unmarshal(buf); return "" })
				if s2 != "PANIC" && uerr2 == nil {
					runFirstTouch(&c11Inst{"legacy:" + fx.file, st, spec, qs, complete, len(keys), fdesc},
						&c11Inst{"legacy:" + fx.file, st2, spec, qs, complete, len(keys), fdesc})
				}
			}
			runInst(&c11Inst{"legacy:" + fx.file, st, spec, qs, complete, len(keys), fdesc})
		}
		c.Or.Add("concurrent-ops", totalOps)

		c.Or.Extra["effect_summary"] = c11EffectSummary(c)
		race := c11Race(c, c.N(4, 25))
		c.Or.Extra["race_detector"] = race
		if av, _ := race["available"].(bool); !av {
			c.Or.Count("race-detector:UNAVAILABLE")
			fmt.Println("C11: race detector run unavailable:", race["why"])
		} else {
			c.Or.Count("race-detector:ran")
		}
	})
}
