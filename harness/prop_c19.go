package main

// C19: String() renders every trie faithfully and never panics.
//
// For every generated trie (fresh and reloaded from its own Marshal output):
//   (a) the case is written for the extracted Coq model (Str.v: render);
//   (b) st.String() is parsed into structured lines (indent, label text, node
//       id, step, fan-out, value); the parsed lines are formatted again with
//       the layout of low/tree.String (c19Format) and must reproduce the text
//       byte for byte, so the structured lines written to impl.txt carry the
//       whole text; the model's lines are compared with them by check.py;
//   (c) the property oracle (from the property text and the retained-key
//       reference NewRef, never from the Coq model): no panic, every node id
//       0..NodeCnt-1 exactly once, the leaf lines top to bottom carry the
//       retained values in key order, the loaded trie renders identically.
// Generators: the shared key-set kinds (regular with larger scales, fanout for
// 257-bit nodes) and a designed kind "shorttable-<s>" per short-node table
// size s = 1..10; the ShortSize distribution is measured on the built tries.
// Tries above c19ModelMaxKeys keys are checked by the oracle only.

import (
	"bufio"
	"fmt"
	"reflect"
	"sort"
	"strings"

	"github.com/openacid/slim/trie"
)

const c19ModelMaxKeys = 4000

type c19Line struct {
	Indent   int
	HasLabel bool
	Label    string
	ID       int
	Step     int // 0: not printed
	Fan      int // 0: not printed
	Leaf     bool
	Val      string // raw text after '='
	ValOK    bool   // Val is the text of the expected value of this leaf line
}

// c19Format lays structured lines out the way low/tree.String + slimTrieStringly do.
func c19Format(ls []c19Line) string {
	out := make([]string, len(ls))
	for i, l := range ls {
		var sb strings.Builder
		sb.WriteString(strings.Repeat(" ", l.Indent))
		if l.HasLabel {
			sb.WriteString("-" + l.Label + "->")
		}
		sb.WriteString("#" + fmt.Sprintf("%03d", l.ID))
		if l.Step > 0 {
			fmt.Fprintf(&sb, "+%d", l.Step)
		}
		if l.Fan > 1 {
			fmt.Fprintf(&sb, "*%d", l.Fan)
		}
		if l.Leaf {
			sb.WriteString("=" + l.Val)
		}
		out[i] = sb.String()
	}
	return strings.Join(out, "\n")
}

// c19Parse reads the text sequentially. wantVals are the expected value texts
// of the leaf lines in order (a value text may contain any byte, including a
// newline, so a leaf value is first matched against the expected text).
func c19Parse(text string, wantVals []string) ([]c19Line, error) {
	ls := []c19Line{}
	if text == "" {
		return ls, nil
	}
	p := 0
	leafI := 0
	num := func() (int, bool) {
		q := p
		v := 0
		for q < len(text) && text[q] >= '0' && text[q] <= '9' && q-p < 12 {
			v = v*10 + int(text[q]-'0')
			q++
		}
		if q == p {
			return 0, false
		}
		p = q
		return v, true
	}
	for {
		var l c19Line
		for p < len(text) && text[p] == ' ' {
			l.Indent++
			p++
		}
		if p < len(text) && text[p] == '-' {
			l.HasLabel = true
			p++
			q := p
			for q < len(text) && (text[q] == '0' || text[q] == '1') {
				q++
			}
			l.Label = text[p:q]
			p = q
			if !strings.HasPrefix(text[p:], "->") {
				return ls, fmt.Errorf("line %d: no \"->\" after the label", len(ls))
			}
			p += 2
		}
		if p >= len(text) || text[p] != '#' {
			return ls, fmt.Errorf("line %d: no node id", len(ls))
		}
		p++
		id, ok := num()
		if !ok {
			return ls, fmt.Errorf("line %d: no node id digits", len(ls))
		}
		l.ID = id
		if p < len(text) && text[p] == '+' {
			p++
			if l.Step, ok = num(); !ok {
				return ls, fmt.Errorf("line %d: no step digits", len(ls))
			}
		}
		if p < len(text) && text[p] == '*' {
			p++
			if l.Fan, ok = num(); !ok {
				return ls, fmt.Errorf("line %d: no fan-out digits", len(ls))
			}
		}
		if p < len(text) && text[p] == '=' {
			p++
			l.Leaf = true
			matched := false
			if leafI < len(wantVals) {
				w := wantVals[leafI]
				if strings.HasPrefix(text[p:], w) && (p+len(w) == len(text) || text[p+len(w)] == '\n') {
					l.Val, l.ValOK = w, true
					p += len(w)
					matched = true
				}
			}
			if !matched {
				q := strings.IndexByte(text[p:], '\n')
				if q < 0 {
					q = len(text) - p
				}
				l.Val = text[p : p+q]
				p += q
			}
			leafI++
		}
		ls = append(ls, l)
		if p == len(text) {
			return ls, nil
		}
		if text[p] != '\n' {
			return ls, fmt.Errorf("line %d: unexpected %q", len(ls)-1, text[p])
		}
		p++
	}
}

// c19WantVals: the %v text and the canonical form (hex of the reference
// encoding, "nil") of the value of every retained key, in key order.
func c19WantVals(tc *TrieCase, ref *Ref) (texts, canon []string) {
	typed, _, _ := tc.Values()
	var rv reflect.Value
	if typed != nil {
		rv = reflect.ValueOf(typed)
	}
	for _, i := range ref.Retained {
		if ref.Vals == nil || ref.allEmpty {
			texts = append(texts, "<nil>")
			canon = append(canon, "nil")
			continue
		}
		texts = append(texts, fmt.Sprintf("%v", rv.Index(i).Interface()))
		canon = append(canon, hx(ref.Vals[i]))
	}
	return
}

type c19Obs struct {
	Text  string
	Panic string
	Lines []c19Line
	PErr  error
}

func c19Observe(st *trie.SlimTrie, wantTexts []string) *c19Obs {
	o := &c19Obs{}
	s, p := protect(func() string { o.Text = st.String(); return "" })
	if s == "PANIC" {
		o.Panic = p
		return o
	}
	o.Lines, o.PErr = c19Parse(o.Text, wantTexts)
	return o
}

func (o *c19Obs) write(w *bufio.Writer, canon []string) {
	if o.Panic != "" {
		fmt.Fprintf(w, "R PANIC\n")
		return
	}
	leafI := 0
	for _, l := range o.Lines {
		lbl := "^"
		if l.HasLabel {
			lbl = l.Label
			if lbl == "" {
				lbl = "e"
			}
		}
		val := "-"
		if l.Leaf {
			if l.ValOK && leafI < len(canon) {
				val = canon[leafI]
			} else {
				val = "BAD:" + hxs(l.Val)
			}
			leafI++
		}
		fmt.Fprintf(w, "R %d %s %d %d %d %s\n", l.Indent, lbl, l.ID, l.Step, l.Fan, val)
	}
	if o.PErr != nil {
		fmt.Fprintf(w, "X unparsed: %v\n", o.PErr)
	} else if c19Format(o.Lines) != o.Text {
		fmt.Fprintf(w, "X layout: formatting the parsed lines does not reproduce the text\n")
	}
}

func c19Short(s string) string {
	if len(s) > 300 {
		return s[:300] + "..."
	}
	return s
}

// c19Check is the oracle for one instance.
func c19Check(st *trie.SlimTrie, o *c19Obs, wantTexts []string, how string) *finding {
	fail := func(key, got, want string) *finding {
		return &finding{key: "C19:" + key, what: fmt.Sprintf("C19: %s (%s trie): got %s, want %s", key, how, c19Short(got), c19Short(want)), got: c19Short(got), want: c19Short(want)}
	}
	if o.Panic != "" {
		return fail("string-panic", "PANIC "+o.Panic, "a rendering")
	}
	if o.PErr != nil {
		return fail("unparseable", o.PErr.Error(), "lines <indent>-<label>->#<id>+<step>*<fanout>=<value>")
	}
	total := int(st.VerifNodeCnt())
	cnt := make(map[int]int)
	for _, l := range o.Lines {
		cnt[l.ID]++
	}
	for id := 0; id < total; id++ {
		if cnt[id] != 1 {
			return fail("node-shown-not-once", fmt.Sprintf("node id %d on %d lines (%d lines, %d nodes)", id, cnt[id], len(o.Lines), total), "every node on exactly one line")
		}
	}
	if len(o.Lines) != total {
		return fail("line-count", fmt.Sprintf("%d lines", len(o.Lines)), fmt.Sprintf("%d nodes", total))
	}
	got := []string{}
	for _, l := range o.Lines {
		if l.Leaf {
			got = append(got, l.Val)
		}
	}
	if len(got) != len(wantTexts) {
		return fail("leaf-line-count", fmt.Sprintf("%d leaf lines", len(got)), fmt.Sprintf("%d retained keys", len(wantTexts)))
	}
	for i := range got {
		if got[i] != wantTexts[i] {
			return fail("leaf-values-order", fmt.Sprintf("leaf line %d carries %q", i, got[i]), fmt.Sprintf("%q (value of the %d-th retained key)", wantTexts[i], i))
		}
	}
	return nil
}

// c19Eval builds, renders fresh and reloaded, runs the oracle.
func c19Eval(c *Ctx, tc *TrieCase, emit bool, measure bool) *finding {
	emit = emit && len(tc.Keys) <= c19ModelMaxKeys
	b := tc.Build()
	var w *bufio.Writer
	if emit {
		w = c.Impl()
		c18WriteCase(c.Cases(), tc, nil)
		fmt.Fprintf(w, "C %s\n", tc.ID)
	}
	if b.Err != nil {
		if emit {
			fmt.Fprintf(w, "B %s\n", buildErrStr(b.Err, tc.Keys))
		}
		return &finding{key: "C19:build-failed", what: fmt.Sprintf("C19: NewSlimTrie failed on a valid key list: %v", b.Err), got: b.Err.Error(), want: "a trie"}
	}
	if measure {
		ns := b.St.VerifInner()
		c.Or.Count(fmt.Sprintf("shortsize:%d", ns.ShortSize))
		if ns.ShortSize > 0 {
			c.Or.Count(fmt.Sprintf("shortsize:%d:kind:%s", ns.ShortSize, tc.Kind))
		}
		if ns.BigInnerCnt > 0 {
			c.Or.Count("with-257-bit-nodes")
		}
		if !emit {
			c.Or.Count("oracle-only(above-model-size)")
		}
	}
	ref := NewRef(tc)
	texts, canon := c19WantVals(tc, ref)
	o := c19Observe(b.St, texts)
	if emit {
		fmt.Fprintf(w, "B ok\n")
		o.write(w, canon)
	}
	f := c19Check(b.St, o, texts, "fresh")

	st2, _, err := reload(b.St, b.Spec)
	if emit {
		fmt.Fprintf(c.Cases(), "L %s\n", tc.ID)
		fmt.Fprintf(w, "C %s+L\n", tc.ID)
	}
	if err != nil {
		if emit {
			fmt.Fprintf(w, "B reload-failed\n")
		}
		if f == nil {
			f = &finding{key: "C19:reload-failed", what: fmt.Sprintf("C19: Marshal/Unmarshal failed: %v", err), got: err.Error(), want: "a loaded trie"}
		}
		return f
	}
	o2 := c19Observe(st2, texts)
	if emit {
		fmt.Fprintf(w, "B ok\n")
		o2.write(w, canon)
	}
	if f == nil {
		if o2.Panic != "" {
			f = &finding{key: "C19:string-panic+loaded", what: "C19: String() of the loaded trie panics: " + o2.Panic, got: "PANIC " + o2.Panic, want: "a rendering"}
		} else if o.Panic == "" && o2.Text != o.Text {
			k := 0
			for k < len(o.Text) && k < len(o2.Text) && o.Text[k] == o2.Text[k] {
				k++
			}
			f = &finding{key: "C19:loaded-renders-differently", what: fmt.Sprintf("C19: the loaded trie renders differently from the trie it was marshaled from (first difference at byte %d)", k),
				got: c19Short(o2.Text[k:]), want: c19Short(o.Text[k:])}
		}
	}
	return f
}

func c19Shrink(c *Ctx, tc *TrieCase, f *finding) (*TrieCase, *finding) {
	cur, curf := tc, f
	budget := 200
	if len(tc.Keys) > 10000 {
		budget = 40
	}
	for chunk := len(cur.Keys) / 2; chunk >= 1 && budget > 0; chunk /= 2 {
		for i := 0; i+chunk <= len(cur.Keys) && budget > 0; {
			budget--
			nt := *cur
			nt.Keys = append(append([]string{}, cur.Keys[:i]...), cur.Keys[i+chunk:]...)
			if cur.IDs != nil {
				nt.IDs = append(append([]uint64{}, cur.IDs[:i]...), cur.IDs[i+chunk:]...)
			}
			nf := c19Eval(c, &nt, false, false)
			if nf != nil && nf.key == curf.key {
				cur, curf = &nt, nf
			} else {
				i += chunk
			}
		}
	}
	return cur, curf
}

// ---- designed key sets for the short-node table sizes ----------------------

// c19Subsets: the first max k-subsets of {0..15} in a pseudo-random order.
func c19Subsets(r *RNG, k, max int) [][]int {
	all := [][]int{}
	cur := []int{}
	var rec func(start int)
	rec = func(start int) {
		if len(cur) == k {
			all = append(all, append([]int{}, cur...))
			return
		}
		for i := start; i < 16; i++ {
			cur = append(cur, i)
			rec(i + 1)
			cur = cur[:len(cur)-1]
		}
	}
	rec(0)
	for i := len(all) - 1; i > 0; i-- {
		j := r.Intn(i + 1)
		all[i], all[j] = all[j], all[i]
	}
	if len(all) > max {
		all = all[:max]
	}
	return all
}

// The creator replaces the most used 17-bit label bitmaps by s-bit table
// indexes when that saves memory: a table of 2^s words against (17-s) bits
// per replaced node; an s-bit index with k one-bits can only stand for a
// bitmap with k labels. m = C(s,k) distinct k-label bitmaps, each on n nodes,
// make size s cheaper than size s-1; c19ShortPlan lists (k, m, n) per size.
var c19ShortPlan = map[int][3]int{
	2: {2, 1, 14}, 3: {2, 3, 12}, 4: {2, 6, 16}, 5: {2, 10, 26}, 6: {3, 20, 22},
	7: {3, 35, 33}, 8: {4, 70, 31}, 9: {4, 126, 45}, 10: {5, 252, 45},
}

// c19ShortTableCase: a key set built for table size s; groups of keys
// <group prefix><byte> whose high nibbles are the chosen label set, so that the
// node below every group prefix has exactly that label bitmap and leaf children.
// Size 1 needs nodes with one label: pairs of keys with equal values under
// de-duplication (the second key of a pair is not retained).
func c19ShortTableCase(r *RNG, id string, s int) *TrieCase {
	tc := &TrieCase{ID: id, Kind: fmt.Sprintf("shorttable-%d", s), Opt: randOpt(r)}
	if s == 1 {
		tc.Opt[0] = 1
		tc.VKind = "pairs"
		tc.Enc = []string{"I32", "U16", "I64", "I8", "B3", "TE"}[r.Intn(6)]
		n := 6 + r.Intn(6)
		lo := byte(r.Intn(16))
		for j := 0; j < n; j++ {
			p := string([]byte{byte(j<<4) | lo})
			tc.Keys = append(tc.Keys, p+"a", p+"b")
			v := uint64(j+1) | (r.U64() << 40) // distinct per pair in every fixed width
			tc.IDs = append(tc.IDs, v, v)
		}
		sort.Strings(tc.Keys)
		return tc
	}
	plan := c19ShortPlan[s]
	k, m, n := plan[0], plan[1], plan[2]
	n += r.Intn(3)
	subs := c19Subsets(r, k, m)
	lo := byte(r.Intn(16))
	lead := randBytes(r, r.Intn(2))
	g := 0
	for _, sub := range subs {
		for j := 0; j < n; j++ {
			pre := lead + string([]byte{byte(g >> 8), byte(g)})
			g++
			for _, nib := range sub {
				tc.Keys = append(tc.Keys, pre+string([]byte{byte(nib<<4) | lo}))
			}
		}
	}
	tc.Keys = uniqSorted(tc.Keys)
	vk := []int{VNil, VDistinct, VDistinct}[r.Intn(3)] // equal adjacent values would be de-duplicated away and change the bitmaps
	tc.VKind = vkindNames[vk]
	tc.IDs = genValueIDs(r, len(tc.Keys), vk)
	tc.Enc = allEncNames[r.Intn(len(allEncNames))]
	if vk != VNil {
		// wide fixed-width encoders: narrow or zero-width ones make adjacent values equal
		tc.Enc = []string{"I32", "U32", "I64", "U64", "Int", "TE", "B3"}[r.Intn(7)]
	}
	return tc
}

func init() {
	register("C19", func(c *Ctx) {
		c.Or.Rule = "cases: one PRNG stream from VERIF_SEED; key-set kinds " + strings.Join(kindNames, "/") + " (regular and fanout drawn twice as often, regular at scales up to 3 (quick) / 8 (thorough)), " +
			"the empty key list, and one designed kind shorttable-<s> per short-node table size s = 1..10 (quick: one set per size; thorough: three) x value layouts " + strings.Join(vkindNames, "/") +
			" x 16 option combos (+ raw nil options) x 12 encoders; every trie is rendered fresh and after Marshal/Unmarshal; tries with more than " + fmt.Sprint(c19ModelMaxKeys) +
			" keys are checked by the oracle only (counted oracle-only); shortsize:<s> counts the measured Slim.ShortSize of the built tries; a case = (options, encoder, keys, values); non-trivial = at least 2 keys; distinct = distinct canonical case text"
		reported := map[string]bool{}
		run := func(tc *TrieCase, sample bool) {
			canon := fmt.Sprint(tc.Opt, tc.Enc, tc.Keys, tc.IDs)
			c.Or.Case(canon, len(tc.Keys) >= 2)
			c.Or.Count("kind:" + tc.Kind)
			c.Or.Count("values:" + tc.VKind)
			c.Or.Count("opt:" + optc(tc.Opt[0]) + optc(tc.Opt[1]) + optc(tc.Opt[2]) + optc(tc.Opt[3]))
			c.Or.Count("enc:" + tc.Enc)
			c.Or.Count("keys:" + bucket(len(tc.Keys)))
			if sample {
				c.Or.Sample(tc.replay("C19", "", false, "", ""))
			}
			f := c19Eval(c, tc, true, true)
			if f != nil && !reported[f.key] {
				reported[f.key] = true
				stc, sf := c19Shrink(c, tc, f)
				c.Or.Violate(sf.key, sf.what, stc.replay("C19", "", strings.HasSuffix(sf.key, "+loaded"), sf.got, sf.want))
			}
		}
		// designed short-table sets first (so that a defect in the short-node path is met early)
		reps := c.N(1, 3)
		for rep := 0; rep < reps; rep++ {
			for s := 1; s <= 10; s++ {
				run(c19ShortTableCase(c.R.Fork(), fmt.Sprintf("c19_short%d_%d", s, rep), s), false)
			}
		}
		n := c.N(260, 3000)
		kinds := []int{}
		for k := 0; k < KKindCnt; k++ {
			kinds = append(kinds, k)
		}
		kinds = append(kinds, KRegular, KFanout)
		for i := 0; i < n; i++ {
			r := c.R.Fork()
			kind := kinds[r.Intn(len(kinds))]
			scale := 1 + r.Intn(2)
			if kind == KRegular || kind == KFanout {
				scale = 1 + r.Intn(c.N(3, 8))
			}
			tc := genTrieCase(r, fmt.Sprintf("c19_%d", i), kind, r.Intn(VKindCnt), scale, 0)
			tc.Queries = nil
			if i == 0 {
				tc.Keys, tc.Kind = []string{}, "empty"
				tc.IDs = genValueIDs(r, 0, r.Intn(VKindCnt))
			}
			run(tc, i < 3)
		}
	})
}
