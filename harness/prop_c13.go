package main

// C13: storing more key information only removes false positives.
//
// One generated input (keys, values, encoder, query set) is built in all eight
// (InnerPrefix, LeafPrefix, Complete) combinations, for DedupValue off and on:
// sixteen tries per input.  Every trie is one case of the correspondence (node
// view + lookups against the extracted model, driver MiscX mode trie).  The oracle
// is written from the property text and a plain reference (the list of
// retained keys):
//   (a) for every ordered pair of modes with equal DedupValue where the richer
//       mode stores at least the prefix information of the poorer one: a query
//       reported found in the richer mode is reported found with the same
//       value in the poorer mode;
//   (b) a mode that stores everything (Complete, or InnerPrefix+LeafPrefix)
//       reports found only for retained keys;
//   (c) every mode gives the same answer (found, the key's own value) for a
//       retained key.

import (
	"fmt"
	"strings"
)

type c13Mode struct {
	opt         [4]int8
	inner, leaf bool // what is stored, after normalisation
	name        string
	res         []QRes
}

func c13Modes(dedup int8) []*c13Mode {
	ms := []*c13Mode{}
	for i := int8(0); i < 2; i++ {
		for l := int8(0); l < 2; l++ {
			for cpl := int8(0); cpl < 2; cpl++ {
				m := &c13Mode{opt: [4]int8{dedup, i, l, cpl}}
				m.inner = i == 1 || cpl == 1
				m.leaf = l == 1 || cpl == 1
				m.name = optc(dedup) + optc(i) + optc(l) + optc(cpl)
				ms = append(ms, m)
			}
		}
	}
	return ms
}

// c13Run builds one mode, optionally emits the case for the correspondence, and returns the query results.
func c13Run(c *Ctx, tc *TrieCase, emit bool) ([]QRes, *finding) {
	if emit {
		tc.WriteCase(c.Cases())
		fmt.Fprintf(c.Impl(), "C %s\n", tc.ID)
	}
	b := tc.Build()
	if b.Err != nil {
		es := buildErrStr(b.Err, tc.Keys)
		if emit {
			fmt.Fprintf(c.Impl(), "B %s\n", es)
		}
		return nil, &finding{key: "C13:build-failed", what: fmt.Sprintf("C13: NewSlimTrie failed on a valid key list in mode %s: %v", optc(tc.Opt[0])+optc(tc.Opt[1])+optc(tc.Opt[2])+optc(tc.Opt[3]), b.Err), got: es, want: "a trie"}
	}
	if emit {
		fmt.Fprintf(c.Impl(), "B ok\n")
		DumpView(c.Impl(), b.St)
	}
	res := make([]QRes, len(tc.Queries))
	for i, q := range tc.Queries {
		res[i] = runQuery(b.St, b.Spec, q)
		if emit {
			fmt.Fprintf(c.Impl(), "%s\n", res[i].Line(q))
		}
	}
	return res, nil
}

type c13Replay struct {
	Property string   `json:"property"`
	Enc      string   `json:"encoder"`
	Keys     []string `json:"keys_hex"`
	Vals     []string `json:"values_hex"`
	Query    string   `json:"query_hex"`
	Richer   string   `json:"richer_mode_dedup_inner_leaf_complete"`
	Poorer   string   `json:"poorer_mode_dedup_inner_leaf_complete"`
	Got      string   `json:"got"`
	Want     string   `json:"want"`
}

type c13Finding struct {
	key, what      string
	q              string
	richer, poorer string
	got, want      string
}

// c13Eval runs the sixteen tries of one input and the oracle. base carries keys, values, encoder, queries.
func c13Eval(c *Ctx, base *TrieCase, emit bool) *c13Finding {
	for _, dedup := range []int8{0, 1} {
		modes := c13Modes(dedup)
		for _, m := range modes {
			tc := *base
			tc.ID = base.ID + "_" + m.name
			tc.Opt = m.opt
			res, f := c13Run(c, &tc, emit)
			if f != nil {
				return &c13Finding{key: f.key, what: f.what, richer: m.name, poorer: m.name, got: f.got, want: f.want}
			}
			m.res = res
		}
		tcRef := *base
		tcRef.Opt = [4]int8{dedup, 0, 0, 0}
		ref := NewRef(&tcRef)
		for qi, q := range base.Queries {
			j := ref.find(q)
			for _, m := range modes {
				r := m.res[qi]
				if r.Panic != "" {
					return &c13Finding{key: "C13:panic", what: fmt.Sprintf("C13: lookup of %s panics in mode %s: %s", hxs(q), m.name, r.Panic), q: q, richer: m.name, poorer: m.name, got: "PANIC", want: "an answer"}
				}
				// (c) identical answers for retained keys
				if j >= 0 {
					want := "F:" + ref.val(ref.Retained[j])
					if r.Get != want {
						return &c13Finding{key: "C13:retained-key-answer", what: fmt.Sprintf("C13: retained key %s: mode %s answers %s, want %s", hxs(q), m.name, r.Get, want), q: q, richer: m.name, poorer: m.name, got: r.Get, want: want}
					}
				}
				// (b) complete: found only for retained keys
				if m.inner && m.leaf && j < 0 && r.Get != "N" {
					return &c13Finding{key: "C13:complete-false-positive", what: fmt.Sprintf("C13: mode %s stores complete keys but reports %s for the absent key %s", m.name, r.Get, hxs(q)), q: q, richer: m.name, poorer: m.name, got: r.Get, want: "N"}
				}
			}
			// (a) every ordered pair
			for _, rich := range modes {
				rr := rich.res[qi]
				if rr.Get == "N" {
					continue
				}
				for _, poor := range modes {
					if (poor.inner && !rich.inner) || (poor.leaf && !rich.leaf) {
						continue
					}
					c.Or.Add("pairs-checked-on-a-hit", 1)
					pr := poor.res[qi]
					if pr.Get != rr.Get {
						return &c13Finding{key: "C13:richer-found-poorer-differs",
							what: fmt.Sprintf("C13: query %s is reported %s in mode %s (stores more) but %s in mode %s (stores less)", hxs(q), rr.Get, rich.name, pr.Get, poor.name),
							q:    q, richer: rich.name, poorer: poor.name, got: pr.Get, want: rr.Get}
					}
					if pr.ID != rr.ID {
						// not part of the property text (values agree); the model theorem also gives equal node ids
						c.Or.Add("note:same-value-different-node-id", 1)
					}
				}
			}
			if j < 0 {
				// how many modes accept this absent key: the distribution the property is about
				n := 0
				for _, m := range modes {
					if m.res[qi].Get != "N" {
						n++
					}
				}
				c.Or.Add(fmt.Sprintf("absent-query-accepted-by-%d-of-8-modes", n), 1)
			}
		}
	}
	return nil
}

func (f *c13Finding) replay(base *TrieCase) c13Replay {
	_, bs, _ := base.Values()
	r := c13Replay{Property: "C13", Enc: base.Enc, Query: hxs(f.q), Richer: f.richer, Poorer: f.poorer, Got: f.got, Want: f.want}
	for i, k := range base.Keys {
		r.Keys = append(r.Keys, hxs(k))
		if bs != nil {
			r.Vals = append(r.Vals, hx(bs[i]))
		}
	}
	return r
}

func c13Shrink(c *Ctx, base *TrieCase, f *c13Finding) (*TrieCase, *c13Finding) {
	cur, curf := base, f
	try := func(cand *TrieCase) bool {
		if len(cand.Keys) == 0 {
			return false
		}
		nf := c13Eval(c, cand, false)
		if nf != nil && nf.key == curf.key {
			cur, curf = cand, nf
			return true
		}
		return false
	}
	if curf.q != "" {
		nt := *cur
		nt.Queries = []string{curf.q}
		try(&nt)
	}
	budget := 200
	for chunk := len(cur.Keys) / 2; chunk >= 1 && budget > 0; chunk /= 2 {
		for i := 0; i+chunk <= len(cur.Keys) && budget > 0; {
			budget--
			nt := *cur
			nt.Keys = append(append([]string{}, cur.Keys[:i]...), cur.Keys[i+chunk:]...)
			if cur.IDs != nil {
				nt.IDs = append(append([]uint64{}, cur.IDs[:i]...), cur.IDs[i+chunk:]...)
			}
			if !try(&nt) {
				i += chunk
			}
		}
	}
	return cur, curf
}

func init() {
	register("C13", func(c *Ctx) {
		c.Or.Rule = "inputs: one PRNG stream from VERIF_SEED; key-set kinds " + strings.Join(kindNames, "/") + " x value layouts " + strings.Join(vkindNames, "/") +
			" x 12 encoders; each input is built in all 8 (InnerPrefix,LeafPrefix,Complete) combinations for DedupValue=false and =true (16 tries, each one correspondence case) and queried with the C10 query set " +
			"(every key, one-bit/one-byte/nibble mutations, proper prefixes, extensions, 40-byte over-long extensions, all-0x00/0xff, random strings); every ordered pair of modes (poorer, richer) with equal DedupValue is compared on every query; " +
			"an evaluation = one input; non-trivial = at least 2 keys; distinct = distinct canonical text of (encoder, keys, values, queries)"
		n := c.N(120, 2500)
		reported := map[string]bool{}
		for i := 0; i < n; i++ {
			r := c.R.Fork()
			tc := genTrieCase(r, fmt.Sprintf("c13_%d", i), r.Intn(KKindCnt), r.Intn(VKindCnt), 1, 80)
			canon := fmt.Sprint(tc.Enc, tc.Keys, tc.IDs, tc.Queries)
			c.Or.Case(canon, len(tc.Keys) >= 2)
			c.Or.Count("kind:" + tc.Kind)
			c.Or.Count("values:" + tc.VKind)
			c.Or.Count("enc:" + tc.Enc)
			c.Or.Count("keys:" + bucket(len(tc.Keys)))
			c.Or.Add("tries-built", 16)
			c.Or.Add("queries", len(tc.Queries)*16)
			if i < 2 {
				c.Or.Sample((&c13Finding{}).replay(tc))
			}
			f := c13Eval(c, tc, true)
			if f != nil && !reported[f.key] {
				reported[f.key] = true
				stc, sf := c13Shrink(c, tc, f)
				c.Or.Violate(sf.key, sf.what, sf.replay(stc))
			}
		}
	})
}
