package main

// Point-query properties of SlimTrie: C01, C02, C03, C09, C10, C13.
// For each generated case the harness (a) writes the case for the extracted
// Coq model, (b) writes the implementation's projected observables (decoded
// node view + the lookups) for the correspondence, and (c) runs the property
// oracle, which is written against a plain sorted-map reference and never
// against the model.

import (
	"bytes"
	"fmt"
	"os"
	"sort"
	"strings"
	"time"

	"github.com/golang/protobuf/proto"
	"github.com/openacid/slim/trie"
)

// ---- reference semantics -------------------------------------------------

type Ref struct {
	Keys     []string
	Vals     [][]byte // reference encoding per key; nil: no values
	Retained []int    // indexes of retained keys
	allEmpty bool
}

func NewRef(c *TrieCase) *Ref {
	_, bs, _ := c.Values()
	dedup, _, _ := c.Norm()
	r := &Ref{Keys: c.Keys, Vals: bs}
	r.allEmpty = bs != nil
	for _, b := range bs {
		if len(b) > 0 {
			r.allEmpty = false
		}
	}
	for i := range c.Keys {
		if i > 0 && dedup && bs != nil && bytes.Equal(bs[i-1], bs[i]) {
			continue
		}
		r.Retained = append(r.Retained, i)
	}
	return r
}

// val of key index i as the canonical string used everywhere ("nil": no values)
func (r *Ref) val(i int) string {
	if r.Vals == nil || r.allEmpty {
		// zero-width values (encode.Dummy): nothing is stored and the decoded value is nil
		return "nil"
	}
	return hx(r.Vals[i])
}

// position in Retained of greatest retained key <= q (or < q when strict); -1 none
func (r *Ref) floorIdx(q string, strict bool) int {
	n := sort.Search(len(r.Retained), func(j int) bool {
		k := r.Keys[r.Retained[j]]
		if strict {
			return k >= q
		}
		return k > q
	})
	return n - 1
}

// position in Retained of q, -1 if not retained
func (r *Ref) find(q string) int {
	j := r.floorIdx(q, false)
	if j >= 0 && r.Keys[r.Retained[j]] == q {
		return j
	}
	return -1
}

// ---- running the implementation -----------------------------------------

type QRes struct {
	ID         int32
	Get        string // "N" | "F:<val>" | "PANIC"
	Range      string
	SL, SE, SR string // "-" or val
	IL, IE, IR int32
	Panic      string
}

// the case whose trie is being queried (for the watchdog's replay)
var curTrieCase *TrieCase

func runQuery(st *trie.SlimTrie, spec *EncSpec, q string) QRes {
	var r QRes
	tcw := curTrieCase
	WatchStart("GetID/Get/RangeGet/Search on query "+hxs(q), func() interface{} {
		if tcw == nil || theCtx == nil {
			return map[string]string{"query": hxs(q)}
		}
		return tcw.replay(theCtx.PID, q, false, "no return", "an answer")
	})
	defer WatchEnd()
	note := func(s, p string) bool {
		if s == "PANIC" {
			r.Panic += p + "; "
			return true
		}
		return false
	}
	s, p := protect(func() string { r.ID = st.GetID(q); return "" })
	if note(s, p) {
		r.ID = -99
	}
	r.Get, p = protect(func() string { v, f := st.Get(q); return foundStr(spec, v, f) })
	note(r.Get, p)
	r.Range, p = protect(func() string { v, f := st.RangeGet(q); return foundStr(spec, v, f) })
	note(r.Range, p)
	s, p = protect(func() string {
		l, e, rr := st.Search(q)
		r.SL, r.SE, r.SR = ovStr(spec, l), ovStr(spec, e), ovStr(spec, rr)
		return ""
	})
	if note(s, p) {
		r.SL, r.SE, r.SR = "PANIC", "PANIC", "PANIC"
	}
	s, p = protect(func() string { r.IL, r.IE, r.IR = st.VerifSearchID(q); return "" })
	if note(s, p) {
		r.IL, r.IE, r.IR = -99, -99, -99
	}
	return r
}

func (r QRes) Line(q string) string {
	return fmt.Sprintf("q %s G %d %s R %s S %s %s %s I %d %d %d", hxs(q), r.ID, r.Get, r.Range, r.SL, r.SE, r.SR, r.IL, r.IE, r.IR)
}

// reload marshals and unmarshals. Every second call loads into an instance that is ALREADY IN
// USE: it first holds the previous stream written with the same encoder and has been read
// through every public entry point (so that anything an instance caches lazily is filled), then
// receives the new stream through a direct st.Unmarshal - the other calls load into a fresh
// instance. A loaded trie must answer the same either way (C05: no residue).
var reloadCount int
var reloadUsedHung bool
var reloadPrev = map[string][]byte{}

func touchAll(st *trie.SlimTrie) {
	for _, f := range []func(){
		func() { st.Get("a") }, func() { st.GetID("a") }, func() { st.RangeGet("a") }, func() { st.Search("a") },
		func() { _ = st.String() }, func() { _ = st.Stat() },
		func() { st.GetI8("a") }, func() { st.GetI16("a") }, func() { st.GetI32("a") }, func() { st.GetI64("a") },
		func() { st.GetI8("") }, func() { st.GetI16("") }, func() { st.GetI32("") }, func() { st.GetI64("") },
		func() { nxt := st.NewIter("", true, true); nxt() },
		func() { st.ScanFrom("", true, true, func(k, v []byte) bool { return false }) },
	} {
		func() {
			defer func() { recover() }()
			f()
		}()
	}
}

func reload(st *trie.SlimTrie, spec *EncSpec) (*trie.SlimTrie, []byte, error) {
	var st2 *trie.SlimTrie
	var buf []byte
	var err error
	reloadCount++
	used := reloadCount%2 == 0 && !reloadUsedHung
	viaProto := reloadCount%4 >= 2 // load through proto.Unmarshal(buf, st): Reset() first, then st.Unmarshal
	done := make(chan struct{})
	go func() {
		defer close(done)
		defer func() {
			if r := recover(); r != nil {
				err = fmt.Errorf("PANIC: %v", r)
			}
		}()
		buf, err = st.Marshal()
		if err != nil {
			return
		}
		st2, err = trie.NewSlimTrie(spec.Enc, nil, nil)
		if err != nil {
			return
		}
		if prev := reloadPrev[spec.Name]; used && prev != nil {
			if theCtx != nil {
				short := func(b []byte) string {
					if len(b) > 3000 {
						return fmt.Sprintf("%s..(%d bytes)", hx(b[:64]), len(b))
					}
					return hx(b)
				}
				theCtx.InFlight(map[string]string{"what": "the process died (or hung until killed) while one instance loaded two streams in a row: st.Unmarshal(first); reads; st.Unmarshal(second)",
					"encoder": spec.Name, "first_stream": short(prev), "second_stream": short(buf)})
			}
			if st2.Unmarshal(prev) == nil {
				touchAll(st2)
			}
		}
		if viaProto {
			// the other public way in and out: SlimTrie is a proto.Message
			if pb, perr := proto.Marshal(st); perr != nil || !bytes.Equal(pb, buf) {
				err = fmt.Errorf("proto.Marshal(st) differs from st.Marshal() (%v)", perr)
				return
			}
			err = proto.Unmarshal(buf, st2)
		} else {
			err = st2.Unmarshal(buf)
		}
		if theCtx != nil {
			theCtx.Landed()
		}
	}()
	select {
	case <-done:
	case <-time.After(60 * time.Second):
		if used {
			reloadUsedHung = true // reported once by the caller; do not wait a minute on every later case
		}
		if theCtx != nil {
			// the runaway goroutine cannot be stopped and may allocate without bound: record the
			// finding with its input, write the evidence and leave
			short := func(b []byte) string {
				if len(b) > 3000 {
					return fmt.Sprintf("%s..(%d bytes)", hx(b[:64]), len(b))
				}
				return hx(b)
			}
			theCtx.Or.Violate(theCtx.PID+":load-does-not-return", fmt.Sprintf("%s: Marshal/Unmarshal did not return within 60 s (loading into an instance already in use: %v, through proto.Unmarshal: %v)", theCtx.PID, used, viaProto),
				map[string]string{"encoder": spec.Name, "first_stream": short(reloadPrev[spec.Name]), "second_stream": short(buf)})
			theCtx.Close()
			fmt.Printf("%s: evaluations=%d violations=%d (stopped at a load that does not return)\n", theCtx.PID, theCtx.Or.Evaluations, len(theCtx.Or.Violations))
			os.Exit(0)
		}
		return nil, buf, fmt.Errorf("TIMEOUT: Marshal/Unmarshal (into a used instance: %v) did not return", used)
	}
	if err == nil && buf != nil {
		reloadPrev[spec.Name] = buf
	}
	return st2, buf, err
}

// ---- oracles --------------------------------------------------------------

type caseReplay struct {
	Property string   `json:"property"`
	Opt      string   `json:"opt_dedup_inner_leaf_complete"`
	Enc      string   `json:"encoder"`
	Keys     []string `json:"keys_hex"`
	Vals     []string `json:"values_hex"`
	Query    string   `json:"query_hex,omitempty"`
	Loaded   bool     `json:"loaded"`
	Got      string   `json:"got"`
	Want     string   `json:"want"`
}

func (c *TrieCase) replay(pid, q string, loaded bool, got, want string) caseReplay {
	_, bs, _ := c.Values()
	r := caseReplay{Property: pid, Opt: optc(c.Opt[0]) + optc(c.Opt[1]) + optc(c.Opt[2]) + optc(c.Opt[3]), Enc: c.Enc, Query: hxs(q), Loaded: loaded, Got: got, Want: want}
	for i, k := range c.Keys {
		r.Keys = append(r.Keys, hxs(k))
		if bs != nil {
			r.Vals = append(r.Vals, hx(bs[i]))
		}
	}
	return r
}

type finding struct {
	key, what, q, got, want string
}

// checkPoint checks one query result against the property pid. ids maps
// retained position -> leaf id as reported by GetID on the retained key (used
// to identify neighbours when there are no values).
func checkPoint(pid string, c *TrieCase, ref *Ref, complete bool, q string, r QRes, idOf func(j int) int32) *finding {
	fail := func(key, got, want string) *finding {
		return &finding{key: pid + ":" + key, what: fmt.Sprintf("%s: %s on query %s: got %s, want %s", pid, key, hxs(q), got, want), q: q, got: got, want: want}
	}
	j := ref.find(q)
	switch pid {
	case "C01":
		if j < 0 {
			return nil
		}
		if r.Panic != "" {
			return fail("panic-on-retained-key", "PANIC "+r.Panic, "value")
		}
		if r.ID < 0 {
			return fail("getid-miss", fmt.Sprint(r.ID), ">=0")
		}
		if want := "F:" + ref.val(ref.Retained[j]); r.Get != want {
			return fail("get-wrong", r.Get, want)
		}
	case "C02":
		// every indexed key, retained or not
		i := sort.SearchStrings(ref.Keys, q)
		if i >= len(ref.Keys) || ref.Keys[i] != q {
			return nil
		}
		if want := "F:" + ref.val(i); r.Range != want {
			return fail("rangeget-wrong", r.Range, want)
		}
	case "C09":
		if j < 0 {
			return nil
		}
		want := [3]string{"-", ref.val(ref.Retained[j]), "-"}
		wid := [3]int32{-1, idOf(j), -1}
		if j > 0 {
			want[0] = ref.val(ref.Retained[j-1])
			wid[0] = idOf(j - 1)
		}
		if j+1 < len(ref.Retained) {
			want[2] = ref.val(ref.Retained[j+1])
			wid[2] = idOf(j + 1)
		}
		if ref.Vals == nil || ref.allEmpty {
			want = [3]string{"-", "-", "-"}
		}
		got := fmt.Sprintf("%s %s %s ids %d %d %d", r.SL, r.SE, r.SR, r.IL, r.IE, r.IR)
		w := fmt.Sprintf("%s %s %s ids %d %d %d", want[0], want[1], want[2], wid[0], wid[1], wid[2])
		if got != w {
			return fail("search-neighbours", got, w)
		}
	case "C03":
		if !complete {
			return nil
		}
		if r.Panic != "" {
			return fail("panic", "PANIC "+r.Panic, "answer")
		}
		// Get / GetID
		if j >= 0 {
			if want := "F:" + ref.val(ref.Retained[j]); r.Get != want || r.ID != idOf(j) {
				return fail("get-retained", fmt.Sprintf("%s id %d", r.Get, r.ID), fmt.Sprintf("%s id %d", want, idOf(j)))
			}
		} else if r.Get != "N" || r.ID != -1 {
			return fail("false-positive", fmt.Sprintf("%s id %d", r.Get, r.ID), "N id -1")
		}
		// RangeGet = floor
		f := ref.floorIdx(q, false)
		wantR := "N"
		if f >= 0 {
			wantR = "F:" + ref.val(ref.Retained[f])
		}
		if r.Range != wantR {
			return fail("rangeget-floor", r.Range, wantR)
		}
		// Search = pred / eq / succ
		p := ref.floorIdx(q, true)
		s := f + 1
		want := [3]string{"-", "-", "-"}
		wid := [3]int32{-1, -1, -1}
		if p >= 0 {
			want[0], wid[0] = ref.val(ref.Retained[p]), idOf(p)
		}
		if j >= 0 {
			want[1], wid[1] = ref.val(ref.Retained[j]), idOf(j)
		}
		if s < len(ref.Retained) {
			want[2], wid[2] = ref.val(ref.Retained[s]), idOf(s)
		}
		if ref.Vals == nil || ref.allEmpty {
			want = [3]string{"-", "-", "-"}
		}
		got := fmt.Sprintf("%s %s %s ids %d %d %d", r.SL, r.SE, r.SR, r.IL, r.IE, r.IR)
		w := fmt.Sprintf("%s %s %s ids %d %d %d", want[0], want[1], want[2], wid[0], wid[1], wid[2])
		if got != w {
			return fail("search-exact", got, w)
		}
	case "C10":
		if r.Panic != "" {
			return fail("panic", "PANIC "+r.Panic, "an answer")
		}
		gfound := r.Get != "N"
		if gfound != (r.ID >= 0) || gfound != (r.IE >= 0) {
			return fail("found-disagree", fmt.Sprintf("Get %s GetID %d searchID.eq %d", r.Get, r.ID, r.IE), "all found or all not found")
		}
		if gfound {
			if r.ID != r.IE {
				return fail("id-disagree", fmt.Sprintf("GetID %d searchID.eq %d", r.ID, r.IE), "equal")
			}
			v := strings.TrimPrefix(r.Get, "F:")
			if ref.Vals == nil || ref.allEmpty {
				if v != "nil" {
					return fail("value-not-supplied", v, "nil")
				}
			} else {
				ok := false
				for _, i := range ref.Retained {
					if hx(ref.Vals[i]) == v {
						ok = true
						break
					}
				}
				if !ok {
					return fail("value-not-supplied", v, "one of the supplied values")
				}
				if r.SE != v {
					return fail("search-eq-value", r.SE, v)
				}
			}
			if r.Range != r.Get {
				return fail("rangeget-vs-get", r.Range, r.Get)
			}
		}
	}
	return nil
}

// oracleCase runs the property oracle for pid on a built trie.
func oracleCase(pid string, c *TrieCase, st *trie.SlimTrie, spec *EncSpec, loaded bool, res []QRes) *finding {
	ref := NewRef(c)
	_, inner, leaf := c.Norm()
	complete := inner && leaf
	ids := map[int]int32{}
	idOf := func(j int) int32 {
		if v, ok := ids[j]; ok {
			return v
		}
		id := int32(-99)
		protect(func() string { id = st.GetID(ref.Keys[ref.Retained[j]]); return "" })
		ids[j] = id
		return id
	}
	for qi, q := range c.Queries {
		if f := checkPoint(pid, c, ref, complete, q, res[qi], idOf); f != nil {
			return f
		}
	}
	return nil
}

// ---- the shared driver -----------------------------------------------------

type trieRun struct {
	pid       string
	optFilter func(o [4]int8) bool // nil: all
	encs      []string
	scale     int
	qbudget   int
	onlyKeys  bool // queries = the indexed keys only (C01, C02, C09)
}

func (t *trieRun) genCase(c *Ctx, r *RNG, id string) *TrieCase {
	for {
		tc := genTrieCase(r.Fork(), id, r.Intn(KKindCnt), r.Intn(VKindCnt), t.scale, t.qbudget)
		if t.optFilter != nil && !t.optFilter(tc.Opt) {
			// re-draw the options only
			for k := 0; k < 64 && !t.optFilter(tc.Opt); k++ {
				tc.Opt = randOpt(r)
			}
			if !t.optFilter(tc.Opt) {
				continue
			}
		}
		if r.Intn(12) == 0 {
			// directed shape: the packed label bitmaps end exactly on a word boundary with a set
			// bit (rank / leftMost / rightMost read the very last bit of Inners)
			if d := directedInnersFull(r.Fork(), id, 400); d != nil {
				vk := []int{VNil, VDistinct}[r.Intn(2)]
				tc.Keys, tc.Kind = d.Keys, d.Kind
				tc.IDs, tc.VKind = genValueIDs(r, len(d.Keys), vk), vkindNames[vk]
				tc.Queries = genQueries(r, tc.Keys, t.qbudget)
			}
		}
		if t.encs != nil {
			tc.Enc = t.encs[r.Intn(len(t.encs))]
		}
		if r.Intn(16) == 0 {
			// directed shape: more than 64 leaves whose values are all non-empty except a few among
			// the first 64 (a presence word with gaps followed by fully populated ones); needs an
			// encoder with empty encodings (RAW) and every key kept
			n := 130 + r.Intn(130)
			keys := make([]string, n)
			ids := make([]uint64, n)
			// half of the time every non-empty value has the same width (a fixed-size value array
			// with a presence bitmap but no position bitmap)
			fixed := 0
			if r.Bool() {
				fixed = 1 + r.Intn(5)
			}
			for i := range keys {
				keys[i] = fmt.Sprintf("k%03d", i)
				for {
					ids[i] = r.U64()
					if v := s16(ids[i]); v != "" && (fixed == 0 || len(v) == fixed) {
						break
					}
				}
			}
			for g := 0; g < 1+r.Intn(3); g++ {
				for {
					id := r.U64()
					if s16(id) == "" {
						ids[r.Intn(64)] = id
						break
					}
				}
			}
			tc.Keys, tc.Kind, tc.IDs, tc.VKind, tc.Enc = keys, "gaps-then-full-words", ids, "sparse-empty", "RAW"
			if tc.Opt[0] != 0 && (t.optFilter == nil || t.optFilter([4]int8{0, tc.Opt[1], tc.Opt[2], tc.Opt[3]})) {
				tc.Opt[0] = 0
			}
			tc.Queries = genQueries(r, tc.Keys, t.qbudget)
		}
		if r.Intn(16) == 1 {
			// directed: leaf / element counts right at the multiples of 32, 64 and 128 that the
			// rank and select indexes and the VLenArray bitmaps are organised in; variable-width values
			n := []int{31, 32, 33, 63, 64, 65, 95, 96, 97, 127, 128, 129, 191, 192, 193, 255, 256, 257}[r.Intn(18)]
			keys := make([]string, n)
			for i := range keys {
				keys[i] = fmt.Sprintf("%c%03d", 'a'+byte(i%3), i)
			}
			sort.Strings(keys)
			tc.Keys, tc.Kind = keys, "count-at-index-boundary"
			tc.IDs, tc.VKind = genValueIDs(r, n, VDistinct), vkindNames[VDistinct]
			if t.encs == nil {
				tc.Enc = []string{"S16", "RAW", "I32"}[r.Intn(3)]
			}
			tc.Queries = genQueries(r, tc.Keys, t.qbudget)
		}
		if r.Intn(16) == 2 {
			// directed: a 257-bit root whose labels inside the first 64-bit word (control bytes below
			// 0x10) look exactly like the label set of the many identical 17-bit nodes below it, which
			// are popular enough to get a short code
			v1 := byte(r.Intn(15))
			v2 := v1 + 1 + byte(r.Intn(int(15-v1)))
			firsts := []byte{v1, v2}
			for i := 0; i < 12+r.Intn(14); i++ {
				firsts = append(firsts, 0x40+byte(i)*3)
			}
			keys := []string{}
			for _, f := range firsts {
				keys = append(keys, string([]byte{f, v1<<4 | 1}), string([]byte{f, v2<<4 | 1}))
			}
			sort.Strings(keys)
			tc.Keys, tc.Kind = keys, "big-root-mimics-short-pattern"
			tc.IDs, tc.VKind = genValueIDs(r, len(keys), VDistinct), vkindNames[VDistinct]
			tc.Queries = genQueries(r, tc.Keys, t.qbudget)
		}
		if r.Intn(16) == 3 {
			// directed: a 257-bit node all of whose branch bytes share their high half-byte (the keys
			// first differ in the LOW half of a byte, and more than ten of them do)
			h := byte(r.Intn(16)) << 4
			pre := randBytes(r, r.Intn(3))
			cnt := 11 + r.Intn(6)
			perm := []int{}
			for x := 0; x < 16; x++ {
				perm = append(perm, x)
			}
			for len(perm) > cnt {
				i := r.Intn(len(perm))
				perm = append(perm[:i], perm[i+1:]...)
			}
			keys := []string{}
			for _, x := range perm {
				k := pre + string([]byte{h | byte(x)})
				if r.Intn(3) == 0 {
					k += randBytes(r, 1+r.Intn(2))
				}
				keys = append(keys, k)
			}
			sort.Strings(keys)
			tc.Keys, tc.Kind = keys, "big-node-one-high-nibble"
			tc.IDs, tc.VKind = genValueIDs(r, len(keys), VDistinct), vkindNames[VDistinct]
			tc.Queries = genQueries(r, tc.Keys, t.qbudget)
		}
		if r.Intn(16) == 4 {
			// directed: a run of equal values that starts in the middle of one group of keys with a
			// long common prefix and continues into keys that do NOT share that prefix: the dropped
			// keys at the end of the node's range leave the common prefix of the kept ones
			var keys []string
			var ids []uint64
			first := byte(0x20 + r.Intn(0x60))
			val := r.U64()
			for g := 0; g < 2+r.Intn(3); g++ {
				pre := string([]byte{first + byte(g)*5}) + randBytes(r, 2+r.Intn(4))
				n := 3 + r.Intn(6)
				brk := 1 + r.Intn(n-1)
				for j := 0; j < n; j++ {
					if j == brk {
						val = r.U64() // a new run starts inside the group and runs on into the next one
					}
					keys = append(keys, pre+fmt.Sprintf("%04d", j))
					ids = append(ids, val)
				}
			}
			tc.Keys, tc.Kind, tc.IDs, tc.VKind = keys, "run-crosses-prefix", ids, "runs"
			if tc.Opt[0] == 0 && (t.optFilter == nil || t.optFilter([4]int8{1, tc.Opt[1], tc.Opt[2], tc.Opt[3]})) {
				tc.Opt[0] = 1
			}
			tc.Queries = genQueries(r, tc.Keys, t.qbudget)
		}
		if t.onlyKeys {
			tc.Queries = append([]string{}, tc.Keys...)
		}
		return tc
	}
}

// evalCase builds, dumps, queries (fresh and loaded), runs the oracle; returns a finding or nil.
func evalCase(c *Ctx, pid string, tc *TrieCase, emit bool) *finding {
	curTrieCase = tc
	if emit {
		tc.WriteCase(c.Cases())
	}
	var w = c.Impl()
	if emit {
		fmt.Fprintf(w, "C %s\n", tc.ID)
	}
	b := tc.Build()
	if b.Err != nil {
		es := buildErrStr(b.Err, tc.Keys)
		if emit {
			fmt.Fprintf(w, "B %s\n", es)
		}
		// all generated key lists are strictly ascending and short: a build error is a violation of C08's accept clause,
		// and of every lookup property (the trie cannot answer).
		return &finding{key: pid + ":build-failed", what: fmt.Sprintf("%s: NewSlimTrie failed on a valid key list: %v", pid, b.Err), got: es, want: "a trie"}
	}
	if emit {
		fmt.Fprintf(w, "B ok\n")
		DumpView(w, b.St)
	}
	res := make([]QRes, len(tc.Queries))
	for i, q := range tc.Queries {
		res[i] = runQuery(b.St, b.Spec, q)
		if emit {
			fmt.Fprintf(w, "%s\n", res[i].Line(q))
		}
	}
	var f *finding
	if f = oracleCase(pid, tc, b.St, b.Spec, false, res); f != nil {
		return f
	}
	// loaded from bytes
	st2, _, err := reload(b.St, b.Spec)
	if emit {
		fmt.Fprintf(c.Cases(), "L %s\n", tc.ID)
		fmt.Fprintf(w, "C %s+L\n", tc.ID)
	}
	if err != nil {
		if emit {
			fmt.Fprintf(w, "B reload-failed\n")
		}
		return &finding{key: pid + ":reload-failed", what: fmt.Sprintf("%s: Marshal/Unmarshal failed: %v", pid, err), got: err.Error(), want: "a loaded trie"}
	}
	if emit {
		fmt.Fprintf(w, "B ok\n")
		DumpView(w, st2)
	}
	res2 := make([]QRes, len(tc.Queries))
	for i, q := range tc.Queries {
		res2[i] = runQuery(st2, b.Spec, q)
		if emit {
			fmt.Fprintf(w, "%s\n", res2[i].Line(q))
		}
	}
	if f = oracleCase(pid, tc, st2, b.Spec, true, res2); f != nil {
		f.key += "+loaded"
		f.what += " (on the trie loaded from its own Marshal output)"
		return f
	}
	return nil
}

// shrink deletes keys (and their values) and queries while the same finding key persists.
func shrinkCase(c *Ctx, pid string, tc *TrieCase, f *finding) (*TrieCase, *finding) {
	cur, curf := tc, f
	try := func(cand *TrieCase) bool {
		if len(cand.Keys) == 0 {
			return false
		}
		nf := evalCase(c, pid, cand, false)
		if nf != nil && nf.key == curf.key {
			cur, curf = cand, nf
			return true
		}
		return false
	}
	clone := func(t *TrieCase, drop int, n int) *TrieCase {
		nt := *t
		nt.Keys = append(append([]string{}, t.Keys[:drop]...), t.Keys[drop+n:]...)
		if t.IDs != nil {
			nt.IDs = append(append([]uint64{}, t.IDs[:drop]...), t.IDs[drop+n:]...)
		}
		if t.Queries != nil {
			nt.Queries = []string{}
			for _, q := range t.Queries {
				nt.Queries = append(nt.Queries, q)
			}
		}
		return &nt
	}
	budget := 400
	for chunk := len(cur.Keys) / 2; chunk >= 1 && budget > 0; chunk /= 2 {
		for i := 0; i+chunk <= len(cur.Keys) && budget > 0; {
			budget--
			if !try(clone(cur, i, chunk)) {
				i += chunk
			}
		}
	}
	if curf.q != "" || len(cur.Queries) > 1 {
		nt := *cur
		nt.Queries = []string{curf.q}
		try(&nt)
	}
	return cur, curf
}

func runTrieProp(c *Ctx, t *trieRun, n int) {
	c.Or.Rule = "cases: one PRNG stream from VERIF_SEED; key-set kinds " + strings.Join(kindNames, "/") + " x value layouts " + strings.Join(vkindNames, "/") +
		" x 16 option combos (+ raw nil options) x 12 encoders; a case = (options, encoder, keys, values, queries); non-trivial = at least 2 keys (the trie has an inner node); distinct = distinct canonical case text"
	reported := map[string]bool{}
	for i := 0; i < n; i++ {
		tc := t.genCase(c, c.R, fmt.Sprintf("%s_%d", strings.ToLower(t.pid), i))
		canon := fmt.Sprint(tc.Opt, tc.Enc, tc.Keys, tc.IDs, tc.Queries)
		c.Or.Case(canon, len(tc.Keys) >= 2)
		c.Or.Count("kind:" + tc.Kind)
		c.Or.Count("values:" + tc.VKind)
		c.Or.Count("opt:" + optc(tc.Opt[0]) + optc(tc.Opt[1]) + optc(tc.Opt[2]) + optc(tc.Opt[3]))
		c.Or.Count("enc:" + tc.Enc)
		c.Or.Count(fmt.Sprintf("keys:%s", bucket(len(tc.Keys))))
		c.Or.Add("queries", len(tc.Queries)*2)
		if i < 2 {
			c.Or.Sample(tc.replay(t.pid, "", false, "", ""))
		}
		f := evalCase(c, t.pid, tc, true)
		if f != nil && !reported[f.key] {
			reported[f.key] = true
			stc, sf := shrinkCase(c, t.pid, tc, f)
			c.Or.Violate(sf.key, sf.what, stc.replay(t.pid, sf.q, strings.HasSuffix(sf.key, "+loaded"), sf.got, sf.want))
		}
	}
}

// runExhaustive enumerates EVERY key set of 1..maxKeys keys over the universe of all
// strings of length <= maxLen over alpha, with every string of the universe (plus a few
// longer ones) as query. Every emitEvery-th case is also given to the model.
func runExhaustive(c *Ctx, t *trieRun, alpha []byte, maxLen, maxKeys, emitEvery int) {
	univ := []string{""}
	for l, prev := 1, []string{""}; l <= maxLen; l++ {
		next := []string{}
		for _, p := range prev {
			for _, a := range alpha {
				next = append(next, p+string([]byte{a}))
			}
		}
		univ = append(univ, next...)
		prev = next
	}
	sort.Strings(univ)
	queries := append([]string{}, univ...)
	queries = append(queries, univ[len(univ)-1]+"\x00", univ[len(univ)-1]+"\xff", strings.Repeat(string(alpha[:1]), maxLen+2))
	reported := map[string]bool{}
	n := 0
	var rec func(start int, cur []string)
	rec = func(start int, cur []string) {
		if len(cur) > 0 {
			r := c.R.Fork()
			tc := &TrieCase{ID: fmt.Sprintf("%s_x%d", strings.ToLower(t.pid), n), Kind: "exhaustive", Keys: append([]string{}, cur...), Queries: queries}
			tc.Opt = randOpt(r)
			for k := 0; t.optFilter != nil && k < 64 && !t.optFilter(tc.Opt); k++ {
				tc.Opt = randOpt(r)
			}
			vk := r.Intn(VKindCnt)
			tc.VKind = vkindNames[vk]
			tc.IDs = genValueIDs(r, len(cur), vk)
			tc.Enc = []string{"I8", "U16", "S16", "RAW"}[r.Intn(4)]
			c.Or.Case(fmt.Sprint(tc.Opt, tc.Enc, tc.Keys, tc.IDs), len(cur) >= 2)
			c.Or.Count("kind:exhaustive")
			c.Or.Add("queries", len(queries)*2)
			f := evalCase(c, t.pid, tc, n%emitEvery == 0)
			if f != nil && !reported[f.key] {
				reported[f.key] = true
				stc, sf := shrinkCase(c, t.pid, tc, f)
				c.Or.Violate(sf.key, sf.what, stc.replay(t.pid, sf.q, strings.HasSuffix(sf.key, "+loaded"), sf.got, sf.want))
			}
			n++
		}
		if len(cur) == maxKeys {
			return
		}
		for i := start; i < len(univ); i++ {
			rec(i+1, append(cur, univ[i]))
		}
	}
	rec(0, nil)
	c.Or.Extra["exhaustive_universe"] = map[string]interface{}{"alphabet_hex": hx(alpha), "max_len": maxLen, "max_keys": maxKeys, "universe": len(univ), "key_sets": n, "queries_per_set": len(queries), "complete": true}
}

func bucket(n int) string {
	switch {
	case n <= 1:
		return "1"
	case n <= 4:
		return "2-4"
	case n <= 16:
		return "5-16"
	case n <= 64:
		return "17-64"
	case n <= 256:
		return "65-256"
	case n <= 1024:
		return "257-1024"
	}
	return ">1024"
}

func isComplete(o [4]int8) bool { return o[3] == 1 || (o[1] == 1 && o[2] == 1) }

func init() {
	register("C01", func(c *Ctx) {
		runTrieProp(c, &trieRun{pid: "C01", scale: 2, qbudget: 30}, c.N(500, 6000))
	})
	register("C02", func(c *Ctx) {
		runTrieProp(c, &trieRun{pid: "C02", scale: 2, qbudget: 30}, c.N(500, 6000))
	})
	register("C03", func(c *Ctx) {
		t := &trieRun{pid: "C03", scale: 1, qbudget: 120, optFilter: isComplete}
		runTrieProp(c, t, c.N(400, 5000))
		// every key set over a small nibble-diverse universe, every string of the universe as query
		if c.Thorough() {
			runExhaustive(c, t, []byte{0x00, 0x0f, 0x10, 0xff}, 2, 4, 40) // universe 21, 7546 key sets
			runExhaustive(c, t, []byte{0x01, 0x80, 0xf0}, 3, 3, 40)       // universe 40, 10700 key sets
		} else {
			runExhaustive(c, t, []byte{0x00, 0x0f, 0xf0}, 2, 3, 6) // universe 13, 377 key sets
		}
	})
	register("C09", func(c *Ctx) {
		runTrieProp(c, &trieRun{pid: "C09", scale: 2, qbudget: 30}, c.N(500, 6000))
	})
	register("C10", func(c *Ctx) {
		t := &trieRun{pid: "C10", scale: 1, qbudget: 120}
		runTrieProp(c, t, c.N(400, 5000))
		if c.Thorough() {
			runExhaustive(c, t, []byte{0x00, 0x0f, 0x10, 0xff}, 2, 4, 40)
		} else {
			runExhaustive(c, t, []byte{0x00, 0x7f, 0xff}, 2, 3, 6)
		}
	})
}
