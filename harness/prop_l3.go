package main

// L3: the bit-level layer between the decoded node view and the protobuf
// message (not a property of properties.jsonl; referenced from the evidence of
// the trie properties).
//
// For every generated trie the harness
//   (a) writes the case (T/K/E) for the extracted Coq model, whose
//       Bits.encode_trie must reproduce EVERY field of the real message
//       (st.VerifInner(): scalars, bitmap words, rank/select indexes, bytes;
//       nil vs non-nil sub-messages), fresh and after Marshal/Unmarshal;
//   (b) writes the REAL message fields as a decoder case (M ... EM): the
//       extracted Bits.get_view / ith_leaf_bytes run on the real words must
//       reproduce the node view the implementation's own getNode yields
//       (DumpView through the hook VerifDump);
//   (c) function level: bitmap.Of/OfMany/IndexRank64/IndexRank128/Rank64/Rank128/
//       IndexSelect32R64/Select32R64/ToArray/Slice, bitstr.New/Len,
//       bmtree.PathToIndex/Decode against the word-level definitions of
//       BitmapRank.v / BitmapRank2.v / Bits.v on random and boundary inputs;
//   (d) oracle (plain references, never the Coq model): naive bit counting for
//       rank/select; every retained key is found with its supplied value through
//       the real decoder; the decoder does not panic.

import (
	"bufio"
	"fmt"
	"math/bits"
	"strings"

	"github.com/openacid/low/bitmap"
	"github.com/openacid/low/bitstr"
	"github.com/openacid/low/bmtree"
	"github.com/openacid/slim/trie"
)

func l3Words(ws []uint64) string {
	if len(ws) == 0 {
		return "-"
	}
	ss := make([]string, len(ws))
	for i, w := range ws {
		ss[i] = fmt.Sprintf("%x", w)
	}
	return strings.Join(ss, ",")
}

func l3I32(xs []int32) string {
	if len(xs) == 0 {
		return "-"
	}
	ss := make([]string, len(xs))
	for i, x := range xs {
		ss[i] = fmt.Sprint(x)
	}
	return strings.Join(ss, ",")
}

func l3U32(xs []uint32) string {
	if len(xs) == 0 {
		return "-"
	}
	ss := make([]string, len(xs))
	for i, x := range xs {
		ss[i] = fmt.Sprint(x)
	}
	return strings.Join(ss, ",")
}

func l3BM(w *bufio.Writer, name string, b *trie.Bitmap) {
	if b == nil {
		fmt.Fprintf(w, "BM %s nil\n", name)
		return
	}
	fmt.Fprintf(w, "BM %s W %s R %s S %s\n", name, l3Words(b.Words), l3I32(b.RankIndex), l3I32(b.SelectIndex))
}

func l3VL(w *bufio.Writer, name string, v *trie.VLenArray) {
	if v == nil {
		fmt.Fprintf(w, "VL %s nil\n", name)
		return
	}
	fmt.Fprintf(w, "VL %s %d %d %d %s\n", name, v.N, v.EltCnt, v.FixedSize, hx(v.Bytes))
	l3BM(w, name+".presence", v.PresenceBM)
	l3BM(w, name+".position", v.PositionBM)
}

// l3DumpMsg prints every field of the message.
func l3DumpMsg(w *bufio.Writer, ns *trie.Slim) {
	fmt.Fprintf(w, "S %d %d\n", ns.BigInnerCnt, ns.ShortSize)
	fmt.Fprintf(w, "ST %s\n", l3U32(ns.ShortTable))
	l3BM(w, "nodetype", ns.NodeTypeBM)
	l3BM(w, "inners", ns.Inners)
	l3BM(w, "shortbm", ns.ShortBM)
	l3VL(w, "innerpfx", ns.InnerPrefixes)
	l3VL(w, "leafpfx", ns.LeafPrefixes)
	l3VL(w, "leaves", ns.Leaves)
}

func l3DumpMsgStr(ns *trie.Slim) string {
	var sb strings.Builder
	w := bufio.NewWriter(&sb)
	s, _ := protect(func() string { l3DumpMsg(w, ns); return "" })
	w.Flush()
	if s == "PANIC" {
		return "MSG PANIC\n"
	}
	return sb.String()
}

// facts about the label bitmaps used to select and count cases
type l3Shape struct {
	nodes, inner, big, short int
	straddle                 int  // short nodes crossing a 64-bit word boundary
	shortEndsOnWord          int  // short nodes ending exactly on a word boundary
	lastShortEndsBitmap      bool // ... and it is the last bit of Inners.Words
	panicked                 bool
}

func l3ShapeOf(st *trie.SlimTrie) l3Shape {
	var sh l3Shape
	s, _ := protect(func() string {
		ns := st.VerifInner()
		nodes := st.VerifDump()
		sh.nodes = len(nodes)
		for _, n := range nodes {
			if !n.IsInner {
				continue
			}
			sh.inner++
			if n.WordSize == 8 {
				sh.big++
			}
			if n.IsShort {
				sh.short++
				if n.From>>6 != (n.To-1)>>6 {
					sh.straddle++
				}
				if n.To&63 == 0 {
					sh.shortEndsOnWord++
					if int(n.To>>6) == len(ns.Inners.Words) {
						sh.lastShortEndsBitmap = true
					}
				}
			}
		}
		return ""
	})
	if s == "PANIC" {
		sh.panicked = true
	}
	return sh
}

type l3Replay struct {
	What string   `json:"what"`
	Opt  string   `json:"opt_dedup_inner_leaf_complete"`
	Enc  string   `json:"encoder"`
	Keys []string `json:"keys_hex"`
	Vals []string `json:"values_hex"`
	Got  string   `json:"got"`
	Want string   `json:"want"`
}

func l3ReplayOf(c *TrieCase, what, got, want string) l3Replay {
	_, bs, _ := c.Values()
	r := l3Replay{What: what, Opt: optc(c.Opt[0]) + optc(c.Opt[1]) + optc(c.Opt[2]) + optc(c.Opt[3]), Enc: c.Enc, Got: got, Want: want}
	n := len(c.Keys)
	if n > 64 {
		n = 64
	}
	for i := 0; i < n; i++ {
		r.Keys = append(r.Keys, hxs(c.Keys[i]))
		if bs != nil {
			r.Vals = append(r.Vals, hx(bs[i]))
		}
	}
	return r
}

// one trie case: encoder fields (fresh + reloaded), decoder on the real fields
func l3TrieCase(c *Ctx, tc *TrieCase) {
	tc.Queries = nil
	cw, iw := c.Cases(), c.Impl()
	b := tc.Build()
	tc.WriteCase(cw)
	fmt.Fprintf(iw, "C %s\n", tc.ID)
	c.Or.Count("kind:" + tc.Kind)
	c.Or.Count("values:" + tc.VKind)
	c.Or.Count("enc:" + tc.Enc)
	if b.Err != nil {
		fmt.Fprintf(iw, "B %s\n", buildErrStr(b.Err, tc.Keys))
		c.Or.Count("build:" + buildErrStr(b.Err, tc.Keys))
		c.Or.Case(tc.ID, false)
		return
	}
	st := b.St
	ns := st.VerifInner()
	fmt.Fprintf(iw, "B ok\nWF 1\n")
	iw.WriteString(l3DumpMsgStr(ns))
	iw.WriteString(l3MarshalLine(st))

	sh := l3ShapeOf(st)
	if sh.big > 0 {
		c.Or.Count("shape:has-big-nodes")
	}
	if sh.short > 0 {
		c.Or.Count("shape:has-short-nodes")
		c.Or.Count(fmt.Sprintf("shortsize:%d", ns.ShortSize))
	}
	if sh.straddle > 0 {
		c.Or.Count("shape:short-node-straddles-word")
	}
	if sh.shortEndsOnWord > 0 {
		c.Or.Count("shape:short-node-ends-on-word-boundary")
	}
	if sh.lastShortEndsBitmap {
		c.Or.Count("shape:short-node-ends-the-bitmap-on-word-boundary")
	}
	if ns.Leaves != nil {
		if ns.Leaves.PositionBM != nil {
			c.Or.Count("leaves:variable-width")
		} else {
			c.Or.Count("leaves:fixed-width")
		}
		if ns.Leaves.EltCnt < ns.Leaves.N {
			c.Or.Count("leaves:with-empty-elements")
		}
	} else {
		c.Or.Count("leaves:nil")
	}
	if ns.InnerPrefixes != nil && ns.InnerPrefixes.PositionBM != nil {
		c.Or.Count("innerprefix:stored")
	} else {
		c.Or.Count("innerprefix:step-only")
	}
	if ns.LeafPrefixes != nil {
		c.Or.Count("leafprefix:stored")
	}
	c.Or.Add("nodes", sh.nodes)

	// decoder case on the real fields
	l3DecoderCase(c, tc.ID+".dec", st, tc, b.Spec)

	// reloaded
	st2, _, err := reload(st, b.Spec)
	if err != nil {
		fmt.Fprintf(cw, "L %s\n", tc.ID)
		fmt.Fprintf(iw, "C %s+L\nRELOAD %s\n", tc.ID, buildErrStr(err, nil))
	} else {
		fmt.Fprintf(cw, "L %s\n", tc.ID)
		fmt.Fprintf(iw, "C %s+L\nB ok\nWF 1\n", tc.ID)
		iw.WriteString(l3DumpMsgStr(st2.VerifInner()))
		iw.WriteString(l3MarshalLine(st2))
		l3DecoderCase(c, tc.ID+"+L.dec", st2, tc, b.Spec)
	}

	// oracle: plain reference
	ref := NewRef(tc)
	nontrivial := sh.inner > 0
	c.Or.Case(tc.ID+"|"+strings.Join(tc.Keys, "\x00")+fmt.Sprint(tc.Opt, tc.Enc, tc.IDs), nontrivial)
	if sh.panicked {
		c.Or.Violate("L3:decoder-panic", "decoding every node through getNode panicked", l3ReplayOf(tc, "VerifDump", "PANIC", "node view"))
	}
	for _, stx := range []*trie.SlimTrie{st, st2} {
		if stx == nil {
			continue
		}
		for _, i := range ref.Retained {
			k := tc.Keys[i]
			got, p := protect(func() string { v, f := stx.Get(k); return foundStr(b.Spec, v, f) })
			want := "F:" + ref.val(i)
			if got != want {
				c.Or.Violate("L3:retained-key-value", fmt.Sprintf("Get(%s) = %s %s, want %s", hxs(k), got, p, want), l3ReplayOf(tc, "Get "+hxs(k), got, want))
				break
			}
		}
	}
	if len(c.Or.Samples) < 3 && sh.short > 0 {
		c.Or.Sample(map[string]interface{}{"case": tc.ID, "kind": tc.Kind, "keys": len(tc.Keys), "nodes": sh.nodes, "short_nodes": sh.short, "short_size": ns.ShortSize, "big_nodes": sh.big})
	}
}

// the bytes Marshal() writes: the model must produce them from ITS OWN message
// (Wire.marshal_gen (EndToEnd.to_wire (Bits.encode_trie (Model.build ...)))) - the
// composition the end-to-end theorem C05_loaded_trie_answers is about.
func l3MarshalLine(st *trie.SlimTrie) string {
	s, p := protect(func() string {
		b, err := st.Marshal()
		if err != nil {
			return "MB ERR " + err.Error() + "\n"
		}
		return "MB " + hx(b) + "\n"
	})
	if p != "" {
		return "MB PANIC\n"
	}
	return s
}

func l3DecoderCase(c *Ctx, id string, st *trie.SlimTrie, tc *TrieCase, spec *EncSpec) {
	cw, iw := c.Cases(), c.Impl()
	fmt.Fprintf(cw, "M %s\n", id)
	cw.WriteString(l3DumpMsgStr(st.VerifInner()))
	fmt.Fprintf(cw, "EM\n")
	fmt.Fprintf(iw, "C %s\n", id)
	DumpView(iw, st)
	// GetID / Get / searchID recomputed by the model FROM THE REAL MESSAGE FIELDS (Msg.mgetid / mget / msearchid,
	// proved equal to the tree model's answers in MsgProofs.v) against the implementation's own.
	if tc == nil {
		return
	}
	qr := c.R.Fork()
	qs := genQueries(qr, tc.Keys, len(tc.Keys)+24)
	if len(qs) > 72 {
		// a sample: the mutated queries (at the end) and a random subset of the keys
		keep := append([]string{}, qs[len(qs)-24:]...)
		for i := 0; i < 48; i++ {
			keep = append(keep, qs[qr.Intn(len(qs)-24)])
		}
		qs = keep
	}
	for _, q := range qs {
		fmt.Fprintf(cw, "MQ %s\n", hxs(q))
		qq := q
		WatchStart("GetID/Get/searchID/Search/RangeGet on query "+hxs(q), func() interface{} { return l3ReplayOf(tc, "query "+hxs(qq), "no return", "an answer") })
		s, p := protect(func() string {
			v, f := st.Get(q)
			l, e, r := st.VerifSearchID(q)
			lv, ev, rv := st.Search(q)
			gv, gf := st.RangeGet(q)
			return fmt.Sprintf("%d %s S %d %d %d V %s %s %s R %s", st.GetID(q), foundStr(spec, v, f), l, e, r,
				ovStr(spec, lv), ovStr(spec, ev), ovStr(spec, rv), foundStr(spec, gv, gf))
		})
		WatchEnd()
		if p != "" {
			s = "PANIC"
			// totality of the lookups (C10): no query may panic on a built or reloaded trie
			c.Or.Violate("L3:query-panic", fmt.Sprintf("GetID/Get/searchID/Search/RangeGet(%s) panicked: %s", hxs(q), p), l3ReplayOf(tc, "query "+hxs(q), "PANIC", "an answer"))
		}
		fmt.Fprintf(iw, "q %s G %s\n", hxs(q), s)
		c.Or.Count("message-level GetID/Get queries")
		c14mL3Query(c, st, tc, q) // C14: GetI<N> recomputed by the model from the same message fields (MI line)
	}
	// C04m: NewIter / ScanFrom / ScanFromTo recomputed by the model from the same message fields (MS lines, prop_c04m.go)
	c04mL3Hook(c, st, tc)
	// C18/C19: initLevels / Stat / String recomputed by the model from the same message fields (MT line)
	c18mL3Hook(c, st, tc)
}

// ---- function level ---------------------------------------------------------

func l3RandWords(r *RNG, n int) []uint64 {
	ws := make([]uint64, n)
	for i := range ws {
		switch r.Intn(8) {
		case 0:
			ws[i] = 0
		case 1:
			ws[i] = ^uint64(0)
		case 2:
			ws[i] = 1 << uint(r.Intn(64))
		case 3:
			ws[i] = 1<<63 | 1
		case 4:
			ws[i] = r.U64() & r.U64() & r.U64()
		default:
			ws[i] = r.U64()
		}
	}
	return ws
}

func l3Get(ws []uint64, i int) bool { return ws[i>>6]>>(uint(i)&63)&1 == 1 }

func l3FnCases(c *Ctx) {
	cw, iw := c.Cases(), c.Impl()
	r := c.R.Fork()
	fnViolate := func(key, what string, ws []uint64, got, want string) {
		c.Or.Violate(key, what, map[string]interface{}{"words_hex": l3Words(ws), "got": got, "want": want})
	}

	// rank64 / rank128 / select32r64 / toarray on word lists of length 0..6
	nw := c.N(160, 1500)
	for k := 0; k < nw; k++ {
		n := k % 7
		if k >= 70 {
			n = r.Intn(9)
		}
		ws := l3RandWords(r, n)
		id := fmt.Sprintf("fw%d", k)
		total := 64 * n
		// probe positions: every boundary and a few random ones
		probes := []int{}
		for _, p := range []int{0, 1, 31, 32, 62, 63, 64, 65, 126, 127, 128, 129, 191, 192, 255, 256, total - 1, total, total + 1, total + 63, total + 64, total + 128} {
			if p >= 0 {
				probes = append(probes, p)
			}
		}
		for j := 0; j < 6; j++ {
			probes = append(probes, r.Intn(total+65))
		}
		fmt.Fprintf(cw, "F %s words %s P %s\n", id, l3Words(ws), strings.Trim(strings.Join(strings.Fields(fmt.Sprint(probes)), ","), "[]"))
		fmt.Fprintf(iw, "C %s\n", id)
		c.Or.Count("fn:words")
		c.Or.Case("words|"+l3Words(ws), n > 0)
		r64 := bitmap.IndexRank64(ws)
		r64t := bitmap.IndexRank64(ws, true)
		r128 := bitmap.IndexRank128(ws)
		sidx, sr := bitmap.IndexSelect32R64(ws)
		fmt.Fprintf(iw, "r64 %s\nr64t %s\nr128 %s\ns32 %s\ns32r %s\n", l3I32(r64), l3I32(r64t), l3I32(r128), l3I32(sidx), l3I32(sr))
		fmt.Fprintf(iw, "toarray %s\n", l3I32(bitmap.ToArray(ws)))
		// naive references
		prefix := make([]int, total+1)
		for i := 0; i < total; i++ {
			prefix[i+1] = prefix[i]
			if l3Get(ws, i) {
				prefix[i+1]++
			}
		}
		for _, p := range probes {
			a, _ := protect(func() string { x, y := bitmap.Rank64(ws, r64, int32(p)); return fmt.Sprintf("%d %d", x, y) })
			bb, _ := protect(func() string { x, y := bitmap.Rank128(ws, r128, int32(p)); return fmt.Sprintf("%d %d", x, y) })
			fmt.Fprintf(iw, "rank %d : %s : %s\n", p, a, bb)
			if p < total {
				bit := 0
				if l3Get(ws, p) {
					bit = 1
				}
				want := fmt.Sprintf("%d %d", prefix[p], bit)
				if a != want {
					fnViolate("L3:rank64", fmt.Sprintf("Rank64 at %d", p), ws, a, want)
				}
				if bb != want {
					fnViolate("L3:rank128", fmt.Sprintf("Rank128 at %d", p), ws, bb, want)
				}
			}
		}
		ones := prefix[total]
		pos := []int{}
		for i := 0; i < total; i++ {
			if l3Get(ws, i) {
				pos = append(pos, i)
			}
		}
		for i := 0; i < ones; i++ {
			s, _ := protect(func() string { x, y := bitmap.Select32R64(ws, sidx, sr, int32(i)); return fmt.Sprintf("%d %d", x, y) })
			fmt.Fprintf(iw, "select %d : %s\n", i, s)
			nxt := total
			if i+1 < ones {
				nxt = pos[i+1]
			}
			want := fmt.Sprintf("%d %d", pos[i], nxt)
			if s != want {
				fnViolate("L3:select32r64", fmt.Sprintf("Select32R64 of the %d-th set bit", i), ws, s, want)
			}
		}
		// one past the last set bit: the code's behaviour (panic or not) is an observable
		s, _ := protect(func() string {
			x, y := bitmap.Select32R64(ws, sidx, sr, int32(ones))
			return fmt.Sprintf("%d %d", x, y)
		})
		fmt.Fprintf(iw, "select %d : %s\n", ones, s)
		// Slice as positions
		if total > 0 {
			for j := 0; j < 3; j++ {
				from := r.Intn(total)
				to := from + r.Intn(total-from+1)
				if j == 0 {
					from, to = 0, total
				}
				sl, _ := protect(func() string { return l3I32(bitmap.ToArray(bitmap.Slice(ws, int32(from), int32(to)))) })
				fmt.Fprintf(cw, "F %s.s%d slice %s %d %d\n", id, j, l3Words(ws), from, to)
				fmt.Fprintf(iw, "C %s.s%d\nslice %s\n", id, j, sl)
			}
		}
	}

	// Of / OfMany
	no := c.N(120, 1200)
	for k := 0; k < no; k++ {
		id := fmt.Sprintf("fo%d", k)
		// Of: ascending positions (with duplicates now and then), capacity below, at and above the last
		n := r.Intn(12)
		ps := []int32{}
		p := int32(0)
		for i := 0; i < n; i++ {
			switch r.Intn(6) {
			case 0:
				// duplicate
			case 1:
				p = (p/64 + 1) * 64 // next word start
			case 2:
				p = (p/64+1)*64 - 1 // last bit of the word
			default:
				p += int32(1 + r.Intn(40))
			}
			ps = append(ps, p)
		}
		capa := int32(0)
		switch r.Intn(5) {
		case 0:
		case 1:
			capa = p + 1
		case 2:
			capa = (p/64 + 1) * 64
		case 3:
			capa = (p/64+1)*64 + 1
		default:
			capa = int32(r.Intn(300))
		}
		fmt.Fprintf(cw, "F %s of %s %d\n", id, l3I32(ps), capa)
		got, _ := protect(func() string { return l3Words(bitmap.Of(ps, capa)) })
		fmt.Fprintf(iw, "C %s\nof %s\n", id, got)
		c.Or.Count("fn:of")
		c.Or.Case("of|"+l3I32(ps)+fmt.Sprint(capa), n > 0)
		// reference
		want := func() string {
			nbits := capa
			if len(ps) > 0 && ps[len(ps)-1]+1 > nbits {
				nbits = ps[len(ps)-1] + 1
			}
			ws := make([]uint64, (nbits+63)/64)
			for _, x := range ps {
				ws[x/64] |= 1 << uint(x%64)
			}
			return l3Words(ws)
		}()
		if got != want {
			c.Or.Violate("L3:of", "bitmap.Of", map[string]interface{}{"positions": l3I32(ps), "cap": capa, "got": got, "want": want})
		}

		// OfMany: sub-bitmaps of sizes 257 / 17 / s
		id = fmt.Sprintf("fm%d", k)
		m := r.Intn(9)
		subs := [][]int32{}
		sizes := []int32{}
		parts := []string{}
		for i := 0; i < m; i++ {
			sz := []int32{257, 17, 17, int32(1 + r.Intn(10)), 64, 47}[r.Intn(6)]
			sub := []int32{}
			for b := int32(0); b < sz; b++ {
				if r.Intn(4) == 0 || (sz == 257 && r.Intn(2) == 0) {
					sub = append(sub, b)
				}
			}
			subs = append(subs, sub)
			sizes = append(sizes, sz)
			parts = append(parts, fmt.Sprintf("%d:%s", sz, l3I32(sub)))
		}
		pstr := strings.Join(parts, " ")
		fmt.Fprintf(cw, "F %s ofmany %s\n", id, pstr)
		got, _ = protect(func() string { return l3Words(bitmap.OfMany(subs, sizes)) })
		fmt.Fprintf(iw, "C %s\nofmany %s\n", id, got)
		c.Or.Count("fn:ofmany")
		c.Or.Case("ofmany|"+pstr, m > 0)
	}

	// bitstr.New / Len
	nb := c.N(150, 1500)
	for k := 0; k < nb; k++ {
		id := fmt.Sprintf("fb%d", k)
		s := randBytes(r, 1+r.Intn(12))
		fromN := r.Intn(2 * len(s))               // nibble index
		toN := fromN + 1 + r.Intn(2*len(s)-fromN) // > fromN, <= 2*len
		from, to := int32(4*fromN), int32(4*toN)
		// the nibbles of s from the byte boundary at or below from, up to to
		var nb strings.Builder
		for i := (fromN / 2) * 2; i < toN; i++ {
			x := s[i/2]
			if i%2 == 0 {
				x >>= 4
			}
			fmt.Fprintf(&nb, "%x", x&0xf)
		}
		fmt.Fprintf(cw, "F %s bitstr %s\n", id, nb.String())
		got, _ := protect(func() string {
			bs := bitstr.New(s, from, to)
			return fmt.Sprintf("%s %d", hx(bs), bitstr.Len(bs))
		})
		fmt.Fprintf(iw, "C %s\nbitstr %s\n", id, got)
		c.Or.Count("fn:bitstr")
		c.Or.Case("bitstr|"+hxs(s)+fmt.Sprint(from, to), true)
		if !strings.HasSuffix(got, fmt.Sprintf(" %d", to-(from & ^7))) {
			c.Or.Violate("L3:bitstr-len", "bitstr.Len(bitstr.New(s, from, to)) != to - (from&^7)", map[string]interface{}{"s": hxs(s), "from": from, "to": to, "got": got})
		}
	}

	// bmtree.PathToIndex on every path that occurs (empty and full length), both sizes;
	// bmtree.Decode on random label bitmaps
	for _, sz := range []int32{17, 257} {
		h := int32(4)
		if sz == 257 {
			h = 8
		}
		id := fmt.Sprintf("fp%d", sz)
		paths := []uint64{bmtree.NewPath(0, 0, h)}
		for b := uint64(0); b < 1<<uint(h); b++ {
			paths = append(paths, bmtree.NewPath(b, h, h))
		}
		ss := make([]string, len(paths))
		gs := make([]string, len(paths))
		for i, p := range paths {
			ss[i] = fmt.Sprintf("%x", p)
			gs[i], _ = protect(func() string { return fmt.Sprint(bmtree.PathToIndex(sz, p)) })
			if gs[i] != fmt.Sprint(i) {
				c.Or.Violate("L3:pathtoindex", "PathToIndex is not 0 / 1+bits", map[string]interface{}{"size": sz, "path": ss[i], "got": gs[i], "want": i})
			}
		}
		fmt.Fprintf(cw, "F %s pathidx %s\n", id, strings.Join(ss, ","))
		fmt.Fprintf(iw, "C %s\npathidx %s\n", id, strings.Join(gs, ","))
		c.Or.Count("fn:pathtoindex")
		c.Or.Case(id, true)
		nd := c.N(30, 300)
		for k := 0; k < nd; k++ {
			id := fmt.Sprintf("fd%d_%d", sz, k)
			ws := l3RandWords(r, int(sz+63)/64)
			// clear the bits at and above sz
			for i := int(sz); i < 64*len(ws); i++ {
				ws[i>>6] &^= 1 << uint(i&63)
			}
			got, _ := protect(func() string {
				ps := bmtree.Decode(sz, ws)
				out := make([]string, len(ps))
				for i, p := range ps {
					out[i] = fmt.Sprintf("%x", p)
				}
				if len(out) == 0 {
					return "-"
				}
				return strings.Join(out, ",")
			})
			fmt.Fprintf(cw, "F %s decode %d %s\n", id, sz, l3Words(ws))
			fmt.Fprintf(iw, "C %s\ndecode %s\n", id, got)
			c.Or.Count("fn:decode")
			c.Or.Case(id+l3Words(ws), true)
		}
	}
	_ = bits.OnesCount64
}

// l3ManyBitmaps builds a key set with n second-level inner nodes whose label sets are random
// subsets (size >= 2) of an alphabet of a low-nibble-distinct bytes: many distinct label
// bitmaps with substantial counts, which makes findMinShortSize choose larger tables.
func l3ManyBitmaps(r *RNG, id string, n, a int) *TrieCase {
	tc := &TrieCase{ID: id, Kind: "manybitmaps", VKind: "nil", Enc: "I32"}
	tc.Opt = randOpt(r)
	alpha := []byte{}
	for _, x := range l3Perm16(r) {
		if len(alpha) < a {
			alpha = append(alpha, 0x30|byte(x))
		}
	}
	ks := []string{}
	for i := 0; i < n; i++ {
		pre := string([]byte{byte(0x41 + i/200), byte(0x21 + i%200)})
		cnt := 0
		for _, c := range alpha {
			if r.Intn(2) == 0 {
				ks = append(ks, pre+string([]byte{c}))
				cnt++
			}
		}
		if cnt < 2 {
			ks = append(ks, pre+string([]byte{alpha[0]}), pre+string([]byte{alpha[1]}))
		}
	}
	tc.Keys = uniqSorted(ks)
	return tc
}

// l3FixedTrap crafts variable-width values (encoder RAW: the value bytes themselves) whose
// sizes, in the breadth-first leaf order in which newVLenArray sees them, are NOT all equal
// although total == lastSize * count: [1,3,2,2,..,2] with empty elements sprinkled in.
// The leaf order is taken from a value-less build of the same keys (DedupValue off, so the
// trie shape does not depend on the values).
func l3FixedTrap(r *RNG, id string, kind int) *TrieCase {
	tc := genTrieCase(r, id, kind, VNil, 1, 0)
	if len(tc.Keys) > 40 {
		tc.Keys = tc.Keys[:40]
	}
	tc.Opt[0] = 0
	tc.Enc = "RAW"
	tc.VKind = "fixedtrap"
	b := tc.Build()
	if b.Err != nil || len(tc.Keys) < 3 {
		return nil
	}
	type kv struct {
		i  int
		id int32
	}
	order := []kv{}
	for i, k := range tc.Keys {
		nid, _ := protect(func() string { return fmt.Sprint(b.St.GetID(k)) })
		var x int32
		fmt.Sscan(nid, &x)
		if x < 0 {
			return nil
		}
		order = append(order, kv{i, x})
	}
	for i := 1; i < len(order); i++ {
		for j := i; j > 0 && order[j].id < order[j-1].id; j-- {
			order[j], order[j-1] = order[j-1], order[j]
		}
	}
	n := len(order)
	empties := 0
	if n > 4 {
		empties = r.Intn(n / 3)
	}
	m := n - empties // non-empty elements, >= 3
	widths := make([]uint64, 0, n)
	widths = append(widths, 1, 3)
	for len(widths) < m {
		widths = append(widths, 2)
	}
	// empty elements anywhere but last
	for e := 0; e < empties; e++ {
		at := r.Intn(len(widths))
		widths = append(widths[:at], append([]uint64{0}, widths[at:]...)...)
	}
	tc.IDs = make([]uint64, n)
	for pos, o := range order {
		tc.IDs[o.i] = (r.U64()/6)*6 + widths[pos]
	}
	return tc
}

func l3Perm16(r *RNG) []int {
	p := make([]int, 16)
	for i := range p {
		p[i] = i
	}
	for i := 15; i > 0; i-- {
		j := r.Intn(i + 1)
		p[i], p[j] = p[j], p[i]
	}
	return p
}

func init() {
	register("L3", func(c *Ctx) {
		c.Or.Rule = "trie cases: genTrieCase over every key-set kind x value layout (random option combination and encoder per case), " +
			"plus directed searches among regular/decimal key sets for short nodes that straddle, end on, and end the bitmap on a 64-bit word boundary, " +
			"and variable-width value layouts (encoders S16/RAW, craftlen). A trie case is non-trivial when it has an inner node; distinct = distinct (keys, options, encoder, values). " +
			"Function cases: random/boundary word lists (0..8 words: zero, all-ones, single-bit, dense, sparse), probes at bits 0,1,31,32,63,64,65,127,128,129,.. and one past the end; " +
			"non-trivial when there is at least one word / position / sub-bitmap."
		r := c.R
		n := 0
		add := func(tc *TrieCase) {
			l3TrieCase(c, tc)
			n++
		}
		// every kind x value layout
		reps := c.N(1, 6)
		for rep := 0; rep < reps; rep++ {
			for kind := 0; kind < KKindCnt; kind++ {
				for vk := 0; vk < VKindCnt; vk++ {
					tc := genTrieCase(r.Fork(), fmt.Sprintf("t%d_%s_%s", rep, kindNames[kind], vkindNames[vk]), kind, vk, 1, 0)
					add(tc)
				}
			}
		}
		// all 16 boolean option combinations on one regular and one fan-out key set
		for _, kind := range []int{KDecimal, KFanout} {
			base := genTrieCase(r.Fork(), "", kind, VDistinct, 1, 0)
			for o := 0; o < 16; o++ {
				tc := *base
				tc.ID = fmt.Sprintf("o%d_%s", o, kindNames[kind])
				tc.Opt = [4]int8{int8(o & 1), int8(o >> 1 & 1), int8(o >> 2 & 1), int8(o >> 3 & 1)}
				tc.Enc = []string{"I32", "S16", "RAW", "U16"}[o%4]
				add(&tc)
			}
		}
		// variable-width / empty-element value layouts
		for i := 0; i < c.N(12, 60); i++ {
			kind := []int{KTiny, KRandBytes, KDecimal, KSharedPrefix}[i%4]
			vk := []int{VCraftLen, VDistinct, VRuns}[i%3]
			tc := genTrieCase(r.Fork(), fmt.Sprintf("v%d", i), kind, vk, 1, 0)
			tc.Enc = []string{"RAW", "S16", "RAW", "Dummy"}[i%4]
			if i%5 == 0 {
				tc.Opt[0] = 0 // keep every key: the crafted widths survive
			}
			add(tc)
		}
		// sizes that sum to lastSize*count without being equal (in breadth-first leaf order)
		for i := 0; i < c.N(8, 40); i++ {
			kind := []int{KTiny, KRandBytes, KSharedPrefix, KNibble, KChain}[i%5]
			if tc := l3FixedTrap(r.Fork(), fmt.Sprintf("ft%d", i), kind); tc != nil {
				c.Or.Count("values:fixed-size-trap")
				add(tc)
			}
		}
		// many distinct label bitmaps: larger short-node tables
		for i, na := range [][2]int{{150, 4}, {400, 5}, {500, 6}, {600, 7}} {
			if i >= c.N(3, 4) {
				break
			}
			add(l3ManyBitmaps(r.Fork(), fmt.Sprintf("mb%d", i), na[0], na[1]))
		}
		// directed: the label bitmaps fill their last word and end with a set bit
		for i := 0; i < c.N(10, 60); i++ {
			rr := r.Fork()
			if d := directedInnersFull(rr, fmt.Sprintf("if%d", i), 600); d != nil {
				vk := []int{VNil, VDistinct}[i%2]
				d.IDs, d.VKind = genValueIDs(rr, len(d.Keys), vk), vkindNames[vk]
				d.Enc = []string{"I32", "S16", "U64"}[i%3]
				c.Or.Count("shape:inners-end-on-set-bit")
				add(d)
			}
		}
		// directed search: short nodes at word boundaries
		want := map[string]int{"straddle": c.N(6, 30), "endsword": c.N(6, 30), "endsbitmap": c.N(6, 30)}
		tries := 0
		for i := 0; i < c.N(1500, 12000) && (want["straddle"] > 0 || want["endsword"] > 0 || want["endsbitmap"] > 0); i++ {
			kind := KDecimal
			if i%4 == 3 {
				kind = KRegular
			}
			tc := genTrieCase(r.Fork(), fmt.Sprintf("d%d", i), kind, []int{VNil, VDistinct}[i%2], 1, 0)
			if len(tc.Keys) > 700 {
				continue
			}
			tries++
			b := tc.Build()
			if b.Err != nil {
				continue
			}
			sh := l3ShapeOf(b.St)
			pick := ""
			switch {
			case (sh.lastShortEndsBitmap || sh.panicked) && want["endsbitmap"] > 0:
				pick = "endsbitmap"
			case sh.shortEndsOnWord > 0 && want["endsword"] > 0:
				pick = "endsword"
			case sh.straddle > 0 && want["straddle"] > 0:
				pick = "straddle"
			}
			if pick != "" {
				want[pick]--
				add(tc)
			}
		}
		c.Or.Extra["directed_search_candidates"] = tries
		c.Or.Extra["trie_cases"] = n
		l3FnCases(c)
	})
}

// ---- C18 / C19 over the message (MT line) -----------------------------------
// c18mL3Hook is called at the end of l3DecoderCase: after the message block just written the
// extracted StatMsg.minit_levels / mstat / mrender run on the REAL message fields; the
// implementation side is the level table the instance holds (hook VerifLevels), the Stat()
// fields and the parsed lines of String() (c19Observe / c19Obs.write of prop_c19.go).
func c18mL3Hook(c *Ctx, st *trie.SlimTrie, tc *TrieCase) {
	cw, iw := c.Cases(), c.Impl()
	fmt.Fprintf(cw, "MT\n")
	s, p := protect(func() string {
		sx := st.Stat()
		return fmt.Sprintf("t %s | %d %d %d", c18LevelsStr(st.VerifLevels()), sx.KeyCnt, sx.NodeCnt, sx.LevelCnt)
	})
	if p != "" {
		s = "t PANIC"
	}
	fmt.Fprintf(iw, "%s\n", s)
	ref := NewRef(tc)
	texts, canon := c19WantVals(tc, ref)
	c19Observe(st, texts).write(iw, canon)
	c.Or.Count("message-level Stat/String blocks")
}

// ---- C14 over the message (MI lines) ----------------------------------------
// c14mL3Query is called per query of l3DecoderCase for tries whose encoder is a fixed-width
// integer codec: the typed getter of the MATCHING width (GetI8/16/32/64 for 1/2/4/8 bytes) is
// run on the implementation and the extracted GetIntMsg.mgeti (GetID over the bitmaps,
// getLeafIndex = id - Rank64(NodeTypeBM), the slice of Leaves.Bytes read directly) on the REAL
// message fields.  With nil values (Leaves == nil) a hit is the nil-pointer panic on both sides.
func c14mL3Width(enc string) uint {
	switch enc {
	case "I8":
		return 1
	case "I16", "U16":
		return 2
	case "I32", "U32":
		return 4
	case "I64", "U64":
		return 8
	}
	return 0
}

func c14mL3Query(c *Ctx, st *trie.SlimTrie, tc *TrieCase, q string) {
	w := c14mL3Width(tc.Enc)
	if w == 0 {
		return
	}
	fmt.Fprintf(c.Cases(), "MI %d %s\n", w, hxs(q))
	s, p := protect(func() string { f, v := c14GetI(st, w, q); return c14Fmt(f, v) })
	if p != "" {
		s = "PANIC"
	}
	fmt.Fprintf(c.Impl(), "i %s W%d %s\n", hxs(q), w, s)
	c.Or.Count("message-level GetI<N> queries")
}
