package main

// C18: Stat reports the exact key count and consistent level totals.
//
// For every generated trie (all option combinations, fresh, reloaded from its
// own Marshal output, and loaded from legacy streams written by the reference
// legacy writers of c06_writers.go, plus the archived fixtures) the harness
//   (a) writes the case for the extracted Coq model (Stat.v: stat, levels,
//       levels_walk),
//   (b) writes Stat() and the hook view of st.levels as canonical observables,
//   (c) runs the property oracle, written from the property text, a plain
//       retained-key reference (NewRef) and a breadth-first walk over the
//       decoded node view - never from the Coq model.

import (
	"bufio"
	"fmt"
	"math/bits"
	"reflect"
	"strings"

	"github.com/openacid/slim/trie"
	"sort"
)

type c18Obs struct {
	Key, Node, LevelCnt int32
	Levels              [][3]int32 // Stat().Levels
	Hook                [][3]int32 // st.levels through the hook
	Panic               string
}

func c18Observe(st *trie.SlimTrie) c18Obs {
	var o c18Obs
	_, p := protect(func() string {
		s := st.Stat()
		o.Key, o.Node, o.LevelCnt = s.KeyCnt, s.NodeCnt, s.LevelCnt
		for _, l := range s.Levels {
			o.Levels = append(o.Levels, [3]int32{l.Total, l.Inner, l.Leaf})
		}
		o.Hook = st.VerifLevels()
		return ""
	})
	o.Panic = p
	return o
}

func c18LevelsStr(ls [][3]int32) string {
	if len(ls) == 0 {
		return "-"
	}
	ss := make([]string, len(ls))
	for i, l := range ls {
		ss[i] = fmt.Sprintf("%d,%d,%d", l[0], l[1], l[2])
	}
	return strings.Join(ss, " ")
}

func (o c18Obs) write(w *bufio.Writer) {
	if o.Panic != "" {
		fmt.Fprintf(w, "S PANIC\nW PANIC\n")
		return
	}
	fmt.Fprintf(w, "S %d %d %d\n", o.Key, o.Node, o.LevelCnt)
	fmt.Fprintf(w, "L %s\n", c18LevelsStr(o.Levels))
	fmt.Fprintf(w, "W %s\n", c18LevelsStr(o.Hook))
}

func (o c18Obs) String() string {
	if o.Panic != "" {
		return "PANIC " + o.Panic
	}
	return fmt.Sprintf("KeyCnt %d NodeCnt %d LevelCnt %d Levels [%s] st.levels [%s]", o.Key, o.Node, o.LevelCnt, c18LevelsStr(o.Levels), c18LevelsStr(o.Hook))
}

// c18WriteCase writes the case in the format of TrieCase.WriteCase, plus one
// "G <layout>" line per legacy stream that was loaded.
func c18WriteCase(w *bufio.Writer, tc *TrieCase, legacy []string) {
	_, bs, _ := tc.Values()
	hv := 0
	if tc.IDs != nil {
		hv = 1
	}
	fmt.Fprintf(w, "T %s %s %s %s %s %d %s\n", tc.ID, optc(tc.Opt[0]), optc(tc.Opt[1]), optc(tc.Opt[2]), optc(tc.Opt[3]), hv, tc.Enc)
	for i, k := range tc.Keys {
		v := "-"
		if bs != nil {
			v = hx(bs[i])
		}
		fmt.Fprintf(w, "K %s %s\n", hxs(k), v)
	}
	for _, g := range legacy {
		fmt.Fprintf(w, "G %s\n", g)
	}
	fmt.Fprintf(w, "E\n")
}

// c18RefLevels: cumulative (total, inner, leaf) per depth from a breadth-first
// walk over the decoded node view (child ids = first child + ordinal).
func c18RefLevels(st *trie.SlimTrie) (lv [][3]int32, inner, total int32, err string) {
	_, p := protect(func() string {
		nodes := st.VerifDump()
		total = int32(len(nodes))
		for _, n := range nodes {
			if n.IsInner {
				inner++
			}
		}
		if total == 0 {
			return ""
		}
		cur := []int32{0}
		var ct, ci int32
		seen := make([]bool, total)
		for len(cur) > 0 {
			next := []int32{}
			for _, id := range cur {
				if id < 0 || id >= total || seen[id] {
					err = fmt.Sprintf("node view is not a tree at id %d", id)
					return ""
				}
				seen[id] = true
				ct++
				n := nodes[id]
				if n.IsInner {
					ci++
					for j := range n.Labels {
						next = append(next, n.FirstChild+int32(j))
					}
				}
			}
			lv = append(lv, [3]int32{ct, ci, ct - ci})
			cur = next
		}
		if ct != total {
			err = fmt.Sprintf("breadth-first walk reached %d of %d nodes", ct, total)
		}
		return ""
	})
	if p != "" {
		err = "PANIC " + p
	}
	return
}

func c18PopCnt(ws []uint64) int32 {
	n := 0
	for _, w := range ws {
		n += bits.OnesCount64(w)
	}
	return int32(n)
}

// c18Check is the oracle for one instance. wantKeys: number of retained keys;
// nkeys: number of keys given to the builder.
func c18Check(st *trie.SlimTrie, o c18Obs, wantKeys, nkeys int, how string) *finding {
	fail := func(key, got, want string) *finding {
		return &finding{key: "C18:" + key, what: fmt.Sprintf("C18: %s (%s trie): got %s, want %s", key, how, got, want), got: got, want: want}
	}
	if o.Panic != "" {
		return fail("stat-panic", "PANIC "+o.Panic, "a report")
	}
	if int(o.Key) != wantKeys {
		return fail("keycnt", fmt.Sprint(o.Key), fmt.Sprint(wantKeys))
	}
	if nkeys == 0 && (o.Key != 0 || o.Node != 0) {
		return fail("empty-trie-report", o.String(), "(0 keys, 0 nodes)")
	}
	if nkeys == 1 && (o.Key != 1 || o.Node != 1) {
		return fail("single-key-report", o.String(), "(1 key, 1 node)")
	}
	if int(o.LevelCnt) != len(o.Levels) || len(o.Levels) == 0 {
		return fail("levelcnt", fmt.Sprint(o.LevelCnt), fmt.Sprint(len(o.Levels)))
	}
	if !reflect.DeepEqual(o.Levels, o.Hook) {
		return fail("levels-vs-table", c18LevelsStr(o.Levels), c18LevelsStr(o.Hook))
	}
	for i, l := range o.Levels {
		if l[0] != l[1]+l[2] {
			return fail("level-total", fmt.Sprintf("level %d: %d,%d,%d", i, l[0], l[1], l[2]), "total = inner + leaf")
		}
		if i > 0 {
			p := o.Levels[i-1]
			if l[0] < p[0] || l[1] < p[1] || l[2] < p[2] {
				return fail("level-decreases", c18LevelsStr(o.Levels), "non-decreasing cumulative counts")
			}
		}
	}
	last := o.Levels[len(o.Levels)-1]
	if last[0] != o.Node {
		return fail("nodecnt-vs-last-level", fmt.Sprintf("NodeCnt %d last %d,%d,%d", o.Node, last[0], last[1], last[2]), "last level total = NodeCnt")
	}
	if o.Node != last[1]+last[2] {
		return fail("nodecnt-sum", fmt.Sprint(o.Node), "inner + leaf")
	}
	if nkeys > 0 && last[2] != o.Key {
		return fail("keycnt-vs-leaves", fmt.Sprintf("KeyCnt %d leaves %d", o.Key, last[2]), "equal")
	}
	// independent node counts: the node type bitmap and the decoded node view
	ns := st.VerifInner()
	if ns.NodeTypeBM != nil {
		inner := c18PopCnt(ns.NodeTypeBM.Words)
		total := st.VerifNodeCnt()
		if last[1] != inner || last[0] != total {
			return fail("totals", fmt.Sprintf("%d,%d,%d", last[0], last[1], last[2]), fmt.Sprintf("%d,%d,%d", total, inner, total-inner))
		}
	}
	ref, _, _, e := c18RefLevels(st)
	if e != "" {
		return fail("node-view", e, "a tree")
	}
	want := append([][3]int32{{0, 0, 0}}, ref...)
	if !reflect.DeepEqual(o.Levels, want) {
		return fail("levels-vs-depth-counts", c18LevelsStr(o.Levels), c18LevelsStr(want))
	}
	return nil
}

type c18Run struct {
	legacyWritten, legacySkipped int
}

// c18Legacy writes the case in every legacy layout, loads it and returns the
// (layout, KeyCnt) pairs of the streams the old writer could express.
func c18Legacy(c *Ctx, tc *TrieCase, run *c18Run) (names []string, cnts []string, f *finding) {
	typed, bs, spec := tc.Values()
	for _, l := range c06Layouts {
		buf, err := c06Write(l, spec.Enc, tc.Keys, bs, typed)
		if err != nil {
			run.legacySkipped++
			c.Or.Count("legacy:outside-old-writer-domain")
			continue
		}
		run.legacyWritten++
		c.Or.Count("legacy:" + l.Name)
		st, err := c06Load(buf, spec.Enc)
		names = append(names, l.Name)
		if err != nil {
			cnts = append(cnts, "LOADERR")
			if f == nil {
				f = &finding{key: "C18:legacy-load-failed@" + l.Name, what: fmt.Sprintf("C18: legacy stream (%s) of %d keys does not load: %v", l.Name, len(tc.Keys), err), got: err.Error(), want: "a loaded trie"}
			}
			continue
		}
		o := c18Observe(st)
		if o.Panic != "" {
			cnts = append(cnts, "PANIC")
		} else {
			cnts = append(cnts, fmt.Sprint(o.Key))
		}
		if f == nil && (o.Panic != "" || int(o.Key) != len(tc.Keys)) {
			f = &finding{key: "C18:legacy-keycnt@" + l.Name, what: fmt.Sprintf("C18: KeyCnt after loading the legacy stream (%s) of %d keys with distinct values: %s", l.Name, len(tc.Keys), o.String()), got: o.String(), want: fmt.Sprintf("KeyCnt %d", len(tc.Keys))}
		}
	}
	return
}

// c18Eval builds, observes fresh / reloaded / legacy-loaded, runs the oracle.
func c18Eval(c *Ctx, tc *TrieCase, legacy bool, emit bool, run *c18Run) *finding {
	b := tc.Build()
	var w *bufio.Writer
	if emit {
		w = c.Impl()
	}
	if b.Err != nil {
		if emit {
			c18WriteCase(c.Cases(), tc, nil)
			fmt.Fprintf(w, "C %s\nB %s\n", tc.ID, buildErrStr(b.Err, tc.Keys))
		}
		return &finding{key: "C18:build-failed", what: fmt.Sprintf("C18: NewSlimTrie failed on a valid key list: %v", b.Err), got: b.Err.Error(), want: "a trie"}
	}
	ref := NewRef(tc)
	wantKeys := len(ref.Retained)
	o := c18Observe(b.St)
	f := c18Check(b.St, o, wantKeys, len(tc.Keys), "fresh")

	var lnames, lcnts []string
	if legacy {
		var lf *finding
		lnames, lcnts, lf = c18Legacy(c, tc, run)
		if f == nil {
			f = lf
		}
	}
	if emit {
		c18WriteCase(c.Cases(), tc, lnames)
		fmt.Fprintf(w, "C %s\nB ok\n", tc.ID)
		o.write(w)
		for i, n := range lnames {
			fmt.Fprintf(w, "G %s %s\n", n, lcnts[i])
		}
	}

	st2, _, err := reload(b.St, b.Spec)
	if emit {
		fmt.Fprintf(c.Cases(), "L %s\n", tc.ID)
		fmt.Fprintf(w, "C %s+L\n", tc.ID)
	}
	if err != nil {
		if emit {
			fmt.Fprintf(w, "B reload-failed\n")
		}
		if f == nil {
			f = &finding{key: "C18:reload-failed", what: fmt.Sprintf("C18: Marshal/Unmarshal failed: %v", err), got: err.Error(), want: "a loaded trie"}
		}
		return f
	}
	o2 := c18Observe(st2)
	if emit {
		fmt.Fprintf(w, "B ok\n")
		o2.write(w)
	}
	if f == nil {
		if f2 := c18Check(st2, o2, wantKeys, len(tc.Keys), "reloaded"); f2 != nil {
			f2.key += "+loaded"
			f = f2
		} else if !reflect.DeepEqual(o, o2) {
			f = &finding{key: "C18:changed-by-round-trip", what: "C18: Stat differs after Marshal/Unmarshal: fresh " + o.String() + "; loaded " + o2.String(), got: o2.String(), want: o.String()}
		}
	}
	return f
}

func c18Shrink(c *Ctx, tc *TrieCase, legacy bool, f *finding) (*TrieCase, *finding) {
	cur, curf := tc, f
	run := &c18Run{}
	budget := 300
	for chunk := len(cur.Keys) / 2; chunk >= 1 && budget > 0; chunk /= 2 {
		for i := 0; i+chunk <= len(cur.Keys) && budget > 0; {
			budget--
			nt := *cur
			nt.Keys = append(append([]string{}, cur.Keys[:i]...), cur.Keys[i+chunk:]...)
			if cur.IDs != nil {
				nt.IDs = append(append([]uint64{}, cur.IDs[:i]...), cur.IDs[i+chunk:]...)
			}
			nf := c18Eval(c, &nt, legacy, false, run)
			if nf != nil && nf.key == curf.key {
				cur, curf = &nt, nf
			} else {
				i += chunk
			}
		}
	}
	return cur, curf
}

func init() {
	register("C18", func(c *Ctx) {
		c.Or.Rule = "cases: one PRNG stream from VERIF_SEED; key-set kinds " + strings.Join(kindNames, "/") + " (+ the empty key list and single keys) x value layouts " +
			strings.Join(vkindNames, "/") + " x 16 option combos (+ raw nil options) x 12 encoders; every trie is checked fresh and after Marshal/Unmarshal; " +
			"every 4th case has distinct I32/U32 values and is also written in all " + fmt.Sprint(len(c06Layouts)) + " legacy layouts by the reference legacy writers and loaded (legacy:* counts); " +
			"all archived fixtures of trie/testdata are loaded and their KeyCnt compared with the size of their testkeys key set (fixture:* counts); " +
			"a case = (options, encoder, keys, values); non-trivial = at least 2 keys; distinct = distinct canonical case text"
		run := &c18Run{}
		reported := map[string]bool{}
		n := c.N(700, 8000)
		for i := 0; i < n; i++ {
			r := c.R.Fork()
			id := fmt.Sprintf("c18_%d", i)
			legacy := i%4 == 3
			scale := 2
			if i%50 == 49 {
				scale = 6 // a few larger tries (several thousand nodes)
			}
			tc := genTrieCase(r, id, r.Intn(KKindCnt), r.Intn(VKindCnt), scale, 0)
			tc.Queries = nil
			switch {
			case i == 0:
				tc.Keys, tc.Kind = []string{}, "empty"
				tc.IDs = genValueIDs(r, 0, r.Intn(VKindCnt))
			case i < 12 || i%97 == 0:
				tc.Keys, tc.Kind = []string{randBytes(r, r.Intn(4))}, "single"
				tc.IDs = genValueIDs(r, 1, r.Intn(VKindCnt))
			}
			if i%50 == 23 {
				// a very deep trie: every key is a prefix of the next, 260..420 levels
				depth := 260 + r.Intn(160)
				unit := []string{"a", "xy", "\x00"}[r.Intn(3)]
				keys := make([]string, depth)
				for j := range keys {
					keys[j] = strings.Repeat(unit, j+1)
				}
				sort.Strings(keys)
				tc.Keys, tc.Kind = keys, "deep-chain"
				tc.IDs, tc.VKind = genValueIDs(r, len(keys), VDistinct), vkindNames[VDistinct]
			}
			if i%10 == 5 {
				// the label bitmaps end exactly on a word boundary with a set bit: the
				// total node count read by initLevels depends on the last bit itself
				if d := directedInnersFull(r, id, 600); d != nil {
					vk := r.Intn(VKindCnt)
					d.IDs, d.VKind = genValueIDs(r, len(d.Keys), vk), vkindNames[vk]
					d.Enc = tc.Enc
					tc = d
				}
			}
			if legacy {
				tc.Enc = []string{"I32", "U32"}[r.Intn(2)]
				tc.IDs = c06ValueIDs(r, len(tc.Keys))
				tc.VKind = "distinct"
			}
			canon := fmt.Sprint(tc.Opt, tc.Enc, tc.Keys, tc.IDs, legacy)
			c.Or.Case(canon, len(tc.Keys) >= 2)
			c.Or.Count("kind:" + tc.Kind)
			c.Or.Count("values:" + tc.VKind)
			c.Or.Count("opt:" + optc(tc.Opt[0]) + optc(tc.Opt[1]) + optc(tc.Opt[2]) + optc(tc.Opt[3]))
			c.Or.Count("enc:" + tc.Enc)
			c.Or.Count("keys:" + bucket(len(tc.Keys)))
			if i < 3 {
				c.Or.Sample(tc.replay("C18", "", false, "", ""))
			}
			f := c18Eval(c, tc, legacy, true, run)
			if f != nil && !reported[f.key] {
				reported[f.key] = true
				stc, sf := c18Shrink(c, tc, legacy, f)
				rp := stc.replay("C18", "", strings.HasSuffix(sf.key, "+loaded"), sf.got, sf.want)
				c.Or.Violate(sf.key, sf.what, rp)
			}
		}
		// archived fixtures: KeyCnt preserved when a real legacy file is loaded
		fx, _, err := c06LoadFixtures(c.Repo)
		if err != nil {
			panic(err)
		}
		for _, fxt := range fx {
			keys := c06Keys(fxt.Set)
			c.Or.Count("fixture:" + fxt.Layout.Name)
			c.Or.Case("fixture:"+fxt.File, len(keys) >= 2)
			st, err := c06Load(fxt.Buf, specByName("I32").Enc)
			key := "C18:fixture-keycnt@" + fxt.Layout.Name
			if err != nil {
				if !reported[key] {
					reported[key] = true
					c.Or.Violate(key, fmt.Sprintf("C18: fixture %s does not load: %v", fxt.File, err), map[string]string{"fixture": fxt.File})
				}
				continue
			}
			o := c18Observe(st)
			if (o.Panic != "" || int(o.Key) != len(keys)) && !reported[key] {
				reported[key] = true
				c.Or.Violate(key, fmt.Sprintf("C18: KeyCnt of fixture %s (key set %s, %d keys): %s", fxt.File, fxt.Set, len(keys), o.String()),
					map[string]string{"fixture": fxt.File, "got": o.String(), "want": fmt.Sprintf("KeyCnt %d", len(keys))})
			}
		}
		c.Or.Extra["legacy_streams_written"] = run.legacyWritten
		c.Or.Extra["legacy_streams_outside_old_writer_domain"] = run.legacySkipped
		c.Or.Extra["fixtures_loaded"] = len(fx)
	})
}
