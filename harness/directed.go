package main

// Directed generators: key sets searched for (by building candidates and inspecting the
// message through the hook VerifInner) because random generation hits their shape too rarely.

import (
	"sort"

	"github.com/openacid/slim/trie"
)

// innersEndOnSetBit says that the packed label bitmaps fill their last 64-bit word
// completely and the very last bit (the highest label of the last inner node) is set:
// the one shape in which the second result of Rank128(Inners, lastBit) is 1.
func innersEndOnSetBit(st *trie.SlimTrie) bool {
	ns := st.VerifInner()
	if ns == nil || ns.Inners == nil || len(ns.Inners.Words) == 0 {
		return false
	}
	return ns.Inners.Words[len(ns.Inners.Words)-1]>>63 == 1
}

// directedInnersFull searches small key sets over an alphabet rich in 0xf nibbles for one
// whose trie satisfies innersEndOnSetBit; nil when none was found within the budget.
func directedInnersFull(r *RNG, id string, budget int) *TrieCase {
	alpha := []byte{0xff, 0x0f, 0xf0, 0x1f, 0xf1, 0x00, 0x7f, 0x80, 0x3f, 0xfe, 0xef}
	for t := 0; t < budget; t++ {
		n := 2 + r.Intn(60)
		set := map[string]bool{}
		for len(set) < n {
			l := 1 + r.Intn(4)
			b := make([]byte, l)
			for i := range b {
				if r.Intn(4) == 0 {
					b[i] = byte(r.Intn(256))
				} else {
					b[i] = alpha[r.Intn(len(alpha))]
				}
			}
			set[string(b)] = true
		}
		keys := make([]string, 0, n)
		for k := range set {
			keys = append(keys, k)
		}
		sort.Strings(keys)
		tc := &TrieCase{ID: id, Kind: "inners-end-on-set-bit", VKind: "nil", Enc: "I32"}
		tc.Opt = randOpt(r)
		tc.Keys = keys
		b := tc.Build()
		if b.Err == nil && innersEndOnSetBit(b.St) {
			return tc
		}
	}
	return nil
}
