package main

// C08: construction is all-or-nothing. Streams: (1) malformed lists (one or
// more order violations at any index: equal neighbours, swapped neighbours, a
// key followed by its own prefix, bytes >= 0x80) in every option combination
// and value layout, (2) valid lists, (3) lists whose single-branch runs are
// around and beyond 65535 half-bytes. The model predicts the outcome kind and
// the reported index; the oracle states the property directly.

import (
	"errors"
	"fmt"
	"strings"
	"time"

	"github.com/openacid/slim/trie"
)

// buildTimed runs NewSlimTrie with a time limit: a construction that does not
// return is the observable TIMEOUT (the goroutine is abandoned).
func (c *TrieCase) buildTimed(limit time.Duration) *Built {
	ch := make(chan *Built, 1)
	go func() { ch <- c.Build() }()
	select {
	case b := <-ch:
		return b
	case <-time.After(limit):
		return &Built{Err: fmt.Errorf("TIMEOUT")}
	}
}

func c08ErrStr(err error) string {
	if err.Error() == "TIMEOUT" {
		return "TIMEOUT"
	}
	return buildErrStr(err, nil)
}

func firstViolation(keys []string) int {
	for i := 0; i+1 < len(keys); i++ {
		if keys[i] >= keys[i+1] {
			return i
		}
	}
	return -1
}

// mutate a sorted list into an unsorted one
func c08Break(r *RNG, keys []string) ([]string, string) {
	ks := append([]string{}, keys...)
	n := len(ks)
	if n < 2 {
		ks = append(ks, ks[0])
		return ks, "dup-single"
	}
	i := r.Intn(n - 1)
	switch r.Intn(6) {
	case 0: // equal neighbours
		ks[i+1] = ks[i]
		return ks, "equal"
	case 1: // swapped neighbours
		ks[i], ks[i+1] = ks[i+1], ks[i]
		return ks, "swap"
	case 2: // a key followed by its own prefix
		if len(ks[i]) > 0 {
			ks[i+1] = ks[i][:r.Intn(len(ks[i]))]
			return ks, "own-prefix"
		}
		ks[i+1] = ks[i]
		return ks, "equal"
	case 3: // signed/unsigned confusion: 0x80.. before 0x7f..
		ks[i] = "\x80" + ks[i]
		ks[i+1] = "\x7f" + ks[i+1]
		return ks, "signed-order"
	case 4: // two violations
		ks[i], ks[i+1] = ks[i+1], ks[i]
		j := r.Intn(n - 1)
		ks[j+1] = ks[j]
		return ks, "multi"
	default: // move a far key forward
		j := r.Intn(n)
		ks[i], ks[j] = ks[j], ks[i]
		if firstViolation(ks) < 0 {
			ks[i+1] = ks[i]
		}
		return ks, "far-swap"
	}
}

func c08Eval(c *Ctx, tc *TrieCase, limit time.Duration, emit bool) *finding {
	w := c.Impl()
	if emit {
		tc.WriteCase(c.Cases())
		fmt.Fprintf(w, "C %s\n", tc.ID)
	}
	c.InFlight(tc.replayShort("C08", "the process died during NewSlimTrie", "an error or a trie"))
	b := tc.buildTimed(limit)
	c.Landed()
	viol := firstViolation(tc.Keys)
	maxLen := 0
	for _, k := range tc.Keys {
		if len(k) > maxLen {
			maxLen = len(k)
		}
	}
	if b.Err != nil {
		es := c08ErrStr(b.Err)
		if emit {
			fmt.Fprintf(w, "B %s\n", es)
		}
		if b.St != nil {
			return &finding{key: "C08:error-and-trie", what: "C08: NewSlimTrie returned both an error and a trie", got: es, want: "error and nil"}
		}
		if es == "TIMEOUT" || es == "PANIC" {
			return &finding{key: "C08:" + strings.ToLower(es), what: fmt.Sprintf("C08: NewSlimTrie did not return normally (%s) on %d keys, first order violation at %d", es, len(tc.Keys), viol), got: es, want: "an error or a trie"}
		}
		if viol >= 0 {
			if !errors.Is(b.Err, trie.ErrKeyOutOfOrder) && !strings.Contains(b.Err.Error(), trie.ErrKeyOutOfOrder.Error()) {
				return &finding{key: "C08:wrong-error-for-unsorted", what: "C08: unsorted list rejected with another error: " + b.Err.Error(), got: es, want: "err:order"}
			}
			return nil
		}
		if maxLen <= 16384 {
			return &finding{key: "C08:valid-list-rejected", what: fmt.Sprintf("C08: strictly ascending list within the documented limits rejected: %v", b.Err), got: es, want: "a trie"}
		}
		return nil // beyond the documented key length an explicit error is allowed
	}
	if emit {
		fmt.Fprintf(w, "B ok\n")
		DumpView(w, b.St)
	}
	if viol >= 0 {
		return &finding{key: "C08:unsorted-accepted", what: fmt.Sprintf("C08: key list with keys[%d] >= keys[%d] accepted without error", viol, viol+1), got: "a trie", want: fmt.Sprintf("err:order:%d", viol)}
	}
	// accepted: the lookup guarantees must hold for its own keys
	res := make([]QRes, len(tc.Queries))
	for i, q := range tc.Queries {
		res[i] = runQuery(b.St, b.Spec, q)
		if emit {
			fmt.Fprintf(w, "%s\n", res[i].Line(q))
		}
	}
	if f := oracleCase("C01", tc, b.St, b.Spec, false, res); f != nil {
		f.key = "C08:accepted-but-" + strings.TrimPrefix(f.key, "C01:")
		f.what = "C08: accepted input is mis-indexed: " + f.what
		return f
	}
	if f := oracleCase("C02", tc, b.St, b.Spec, false, res); f != nil {
		f.key = "C08:accepted-but-" + strings.TrimPrefix(f.key, "C02:")
		f.what = "C08: accepted input is mis-indexed: " + f.what
		return f
	}
	return nil
}

func c08LongRun(r *RNG, id string, runBytes int, nkeys int) *TrieCase {
	c := &TrieCase{ID: id, Kind: "longrun", VKind: "distinct"}
	c.Opt = randOpt(r)
	run := strings.Repeat(string([]byte{byte('a' + r.Intn(20))}), runBytes)
	start := byte(r.Intn(100))
	for i := 0; i < nkeys; i++ {
		c.Keys = append(c.Keys, run+string([]byte{start + byte(i)*3}))
	}
	if r.Intn(3) == 0 {
		c.Keys = append([]string{run}, c.Keys...)
	}
	c.IDs = genValueIDs(r, len(c.Keys), []int{VNil, VDistinct, VRuns}[r.Intn(3)])
	c.Enc = []string{"I32", "U16", "S16"}[r.Intn(3)]
	c.Queries = append([]string{}, c.Keys...)
	return c
}

func init() {
	register("C08", func(c *Ctx) {
		c.Or.Rule = "three streams from one PRNG: malformed key lists (a sorted generated list broken by equal/swapped neighbours, own-prefix, signed-order, multiple, far swap) x value layouts (incl. duplicate runs, nil) x option combos; valid lists; single-branch runs of 0..70000 bytes with 2..14 keys; non-trivial = at least 2 keys; distinct by canonical case text"
		reported := map[string]bool{}
		report := func(tc *TrieCase, f *finding) {
			if f != nil && !reported[f.key] {
				reported[f.key] = true
				c.Or.Violate(f.key, f.what, tc.replayShort("C08", f.got, f.want))
			}
		}
		n := c.N(500, 5000)
		for i := 0; i < n; i++ {
			r := c.R.Fork()
			tc := genTrieCase(r, fmt.Sprintf("c08_%d", i), r.Intn(KKindCnt), r.Intn(VKindCnt), 1, 0)
			tc.Queries = append([]string{}, tc.Keys...)
			kind := "valid"
			if i%3 != 0 {
				tc.Keys, kind = c08Break(r, tc.Keys)
				if tc.IDs != nil {
					// keep one value per key; duplicate the neighbour's value half of the time
					ids := genValueIDs(r, len(tc.Keys), VRuns)
					if r.Bool() && len(ids) > 1 {
						v := firstViolation(tc.Keys)
						if v >= 0 {
							ids[v+1] = ids[v]
						}
					}
					tc.IDs = ids
				}
				tc.Queries = nil
			}
			c.Or.Case(fmt.Sprint(tc.Opt, tc.Enc, tc.Keys, tc.IDs), len(tc.Keys) >= 2)
			c.Or.Count("stream:" + kind)
			c.Or.Count("opt:" + optc(tc.Opt[0]) + optc(tc.Opt[1]) + optc(tc.Opt[2]) + optc(tc.Opt[3]))
			c.Or.Count("values:" + map[bool]string{true: "nil", false: "given"}[tc.IDs == nil])
			if i < 3 {
				c.Or.Sample(tc.replayShort("C08", "", ""))
			}
			report(tc, c08Eval(c, tc, 10*time.Second, true))
		}
		// long single-branch runs around the 16-bit step (unit: half-bytes)
		lens := []int{0, 1, 127, 128, 8191, 16384, 32766, 32767, 32768, 32769, 40000, 65535, 65536}
		if c.Thorough() {
			lens = append(lens, 16383, 16385, 32765, 32770, 49152, 65534, 65537, 70000, 131072)
		}
		shapes := []int{2, 12}
		if c.Thorough() {
			shapes = []int{2, 5, 12, 14}
		}
		k := 0
		for _, L := range lens {
			for _, nk := range shapes {
				// once without inner prefixes (the step is then stored as a 16-bit length), once with random options
				for variant := 0; variant < 2; variant++ {
					r := c.R.Fork()
					tc := c08LongRun(r, fmt.Sprintf("c08_long_%d", k), L, nk)
					if variant == 0 {
						tc.Opt[1], tc.Opt[3] = 0, 0
					}
					k++
					c.Or.Case(fmt.Sprint(tc.Opt, tc.Enc, L, nk, tc.IDs), true)
					c.Or.Count("stream:longrun")
					c.Or.Count(fmt.Sprintf("runbytes:%d", L))
					report(tc, c08Eval(c, tc, 60*time.Second, true))
				}
			}
		}
	})
}

// replayShort is replay() with long keys abbreviated.
func (c *TrieCase) replayShort(pid, got, want string) caseReplay {
	r := c.replay(pid, "", false, got, want)
	for i, k := range r.Keys {
		if len(k) > 200 {
			r.Keys[i] = fmt.Sprintf("%s..(%d hex chars)..%s", k[:40], len(k), k[len(k)-16:])
		}
	}
	return r
}
