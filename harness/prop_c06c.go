package main

// C06c (sub-check of C06): the loader's conversion of a three-array legacy
// stream (0.5.0 - 0.5.9), before000510ToNewChildrenArray, is the Coq function
// LegacyConv.convert, and the reference legacy writer c06BuildOld is the Coq
// function LegacyConv.old_write.
//
// For generated key sets (the C06 generators) and for the archived three-array
// fixtures with small key sets, every three-array layout variant:
//   - the stream is written by the reference writer (fixtures: the archived file
//     itself), its three arrays are decoded from the STREAM BYTES (children
//     bitmaps, steps, leaves per old node id) and printed as lines "O ..";
//   - the stream is loaded by the real (*SlimTrie).Unmarshal and the decoded node
//     view of the loaded trie is printed (DumpView: getNode / getLeftChildID /
//     leaf values through the implementation's own accessors).
// The extracted model prints old_write keys in the same "O" format and
// convert (old_write keys) in the DumpView format; both must be identical.
// coq/props/C06c.v proves that convert (old_write keys) is the node view of
// Model.build_gen false (no dedup, no prefixes) keys vals.
//
// Oracle: the sorted-list oracle of C06 (Get / RangeGet / Search of every
// indexed key on the loaded trie).

import (
	"encoding/binary"
	"fmt"
	"math/bits"
	"strings"

	"github.com/openacid/low/bitmap"
	"github.com/openacid/slim/array"
)

type c06cOldNode struct {
	bm      string
	step    int
	leaf    string
	fc      string
	hasKid  bool
	present bool
}

func c06cBits(words []uint64) []int {
	ids := []int{}
	for w, x := range words {
		for x != 0 {
			b := bits.TrailingZeros64(x)
			ids = append(ids, w*64+b)
			x &= x - 1
		}
	}
	return ids
}

// c06cDecodeOld decodes the three arrays of a three-array stream into one line
// per old node id. The k-th set bit of an index bitmap owns the k-th element.
// valIdx maps the hex of a (distinct) value to its key index.
func c06cDecodeOld(buf []byte, valIdx map[string]int) (lines []string, err error) {
	defer func() {
		if r := recover(); r != nil {
			err = fmt.Errorf("decode panic: %v", r)
		}
	}()
	as, _, e := c06ReadArrays(buf)
	if e != nil {
		return nil, e
	}
	ch, st, lv := as[0], as[1], as[2]
	nodes := map[int]*c06cOldNode{}
	get := func(id int) *c06cOldNode {
		n := nodes[id]
		if n == nil {
			n = &c06cOldNode{bm: "-", leaf: "-", fc: "-"}
			nodes[id] = n
		}
		return n
	}
	max := -1
	next := 1
	for k, id := range c06cBits(ch.Bitmaps) {
		var bm uint64
		if ch.Flags&array.ArrayFlagIsBitmap == 0 {
			bm = uint64(binary.LittleEndian.Uint32(ch.Elts[4*k:]) & 0xffff)
		} else {
			bm = bitmap.Getw(ch.BMElts.Words, int32(k), 16)
		}
		ls := []string{}
		for b := 0; b < 16; b++ {
			if bm&(1<<uint(b)) != 0 {
				ls = append(ls, fmt.Sprint(b))
			}
		}
		n := get(id)
		if len(ls) > 0 {
			n.bm = strings.Join(ls, ",")
			n.fc = fmt.Sprint(next)
			next += len(ls)
		}
		if id > max {
			max = id
		}
	}
	for k, id := range c06cBits(st.Bitmaps) {
		get(id).step = int(binary.LittleEndian.Uint16(st.Elts[2*k:]))
		if id > max {
			max = id
		}
	}
	for k, id := range c06cBits(lv.Bitmaps) {
		v := hx(lv.Elts[4*k : 4*k+4])
		ki, ok := valIdx[v]
		if !ok {
			get(id).leaf = "?" + v
		} else {
			get(id).leaf = fmt.Sprint(ki)
		}
		if id > max {
			max = id
		}
	}
	lines = append(lines, fmt.Sprintf("W ok %d", max+1))
	for id := 0; id <= max; id++ {
		n := get(id)
		lines = append(lines, fmt.Sprintf("O %d %s %d %s %s", id, n.bm, n.step, n.leaf, n.fc))
	}
	return lines, nil
}

// c06cStructLines prints the writer's node table (c06Old) in the same format;
// it must agree with what is decoded from the stream.
func c06cStructLines(old *c06Old) []string {
	nodes := make([]c06cOldNode, old.N)
	for i := range nodes {
		nodes[i] = c06cOldNode{bm: "-", leaf: "-", fc: "-"}
	}
	for i, id := range old.InnerIdx {
		ls := []string{}
		for b := 0; b < 16; b++ {
			if old.BM[i]&(1<<uint(b)) != 0 {
				ls = append(ls, fmt.Sprint(b))
			}
		}
		nodes[id].bm = strings.Join(ls, ",")
		nodes[id].fc = fmt.Sprint(old.FirstChild[i])
	}
	for i, id := range old.StepIdx {
		nodes[id].step = int(old.Step[i])
	}
	for i, id := range old.LeafIdx {
		nodes[id].leaf = fmt.Sprint(old.LeafKey[i])
	}
	lines := []string{fmt.Sprintf("W ok %d", old.N)}
	for id, n := range nodes {
		lines = append(lines, fmt.Sprintf("O %d %s %d %s %s", id, n.bm, n.step, n.leaf, n.fc))
	}
	return lines
}

func init() {
	register("C06c", func(c *Ctx) {
		c.Or.Rule = "key sets: one PRNG stream from VERIF_SEED; fixed sets (empty, single, empty key, keys that are prefixes of keys, half-byte prefixes, steps of 200..65536 nibbles incl. the 16-bit boundary) + the 8 shared kinds (" +
			strings.Join(kindNames, "/") + ") + the C06 kinds (" + strings.Join(c06KindNames, "/") + "); values = distinct 4-byte LE numbers; every set is written in each of the 6 three-array layout variants by the reference writer, decoded and loaded by the real Unmarshal; " +
			"archived three-array fixtures with at most 2000 keys are decoded and loaded as they are; a case = (variant, keys, values); non-trivial = at least 2 keys; distinct = distinct (variant, keys, values)"
		layouts := []*c06Layout{}
		for _, l := range c06Layouts {
			if !l.Slim {
				layouts = append(layouts, l)
			}
		}
		type gen struct {
			kind string
			keys []string
		}
		x := func(n int) string { return strings.Repeat("x", n) }
		sets := []gen{
			{"empty", []string{}}, {"single", []string{""}}, {"single", []string{"\xff"}}, {"single", []string{"abc"}},
			{"emptykey-root", []string{"", "\x00", "\x00\x00", "a"}},
			{"prefix-keys", []string{"a", "ab", "abc", "abd", "b"}},
			{"prefix-keys", []string{"abc", "abcd", "abcdx", "abcdy", "abcdz", "abd", "abde", "bc", "bcd", "bcde", "cde"}},
			{"halfbyte-prefix", []string{"\xff\xf0", "\xff\xf1"}}, {"halfbyte-prefix", []string{"a\xff\xf0b", "a\xff\xffc", "b"}},
			{"longruns", []string{x(200) + "a", x(200) + "b", x(200) + "b" + strings.Repeat("\xff", 129)}},
			{"step-16bit-boundary", []string{x(32767) + "\x10", x(32767) + "\x20"}}, // step 65535: fits
			{"step-16bit-boundary", []string{x(32767) + "\x61", x(32767) + "\x62"}}, // step 65536: the old writer refuses, today's builder accepts
			{"step-16bit-boundary", []string{x(32768) + "a", x(32768) + "b"}},       // step 65538
			{"step-16bit-boundary", []string{"a", "b" + x(32768)}},                  // leaf step (0.5.0 only) 65537: too long; branch steps fit
		}
		nsets := c.N(250, 2500)
		for i := 0; len(sets) < nsets; i++ {
			r := c.R.Fork()
			if i%3 == 2 {
				k := r.Intn(c06KindCnt)
				sets = append(sets, gen{c06KindNames[k], c06GenKeys(r, k, false)})
			} else {
				k := r.Intn(KKindCnt)
				sets = append(sets, gen{kindNames[k], genKeySet(r, k, 1+r.Intn(2))})
			}
		}
		emitted, refused, mismatch := 0, 0, 0
		reported := map[string]bool{}
		emit := func(id string, l *c06Layout, keys []string, vals [][]byte, buf []byte, fromWriter bool, old *c06Old) {
			cw := c.Cases()
			lsf := 0
			if l.LeafSteps {
				lsf = 1
			}
			fmt.Fprintf(cw, "T %s %d\n", id, lsf)
			for i, k := range keys {
				fmt.Fprintf(cw, "K %s %s\n", hxs(k), hx(vals[i]))
			}
			fmt.Fprintf(cw, "E\n")
			w := c.Impl()
			fmt.Fprintf(w, "C %s\n", id)
			if buf == nil {
				fmt.Fprintf(w, "W err:step\n")
				refused++
				return
			}
			valIdx := map[string]int{}
			for i, v := range vals {
				valIdx[hx(v)] = i
			}
			lines, err := c06cDecodeOld(buf, valIdx)
			if err != nil {
				fmt.Fprintf(w, "W DECODE %v\n", err)
				return
			}
			if len(keys) == 0 {
				lines = []string{"W ok 0"}
			}
			if fromWriter && old != nil && strings.Join(lines, "\n") != strings.Join(c06cStructLines(old), "\n") {
				mismatch++
				lines = append(lines, "DECODED-STREAM-DIFFERS-FROM-WRITER-TABLE")
			}
			for _, ln := range lines {
				fmt.Fprintf(w, "%s\n", ln)
			}
			spec := specByName("I32")
			st, err := c06Load(buf, spec.Enc)
			if err != nil {
				kind := "load-error"
				if strings.HasPrefix(err.Error(), "PANIC") {
					kind = "load-panic"
				}
				fmt.Fprintf(w, "V %s\n", kind)
				if !reported[kind+l.Name] {
					reported[kind+l.Name] = true
					c.Or.Violate("C06:"+kind+"@"+l.Name, fmt.Sprintf("C06: Unmarshal of a %s stream failed: %v", l.Name, err),
						map[string]interface{}{"property": "C06", "variant": l.Name, "keys_hex": c06HexKeys(keys), "stream_hex": hx(buf)})
				}
				return
			}
			fmt.Fprintf(w, "V ok\n")
			DumpView(w, st)
			if fd := c06Oracle(st, spec, keys, vals, false, nil, nil, 10); fd != nil && !reported[fd.key+l.Name] {
				reported[fd.key+l.Name] = true
				c.Or.Violate(fd.key+"@"+l.Name, fd.what+" (layout "+l.Name+")",
					map[string]interface{}{"property": "C06", "variant": l.Name, "keys_hex": c06HexKeys(keys), "query_hex": hxs(fd.q), "got": fd.got, "want": fd.want})
			}
			emitted++
		}
		for si, g := range sets {
			if len(g.keys) > 1200 {
				continue
			}
			r := c.R.Fork()
			ids := c06ValueIDs(r, len(g.keys))
			vals := make([][]byte, len(ids))
			for i, v := range ids {
				vals[i] = le(4, v)
			}
			c.Or.Count("kind:" + g.kind)
			c.Or.Count("keys:" + bucket(len(g.keys)))
			if old, err := c06BuildOld(g.keys, false); err == nil {
				if old.MaxStep > 255 {
					c.Or.Count("sets-with-step>255-nibbles")
				}
				in := map[int32]bool{}
				for _, id := range old.InnerIdx {
					in[id] = true
				}
				for _, id := range old.LeafIdx {
					if in[id] {
						c.Or.Count("sets-with-keys-ending-at-inner-nodes")
						break
					}
				}
			}
			for _, l := range layouts {
				c.Or.Case(fmt.Sprint(l.Name, g.keys, ids), len(g.keys) >= 2)
				c.Or.Count("variant:" + l.Name)
				if si < 4 {
					c.Or.Sample(map[string]interface{}{"variant": l.Name, "kind": g.kind, "keys_hex": c06HexKeys(g.keys)})
				}
				old, err := c06BuildOld(g.keys, l.LeafSteps)
				var buf []byte
				if err == nil {
					buf, err = c06WriteArrays(l, g.keys, vals)
					if err != nil {
						panic("C06c: c06WriteArrays failed after c06BuildOld succeeded: " + err.Error())
					}
				} else {
					c.Or.Count("outside-old-writer-domain(step>65535)")
				}
				emit(fmt.Sprintf("g%d.%s", si, l.Name), l, g.keys, vals, buf, true, old)
			}
		}
		// archived fixtures
		fx, _, err := c06LoadFixtures(c.Repo)
		if err != nil {
			panic(err)
		}
		nfx := 0
		maxKeys := 2000 // the extracted model keeps node ids as unary nat: quadratic memory in the node count
		for _, f := range fx {
			if f.Layout.Slim {
				continue
			}
			keys := c06Keys(f.Set)
			if len(keys) > maxKeys {
				c.Or.Count("fixture-skipped(too many keys for the extracted model)")
				continue
			}
			vals, _ := c06FixtureValues(len(keys))
			c.Or.Case("fixture "+f.File, len(keys) >= 2)
			c.Or.Count("fixture:" + f.Layout.Name)
			emit("fx."+f.File, f.Layout, keys, vals, f.Buf, false, nil)
			nfx++
		}
		c.Or.Extra["cases_compared"] = emitted
		c.Or.Extra["cases_refused_by_the_old_writer(step>65535)"] = refused
		c.Or.Extra["archived_fixtures_compared"] = nfx
		c.Or.Extra["decoded_stream_differs_from_writer_table"] = mismatch
	})
}
