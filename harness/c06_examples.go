package main

// C06: the concrete bytes used in the Examples of coq/props/C06.v are taken
// from the archived fixtures; this file re-derives them from the real files
// and the real loader on every run, so that the Examples stay tied to the code.

import (
	"bytes"
	"fmt"

	"github.com/openacid/low/pbcmpl"
	"github.com/openacid/slim/array"
	"github.com/openacid/slim/encode"
	"github.com/openacid/slim/trie"
)

func c06ConfirmCoqExamples(fx []*c06Fixture) (map[string]bool, error) {
	res := map[string]bool{}
	find := func(name string) *c06Fixture {
		for _, f := range fx {
			if f.File == name {
				return f
			}
		}
		return nil
	}
	slimOf := func(buf []byte) *trie.Slim {
		s := &trie.Slim{}
		pbcmpl.Unmarshal(bytes.NewReader(buf), s)
		return s
	}
	var firstErr error
	check := func(name string, ok bool, detail string) {
		res[name] = ok
		if !ok && firstErr == nil {
			firstErr = fmt.Errorf("%s: %s", name, detail)
		}
	}

	// ex_conv_fixture / ex_ctl_fixture
	if f := find("slimtrie-data-11vl5-innpref-0.5.10"); f != nil {
		before := slimOf(f.Buf).InnerPrefixes.Bytes
		st, err := c06Load(f.Buf, encode.I32{})
		after := []byte{}
		if err == nil {
			after = st.VerifInner().InnerPrefixes.Bytes
		}
		check("ex_conv_fixture", hx(before) == "0168016268006300640064" && hx(after) == "60f06260f063ff64ff64ff", "before "+hx(before)+" after "+hx(after))
	} else {
		check("ex_conv_fixture", false, "fixture missing")
	}

	// ex_ff_halfbyte: the writer emits 01 ff f8, the loader turns it into ff f0 f0
	{
		l := c06LayoutByName("b0510-innpref")
		keys := []string{"\xff\xf0", "\xff\xf1"}
		buf, err := c06Write(l, encode.I32{}, keys, [][]byte{le(4, 0), le(4, 1)}, []int32{0, 1})
		ok := false
		detail := fmt.Sprint(err)
		if err == nil {
			before := slimOf(buf).InnerPrefixes.Bytes
			st, err := c06Load(buf, encode.I32{})
			if err == nil {
				after := st.VerifInner().InnerPrefixes.Bytes
				ok = hx(before) == "01fff8" && hx(after) == "fff0f0"
				detail = "before " + hx(before) + " after " + hx(after)
			}
		}
		check("ex_ff_halfbyte", ok, detail)
	}

	// ex_children_fixture
	f1, f4 := find("slimtrie-data-11vl5-0.5.1"), find("slimtrie-data-11vl5-0.5.4")
	if f1 != nil && f4 != nil {
		a1, _, e1 := c06ReadArrays(f1.Buf)
		a4, _, e4 := c06ReadArrays(f4.Buf)
		ok := e1 == nil && e4 == nil &&
			fmt.Sprint(a1[0].Bitmaps) == "[1271]" && fmt.Sprint(a1[0].Offsets) == "[0]" &&
			hx(a1[0].Elts) == "0e000100180004004000060040000700400008004000090080000a0000070b00" &&
			a4[0].Flags&array.ArrayFlagIsBitmap != 0 && a4[0].BMElts != nil &&
			fmt.Sprint(a4[0].BMElts.Words) == "[18014673388961806 504403708025503808]"
		// the loaded trie: old node 4 -> an inner node whose labels are {empty label, 6+1}
		check("ex_children_fixture", ok, "children arrays of 11vl5 0.5.1 / 0.5.4 differ from the Example")
		// ex_step: steps bitmap 0xc7, values 2,4,3,2,2
		check("ex_step", e1 == nil && fmt.Sprint(a1[1].Bitmaps) == "[199]" && hx(a1[1].Elts) == "02000400030002000200", "steps array of 11vl5 0.5.1 differs from the Example")
	} else {
		check("ex_children_fixture", false, "fixture missing")
	}

	// ex_leaf_fixture
	if f := find("slimtrie-data-11vl5-nopref-0.5.10"); f != nil {
		before := slimOf(f.Buf).Leaves
		st, err := c06Load(f.Buf, encode.I32{})
		ok := false
		if err == nil && before != nil && before.PresenceBM == nil && before.N == 0 && before.FixedSize == 0 && len(before.Bytes) == 44 &&
			hx(before.Bytes[:12]) == "0a0000000700000000000000" {
			lv := st.VerifInner().Leaves
			ok = lv.N == 11 && lv.EltCnt == 11 && lv.FixedSize == 4 && lv.PresenceBM != nil && fmt.Sprint(lv.PresenceBM.Words) == "[2047]" && fmt.Sprint(lv.PresenceBM.RankIndex) == "[0]"
		}
		check("ex_leaf_fixture", ok, "Leaves of 11vl5-nopref-0.5.10 before/after loading differ from the Example")
	} else {
		check("ex_leaf_fixture", false, "fixture missing")
	}
	return res, firstErr
}
