package main

func runProp(args []string) bool { return false }
