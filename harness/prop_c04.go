package main

// C04 - scans (NewIter / ScanFrom / ScanFromTo) yield exactly the retained
// entries in range, in order, once; refusal on incomplete tries.
//
// For every generated case the harness writes (a) the case and its scan
// operations for the extracted Coq model (coq/theories/Scan.v through
// coq/extract/ScanX_driver.ml), (b) the implementation's observable per scan
// operation, fresh and after Marshal/Unmarshal, and (c) runs the property
// oracle, which is written from the property text against the sorted reference
// (NewRef: retained keys and the reference encoding of their values) and never
// against the model.

import (
	"bytes"
	"fmt"
	"sort"
	"strings"

	"github.com/openacid/slim/trie"
)

type c04Op struct {
	Kind    byte // 'I' NewIter, 'S' ScanFrom, 'R' ScanFromTo
	Start   string
	Incl    bool
	WithV   bool
	End     string
	InclEnd bool
	Stop    int // the callback returns false on its invocation number Stop (0-based); -1: never
}

func c04b(b bool) string {
	if b {
		return "1"
	}
	return "0"
}

func c04stop(n int) string {
	if n < 0 {
		return "-"
	}
	return fmt.Sprint(n)
}

// head is both the line written to cases.txt and the prefix of the observable line.
func (o c04Op) head() string {
	switch o.Kind {
	case 'I':
		return fmt.Sprintf("I %s %s %s", hxs(o.Start), c04b(o.Incl), c04b(o.WithV))
	case 'S':
		return fmt.Sprintf("S %s %s %s %s", hxs(o.Start), c04b(o.Incl), c04b(o.WithV), c04stop(o.Stop))
	}
	return fmt.Sprintf("R %s %s %s %s %s %s", hxs(o.Start), c04b(o.Incl), hxs(o.End), c04b(o.InclEnd), c04b(o.WithV), c04stop(o.Stop))
}

func c04item(k, v []byte) string {
	if v == nil {
		return hx(k) + ":nil"
	}
	return hx(k) + ":" + hx(v)
}

type c04Res struct {
	Panic          bool
	PanicMsg       string
	Items          []string // "keyhex:valhex"
	After          []string // NewIter: the 3 calls after the first nil
	Runaway        bool     // more pairs than keys were indexed
	CalledAfterEnd bool     // the callback was invoked again after it returned false
}

func (r c04Res) text(op c04Op) string {
	if r.Panic {
		return "PANIC"
	}
	s := strings.Join(r.Items, " ")
	if r.Runaway {
		s += " RUNAWAY"
	}
	if r.CalledAfterEnd {
		s += " CALLED-AFTER-FALSE"
	}
	if op.Kind == 'I' {
		s += " | " + strings.Join(r.After, " ")
	}
	return s
}

// c04RunOp runs one scan operation on the implementation.
func c04RunOp(st *trie.SlimTrie, op c04Op, nkeys int) (res c04Res) {
	defer func() {
		if p := recover(); p != nil {
			res = c04Res{Panic: true, PanicMsg: fmt.Sprint(p)}
		}
	}()
	limit := nkeys + 4
	switch op.Kind {
	case 'I':
		nxt := st.NewIter(op.Start, op.Incl, op.WithV)
		for {
			k, v := nxt()
			if k == nil {
				break
			}
			res.Items = append(res.Items, c04item(k, v))
			if len(res.Items) > limit {
				res.Runaway = true
				break
			}
		}
		for j := 0; j < 3; j++ {
			k, v := nxt()
			if k == nil {
				res.After = append(res.After, "nil")
			} else {
				res.After = append(res.After, c04item(k, v))
			}
		}
	default:
		calls := 0
		stopped := false
		fn := func(k, v []byte) bool {
			if stopped {
				res.CalledAfterEnd = true
				return false
			}
			res.Items = append(res.Items, c04item(k, v))
			if len(res.Items) > limit {
				res.Runaway = true
				stopped = true
				return false
			}
			calls++
			if op.Stop >= 0 && calls-1 == op.Stop {
				stopped = true
				return false
			}
			return true
		}
		if op.Kind == 'S' {
			st.ScanFrom(op.Start, op.Incl, op.WithV, fn)
		} else {
			st.ScanFromTo(op.Start, op.Incl, op.End, op.InclEnd, op.WithV, fn)
		}
	}
	return res
}

// c04Expect is the property as stated, on the sorted reference.
//
//	refused: the trie does not store complete keys and is not empty -> the scan APIs must panic.
func c04Expect(ref *Ref, complete bool, op c04Op) (refused bool, text string) {
	if !complete && len(ref.Keys) > 0 {
		return true, "PANIC"
	}
	items := []string{}
	for _, i := range ref.Retained {
		k := ref.Keys[i]
		if k < op.Start || (k == op.Start && !op.Incl) {
			continue
		}
		if op.Kind == 'R' && (k > op.End || (k == op.End && !op.InclEnd)) {
			break
		}
		v := "nil"
		if op.WithV {
			v = ref.val(i)
		}
		items = append(items, hxs(k)+":"+v)
		if op.Kind != 'I' && op.Stop >= 0 && len(items) == op.Stop+1 {
			break
		}
	}
	text = strings.Join(items, " ")
	if op.Kind == 'I' {
		text += " | nil nil nil"
	}
	return false, text
}

func c04Classify(refused bool, got c04Res, gotText, want string) string {
	switch {
	case refused:
		return "not-refused"
	case got.Panic:
		return "panic"
	case got.CalledAfterEnd:
		return "callback-after-false"
	case got.Runaway:
		return "runaway"
	}
	gi := strings.SplitN(gotText, " | ", 2)
	wi := strings.SplitN(want, " | ", 2)
	if gi[0] == wi[0] {
		return "exhaustion-not-absorbing"
	}
	gk, wk := []string{}, []string{}
	for _, x := range strings.Fields(gi[0]) {
		gk = append(gk, strings.SplitN(x, ":", 2)[0])
	}
	for _, x := range strings.Fields(wi[0]) {
		wk = append(wk, strings.SplitN(x, ":", 2)[0])
	}
	if strings.Join(gk, " ") == strings.Join(wk, " ") {
		return "value-bytes"
	}
	return "wrong-keys"
}

type c04Replay struct {
	Property string   `json:"property"`
	Opt      string   `json:"opt_dedup_inner_leaf_complete"`
	Enc      string   `json:"encoder"`
	Keys     []string `json:"keys_hex"`
	Vals     []string `json:"values_hex"`
	Op       string   `json:"scan_op"`
	OpDoc    string   `json:"scan_op_format"`
	Loaded   bool     `json:"loaded"`
	Got      string   `json:"got"`
	Want     string   `json:"want"`
}

func c04MkReplay(tc *TrieCase, op c04Op, loaded bool, got, want string) c04Replay {
	_, bs, _ := tc.Values()
	r := c04Replay{Property: "C04", Opt: optc(tc.Opt[0]) + optc(tc.Opt[1]) + optc(tc.Opt[2]) + optc(tc.Opt[3]), Enc: tc.Enc,
		Op: op.head(), OpDoc: "I start incl withv | S start incl withv stop | R start incl end inclEnd withv stop (hex strings, '.' = empty, stop '-' = never)",
		Loaded: loaded, Got: got, Want: want}
	for i, k := range tc.Keys {
		r.Keys = append(r.Keys, hxs(k))
		if bs != nil {
			r.Vals = append(r.Vals, hx(bs[i]))
		}
	}
	return r
}

type c04Finding struct {
	key, what string
	op        c04Op
	loaded    bool
	got, want string
}

// c04CheckOp: build (and optionally reload) then run one op and compare with the property.
func c04CheckBuilt(tc *TrieCase, ref *Ref, complete bool, st *trie.SlimTrie, loaded bool, op c04Op) (string, *c04Finding) {
	got := c04RunOp(st, op, len(tc.Keys))
	gt := got.text(op)
	refused, want := c04Expect(ref, complete, op)
	if gt == want {
		return gt, nil
	}
	cls := c04Classify(refused, got, gt, want)
	key := "C04:" + cls
	if loaded {
		key += "+loaded"
	}
	what := fmt.Sprintf("C04: %s on scan op [%s]: got [%s], want [%s]", cls, op.head(), c04trunc(gt), c04trunc(want))
	if got.Panic {
		what += " (panic: " + c04trunc(got.PanicMsg) + ")"
	}
	return gt, &c04Finding{key: key, what: what, op: op, loaded: loaded, got: gt, want: want}
}

func c04trunc(s string) string {
	if len(s) > 400 {
		return s[:400] + "..."
	}
	return s
}

// c04Eval builds the case, runs all ops fresh and loaded, writes observables when emit.
func c04Eval(c *Ctx, tc *TrieCase, ops []c04Op, emit bool) []*c04Finding {
	fs := []*c04Finding{}
	ref := NewRef(tc)
	_, inner, leaf := tc.Norm()
	complete := inner && leaf
	var w = c.Impl()
	if emit {
		tc.WriteCase(c.Cases())
		for _, op := range ops {
			fmt.Fprintf(c.Cases(), "%s\n", op.head())
		}
		fmt.Fprintf(c.Cases(), "Z\nL %s\n", tc.ID)
		fmt.Fprintf(w, "C %s\n", tc.ID)
	}
	b := tc.Build()
	if b.Err != nil {
		es := buildErrStr(b.Err, tc.Keys)
		if emit {
			fmt.Fprintf(w, "B %s\nC %s+L\nB %s\n", es, tc.ID, es)
		}
		return append(fs, &c04Finding{key: "C04:build-failed", what: fmt.Sprintf("C04: NewSlimTrie failed on a valid key list: %v", b.Err), got: es, want: "a trie"})
	}
	run := func(st *trie.SlimTrie, loaded bool) {
		if emit {
			fmt.Fprintf(w, "B ok\n")
		}
		for _, op := range ops {
			gt, f := c04CheckBuilt(tc, ref, complete, st, loaded, op)
			if emit {
				fmt.Fprintf(w, "%s = %s\n", op.head(), gt)
			}
			if f != nil {
				fs = append(fs, f)
			}
		}
	}
	run(b.St, false)
	st2, _, err := reload(b.St, b.Spec)
	if emit {
		fmt.Fprintf(w, "C %s+L\n", tc.ID)
	}
	if err != nil {
		if emit {
			fmt.Fprintf(w, "B reload-failed\n")
		}
		return append(fs, &c04Finding{key: "C04:reload-failed", what: fmt.Sprintf("C04: Marshal/Unmarshal failed: %v", err), got: err.Error(), want: "a loaded trie"})
	}
	run(st2, true)
	return fs
}

// c04Shrink deletes keys (with their values) while the same finding persists on the same op.
func c04Shrink(c *Ctx, tc *TrieCase, f *c04Finding) (*TrieCase, *c04Finding) {
	cur, curf := tc, f
	if f.op.Kind == 0 {
		return cur, curf
	}
	try := func(cand *TrieCase) bool {
		if len(cand.Keys) == 0 {
			return false
		}
		for _, nf := range c04Eval(c, cand, []c04Op{curf.op}, false) {
			if nf.key == curf.key {
				cur, curf = cand, nf
				return true
			}
		}
		return false
	}
	clone := func(t *TrieCase, drop, n int) *TrieCase {
		nt := *t
		nt.Keys = append(append([]string{}, t.Keys[:drop]...), t.Keys[drop+n:]...)
		if t.IDs != nil {
			nt.IDs = append(append([]uint64{}, t.IDs[:drop]...), t.IDs[drop+n:]...)
		}
		return &nt
	}
	budget := 300
	for chunk := (len(cur.Keys) + 1) / 2; chunk >= 1 && budget > 0; chunk /= 2 {
		for i := 0; i+chunk <= len(cur.Keys) && budget > 0; {
			budget--
			if !try(clone(cur, i, chunk)) {
				i += chunk
			}
		}
	}
	return cur, curf
}

var c04Encs = []string{"I32", "U16", "S16", "RAW", "B3", "TE", "Dummy"}

// c04Ops chooses the scan operations of a case.
func c04Ops(r *RNG, tc *TrieCase, starts []string) []c04Op {
	ops := []c04Op{}
	n := len(tc.Keys)
	pickEnd := func() string {
		switch r.Intn(4) {
		case 0:
			if n > 0 {
				return tc.Keys[r.Intn(n)]
			}
		case 1:
			if len(tc.Queries) > 0 {
				return tc.Queries[r.Intn(len(tc.Queries))]
			}
		case 2:
			return randBytes(r, r.Intn(4))
		}
		if n > 0 {
			k := tc.Keys[r.Intn(n)]
			return k + randBytes(r, r.Intn(2))
		}
		return randBytes(r, r.Intn(3))
	}
	for si, s := range starts {
		for _, incl := range []bool{true, false} {
			for _, wv := range []bool{true, false} {
				ops = append(ops, c04Op{Kind: 'I', Start: s, Incl: incl, WithV: wv})
			}
		}
		// ScanFrom: stop points 0,1,2 and one later, and a scan that is never stopped
		for _, k := range []int{0, 1, 2, 3 + r.Intn(10)} {
			ops = append(ops, c04Op{Kind: 'S', Start: s, Incl: r.Bool(), WithV: r.Bool(), Stop: k})
		}
		if n <= 32 || si == 0 {
			ops = append(ops, c04Op{Kind: 'S', Start: s, Incl: r.Bool(), WithV: r.Bool(), Stop: -1})
		}
		// ScanFromTo: random end strings, both end inclusivities
		e := pickEnd()
		stop := -1
		if r.Intn(3) == 0 {
			stop = r.Intn(4)
		}
		ops = append(ops, c04Op{Kind: 'R', Start: s, Incl: r.Bool(), End: e, InclEnd: true, WithV: r.Bool(), Stop: stop})
		ops = append(ops, c04Op{Kind: 'R', Start: s, Incl: r.Bool(), End: e, InclEnd: false, WithV: r.Bool(), Stop: -1})
		if n > 0 && r.Intn(2) == 0 {
			// an end bound that is an indexed key at or after the start
			e2 := tc.Keys[r.Intn(n)]
			ops = append(ops, c04Op{Kind: 'R', Start: s, Incl: r.Bool(), End: e2, InclEnd: r.Bool(), WithV: r.Bool(), Stop: -1})
		}
	}
	return ops
}

// c04Starts: "" first, then a sample of the query set (every query when the budget allows).
func c04Starts(r *RNG, tc *TrieCase, budget int) []string {
	n := len(tc.Keys)
	cost := n + 2 // bytes written by one full sequence (hex doubles it)
	for _, k := range tc.Keys {
		cost += len(k)
	}
	max := budget / (4 * cost)
	if max < 3 {
		max = 3
	}
	if max > 40 {
		max = 40
	}
	qs := append([]string{}, tc.Queries...)
	out := []string{""}
	seen := map[string]bool{"": true}
	// always the first and last key
	if n > 0 {
		for _, k := range []string{tc.Keys[0], tc.Keys[n-1]} {
			if !seen[k] && len(out) < max {
				seen[k] = true
				out = append(out, k)
			}
		}
	}
	for len(out) < max && len(qs) > 0 {
		j := r.Intn(len(qs))
		q := qs[j]
		qs[j] = qs[len(qs)-1]
		qs = qs[:len(qs)-1]
		if !seen[q] {
			seen[q] = true
			out = append(out, q)
		}
	}
	return out
}

// the raw option spellings whose normal form does not store complete keys
func c04IncompleteOpts() [][4]int8 {
	out := [][4]int8{}
	for d := int8(-1); d <= 1; d++ {
		for i := int8(-1); i <= 1; i++ {
			for l := int8(-1); l <= 1; l++ {
				for cc := int8(-1); cc <= 1; cc++ {
					o := [4]int8{d, i, l, cc}
					if !isComplete(o) {
						out = append(out, o)
					}
				}
			}
		}
	}
	// the 12 combinations of the property (no nil option except Complete) first
	sort.SliceStable(out, func(a, b int) bool {
		ra := out[a][0] >= 0 && out[a][1] >= 0 && out[a][2] >= 0
		rb := out[b][0] >= 0 && out[b][1] >= 0 && out[b][2] >= 0
		return ra && !rb
	})
	return out
}

func c04NormName(tc *TrieCase) string {
	d, i, l := tc.Norm()
	return fmt.Sprintf("dedup=%s,inner=%s,leaf=%s", c04b(d), c04b(i), c04b(l))
}

func c04Run(c *Ctx) {
	c.Or.Rule = "cases: one PRNG stream from VERIF_SEED. (a) Complete tries: key-set kinds " + strings.Join(kindNames, "/") +
		" x value layouts " + strings.Join(vkindNames, "/") + " x the complete option spellings (incl. raw nil options) x encoders " + strings.Join(c04Encs, "/") +
		"; per case: start strings = \"\", first/last key and a sample of the C03 query set; per start: NewIter for both inclusivities x withValue (all pairs + 3 further calls), " +
		"ScanFrom with the callback returning false at invocation 0,1,2,k and never, ScanFromTo with random end strings and both end inclusivities; each on the fresh trie and on the trie loaded from its Marshal output. " +
		"(b) refusal: every raw option spelling whose normal form lacks inner or leaf prefixes (48, the 12 without nil Dedup/Inner/Leaf first), with and without values, on non-empty tries: every scan must panic; " +
		"(c) empty tries under all option spellings: nothing is yielded, no panic. " +
		"a case = (options, encoder, keys, values, scan ops); non-trivial = at least 2 keys; distinct = distinct canonical case text; evaluations = scan operations executed on the implementation"
	reported := map[string]bool{}
	caseNo := 0
	doCase := func(tc *TrieCase, ops []c04Op, group string) {
		caseNo++
		canon := fmt.Sprint(tc.Opt, tc.Enc, tc.Keys, tc.IDs, ops)
		c.Or.Case(canon, len(tc.Keys) >= 2)
		c.Or.Count("group:" + group)
		c.Or.Count("kind:" + tc.Kind)
		c.Or.Count("values:" + tc.VKind)
		c.Or.Count("opt:" + optc(tc.Opt[0]) + optc(tc.Opt[1]) + optc(tc.Opt[2]) + optc(tc.Opt[3]))
		c.Or.Count("norm:" + c04NormName(tc))
		c.Or.Count("enc:" + tc.Enc)
		c.Or.Count("keys:" + bucket(len(tc.Keys)))
		c.Or.Add("scan-ops(fresh+loaded)", 2*len(ops))
		has := func(b byte) bool {
			for _, k := range tc.Keys {
				if strings.IndexByte(k, b) >= 0 {
					return true
				}
			}
			return false
		}
		if has(0xff) {
			c.Or.Count("has-byte-ff")
		}
		if len(c.Or.Samples) < 3 && len(tc.Keys) >= 2 && len(tc.Keys) <= 6 && len(ops) > 0 {
			c.Or.Sample(c04MkReplay(tc, ops[0], false, "", ""))
		}
		for _, f := range c04Eval(c, tc, ops, true) {
			if reported[f.key] {
				continue
			}
			reported[f.key] = true
			stc, sf := c04Shrink(c, tc, f)
			c.Or.Violate(sf.key, sf.what, c04MkReplay(stc, sf.op, sf.loaded, c04trunc(sf.got), c04trunc(sf.want)))
		}
	}

	// (a) complete tries
	nComplete := c.N(260, 2500)
	budget := c.N(6000, 9000)
	for i := 0; i < nComplete; i++ {
		r := c.R.Fork()
		kind := r.Intn(KKindCnt)
		if r.Intn(5) == 0 {
			kind = KFanout // big (257-bit) nodes
		}
		tc := genTrieCase(r.Fork(), fmt.Sprintf("c04_%d", i), kind, r.Intn(VKindCnt), 1, 40)
		for !isComplete(tc.Opt) {
			tc.Opt = randOpt(r)
		}
		if i%40 == 11 {
			// directed: a deep chain - every key is a prefix of the next one, so that one root-to-leaf
			// path carries 70..130 inner nodes (the scan stack grows with the path)
			depth := 70 + r.Intn(60)
			unit := []string{"d/", "x", "ab"}[r.Intn(3)]
			keys := make([]string, depth)
			for j := range keys {
				keys[j] = strings.Repeat(unit, j+1)
			}
			sort.Strings(keys)
			tc.Keys, tc.Kind = keys, "deep-chain"
			tc.IDs, tc.VKind = genValueIDs(r, len(keys), VDistinct), vkindNames[VDistinct]
			tc.Queries = genQueries(r, tc.Keys, 40)
		}
		tc.Enc = c04Encs[r.Intn(len(c04Encs))]
		if i%7 == 3 && tc.IDs != nil {
			tc.Enc = []string{"S16", "RAW"}[r.Intn(2)] // variable-width values
		}
		starts := c04Starts(r, tc, budget)
		doCase(tc, c04Ops(r, tc, starts), "complete")
	}

	// (b) refusal on incomplete, non-empty tries
	inc := c04IncompleteOpts()
	nRef := c.N(2*len(inc), 8*len(inc))
	for i := 0; i < nRef; i++ {
		r := c.R.Fork()
		vk := VNil
		if (i/len(inc))%2 == 1 {
			vk = 1 + r.Intn(VKindCnt-1)
		}
		kind := r.Intn(KKindCnt)
		if kind == KLongRuns || kind == KRegular {
			kind = KSharedPrefix
		}
		tc := genTrieCase(r.Fork(), fmt.Sprintf("c04r_%d", i), kind, vk, 1, 12)
		tc.Opt = inc[i%len(inc)]
		tc.Enc = c04Encs[r.Intn(len(c04Encs))]
		starts := c04Starts(r, tc, 0)
		ops := []c04Op{}
		for _, s := range starts {
			ops = append(ops, c04Op{Kind: 'I', Start: s, Incl: r.Bool(), WithV: r.Bool()})
			ops = append(ops, c04Op{Kind: 'S', Start: s, Incl: r.Bool(), WithV: r.Bool(), Stop: -1})
			ops = append(ops, c04Op{Kind: 'R', Start: s, Incl: r.Bool(), End: s + "\xff", InclEnd: r.Bool(), WithV: r.Bool(), Stop: -1})
		}
		doCase(tc, ops, "refusal")
	}

	// (c) empty tries: every raw option spelling, with and without (zero) values
	nEmpty := 0
	for d := int8(-1); d <= 1; d++ {
		for ii := int8(-1); ii <= 1; ii++ {
			for l := int8(-1); l <= 1; l++ {
				for cc := int8(-1); cc <= 1; cc++ {
					r := c.R.Fork()
					tc := &TrieCase{ID: fmt.Sprintf("c04e_%d", nEmpty), Opt: [4]int8{d, ii, l, cc}, Enc: c04Encs[r.Intn(len(c04Encs))],
						Keys: []string{}, Kind: "empty", VKind: "nil"}
					if nEmpty%2 == 1 {
						tc.IDs = []uint64{}
						tc.VKind = "distinct"
					}
					nEmpty++
					ops := []c04Op{}
					for _, s := range []string{"", "a", "\xff\xff"} {
						ops = append(ops, c04Op{Kind: 'I', Start: s, Incl: r.Bool(), WithV: r.Bool()})
						ops = append(ops, c04Op{Kind: 'S', Start: s, Incl: r.Bool(), WithV: r.Bool(), Stop: -1})
						ops = append(ops, c04Op{Kind: 'R', Start: s, Incl: r.Bool(), End: "zz", InclEnd: r.Bool(), WithV: r.Bool(), Stop: -1})
					}
					doCase(tc, ops, "empty")
				}
			}
		}
	}
	_ = bytes.Equal
}

func init() {
	register("C04", c04Run)
}
