module verifharness

go 1.15

require (
	github.com/golang/protobuf v1.3.1
	github.com/openacid/errors v0.8.1
	github.com/openacid/low v0.1.21
	github.com/openacid/slim v0.0.0
	github.com/openacid/testkeys v0.1.6
)

replace github.com/openacid/slim => /repo
