package main

// C06f (sub-check of C06): the legacy branches of (*SlimTrie).Unmarshal END TO END
// through the instance state machine. coq/props/C06f.v proves, for any prior
// instance state and any history of Unmarshal / Reset calls, that the stream of
// an old writer (0.5.10 / 0.5.11 single section; the six three-array layouts) is
// dispatched to its legacy branch, that the instance afterwards is the one
// installed from the converted message, and that GetID / Get / searchID over it
// are the tree model's answers.
//
// This file runs the extracted machine (EndToEndLegacy.step_e2e: Frame.unmarshal
// with the regenerated constants + conv510_e2e / conv3_e2e) against the real
// implementation on the SAME stream bytes and the SAME histories:
//   W  the stream the reference writer produced for the case (c06Write)
//      = the stream the model's old writer produces (write_0510 / write_stream)
//   h  per history step: Reset, or the outcome kind of the REAL Unmarshal on the
//      bytes (ok / err:<stage>:<cause> / err:incompatible / PANIC)
//      = the outcome kind of the model's step
//   q  after every successful load and at the end: GetID, Get, searchID of the
//      real instance = the model's queries over ITS instance state
// Histories mix: Reset, loads of OTHER key sets in other layouts (legacy and
// current), truncated streams, streams with an incompatible version, streams with a
// destroyed body - and always end with the load of the case's legacy stream.
//
// Oracle (no Coq involved, from the property text): the final load must succeed;
// the loaded instance answers the sorted-list oracle of C06 (exact absent-key
// answers too for the full-prefix variants); and its answers to every query are
// those of a FRESH instance that loaded the same stream (no residue of the
// history).

import (
	"fmt"
	"strings"

	"github.com/openacid/slim/trie"
)

func c06fQueryLine(st *trie.SlimTrie, spec *EncSpec, q string) string {
	s, p := protect(func() string {
		v, f := st.Get(q)
		l, e, r := st.VerifSearchID(q)
		return fmt.Sprintf("%d %s S %d %d %d", st.GetID(q), foundStr(spec, v, f), l, e, r)
	})
	if p != "" {
		s = "PANIC"
	}
	return fmt.Sprintf("q %s %s", hxs(q), s)
}

type c06fOp struct {
	reset bool
	buf   []byte
	what  string
}

func init() {
	register("C06f", func(c *Ctx) {
		c.Or.Rule = "key sets: one PRNG stream from VERIF_SEED; fixed sets (empty, single, empty key, keys that are prefixes of keys, half-byte prefixes, long shared runs, the archived 11vl5 set) + the shared kinds (" +
			strings.Join(kindNames, "/") + ") + the C06 kinds (" + strings.Join(c06KindNames, "/") + "), at most 300 keys; values = fixed-width numbers with encoder I32/U32/I16/I64/I8 (round robin); " +
			"every set is written in each of the 12 legacy layout variants by the reference writer; the stream is loaded into ONE instance after a history of 0..3 earlier calls drawn from {Reset, load of another key set in another (legacy or current) layout, truncated stream, incompatible version, destroyed body}; " +
			"a case = (variant, encoder, keys, values, history); non-trivial = at least 2 keys and a non-empty history; distinct = distinct (variant, encoder, keys, values, history kinds)"
		type gen struct {
			kind string
			keys []string
		}
		x := func(n int) string { return strings.Repeat("x", n) }
		sets := []gen{
			{"empty", []string{}}, {"single", []string{""}}, {"single", []string{"\xff"}}, {"single", []string{"abc"}},
			{"emptykey-root", []string{"", "\x00", "\x00\x00", "a"}},
			{"prefix-keys", []string{"a", "ab", "abc", "abd", "b"}},
			{"prefix-keys(11vl5)", []string{"abc", "abcd", "abcdx", "abcdy", "abcdz", "abd", "abde", "bc", "bcd", "bcde", "cde"}},
			{"halfbyte-prefix", []string{"\xff\xf0", "\xff\xf1"}}, {"halfbyte-prefix", []string{"a\xff\xf0b", "a\xff\xffc", "b"}},
			{"longruns", []string{x(200) + "a", x(200) + "b", x(200) + "b" + strings.Repeat("\xff", 129)}},
		}
		// decimal keys: many inner nodes with few distinct bitmaps (short nodes: field 15 ShortMask non-zero)
		for _, n := range []int{128, 300} {
			ks := make([]string, n)
			for i := range ks {
				ks[i] = fmt.Sprintf("%04d", i*3)
			}
			sets = append(sets, gen{"decimal-keys", ks})
		}
		nsets := c.N(26, 260)
		for i := 0; len(sets) < nsets; i++ {
			r := c.R.Fork()
			if i%3 == 2 {
				k := r.Intn(c06KindCnt)
				sets = append(sets, gen{c06KindNames[k], c06GenKeys(r, k, false)})
			} else {
				k := r.Intn(KKindCnt)
				sets = append(sets, gen{kindNames[k], genKeySet(r, k, 1)})
			}
		}
		for i := range sets {
			if len(sets[i].keys) > 300 {
				sets[i].keys = sets[i].keys[:300]
			}
		}
		encNames := []string{"I32", "U32", "I16", "I64", "I8"}
		reported := map[string]bool{}
		compared, refused, histOps := 0, 0, 0

		// a valid stream of ANOTHER key set with the same encoder: legacy layout li (0..11) or the current format (12)
		other := func(r *RNG, spec *EncSpec) ([]byte, string) {
			for try := 0; try < 8; try++ {
				g := sets[r.Intn(len(sets))]
				ids := c06ValueIDs(r, len(g.keys))
				typed, vals := spec.Make(ids)
				li := r.Intn(13)
				if li == 12 {
					var b []byte
					_, p := protect(func() string {
						st, err := trie.NewSlimTrie(spec.Enc, g.keys, typed)
						if err != nil {
							return ""
						}
						b, _ = st.Marshal()
						return ""
					})
					if p == "" && b != nil {
						return b, "current"
					}
					continue
				}
				if b, err := c06Write(c06Layouts[li], spec.Enc, g.keys, vals, typed); err == nil {
					return b, c06Layouts[li].Name
				}
			}
			return nil, ""
		}

		for si, g := range sets {
			encName := encNames[si%len(encNames)]
			spec := specByName(encName)
			esize := spec.Enc.GetEncodedSize(nil)
			c.Or.Count("kind:" + g.kind)
			c.Or.Count("keys:" + bucket(len(g.keys)))
			c.Or.Count("enc:" + encName)
			for li, l := range c06Layouts {
				r := c.R.Fork()
				ids := c06ValueIDs(r, len(g.keys))
				typed, vals := spec.Make(ids)
				buf, err := c06Write(l, spec.Enc, g.keys, vals, typed)
				if err != nil {
					refused++
					c.Or.Count("outside-writer-domain(" + buildErrStr(err, g.keys) + ")")
					continue
				}
				if l.Slim {
					if m, _, err := c06dParseOld(buf); err == nil {
						if m.BigInnerOffset != 0 {
							c.Or.Count("0.5.10-stream-with-field-12(BigInnerOffset)")
						}
						if m.ShortMinusInner != 0 {
							c.Or.Count("0.5.10-stream-with-field-13(ShortMinusInner)")
						}
						if m.ShortMask != 0 {
							c.Or.Count("0.5.10-stream-with-field-15(ShortMask)")
						}
					}
				}
				// the history
				ops := []c06fOp{}
				for n := r.Intn(4); n > 0; n-- {
					switch r.Intn(6) {
					case 0:
						ops = append(ops, c06fOp{reset: true, what: "reset"})
					case 1, 2:
						if b, name := other(r, spec); b != nil {
							ops = append(ops, c06fOp{buf: b, what: "load:" + name})
						}
					case 3:
						if b, name := other(r, spec); b != nil && len(b) > 1 {
							ops = append(ops, c06fOp{buf: b[:r.Intn(len(b))], what: "truncated:" + name})
						}
					case 4:
						if b, name := other(r, spec); b != nil {
							nb := append([]byte{}, b...)
							copy(nb[:16], []byte("0.4.0\x00\x00\x00\x00\x00\x00\x00\x00\x00\x00\x00"))
							ops = append(ops, c06fOp{buf: nb, what: "incompatible:" + name})
						}
					default:
						if b, name := other(r, spec); b != nil && len(b) > 34 {
							nb := append([]byte{}, b...)
							for i := 32; i < len(nb) && i < 40; i++ {
								nb[i] = 0xff
							}
							ops = append(ops, c06fOp{buf: nb, what: "destroyed-body:" + name})
						}
					}
				}
				kinds := []string{}
				for _, o := range ops {
					kinds = append(kinds, o.what)
					c.Or.Count("history-op:" + strings.SplitN(o.what, ":", 2)[0])
				}
				c.Or.Count(fmt.Sprintf("history-length:%d", len(ops)))
				histOps += len(ops)
				c.Or.Case(fmt.Sprint(l.Name, encName, g.keys, ids, kinds), len(g.keys) >= 2 && len(ops) > 0)
				c.Or.Count("variant:" + l.Name)
				if si < 3 && li == 4*si {
					c.Or.Sample(map[string]interface{}{"variant": l.Name, "kind": g.kind, "encoder": encName, "keys_hex": c06HexKeys(g.keys), "history": kinds})
				}
				ops = append(ops, c06fOp{buf: buf, what: "final:" + l.Name})

				queries := genQueries(r, g.keys, len(g.keys)+10)
				if len(queries) > 40 {
					qs := queries[:0:0]
					for i, q := range queries {
						if i%(len(queries)/30+1) == 0 || i >= len(g.keys) {
							qs = append(qs, q)
						}
					}
					if len(qs) > 50 {
						qs = qs[:50]
					}
					queries = qs
				}

				id := fmt.Sprintf("g%d.%s.%s", si, l.Name, encName)
				cw, w := c.Cases(), c.Impl()
				fmt.Fprintf(cw, "T %s %d %d\n", id, li, esize)
				for i, k := range g.keys {
					fmt.Fprintf(cw, "K %s %s\n", hxs(k), hx(vals[i]))
				}
				fmt.Fprintf(cw, "E\n")
				fmt.Fprintf(w, "C %s\nW %s\n", id, hx(buf))

				var st *trie.SlimTrie
				if _, p := protect(func() string { st, _ = trie.NewSlimTrie(spec.Enc, nil, nil); return "" }); p != "" || st == nil {
					panic("NewSlimTrie(enc, nil, nil) failed")
				}
				lastKind := ""
				for oi, o := range ops {
					if o.reset {
						fmt.Fprintf(cw, "R\n")
						_, p := protect(func() string { st.Reset(); return "" })
						if p != "" {
							fmt.Fprintf(w, "h PANIC\n")
						} else {
							fmt.Fprintf(w, "h reset\n")
						}
						lastKind = "reset"
					} else {
						fmt.Fprintf(cw, "U %s\n", hx(o.buf))
						kind, _, _ := c07Unmarshal(st, o.buf)
						fmt.Fprintf(w, "h %s\n", kind)
						lastKind = kind
					}
					// queries after every call that leaves a known state (not after a failed one: a
					// protobuf error inside a completely read body leaves a partially decoded message)
					if lastKind == "ok" || lastKind == "reset" {
						qs := queries
						if oi < len(ops)-1 && len(qs) > 6 {
							qs = qs[:6]
						}
						for _, q := range qs {
							fmt.Fprintf(cw, "Q %s\n", hxs(q))
							fmt.Fprintf(w, "%s\n", c06fQueryLine(st, spec, q))
						}
						c.Or.Add("queries on instances after a history", len(qs))
					}
				}
				compared++

				// ---- oracle, from the property text ----
				if lastKind != "ok" {
					key := "C06:load-error@" + l.Name
					if !reported[key] {
						reported[key] = true
						c.Or.Violate(key, fmt.Sprintf("C06: Unmarshal of a %s stream after the history %v returned %s", l.Name, kinds, lastKind),
							map[string]interface{}{"property": "C06", "variant": l.Name, "encoder": encName, "keys_hex": c06HexKeys(g.keys), "history": kinds, "stream_hex": hx(buf)})
					}
					continue
				}
				complete := l.InnerPref && l.LeafPref
				if fd := c06Oracle(st, spec, g.keys, vals, complete, queries, nil, 10); fd != nil && !reported[fd.key+l.Name] {
					reported[fd.key+l.Name] = true
					c.Or.Violate(fd.key+"@"+l.Name+"(after-history)", fd.what+" (layout "+l.Name+", after the history "+fmt.Sprint(kinds)+")",
						map[string]interface{}{"property": "C06", "variant": l.Name, "encoder": encName, "keys_hex": c06HexKeys(g.keys), "history": kinds, "query_hex": hxs(fd.q), "got": fd.got, "want": fd.want})
				}
				if fresh, err := c06Load(buf, spec.Enc); err == nil {
					for _, q := range queries {
						a, b := c06fQueryLine(st, spec, q), c06fQueryLine(fresh, spec, q)
						if a != b && !reported["residue"+l.Name] {
							reported["residue"+l.Name] = true
							c.Or.Violate("C06:history-dependent-answer@"+l.Name, fmt.Sprintf("C06/C05: a %s stream loaded after the history %v answers %q, loaded into a fresh instance %q", l.Name, kinds, a, b),
								map[string]interface{}{"property": "C06", "variant": l.Name, "encoder": encName, "keys_hex": c06HexKeys(g.keys), "history": kinds, "query_hex": hxs(q), "got": a, "want": b})
						}
					}
				}
			}
		}
		c.Or.Extra["cases_compared"] = compared
		c.Or.Extra["history_calls_before_the_final_load"] = histOps
		c.Or.Extra["key_sets_refused_by_the_writer(no stream)"] = refused
	})
}
