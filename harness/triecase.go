package main

import (
	"bufio"
	"encoding/hex"
	"fmt"
	"strings"

	"github.com/openacid/slim/trie"
)

type TrieCase struct {
	ID      string
	Opt     [4]int8 // Dedup, Inner, Leaf, Complete: -1 nil, 0 false, 1 true
	Enc     string
	Keys    []string
	IDs     []uint64 // value class ids, nil = no values
	Queries []string
	Kind    string // generator kind, for the distribution
	VKind   string
	NoBig   bool // the model builds without 257-bit nodes (three-array legacy conversion)
}

func hx(b []byte) string {
	if len(b) == 0 {
		return "."
	}
	return hex.EncodeToString(b)
}
func hxs(s string) string { return hx([]byte(s)) }

func optPtr(v int8) *bool {
	if v < 0 {
		return nil
	}
	return trie.Bool(v == 1)
}

// GoOpt builds the option struct the way callers do. For half of the cases (decided by the
// case itself, so that a case always gets the same form) the fields that are true share ONE
// bool and the fields that are false share another - the `yes, no := trie.Bool(true),
// trie.Bool(false)` idiom: an implementation that writes through a pointer it was given
// changes the caller's other options with it.
func (c *TrieCase) GoOpt() trie.Opt {
	h := len(c.Keys) + len(c.ID)
	for _, ch := range c.ID {
		h = h*31 + int(ch)
	}
	if h%2 == 0 {
		return trie.Opt{DedupValue: optPtr(c.Opt[0]), InnerPrefix: optPtr(c.Opt[1]), LeafPrefix: optPtr(c.Opt[2]), Complete: optPtr(c.Opt[3])}
	}
	yes, no := trie.Bool(true), trie.Bool(false)
	sh := func(v int8) *bool {
		switch v {
		case 0:
			return no
		case 1:
			return yes
		}
		return nil
	}
	return trie.Opt{DedupValue: sh(c.Opt[0]), InnerPrefix: sh(c.Opt[1]), LeafPrefix: sh(c.Opt[2]), Complete: sh(c.Opt[3])}
}

// normalized option view (reference semantics of the four options)
func (c *TrieCase) Norm() (dedup, inner, leaf bool) {
	dedup = c.Opt[0] != 0
	inner = c.Opt[1] == 1
	leaf = c.Opt[2] == 1
	if c.Opt[3] == 1 {
		inner, leaf = true, true
	}
	return
}

func optc(v int8) string {
	switch v {
	case -1:
		return "-"
	case 0:
		return "0"
	}
	return "1"
}

// Values returns the typed slice for NewSlimTrie and the reference encoding.
func (c *TrieCase) Values() (interface{}, [][]byte, *EncSpec) {
	spec := specByName(c.Enc)
	if c.IDs == nil {
		return nil, nil, spec
	}
	vs, bs := spec.Make(c.IDs)
	return vs, bs, spec
}

func (c *TrieCase) WriteCase(w *bufio.Writer) {
	_, bs, _ := c.Values()
	hv := 0
	if c.IDs != nil {
		hv = 1
	}
	nb := ""
	if c.NoBig {
		nb = " nobig"
	}
	fmt.Fprintf(w, "T %s %s %s %s %s %d %s%s\n", c.ID, optc(c.Opt[0]), optc(c.Opt[1]), optc(c.Opt[2]), optc(c.Opt[3]), hv, c.Enc, nb)
	for i, k := range c.Keys {
		v := "-"
		if bs != nil {
			v = hx(bs[i])
		}
		fmt.Fprintf(w, "K %s %s\n", hxs(k), v)
	}
	for _, q := range c.Queries {
		fmt.Fprintf(w, "Q %s\n", hxs(q))
	}
	fmt.Fprintf(w, "E\n")
}

// protect runs f and reports a panic as ("PANIC", text).
func protect(f func() string) (s string, pmsg string) {
	defer func() {
		if r := recover(); r != nil {
			s = "PANIC"
			pmsg = fmt.Sprint(r)
		}
	}()
	return f(), ""
}

func nibsOfBitstr(bs []byte, bitLen int32) string {
	n := int(bitLen / 4)
	if n == 0 {
		return "."
	}
	var sb strings.Builder
	for i := 0; i < n; i++ {
		b := bs[i/2]
		if i%2 == 0 {
			b >>= 4
		}
		fmt.Fprintf(&sb, "%x", b&0xf)
	}
	return sb.String()
}

type Built struct {
	St   *trie.SlimTrie
	Err  error
	Spec *EncSpec
	Ref  [][]byte
}

func (c *TrieCase) Build() *Built {
	vs, bs, spec := c.Values()
	b := &Built{Spec: spec, Ref: bs}
	func() {
		defer func() {
			if r := recover(); r != nil {
				b.Err = fmt.Errorf("PANIC: %v", r)
			}
		}()
		b.St, b.Err = trie.NewSlimTrie(spec.Enc, c.Keys, vs, c.GoOpt())
	}()
	return b
}

func buildErrStr(err error, keys []string) string {
	// by its text, not by the symbol trie.ErrStepTooLong: the harness must still build against a
	// tree in which that error value does not exist (seeded/D3 reverts the fix that introduced it)
	if strings.Contains(err.Error(), "common run of keys is too long for a step") {
		return "err:step"
	}
	if strings.Contains(err.Error(), trie.ErrKeyOutOfOrder.Error()) {
		// the message carries the index: keys[%d] >= keys[%d]
		var i, j int
		if _, e := fmt.Sscanf(err.Error(), "keys[%d] >= keys[%d]", &i, &j); e == nil {
			return fmt.Sprintf("err:order:%d", i)
		}
		return "err:order:?"
	}
	if strings.HasPrefix(err.Error(), "PANIC") {
		return "PANIC"
	}
	return "err:other"
}

func valStr(spec *EncSpec, v interface{}) string {
	if v == nil {
		return "nil"
	}
	b, err := spec.Ref(v)
	if err != nil {
		return "BADTYPE:" + err.Error()
	}
	return hx(b)
}

// DumpView prints the decoded node view of a trie in the model's format.
func DumpView(w *bufio.Writer, st *trie.SlimTrie) {
	s, _ := protect(func() string {
		var sb strings.Builder
		nodes := st.VerifDump()
		leaves := []string{}
		hasLeaves := false
		for _, n := range nodes {
			if !n.IsInner && n.HasValue {
				hasLeaves = true
				for int(n.IthLeaf) >= len(leaves) {
					leaves = append(leaves, "?")
				}
				leaves[n.IthLeaf] = hx(n.Value)
			}
		}
		if hasLeaves {
			fmt.Fprintf(&sb, "LV %s\n", strings.Join(leaves, ","))
		} else {
			fmt.Fprintf(&sb, "LV nil\n")
		}
		for _, n := range nodes {
			if n.IsInner {
				big := 0
				if n.WordSize == 8 {
					big = 1
				}
				pfx := "-"
				if n.HasInnerPrefix {
					pfx = nibsOfBitstr(n.InnerPrefix, n.InnerPrefixLen)
				}
				ls := make([]string, len(n.Labels))
				for i, l := range n.Labels {
					ls[i] = fmt.Sprint(l)
				}
				plen := fmt.Sprint(n.InnerPrefixLen / 4)
				if n.InnerPrefixLen%4 != 0 {
					plen = fmt.Sprintf("%d/4", n.InnerPrefixLen)
				}
				fmt.Fprintf(&sb, "N %d I %d %s %s %d %s\n", n.ID, big, plen, pfx, n.FirstChild, strings.Join(ls, ","))
			} else {
				tail := "-"
				if n.HasLeafPrefix {
					tail = hx(n.LeafPrefix)
				}
				fmt.Fprintf(&sb, "N %d L %d %s\n", n.ID, n.IthLeaf, tail)
			}
		}
		return sb.String()
	})
	if s == "PANIC" {
		s = "DUMP PANIC\n"
	}
	w.WriteString(s)
}

func foundStr(spec *EncSpec, v interface{}, found bool) string {
	if !found {
		return "N"
	}
	return "F:" + valStr(spec, v)
}

func ovStr(spec *EncSpec, v interface{}) string {
	// Search returns a nil interface both for "no such neighbour" and for a
	// found neighbour of a trie without values; the id-level distinction is
	// printed separately by the hook-free API only where observable.
	if v == nil {
		return "-"
	}
	return valStr(spec, v)
}
