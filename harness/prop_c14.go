package main

// C14: the typed getters GetI8/GetI16/GetI32/GetI64 agree with Get.
//
// Tries are built with the matching encoder (encode.I8/I16/I32/I64) from value
// lists over the whole range of the type (min, max, -1, 0, 1 and random, in
// distinct / run / all-equal layouts so that DedupValue drops leaves), in every
// option combination, and queried fresh and after Marshal/Unmarshal with the
// C10 query set.  Oracle (from the property text): for every query the typed
// getter returns the found flag of Get and, when found, the number Get returns.
// Correspondence: Get, GetI<w> and "Get then decode" against the extracted
// model (driver MiscX, mode geti).

import (
	"fmt"
	"strings"

	"github.com/openacid/slim/trie"
)

var c14Encs = []string{"I8", "I16", "I32", "I64"}

func c14Width(enc string) uint {
	switch enc {
	case "I8":
		return 1
	case "I16":
		return 2
	case "I32":
		return 4
	}
	return 8
}

// c14GetI calls the typed getter of width w and returns (found, the number as int64).
func c14GetI(st *trie.SlimTrie, w uint, q string) (bool, int64) {
	switch w {
	case 1:
		v, f := st.GetI8(q)
		return f, int64(v)
	case 2:
		v, f := st.GetI16(q)
		return f, int64(v)
	case 4:
		v, f := st.GetI32(q)
		return f, int64(v)
	}
	v, f := st.GetI64(q)
	return f, v
}

// c14ViaGet is the reference: Get, then the type assertion a caller writes.
func c14ViaGet(st *trie.SlimTrie, w uint, q string) (bool, int64) {
	v, f := st.Get(q)
	if !f {
		return false, 0
	}
	switch w {
	case 1:
		return true, int64(v.(int8))
	case 2:
		return true, int64(v.(int16))
	case 4:
		return true, int64(v.(int32))
	}
	return true, v.(int64)
}

func c14Fmt(f bool, v int64) string {
	b := 0
	if f {
		b = 1
	}
	return fmt.Sprintf("%d %016x", b, uint64(v))
}

var c14VKinds = []string{"distinct", "runs", "allequal", "longruns"}

// value class ids: boundary values of the width and random ones
func c14Values(r *RNG, n int, w uint, vkind int) ([]uint64, map[string]int) {
	stat := map[string]int{}
	min := uint64(1) << (8*w - 1)
	pick := func() uint64 {
		switch r.Intn(8) {
		case 0:
			stat["value:min"]++
			return min
		case 1:
			stat["value:max"]++
			return min - 1
		case 2:
			stat["value:-1"]++
			return ^uint64(0)
		case 3:
			stat["value:0"]++
			return 0
		case 4:
			stat["value:1"]++
			return 1
		}
		stat["value:random"]++
		return r.U64()
	}
	ids := make([]uint64, n)
	cur := pick()
	for i := range ids {
		switch vkind {
		case 0:
			cur = pick()
		case 1:
			if i == 0 || r.Intn(3) != 0 {
				cur = pick()
			}
		case 2:
		case 3:
			if i == 0 || r.Intn(9) == 0 {
				cur = pick()
			}
		}
		ids[i] = cur
	}
	return ids, stat
}

type c14Finding struct {
	key, what, q, got, want string
	loaded                  bool
}

func c14Queries(c *Ctx, tc *TrieCase, st *trie.SlimTrie, spec *EncSpec, emit, loaded bool) *c14Finding {
	w := c14Width(tc.Enc)
	var first *c14Finding
	for _, q := range tc.Queries {
		g, _ := protect(func() string { v, f := st.Get(q); return foundStr(spec, v, f) })
		gi, pi := protect(func() string { f, v := c14GetI(st, w, q); return c14Fmt(f, v) })
		gd, _ := protect(func() string { f, v := c14ViaGet(st, w, q); return c14Fmt(f, v) })
		if emit {
			fmt.Fprintf(c.Impl(), "q %s G %s I %s D %s\n", hxs(q), g, gi, gd)
		}
		if first != nil {
			continue
		}
		switch {
		case gi == "PANIC":
			first = &c14Finding{key: "C14:panic", what: fmt.Sprintf("C14: GetI%d(%s) panics: %s", 8*w, hxs(q), pi), q: q, got: "PANIC", want: gd, loaded: loaded}
		case gi != gd:
			k := "C14:number-differs"
			if gi[0] != gd[0] {
				k = "C14:found-flag-differs"
			}
			first = &c14Finding{key: k, what: fmt.Sprintf("C14: GetI%d(%s) = (found,int64 bits) %s but Get gives %s", 8*w, hxs(q), gi, gd), q: q, got: gi, want: gd, loaded: loaded}
		}
		if gd[0] == '1' {
			c.Or.Add("queries-found", 1)
			if strings.HasPrefix(gd[2:], "8") || strings.HasPrefix(gd[2:], "f") {
				c.Or.Add("queries-found-negative", 1)
			}
		} else {
			c.Or.Add("queries-not-found", 1)
		}
	}
	return first
}

func c14Eval(c *Ctx, tc *TrieCase, emit bool) *c14Finding {
	if emit {
		tc.WriteCase(c.Cases())
		fmt.Fprintf(c.Impl(), "C %s\n", tc.ID)
	}
	b := tc.Build()
	if b.Err != nil {
		es := buildErrStr(b.Err, tc.Keys)
		if emit {
			fmt.Fprintf(c.Impl(), "B %s\n", es)
		}
		return &c14Finding{key: "C14:build-failed", what: fmt.Sprintf("C14: NewSlimTrie failed on a valid key list: %v", b.Err), got: es, want: "a trie"}
	}
	if emit {
		fmt.Fprintf(c.Impl(), "B ok\n")
	}
	if f := c14Queries(c, tc, b.St, b.Spec, emit, false); f != nil {
		return f
	}
	st2, _, err := reload(b.St, b.Spec)
	if emit {
		fmt.Fprintf(c.Cases(), "L %s\n", tc.ID)
		fmt.Fprintf(c.Impl(), "C %s+L\n", tc.ID)
	}
	if err != nil {
		if emit {
			fmt.Fprintf(c.Impl(), "B reload-failed\n")
		}
		return &c14Finding{key: "C14:reload-failed", what: fmt.Sprintf("C14: Marshal/Unmarshal failed: %v", err), got: err.Error(), want: "a loaded trie", loaded: true}
	}
	if emit {
		fmt.Fprintf(c.Impl(), "B ok\n")
	}
	if f := c14Queries(c, tc, st2, b.Spec, emit, true); f != nil {
		f.key += "+loaded"
		return f
	}
	return nil
}

func c14Shrink(c *Ctx, tc *TrieCase, f *c14Finding) (*TrieCase, *c14Finding) {
	cur, curf := tc, f
	try := func(cand *TrieCase) bool {
		nf := c14Eval(c, cand, false)
		if nf != nil && nf.key == curf.key {
			cur, curf = cand, nf
			return true
		}
		return false
	}
	if curf.q != "" {
		nt := *cur
		nt.Queries = []string{curf.q}
		try(&nt)
	}
	budget := 300
	for chunk := len(cur.Keys) / 2; chunk >= 1 && budget > 0; chunk /= 2 {
		for i := 0; i+chunk <= len(cur.Keys) && budget > 0; {
			budget--
			nt := *cur
			nt.Keys = append(append([]string{}, cur.Keys[:i]...), cur.Keys[i+chunk:]...)
			nt.IDs = append(append([]uint64{}, cur.IDs[:i]...), cur.IDs[i+chunk:]...)
			if len(nt.Keys) == 0 || !try(&nt) {
				i += chunk
			}
		}
	}
	return cur, curf
}

func init() {
	register("C14", func(c *Ctx) {
		c.Or.Rule = "cases: one PRNG stream from VERIF_SEED; key-set kinds " + strings.Join(kindNames, "/") + " x value layouts " + strings.Join(c14VKinds, "/") +
			" over {min, max, -1, 0, 1, random} of the integer type x encoders I8/I16/I32/I64 with the matching getter x 16 option combos (+ raw nil options); plus one empty trie per width; " +
			"each trie is queried fresh and after Marshal/Unmarshal with the C10 query set (keys, mutations, prefixes, extensions, extremes); a case = (options, encoder, keys, values, queries); non-trivial = at least 2 keys; distinct = distinct canonical case text"
		n := c.N(400, 6000)
		reported := map[string]bool{}
		for i := 0; i < n; i++ {
			r := c.R.Fork()
			tc := genTrieCase(r, fmt.Sprintf("c14_%d", i), r.Intn(KKindCnt), VDistinct, 1, 100)
			tc.Enc = c14Encs[i%4]
			vk := r.Intn(len(c14VKinds))
			var stat map[string]int
			tc.IDs, stat = c14Values(r, len(tc.Keys), c14Width(tc.Enc), vk)
			tc.VKind = c14VKinds[vk]
			if i < 4 {
				// the empty trie: every query is (0, false)
				tc.Keys, tc.IDs, tc.Kind, stat = []string{}, []uint64{}, "empty", map[string]int{}
				tc.Queries = []string{"", "a", "\x00", "\xff\xff"}
			}
			for k, v := range stat {
				c.Or.Add(k, v)
			}
			canon := fmt.Sprint(tc.Opt, tc.Enc, tc.Keys, tc.IDs, tc.Queries)
			c.Or.Case(canon, len(tc.Keys) >= 2)
			c.Or.Count("kind:" + tc.Kind)
			c.Or.Count("values:" + tc.VKind)
			c.Or.Count("opt:" + optc(tc.Opt[0]) + optc(tc.Opt[1]) + optc(tc.Opt[2]) + optc(tc.Opt[3]))
			c.Or.Count("enc:" + tc.Enc)
			c.Or.Count("keys:" + bucket(len(tc.Keys)))
			c.Or.Add("queries", len(tc.Queries)*2)
			if i >= 4 && i < 6 {
				c.Or.Sample(tc.replay("C14", "", false, "", ""))
			}
			f := c14Eval(c, tc, true)
			if f != nil && !reported[f.key] {
				reported[f.key] = true
				stc, sf := c14Shrink(c, tc, f)
				c.Or.Violate(sf.key, sf.what, stc.replay("C14", sf.q, sf.loaded, sf.got, sf.want))
			}
		}
	})
}
