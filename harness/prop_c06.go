package main

// C06: data written by every older compatible version loads and answers correctly.
//
// For every historical layout variant (c06Layouts) and generated key sets the
// reference legacy writer (c06_writers.go, validated on every run against the
// 97 archived fixtures by c06Acceptance) produces a stream; the REAL loader
// (*SlimTrie).Unmarshal must accept it and Get / RangeGet / Search on every
// indexed key must answer exactly as the index the stream encodes; the
// full-prefix variant must also give exact absent-key answers and correct
// scans. The oracle is a sorted key list. All archived fixtures go through the
// same oracle with their testkeys key sets.
//
// Correspondence: the decoded node view and the lookups of the legacy-LOADED
// trie are written to impl.txt in the format of the shared trie cases; the
// extracted Coq model builds the current-format trie from the same keys. For
// the 0.5.10/0.5.11 layouts every case is compared; for the three-array
// layouts (whose conversion never makes 257-bit nodes) the cases in which the
// current builder makes no big node either.

import (
	"bufio"
	"bytes"
	"fmt"
	"os"
	"runtime"
	"sort"
	"strings"
	"time"

	"github.com/openacid/slim/encode"
	"github.com/openacid/slim/trie"
)

type c06Case struct {
	TC        *TrieCase
	L         *c06Layout
	AltSingle bool // single-key set written as root(inner, one child) + leaf
}

func (cs *c06Case) complete() bool { return cs.L.Slim && cs.L.InnerPref && cs.L.LeafPref }

type c06Replay struct {
	Property string   `json:"property"`
	Variant  string   `json:"variant"`
	Header   string   `json:"header_version"`
	AltRoot  bool     `json:"single_key_root_as_inner,omitempty"`
	Encoder  string   `json:"encoder"`
	Keys     []string `json:"keys_hex"`
	Vals     []string `json:"values_hex"`
	Query    string   `json:"query_hex,omitempty"`
	Got      string   `json:"got"`
	Want     string   `json:"want"`
	Stream   string   `json:"stream_hex,omitempty"`
	Fixture  string   `json:"fixture,omitempty"`
}

func (cs *c06Case) replay(f *finding, buf []byte) c06Replay {
	_, bs, _ := cs.TC.Values()
	r := c06Replay{Property: "C06", Variant: cs.L.Name, Header: cs.L.Header, AltRoot: cs.AltSingle, Encoder: cs.TC.Enc,
		Keys: []string{}, Vals: []string{}, Query: hxs(f.q), Got: f.got, Want: f.want}
	for i, k := range cs.TC.Keys {
		r.Keys = append(r.Keys, hxs(k))
		r.Vals = append(r.Vals, hx(bs[i]))
	}
	if len(buf) <= 4096 {
		r.Stream = hx(buf)
	}
	return r
}

// ---------------------------------------------------------------- writing and loading

// c06WriteCase returns the stream; err != nil means the key set is outside what
// the old writer could encode (a step that does not fit 16 bits).
func c06WriteCase(cs *c06Case) ([]byte, error) {
	typed, bs, spec := cs.TC.Values()
	if cs.AltSingle && !cs.L.Slim && len(cs.TC.Keys) == 1 && len(cs.TC.Keys[0]) > 0 {
		return c06WriteAltSingle(cs.L, cs.TC.Keys[0], bs[0])
	}
	return c06Write(cs.L, spec.Enc, cs.TC.Keys, bs, typed)
}

func c06Load(buf []byte, enc encode.Encoder) (st *trie.SlimTrie, err error) {
	defer func() {
		if r := recover(); r != nil {
			err = fmt.Errorf("PANIC: %v", r)
			st = nil
		}
	}()
	st, err = trie.NewSlimTrie(enc, nil, nil)
	if err != nil {
		return nil, err
	}
	err = st.Unmarshal(buf)
	if err != nil {
		return nil, err
	}
	return st, nil
}

// c06Guard runs f and watches it: "" when f returned; otherwise why it was
// given up (f keeps running in its goroutine - the caller must exit).
func c06Guard(f func()) string {
	done := make(chan struct{})
	go func() {
		defer close(done)
		f()
	}()
	select {
	case <-done:
		return ""
	case <-time.After(20 * time.Millisecond):
	}
	start := time.Now()
	tick := time.NewTicker(100 * time.Millisecond)
	defer tick.Stop()
	var ms runtime.MemStats
	for {
		select {
		case <-done:
			return ""
		case <-tick.C:
			runtime.ReadMemStats(&ms)
			if ms.HeapAlloc > 2<<30 {
				return fmt.Sprintf("allocated more than 2 GiB (%d MiB after %.1f s) without returning", ms.HeapAlloc>>20, time.Since(start).Seconds())
			}
			if time.Since(start) > 120*time.Second {
				return "did not return within 120 s"
			}
		}
	}
}

// ---------------------------------------------------------------- the oracle

// c06Oracle checks a loaded trie against the sorted key list keys with the
// encoded values vals. Written from the property text only.
func c06Oracle(st *trie.SlimTrie, spec *EncSpec, keys []string, vals [][]byte, complete bool, queries []string, scanStarts []string, scanLimit int) *finding {
	fail := func(key, q, got, want string) *finding {
		return &finding{key: "C06:" + key, what: fmt.Sprintf("C06: %s on query %s: got %s, want %s", key, hxs(q), got, want), q: q, got: got, want: want}
	}
	v := func(i int) string {
		if i < 0 || i >= len(keys) {
			return "-"
		}
		return hx(vals[i])
	}
	// every indexed key
	for i, k := range keys {
		r := runQuery(st, spec, k)
		if r.Panic != "" {
			return fail("panic-on-indexed-key", k, "PANIC "+r.Panic, "an answer")
		}
		if want := "F:" + v(i); r.Get != want {
			return fail("get-wrong", k, r.Get, want)
		}
		if want := "F:" + v(i); r.Range != want {
			return fail("rangeget-wrong", k, r.Range, want)
		}
		got := r.SL + " " + r.SE + " " + r.SR
		want := v(i-1) + " " + v(i) + " " + v(i+1)
		if got != want {
			return fail("search-wrong", k, got, want)
		}
	}
	// C18 clause: the key count survives loading
	kc := int32(-1)
	s, p := protect(func() string { kc = st.Stat().KeyCnt; return "" })
	if s == "PANIC" {
		return fail("stat-panic", "", "PANIC "+p, fmt.Sprint(len(keys)))
	}
	if int(kc) != len(keys) {
		return fail("stat-keycnt", "", fmt.Sprint(kc), fmt.Sprint(len(keys)))
	}
	if !complete {
		return nil
	}
	// full prefixes: exact answers on any query
	for _, q := range queries {
		r := runQuery(st, spec, q)
		if r.Panic != "" {
			return fail("allpref-panic", q, "PANIC "+r.Panic, "an answer")
		}
		ge := sort.SearchStrings(keys, q) // first key >= q
		eq := -1
		if ge < len(keys) && keys[ge] == q {
			eq = ge
		}
		floor, pred, succ := ge-1, ge-1, ge
		if eq >= 0 {
			floor, succ = eq, eq+1
		}
		wantG := "N"
		if eq >= 0 {
			wantG = "F:" + v(eq)
		}
		if r.Get != wantG {
			return fail("allpref-get", q, r.Get, wantG)
		}
		wantR := "N"
		if floor >= 0 {
			wantR = "F:" + v(floor)
		}
		if r.Range != wantR {
			return fail("allpref-rangeget", q, r.Range, wantR)
		}
		got := r.SL + " " + r.SE + " " + r.SR
		want := v(pred) + " " + v(eq) + " " + v(succ)
		if got != want {
			return fail("allpref-search", q, got, want)
		}
	}
	// scans
	for si, start := range scanStarts {
		for _, incl := range []bool{true, false} {
			withValue := !(si%4 == 3 && incl)
			from := sort.SearchStrings(keys, start)
			if !incl && from < len(keys) && keys[from] == start {
				from++
			}
			var got []string
			s, p := protect(func() string {
				st.ScanFrom(start, incl, withValue, func(k, val []byte) bool {
					if withValue {
						got = append(got, hx(k)+"="+hx(val))
					} else if val != nil {
						got = append(got, hx(k)+"=unexpected-value")
					} else {
						got = append(got, hx(k))
					}
					return len(got) < scanLimit
				})
				return ""
			})
			name := fmt.Sprintf("ScanFrom(include=%v,withValue=%v)", incl, withValue)
			if s == "PANIC" {
				return fail("scan-panic", start, name+" PANIC "+p, "the keys >= start")
			}
			want := []string{}
			for i := from; i < len(keys) && len(want) < scanLimit; i++ {
				if withValue {
					want = append(want, hxs(keys[i])+"="+hx(vals[i]))
				} else {
					want = append(want, hxs(keys[i]))
				}
			}
			if len(got) != len(want) {
				return fail("scan-wrong", start, fmt.Sprintf("%s yields %d items %s", name, len(got), c06Head(got)), fmt.Sprintf("%d items %s", len(want), c06Head(want)))
			}
			for i := range got {
				if got[i] != want[i] {
					return fail("scan-wrong", start, fmt.Sprintf("%s item %d = %s", name, i, got[i]), want[i])
				}
			}
		}
	}
	return nil
}

func c06Head(l []string) string {
	if len(l) > 6 {
		return strings.Join(l[:6], ",") + ",..."
	}
	return strings.Join(l, ",")
}

func c06ScanStarts(r *RNG, keys, queries []string) []string {
	ss := []string{""}
	if len(keys) > 0 {
		ss = append(ss, keys[0], keys[len(keys)-1], keys[len(keys)-1]+"\x00", keys[r.Intn(len(keys))], keys[len(keys)/2])
	}
	for i := 0; i < 6 && len(queries) > 0; i++ {
		ss = append(ss, queries[r.Intn(len(queries))])
	}
	return ss
}

// ---------------------------------------------------------------- node views

func c06View(st *trie.SlimTrie) string {
	var b bytes.Buffer
	w := bufio.NewWriter(&b)
	DumpView(w, st)
	w.Flush()
	return b.String()
}

// c06ExpectView is the node view the conversion of a three-array stream is
// specified to produce, computed from the key list alone: the old trie with
// every inner-and-leaf node split (its value moves to a new first child under
// the empty label 0), nodes renumbered breadth first, label b -> b+1, prefix
// length = step-1 nibbles, no stored prefixes, no big nodes.
func c06ExpectView(keys []string, vals [][]byte) string {
	old, err := c06BuildOld(keys, false)
	if err != nil || old.N == 0 {
		return "LV nil\n"
	}
	inner := map[int32]int{}
	for i, id := range old.InnerIdx {
		inner[id] = i
	}
	leaf := map[int32]int32{}
	for i, id := range old.LeafIdx {
		leaf[id] = old.LeafKey[i]
	}
	step := map[int32]int{}
	for i, id := range old.StepIdx {
		step[id] = int(old.Step[i])
	}
	type qe struct {
		old      int32
		leafOnly bool
	}
	queue := []qe{{0, false}}
	lines := []string{}
	lvs := []string{}
	for id := 0; id < len(queue); id++ {
		q := queue[id]
		ii, isInner := inner[q.old]
		lk, isLeaf := leaf[q.old]
		if q.leafOnly || !isInner {
			lines = append(lines, fmt.Sprintf("N %d L %d -", id, len(lvs)))
			lvs = append(lvs, hx(vals[lk]))
			continue
		}
		fc := len(queue)
		labels := []string{}
		if isLeaf {
			labels = append(labels, "0")
			queue = append(queue, qe{q.old, true})
		}
		next := old.FirstChild[ii]
		for b := 0; b < 16; b++ {
			if old.BM[ii]&(1<<uint(b)) != 0 {
				labels = append(labels, fmt.Sprint(b+1))
				queue = append(queue, qe{next, false})
				next++
			}
		}
		st := 0
		if s, ok := step[q.old]; ok {
			st = s - 1
		}
		lines = append(lines, fmt.Sprintf("N %d I 0 %d - %d %s", id, st, fc, strings.Join(labels, ",")))
	}
	return "LV " + strings.Join(lvs, ",") + "\n" + strings.Join(lines, "\n") + "\n"
}

// c06Fresh builds today's trie on the same keys/values with the prefix options
// of the layout and without de-duplication.
func c06Fresh(cs *c06Case) *trie.SlimTrie {
	typed, _, spec := cs.TC.Values()
	var st *trie.SlimTrie
	protect(func() string {
		st, _ = trie.NewSlimTrie(spec.Enc, cs.TC.Keys, typed, cs.TC.GoOpt())
		return ""
	})
	return st
}

// ---------------------------------------------------------------- one case

// the last stream written per encoder: loaded first into the "used" instance of the next case
var c06PrevStream = map[string][]byte{}

type c06Stats struct {
	viewFreshEq, viewFreshNe, viewFreshBig int
	viewSpecEq, viewSpecNe                 int
	corrEmitted, corrSkippedBig            int
	rawEq, rawNe                           int
	firstViewDiff                          interface{}
}

// c06Eval writes, loads and checks one case. emit: also write the case and the
// observables of the loaded trie for the model comparison.
func c06Eval(c *Ctx, cs *c06Case, emit bool, stc *c06Stats) (*finding, []byte) {
	buf, err := c06WriteCase(cs)
	if err != nil {
		c.Or.Count("outside-old-writer-domain(step>65535)")
		return nil, nil
	}
	_, bs, spec := cs.TC.Values()
	var starts []string
	if cs.complete() {
		starts = c06ScanStarts(c.R.Fork(), cs.TC.Keys, cs.TC.Queries)
	}
	// load + oracle under a watchdog: a loader that does not terminate (or
	// allocates without bound) on a legacy stream is a finding, not a dead harness
	var st *trie.SlimTrie
	var fd *finding
	hung := c06Guard(func() {
		var err error
		st, err = c06Load(buf, spec.Enc)
		if err != nil {
			kind := "load-error"
			if strings.HasPrefix(err.Error(), "PANIC") {
				kind = "load-panic"
			}
			fd = &finding{key: "C06:" + kind, what: fmt.Sprintf("C06: Unmarshal of a %s stream failed: %v", cs.L.Name, err), got: err.Error(), want: "a loaded trie"}
			return
		}
		fd = c06Oracle(st, spec, cs.TC.Keys, bs, cs.complete(), cs.TC.Queries, starts, 1<<30)
	})
	if hung != "" {
		f := &finding{key: "C06:no-termination", what: "C06: Unmarshal or a lookup on a " + cs.L.Name + " stream " + hung, got: hung, want: "a loaded trie that answers"}
		c.Or.Violate(f.key+"@"+cs.L.Name, f.what+" (layout "+cs.L.Name+"; not minimised: every attempt may hang)", cs.replay(f, buf))
		// the runaway goroutine cannot be stopped: write the evidence and leave
		c.Close()
		fmt.Printf("C06: evaluations=%d distinct=%d violations=%d (stopped at a non-terminating load)\n", c.Or.Evaluations, c.Or.Distinct, len(c.Or.Violations))
		os.Exit(0)
	}
	if fd != nil {
		return fd, buf
	}
	// the same stream loaded into an instance that is ALREADY IN USE (it holds the trie of the
	// previous stream written with the same encoder): it must load and answer like a fresh load
	if prev := c06PrevStream[spec.Name]; prev != nil {
		var fu *finding
		hung := c06Guard(func() {
			defer func() {
				if r := recover(); r != nil {
					fu = &finding{key: "C06:used-instance-load-panic", what: fmt.Sprintf("C06: Unmarshal of a %s stream into an instance that already holds a trie panicked: %v", cs.L.Name, r), got: fmt.Sprint(r), want: "a loaded trie"}
				}
			}()
			used, err := trie.NewSlimTrie(spec.Enc, nil, nil)
			if err != nil || used.Unmarshal(prev) != nil {
				return
			}
			if err := used.Unmarshal(buf); err != nil {
				fu = &finding{key: "C06:used-instance-load-error", what: fmt.Sprintf("C06: Unmarshal of a %s stream into an instance that already holds a trie failed: %v", cs.L.Name, err), got: err.Error(), want: "a loaded trie"}
				return
			}
			if f := c06Oracle(used, spec, cs.TC.Keys, bs, cs.complete(), cs.TC.Queries, starts, 1<<30); f != nil {
				f.key = "C06:used-instance-" + strings.TrimPrefix(f.key, "C06:")
				f.what = "C06: loaded into an instance already in use: " + f.what
				fu = f
			}
		})
		if hung == "" && fu != nil {
			return fu, buf
		}
	}
	c06PrevStream[spec.Name] = buf
	if !emit {
		return nil, buf
	}

	// node view relations (reported in the evidence, not violations: the
	// property speaks about answers, the view is the tie to the Coq model)
	loaded := c06View(st)
	fresh := c06Fresh(cs)
	freshBig := fresh != nil && fresh.VerifInner().BigInnerCnt > 0
	note := func(kind, want string) {
		if stc.firstViewDiff == nil {
			stc.firstViewDiff = map[string]interface{}{"kind": kind, "variant": cs.L.Name, "keys_hex": c06HexKeys(cs.TC.Keys), "loaded_view": loaded, "other_view": want}
		}
	}
	if cs.L.Slim && fresh != nil {
		a, b := fresh.VerifInner(), st.VerifInner()
		same := (a.InnerPrefixes == nil) == (b.InnerPrefixes == nil) && (a.Leaves == nil) == (b.Leaves == nil)
		if same && a.InnerPrefixes != nil {
			same = bytes.Equal(a.InnerPrefixes.Bytes, b.InnerPrefixes.Bytes)
		}
		if same && a.Leaves != nil {
			same = a.Leaves.N == b.Leaves.N && a.Leaves.EltCnt == b.Leaves.EltCnt && a.Leaves.FixedSize == b.Leaves.FixedSize &&
				fmt.Sprint(a.Leaves.PresenceBM) == fmt.Sprint(b.Leaves.PresenceBM) && bytes.Equal(a.Leaves.Bytes, b.Leaves.Bytes)
		}
		if same {
			stc.rawEq++
		} else {
			stc.rawNe++
			note("0.5.10 loaded InnerPrefixes.Bytes / Leaves fields vs fresh build", fmt.Sprint(a.InnerPrefixes, a.Leaves))
		}
	}
	if cs.L.Slim {
		if fresh != nil && c06View(fresh) == loaded {
			stc.viewFreshEq++
		} else {
			stc.viewFreshNe++
			if fresh != nil {
				note("0.5.10 loaded vs fresh build with the same options", c06View(fresh))
			}
		}
	} else {
		if len(cs.TC.Keys) > 0 && !cs.AltSingle {
			if want := c06ExpectView(cs.TC.Keys, bs); want == loaded {
				stc.viewSpecEq++
			} else {
				stc.viewSpecNe++
				note("three-array loaded vs specified conversion", want)
			}
		}
		if freshBig {
			stc.viewFreshBig++
		} else if fresh != nil && !cs.AltSingle {
			if c06View(fresh) == loaded {
				stc.viewFreshEq++
			} else {
				stc.viewFreshNe++
				note("three-array loaded vs fresh build without big nodes", c06View(fresh))
			}
		}
	}

	// correspondence with the Coq model of the CURRENT builder
	if cs.AltSingle || len(cs.TC.Keys) == 0 || len(cs.TC.Keys) > 400 {
		return nil, buf
	}
	// the three-array conversion runs the creator with isBig = false: the model builds with
	// Model.build_gen false (no 257-bit nodes)
	cs.TC.NoBig = !cs.L.Slim
	if freshBig && !cs.L.Slim {
		stc.corrSkippedBig++ // counted for the distribution: these are compared against build_gen false
	}
	stc.corrEmitted++
	cs.TC.WriteCase(c.Cases())
	w := c.Impl()
	fmt.Fprintf(w, "C %s\n", cs.TC.ID)
	fmt.Fprintf(w, "B ok\n")
	w.WriteString(loaded)
	for _, q := range cs.TC.Queries {
		fmt.Fprintf(w, "%s\n", runQuery(st, spec, q).Line(q))
	}
	return nil, buf
}

func c06HexKeys(ks []string) []string {
	out := make([]string, len(ks))
	for i, k := range ks {
		out[i] = hxs(k)
	}
	return out
}

// c06Shrink removes keys while the same finding persists.
func c06Shrink(c *Ctx, cs *c06Case, f *finding) (*c06Case, *finding, []byte) {
	cur, curf := cs, f
	var curbuf []byte
	_, curbuf = c06Eval(c, cur, false, nil)
	try := func(cand *c06Case) bool {
		nf, b := c06Eval(c, cand, false, nil)
		if nf != nil && nf.key == curf.key {
			cur, curf, curbuf = cand, nf, b
			return true
		}
		return false
	}
	clone := func(t *c06Case, drop, n int) *c06Case {
		tc := *t.TC
		tc.Keys = append(append([]string{}, t.TC.Keys[:drop]...), t.TC.Keys[drop+n:]...)
		tc.IDs = append(append([]uint64{}, t.TC.IDs[:drop]...), t.TC.IDs[drop+n:]...)
		return &c06Case{TC: &tc, L: t.L, AltSingle: t.AltSingle}
	}
	budget := 600
	for chunk := (len(cur.TC.Keys) + 1) / 2; chunk >= 1 && budget > 0; chunk /= 2 {
		for i := 0; i+chunk <= len(cur.TC.Keys) && budget > 0; {
			budget--
			if !try(clone(cur, i, chunk)) {
				i += chunk
			}
		}
	}
	if curf.q != "" {
		tc := *cur.TC
		tc.Queries = []string{curf.q}
		try(&c06Case{TC: &tc, L: cur.L, AltSingle: cur.AltSingle})
	}
	return cur, curf, curbuf
}

// ---------------------------------------------------------------- key sets

const (
	c06KEmpty = iota
	c06KSingle
	c06KHalfByte
	c06KEmptyRoot
	c06KPrefixChainLong
	c06KindCnt
)

var c06KindNames = []string{"empty", "single", "halfbyte-prefix", "emptykey-root", "long-prefix-chain"}

func c06GenKeys(r *RNG, kind int, big bool) []string {
	ks := []string{}
	switch kind {
	case c06KEmpty:
		return ks
	case c06KSingle:
		switch r.Intn(4) {
		case 0:
			ks = append(ks, "")
		case 1:
			ks = append(ks, randBytes(r, 1+r.Intn(5)))
		case 2:
			ks = append(ks, randBytes(r, []int{127, 128, 129, 300, 1000}[r.Intn(5)]))
		default:
			ks = append(ks, string([]byte{diverseBytes[r.Intn(len(diverseBytes))]}))
		}
	case c06KHalfByte:
		// groups of keys whose common prefix ends on a half byte, after every
		// kind of byte (0xff, 0x00, 0x80, ...), at several depths, so that inner
		// prefixes are truncated (control byte 1) after arbitrary bytes.
		ng := 1 + r.Intn(4)
		for g := 0; g < ng; g++ {
			pre := randBytes(r, r.Intn(4))
			if g > 0 && r.Bool() && len(ks) > 0 {
				k := ks[r.Intn(len(ks))]
				pre = k[:r.Intn(len(k)+1)]
			}
			mid := []byte{0xff, 0xff, 0x00, 0x80, 0x7f, 0x01, byte(r.U64())}[r.Intn(7)]
			run := strings.Repeat(string([]byte{mid}), 1+r.Intn(3))
			hi := byte(r.Intn(16)) << 4
			n := 2 + r.Intn(4)
			for i := 0; i < n; i++ {
				ks = append(ks, pre+run+string([]byte{hi | byte(r.Intn(16))})+randBytes(r, r.Intn(3)))
			}
			if r.Intn(3) == 0 {
				ks = append(ks, pre+run)
			}
		}
	case c06KEmptyRoot:
		// the empty key is stored on the root of a large trie
		ks = append(ks, "")
		n := 100 + r.Intn(300)
		if big {
			n = 3000 + r.Intn(5000)
		}
		for i := 0; i < n; i++ {
			ks = append(ks, randBytes(r, 1+r.Intn(4)))
		}
	case c06KPrefixChainLong:
		// every key is a prefix of the next; extensions longer than 255 nibbles
		k := randBytes(r, r.Intn(3))
		n := 2 + r.Intn(5)
		for i := 0; i < n; i++ {
			ks = append(ks, k)
			ext := []int{1, 2, 127, 128, 129, 200, 700}[r.Intn(7)]
			if r.Bool() {
				k += strings.Repeat(string([]byte{byte(r.U64())}), ext)
			} else {
				k += randBytes(r, ext)
			}
		}
		if r.Bool() {
			ks = append(ks, k[:len(k)-1]+string([]byte{k[len(k)-1] ^ 0x10}))
		}
	}
	return uniqSorted(ks)
}

// distinct 4-byte values that are not the key positions
func c06ValueIDs(r *RNG, n int) []uint64 {
	salt := uint32(r.U64())
	ids := make([]uint64, n)
	for i := range ids {
		ids[i] = uint64(uint32(i)*2654435761 + salt)
	}
	return ids
}

func c06Opt(l *c06Layout) [4]int8 {
	o := [4]int8{0, 0, 0, 0}
	if l.InnerPref {
		o[1] = 1
	}
	if l.LeafPref {
		o[2] = 1
	}
	return o
}

// ---------------------------------------------------------------- the check

func init() {
	register("C06", func(c *Ctx) {
		c.Or.Rule = "key sets: one PRNG stream from VERIF_SEED; the 8 shared kinds (" + strings.Join(kindNames, "/") + ") + C06 kinds (" + strings.Join(c06KindNames, "/") +
			"; thorough adds one set with > 65535 old nodes); values = distinct 4-byte LE numbers (encoder I32 or U32); every key set is written in all " + fmt.Sprint(len(c06Layouts)) +
			" layout variants by the reference legacy writers and loaded by the real Unmarshal; a case = (variant, keys, values); non-trivial = at least 2 keys; distinct = distinct (variant, keys, values). " +
			"All archived fixtures are loaded and checked with their testkeys key sets as well (counted as fixture:* in the distribution)."
		stats := &c06Stats{}
		reported := map[string]bool{}
		report := func(cs *c06Case, f *finding, fixture string) {
			if reported[f.key+"@"+cs.L.Name] {
				return
			}
			reported[f.key+"@"+cs.L.Name] = true
			scs, sf, buf := cs, f, []byte(nil)
			if fixture == "" {
				scs, sf, buf = c06Shrink(c, cs, f)
			}
			rp := scs.replay(sf, buf)
			rp.Fixture = fixture
			if fixture != "" {
				// keys = testkeys.Load(set of the file name), values = int32 0..n-1
				rp.Keys, rp.Vals, rp.Stream = nil, nil, ""
			}
			c.Or.Violate(sf.key+"@"+scs.L.Name, sf.what+" (layout "+scs.L.Name+")", rp)
		}

		// 1. acceptance of the reference writers on the archived fixtures
		fx, skipped, err := c06LoadFixtures(c.Repo)
		if err != nil {
			panic(err)
		}
		acc := c06Acceptance(c, fx, skipped)
		c.Or.Extra["writer_acceptance"] = acc
		c.Or.Extra["writer_acceptance_summary"] = fmt.Sprintf("%d fixtures: %d reproduced byte-identically, %d identical in every field the loader reads, %d not reproduced, %d files not matched",
			len(fx), len(acc.Identical), len(acc.Logical), len(acc.Failed), len(acc.Skipped))

		// 2. generated key sets x all layouts
		nsets := c.N(60, 900)
		type gen struct {
			kind string
			keys []string
		}
		sets := []gen{}
		// the sets every run must contain
		sets = append(sets, gen{"empty", []string{}}, gen{"single", []string{""}}, gen{"single", []string{"\xff"}},
			gen{"halfbyte-prefix", []string{"\xff\xf0", "\xff\xf1"}}, gen{"halfbyte-prefix", []string{"a\xff\xf0b", "a\xff\xffc", "b"}},
			gen{"emptykey-root", []string{"", "\x00", "\x00\x00", "a"}},
			gen{"longruns", []string{strings.Repeat("x", 200) + "a", strings.Repeat("x", 200) + "b", strings.Repeat("x", 200) + "b" + strings.Repeat("\xff", 129)}})
		// key counts around the multiples of 64 (leaf and node counts that fill their bitmap words
		// exactly): 63, 64, 65, 127, 128, 129 and one seed-dependent multiple
		{
			r := c.R.Fork()
			for _, n := range []int{63, 64, 65, 127, 128, 129, 64 * (3 + r.Intn(5))} {
				ks := make([]string, n)
				for i := range ks {
					ks[i] = fmt.Sprintf("%04d", i*3)
				}
				sets = append(sets, gen{"count-mod-64", ks})
			}
		}
		for i := 0; len(sets) < nsets; i++ {
			r := c.R.Fork()
			if i%3 == 2 {
				k := r.Intn(c06KindCnt)
				sets = append(sets, gen{c06KindNames[k], c06GenKeys(r, k, c.Thorough() && r.Intn(8) == 0)})
			} else {
				k := r.Intn(KKindCnt)
				sets = append(sets, gen{kindNames[k], genKeySet(r, k, 1+r.Intn(2))})
			}
		}
		if c.Thorough() {
			// > 65535 old nodes: 70000 keys of 3..5 arbitrary bytes plus the empty key
			r := c.R.Fork()
			ks := []string{""}
			for i := 0; i < 70000; i++ {
				ks = append(ks, randBytes(r, 3+r.Intn(3)))
			}
			ks = uniqSorted(ks)
			if old, err := c06BuildOld(ks, false); err != nil || old.N <= 65535 {
				panic("C06: the >65535-node key set has too few nodes")
			}
			sets = append(sets, gen{">65535-nodes", ks})
		}
		maxNodes, maxStep := 0, 0
		for si, g := range sets {
			r := c.R.Fork()
			ids := c06ValueIDs(r, len(g.keys))
			encName := []string{"I32", "U32"}[si%2]
			budget := len(g.keys) + 60
			if len(g.keys) > 2000 {
				budget = len(g.keys) + 2000
			}
			queries := genQueries(r, g.keys, budget)
			if old, err := c06BuildOld(g.keys, false); err == nil {
				if old.N > maxNodes {
					maxNodes = old.N
				}
				if old.MaxStep > maxStep {
					maxStep = old.MaxStep
				}
				if old.MaxStep > 255 {
					c.Or.Count("sets-with-step>255-nibbles")
				}
				if len(old.LeafIdx) > 0 && len(old.InnerIdx) > 0 {
					both := 0
					in := map[int32]bool{}
					for _, id := range old.InnerIdx {
						in[id] = true
					}
					for _, id := range old.LeafIdx {
						if in[id] {
							both++
						}
					}
					if both > 0 {
						c.Or.Count("sets-with-keys-ending-at-inner-nodes")
					}
				}
				if old.N > 65535 {
					c.Or.Count("sets-with>65535-old-nodes")
				}
			}
			c.Or.Count("kind:" + g.kind)
			c.Or.Count("keys:" + bucket(len(g.keys)))
			for li, l := range c06Layouts {
				for alt := 0; alt < 2; alt++ {
					if alt == 1 && (l.Slim || len(g.keys) != 1 || len(g.keys[0]) == 0) {
						continue
					}
					tc := &TrieCase{ID: fmt.Sprintf("c06_%d.%s", si, l.Name), Opt: c06Opt(l), Enc: encName, Keys: g.keys, IDs: ids, Queries: queries, Kind: g.kind}
					if alt == 1 {
						tc.ID += ".altroot"
					}
					cs := &c06Case{TC: tc, L: l, AltSingle: alt == 1}
					c.Or.Case(fmt.Sprint(l.Name, alt, g.keys, ids), len(g.keys) >= 2)
					c.Or.Count("variant:" + l.Name)
					nq := 3 * len(g.keys)
					if cs.complete() {
						nq += 3 * len(queries)
					}
					c.Or.Add("queries", nq)
					if si < 8 && li == si%len(c06Layouts) {
						c.Or.Sample(map[string]interface{}{"variant": l.Name, "kind": g.kind, "keys_hex": c06HexKeys(g.keys)})
					}
					f, _ := c06Eval(c, cs, true, stats)
					if f != nil {
						report(cs, f, "")
					}
				}
			}
		}
		// 3. the archived fixtures through the same oracle (after the generated sets, so that a finding is
		// reported with a small generated replay when one exists)
		spec32 := specByName("I32")
		for _, f := range fx {
			keys := c06Keys(f.Set)
			vals, _ := c06FixtureValues(len(keys))
			ids := make([]uint64, len(keys))
			for i := range ids {
				ids[i] = uint64(i)
			}
			tc := &TrieCase{ID: "fixture:" + f.File, Opt: c06Opt(f.Layout), Enc: "I32", Keys: keys, IDs: ids, Kind: "fixture"}
			cs := &c06Case{TC: tc, L: f.Layout}
			c.Or.Case("fixture "+f.File, len(keys) >= 2)
			c.Or.Count("fixture:" + f.Layout.Name)
			var st *trie.SlimTrie
			var err error
			if h := c06Guard(func() { st, err = c06Load(f.Buf, spec32.Enc) }); h != "" {
				fd := &finding{key: "C06:fixture-no-termination", what: "C06: loading the archived fixture " + f.File + " " + h, got: h, want: "a loaded trie"}
				report(cs, fd, f.File)
				c.Close()
				fmt.Printf("C06: evaluations=%d distinct=%d violations=%d (stopped at a non-terminating load)\n", c.Or.Evaluations, c.Or.Distinct, len(c.Or.Violations))
				os.Exit(0)
			}
			if err != nil {
				report(cs, &finding{key: "C06:fixture-load", what: "C06: archived fixture " + f.File + " does not load: " + err.Error(), got: err.Error(), want: "a loaded trie"}, f.File)
				continue
			}
			var qs, starts []string
			if cs.complete() {
				r := c.R.Fork()
				qs = genQueries(r, keys, len(keys)+300)
				starts = c06ScanStarts(r, keys, qs)
			}
			if fd := c06Oracle(st, spec32, keys, vals, cs.complete(), qs, starts, 500); fd != nil {
				report(cs, fd, f.File)
			}
			c.Or.Add("queries", 3*len(keys)+3*len(qs))
		}

		c.Or.Extra["max_old_nodes_in_a_generated_set"] = maxNodes
		c.Or.Extra["max_step_nibbles_in_a_generated_set"] = maxStep
		c.Or.Extra["node_view"] = map[string]interface{}{
			"three_array_loaded_equals_specified_conversion(no big nodes, step-1, empty-label leaf child)": stats.viewSpecEq,
			"three_array_loaded_differs_from_specified_conversion":                                         stats.viewSpecNe,
			"loaded_equals_fresh_build(same prefix options, no dedup)":                                     stats.viewFreshEq,
			"loaded_differs_from_fresh_build_although_fresh_has_no_big_node":                               stats.viewFreshNe,
			"three_array_cases_where_fresh_build_has_big_nodes(not comparable)":                            stats.viewFreshBig,
			"b0510_loaded_prefix_bytes_and_leaf_fields_equal_fresh_build":                                  stats.rawEq,
			"b0510_loaded_prefix_bytes_or_leaf_fields_differ_from_fresh_build":                             stats.rawNe,
			"first_difference": stats.firstViewDiff,
		}
		c.Or.Extra["model_correspondence"] = map[string]interface{}{
			"cases_emitted":                 stats.corrEmitted,
			"three_array_cases_skipped_big": stats.corrSkippedBig,
		}

		// (after the oracle: if the loader is broken the oracle reports it with a replay first)
		var ex map[string]bool
		var exErr error
		if h := c06Guard(func() { ex, exErr = c06ConfirmCoqExamples(fx) }); h != "" {
			exErr = fmt.Errorf("loading a fixture %s", h)
		}
		c.Or.Extra["coq_examples_confirmed"] = ex
		// a failure is raised at the end, after the oracle had its chance to find the failing input

		// the oracle must notice a stream that encodes another index: write the
		// values of two keys swapped, keep the expectation unswapped
		selftest := map[string]bool{}
		for _, ln := range []string{"a051-u32children", "a059-bm16children-padded", "b0510-allpref"} {
			l := c06LayoutByName(ln)
			keys := []string{"a", "ab", "abc\xff", "b"}
			good := [][]byte{le(4, 10), le(4, 11), le(4, 12), le(4, 13)}
			bad := [][]byte{good[0], good[2], good[1], good[3]}
			buf, err := c06Write(l, encode.I32{}, keys, bad, []int32{10, 12, 11, 13})
			if err == nil {
				if st, err := c06Load(buf, encode.I32{}); err == nil {
					selftest[ln] = c06Oracle(st, specByName("I32"), keys, good, false, nil, nil, 10) != nil
				} else {
					selftest[ln] = true // a failing load is noticed by c06Eval
				}
			}
			if !selftest[ln] {
				panic("C06: oracle self-test failed: swapped values not detected in layout " + ln)
			}
		}
		c.Or.Extra["oracle_selftest_detects_swapped_values"] = selftest

		// the basis of the check itself: without a failing input found above, a
		// broken basis must not pass silently
		if len(c.Or.Violations) == 0 {
			msg := ""
			if len(acc.Failed) > 0 || len(acc.Skipped) > 0 || len(fx) == 0 {
				msg = fmt.Sprintf("the reference legacy writers no longer reproduce the archived fixtures (%d not reproduced, %d unmatched files, %d fixtures): %v", len(acc.Failed), len(acc.Skipped), len(fx), acc.Failed)
			} else if exErr != nil {
				msg = "the Example bytes of coq/props/C06.v are not confirmed by the files / the real loader: " + exErr.Error()
			}
			if msg != "" {
				c.Close()
				fmt.Println("C06: " + msg)
				os.Exit(3)
			}
		}
	})
}
