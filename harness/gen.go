package main

import (
	"fmt"
	"sort"
	"strings"
)

var diverseBytes = []byte{0x00, 0x01, 0x0f, 0x10, 0x7f, 0x80, 0xf0, 0xff}

func uniqSorted(ks []string) []string {
	sort.Strings(ks)
	out := ks[:0]
	for i, k := range ks {
		if i == 0 || k != ks[i-1] {
			out = append(out, k)
		}
	}
	return out
}

func randBytes(r *RNG, n int) string {
	b := make([]byte, n)
	for i := range b {
		switch r.Intn(4) {
		case 0:
			b[i] = diverseBytes[r.Intn(len(diverseBytes))]
		default:
			b[i] = byte(r.U64())
		}
	}
	return string(b)
}

func randFrom(r *RNG, alpha []byte, n int) string {
	b := make([]byte, n)
	for i := range b {
		b[i] = alpha[r.Intn(len(alpha))]
	}
	return string(b)
}

func pickAlpha(r *RNG, n int) []byte {
	a := make([]byte, 0, n)
	for len(a) < n {
		var c byte
		if r.Intn(3) == 0 {
			c = byte(r.U64())
		} else {
			c = diverseBytes[r.Intn(len(diverseBytes))]
		}
		dup := false
		for _, x := range a {
			if x == c {
				dup = true
			}
		}
		if !dup {
			a = append(a, c)
		}
	}
	return a
}

// Key set kinds. Every generator returns a sorted list of distinct keys and
// always terminates (bounded attempts, never "until n distinct").
const (
	KTiny = iota
	KRandBytes
	KSharedPrefix
	KFanout
	KRegular
	KLongRuns
	KNibble
	KChain
	KLongTail
	KDecimal
	KKindCnt
)

var kindNames = []string{"tiny", "randbytes", "sharedprefix", "fanout", "regular", "longruns", "nibble", "chain", "longtail", "decimal"}

func genKeySet(r *RNG, kind int, scale int) []string {
	ks := []string{}
	switch kind {
	case KTiny:
		alpha := pickAlpha(r, 2+r.Intn(3))
		n := 1 + r.Intn(6)
		for i := 0; i < n; i++ {
			ks = append(ks, randFrom(r, alpha, r.Intn(4)))
		}
	case KRandBytes:
		n := 1 + r.Intn(10*scale)
		for i := 0; i < n; i++ {
			ks = append(ks, randBytes(r, r.Intn(7)))
		}
	case KSharedPrefix:
		np := 1 + r.Intn(4)
		for p := 0; p < np; p++ {
			pre := randBytes(r, r.Intn(9))
			n := 1 + r.Intn(6*scale)
			alpha := pickAlpha(r, 2+r.Intn(6))
			for i := 0; i < n; i++ {
				ks = append(ks, pre+randFrom(r, alpha, r.Intn(5)))
			}
			if r.Intn(3) == 0 {
				ks = append(ks, pre)
			}
		}
		if r.Intn(4) == 0 {
			ks = append(ks, "")
		}
	case KFanout:
		// top-level fan-out around and above the big-node threshold, nested.
		top := []int{9, 10, 11, 12, 16, 40, 200}[r.Intn(7)]
		depth := 1 + r.Intn(3)
		var rec func(pre string, d int)
		rec = func(pre string, d int) {
			fan := top
			if d > 0 {
				fan = []int{1, 2, 3, 10, 11, 12, 17}[r.Intn(7)]
			}
			alpha := pickAlpha(r, fan)
			for _, c := range alpha {
				k := pre + string([]byte{c})
				if d+1 < depth && r.Intn(3) != 0 && len(ks) < 400*scale {
					rec(k, d+1)
				} else {
					ks = append(ks, k+randBytes(r, r.Intn(3)))
				}
				if r.Intn(8) == 0 {
					ks = append(ks, k)
				}
			}
		}
		rec(randBytes(r, r.Intn(3)), 0)
	case KRegular:
		// regular grids: many inner nodes with equal label bitmaps, so that
		// creator.build chooses a short-node table.
		la := 2 + r.Intn(7)
		alpha := pickAlpha(r, la)
		levels := 2 + r.Intn(3)
		leafVar := 1 + r.Intn(4)
		var rec func(pre string, d int)
		rec = func(pre string, d int) {
			if len(ks) > 1500*scale {
				return
			}
			if d == levels {
				n := 1 + (len(pre)+int(pre[len(pre)-1]))%leafVar
				for i := 0; i < n; i++ {
					ks = append(ks, pre+string([]byte{byte('a' + i)}))
				}
				return
			}
			for _, c := range alpha {
				rec(pre+string([]byte{c}), d+1)
			}
		}
		rec("", 0)
	case KLongRuns:
		n := 1 + r.Intn(3)
		for p := 0; p < n; p++ {
			run := strings.Repeat(string([]byte{byte(r.U64())}), []int{30, 127, 128, 129, 300, 1000}[r.Intn(6)])
			if r.Bool() {
				run = randBytes(r, len(run))
			}
			m := 2 + r.Intn(5)
			for i := 0; i < m; i++ {
				ks = append(ks, run+randBytes(r, 1+r.Intn(3)))
			}
			if r.Intn(3) == 0 {
				ks = append(ks, run)
			}
		}
	case KNibble:
		// keys that branch on the low nibble only / the high nibble only, and
		// mixtures, at several depths.
		pre := randBytes(r, r.Intn(4))
		hi := byte(r.Intn(16)) << 4
		n := 2 + r.Intn(14)
		for i := 0; i < n; i++ {
			var c byte
			if r.Bool() {
				c = hi | byte(r.Intn(16))
			} else {
				c = byte(r.Intn(16))<<4 | byte(r.Intn(16))
			}
			ks = append(ks, pre+string([]byte{c})+randBytes(r, r.Intn(3)))
		}
	case KChain:
		// prefix chains a, aa, aaa.. and the empty key
		c := string([]byte{diverseBytes[r.Intn(len(diverseBytes))]})
		n := 1 + r.Intn(6)
		start := r.Intn(2)
		for i := start; i < start+n; i++ {
			ks = append(ks, strings.Repeat(c, i))
		}
		m := r.Intn(4)
		for i := 0; i < m; i++ {
			ks = append(ks, strings.Repeat(c, r.Intn(5))+randBytes(r, 1+r.Intn(2)))
		}
	case KDecimal:
		// regular decimal strings: many equal label bitmaps (short-node tables) and, over
		// the range of sizes, every residue of the label-bitmap length modulo 64
		n := 20 + r.Intn(380*scale)
		step := []int{1, 3, 5, 7, 11}[r.Intn(5)]
		width := 3 + r.Intn(4)
		for i := 0; i < n; i++ {
			ks = append(ks, fmt.Sprintf("%0*d", width, i*step))
		}
	case KLongTail:
		// short shared prefixes followed by long distinct tails (leaf tails of 60..300 bytes)
		np := 1 + r.Intn(3)
		for p := 0; p < np; p++ {
			pre := randBytes(r, r.Intn(3))
			n := 1 + r.Intn(4)
			for i := 0; i < n; i++ {
				ks = append(ks, pre+randBytes(r, 1)+randBytes(r, []int{60, 63, 64, 65, 66, 100, 300}[r.Intn(7)]))
			}
		}
	}
	ks = uniqSorted(ks)
	if len(ks) == 0 {
		ks = []string{randBytes(r, r.Intn(3))}
	}
	return ks
}

// Value layouts (as abstract 64-bit numbers; the encoder decides the width).
const (
	VNil = iota
	VDistinct
	VRuns
	VAllEqual
	VLongRuns
	VCraftLen
	VKindCnt
)

var vkindNames = []string{"nil", "distinct", "runs", "allequal", "longruns", "craftlen"}

// genValueIDs returns, for n keys, a value class id per key (adjacent equal
// ids = a run); nil for "no values".
func genValueIDs(r *RNG, n int, vkind int) []uint64 {
	if vkind == VNil {
		return nil
	}
	if vkind == VCraftLen {
		// variable-width encoders derive the width from id % 6: unequal widths whose
		// LAST element has the average width (1,3,1,3,...,2), and all-but-one equal
		ids := make([]uint64, n)
		for i := range ids {
			w := uint64(1 + 2*(i%2))
			if i == n-1 {
				w = 2
			}
			if r.Intn(2) == 0 && n > 2 && i == n/2 {
				w = uint64(r.Intn(6))
			}
			ids[i] = (r.U64()/6)*6 + w
		}
		return ids
	}
	ids := make([]uint64, n)
	cur := r.U64()
	for i := 0; i < n; i++ {
		switch vkind {
		case VDistinct:
			cur = r.U64()
		case VRuns:
			if i == 0 || r.Intn(3) != 0 {
				cur = r.U64()
			}
		case VAllEqual:
		case VLongRuns:
			if i == 0 || r.Intn(9) == 0 {
				cur = r.U64()
			}
		}
		if r.Intn(16) == 0 {
			// boundary values
			cur = []uint64{0, 1, 0x7f, 0x80, 0xff, 0x7fff, 0x8000, 0xffff, 0x7fffffff, 0x80000000, 0xffffffff, 0x7fffffffffffffff, 0x8000000000000000, 0xffffffffffffffff}[r.Intn(14)]
		}
		ids[i] = cur
	}
	return ids
}

// Queries for a key set: every key, mutations, prefixes, extensions, extremes.
func genQueries(r *RNG, keys []string, budget int) []string {
	qs := []string{}
	seen := map[string]bool{}
	add := func(q string) {
		if !seen[q] {
			seen[q] = true
			qs = append(qs, q)
		}
	}
	for _, k := range keys {
		add(k)
	}
	add("")
	add("\x00")
	add("\xff")
	add(strings.Repeat("\x00", 9))
	add(strings.Repeat("\xff", 9))
	if len(keys) > 0 {
		first, last := keys[0], keys[len(keys)-1]
		if len(first) > 0 {
			add(first[:len(first)-1])
		}
		add(last + "\x00")
		add(last + "\xff")
		add(last + strings.Repeat("\xff", 40))
	}
	n := len(keys)
	for tries := 0; len(qs) < budget && tries < budget*4 && n > 0; tries++ {
		k := keys[r.Intn(n)]
		switch r.Intn(10) {
		case 0: // one-bit mutation
			if len(k) > 0 {
				b := []byte(k)
				i := r.Intn(len(b))
				b[i] ^= 1 << uint(r.Intn(8))
				add(string(b))
			}
		case 1: // one-byte mutation
			if len(k) > 0 {
				b := []byte(k)
				i := r.Intn(len(b))
				b[i] = diverseBytes[r.Intn(len(diverseBytes))]
				add(string(b))
			}
		case 2: // proper prefix
			if len(k) > 0 {
				add(k[:r.Intn(len(k))])
			}
		case 3:
			add(k + "\x00")
		case 4:
			add(k + "\xff")
		case 5:
			add(k + randBytes(r, 1+r.Intn(3)))
		case 6: // prefix + divergent byte
			if len(k) > 0 {
				i := r.Intn(len(k))
				add(k[:i] + randBytes(r, 1+r.Intn(2)))
			}
		case 7:
			add(randBytes(r, r.Intn(6)))
		case 9: // mutation near the end of a long key
			if len(k) > 8 {
				b := []byte(k)
				i := len(b) - 1 - r.Intn(8)
				b[i] ^= 1 << uint(r.Intn(8))
				add(string(b))
			}
		case 8: // nibble mutation: +-1 on one nibble
			if len(k) > 0 {
				b := []byte(k)
				i := r.Intn(len(b))
				if r.Bool() {
					b[i] += 0x10
				} else {
					b[i] = b[i]&0xf0 | (b[i]+1)&0x0f
				}
				add(string(b))
			}
		}
	}
	return qs
}
