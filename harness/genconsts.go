package main

// genconsts: translator from /repo's working tree to coq/gen/Gen_Consts.v.
// It reads the Go sources with go/parser, evaluates the package-level
// constants of package trie with go/types (import errors ignored: none of the
// constants depends on an import), and extracts a few literals from function
// bodies by their syntactic shape. When a shape is no longer recognised the
// constant is emitted as 0 / [] and the comparison lemmas in the Coq
// development (which state the values the model was written for) fail.

import (
	"fmt"
	"go/ast"
	"go/constant"
	"go/importer"
	"go/parser"
	"go/token"
	"go/types"
	"os"
	"path/filepath"
	"sort"
	"strconv"
	"strings"
)

type fakeImporter struct{ def types.Importer }

func (f fakeImporter) Import(path string) (*types.Package, error) {
	if p, err := f.def.Import(path); err == nil {
		return p, nil
	}
	// an empty package: uses of its members are type errors, which we ignore
	parts := strings.Split(path, "/")
	p := types.NewPackage(path, parts[len(parts)-1])
	p.MarkComplete()
	return p, nil
}

func parseDir(dir string) (*token.FileSet, []*ast.File) {
	fset := token.NewFileSet()
	ents, err := os.ReadDir(dir)
	if err != nil {
		fmt.Fprintln(os.Stderr, err)
		os.Exit(1)
	}
	var files []*ast.File
	names := []string{}
	for _, e := range ents {
		n := e.Name()
		if strings.HasSuffix(n, ".go") && !strings.HasSuffix(n, "_test.go") && n != "verif_hooks.go" {
			names = append(names, n)
		}
	}
	sort.Strings(names)
	for _, n := range names {
		f, err := parser.ParseFile(fset, filepath.Join(dir, n), nil, 0)
		if err != nil {
			fmt.Fprintln(os.Stderr, err)
			os.Exit(1)
		}
		// skip files excluded by build tags we do not set (debug etc.): keep all; duplicates are type errors we ignore
		files = append(files, f)
	}
	return fset, files
}

func genConsts(repo string) {
	fset, files := parseDir(filepath.Join(repo, "trie"))
	conf := types.Config{Importer: fakeImporter{importer.Default()}, Error: func(error) {}, IgnoreFuncBodies: true}
	pkg, _ := conf.Check("trie", fset, files, nil)

	intConst := func(name string) string {
		if pkg == nil {
			return "0"
		}
		o := pkg.Scope().Lookup(name)
		c, ok := o.(*types.Const)
		if !ok {
			return "0"
		}
		if v, ok := constant.Int64Val(constant.ToInt(c.Val())); ok {
			return strconv.FormatInt(v, 10)
		}
		return "0"
	}
	strConst := func(name string) string {
		if pkg == nil {
			return ""
		}
		o := pkg.Scope().Lookup(name)
		c, ok := o.(*types.Const)
		if !ok || c.Val().Kind() != constant.String {
			return ""
		}
		return constant.StringVal(c.Val())
	}

	// literals found by shape
	bigThreshold := "0"  // prefCnt > 10
	stepLimit := "0"     // (wordStart-o.fromKeyBit)>>2 > 0xffff
	stepShift := "0"     // encStep: step >>= 2
	compat := []string{} // compatibleVersions()
	litVal := func(e ast.Expr) (string, bool) {
		if b, ok := e.(*ast.BasicLit); ok && b.Kind == token.INT {
			if v, err := strconv.ParseInt(b.Value, 0, 64); err == nil {
				return strconv.FormatInt(v, 10), true
			}
		}
		return "", false
	}
	for _, f := range files {
		for _, d := range f.Decls {
			fd, ok := d.(*ast.FuncDecl)
			if !ok || fd.Body == nil {
				continue
			}
			switch fd.Name.Name {
			case "newSlim":
				ast.Inspect(fd.Body, func(n ast.Node) bool {
					be, ok := n.(*ast.BinaryExpr)
					if !ok || be.Op != token.GTR {
						return true
					}
					if id, ok := be.X.(*ast.Ident); ok && id.Name == "prefCnt" {
						if v, ok := litVal(be.Y); ok {
							bigThreshold = v
						}
					}
					if sh, ok := be.X.(*ast.BinaryExpr); ok && sh.Op == token.SHR {
						if v, ok := litVal(be.Y); ok {
							if s, ok := litVal(sh.Y); ok && s == "2" {
								stepLimit = v
							}
						}
					}
					return true
				})
			case "encStep":
				ast.Inspect(fd.Body, func(n ast.Node) bool {
					as, ok := n.(*ast.AssignStmt)
					if ok && as.Tok == token.SHR_ASSIGN && len(as.Rhs) == 1 {
						if v, ok := litVal(as.Rhs[0]); ok {
							stepShift = v
						}
					}
					return true
				})
			case "compatibleVersions":
				ast.Inspect(fd.Body, func(n ast.Node) bool {
					cl, ok := n.(*ast.CompositeLit)
					if !ok {
						return true
					}
					for _, e := range cl.Elts {
						compat = append(compat, evalStr(e, strConst))
					}
					return false
				})
			}
		}
	}

	var sb strings.Builder
	sb.WriteString("(* Gen_Consts.v - REGENERATED on every run from /repo's working tree by\n   `harness genconsts` (see harness/genconsts.go). Do not edit. *)\n")
	sb.WriteString("From Coq Require Import NArith List String.\nImport ListNotations.\nOpen Scope N_scope.\n\n")
	for _, n := range []string{"wordSize", "innerSize", "bigWordSize", "bigInnerSize", "maxShortSize", "maxWordSize", "minPrefix", "MaxNodeCnt"} {
		fmt.Fprintf(&sb, "Definition g_%s : N := %s.\n", n, intConst(n))
	}
	fmt.Fprintf(&sb, "Definition g_bigThreshold : N := %s.\n", bigThreshold)
	fmt.Fprintf(&sb, "Definition g_stepLimit : N := %s.\n", stepLimit)
	fmt.Fprintf(&sb, "Definition g_stepShift : N := %s.\n", stepShift)
	fmt.Fprintf(&sb, "Definition g_slimtrieVersion : string := \"%s\"%%string.\n", strConst("slimtrieVersion"))
	qs := []string{}
	for _, c := range compat {
		qs = append(qs, fmt.Sprintf("\"%s\"%%string", c))
	}
	fmt.Fprintf(&sb, "Definition g_compatibleVersions : list string := [%s].\n", strings.Join(qs, "; "))
	// the protobuf schema as the generated Go structs declare it (struct tags of *.pb.go):
	// (message, field, number, Go type, tag without the name), in source order
	rows := []string{}
	for _, dir := range []string{"trie", "array"} {
		fs, fl := parseDir(filepath.Join(repo, dir))
		_ = fs
		for _, f := range fl {
			for _, d := range f.Decls {
				gd, ok := d.(*ast.GenDecl)
				if !ok {
					continue
				}
				for _, sp := range gd.Specs {
					ts, ok := sp.(*ast.TypeSpec)
					if !ok {
						continue
					}
					st, ok := ts.Type.(*ast.StructType)
					if !ok {
						continue
					}
					for _, fld := range st.Fields.List {
						if fld.Tag == nil || len(fld.Names) == 0 {
							continue
						}
						tag, _ := strconv.Unquote(fld.Tag.Value)
						i := strings.Index(tag, `protobuf:"`)
						if i < 0 {
							continue
						}
						t := tag[i+len(`protobuf:"`):]
						t = t[:strings.Index(t, `"`)]
						parts := strings.Split(t, ",")
						if len(parts) < 3 {
							continue
						}
						kept := []string{}
						for _, x := range parts {
							if !strings.HasPrefix(x, "name=") {
								kept = append(kept, x)
							}
						}
						rows = append(rows, fmt.Sprintf("(\"%s.%s\"%%string, \"%s\"%%string, %s, \"%s\"%%string)", dir, ts.Name.Name, fld.Names[0].Name, parts[1], typeStr(fld.Type)+" "+strings.Join(kept, ",")))
					}
				}
			}
		}
	}
	fmt.Fprintf(&sb, "Definition g_proto_fields : list (string * string * N * string) :=\n  [%s].\n", strings.Join(rows, ";\n   "))
	fmt.Print(sb.String())
}

func typeStr(e ast.Expr) string {
	switch x := e.(type) {
	case *ast.Ident:
		return x.Name
	case *ast.StarExpr:
		return "*" + typeStr(x.X)
	case *ast.ArrayType:
		return "[]" + typeStr(x.Elt)
	case *ast.SelectorExpr:
		return typeStr(x.X) + "." + x.Sel.Name
	}
	return "?"
}

// evalStr evaluates "lit" and "lit" + ident.
func evalStr(e ast.Expr, strConst func(string) string) string {
	switch x := e.(type) {
	case *ast.BasicLit:
		if x.Kind == token.STRING {
			s, _ := strconv.Unquote(x.Value)
			return s
		}
	case *ast.Ident:
		return strConst(x.Name)
	case *ast.BinaryExpr:
		if x.Op == token.ADD {
			return evalStr(x.X, strConst) + evalStr(x.Y, strConst)
		}
	}
	return "?"
}
