package main

// C04b - the BYTE-level key buffer of the scan iterator (coq/theories/ScanBytes.v:
// scanStackElt.init / updateLabel / appendLabel / appendInnerPrefix /
// appendLeafPrefix on a byte slice with bit cursors, bitstr.New / bitstr.Len)
// against the implementation.
//
// Per generated Complete trie (same generators and case format as C04):
//   P   the inner prefixes the implementation stores (the bitstr bytes getNode
//       delivers and bitstr.Len of them), pre-order, against the bitstr the model
//       derives from the nibble prefix of the tree model;
//   I/S/R  the scan operations of C04 on the byte-level model, every yielded key
//       and value byte for byte, fresh and reloaded.
// Function level (blocks "F"):
//   N   bitstr.New(s, from, to) and bitstr.Len of the result on random and
//       boundary inputs (any bit positions, also from > to and to beyond the string);
//   H   bitstr.New(key, 4*from, 4*to) against the bitstr of the nibbles
//       [even_down from, to) of the key (theorem C04b_bitstr_new);
//   B   bitstr.Len on arbitrary byte strings.
// The oracle is written from the property text (C04: the sorted reference) and
// from the documentation of bitstr.New / bitstr.Len, never from the model.

import (
	"fmt"
	"strings"

	"github.com/openacid/low/bitstr"
	"github.com/openacid/slim/trie"
)

// c04bPrefixes lists the stored inner prefixes in pre-order: id:bitstr:len.
func c04bPrefixes(st *trie.SlimTrie) (s string) {
	defer func() {
		if p := recover(); p != nil {
			s = "PANIC"
		}
	}()
	nodes := st.VerifDump()
	items := []string{}
	var visit func(id int32)
	visit = func(id int32) {
		if int(id) >= len(nodes) {
			items = append(items, fmt.Sprintf("%d:missing", id))
			return
		}
		v := nodes[id]
		if !v.IsInner {
			return
		}
		if v.HasInnerPrefix {
			items = append(items, fmt.Sprintf("%d:%s:%d", id, hx(v.InnerPrefix), v.InnerPrefixLen))
		}
		for j := range v.Labels {
			visit(v.FirstChild + int32(j))
		}
	}
	if len(nodes) > 0 {
		visit(0)
	}
	return strings.Join(items, " ")
}

// c04bRefNew is bitstr.New as documented, for 0 <= from <= to <= 8*len(s): the
// bits [from&^7, to) of s, zero padded to a byte, then the byte whose set bits are
// the valid bits of the last payload byte.
func c04bRefNew(s string, from, to int) []byte {
	if from == to && from%8 == 0 {
		return []byte{0xff}
	}
	start := from &^ 7
	n := (to - start + 7) / 8
	out := make([]byte, n+1)
	for i := start; i < to; i++ {
		if s[i/8]&(0x80>>uint(i%8)) != 0 {
			out[(i-start)/8] |= 0x80 >> uint((i-start)%8)
		}
	}
	valid := (to - start) - (n-1)*8 // 1..8 bits in the last payload byte
	out[n] = byte(0xff << uint(8-valid))
	return out
}

type c04bReplay struct {
	Property string `json:"property"`
	Func     string `json:"function"`
	Input    string `json:"input_hex"`
	From     int    `json:"from_bit"`
	To       int    `json:"to_bit"`
	Got      string `json:"got"`
	Want     string `json:"want"`
}

func c04bNew(s string, from, to int) (out string, bs []byte) {
	defer func() {
		if p := recover(); p != nil {
			out, bs = "PANIC", nil
		}
	}()
	bs = bitstr.New(s, int32(from), int32(to))
	return hx(bs), bs
}

func c04bLen(bs []byte) (out string, n int) {
	defer func() {
		if p := recover(); p != nil {
			out, n = "PANIC", 0
		}
	}()
	l := int(bitstr.Len(bs))
	if l < 0 {
		return "NEG", l
	}
	return fmt.Sprint(l), l
}

// c04bEval: one trie case: P line + scan ops, fresh and loaded.
func c04bEval(c *Ctx, tc *TrieCase, ops []c04Op) []*c04Finding {
	fs := []*c04Finding{}
	ref := NewRef(tc)
	w := c.Impl()
	tc.WriteCase(c.Cases())
	fmt.Fprintf(c.Cases(), "P\n")
	for _, op := range ops {
		fmt.Fprintf(c.Cases(), "%s\n", op.head())
	}
	fmt.Fprintf(c.Cases(), "Z\nL %s\n", tc.ID)
	fmt.Fprintf(w, "C %s\n", tc.ID)
	b := tc.Build()
	if b.Err != nil {
		es := buildErrStr(b.Err, tc.Keys)
		fmt.Fprintf(w, "B %s\nC %s+L\nB %s\n", es, tc.ID, es)
		return append(fs, &c04Finding{key: "C04b:build-failed", what: fmt.Sprintf("C04b: NewSlimTrie failed on a valid key list: %v", b.Err), got: es, want: "a trie"})
	}
	run := func(st *trie.SlimTrie, loaded bool) {
		fmt.Fprintf(w, "B ok\n")
		ps := c04bPrefixes(st)
		fmt.Fprintf(w, "P = %s\n", ps)
		c.Or.Add("stored-prefixes", len(strings.Fields(ps)))
		// documentation of bitstr: Len of a stored prefix is a positive multiple of 4 (setPrefix panics otherwise)
		for _, it := range strings.Fields(ps) {
			f := strings.Split(it, ":")
			if len(f) != 3 || f[2] == "0" || strings.HasPrefix(f[2], "-") {
				fs = append(fs, &c04Finding{key: "C04b:stored-prefix", what: "C04b: a stored inner prefix with a non-positive or missing length: " + it, got: it, want: "id:bitstr:len with len > 0", loaded: loaded})
			}
		}
		for _, op := range ops {
			gt, f := c04CheckBuilt(tc, ref, true, st, loaded, op)
			fmt.Fprintf(w, "%s = %s\n", op.head(), gt)
			if f != nil {
				f.key = strings.Replace(f.key, "C04:", "C04b:", 1)
				f.what = strings.Replace(f.what, "C04:", "C04b:", 1)
				fs = append(fs, f)
			}
		}
	}
	run(b.St, false)
	st2, _, err := reload(b.St, b.Spec)
	fmt.Fprintf(w, "C %s+L\n", tc.ID)
	if err != nil {
		fmt.Fprintf(w, "B reload-failed\n")
		return append(fs, &c04Finding{key: "C04b:reload-failed", what: fmt.Sprintf("C04b: Marshal/Unmarshal failed: %v", err), got: err.Error(), want: "a loaded trie"})
	}
	run(st2, true)
	return fs
}

func c04bRun(c *Ctx) {
	c.Or.Rule = "cases: one PRNG stream from VERIF_SEED. (a) Complete tries: key-set kinds " + strings.Join(kindNames, "/") +
		" (1 in 4 forced to the fan-out kind: 257-bit nodes, 8-bit labels) x value layouts " + strings.Join(vkindNames, "/") +
		" x the complete option spellings x encoders " + strings.Join(c04Encs, "/") +
		"; per case: the stored inner prefixes (bitstr bytes and bitstr.Len, pre-order) and the C04 scan operations (NewIter for both inclusivities x withValue with 3 further calls, " +
		"ScanFrom stopping at 0,1,2,k and never, ScanFromTo with random end bounds) per start string (\"\", first/last key, a sample of the query set), fresh and reloaded; " +
		"(b) function level: bitstr.New + bitstr.Len on random strings of 0..12 bytes with random and boundary bit positions (aligned, from = to, to = 8*len, to beyond the string, from > to), " +
		"bitstr.New(key, 4*from, 4*to) for all nibble positions of short keys, bitstr.Len on arbitrary byte strings. " +
		"a case = (options, encoder, keys, values, scan ops) or one function-level block; non-trivial = at least 2 keys / a block; distinct = distinct canonical case text; evaluations = cases"
	reported := map[string]bool{}

	// (a) complete tries
	nComplete := c.N(200, 2000)
	budget := c.N(5000, 9000)
	for i := 0; i < nComplete; i++ {
		r := c.R.Fork()
		kind := r.Intn(KKindCnt)
		if r.Intn(4) == 0 {
			kind = KFanout
		}
		tc := genTrieCase(r.Fork(), fmt.Sprintf("c04b_%d", i), kind, r.Intn(VKindCnt), 1, 40)
		for !isComplete(tc.Opt) {
			tc.Opt = randOpt(r)
		}
		tc.Enc = c04Encs[r.Intn(len(c04Encs))]
		starts := c04Starts(r, tc, budget)
		ops := c04Ops(r, tc, starts)
		canon := fmt.Sprint(tc.Opt, tc.Enc, tc.Keys, tc.IDs, ops)
		c.Or.Case(canon, len(tc.Keys) >= 2)
		c.Or.Count("group:complete")
		c.Or.Count("kind:" + tc.Kind)
		c.Or.Count("values:" + tc.VKind)
		c.Or.Count("enc:" + tc.Enc)
		c.Or.Count("keys:" + bucket(len(tc.Keys)))
		c.Or.Add("scan-ops(fresh+loaded)", 2*len(ops))
		if len(c.Or.Samples) < 2 && len(tc.Keys) >= 2 && len(tc.Keys) <= 6 && len(ops) > 0 {
			c.Or.Sample(c04MkReplay(tc, ops[0], false, "", ""))
		}
		for _, f := range c04bEval(c, tc, ops) {
			if reported[f.key] {
				continue
			}
			reported[f.key] = true
			rp := c04MkReplay(tc, f.op, f.loaded, c04trunc(f.got), c04trunc(f.want))
			rp.Property = "C04b"
			c.Or.Violate(f.key, f.what, rp)
		}
	}

	// (b) function level
	w := c.Impl()
	cw := c.Cases()
	violate := func(key, fn, in string, from, to int, got, want string) {
		if reported[key] {
			return
		}
		reported[key] = true
		c.Or.Violate(key, fmt.Sprintf("C04b: %s(%s, %d, %d) = %s, documented result %s", fn, in, from, to, got, want),
			c04bReplay{Property: "C04b", Func: fn, Input: in, From: from, To: to, Got: got, Want: want})
	}
	doNew := func(s string, from, to int) {
		out, bs := c04bNew(s, from, to)
		line := out
		if bs != nil {
			ls, n := c04bLen(bs)
			line += " len=" + ls
			if 0 <= from && from <= to && to <= 8*len(s) {
				want := c04bRefNew(s, from, to)
				if hx(want) != out {
					violate("C04b:bitstr-new", "bitstr.New", hxs(s), from, to, out, hx(want))
				}
				if n != to-(from&^7) {
					violate("C04b:bitstr-len", "bitstr.Len(bitstr.New", hxs(s), from, to, ls, fmt.Sprint(to-(from&^7)))
				}
			}
		} else if 0 <= from && from <= to && to <= 8*len(s) {
			violate("C04b:bitstr-new-panic", "bitstr.New", hxs(s), from, to, out, "no panic")
		}
		fmt.Fprintf(cw, "N %s %d %d\n", hxs(s), from, to)
		fmt.Fprintf(w, "N %s %d %d = %s\n", hxs(s), from, to, line)
		c.Or.Count("fn:bitstr.New")
	}
	nBlocks := c.N(60, 600)
	for i := 0; i < nBlocks; i++ {
		r := c.R.Fork()
		id := fmt.Sprintf("c04bf_%d", i)
		fmt.Fprintf(cw, "F %s\n", id)
		fmt.Fprintf(w, "C %s\n", id)
		var canon strings.Builder
		for j := 0; j < 40; j++ {
			s := randBytes(r, r.Intn(13))
			if r.Intn(4) == 0 {
				s = strings.Repeat("\xff", r.Intn(6))
			}
			nb := 8 * len(s)
			from, to := 0, 0
			switch r.Intn(8) {
			case 0: // aligned
				from = 8 * r.Intn(len(s)+1)
				to = from + 8*r.Intn(len(s)+1-from/8)
			case 1: // from = to
				from = r.Intn(nb + 1)
				to = from
			case 2: // up to the end of the string
				from = r.Intn(nb + 1)
				to = nb
			case 3: // beyond the string
				from = r.Intn(nb + 1)
				to = nb + 1 + r.Intn(16)
			case 4: // from > to
				to = r.Intn(nb + 1)
				from = to + 1 + r.Intn(12)
			case 5: // nibble positions
				from = 4 * r.Intn(2*len(s)+1)
				to = from + 4*r.Intn(2*len(s)+1-from/4)
			default:
				from = r.Intn(nb + 1)
				to = from + r.Intn(nb+1-from)
			}
			fmt.Fprintf(&canon, "%s %d %d;", hxs(s), from, to)
			doNew(s, from, to)
		}
		// every nibble range of one short key against the bitstr of the nibble slice
		key := randBytes(r, 1+r.Intn(4))
		for from := 0; from <= 2*len(key); from++ {
			for to := from; to <= 2*len(key); to++ {
				out, bs := c04bNew(key, 4*from, 4*to)
				line := out
				if bs != nil {
					ls, _ := c04bLen(bs)
					line += " len=" + ls
				}
				fmt.Fprintf(cw, "H %s %d %d\n", hxs(key), from, to)
				fmt.Fprintf(w, "H %s %d %d = %s\n", hxs(key), from, to, line)
				c.Or.Count("fn:bitstr.New(nibble range)")
			}
		}
		fmt.Fprintf(&canon, "H %s;", hxs(key))
		// bitstr.Len on arbitrary byte strings (the empty one panics)
		for j := 0; j < 12; j++ {
			bs := []byte(randBytes(r, r.Intn(5)))
			if len(bs) > 0 && r.Intn(2) == 0 {
				bs[len(bs)-1] = []byte{0xff, 0xfe, 0xfc, 0xf8, 0xf0, 0xe0, 0xc0, 0x80, 0x00}[r.Intn(9)]
			}
			ls, _ := c04bLen(bs)
			fmt.Fprintf(cw, "B %s\n", hx(bs))
			fmt.Fprintf(w, "B %s = %s\n", hx(bs), ls)
			fmt.Fprintf(&canon, "B %s;", hx(bs))
			c.Or.Count("fn:bitstr.Len")
		}
		c.Or.Case(canon.String(), true)
		c.Or.Count("group:function-level")
	}
}

func init() {
	register("C04b", c04bRun)
}
