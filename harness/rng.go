package main

// One PRNG state (splitmix64) from which every random choice is derived, so
// that a run replays exactly from VERIF_SEED.
type RNG struct{ s uint64 }

func NewRNG(seed uint64) *RNG {
	// the seed is hashed first: with a linear map the stream of seed k would be
	// the stream of seed 1 shifted by k-1 draws
	z := seed + 0x1234567
	z = (z ^ (z >> 30)) * 0xBF58476D1CE4E5B9
	z = (z ^ (z >> 27)) * 0x94D049BB133111EB
	z ^= z >> 31
	return &RNG{s: z}
}

func (r *RNG) U64() uint64 {
	r.s += 0x9E3779B97F4A7C15
	z := r.s
	z = (z ^ (z >> 30)) * 0xBF58476D1CE4E5B9
	z = (z ^ (z >> 27)) * 0x94D049BB133111EB
	return z ^ (z >> 31)
}

// Intn returns a number in [0, n).
func (r *RNG) Intn(n int) int {
	if n <= 0 {
		return 0
	}
	return int(r.U64() % uint64(n))
}

func (r *RNG) Bool() bool { return r.U64()&1 == 1 }

// Fork derives an independent stream.
func (r *RNG) Fork() *RNG { return NewRNG(r.U64()) }

func (r *RNG) Pick(ss []string) string { return ss[r.Intn(len(ss))] }
