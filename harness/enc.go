package main

import (
	"encoding/binary"
	"fmt"
	"math/bits"
	"strings"

	"github.com/openacid/slim/encode"
)

// Reference encodings, written from the documented on-disk value format and
// independent of the repository's encode package.
type EncSpec struct {
	Name string
	Enc  encode.Encoder
	// Make builds the typed value slice for value class ids, and the
	// reference encoding of each.
	Make func(ids []uint64) (interface{}, [][]byte)
	// Ref encodes a value returned by Get with the reference encoding.
	Ref func(v interface{}) ([]byte, error)
}

func le(n int, v uint64) []byte {
	b := make([]byte, n)
	for i := 0; i < n; i++ {
		b[i] = byte(v >> uint(8*i))
	}
	return b
}

func s16(id uint64) string {
	// some values are long and share a long head with other values of the same length (they
	// differ only behind the 8th byte), a few are longer than 255 bytes (two-byte length header)
	if id%7 == 3 || id%29 == 5 {
		head := "common-head-"
		if id%29 == 5 {
			head = strings.Repeat("0123456789abcdef", 17)
		}
		return head + string([]byte{byte(id >> 8), byte(id >> 16), byte(id >> 24), byte(id)})
	}
	// variable width: length 0..5 derived from the id
	n := int(id % 6)
	b := make([]byte, n)
	for i := range b {
		b[i] = byte(id >> uint(8*(i+1)))
	}
	return string(b)
}

func encSpecs() []*EncSpec {
	specs := []*EncSpec{}
	add := func(s *EncSpec) { specs = append(specs, s) }
	add(&EncSpec{"I8", encode.I8{}, func(ids []uint64) (interface{}, [][]byte) {
		vs := make([]int8, len(ids))
		bs := make([][]byte, len(ids))
		for i, id := range ids {
			vs[i] = int8(id)
			bs[i] = le(1, id)
		}
		return vs, bs
	}, func(v interface{}) ([]byte, error) {
		x, ok := v.(int8)
		if !ok {
			return nil, fmt.Errorf("type %T", v)
		}
		return le(1, uint64(x)), nil
	}})
	add(&EncSpec{"I16", encode.I16{}, func(ids []uint64) (interface{}, [][]byte) {
		vs := make([]int16, len(ids))
		bs := make([][]byte, len(ids))
		for i, id := range ids {
			vs[i] = int16(id)
			bs[i] = le(2, id)
		}
		return vs, bs
	}, func(v interface{}) ([]byte, error) {
		x, ok := v.(int16)
		if !ok {
			return nil, fmt.Errorf("type %T", v)
		}
		return le(2, uint64(x)), nil
	}})
	add(&EncSpec{"I32", encode.I32{}, func(ids []uint64) (interface{}, [][]byte) {
		vs := make([]int32, len(ids))
		bs := make([][]byte, len(ids))
		for i, id := range ids {
			vs[i] = int32(id)
			bs[i] = le(4, id)
		}
		return vs, bs
	}, func(v interface{}) ([]byte, error) {
		x, ok := v.(int32)
		if !ok {
			return nil, fmt.Errorf("type %T", v)
		}
		return le(4, uint64(x)), nil
	}})
	add(&EncSpec{"I64", encode.I64{}, func(ids []uint64) (interface{}, [][]byte) {
		vs := make([]int64, len(ids))
		bs := make([][]byte, len(ids))
		for i, id := range ids {
			vs[i] = int64(id)
			bs[i] = le(8, id)
		}
		return vs, bs
	}, func(v interface{}) ([]byte, error) {
		x, ok := v.(int64)
		if !ok {
			return nil, fmt.Errorf("type %T", v)
		}
		return le(8, uint64(x)), nil
	}})
	add(&EncSpec{"U16", encode.U16{}, func(ids []uint64) (interface{}, [][]byte) {
		vs := make([]uint16, len(ids))
		bs := make([][]byte, len(ids))
		for i, id := range ids {
			vs[i] = uint16(id)
			bs[i] = le(2, id)
		}
		return vs, bs
	}, func(v interface{}) ([]byte, error) {
		x, ok := v.(uint16)
		if !ok {
			return nil, fmt.Errorf("type %T", v)
		}
		return le(2, uint64(x)), nil
	}})
	add(&EncSpec{"U32", encode.U32{}, func(ids []uint64) (interface{}, [][]byte) {
		vs := make([]uint32, len(ids))
		bs := make([][]byte, len(ids))
		for i, id := range ids {
			vs[i] = uint32(id)
			bs[i] = le(4, id)
		}
		return vs, bs
	}, func(v interface{}) ([]byte, error) {
		x, ok := v.(uint32)
		if !ok {
			return nil, fmt.Errorf("type %T", v)
		}
		return le(4, uint64(x)), nil
	}})
	add(&EncSpec{"U64", encode.U64{}, func(ids []uint64) (interface{}, [][]byte) {
		vs := make([]uint64, len(ids))
		bs := make([][]byte, len(ids))
		for i, id := range ids {
			vs[i] = id
			bs[i] = le(8, id)
		}
		return vs, bs
	}, func(v interface{}) ([]byte, error) {
		x, ok := v.(uint64)
		if !ok {
			return nil, fmt.Errorf("type %T", v)
		}
		return le(8, x), nil
	}})
	add(&EncSpec{"Int", encode.Int{}, func(ids []uint64) (interface{}, [][]byte) {
		vs := make([]int, len(ids))
		bs := make([][]byte, len(ids))
		for i, id := range ids {
			vs[i] = int(id)
			bs[i] = le(bits.UintSize/8, id)
		}
		return vs, bs
	}, func(v interface{}) ([]byte, error) {
		x, ok := v.(int)
		if !ok {
			return nil, fmt.Errorf("type %T", v)
		}
		return le(bits.UintSize/8, uint64(x)), nil
	}})
	add(&EncSpec{"S16", encode.String16{}, func(ids []uint64) (interface{}, [][]byte) {
		vs := make([]string, len(ids))
		bs := make([][]byte, len(ids))
		for i, id := range ids {
			vs[i] = s16(id)
			bs[i] = append([]byte{byte(len(vs[i]) >> 8), byte(len(vs[i]))}, vs[i]...)
		}
		return vs, bs
	}, func(v interface{}) ([]byte, error) {
		x, ok := v.(string)
		if !ok {
			return nil, fmt.Errorf("type %T", v)
		}
		return append([]byte{byte(len(x) >> 8), byte(len(x))}, x...), nil
	}})
	add(&EncSpec{"RAW", rawStrEnc{}, func(ids []uint64) (interface{}, [][]byte) {
		vs := make([]string, len(ids))
		bs := make([][]byte, len(ids))
		for i, id := range ids {
			vs[i] = s16(id)
			bs[i] = []byte(vs[i])
		}
		return vs, bs
	}, func(v interface{}) ([]byte, error) {
		x, ok := v.(string)
		if !ok {
			return nil, fmt.Errorf("type %T", v)
		}
		return []byte(x), nil
	}})
	add(&EncSpec{"B3", encode.Bytes{Size: 3}, func(ids []uint64) (interface{}, [][]byte) {
		vs := make([][]byte, len(ids))
		bs := make([][]byte, len(ids))
		for i, id := range ids {
			vs[i] = le(3, id)
			bs[i] = le(3, id)
		}
		return vs, bs
	}, func(v interface{}) ([]byte, error) {
		x, ok := v.([]byte)
		if !ok {
			return nil, fmt.Errorf("type %T", v)
		}
		return append([]byte{}, x...), nil
	}})
	type te struct {
		A uint16
		B [2]int8
		C int32
	}
	teEnc, err := encode.NewTypeEncoderEndian(te{}, binary.BigEndian)
	if err != nil {
		panic(err)
	}
	teRef := func(x te) []byte {
		return []byte{byte(x.A >> 8), byte(x.A), byte(x.B[0]), byte(x.B[1]), byte(uint32(x.C) >> 24), byte(uint32(x.C) >> 16), byte(uint32(x.C) >> 8), byte(x.C)}
	}
	add(&EncSpec{"TE", teEnc, func(ids []uint64) (interface{}, [][]byte) {
		vs := make([]te, len(ids))
		bs := make([][]byte, len(ids))
		for i, id := range ids {
			vs[i] = te{uint16(id), [2]int8{int8(id >> 16), int8(id >> 24)}, int32(id >> 32)}
			bs[i] = teRef(vs[i])
		}
		return vs, bs
	}, func(v interface{}) ([]byte, error) {
		x, ok := v.(te)
		if !ok {
			return nil, fmt.Errorf("type %T", v)
		}
		return teRef(x), nil
	}})
	add(&EncSpec{"Dummy", encode.Dummy{}, func(ids []uint64) (interface{}, [][]byte) {
		vs := make([]int32, len(ids))
		bs := make([][]byte, len(ids))
		for i := range ids {
			bs[i] = []byte{}
		}
		return vs, bs
	}, func(v interface{}) ([]byte, error) {
		if v != nil {
			return nil, fmt.Errorf("dummy value %v", v)
		}
		return nil, nil
	}})
	return specs
}

func specByName(name string) *EncSpec {
	for _, s := range encSpecs() {
		if s.Name == name {
			return s
		}
	}
	return nil
}

// rawStrEnc is a user-defined variable-width encoder whose encoding of the
// empty string has zero bytes (the SlimTrie stores element sizes itself).
type rawStrEnc struct{}

func (rawStrEnc) Encode(d interface{}) []byte        { return []byte(d.(string)) }
func (rawStrEnc) Decode(b []byte) (int, interface{}) { return len(b), string(b) }
func (rawStrEnc) GetSize(d interface{}) int          { return len(d.(string)) }
func (rawStrEnc) GetEncodedSize(b []byte) int        { return len(b) }
