package main

// C15 - value encoders round-trip every value with consistent sizes and the
// documented byte layout.
//
// This file has three independent parts:
//   1. generators of (encoder, value, trailing bytes) cases and of raw decode
//      inputs (c15Gen*),
//   2. the implementation runner: calls the real encode.Encoder methods and
//      writes the canonical observables to impl.txt (the extracted Coq model
//      writes the same lines from cases.txt, see coq/extract/EncX_driver.ml),
//   3. the property oracle (c15Oracle): round trip, consumed size, GetSize,
//      GetEncodedSize and the byte layout against a reference layout written
//      here from the property text (c15RefLayout) - it uses neither the Coq
//      model nor the encode package.
//
// Text formats (shared with the OCaml driver):
//   V <id> <enc> <value> <rest> | D <id> <enc> <input> | G <id>
//   <enc>   I8 I16 I32 I64 U16 U32 U64 Int | S16 | B<n> | Dummy | TL:<type> | TB:<type>
//   <type>  i8..u64 | a<n>(<type>) | s(<type>,...)
//   <value> i:[-]<hex> | b:<hex or .> | nil | (<value>,...)

import (
	"encoding/binary"
	"encoding/hex"
	"fmt"
	"reflect"
	"runtime"
	"strings"
	"sync"

	"github.com/openacid/slim/encode"
)

func init() { register("C15", c15Run) }

// ---------------------------------------------------------------- values

type c15Val struct {
	kind byte // 'i' integer, 'b' bytes/string, 'n' nil, 's' sequence (array or struct)
	neg  bool
	mag  uint64
	bs   []byte
	seq  []*c15Val
}

func c15IntS(x int64) *c15Val {
	if x < 0 {
		return &c15Val{kind: 'i', neg: true, mag: uint64(-x)} // -min wraps to 2^63, the right magnitude
	}
	return &c15Val{kind: 'i', mag: uint64(x)}
}
func c15IntU(x uint64) *c15Val { return &c15Val{kind: 'i', mag: x} }

// c15FromPattern interprets the low `bits` bits of p as a value of the type.
func c15FromPattern(p uint64, bits int, signed bool) *c15Val {
	if bits < 64 {
		p &= (uint64(1) << uint(bits)) - 1
	}
	if !signed {
		return c15IntU(p)
	}
	sh := uint(64 - bits)
	return c15IntS(int64(p<<sh) >> sh)
}

func (v *c15Val) i64() int64 {
	if v.neg {
		return -int64(v.mag)
	}
	return int64(v.mag)
}

func c15Hex(b []byte) string {
	if len(b) == 0 {
		return "."
	}
	return hex.EncodeToString(b)
}

func (v *c15Val) write(sb *strings.Builder) {
	switch v.kind {
	case 'i':
		sb.WriteString("i:")
		if v.neg {
			sb.WriteByte('-')
		}
		fmt.Fprintf(sb, "%x", v.mag)
	case 'b':
		sb.WriteString("b:")
		sb.WriteString(c15Hex(v.bs))
	case 'n':
		sb.WriteString("nil")
	case 's':
		sb.WriteByte('(')
		for i, x := range v.seq {
			if i > 0 {
				sb.WriteByte(',')
			}
			x.write(sb)
		}
		sb.WriteByte(')')
	}
}

func (v *c15Val) text() string {
	var sb strings.Builder
	v.write(&sb)
	return sb.String()
}

// ---------------------------------------------------------------- types

type c15Ty struct {
	kind   byte // 'p' sized integer, 'a' array, 's' struct
	signed bool
	bits   int
	n      int
	elem   *c15Ty
	fields []*c15Ty
	rt     reflect.Type // set for types that come from an ordinary Go declaration
}

func c15Prim(signed bool, bits int) *c15Ty { return &c15Ty{kind: 'p', signed: signed, bits: bits} }
func c15Arr(n int, e *c15Ty) *c15Ty        { return &c15Ty{kind: 'a', n: n, elem: e} }
func c15Struct(fs ...*c15Ty) *c15Ty        { return &c15Ty{kind: 's', fields: fs} }

func (t *c15Ty) text() string {
	switch t.kind {
	case 'p':
		if t.signed {
			return fmt.Sprintf("i%d", t.bits)
		}
		return fmt.Sprintf("u%d", t.bits)
	case 'a':
		return fmt.Sprintf("a%d(%s)", t.n, t.elem.text())
	}
	parts := make([]string, len(t.fields))
	for i, f := range t.fields {
		parts[i] = f.text()
	}
	return "s(" + strings.Join(parts, ",") + ")"
}

func (t *c15Ty) size() int {
	switch t.kind {
	case 'p':
		return t.bits / 8
	case 'a':
		return t.n * t.elem.size()
	}
	s := 0
	for _, f := range t.fields {
		s += f.size()
	}
	return s
}

func (t *c15Ty) rtype() reflect.Type {
	if t.rt != nil {
		return t.rt
	}
	switch t.kind {
	case 'p':
		switch {
		case t.signed && t.bits == 8:
			return reflect.TypeOf(int8(0))
		case t.signed && t.bits == 16:
			return reflect.TypeOf(int16(0))
		case t.signed && t.bits == 32:
			return reflect.TypeOf(int32(0))
		case t.signed && t.bits == 64:
			return reflect.TypeOf(int64(0))
		case t.bits == 8:
			return reflect.TypeOf(uint8(0))
		case t.bits == 16:
			return reflect.TypeOf(uint16(0))
		case t.bits == 32:
			return reflect.TypeOf(uint32(0))
		}
		return reflect.TypeOf(uint64(0))
	case 'a':
		return reflect.ArrayOf(t.n, t.elem.rtype())
	}
	fs := make([]reflect.StructField, len(t.fields))
	for i, f := range t.fields {
		fs[i] = reflect.StructField{Name: fmt.Sprintf("F%d", i), Type: f.rtype()}
	}
	return reflect.StructOf(fs)
}

// ordinary Go declarations, with their descriptors
type c15DeclInner struct {
	D uint8
	E int64
}
type c15DeclA struct {
	A int16
	B [2]uint32
	C c15DeclInner
}
type c15DeclPair struct {
	X int8
	Y uint16
}
type c15DeclB struct {
	P [2]c15DeclPair
	Q uint64
}

func c15DeclaredTypes() []*c15Ty {
	a := c15Struct(c15Prim(true, 16), c15Arr(2, c15Prim(false, 32)), c15Struct(c15Prim(false, 8), c15Prim(true, 64)))
	a.rt = reflect.TypeOf(c15DeclA{})
	b := c15Struct(c15Arr(2, c15Struct(c15Prim(true, 8), c15Prim(false, 16))), c15Prim(false, 64))
	b.rt = reflect.TypeOf(c15DeclB{})
	return []*c15Ty{a, b}
}

// c15Fill stores v (a value of descriptor t) into rv.
func c15Fill(t *c15Ty, v *c15Val, rv reflect.Value) {
	switch t.kind {
	case 'p':
		if t.signed {
			rv.SetInt(v.i64())
		} else {
			rv.SetUint(v.mag)
		}
	case 'a':
		for i := 0; i < t.n; i++ {
			c15Fill(t.elem, v.seq[i], rv.Index(i))
		}
	case 's':
		for i, f := range t.fields {
			c15Fill(f, v.seq[i], rv.Field(i))
		}
	}
}

// c15FromGo canonicalises a Go value returned by Decode.
func c15FromGo(x interface{}) *c15Val {
	switch y := x.(type) {
	case nil:
		return &c15Val{kind: 'n'}
	case string:
		return &c15Val{kind: 'b', bs: []byte(y)}
	case []byte:
		return &c15Val{kind: 'b', bs: y}
	}
	return c15FromReflect(reflect.ValueOf(x))
}

func c15FromReflect(rv reflect.Value) *c15Val {
	switch rv.Kind() {
	case reflect.Int8, reflect.Int16, reflect.Int32, reflect.Int64, reflect.Int:
		return c15IntS(rv.Int())
	case reflect.Uint8, reflect.Uint16, reflect.Uint32, reflect.Uint64, reflect.Uint:
		return c15IntU(rv.Uint())
	case reflect.Array:
		s := &c15Val{kind: 's', seq: []*c15Val{}}
		for i := 0; i < rv.Len(); i++ {
			s.seq = append(s.seq, c15FromReflect(rv.Index(i)))
		}
		return s
	case reflect.Struct:
		s := &c15Val{kind: 's', seq: []*c15Val{}}
		for i := 0; i < rv.NumField(); i++ {
			s.seq = append(s.seq, c15FromReflect(rv.Field(i)))
		}
		return s
	}
	return &c15Val{kind: 'b', bs: []byte("unexpected kind " + rv.Kind().String())}
}

// ---------------------------------------------------------------- encoders

type c15Enc struct {
	spec   string // text in cases.txt
	family string // key for counters and findings
	enc    encode.Encoder
	// integer codecs
	isInt  bool
	signed bool
	bits   int
	// Bytes
	nbytes int
	// TypeEncoder
	ty  *c15Ty
	big bool
	// Go value of a canonical value
	mk func(v *c15Val) interface{}
}

func c15IntEncoders() []*c15Enc {
	mkInt := func(name string, e encode.Encoder, signed bool, bits int, mk func(v *c15Val) interface{}) *c15Enc {
		return &c15Enc{spec: name, family: name, enc: e, isInt: true, signed: signed, bits: bits, mk: mk}
	}
	return []*c15Enc{
		mkInt("I8", encode.I8{}, true, 8, func(v *c15Val) interface{} { return int8(v.i64()) }),
		mkInt("I16", encode.I16{}, true, 16, func(v *c15Val) interface{} { return int16(v.i64()) }),
		mkInt("I32", encode.I32{}, true, 32, func(v *c15Val) interface{} { return int32(v.i64()) }),
		mkInt("I64", encode.I64{}, true, 64, func(v *c15Val) interface{} { return v.i64() }),
		mkInt("U16", encode.U16{}, false, 16, func(v *c15Val) interface{} { return uint16(v.mag) }),
		mkInt("U32", encode.U32{}, false, 32, func(v *c15Val) interface{} { return uint32(v.mag) }),
		mkInt("U64", encode.U64{}, false, 64, func(v *c15Val) interface{} { return v.mag }),
		// native int: 64 bit on the platform of this check (asserted in c15Run)
		mkInt("Int", encode.Int{}, true, 64, func(v *c15Val) interface{} { return int(v.i64()) }),
	}
}

func c15S16() *c15Enc {
	return &c15Enc{spec: "S16", family: "String16", enc: encode.String16{},
		mk: func(v *c15Val) interface{} { return string(v.bs) }}
}

func c15Bytes(n int) *c15Enc {
	return &c15Enc{spec: fmt.Sprintf("B%d", n), family: "Bytes", enc: encode.Bytes{Size: n}, nbytes: n,
		mk: func(v *c15Val) interface{} { return append([]byte{}, v.bs...) }}
}

func c15Dummy() *c15Enc {
	return &c15Enc{spec: "Dummy", family: "Dummy", enc: encode.Dummy{},
		mk: func(v *c15Val) interface{} {
			switch v.kind {
			case 'n':
				return nil
			case 'i':
				return v.i64()
			}
			return string(v.bs)
		}}
}

func c15TE(t *c15Ty, big bool) (*c15Enc, error) {
	var order binary.ByteOrder = binary.LittleEndian
	tag := "TL:"
	if big {
		order = binary.BigEndian
		tag = "TB:"
	}
	rt := t.rtype()
	te, err := encode.NewTypeEncoderEndianByType(rt, order)
	if err != nil {
		return nil, err
	}
	return &c15Enc{spec: tag + t.text(), family: "TypeEncoder", enc: te, ty: t, big: big,
		mk: func(v *c15Val) interface{} {
			rv := reflect.New(rt).Elem()
			c15Fill(t, v, rv)
			return rv.Interface()
		}}, nil
}

// ---------------------------------------------------------------- reference layout (oracle)

// c15RefInt: the fixed-width two's-complement bytes of an integer, least
// significant byte first (little) or last (big).
func c15RefInt(v *c15Val, width int, big bool) []byte {
	u := v.mag
	if v.neg {
		u = ^v.mag + 1
	}
	out := make([]byte, width)
	for i := 0; i < width; i++ {
		b := byte(u >> (8 * uint(i)))
		if big {
			out[width-1-i] = b
		} else {
			out[i] = b
		}
	}
	return out
}

func c15RefType(t *c15Ty, v *c15Val, big bool, out []byte) []byte {
	switch t.kind {
	case 'p':
		return append(out, c15RefInt(v, t.bits/8, big)...)
	case 'a':
		for i := 0; i < t.n; i++ {
			out = c15RefType(t.elem, v.seq[i], big, out)
		}
		return out
	}
	for i, f := range t.fields {
		out = c15RefType(f, v.seq[i], big, out)
	}
	return out
}

// c15RefLayout is the on-disk value format as the property states it.
func c15RefLayout(e *c15Enc, v *c15Val) []byte {
	switch {
	case e.isInt:
		return c15RefInt(v, e.bits/8, false) // little endian
	case e.family == "String16":
		l := len(v.bs)
		return append([]byte{byte(l / 256), byte(l % 256)}, v.bs...) // big-endian 16-bit length
	case e.family == "Bytes":
		return append([]byte{}, v.bs...)
	case e.family == "Dummy":
		return []byte{}
	}
	return c15RefType(e.ty, v, e.big, []byte{})
}

// ---------------------------------------------------------------- runner

type c15H struct {
	c    *Ctx
	next int
}

type c15Dec struct {
	panicked bool
	n        int
	v        interface{}
}

func c15TryBytes(f func() []byte) (out []byte, panicked bool) {
	defer func() {
		if r := recover(); r != nil {
			panicked = true
		}
	}()
	return f(), false
}

func c15TryInt(f func() int) (out int, panicked bool) {
	defer func() {
		if r := recover(); r != nil {
			panicked = true
		}
	}()
	return f(), false
}

func c15TryDecode(e encode.Encoder, in []byte) (d c15Dec) {
	defer func() {
		if r := recover(); r != nil {
			d = c15Dec{panicked: true}
		}
	}()
	n, v := e.Decode(in)
	return c15Dec{n: n, v: v}
}

// c15Exact returns a++b in a slice whose capacity equals its length, so that
// re-slicing beyond the data panics instead of reading spare capacity.
func c15Exact(a, b []byte) []byte {
	in := make([]byte, len(a)+len(b))
	copy(in, a)
	copy(in[len(a):], b)
	return in[:len(in):len(in)]
}

func (h *c15H) id() string {
	h.next++
	return fmt.Sprintf("%d", h.next)
}

func c15SizeLine(tag string, n int, p bool) string {
	if p {
		return tag + " PANIC\n"
	}
	return fmt.Sprintf("%s %d\n", tag, n)
}

func c15DecLine(d c15Dec) string {
	if d.panicked {
		return "dec PANIC\n"
	}
	return fmt.Sprintf("dec %d %s\n", d.n, c15FromGo(d.v).text())
}

// runV: one value case. inDomain says whether the property speaks about it.
func (h *c15H) runV(e *c15Enc, v *c15Val, rest []byte, inDomain bool) {
	h.runVgo(e, v, e.mk(v), rest, inDomain)
}

// c15GoByKind: the plain Go value of a canonical value (string, int64, nil),
// used to hand an encoder a value of a foreign type.
func c15GoByKind(v *c15Val) interface{} {
	switch v.kind {
	case 'b':
		return string(v.bs)
	case 'i':
		return v.i64()
	}
	return nil
}

func (h *c15H) runVgo(e *c15Enc, v *c15Val, gv interface{}, rest []byte, inDomain bool) {
	c := h.c
	id := h.id()
	vt := v.text()
	body := fmt.Sprintf("%s %s %s", e.spec, vt, c15Hex(rest))
	fmt.Fprintf(c.Cases(), "V %s %s\n", id, body)
	w := c.Impl()
	fmt.Fprintf(w, "C %s\n", id)

	enc, pEnc := c15TryBytes(func() []byte { return e.enc.Encode(gv) })
	if pEnc {
		fmt.Fprint(w, "enc PANIC\n")
	} else {
		fmt.Fprintf(w, "enc %s\n", c15Hex(enc))
		size, pSize := c15TryInt(func() int { return e.enc.GetSize(gv) })
		fmt.Fprint(w, c15SizeLine("size", size, pSize))
		all := c15Exact(enc, rest)
		es, pEs := c15TryInt(func() int { return e.enc.GetEncodedSize(all) })
		fmt.Fprint(w, c15SizeLine("esize", es, pEs))
		fmt.Fprint(w, c15DecLine(c15TryDecode(e.enc, all)))
	}

	// bookkeeping + oracle
	c.Or.Case(body, inDomain)
	c.Or.Count("encoder:" + e.family)
	if inDomain {
		c.Or.Count("domain:in")
	} else {
		c.Or.Count("domain:outside(correspondence only)")
	}
	if len(rest) == 0 {
		c.Or.Count("rest:empty")
	} else {
		c.Or.Count("rest:nonempty")
	}
	if h.next%997 == 1 {
		c.Or.Sample(map[string]string{"enc": e.spec, "value": c15Short(vt), "rest": c15Hex(rest)})
	}
	if inDomain {
		if key, what := c15Oracle(e, v, gv, rest); key != "" {
			c.Or.Violate(key, what, map[string]string{"enc": e.spec, "value": c15Short(vt), "rest": c15Hex(rest)})
		}
	}
}

func c15Short(s string) string {
	if len(s) > 300 {
		return s[:300] + fmt.Sprintf("...(%d chars)", len(s))
	}
	return s
}

// runD: Decode / GetEncodedSize of arbitrary bytes (correspondence only: the
// property speaks about encodings, this pins down the model of Decode,
// including the panic on short input).
func (h *c15H) runD(e *c15Enc, in []byte) {
	c := h.c
	id := h.id()
	body := fmt.Sprintf("%s %s", e.spec, c15Hex(in))
	fmt.Fprintf(c.Cases(), "D %s %s\n", id, body)
	w := c.Impl()
	fmt.Fprintf(w, "C %s\n", id)
	buf := c15Exact(in, nil)
	es, pEs := c15TryInt(func() int { return e.enc.GetEncodedSize(buf) })
	fmt.Fprint(w, c15SizeLine("esize", es, pEs))
	fmt.Fprint(w, c15DecLine(c15TryDecode(e.enc, buf)))
	c.Or.Case("D "+body, false)
	c.Or.Count("rawdecode:" + e.family)
}

// ---------------------------------------------------------------- oracle

// c15Oracle checks the property text on one in-domain value. It returns the
// finding key and a description, or "".
func c15Oracle(e *c15Enc, v *c15Val, gv interface{}, rest []byte) (string, string) {
	fam := e.family
	enc, p := c15TryBytes(func() []byte { return e.enc.Encode(gv) })
	if p {
		return "C15:panic:" + fam, "Encode panics on a value of the domain"
	}
	enc = append([]byte{}, enc...)
	if ref := c15RefLayout(e, v); string(ref) != string(enc) {
		return "C15:layout:" + fam, fmt.Sprintf("Encode = %s, the documented layout is %s", c15Short(c15Hex(enc)), c15Short(c15Hex(ref)))
	}
	size, p := c15TryInt(func() int { return e.enc.GetSize(gv) })
	if p || size != len(enc) {
		return "C15:getsize:" + fam, fmt.Sprintf("GetSize = %d (panic=%v), len(Encode) = %d", size, p, len(enc))
	}
	want := v.text()
	inputs := [][]byte{c15Exact(enc, nil)}
	if len(rest) > 0 {
		inputs = append(inputs, c15Exact(enc, rest))
	}
	for _, in := range inputs {
		es, p := c15TryInt(func() int { return e.enc.GetEncodedSize(in) })
		if p || es != len(enc) {
			return "C15:getencodedsize:" + fam, fmt.Sprintf("GetEncodedSize = %d (panic=%v) on %d+%d bytes, len(Encode) = %d", es, p, len(enc), len(in)-len(enc), len(enc))
		}
		d := c15TryDecode(e.enc, in)
		if d.panicked {
			return "C15:panic:" + fam, fmt.Sprintf("Decode panics on the encoding followed by %d bytes", len(in)-len(enc))
		}
		if d.n != len(enc) {
			return "C15:decode-size:" + fam, fmt.Sprintf("Decode consumed %d, len(Encode) = %d", d.n, len(enc))
		}
		got := c15FromGo(d.v).text()
		if got != want {
			return "C15:roundtrip:" + fam, fmt.Sprintf("Decode(Encode(v)) = %s, v = %s", c15Short(got), c15Short(want))
		}
		if reflect.TypeOf(d.v) != reflect.TypeOf(gv) {
			return "C15:roundtrip-type:" + fam, fmt.Sprintf("Decode returns a %T for a %T", d.v, gv)
		}
	}
	return "", ""
}

// ---------------------------------------------------------------- generators

func c15Garbage(r *RNG, n int) []byte {
	b := make([]byte, n)
	for i := range b {
		switch r.Intn(4) {
		case 0:
			b[i] = 0x00
		case 1:
			b[i] = 0xff
		default:
			b[i] = byte(r.U64())
		}
	}
	return b
}

func c15Rest(r *RNG) []byte {
	if r.Intn(3) == 0 {
		return nil
	}
	return c15Garbage(r, 1+r.Intn(4))
}

// c15Boundaries: bit patterns around every power of two, both signs.
func c15Boundaries(bits int) []uint64 {
	out := []uint64{0, 1, 0x1234, 0x12345678, 0x123456789abcdef0, ^uint64(0)}
	for k := 0; k < bits; k++ {
		p := uint64(1) << uint(k)
		out = append(out, p, p-1, p+1, -p, -p-1, -p+1)
	}
	return out
}

// c15RandPattern: half uniform over the width, half uniform over the bit length.
func c15RandPattern(r *RNG, bits int) uint64 {
	x := r.U64()
	if r.Bool() {
		x >>= uint(r.Intn(64))
		if r.Bool() {
			x = -x
		}
	}
	return x
}

func c15GenInts(h *c15H, e *c15Enc, nRandom int, exhaustive bool) {
	r := h.c.R
	if exhaustive {
		for p := uint64(0); p < uint64(1)<<uint(e.bits); p++ {
			h.runV(e, c15FromPattern(p, e.bits, e.signed), c15Rest(r), true)
		}
		h.c.Or.Count(fmt.Sprintf("exhaustive:%s", e.spec))
		return
	}
	for _, p := range c15Boundaries(e.bits) {
		h.runV(e, c15FromPattern(p, e.bits, e.signed), c15Rest(r), true)
	}
	for i := 0; i < nRandom; i++ {
		h.runV(e, c15FromPattern(c15RandPattern(r, e.bits), e.bits, e.signed), c15Rest(r), true)
	}
}

func c15GenType(r *RNG, depth int, budget *int, top bool) *c15Ty {
	prims := []*c15Ty{c15Prim(true, 8), c15Prim(true, 16), c15Prim(true, 32), c15Prim(true, 64),
		c15Prim(false, 8), c15Prim(false, 16), c15Prim(false, 32), c15Prim(false, 64)}
	k := r.Intn(10)
	if top && k < 4 {
		k = 4 + r.Intn(6) // a composite type at the top
	}
	if depth == 0 || *budget <= 8 || k < 4 {
		*budget -= 8
		p := *prims[r.Intn(len(prims))]
		return &p
	}
	if k < 7 {
		n := r.Intn(5)
		sub := *budget / (n + 1)
		e := c15GenType(r, depth-1, &sub, false)
		*budget -= n * e.size()
		return c15Arr(n, e)
	}
	n := r.Intn(6)
	fs := []*c15Ty{}
	for i := 0; i < n; i++ {
		fs = append(fs, c15GenType(r, depth-1, budget, false))
	}
	return c15Struct(fs...)
}

// mode: 0 random with boundary bias, 1 all minimal, 2 all maximal, 3 all zero
func c15GenValue(r *RNG, t *c15Ty, mode int) *c15Val {
	switch t.kind {
	case 'p':
		var p uint64
		m := mode
		if m == 0 {
			switch r.Intn(8) {
			case 0:
				m = 1
			case 1:
				m = 2
			case 2:
				m = 3
			case 3:
				p = ^uint64(0) // -1 / max unsigned
			case 4:
				p = 1
			default:
				p = c15RandPattern(r, t.bits)
			}
		}
		switch m {
		case 1:
			if t.signed {
				p = uint64(1) << uint(t.bits-1)
			} else {
				p = 0
			}
		case 2:
			if t.signed {
				p = uint64(1)<<uint(t.bits-1) - 1
			} else {
				p = ^uint64(0)
			}
		case 3:
			p = 0
		}
		return c15FromPattern(p, t.bits, t.signed)
	case 'a':
		s := &c15Val{kind: 's', seq: []*c15Val{}}
		for i := 0; i < t.n; i++ {
			s.seq = append(s.seq, c15GenValue(r, t.elem, mode))
		}
		return s
	}
	s := &c15Val{kind: 's', seq: []*c15Val{}}
	for _, f := range t.fields {
		s.seq = append(s.seq, c15GenValue(r, f, mode))
	}
	return s
}

// ---------------------------------------------------------------- exhaustive 32 bit (thorough, oracle only)

// c15Exhaustive32 runs the oracle's checks on all 2^32 values of a 32-bit
// codec against the closed-form layout, in parallel shards; not written to
// cases.txt (the model side of these values is the theorem C15_int_codecs).
func c15Exhaustive32(c *Ctx, e *c15Enc) {
	workers := runtime.NumCPU()
	if workers > 16 {
		workers = 16
	}
	type finding struct {
		key, what string
		p         uint64
	}
	var mu sync.Mutex
	var found []finding
	var wg sync.WaitGroup
	total := uint64(1) << 32
	per := total / uint64(workers)
	for wi := 0; wi < workers; wi++ {
		lo := uint64(wi) * per
		hi := lo + per
		if wi == workers-1 {
			hi = total
		}
		wg.Add(1)
		go func(lo, hi uint64) {
			defer wg.Done()
			in := make([]byte, 5)
			in = in[:5:5]
			in[4] = 0xa5
			nf := 0
			for p := lo; p < hi && nf < 3; p++ {
				var gv interface{}
				if e.signed {
					gv = int32(uint32(p))
				} else {
					gv = uint32(p)
				}
				key, what := "", ""
				func() {
					defer func() {
						if r := recover(); r != nil {
							key, what = "C15:panic:"+e.family, "panic on a value of the domain"
						}
					}()
					enc := e.enc.Encode(gv)
					if len(enc) != 4 || enc[0] != byte(p) || enc[1] != byte(p>>8) || enc[2] != byte(p>>16) || enc[3] != byte(p>>24) {
						key, what = "C15:layout:"+e.family, fmt.Sprintf("Encode = %x", enc)
						return
					}
					if e.enc.GetSize(gv) != 4 {
						key, what = "C15:getsize:"+e.family, "GetSize != 4"
						return
					}
					copy(in, enc)
					if e.enc.GetEncodedSize(in) != 4 || e.enc.GetEncodedSize(in[:4:4]) != 4 {
						key, what = "C15:getencodedsize:"+e.family, "GetEncodedSize != 4"
						return
					}
					for _, buf := range [][]byte{in, in[:4:4]} {
						n, dv := e.enc.Decode(buf)
						if n != 4 {
							key, what = "C15:decode-size:"+e.family, fmt.Sprintf("Decode consumed %d", n)
							return
						}
						if dv != gv {
							key, what = "C15:roundtrip:"+e.family, fmt.Sprintf("Decode(Encode(v)) = %v", dv)
							return
						}
					}
				}()
				if key != "" {
					nf++
					mu.Lock()
					found = append(found, finding{key, what, p})
					mu.Unlock()
				}
			}
		}(lo, hi)
	}
	wg.Wait()
	c.Or.Evaluations += int(total)
	c.Or.Distinct += int(total)
	c.Or.Add("exhaustive32(oracle only):"+e.spec, int(total))
	for _, f := range found {
		v := c15FromPattern(f.p, 32, e.signed)
		c.Or.Violate(f.key, f.what, map[string]string{"enc": e.spec, "value": v.text(), "rest": "a5"})
	}
}

// ---------------------------------------------------------------- the property run

func c15CodecTableLines(repo string) string {
	var sb strings.Builder
	fmt.Fprintf(&sb, "uintsize %d\n", reflect.TypeOf(uint(0)).Size()*8)
	b := func(x bool) int {
		if x {
			return 1
		}
		return 0
	}
	for _, g := range c15ReadCodecs(repo) {
		fmt.Fprintf(&sb, "codec %s signed=%d valbits=%d enc=%d/%d/%d dec=%d/%d/%d ret=%d/%d getsize=%d getencodedsize=%d\n",
			g.Name, b(g.Signed), g.ValBits, g.EncLen, g.EncBits, b(g.EncBig), g.DecLen, g.DecBits, b(g.DecBig),
			b(g.RetSigned), g.RetBits, g.GetSize, g.GetEncodedSize)
	}
	return sb.String()
}

func c15Run(c *Ctx) {
	h := &c15H{c: c}
	r := c.R
	c.Or.Rule = "one case = (encoder, value, trailing bytes); a case counts as non-trivial when the value is in the encoder's domain " +
		"(integer: any value of the Go type; String16: length <= 65535; Bytes{n}: length n; Dummy: nil; TypeEncoder: a value of the type); " +
		"distinct = distinct (encoder, value, trailing bytes) texts. The oracle checks each in-domain case with and without the trailing bytes: " +
		"layout == reference layout, GetSize == len(Encode), GetEncodedSize == len(Encode), Decode == (len(Encode), v) with the same Go type. " +
		"Out-of-domain values and raw decode inputs (D cases, incl. short input) are compared with the model only. " +
		"Thorough adds all 2^32 values of I32 and U32, oracle only (counted in evaluations and distinct)."
	if reflect.TypeOf(int(0)).Size() != 8 {
		c.Or.Violate("C15:platform", "native int is not 64 bit: the model of encode.Int is for 64-bit platforms", nil)
	}

	// the codec table as read from the source now, against the table the model was compiled with
	{
		id := h.id()
		fmt.Fprintf(c.Cases(), "G %s\n", id)
		fmt.Fprintf(c.Impl(), "C %s\n%s", id, c15CodecTableLines(c.Repo))
		c.Or.Case("G", false)
	}

	// ---- integer codecs
	for _, e := range c15IntEncoders() {
		switch e.bits {
		case 8:
			c15GenInts(h, e, 0, true)
		case 16:
			c15GenInts(h, e, c.N(1500, 0), c.Thorough())
		case 32:
			c15GenInts(h, e, c.N(3000, 150000), false)
		default:
			c15GenInts(h, e, c.N(3000, 100000), false)
		}
		// raw decode: every length around the width
		w := e.bits / 8
		for l := 0; l <= w+2; l++ {
			for k := 0; k < c.N(4, 40); k++ {
				h.runD(e, c15Garbage(r, l))
			}
		}
	}

	// ---- String16
	s16 := c15S16()
	for _, l := range []int{0, 1, 2, 3, 255, 256, 257, 65534, 65535} {
		for k := 0; k < c.N(1, 3); k++ {
			h.runV(s16, &c15Val{kind: 'b', bs: c15Garbage(r, l)}, c15Rest(r), true)
		}
	}
	for _, l := range []int{65536, 65537, 65536 + 255, 70000, 131072} { // outside the domain: the length wraps mod 65536
		h.runV(s16, &c15Val{kind: 'b', bs: c15Garbage(r, l)}, c15Rest(r), false)
	}
	for k := 0; k < c.N(150, 3000); k++ {
		h.runV(s16, &c15Val{kind: 'b', bs: c15Garbage(r, r.Intn(300))}, c15Rest(r), true)
	}
	for k := 0; k < c.N(3, 40); k++ {
		h.runV(s16, &c15Val{kind: 'b', bs: c15Garbage(r, 1000+r.Intn(64536))}, c15Rest(r), true)
	}
	for k := 0; k < c.N(60, 1500); k++ { // raw decode: declared length below, equal to and above what is there
		in := c15Garbage(r, r.Intn(9))
		if len(in) >= 2 && r.Intn(4) != 0 {
			in[0] = 0
			in[1] = byte(r.Intn(8))
		}
		h.runD(s16, in)
	}

	// ---- Bytes{n}
	for n := 0; n <= 40; n++ {
		e := c15Bytes(n)
		for k := 0; k < c.N(3, 30); k++ {
			h.runV(e, &c15Val{kind: 'b', bs: c15Garbage(r, n)}, c15Rest(r), true)
		}
		// always once with unrelated bytes behind the encoding and once with none (Size 0 included)
		h.runV(e, &c15Val{kind: 'b', bs: c15Garbage(r, n)}, c15Garbage(r, 1+r.Intn(5)), true)
		h.runV(e, &c15Val{kind: 'b', bs: c15Garbage(r, n)}, nil, true)
		// outside the domain: Encode returns the argument unchanged
		for _, l := range []int{n - 1, n + 1, n + 3} {
			if l >= 0 {
				h.runV(e, &c15Val{kind: 'b', bs: c15Garbage(r, l)}, c15Rest(r), false)
			}
		}
		for _, l := range []int{n - 1, n, n + 2} {
			if l >= 0 {
				h.runD(e, c15Garbage(r, l))
			}
		}
	}

	// ---- Dummy
	dm := c15Dummy()
	for k := 0; k < c.N(5, 50); k++ {
		h.runV(dm, &c15Val{kind: 'n'}, c15Rest(r), true)
	}
	h.runV(dm, c15IntS(-5), c15Rest(r), false) // decodes to nil, not to the value
	h.runV(dm, &c15Val{kind: 'b', bs: []byte("abc")}, c15Rest(r), false)
	for l := 0; l < 4; l++ {
		h.runD(dm, c15Garbage(r, l))
	}

	// ---- TypeEncoder
	types := []*c15Ty{}
	for _, s := range []bool{true, false} {
		for _, b := range []int{8, 16, 32, 64} {
			types = append(types, c15Prim(s, b))
		}
	}
	types = append(types,
		c15Arr(4, c15Prim(false, 16)), c15Arr(0, c15Prim(true, 32)), c15Arr(3, c15Arr(2, c15Prim(true, 8))),
		c15Struct(), c15Struct(c15Prim(false, 8)),
		c15Struct(c15Prim(false, 8), c15Prim(false, 16), c15Prim(false, 32), c15Prim(false, 64),
			c15Prim(true, 8), c15Prim(true, 16), c15Prim(true, 32), c15Prim(true, 64)),
		c15Struct(c15Arr(2, c15Struct(c15Arr(3, c15Prim(true, 16)), c15Prim(false, 8))), c15Struct(c15Struct(c15Prim(true, 64)))),
	)
	types = append(types, c15DeclaredTypes()...)
	for k := 0; k < c.N(40, 500); k++ {
		budget := 256
		types = append(types, c15GenType(r, 1+r.Intn(3), &budget, true))
	}
	for _, t := range types {
		for _, big := range []bool{false, true} {
			e, err := c15TE(t, big)
			if err != nil {
				c.Or.Violate("C15:typeencoder-new", "NewTypeEncoderEndianByType rejects the fixed-size type "+t.text()+": "+err.Error(), t.text())
				continue
			}
			c.Or.Count(fmt.Sprintf("te-size:%d", c15Bucket(t.size())))
			for mode := 1; mode <= 3; mode++ {
				h.runV(e, c15GenValue(r, t, mode), c15Rest(r), true)
			}
			for k := 0; k < c.N(8, 30); k++ {
				h.runV(e, c15GenValue(r, t, 0), c15Rest(r), true)
			}
			sz := t.size()
			for _, l := range []int{sz - 1, sz, sz + 3, sz / 2} {
				if l >= 0 {
					h.runD(e, c15Garbage(r, l))
				}
			}
		}
	}

	// ---- values of a foreign kind: the type assertion in Encode panics (correspondence only)
	{
		str := &c15Val{kind: 'b', bs: []byte("ab")}
		num := c15IntS(-(1 << 40)) // an int64 outside every narrower type
		null := &c15Val{kind: 'n'}
		for _, e := range c15IntEncoders() {
			if e.bits < 64 {
				h.runVgo(e, num, c15GoByKind(num), nil, false)
			}
			h.runVgo(e, str, c15GoByKind(str), nil, false)
			h.runVgo(e, null, nil, nil, false)
		}
		h.runVgo(s16, num, c15GoByKind(num), nil, false)
		h.runVgo(s16, null, nil, nil, false)
		h.runVgo(c15Bytes(2), num, c15GoByKind(num), nil, false)
		h.runVgo(c15Bytes(2), null, nil, nil, false)
		for _, t := range types[:12] {
			e, err := c15TE(t, false)
			if err == nil {
				h.runVgo(e, str, c15GoByKind(str), nil, false)
				h.runVgo(e, null, nil, nil, false)
			}
		}
	}

	// ---- thorough: all 2^32 values of the 32-bit codecs, oracle only
	if c.Thorough() {
		for _, e := range c15IntEncoders() {
			if e.bits == 32 {
				c15Exhaustive32(c, e)
			}
		}
	}
}

func c15Bucket(n int) int {
	switch {
	case n == 0:
		return 0
	case n <= 8:
		return 8
	case n <= 32:
		return 32
	case n <= 128:
		return 128
	}
	return 1024
}
