package main

// C17: in filter mode (no stored prefixes, no values) the serialized index is at
// most 8 bytes per key plus 256 bytes, whatever the length or content of the
// keys, and prepending a common prefix to every key changes the size by at most
// a few bytes.
//
// Oracle (from the property text and the wire format only, never from the Coq
// model): for every generated key set K
//   (a) len(Marshal(K)) <= 8*|K| + 256, and
//   (b) for prefixes P of 1, 100, 5000, 8191, 8192, 9000, 16000 arbitrary bytes (as far as the
//       keys stay within 16 KiB): |len(Marshal(P+K)) - len(Marshal(K))| <= c17PrefixBound.
//
// c17PrefixBound = 16, from the format: with P the root's single-branch run
// grows by 2*|P| half-bytes. If the root already had a step the 2-byte step
// entry only changes its value (difference 0). Otherwise the root gains a step
// entry: 2 bytes in InnerPrefixes.Bytes, EltCnt grows by one (1 byte when its
// varint grows; 2 bytes when the field appears), the Bytes field may appear
// (2-byte tag + 1 length byte) or its length varint grows (1), bit 0 of
// PresenceBM.Words[0] is set (a set low bit never lengthens a varint), and
// the length prefixes of PresenceBM, InnerPrefixes (2 levels) may grow by a
// byte each: 2 + 2 + 3 + 2 = 9, rounded up to 16 to leave room for "a few"
// rank-index entries crossing a varint boundary. The rank index (one int32 per
// 128 inner nodes, each entry counting the steps before it) is the only part of
// the format whose growth is not bounded by a constant: every entry grows by one
// and may cross 127->128 or 16383->16384; the shape "plateau" is built to make
// many entries sit on such a boundary. (Coq: C17_prefix_delta_bound proves
// size(P+K) <= size(K) + 9 + entries, C17_prefix_never_shrinks the other side.)
// A delta above 16 is classified: root gains a step and delta <= 16 + entries ->
// key C17:prefix-delta:rank-index-varint-carry (known finding); anything else ->
// key C17:prefix-delta.
//
// Correspondence: for the cases small enough for the extracted model (a few
// thousand nodes) the whole Slim message built by creator.build is printed field
// by field (words in hex, rank indexes, short table, step bytes) together with
// proto.Size and len(Marshal()); the model prints the same from Size.encode_msg.

import (
	"encoding/hex"
	"fmt"
	"os"
	"sort"
	"strings"
	"time"

	"github.com/golang/protobuf/proto"
	"github.com/openacid/slim/encode"
	"github.com/openacid/slim/trie"
)

const c17PrefixBound = 16

type c17Shape struct {
	name string
	// gen returns the keys (any order, duplicates allowed) for size parameter n
	gen func(r *RNG, n int) []string
	// largest n the shape is asked for (key material grows quadratically for some)
	maxN int
}

// key from half-bytes; an odd count is padded with a zero half-byte
func c17FromNibs(ns []byte) string {
	b := make([]byte, (len(ns)+1)/2)
	for i, x := range ns {
		if i%2 == 0 {
			b[i/2] |= x << 4
		} else {
			b[i/2] |= x & 0xf
		}
	}
	return string(b)
}

// c17Addr writes j in base `base` with `digits` half-bytes (digit values from alpha)
func c17Addr(j, base, digits int, alpha []byte) []byte {
	out := make([]byte, digits)
	for i := digits - 1; i >= 0; i-- {
		out[i] = alpha[j%base]
		j /= base
	}
	return out
}

func c17Digits(n, base int) int {
	d := 1
	for p := base; p < n; p *= base {
		d++
	}
	return d
}

// all 16-bit masks with at least two bits, ordered by popcount then value
func c17Masks(width int) []uint32 {
	ms := []uint32{}
	for m := uint32(0); m < 1<<uint(width); m++ {
		c := 0
		for x := m; x != 0; x &= x - 1 {
			c++
		}
		if c >= 2 {
			ms = append(ms, m)
		}
	}
	sort.SliceStable(ms, func(i, j int) bool {
		ci, cj := 0, 0
		for x := ms[i]; x != 0; x &= x - 1 {
			ci++
		}
		for x := ms[j]; x != 0; x &= x - 1 {
			cj++
		}
		return ci < cj
	})
	return ms
}

// nodes addressed by a 3-ary half-byte address (at most 9 distinct first
// bytes: the root is not big, so no node is); node j has one leaf per set bit
// of masks[j % len(masks)].
func c17MaskNodes(n int, masks []uint32, tail func(j, b int) []byte) []string {
	ks := []string{}
	// number of nodes needed
	cnt, nodes := 0, 0
	for cnt < n {
		m := masks[nodes%len(masks)]
		for x := m; x != 0; x &= x - 1 {
			cnt++
		}
		nodes++
	}
	digits := c17Digits(nodes, 3)
	if digits%2 == 1 {
		digits++
	}
	alpha := []byte{0, 1, 2}
	for j := 0; j < nodes; j++ {
		a := c17Addr(j, 3, digits, alpha)
		m := masks[j%len(masks)]
		for b := 0; b < 16; b++ {
			if m&(1<<uint(b)) != 0 {
				k := append(append([]byte{}, a...), byte(b))
				if tail != nil {
					k = append(k, tail(j, b)...)
				}
				ks = append(ks, c17FromNibs(k))
			}
		}
	}
	return ks
}

// pairs-reused: a binary half-byte caterpillar with k distinct label pairs, each used by 3 inner
// nodes, every inner node but the root with a step: few keys, many label bitmaps of equal
// popcount that are each reused - the regime where the short-node table is (just) not worth it
func c17PairsReused(r *RNG, n int) []string {
	type pair struct{ a, b byte }
	all := []pair{}
	for a := byte(0); a < 16; a++ {
		for b := a + 1; b < 16; b++ {
			all = append(all, pair{a, b})
		}
	}
	k := (n + 6) / 3
	if k < 2 {
		k = 2
	}
	if k > 100 {
		k = 100
	}
	stride, start := 7, 0
	if r.Intn(2) == 1 {
		stride, start = []int{11, 13, 17}[r.Intn(3)], r.Intn(len(all))
	}
	chosen := []pair{}
	for i := start; len(chosen) < k; i += stride {
		chosen = append(chosen, all[i%len(all)])
	}
	keys := []string{}
	spine := []byte{}
	for i := 0; i < k*3 && len(spine) < 30000; i++ {
		p := chosen[i%k]
		cont, leaf := p.a, p.b
		if i%2 == 1 {
			cont, leaf = p.b, p.a
		}
		keys = append(keys, c17FromNibs(append(append([]byte{}, spine...), leaf)))
		spine = append(spine, cont, 0x5, 0xa)
	}
	return append(keys, c17FromNibs(spine))
}

// mixed-levels: the root fans out to more than ten bytes; below its first child hangs an
// 11-ary byte caterpillar (a node worth 257 bits on every level), below all its other children
// binary byte caterpillars: every breadth-first level starts with one wide node followed by
// many narrow ones
func c17MixedLevels(r *RNG, n int) []string {
	trees := 12 + r.Intn(30)
	depth := n / (10 + 2*trees)
	if depth < 2 {
		depth = 2
	}
	if depth > 300 {
		depth = 300
	}
	keys := []string{}
	spine := []byte{0x01}
	for i := 0; i < depth; i++ {
		for b := byte(2); b <= 11; b++ {
			keys = append(keys, string(append(append([]byte{}, spine...), b)))
		}
		spine = append(spine, 0x01)
	}
	keys = append(keys, string(spine))
	for t := 0; t < trees; t++ {
		sp := []byte{0x10 + byte(t)*3}
		for i := 0; i < depth; i++ {
			keys = append(keys, string(append(append([]byte{}, sp...), 0x02)))
			sp = append(sp, 0x01)
		}
		keys = append(keys, string(sp))
	}
	return keys
}

func c17Shapes(maxCat int) []c17Shape {
	return []c17Shape{
		{"pairs-reused", c17PairsReused, 400},
		{"mixed-levels", c17MixedLevels, 1 << 30},
		{"caterpillar", func(r *RNG, n int) []string {
			// binary caterpillar in half-bytes: 1^i 2, every inner node has two labels, depth n
			ks := make([]string, 0, n)
			ns := make([]byte, 0, n+1)
			for i := 0; i < n; i++ {
				ks = append(ks, c17FromNibs(append(ns, 2)))
				ns = append(ns, 1)
			}
			return ks
		}, maxCat},
		{"caterpillar-varied", func(r *RNG, n int) []string {
			// caterpillar whose spine/leaf half-bytes change at every level (up to 240 label pairs),
			// with an occasional single-branch run
			ks := make([]string, 0, n)
			ns := make([]byte, 0, 2*n)
			for i := 0; i < n && len(ns) < 32000; i++ {
				a := byte(r.Intn(16))
				b := byte(r.Intn(15))
				if b >= a {
					b++
				}
				ks = append(ks, c17FromNibs(append(ns, b, byte(r.Intn(16)))))
				ns = append(ns, a)
				if r.Intn(4) == 0 {
					run := 1 + r.Intn(6)
					for j := 0; j < run; j++ {
						ns = append(ns, byte(r.Intn(16)))
					}
				}
			}
			return ks
		}, maxCat},
		{"caterpillar-forest", func(r *RNG, n int) []string {
			// 3-ary addressed caterpillars of depth up to 600
			depth := 600
			if n < depth {
				depth = n
			}
			trees := (n + depth - 1) / depth
			digits := c17Digits(trees, 3)
			if digits%2 == 1 {
				digits++
			}
			ks := make([]string, 0, n)
			for t := 0; t < trees; t++ {
				ns := c17Addr(t, 3, digits, []byte{0, 1, 2})
				for i := 0; i < depth && len(ks) < n; i++ {
					ks = append(ks, c17FromNibs(append(append([]byte{}, ns...), 2)))
					ns = append(ns, 1)
				}
			}
			return ks
		}, 1 << 30},
		{"longstep", func(r *RNG, n int) []string {
			// balanced binary tree, every inner node preceded by a single-branch run of its own length
			ks := make([]string, 0, n)
			stepNo := 0
			maxRun := 900
			if n > 4000 {
				maxRun = 120
			}
			if n > 30000 {
				maxRun = 40
			}
			var rec func(pre []byte, m int)
			rec = func(pre []byte, m int) {
				if m == 1 {
					ks = append(ks, string(pre))
					return
				}
				stepNo++
				run := 1 + stepNo%maxRun
				p := append([]byte{}, pre...)
				for i := 0; i < run; i++ {
					p = append(p, byte(r.U64()))
				}
				a := byte(r.Intn(255))
				rec(append(append([]byte{}, p...), a), m/2)
				rec(append(append([]byte{}, p...), a+1+byte(r.Intn(255-int(a)))), m-m/2)
			}
			rec(nil, n)
			return ks
		}, 1 << 30},
		{"longstep-16k", func(r *RNG, n int) []string {
			// few keys, runs of thousands of bytes, total length up to 16 KiB
			if n > 64 {
				n = 64
			}
			ks := []string{}
			var rec func(pre []byte, m int, budget int)
			rec = func(pre []byte, m int, budget int) {
				if m == 1 {
					ks = append(ks, string(pre)+randBytes(r, r.Intn(1+budget)))
					return
				}
				run := budget / 3
				if run > 0 {
					run = 1 + r.Intn(run)
				}
				p := append(append([]byte{}, pre...), []byte(randBytes(r, run))...)
				a := byte(r.Intn(255))
				rec(append(append([]byte{}, p...), a), m/2, budget-run-1)
				rec(append(append([]byte{}, p...), a+1), m-m/2, budget-run-1)
			}
			rec(nil, n, 16384)
			return ks
		}, 64},
		{"fanout11", func(r *RNG, n int) []string {
			// every inner node has 11 children by byte: all nodes are 257-bit nodes
			ks := []string{}
			depth := 1
			for p := 11; p < n; p *= 11 {
				depth++
			}
			var rec func(pre []byte, d int)
			rec = func(pre []byte, d int) {
				if len(ks) >= n {
					return
				}
				if d == depth {
					ks = append(ks, string(pre))
					return
				}
				alpha := pickAlpha(r, 11)
				for _, c := range alpha {
					rec(append(append([]byte{}, pre...), c), d+1)
				}
			}
			rec(nil, 0)
			return ks
		}, 1 << 30},
		{"fanout11-then-binary", func(r *RNG, n int) []string {
			// 11-way byte nodes on top (big), binary half-byte nodes below: the big prefix of the BFS order ends
			ks := []string{}
			var rec func(pre []byte, d int)
			rec = func(pre []byte, d int) {
				if d == 2 {
					m := n / 121
					if m < 2 {
						m = 2
					}
					dg := c17Digits(m, 2)
					if dg%2 == 1 {
						dg++
					}
					for j := 0; j < m; j++ {
						ks = append(ks, string(pre)+c17FromNibs(c17Addr(j, 2, dg, []byte{3, 12})))
					}
					return
				}
				for _, c := range pickAlpha(r, 11) {
					rec(append(append([]byte{}, pre...), c), d+1)
				}
			}
			rec(nil, 0)
			return ks
		}, 1 << 30},
		{"distinct17", func(r *RNG, n int) []string {
			// every leaf-level node has its own label bitmap (defeats the short-node table)
			return c17MaskNodes(n, c17Masks(16), nil)
		}, 1 << 30},
		{"distinct17-rand", func(r *RNG, n int) []string {
			ms := c17Masks(16)
			for i := len(ms) - 1; i > 0; i-- {
				j := r.Intn(i + 1)
				ms[i], ms[j] = ms[j], ms[i]
			}
			return c17MaskNodes(n, ms, func(j, b int) []byte {
				t := make([]byte, r.Intn(5))
				for i := range t {
					t[i] = byte(r.Intn(16))
				}
				return t
			})
		}, 1 << 30},
		{"random", func(r *RNG, n int) []string {
			ks := make([]string, 0, n)
			l := 1 + r.Intn(12)
			for i := 0; i < n; i++ {
				ks = append(ks, randBytes(r, r.Intn(l+1)))
			}
			return ks
		}, 1 << 30},
		{"random-ascii", func(r *RNG, n int) []string {
			ks := make([]string, 0, n)
			alpha := []byte("abcdefghijklmnopqrstuvwxyz0123456789/_-.")
			for i := 0; i < n; i++ {
				ks = append(ks, randFrom(r, alpha, 3+r.Intn(20)))
			}
			return ks
		}, 1 << 30},
		{"random-long", func(r *RNG, n int) []string {
			// random keys of 0..16 KiB (few, so that the material stays small)
			if n > 200 {
				n = 200
			}
			ks := []string{""}
			for i := 1; i < n; i++ {
				ks = append(ks, randBytes(r, []int{0, 1, 100, 4096, 16383, 16384}[r.Intn(6)]+0*r.Intn(1)))
			}
			ks = append(ks, strings.Repeat("\xff", 16384), strings.Repeat("\x00", 16384))
			return ks
		}, 200},
		{"twin-16k", func(r *RNG, n int) []string {
			// keys of exactly 16 KiB that differ in the last byte only (n = 2..16 of them):
			// one inner node after a single-branch run of 16383 bytes
			if n > 16 {
				n = 16
			}
			x := randBytes(r, 16383)
			ks := []string{}
			for i := 0; i < n; i++ {
				ks = append(ks, x+string([]byte{byte(i * 16)}))
			}
			return ks
		}, 16},
		{"long-common-run", func(r *RNG, n int) []string {
			// a shared run of 8 KiB..16 KiB followed by short distinct tails
			if n > 300 {
				n = 300
			}
			run := []int{8191, 8192, 8193, 9000, 12000, 16000, 16380}[r.Intn(7)]
			x := randBytes(r, run)
			ks := []string{}
			for i := 0; i < n; i++ {
				ks = append(ks, x+randBytes(r, 1+r.Intn(3)))
			}
			return ks
		}, 300},
		{"plateau", func(r *RNG, n int) []string {
			// root without a step; 127 children with a step each (ranks 1..127); below them only
			// step-free binary half-byte nodes: every later rank-index entry equals 127.
			ks := make([]string, 0, n)
			// complete subtrees: m = largest power of 4 with 127*m <= n (at least 4)
			m, dg := 4, 2
			for 127*m*4 <= n {
				m *= 4
				dg += 2
			}
			for f := 0; f < 127; f++ {
				for j := 0; j < m; j++ {
					ks = append(ks, string([]byte{byte(f), 'x', 'x'})+c17FromNibs(c17Addr(j, 2, dg, []byte{0, 1})))
				}
			}
			return ks
		}, 1 << 30},
	}
}

// regular sets aimed at ShortSize k: every subset (>= 2 labels) of the first k
// half-byte values, each used by `reps` nodes.
func c17ShortShape(k int) c17Shape {
	return c17Shape{fmt.Sprintf("shortsize%d", k), func(r *RNG, n int) []string {
		ms := c17Masks(k)
		return c17MaskNodes(n, ms, nil)
	}, 1 << 30}
}

type c17Replay struct {
	Property string   `json:"property"`
	Opt      string   `json:"opt_dedup_inner_leaf_complete"`
	Shape    string   `json:"shape"`
	N        int      `json:"n_param"`
	Seed     uint64   `json:"shape_seed"`
	Keys     int      `json:"keys"`
	MaxLen   int      `json:"max_key_len"`
	Prefix   string   `json:"prefix_hex,omitempty"`
	PrefLen  int      `json:"prefix_len,omitempty"`
	Size     int      `json:"size"`
	SizeP    int      `json:"size_prefixed,omitempty"`
	Bound    int      `json:"bound"`
	KeysHex  []string `json:"keys_hex,omitempty"`
	How      string   `json:"how"`
}

// c17Spelling is one raw spelling of "filter mode": DedupValue nil/false/true
// (irrelevant without values), InnerPrefix, LeafPrefix, Complete each nil or an
// explicit false. -1 nil, 0 false, 1 true (the TrieCase convention).
type c17Spelling [4]int8

func c17Spellings() []c17Spelling {
	out := []c17Spelling{}
	for _, d := range []int8{-1, 0, 1} {
		for _, i := range []int8{-1, 0} {
			for _, l := range []int8{-1, 0} {
				for _, cc := range []int8{-1, 0} {
					out = append(out, c17Spelling{d, i, l, cc})
				}
			}
		}
	}
	return out
}

func (o c17Spelling) String() string { return optc(o[0]) + optc(o[1]) + optc(o[2]) + optc(o[3]) }

func c17Build(o c17Spelling, keys []string) (*trie.SlimTrie, error) {
	// no stored prefixes by any spelling, nil values
	if o == (c17Spelling{-1, -1, -1, -1}) {
		// the variadic argument omitted altogether
		return trie.NewSlimTrie(encode.Dummy{}, keys, nil)
	}
	return trie.NewSlimTrie(encode.Dummy{}, keys, nil,
		trie.Opt{DedupValue: optPtr(o[0]), InnerPrefix: optPtr(o[1]), LeafPrefix: optPtr(o[2]), Complete: optPtr(o[3])})
}

func c17Size(o c17Spelling, keys []string) (int, *trie.SlimTrie, error) {
	st, err := c17Build(o, keys)
	if err != nil {
		return 0, nil, err
	}
	b, err := st.Marshal()
	if err != nil {
		return 0, nil, err
	}
	return len(b), st, nil
}

func c17Prefixed(p string, keys []string) []string {
	out := make([]string, len(keys))
	for i, k := range keys {
		out[i] = p + k
	}
	return out
}

func c17Hex64(ws []uint64) string {
	if len(ws) == 0 {
		return "."
	}
	ss := make([]string, len(ws))
	for i, w := range ws {
		ss[i] = fmt.Sprintf("%x", w)
	}
	return strings.Join(ss, ",")
}
func c17Hex32(ws []uint32) string {
	if len(ws) == 0 {
		return "."
	}
	ss := make([]string, len(ws))
	for i, w := range ws {
		ss[i] = fmt.Sprintf("%x", w)
	}
	return strings.Join(ss, ",")
}
func c17Dec32(ws []int32) string {
	if len(ws) == 0 {
		return "."
	}
	ss := make([]string, len(ws))
	for i, w := range ws {
		ss[i] = fmt.Sprint(w)
	}
	return strings.Join(ss, ",")
}

func c17DumpBM(name string, b *trie.Bitmap) string {
	if b == nil {
		return name + " nil\n"
	}
	return fmt.Sprintf("%s w=%s r=%s s=%s\n", name, c17Hex64(b.Words), c17Dec32(b.RankIndex), c17Dec32(b.SelectIndex))
}

func c17DumpVL(name string, a *trie.VLenArray) string {
	if a == nil {
		return name + " nil\n"
	}
	bs := "."
	if len(a.Bytes) > 0 {
		bs = hex.EncodeToString(a.Bytes)
	}
	return fmt.Sprintf("%s n=%d elt=%d fixed=%d bytes=%s\n", name, a.N, a.EltCnt, a.FixedSize, bs) +
		c17DumpBM(name+".presence", a.PresenceBM) + c17DumpBM(name+".position", a.PositionBM)
}

// c17Dump prints the message built by creator.build field by field.
func c17Dump(st *trie.SlimTrie, marshalLen int) string {
	m := st.VerifInner()
	var sb strings.Builder
	fmt.Fprintf(&sb, "SZ marshal=%d proto=%d\n", marshalLen, proto.Size(m))
	fmt.Fprintf(&sb, "H big=%d short=%d\n", m.BigInnerCnt, m.ShortSize)
	sb.WriteString(c17DumpBM("NT", m.NodeTypeBM))
	sb.WriteString(c17DumpBM("IN", m.Inners))
	sb.WriteString(c17DumpBM("SB", m.ShortBM))
	fmt.Fprintf(&sb, "ST %s\n", c17Hex32(m.ShortTable))
	sb.WriteString(c17DumpVL("IP", m.InnerPrefixes))
	sb.WriteString(c17DumpVL("LP", m.LeafPrefixes))
	sb.WriteString(c17DumpVL("LV", m.Leaves))
	// the model side prints here whether its two encoders (Size.v and Bits.v + wire) give the
	// same bytes and Size.marshal_size is their length (SizeBitsCheck.models_same_bytes)
	sb.WriteString("X 1\n")
	return sb.String()
}

type c17Stat struct {
	Cases  int `json:"cases"`
	MinMil int `json:"min_millibytes_per_key"`
	MaxMil int `json:"max_millibytes_per_key"`
	sumMil int
	MeanMi int `json:"mean_millibytes_per_key"`
	MaxN   int `json:"max_keys"`
	MaxDel int `json:"max_prefix_delta"`
}

func init() {
	register("C17", func(c *Ctx) {
		c.Or.Rule = "cases: one PRNG stream from VERIF_SEED; a case = (shape, size parameter n, shape seed) -> a sorted list of distinct keys, built with default options (no stored prefixes) and nil values; " +
			"shapes: binary caterpillars (plain / varied label pairs with runs / forests), long-step trees (every inner node after a run of its own length; runs of thousands of bytes), fan-out-11 byte trees (all big nodes; big prefix then binary), all-distinct 17-bit label bitmaps, regular sets aimed at ShortSize 1..10, random sets, keys of 0..16 KiB, rank-plateau sets, 16 KiB twins and shared runs of 8..16 KiB, and the small generators of the trie properties; " +
			"each case is built with one of the 24 raw option spellings of filter mode (DedupValue nil/false/true; InnerPrefix, LeafPrefix, Complete nil or explicit false; all nil = options omitted), in turn; each case is also built with prefixes of 1, 100, 5000, 8191, 8192, 9000, 16000 arbitrary bytes (while keys stay <= 16 KiB and the key material within the tier budget); non-trivial = at least 2 keys; distinct = distinct (shape, keys digest)"
		// caterpillar depth (= number of keys; key material grows quadratically)
		shapes := c17Shapes(c.N(6000, 16000))
		// ShortSize 1 cannot be chosen (no inner node has fewer than two labels)
		for k := 2; k <= 10; k++ {
			shapes = append(shapes, c17ShortShape(k))
		}
		stats := map[string]*c17Stat{}
		maxDelta, maxDeltaWhere := 0, ""
		maxMil, maxMilWhere := 0, ""
		maxSlack := -1 << 30 // max of size - (8n+256)
		reported := map[string]bool{}
		// cost units of the extracted model (about 25 M units per second): a case costs
		// (key bytes) x (bound on the depth); a prefixed case additionally 400 x (prefix bytes added)
		modelBudget := c.N(170000000, 3000000000)
		prefixBudget := c.N(90000000, 1500000000)
		perCase := c.N(6000000, 60000000)
		bigN := c.N(20000, 100000)
		prefMaterial := c.N(6<<20, 256<<20)

		caseNo := 0
		spellings := c17Spellings()
		runCase := func(shape c17Shape, n int, forModel bool) {
			if n > shape.maxN {
				n = shape.maxN
			}
			seed := c.R.U64()
			keys := uniqSorted(shape.gen(NewRNG(seed), n))
			caseNo++
			id := fmt.Sprintf("c17_%d", caseNo)
			// every spelling in turn (offset by the seed), so that each is used by every kind of case
			spell := spellings[(caseNo+int(c.Seed%24)+caseNo/len(spellings))%len(spellings)]
			c.Or.Count("opt:" + spell.String())
			total, maxLen := 0, 0
			for _, k := range keys {
				total += len(k)
				if len(k) > maxLen {
					maxLen = len(k)
				}
			}
			nk := len(keys)
			c.Or.Case(fmt.Sprint(shape.name, nk, total, seed), nk >= 2)
			c.Or.Count("shape:" + shape.name)
			c.Or.Count("keys:" + bucket17(nk))
			c.Or.Count("maxlen:" + bucketLen(maxLen))
			rp := func(how string, size, sizeP int, p string, bound int) c17Replay {
				r := c17Replay{Property: "C17", Opt: spell.String(), Shape: shape.name, N: n, Seed: seed, Keys: nk, MaxLen: maxLen, Size: size, SizeP: sizeP, Bound: bound, How: how, PrefLen: len(p)}
				if len(p) <= 64 {
					r.Prefix = hxs(p)
				} else {
					r.Prefix = hxs(p[:64]) + "...(shape_seed stream)"
				}
				if nk <= 40 && total <= 2048 {
					for _, k := range keys {
						r.KeysHex = append(r.KeysHex, hxs(k))
					}
				}
				return r
			}
			depthBound := nk
			if 2*maxLen+1 < depthBound {
				depthBound = 2*maxLen + 1
			}
			cost := (total + nk) * depthBound
			emit := forModel && nk <= 13000 && cost <= perCase && cost <= modelBudget
			if emit {
				modelBudget -= cost
				c.Or.Count("model-cases")
				w := c.Cases()
				fmt.Fprintf(w, "T %s %s %s %s %s\n", id, optc(spell[0]), optc(spell[1]), optc(spell[2]), optc(spell[3]))
				for _, k := range keys {
					fmt.Fprintf(w, "K %s\n", hxs(k))
				}
				fmt.Fprintf(w, "E\n")
			}
			size, st, err := c17Size(spell, keys)
			if emit {
				w := c.Impl()
				fmt.Fprintf(w, "C %s\n", id)
				if err != nil {
					fmt.Fprintf(w, "B %s\n", buildErrStr(err, keys))
				} else {
					fmt.Fprintf(w, "B ok\n%s", c17Dump(st, size))
				}
			}
			if err != nil {
				if !reported["build"] {
					reported["build"] = true
					c.Or.Violate("C17:build-failed", "C17: NewSlimTrie/Marshal failed on a valid key list: "+err.Error(), rp("build", 0, 0, "", 0))
				}
				return
			}
			c.Or.Count(fmt.Sprintf("shortsize:%d", st.VerifInner().ShortSize))
			if st.VerifInner().BigInnerCnt > 0 {
				c.Or.Count("with-big-nodes")
			}
			s := stats[shape.name]
			if s == nil {
				s = &c17Stat{MinMil: 1 << 30}
				stats[shape.name] = s
			}
			mil := size * 1000 / nk
			s.Cases++
			s.sumMil += mil
			if mil < s.MinMil {
				s.MinMil = mil
			}
			if mil > s.MaxMil {
				s.MaxMil = mil
			}
			if nk > s.MaxN {
				s.MaxN = nk
			}
			if nk >= 64 && mil > maxMil {
				maxMil, maxMilWhere = mil, fmt.Sprintf("%s n=%d", shape.name, nk)
			}
			if size-(8*nk+256) > maxSlack {
				maxSlack = size - (8*nk + 256)
			}
			if size > 8*nk+256 && !reported["bound:"+shape.name] {
				reported["bound:"+shape.name] = true
				c.Or.Violate("C17:size-bound", fmt.Sprintf("C17: %d keys (shape %s) marshal to %d bytes > 8*n+256 = %d", nk, shape.name, size, 8*nk+256), rp("len(Marshal()) of NewSlimTrie(Dummy, keys, nil)", size, 0, "", 8*nk+256))
			}
			// prefix independence
			pr := NewRNG(seed ^ 0x5bd1e995)
			for _, pl := range []int{1, 100, 5000, 8191, 8192, 9000, 16000} {
				if maxLen+pl > 16384 || (pl > 100 && (nk*pl > prefMaterial/4)) {
					c.Or.Count(fmt.Sprintf("prefix%d:skipped", pl))
					continue
				}
				p := randBytes(pr, pl)
				pk := c17Prefixed(p, keys)
				costP := cost + 400*nk*pl
				emitP := emit && pl <= 5000 && costP <= perCase && costP <= prefixBudget
				pid := fmt.Sprintf("%s+p%d", id, pl)
				if emitP {
					prefixBudget -= costP
					c.Or.Count("model-cases")
					w := c.Cases()
					fmt.Fprintf(w, "T %s %s %s %s %s\nP %s\n", pid, optc(spell[0]), optc(spell[1]), optc(spell[2]), optc(spell[3]), hxs(p))
					for _, k := range keys {
						fmt.Fprintf(w, "K %s\n", hxs(k))
					}
					fmt.Fprintf(w, "E\n")
				}
				sizeP, stP, err := c17Size(spell, pk)
				if emitP {
					w := c.Impl()
					fmt.Fprintf(w, "C %s\n", pid)
					if err != nil {
						fmt.Fprintf(w, "B %s\n", buildErrStr(err, pk))
					} else {
						fmt.Fprintf(w, "B ok\n%s", c17Dump(stP, sizeP))
					}
				}
				c.Or.Count(fmt.Sprintf("prefix%d:checked", pl))
				c.Or.Add("evaluations:prefix-pairs", 1)
				if err != nil {
					if !reported["buildp"] {
						reported["buildp"] = true
						c.Or.Violate("C17:build-failed-prefixed", "C17: NewSlimTrie/Marshal failed on P+K: "+err.Error(), rp("build P+K", size, 0, p, 0))
					}
					continue
				}
				d := sizeP - size
				if d < 0 {
					d = -d
				}
				if d > s.MaxDel {
					s.MaxDel = d
				}
				if d > maxDelta {
					maxDelta, maxDeltaWhere = d, fmt.Sprintf("%s n=%d |P|=%d: %d -> %d", shape.name, nk, pl, size, sizeP)
				}
				if sizeP > 8*nk+256 && !reported["boundp:"+shape.name] {
					reported["boundp:"+shape.name] = true
					c.Or.Violate("C17:size-bound", fmt.Sprintf("C17: %d keys (shape %s, prefixed with %d bytes) marshal to %d bytes > 8*n+256", nk, shape.name, pl, sizeP), rp("len(Marshal()) of P+K", size, sizeP, p, 8*nk+256))
				}
				if d > c17PrefixBound {
					// classify: the one known mechanism is the varint carry of the r128 rank index of
					// InnerPrefixes.PresenceBM when the root gains a step (every entry grows by one).
					rootStep := func(t *trie.SlimTrie) bool {
						ip := t.VerifInner().InnerPrefixes
						return ip != nil && ip.PresenceBM != nil && len(ip.PresenceBM.Words) > 0 && ip.PresenceBM.Words[0]&1 == 1
					}
					rankEntries := 0
					if ip := stP.VerifInner().InnerPrefixes; ip != nil && ip.PresenceBM != nil {
						rankEntries = len(ip.PresenceBM.RankIndex)
					}
					key := "C17:prefix-delta"
					if !rootStep(st) && rootStep(stP) && sizeP-size > 0 && sizeP-size <= c17PrefixBound+rankEntries {
						key = "C17:prefix-delta:rank-index-varint-carry"
					}
					if !reported[key+shape.name] {
						reported[key+shape.name] = true
						classify := func(ks []string) (int, int, string, bool) {
							s1, t1, e1 := c17Size(spell, ks)
							s2, t2, e2 := c17Size(spell, c17Prefixed(p, ks))
							if e1 != nil || e2 != nil {
								return 0, 0, "", false
							}
							dd := s2 - s1
							if dd < 0 {
								dd = -dd
							}
							if dd <= c17PrefixBound {
								return s1, s2, "", false
							}
							re := 0
							if ip := t2.VerifInner().InnerPrefixes; ip != nil && ip.PresenceBM != nil {
								re = len(ip.PresenceBM.RankIndex)
							}
							k := "C17:prefix-delta"
							if !rootStep(t1) && rootStep(t2) && s2-s1 > 0 && s2-s1 <= c17PrefixBound+re {
								k = "C17:prefix-delta:rank-index-varint-carry"
							}
							return s1, s2, k, true
						}
						// shrink over the size parameter with the same seed, keeping the same classification
						bn, bkeys, bsize, bsizeP := n, nk, size, sizeP
						for m := n / 2; m >= 2; m /= 2 {
							ks := uniqSorted(shape.gen(NewRNG(seed), m))
							s1, s2, k, bad := classify(ks)
							if !bad || k != key {
								break
							}
							bn, bkeys, bsize, bsizeP = m, len(ks), s1, s2
						}
						r := rp("compare len(Marshal(K)) with len(Marshal(P+K)); K = shape(n_param, shape_seed) sorted and de-duplicated, P = the prefix_len-byte prefix drawn from NewRNG(shape_seed^0x5bd1e995) in the order 1,100,5000,16000 (skipping lengths that make keys longer than 16 KiB)", bsize, bsizeP, p, c17PrefixBound)
						r.N, r.Keys = bn, bkeys
						what := fmt.Sprintf("C17: prepending a %d-byte prefix to %d keys (shape %s) changes the size from %d to %d bytes (more than %d)", pl, bkeys, shape.name, bsize, bsizeP, c17PrefixBound)
						if key != "C17:prefix-delta" {
							what += fmt.Sprintf("; the root gains a step and the excess is within the number of entries (%d at full size) of InnerPrefixes.PresenceBM.RankIndex, each of which grows by one and may cross a varint boundary", rankEntries)
						}
						c.Or.Violate(key, what, r)
					}
				}
			}
			if caseNo <= 3 {
				c.Or.Sample(rp("sample", size, 0, "", 8*nk+256))
			}
		}

		t0 := time.Now()
		phase := func(name string) {
			fmt.Fprintf(os.Stderr, "C17 phase %s done at %.1fs\n", name, time.Since(t0).Seconds())
		}
		// 1. small cases for the model (exact correspondence) from every shape, smallest first
		trieGen := c17Shape{"triegen", func(r *RNG, n int) []string { return genKeySet(r, r.Intn(KKindCnt), 2) }, 1 << 30}
		for _, n := range []int{1, 2, 3, 5, 17, 64, 65, 129} {
			for _, sh := range shapes {
				runCase(sh, n, true)
			}
		}
		phase("small")
		// the generators of the point-query properties (tiny, shared prefixes, nibble level, chains, ...)
		for i := 0; i < c.N(150, 3000); i++ {
			runCase(trieGen, 0, true)
		}
		phase("triegen")
		// larger regular sets, so that the model sees the larger ShortSize values
		for _, n := range c17RegularNs(c.Thorough()) {
			for _, sh := range shapes {
				if strings.HasPrefix(sh.name, "shortsize") || sh.name == "distinct17" {
					runCase(sh, n, true)
				}
			}
		}
		phase("regular")
		for _, n := range []int{300, 700, 1500, 3000} {
			for _, sh := range shapes {
				runCase(sh, n, true)
			}
		}
		phase("medium")
		// 2. sizes up to the tier limit, implementation only
		for _, sh := range shapes {
			for _, n := range c17BigNs(c.Thorough(), bigN) {
				runCase(sh, n, false)
			}
			phase("big:" + sh.name)
		}
		phase("big")
		// random sizes
		for i := 0; i < c.N(60, 600); i++ {
			sh := shapes[c.R.Intn(len(shapes))]
			runCase(sh, 1+c.R.Intn(bigN/4), i%4 == 0)
		}

		phase("random")
		out := map[string]interface{}{}
		for k, s := range stats {
			if s.Cases > 0 {
				s.MeanMi = s.sumMil / s.Cases
			}
			out[k] = s
		}
		c.Or.Extra["per_shape"] = out
		c.Or.Extra["size_bound"] = "len(Marshal()) <= 8*n + 256"
		c.Or.Extra["max_size_minus_bound"] = maxSlack
		c.Or.Extra["max_millibytes_per_key_n>=64"] = maxMil
		c.Or.Extra["max_millibytes_per_key_where"] = maxMilWhere
		c.Or.Extra["prefix_delta_bound"] = c17PrefixBound
		c.Or.Extra["max_prefix_delta_observed"] = maxDelta
		c.Or.Extra["max_prefix_delta_where"] = maxDeltaWhere
	})
}

func c17RegularNs(thorough bool) []int {
	if thorough {
		return []int{6000, 12000}
	}
	return []int{5000}
}

func c17BigNs(thorough bool, bigN int) []int {
	if thorough {
		return []int{4000, bigN / 4, bigN / 2, bigN}
	}
	return []int{bigN}
}

func bucket17(n int) string {
	switch {
	case n <= 1024:
		return bucket(n)
	case n <= 4096:
		return "1025-4096"
	case n <= 20000:
		return "4097-20000"
	case n <= 50000:
		return "20001-50000"
	}
	return ">50000"
}

func bucketLen(n int) string {
	switch {
	case n == 0:
		return "0"
	case n <= 16:
		return "1-16"
	case n <= 256:
		return "17-256"
	case n <= 4096:
		return "257-4096"
	case n <= 16383:
		return "4097-16383"
	case n == 16384:
		return "16384"
	}
	return ">16384"
}
