package main

// C20: build and load neither modify nor alias caller-owned memory.
//
// Dynamic half of the (partial) proof: the failing-input search, and the
// evidence for the library facts the Coq theorem assumes (proto.Unmarshal
// copies `bytes` fields, bytes.Buffer hands out fresh memory):
//  (a) build: deep snapshots of the key slice, the value slice and the Opt
//      struct (pointers and pointees) before NewSlimTrie, compared after; then
//      the caller's memory is overwritten and every answer must stay the same;
//  (b) load, for current-format streams and every legacy fixture/layout: the
//      buffer (including its spare capacity) must be unchanged by Unmarshal;
//      the address range of every slice reachable from the instance
//      (VerifBuffers) must be disjoint from the buffer; the buffer is then
//      overwritten with all-0x00, all-0xff and random bytes and every answer
//      (lookups, scans, Stat, String, Marshal bytes) must stay the same;
//  (c) Marshal: the returned slice must be disjoint from VerifBuffers and from
//      a second Marshal result; it is overwritten the same three ways; later
//      answers and later Marshal output must stay the same.
// There is no model-side execution for this property (no cases.txt).

import (
	"bytes"
	"fmt"
	"io/ioutil"
	"path/filepath"
	"reflect"
	"sort"
	"strings"

	"github.com/openacid/slim/encode"
	"github.com/openacid/slim/trie"
	"github.com/openacid/testkeys"
)

type c20Finding struct {
	key, what string
	detail    map[string]interface{}
}

func c20Range(b []byte) [2]uintptr {
	if cap(b) == 0 {
		return [2]uintptr{0, 0}
	}
	p := reflect.ValueOf(b).Pointer()
	return [2]uintptr{p, p + uintptr(cap(b))}
}

func c20Overlaps(rs [][2]uintptr, r [2]uintptr) bool {
	if r[0] == r[1] {
		return false
	}
	for _, x := range rs {
		if x[0] < r[1] && r[0] < x[1] {
			return true
		}
	}
	return false
}

func c20Buffers(st *trie.SlimTrie) (rs [][2]uintptr) {
	protect(func() string { rs = st.VerifBuffers(); return "" })
	return
}

// c20Answers is every observation of an instance as canonical text lines.
func c20Answers(st *trie.SlimTrie, spec *EncSpec, queries []string, withString bool) []string {
	var out []string
	for _, q := range queries {
		out = append(out, runQuery(st, spec, q).Line(q))
	}
	scan := func(start string) string {
		s, _ := protect(func() string {
			var sb strings.Builder
			n := 0
			st.ScanFrom(start, true, true, func(k, v []byte) bool {
				sb.WriteString(hx(k) + "=" + hx(v) + ";")
				n++
				return n < 150
			})
			return sb.String()
		})
		return s
	}
	out = append(out, "scan0 "+scan(""))
	if len(queries) > 2 {
		out = append(out, "scan1 "+scan(queries[len(queries)/2]))
	}
	s, _ := protect(func() string { return fmt.Sprintf("%+v", *st.Stat()) })
	out = append(out, "stat "+s)
	if withString {
		s, _ = protect(func() string { return st.String() })
		out = append(out, "string "+s)
	}
	s, _ = protect(func() string { b, err := st.Marshal(); return hx(b) + " " + fmt.Sprint(err) })
	out = append(out, "marshal "+s)
	return out
}

func c20Diff(a, b []string) string {
	for i := range a {
		if i >= len(b) || a[i] != b[i] {
			x, y := a[i], ""
			if i < len(b) {
				y = b[i]
			}
			if len(x) > 300 {
				x = x[:300] + "..."
			}
			if len(y) > 300 {
				y = y[:300] + "..."
			}
			return fmt.Sprintf("line %d: before %q after %q", i, x, y)
		}
	}
	if len(a) != len(b) {
		return "different number of lines"
	}
	return ""
}

var c20Scribbles = []string{"0x00", "0xff", "random"}

func c20Scribble(b []byte, how string, r *RNG) {
	for i := range b {
		switch how {
		case "0x00":
			b[i] = 0
		case "0xff":
			b[i] = 0xff
		default:
			b[i] = byte(r.U64())
		}
	}
}

// c20CheckLoad: Unmarshal(buf) on a fresh instance; (b) of the header comment.
func c20CheckLoad(c *Ctx, r *RNG, stream []byte, spec *EncSpec, queries []string, withString bool) *c20Finding {
	// the caller's buffer, with spare capacity filled with a pattern
	spare := 64
	buf := make([]byte, len(stream), len(stream)+spare)
	copy(buf, stream)
	full := buf[:cap(buf)]
	for i := len(stream); i < len(full); i++ {
		full[i] = 0xa5
	}
	orig := append([]byte{}, full...)

	st, err := trie.NewSlimTrie(spec.Enc, nil, nil)
	if err != nil {
		return nil
	}
	var uerr error
	s, pm := protect(func() string { uerr = st.Unmarshal(buf); return "" })
	if s == "PANIC" || uerr != nil {
		// loading failures belong to C05/C06/C07; still the buffer must be intact
		if !bytes.Equal(full, orig) {
			return &c20Finding{"C20:load-modifies-buf", "C20: a failing Unmarshal modified the caller's buffer", map[string]interface{}{"error": fmt.Sprint(uerr, pm)}}
		}
		c.Or.Count("load-failed(buffer intact)")
		return nil
	}
	if !bytes.Equal(full, orig) {
		i := 0
		for i < len(full) && full[i] == orig[i] {
			i++
		}
		return &c20Finding{"C20:load-modifies-buf", "C20: Unmarshal modified the caller's buffer", map[string]interface{}{"first_modified_offset": i, "stream_len": len(stream)}}
	}
	if c20Overlaps(c20Buffers(st), c20Range(buf)) {
		return &c20Finding{"C20:load-aliases-buf", "C20: after Unmarshal a slice reachable from the instance lies inside the caller's buffer (address ranges overlap)", map[string]interface{}{"stream_len": len(stream)}}
	}
	before := c20Answers(st, spec, queries, withString)
	for _, how := range c20Scribbles {
		c20Scribble(full, how, r)
		c.Or.Count("scribble-buf:" + how)
		after := c20Answers(st, spec, queries, withString)
		if d := c20Diff(before, after); d != "" {
			return &c20Finding{"C20:load-scribble-changes-answers", "C20: overwriting the input buffer with " + how + " after Unmarshal changed an answer of the loaded trie", map[string]interface{}{"scribble": how, "diff": d}}
		}
	}
	return nil
}

// c20CheckMarshal: (c) of the header comment.
func c20CheckMarshal(c *Ctx, r *RNG, st *trie.SlimTrie, spec *EncSpec, queries []string, withString bool) *c20Finding {
	var out, out2 []byte
	var err error
	s, _ := protect(func() string { out, err = st.Marshal(); return "" })
	if s == "PANIC" || err != nil {
		return nil
	}
	before := c20Answers(st, spec, queries, withString)
	if c20Overlaps(c20Buffers(st), c20Range(out)) {
		return &c20Finding{"C20:marshal-output-aliased", "C20: the slice returned by Marshal shares memory with the instance (address ranges overlap)", map[string]interface{}{"len": len(out)}}
	}
	protect(func() string { out2, _ = st.Marshal(); return "" })
	if c20Overlaps([][2]uintptr{c20Range(out2)}, c20Range(out)) {
		return &c20Finding{"C20:marshal-output-aliased", "C20: two Marshal results share memory", map[string]interface{}{"len": len(out)}}
	}
	ref := append([]byte{}, out...)
	for _, how := range c20Scribbles {
		c20Scribble(out[:cap(out)], how, r)
		c.Or.Count("scribble-marshal-output:" + how)
		after := c20Answers(st, spec, queries, withString)
		if d := c20Diff(before, after); d != "" {
			return &c20Finding{"C20:marshal-scribble-changes-answers", "C20: overwriting the bytes returned by Marshal with " + how + " changed a later answer or a later Marshal output", map[string]interface{}{"scribble": how, "diff": d}}
		}
		var again []byte
		protect(func() string { again, _ = st.Marshal(); return "" })
		if !bytes.Equal(again, ref) {
			return &c20Finding{"C20:marshal-scribble-changes-answers", "C20: after overwriting the bytes returned by Marshal with " + how + " a later Marshal returns different bytes", map[string]interface{}{"scribble": how}}
		}
	}
	return nil
}

type c20OptSnap struct {
	ptr [4]*bool
	val [4]bool
}

func c20SnapOpt(o *trie.Opt) c20OptSnap {
	var s c20OptSnap
	s.ptr = [4]*bool{o.DedupValue, o.InnerPrefix, o.LeafPrefix, o.Complete}
	for i, p := range s.ptr {
		if p != nil {
			s.val[i] = *p
		}
	}
	return s
}

// c20ZeroValues overwrites the caller's value slice in place (elements and,
// for [][]byte, the bytes they point to).
func c20ZeroValues(vs interface{}, r *RNG) {
	if vs == nil {
		return
	}
	if bb, ok := vs.([][]byte); ok {
		for i := range bb {
			c20Scribble(bb[i], "random", r)
			bb[i] = nil
		}
		return
	}
	rv := reflect.ValueOf(vs)
	if rv.Kind() != reflect.Slice {
		return
	}
	z := reflect.Zero(rv.Type().Elem())
	for i := 0; i < rv.Len(); i++ {
		rv.Index(i).Set(z)
	}
}

// c20CheckBuild: (a) of the header comment. Returns the built trie for (b)/(c).
func c20CheckBuild(c *Ctx, r *RNG, tc *TrieCase) (*Built, *c20Finding) {
	vs, bs, spec := tc.Values()
	vsRef, _, _ := tc.Values() // an independent, identical copy
	keys := append(make([]string, 0, len(tc.Keys)+8), tc.Keys...)
	keysFull := keys[:cap(keys)]
	keysRef := append([]string{}, keysFull...)
	opts := make([]trie.Opt, 1, 2)
	opts[0] = tc.GoOpt()
	snap := c20SnapOpt(&opts[0])

	b := &Built{Spec: spec, Ref: bs}
	func() {
		defer func() {
			if e := recover(); e != nil {
				b.Err = fmt.Errorf("PANIC: %v", e)
			}
		}()
		b.St, b.Err = trie.NewSlimTrie(spec.Enc, keys, vs, opts...)
	}()
	// modification is checked whether or not construction succeeded
	if !reflect.DeepEqual(keysFull, keysRef) {
		return b, &c20Finding{"C20:build-modifies-keys", "C20: NewSlimTrie modified the caller's key slice", nil}
	}
	if !reflect.DeepEqual(vs, vsRef) {
		return b, &c20Finding{"C20:build-modifies-values", "C20: NewSlimTrie modified the caller's value slice", nil}
	}
	if after := c20SnapOpt(&opts[0]); after != snap {
		return b, &c20Finding{"C20:build-modifies-opt", "C20: NewSlimTrie modified the caller's Opt struct (a pointer field or the bool it points to)",
			map[string]interface{}{"before": fmt.Sprint(snap.ptr, snap.val), "after": fmt.Sprint(after.ptr, after.val)}}
	}
	if b.Err != nil {
		return b, nil
	}
	// aliasing: overwrite everything the caller owns; the answers must not move
	withString := len(tc.Keys) <= 400
	before := c20Answers(b.St, spec, tc.Queries, withString)
	for i := range keysFull {
		keysFull[i] = "\xff\xfe overwritten"
	}
	c20ZeroValues(vs, r)
	for _, p := range snap.ptr {
		if p != nil {
			*p = !*p
		}
	}
	opts[0] = trie.Opt{}
	after := c20Answers(b.St, spec, tc.Queries, withString)
	if d := c20Diff(before, after); d != "" {
		return b, &c20Finding{"C20:build-aliases-caller-memory", "C20: overwriting the key slice, the value slice and the option struct after NewSlimTrie changed an answer", map[string]interface{}{"diff": d}}
	}
	return b, nil
}

// c20CheckArena: raw []byte values that are sub-slices of ONE caller-owned arena, each with
// spare capacity behind it (the rest of the arena), some shorter than the size the encoder
// declares (encode.Bytes{Size}.Encode hands the caller's slice through): the whole arena,
// including the bytes behind every value, must be unchanged by NewSlimTrie.
func c20CheckArena(r *RNG, tc *TrieCase) *c20Finding {
	n := len(tc.Keys)
	if n == 0 {
		return nil
	}
	size := 1 + r.Intn(6)
	slot := size + 5
	arena := make([]byte, n*slot)
	for i := range arena {
		arena[i] = 0xa5 ^ byte(i*7)
	}
	vals := make([][]byte, n)
	for i := range vals {
		l := size
		if r.Intn(3) == 0 {
			l = r.Intn(size + 1) // shorter than the declared size, possibly empty
		}
		vals[i] = arena[i*slot : i*slot+l] // capacity reaches to the end of the arena
	}
	ref := append([]byte{}, arena...)
	func() {
		defer func() { recover() }()
		o := tc.GoOpt()
		trie.NewSlimTrie(encode.Bytes{Size: size}, tc.Keys, vals, o)
	}()
	if !bytes.Equal(arena, ref) {
		i := 0
		for i < len(arena) && arena[i] == ref[i] {
			i++
		}
		return &c20Finding{"C20:build-modifies-value-memory", "C20: NewSlimTrie wrote into caller-owned memory behind a []byte value (spare capacity of the value slice)",
			map[string]interface{}{"encoder": fmt.Sprintf("encode.Bytes{Size:%d}", size), "value_index": i / slot, "value_len": len(vals[i/slot]), "first_changed_offset_in_slot": i % slot, "keys": len(tc.Keys)}}
	}
	return nil
}

// c20Case runs (a), (b) on the current-format stream, (c) for one generated case.
func c20Case(c *Ctx, r *RNG, tc *TrieCase, count bool) *c20Finding {
	b, f := c20CheckBuild(c, r, tc)
	if f != nil {
		return f
	}
	if f := c20CheckArena(r, tc); f != nil {
		return f
	}
	if b.Err != nil {
		if count {
			c.Or.Count("build-failed(caller memory intact)")
		}
		return nil
	}
	withString := len(tc.Keys) <= 400
	var stream []byte
	var err error
	s, _ := protect(func() string { stream, err = b.St.Marshal(); return "" })
	if s != "PANIC" && err == nil {
		if count {
			c.Or.Count("stream:current")
		}
		if f := c20CheckLoad(c, r, stream, b.Spec, tc.Queries, withString); f != nil {
			return f
		}
		// and the loaded instance's own Marshal output
		st2, _ := trie.NewSlimTrie(b.Spec.Enc, nil, nil)
		var uerr error
		protect(func() string { uerr = st2.Unmarshal(append([]byte{}, stream...)); return "" })
		if uerr == nil {
			if f := c20CheckMarshal(c, r, st2, b.Spec, tc.Queries, withString); f != nil {
				f.key += "+loaded"
				return f
			}
		}
	}
	return c20CheckMarshal(c, r, b.St, b.Spec, tc.Queries, withString)
}

func c20Shrink(c *Ctx, r *RNG, tc *TrieCase, f *c20Finding) (*TrieCase, *c20Finding) {
	cur, curf := tc, f
	budget := 200
	drop := func(t *TrieCase, i, n int) *TrieCase {
		nt := *t
		nt.Keys = append(append([]string{}, t.Keys[:i]...), t.Keys[i+n:]...)
		if t.IDs != nil {
			nt.IDs = append(append([]uint64{}, t.IDs[:i]...), t.IDs[i+n:]...)
		}
		return &nt
	}
	for chunk := len(cur.Keys) / 2; chunk >= 1 && budget > 0; chunk /= 2 {
		for i := 0; i+chunk <= len(cur.Keys) && len(cur.Keys) > 1 && budget > 0; {
			budget--
			cand := drop(cur, i, chunk)
			if nf := c20Case(c, r.Fork(), cand, false); nf != nil && nf.key == curf.key {
				cur, curf = cand, nf
			} else {
				i += chunk
			}
		}
	}
	return cur, curf
}

type c20Fx struct{ set, file, layout string }

func c20Fixtures(c *Ctx) []c20Fx {
	dir := filepath.Join(c.Repo, "trie", "testdata")
	fis, err := ioutil.ReadDir(dir)
	if err != nil {
		return nil
	}
	small := map[string]bool{"10vl5": true, "11vl5": true, "empty": true, "300vl50": true, "10ll16k": true}
	var l []c20Fx
	for _, fi := range fis {
		n := fi.Name()
		if !strings.HasPrefix(n, "slimtrie-data-") {
			continue
		}
		parts := strings.Split(strings.TrimPrefix(n, "slimtrie-data-"), "-")
		set := parts[0]
		layout := strings.Join(parts[1:], "-") // "0.5.3" | "allpref-0.5.10" ...
		if !c.Thorough() && !small[set] {
			continue
		}
		l = append(l, c20Fx{set, n, layout})
	}
	sort.Slice(l, func(i, j int) bool { return l[i].file < l[j].file })
	return l
}

func init() {
	register("C20", func(c *Ctx) {
		c.Or.Rule = "generated cases (key-set kinds " + strings.Join(kindNames, "/") + " x value layouts x 16 option combos (+ raw nil options) x 12 encoders): (a) NewSlimTrie with caller-owned keys/values/opts slices snapshotted before and compared after, then overwritten; (b) the current-format stream of the case loaded from a caller buffer with spare capacity; (c) Marshal output of the fresh and of the loaded instance; " +
			"legacy streams: the fixtures of /repo/trie/testdata (quick: key sets 10vl5/11vl5/empty/300vl50/10ll16k in every version 0.5.0..0.5.9 and the three 0.5.10 layouts; thorough: all), loaded with encode.I32; buffers overwritten with all-0x00, all-0xff and random bytes, all answers (Get/GetID/RangeGet/Search/searchID per query, two scans, Stat, String, Marshal bytes) compared before/after, VerifBuffers address ranges compared with the buffer's; " +
			"a case = one generated case or one legacy stream; non-trivial = at least 2 keys; distinct = distinct canonical case text / fixture name"
		n := c.N(1200, 15000)
		reported := map[string]bool{}
		report := func(f *c20Finding, replay interface{}) {
			if reported[f.key] {
				return
			}
			reported[f.key] = true
			c.Or.Violate(f.key, f.what, map[string]interface{}{"property": "C20", "case": replay, "detail": f.detail})
		}
		for i := 0; i < n; i++ {
			tc := genTrieCase(c.R.Fork(), fmt.Sprintf("c20_%d", i), c.R.Intn(KKindCnt), c.R.Intn(VKindCnt), 2, 20)
			if i%5 == 0 {
				tc.Enc = "B3" // [][]byte values: the one encoder whose Encode returns the caller's own memory
			}
			c.Or.Case(fmt.Sprint(tc.Opt, tc.Enc, tc.Keys, tc.IDs, tc.Queries), len(tc.Keys) >= 2)
			c.Or.Count("kind:" + tc.Kind)
			c.Or.Count("values:" + tc.VKind)
			c.Or.Count("enc:" + tc.Enc)
			c.Or.Count("opt:" + optc(tc.Opt[0]) + optc(tc.Opt[1]) + optc(tc.Opt[2]) + optc(tc.Opt[3]))
			c.Or.Count("keys:" + bucket(len(tc.Keys)))
			if i < 2 {
				c.Or.Sample(tc.replay("C20", "", false, "", ""))
			}
			r := c.R.Fork()
			if f := c20Case(c, r, tc, true); f != nil && !reported[f.key] {
				stc, sf := c20Shrink(c, r, tc, f)
				report(sf, stc.replay("C20", "", false, "", ""))
			}
		}
		c.Or.Extra["effect_summary"] = c11EffectSummary(c)
		// legacy streams
		spec := specByName("I32")
		for _, fx := range c20Fixtures(c) {
			stream, err := ioutil.ReadFile(filepath.Join(c.Repo, "trie", "testdata", fx.file))
			if err != nil {
				continue
			}
			keys := testkeys.Load(fx.set)
			qs := c11QueriesOf(c.R, keys, 40)
			c.Or.Case("legacy:"+fx.file, len(keys) >= 2)
			c.Or.Count("stream:legacy:" + fx.layout)
			c.Or.Count("legacy-set:" + fx.set)
			withString := len(keys) <= 400
			r := c.R.Fork()
			if f := c20CheckLoad(c, r, stream, spec, qs, withString); f != nil {
				f.key += "+legacy"
				report(f, map[string]interface{}{"fixture": fx.file, "encoder": "I32", "keys": "testkeys.Load(" + fx.set + ")"})
				continue
			}
			st, _ := trie.NewSlimTrie(spec.Enc, nil, nil)
			var uerr error
			s, _ := protect(func() string { uerr = st.Unmarshal(append([]byte{}, stream...)); return "" })
			if s != "PANIC" && uerr == nil {
				if f := c20CheckMarshal(c, r, st, spec, qs, withString); f != nil {
					f.key += "+legacy"
					report(f, map[string]interface{}{"fixture": fx.file, "encoder": "I32"})
				}
			}
		}
	})
}
