package main

// C12: SlimIndex plus a key-verifying reader is an exact map.
//
// The real index.NewSlimIndex is built over a generated record table and a
// harness DataReader that holds the table in memory, keyed by offset: Read
// answers with the record iff one of the records stored at that offset has
// exactly the requested key (the contract documented on index.DataReader).
//   dense  : one strictly increasing offset per key         -> Get is checked
//   block  : adjacent keys share the offset of their block,
//            block sizes 1..64, block offsets increasing    -> RangeGet is checked
// (a dense table is also a block table with blocks of one record, so RangeGet
// is checked there too).  Oracle: a plain Go map from key to record value.
// Correspondence: SlimIndex.Get / RangeGet against the extracted model
// (driver MiscX, mode index), fresh and with the trie reloaded from its bytes.

import (
	"fmt"
	"strings"

	"github.com/openacid/slim/index"
)

type c12Rec struct {
	Key string
	Off int64
	Val string
}

type c12Reader struct {
	blocks  map[int64][]c12Rec
	unknown int // reads at an offset that holds no record (C10 says this cannot happen)
	reads   int
}

func (d *c12Reader) Read(offset int64, key string) (string, bool) {
	d.reads++
	blk, ok := d.blocks[offset]
	if !ok {
		d.unknown++
		return "", false
	}
	for _, r := range blk {
		if r.Key == key {
			return r.Val, true
		}
	}
	return "", false
}

type c12Case struct {
	ID      string
	Mode    string // dense | block
	Recs    []c12Rec
	Queries []string
	Kind    string
	MaxBlk  int
}

func c12Offsets(r *RNG, n int, mode string, maxBlk int) []int64 {
	offs := make([]int64, n)
	var cur int64
	switch r.Intn(5) {
	case 0:
		cur = 0
	case 1:
		cur = int64(r.Intn(1000))
	case 2:
		cur = -1 << 63 // the smallest offset
	case 3:
		cur = -int64(r.Intn(5000)) // crosses zero
	default:
		cur = int64(r.U64() >> 2)
	}
	step := func() int64 {
		switch r.Intn(4) {
		case 0:
			return 1
		case 1:
			return int64(1 + r.Intn(300))
		default:
			return int64(1 + r.Intn(70000))
		}
	}
	left := 0
	for i := 0; i < n; i++ {
		if mode == "dense" {
			if i > 0 {
				cur += step()
			}
		} else {
			if left == 0 {
				if i > 0 {
					cur += step()
				}
				left = 1 + r.Intn(maxBlk)
			}
			left--
		}
		offs[i] = cur
	}
	return offs
}

func (tc *c12Case) write(c *Ctx) {
	w := c.Cases()
	fmt.Fprintf(w, "X %s %s\n", tc.ID, tc.Mode)
	for _, r := range tc.Recs {
		fmt.Fprintf(w, "R %s %016x %s\n", hxs(r.Key), uint64(r.Off), hxs(r.Val))
	}
	for _, q := range tc.Queries {
		fmt.Fprintf(w, "Q %s\n", hxs(q))
	}
	fmt.Fprintf(w, "E\n")
}

func c12Str(v string, found bool) string {
	if !found {
		return "N"
	}
	return "F:" + hxs(v)
}

type c12Finding struct {
	key, what, q, got, want string
	loaded                  bool
}

type c12Replay struct {
	Property string   `json:"property"`
	Mode     string   `json:"mode"`
	Keys     []string `json:"keys_hex"`
	Offsets  []int64  `json:"offsets"`
	Vals     []string `json:"record_values_hex"`
	Query    string   `json:"query_hex"`
	Loaded   bool     `json:"loaded"`
	Got      string   `json:"got"`
	Want     string   `json:"want"`
}

func (tc *c12Case) replay(f *c12Finding) c12Replay {
	r := c12Replay{Property: "C12", Mode: tc.Mode, Query: hxs(f.q), Loaded: f.loaded, Got: f.got, Want: f.want}
	for _, x := range tc.Recs {
		r.Keys = append(r.Keys, hxs(x.Key))
		r.Offsets = append(r.Offsets, x.Off)
		r.Vals = append(r.Vals, hxs(x.Val))
	}
	return r
}

func c12Queries(c *Ctx, tc *c12Case, si *index.SlimIndex, rd *c12Reader, ref map[string]string, emit, loaded bool) *c12Finding {
	var first *c12Finding
	for _, q := range tc.Queries {
		g, pg := protect(func() string { v, f := si.Get(q); return c12Str(v, f) })
		rg, pr := protect(func() string { v, f := si.RangeGet(q); return c12Str(v, f) })
		rv, in := ref[q]
		want := c12Str(rv, in)
		if emit {
			fmt.Fprintf(c.Impl(), "q %s G %s R %s M %s\n", hxs(q), g, rg, want)
		}
		if first != nil {
			continue
		}
		if in {
			c.Or.Add("queries-indexed-key", 1)
		} else {
			c.Or.Add("queries-other-string", 1)
		}
		if tc.Mode == "dense" && g != want {
			k := "C12:get-not-exact"
			if g == "PANIC" {
				k = "C12:get-panic"
			}
			first = &c12Finding{key: k, what: fmt.Sprintf("C12: dense index: Get(%s) = %s, the record map gives %s %s", hxs(q), g, want, pg), q: q, got: g, want: want, loaded: loaded}
		} else if rg != want {
			k := "C12:rangeget-not-exact"
			if rg == "PANIC" {
				k = "C12:rangeget-panic"
			}
			first = &c12Finding{key: k, what: fmt.Sprintf("C12: %s index: RangeGet(%s) = %s, the record map gives %s %s", tc.Mode, hxs(q), rg, want, pr), q: q, got: rg, want: want, loaded: loaded}
		}
	}
	return first
}

func c12Eval(c *Ctx, tc *c12Case, emit bool) *c12Finding {
	if emit {
		tc.write(c)
		fmt.Fprintf(c.Impl(), "C %s\n", tc.ID)
	}
	rd := &c12Reader{blocks: map[int64][]c12Rec{}}
	ref := map[string]string{}
	items := make([]index.OffsetIndexItem, len(tc.Recs))
	for i, r := range tc.Recs {
		rd.blocks[r.Off] = append(rd.blocks[r.Off], r)
		ref[r.Key] = r.Val
		items[i] = index.OffsetIndexItem{Key: r.Key, Offset: r.Off}
	}
	var si *index.SlimIndex
	var err error
	func() {
		defer func() {
			if r := recover(); r != nil {
				err = fmt.Errorf("PANIC: %v", r)
			}
		}()
		si, err = index.NewSlimIndex(items, rd)
	}()
	if err != nil {
		es := buildErrStr(err, nil)
		if emit {
			fmt.Fprintf(c.Impl(), "B %s\n", es)
		}
		return &c12Finding{key: "C12:build-failed", what: fmt.Sprintf("C12: NewSlimIndex failed on a sorted record set: %v", err), got: es, want: "an index"}
	}
	if emit {
		fmt.Fprintf(c.Impl(), "B ok\n")
	}
	if f := c12Queries(c, tc, si, rd, ref, emit, false); f != nil {
		return f
	}
	// the same index with its trie reloaded from bytes
	st2, _, rerr := reload(&si.SlimTrie, specByName("I64"))
	if emit {
		fmt.Fprintf(c.Cases(), "L %s\n", tc.ID)
		fmt.Fprintf(c.Impl(), "C %s+L\n", tc.ID)
	}
	if rerr != nil {
		if emit {
			fmt.Fprintf(c.Impl(), "B reload-failed\n")
		}
		return &c12Finding{key: "C12:reload-failed", what: fmt.Sprintf("C12: Marshal/Unmarshal of the index trie failed: %v", rerr), got: rerr.Error(), want: "a loaded trie", loaded: true}
	}
	if emit {
		fmt.Fprintf(c.Impl(), "B ok\n")
	}
	si2 := &index.SlimIndex{SlimTrie: *st2, DataReader: rd}
	if f := c12Queries(c, tc, si2, rd, ref, emit, true); f != nil {
		f.key += "+loaded"
		return f
	}
	if emit {
		c.Or.Add("reader-calls", rd.reads)
		c.Or.Add("reader-calls-at-an-offset-without-records", rd.unknown)
	}
	return nil
}

func c12Shrink(c *Ctx, tc *c12Case, f *c12Finding) (*c12Case, *c12Finding) {
	cur, curf := tc, f
	try := func(cand *c12Case) bool {
		nf := c12Eval(c, cand, false)
		if nf != nil && nf.key == curf.key {
			cur, curf = cand, nf
			return true
		}
		return false
	}
	if curf.q != "" {
		nt := *cur
		nt.Queries = []string{curf.q}
		try(&nt)
	}
	budget := 300
	for chunk := len(cur.Recs) / 2; chunk >= 1 && budget > 0; chunk /= 2 {
		for i := 0; i+chunk <= len(cur.Recs) && budget > 0; {
			budget--
			nt := *cur
			nt.Recs = append(append([]c12Rec{}, cur.Recs[:i]...), cur.Recs[i+chunk:]...)
			if len(nt.Recs) == 0 || !try(&nt) {
				i += chunk
			}
		}
	}
	return cur, curf
}

func init() {
	register("C12", func(c *Ctx) {
		c.Or.Rule = "cases: one PRNG stream from VERIF_SEED; sorted record sets with key-set kinds " + strings.Join(kindNames, "/") + " (arbitrary key bytes), record values of 0..6 arbitrary bytes; " +
			"dense mode: strictly increasing int64 offsets (starting at 0, small, MinInt64, negative crossing zero, or large; steps 1..70000); block mode: adjacent keys share a block offset, block sizes drawn in 1..maxBlk with maxBlk in 1..64, block offsets strictly increasing; " +
			"queries: the C03 set (every key, one-bit/one-byte/nibble mutations, proper prefixes, extensions, over-long extensions, all-0x00/0xff, random strings); each index is queried fresh and with its trie reloaded from Marshal output; " +
			"a case = (mode, records, queries); non-trivial = at least 2 records; distinct = distinct canonical case text"
		n := c.N(500, 6000)
		reported := map[string]bool{}
		for i := 0; i < n; i++ {
			r := c.R.Fork()
			kind := r.Intn(KKindCnt)
			tc := &c12Case{ID: fmt.Sprintf("c12_%d", i), Kind: kindNames[kind], Mode: "dense"}
			if i%2 == 1 {
				tc.Mode = "block"
				tc.MaxBlk = []int{1, 2, 3, 4, 8, 16, 33, 64}[r.Intn(8)]
			}
			keys := genKeySet(r, kind, 2)
			offs := c12Offsets(r, len(keys), tc.Mode, tc.MaxBlk)
			if i%25 == 7 {
				// directed shape: a wide top level (more than 10 different first bytes) of which
				// only two branches keep a record start, because most first bytes lie inside one
				// block, followed by a dense sub-level: one key, then 11..14 keys x+c each with its
				// own block, then one block holding x+last and a run of single-byte keys
				tc.Mode, tc.MaxBlk, tc.Kind = "block", 64, "wide-top-sparse-kept"
				a := byte(0x20 + r.Intn(0x40))
				x := a + 1
				fan := 11 + r.Intn(4)
				keys = []string{string([]byte{a})}
				offs = []int64{0}
				for j := 0; j < fan; j++ {
					keys = append(keys, string([]byte{x, 'a' + byte(j)}))
					offs = append(offs, int64(100*(j+1)))
				}
				last := int64(100 * (fan + 1))
				keys = append(keys, string([]byte{x, 'a' + byte(fan)}))
				offs = append(offs, last)
				for j := 0; j < 10+r.Intn(6); j++ {
					keys = append(keys, string([]byte{x + 1 + byte(j)}))
					offs = append(offs, last)
				}
			}
			for j, k := range keys {
				tc.Recs = append(tc.Recs, c12Rec{Key: k, Off: offs[j], Val: randBytes(r, r.Intn(7))})
			}
			tc.Queries = genQueries(r, keys, 120)
			canon := fmt.Sprint(tc.Mode, tc.Recs, tc.Queries)
			c.Or.Case(canon, len(keys) >= 2)
			c.Or.Count("mode:" + tc.Mode)
			if tc.Mode == "block" {
				c.Or.Count(fmt.Sprintf("maxblock:%d", tc.MaxBlk))
			}
			c.Or.Count("kind:" + tc.Kind)
			c.Or.Count("records:" + bucket(len(keys)))
			c.Or.Add("queries", len(tc.Queries)*2)
			if i < 2 {
				c.Or.Sample(tc.replay(&c12Finding{}))
			}
			f := c12Eval(c, tc, true)
			if f != nil && !reported[f.key] {
				reported[f.key] = true
				stc, sf := c12Shrink(c, tc, f)
				c.Or.Violate(sf.key, sf.what, stc.replay(sf))
			}
		}
	})
}
