package main

// C06e (sub-check of C06): the BYTE level of the three-array legacy layouts
// (0.5.0 - 0.5.9). coq/theories/LegacyBytes.v models
//   - the old writer down to the stream bytes: write_stream = old_write, then
//     arrays_of_old (index bitmaps + Offsets as array.InitIndex writes them,
//     0.5.9 padding, uint32 / BMElts children, uint16 steps, leaf values), then
//     three pbcmpl sections of the protobuf encoding of array.Array32;
//   - the loader's reading: arrays_of_stream (pbcmpl.Unmarshal x 3),
//     old_of_arrays (bmhas, getBM16Child, steps.Get, lvs.GetBytes per old id),
//     then LegacyConv.convert = load_stream.
// coq/props/C06e.v proves load_stream (write_stream l keys vals) = the node
// view and leaves of Model.build_gen false legacy_opts keys vals.
//
// This harness ties both functions to the code, for generated key sets in each
// of the 6 three-array layouts and for the archived three-array fixtures (the
// files themselves):
//   B  the STREAM BYTES of the reference writer (fixtures: the archived file)
//      must equal the bytes of the extracted write_stream;
//   A/W/O  the three arrays are read from the REAL bytes with the repository's
//      own pbcmpl.Unmarshal into array.Array32 / array.U16 / array.Array and
//      every old id is looked up with the repository's accessors
//      (bitmap.SafeGet1, bitmap.Rank64, bitmap.Getw, U16.Get, Base.GetBytes;
//      the ten lines of trie.getBM16Child are repeated here because the function
//      is not exported); the resulting table must equal the extracted
//      old_of_arrays (arrays_of_stream bytes);
//   V/LV/N  the node view of the trie the REAL Unmarshal loads from the bytes
//      must equal the extracted load_stream bytes.
//
// Oracle: the sorted-list oracle of C06 on every loaded trie.

import (
	"bytes"
	"encoding/binary"
	"fmt"
	"strings"

	"github.com/openacid/low/bitmap"
	"github.com/openacid/low/pbcmpl"
	"github.com/openacid/slim/array"
	"github.com/openacid/slim/encode"
)

// c06eGetBM16Child repeats trie.getBM16Child (trie/slimtrie_marshal.go) without
// the final "<< 1".
func c06eGetBM16Child(ch *array.Array32, idx int32) uint64 {
	eltIdx, _ := bitmap.Rank64(ch.Bitmaps, ch.Offsets, idx)
	if ch.Flags&array.ArrayFlagIsBitmap == 0 {
		v := binary.LittleEndian.Uint32(ch.Elts[eltIdx*4:])
		return uint64(v & 0xffff)
	}
	return bitmap.Getw(ch.BMElts.Words, eltIdx, 16)
}

// c06eTable reads the three sections the way (*SlimTrie).Unmarshal does and
// looks every old id up with the accessors before000510ToNewChildrenArray uses.
func c06eTable(buf []byte, enc encode.Encoder) (lines []string, err error) {
	defer func() {
		if r := recover(); r != nil {
			err = fmt.Errorf("PANIC %v", r)
		}
	}()
	children := &array.Array32{}
	steps := &array.U16{}
	leaves := &array.Array{}
	leaves.EltEncoder = enc
	reader := bytes.NewReader(buf)
	if _, _, e := pbcmpl.Unmarshal(reader, children); e != nil {
		return nil, fmt.Errorf("children: %v", e)
	}
	if _, _, e := pbcmpl.Unmarshal(reader, steps); e != nil {
		return nil, fmt.Errorf("steps: %v", e)
	}
	if _, _, e := pbcmpl.Unmarshal(reader, leaves); e != nil {
		return nil, fmt.Errorf("leaves: %v", e)
	}
	nw := len(children.Bitmaps)
	if len(steps.Bitmaps) > nw {
		nw = len(steps.Bitmaps)
	}
	if len(leaves.Bitmaps) > nw {
		nw = len(leaves.Bitmaps)
	}
	esz := enc.GetEncodedSize(nil)
	rows := []string{}
	last := -1
	for id := int32(0); id < int32(64*nw); id++ {
		bm, step, leaf := "-", 0, "-"
		if bitmap.SafeGet1(children.Bitmaps, id) == 1 {
			v := c06eGetBM16Child(children, id)
			ls := []string{}
			for b := 0; b < 16; b++ {
				if v&(1<<uint(b)) != 0 {
					ls = append(ls, fmt.Sprint(b))
				}
			}
			if len(ls) == 0 {
				return nil, fmt.Errorf("OUTSIDE:2")
			}
			bm = strings.Join(ls, ",")
		}
		if bitmap.SafeGet1(steps.Bitmaps, id) == 1 {
			s, _ := steps.Get(id)
			if s == 0 {
				return nil, fmt.Errorf("OUTSIDE:3")
			}
			step = int(s)
		}
		if bitmap.SafeGet1(leaves.Bitmaps, id) == 1 {
			bs, found := leaves.GetBytes(id, esz)
			if !found {
				return nil, fmt.Errorf("OUTSIDE:4")
			}
			leaf = hx(bs)
		}
		if bm != "-" || step != 0 || leaf != "-" {
			last = int(id)
		}
		rows = append(rows, fmt.Sprintf("O %d %s %d %s", id, bm, step, leaf))
	}
	lines = append(lines, fmt.Sprintf("W ok %d", last+1))
	lines = append(lines, rows[:last+1]...)
	return lines, nil
}

func init() {
	register("C06e", func(c *Ctx) {
		c.Or.Rule = "key sets: one PRNG stream from VERIF_SEED; fixed sets (empty, single, empty key, keys that are prefixes of keys, half-byte prefixes, steps of 200..65536 nibbles incl. the 16-bit boundary, > 64 and > 128 old nodes) + the 8 shared kinds (" +
			strings.Join(kindNames, "/") + ") + the C06 kinds (" + strings.Join(c06KindNames, "/") + "); values = distinct 4-byte LE numbers; every set is written in each of the 6 three-array layout variants by the reference writer; " +
			"archived three-array fixtures with at most 2000 keys are taken as they are; a case = (variant, keys, values, stream bytes); non-trivial = at least 2 keys; distinct = distinct (variant, keys, values)"
		layouts := []*c06Layout{}
		for _, l := range c06Layouts {
			if !l.Slim {
				layouts = append(layouts, l)
			}
		}
		layoutIdx := map[string]int{}
		for i, l := range layouts {
			layoutIdx[l.Name] = i
		}
		type gen struct {
			kind string
			keys []string
		}
		x := func(n int) string { return strings.Repeat("x", n) }
		seq := func(n int) []string {
			ks := make([]string, n)
			for i := range ks {
				ks[i] = string([]byte{byte(i >> 8), byte(i)})
			}
			return ks
		}
		sets := []gen{
			{"empty", []string{}}, {"single", []string{""}}, {"single", []string{"\xff"}}, {"single", []string{"abc"}},
			{"emptykey-root", []string{"", "\x00", "\x00\x00", "a"}},
			{"prefix-keys", []string{"a", "ab", "abc", "abd", "b"}},
			{"prefix-keys", []string{"abc", "abcd", "abcdx", "abcdy", "abcdz", "abd", "abde", "bc", "bcd", "bcde", "cde"}},
			{"halfbyte-prefix", []string{"\xff\xf0", "\xff\xf1"}}, {"halfbyte-prefix", []string{"a\xff\xf0b", "a\xff\xffc", "b"}},
			{"longruns", []string{x(200) + "a", x(200) + "b", x(200) + "b" + strings.Repeat("\xff", 129)}},
			{"step-16bit-boundary", []string{x(32767) + "\x10", x(32767) + "\x20"}},
			{"step-16bit-boundary", []string{x(32767) + "\x61", x(32767) + "\x62"}},
			{"step-16bit-boundary", []string{"a", "b" + x(32768)}},
			{"dense", seq(70)}, {"dense", seq(300)}, {"dense", seq(700)},
		}
		nsets := c.N(200, 2000)
		for i := 0; len(sets) < nsets; i++ {
			r := c.R.Fork()
			if i%3 == 2 {
				k := r.Intn(c06KindCnt)
				sets = append(sets, gen{c06KindNames[k], c06GenKeys(r, k, false)})
			} else {
				k := r.Intn(KKindCnt)
				sets = append(sets, gen{kindNames[k], genKeySet(r, k, 1+r.Intn(2))})
			}
		}
		spec := specByName("I32")
		emitted, refused, streamBytes := 0, 0, 0
		reported := map[string]bool{}
		emit := func(id string, l *c06Layout, keys []string, vals [][]byte, buf []byte) {
			cw := c.Cases()
			fmt.Fprintf(cw, "T %s %d\n", id, layoutIdx[l.Name])
			for i, k := range keys {
				fmt.Fprintf(cw, "K %s %s\n", hxs(k), hx(vals[i]))
			}
			if buf == nil {
				fmt.Fprintf(cw, "S -\nE\n")
			} else {
				fmt.Fprintf(cw, "S %s\nE\n", hx(buf))
			}
			w := c.Impl()
			fmt.Fprintf(w, "C %s\n", id)
			if buf == nil {
				fmt.Fprintf(w, "B err:step\n")
				refused++
				return
			}
			streamBytes += len(buf)
			fmt.Fprintf(w, "B %s\n", hx(buf))
			lines, err := c06eTable(buf, spec.Enc)
			if err != nil {
				fmt.Fprintf(w, "A %v\n", err)
			} else {
				fmt.Fprintf(w, "A ok\n")
				for _, ln := range lines {
					fmt.Fprintf(w, "%s\n", ln)
				}
			}
			st, err := c06Load(buf, spec.Enc)
			if err != nil {
				kind := "load-error"
				if strings.HasPrefix(err.Error(), "PANIC") {
					kind = "load-panic"
				}
				fmt.Fprintf(w, "V %s\n", kind)
				if !reported[kind+l.Name] {
					reported[kind+l.Name] = true
					c.Or.Violate("C06:"+kind+"@"+l.Name, fmt.Sprintf("C06: Unmarshal of a %s stream failed: %v", l.Name, err),
						map[string]interface{}{"property": "C06", "variant": l.Name, "keys_hex": c06HexKeys(keys), "stream_hex": hx(buf)})
				}
				return
			}
			fmt.Fprintf(w, "V ok\n")
			DumpView(w, st)
			if fd := c06Oracle(st, spec, keys, vals, false, nil, nil, 10); fd != nil && !reported[fd.key+l.Name] {
				reported[fd.key+l.Name] = true
				c.Or.Violate(fd.key+"@"+l.Name, fd.what+" (layout "+l.Name+")",
					map[string]interface{}{"property": "C06", "variant": l.Name, "keys_hex": c06HexKeys(keys), "query_hex": hxs(fd.q), "got": fd.got, "want": fd.want})
			}
			emitted++
		}
		for si, g := range sets {
			if len(g.keys) > 1200 {
				continue
			}
			r := c.R.Fork()
			ids := c06ValueIDs(r, len(g.keys))
			vals := make([][]byte, len(ids))
			for i, v := range ids {
				vals[i] = le(4, v)
			}
			c.Or.Count("kind:" + g.kind)
			c.Or.Count("keys:" + bucket(len(g.keys)))
			for _, l := range layouts {
				c.Or.Case(fmt.Sprint(l.Name, g.keys, ids), len(g.keys) >= 2)
				c.Or.Count("variant:" + l.Name)
				if si < 4 {
					c.Or.Sample(map[string]interface{}{"variant": l.Name, "kind": g.kind, "keys_hex": c06HexKeys(g.keys)})
				}
				buf, err := c06WriteArrays(l, g.keys, vals)
				if err != nil {
					buf = nil
					c.Or.Count("outside-old-writer-domain(step>65535)")
				}
				emit(fmt.Sprintf("g%d.%s", si, l.Name), l, g.keys, vals, buf)
			}
		}
		// archived fixtures: the files themselves
		fx, _, err := c06LoadFixtures(c.Repo)
		if err != nil {
			panic(err)
		}
		nfx := 0
		maxKeys := 2000 // the extracted model keeps node ids as unary nat
		for _, f := range fx {
			if f.Layout.Slim {
				continue
			}
			keys := c06Keys(f.Set)
			if len(keys) > maxKeys {
				c.Or.Count("fixture-skipped(too many keys for the extracted model)")
				continue
			}
			vals, _ := c06FixtureValues(len(keys))
			c.Or.Case("fixture "+f.File, len(keys) >= 2)
			c.Or.Count("fixture:" + f.Layout.Name)
			emit("fx."+f.File, f.Layout, keys, vals, f.Buf)
			nfx++
		}
		c.Or.Extra["cases_compared"] = emitted
		c.Or.Extra["cases_refused_by_the_old_writer(step>65535)"] = refused
		c.Or.Extra["archived_fixtures_compared"] = nfx
		c.Or.Extra["stream_bytes_compared"] = streamBytes
	})
}
