package main

// C06: reference writers for the historical on-disk layouts of SlimTrie.
//
// There is no old writer in the repository. The layouts written here are a
// reconstruction from the 97 archived fixtures in trie/testdata (DESIGN.md
// appendix A); c06Acceptance (c06_fixtures.go) re-creates every fixture from
// its testkeys key set on every run and reports byte-identity.
//
// (a) 0.5.0 - 0.5.9: three sections children / steps / leaves, each a pbcmpl
//     header + protobuf array.Array32, indexed by OLD node id = BFS order of a
//     path-compressed 16-ary nibble trie in which a key that ends exactly
//     where a node branches is stored ON that inner node.
// (b) 0.5.10 / 0.5.11: one section, message Slim as today except control-byte
//     inner prefixes, bare Leaves.Bytes and the since-removed fields 12/13/15.

import (
	"bytes"
	"encoding/binary"
	"fmt"

	"github.com/golang/protobuf/proto"
	"github.com/openacid/low/bitmap"
	"github.com/openacid/low/bitstr"
	"github.com/openacid/low/pbcmpl"
	"github.com/openacid/slim/array"
	"github.com/openacid/slim/encode"
	"github.com/openacid/slim/trie"
)

// ---------------------------------------------------------------- layouts

type c06Layout struct {
	Name     string   // variant name used in reports and replays
	Header   string   // version string in every section header
	Fixtures []string // fixture version suffixes written with this layout
	// three-array layouts
	LeafSteps   bool // 0.5.0: leaves carry a step too
	BMChildren  bool // >= 0.5.4: 16-bit bitmaps in BMElts, Flags=3, EltWidth=16
	EmptyBMHead bool // 0.5.4-0.5.6: the empty key set still writes Flags/EltWidth/BMElts
	Pad         bool // 0.5.9: the three index bitmaps are padded to the node count
	U16FirstChd bool // <= 0.5.3: high half of the child element = first child id mod 2^16
	// 0.5.10 / 0.5.11 layout
	Slim      bool
	InnerPref bool
	LeafPref  bool
	Opt       string // fixture option infix: nopref / innpref / allpref
}

var c06Layouts = []*c06Layout{
	{Name: "a050-u32children-leafsteps", Header: "1.0.0", Fixtures: []string{"0.5.0"}, LeafSteps: true, U16FirstChd: true},
	{Name: "a051-u32children", Header: "1.0.0", Fixtures: []string{"0.5.1", "0.5.2", "0.5.3"}, U16FirstChd: true},
	{Name: "a054-bm16children", Header: "1.0.0", Fixtures: []string{"0.5.4", "0.5.5", "0.5.6"}, BMChildren: true, EmptyBMHead: true},
	{Name: "a057-bm16children", Header: "1.0.0", Fixtures: []string{"0.5.7"}, BMChildren: true},
	{Name: "a058-bm16children-versioned", Header: "0.5.8", Fixtures: []string{"0.5.8"}, BMChildren: true},
	{Name: "a059-bm16children-padded", Header: "0.5.9", Fixtures: []string{"0.5.9"}, BMChildren: true, Pad: true},
	{Name: "b0510-nopref", Header: "0.5.10", Fixtures: []string{"0.5.10"}, Slim: true, Opt: "nopref"},
	{Name: "b0510-innpref", Header: "0.5.10", Fixtures: []string{"0.5.10"}, Slim: true, InnerPref: true, Opt: "innpref"},
	{Name: "b0510-allpref", Header: "0.5.10", Fixtures: []string{"0.5.10"}, Slim: true, InnerPref: true, LeafPref: true, Opt: "allpref"},
	// 0.5.11 shares the 0.5.10 body (trie/slimtrie_marshal.go); no fixture is archived for it.
	{Name: "b0511-nopref", Header: "0.5.11", Slim: true, Opt: "nopref"},
	{Name: "b0511-innpref", Header: "0.5.11", Slim: true, InnerPref: true, Opt: "innpref"},
	{Name: "b0511-allpref", Header: "0.5.11", Slim: true, InnerPref: true, LeafPref: true, Opt: "allpref"},
}

func c06LayoutByName(n string) *c06Layout {
	for _, l := range c06Layouts {
		if l.Name == n {
			return l
		}
	}
	return nil
}

// ---------------------------------------------------------------- the old trie

func c06Nib(k string, i int) int {
	b := k[i>>1]
	if i&1 == 0 {
		return int(b >> 4)
	}
	return int(b & 0xf)
}

// longest common prefix of a and b in nibbles
func c06LCP(a, b string) int {
	n := len(a)
	if len(b) < n {
		n = len(b)
	}
	i := 0
	for i < n && a[i] == b[i] {
		i++
	}
	if i == n {
		return 2 * n
	}
	if a[i]>>4 == b[i]>>4 {
		return 2*i + 1
	}
	return 2 * i
}

// c06Old is the node table of the pre-0.5.10 trie in old (BFS) node ids.
type c06Old struct {
	N          int
	InnerIdx   []int32
	BM         []uint16
	FirstChild []int32
	StepIdx    []int32
	Step       []uint16
	LeafIdx    []int32
	LeafKey    []int32 // index of the key whose value the leaf carries
	MaxStep    int
}

// c06BuildOld builds the old node table for strictly ascending keys.
//
// A node covers keys[s:e] that agree on their first `from` nibbles, where
// from-1 is the position of the nibble its parent branches on (-1 for the
// root). One key: a leaf. Otherwise the node branches at p = the longest
// common prefix of its keys; if the first key ends at p it is stored on this
// very node (inner AND leaf). step = p - (from-1); stored when > 1.
func c06BuildOld(keys []string, leafSteps bool) (*c06Old, error) {
	o := &c06Old{}
	if len(keys) == 0 {
		return o, nil
	}
	type sub struct{ s, e, from int }
	queue := []sub{{0, len(keys), 0}}
	addStep := func(id int, st int) error {
		if st > o.MaxStep {
			o.MaxStep = st
		}
		if st > 0xffff {
			return fmt.Errorf("step %d of old node %d does not fit 16 bits", st, id)
		}
		if st > 1 {
			o.StepIdx = append(o.StepIdx, int32(id))
			o.Step = append(o.Step, uint16(st))
		}
		return nil
	}
	for id := 0; id < len(queue); id++ {
		q := queue[id]
		if q.e-q.s == 1 {
			o.LeafIdx = append(o.LeafIdx, int32(id))
			o.LeafKey = append(o.LeafKey, int32(q.s))
			if leafSteps {
				if err := addStep(id, 2*len(keys[q.s])-(q.from-1)); err != nil {
					return nil, err
				}
			}
			continue
		}
		p := c06LCP(keys[q.s], keys[q.e-1])
		if err := addStep(id, p-(q.from-1)); err != nil {
			return nil, err
		}
		s := q.s
		if 2*len(keys[s]) == p {
			o.LeafIdx = append(o.LeafIdx, int32(id))
			o.LeafKey = append(o.LeafKey, int32(s))
			s++
		}
		bm := uint16(0)
		o.InnerIdx = append(o.InnerIdx, int32(id))
		o.FirstChild = append(o.FirstChild, int32(len(queue)))
		for s < q.e {
			nb := c06Nib(keys[s], p)
			j := s + 1
			for j < q.e && c06Nib(keys[j], p) == nb {
				j++
			}
			bm |= 1 << uint(nb)
			queue = append(queue, sub{s, j, p + 1})
			s = j
		}
		o.BM = append(o.BM, bm)
	}
	o.N = len(queue)
	return o, nil
}

// ---------------------------------------------------------------- three-array emitter

// c06Versioned lets pbcmpl.Marshal write the header version of the layout.
type c06Versioned struct {
	*array.Array32
	ver string
}

func (v *c06Versioned) GetVersion() string { return v.ver }

func c06Section(w *bytes.Buffer, a *array.Array32, ver string) error {
	_, err := pbcmpl.Marshal(w, &c06Versioned{a, ver})
	return err
}

// c06Index fills Cnt/Bitmaps/Offsets with the repository's own array.InitIndex
// (Offsets[w] = rank before word w, but 0 for an empty word). pad > 0 extends
// both to ceil(pad/64) words the way 0.5.9's ExtendIndex did (zero words, zero
// offsets).
func c06Index(a *array.Array32, idx []int32, pad int) error {
	b := &array.Base{}
	if err := b.InitIndex(idx); err != nil {
		return err
	}
	a.Cnt, a.Bitmaps, a.Offsets = b.Cnt, b.Bitmaps, b.Offsets
	if pad > 0 {
		nw := (pad + 63) >> 6
		for len(a.Bitmaps) < nw {
			a.Bitmaps = append(a.Bitmaps, 0)
			a.Offsets = append(a.Offsets, 0)
		}
	}
	return nil
}

// c06Arrays builds the three Array32 messages of a three-array layout.
func c06Arrays(l *c06Layout, keys []string, vals [][]byte) (ch, st, lv *array.Array32, old *c06Old, err error) {
	old, err = c06BuildOld(keys, l.LeafSteps)
	if err != nil {
		return
	}
	ch, st, lv, err = c06ArraysOf(l, old, vals)
	return
}

func c06ArraysOf(l *c06Layout, old *c06Old, vals [][]byte) (ch, st, lv *array.Array32, err error) {
	pad := 0
	if l.Pad {
		pad = old.N
	}
	ch, st, lv = &array.Array32{}, &array.Array32{}, &array.Array32{}

	// children
	if err = c06Index(ch, old.InnerIdx, pad); err != nil {
		return
	}
	if !l.BMChildren {
		elts := make([]byte, 4*len(old.BM))
		for i, bm := range old.BM {
			v := uint32(bm) | uint32(uint16(old.FirstChild[i]))<<16
			binary.LittleEndian.PutUint32(elts[4*i:], v)
		}
		if len(elts) > 0 {
			ch.Elts = elts
		}
	} else if len(old.BM) > 0 || l.EmptyBMHead {
		ch.Flags = 3 // bit 1 = array.ArrayFlagIsBitmap; bit 0 as archived
		ch.EltWidth = 16
		subs := make([][]int32, len(old.BM))
		sizes := make([]int32, len(old.BM))
		n := int32(0)
		for i, bm := range old.BM {
			subs[i] = bitmap.ToArray([]uint64{uint64(bm)})
			sizes[i] = 16
			n = int32(16*i) + subs[i][len(subs[i])-1] + 1
		}
		words := bitmap.OfMany(subs, sizes)
		ch.BMElts = &array.Bits{N: n, Words: words, RankIndex: bitmap.IndexRank128(words)}
	}

	// steps
	if err = c06Index(st, old.StepIdx, pad); err != nil {
		return
	}
	if len(old.Step) > 0 {
		elts := make([]byte, 2*len(old.Step))
		for i, s := range old.Step {
			binary.LittleEndian.PutUint16(elts[2*i:], s)
		}
		st.Elts = elts
	}

	// leaves
	if err = c06Index(lv, old.LeafIdx, pad); err != nil {
		return
	}
	if len(old.LeafKey) > 0 {
		elts := []byte{}
		for _, k := range old.LeafKey {
			elts = append(elts, vals[k]...)
		}
		lv.Elts = elts
	}
	return
}

// c06WriteArrays writes keys/values in a three-array layout. vals[i] is the
// encoded value of keys[i] (fixed width = the loader's encoder size).
func c06WriteArrays(l *c06Layout, keys []string, vals [][]byte) ([]byte, error) {
	ch, st, lv, _, err := c06Arrays(l, keys, vals)
	if err != nil {
		return nil, err
	}
	return c06Sections(l, ch, st, lv)
}

// c06WriteAltSingle writes a single non-empty key in the other shape an old
// writer may have used for it: the root stays an inner node with one child
// (the key's first nibble) and the key's value sits on that child, a leaf.
func c06WriteAltSingle(l *c06Layout, key string, val []byte) ([]byte, error) {
	old := &c06Old{N: 2, InnerIdx: []int32{0}, BM: []uint16{1 << uint(c06Nib(key, 0))}, FirstChild: []int32{1},
		LeafIdx: []int32{1}, LeafKey: []int32{0}}
	if l.LeafSteps && 2*len(key) > 1 {
		if 2*len(key) > 0xffff {
			return nil, fmt.Errorf("leaf step %d does not fit 16 bits", 2*len(key))
		}
		old.StepIdx, old.Step = []int32{1}, []uint16{uint16(2 * len(key))}
	}
	ch, st, lv, err := c06ArraysOf(l, old, [][]byte{val})
	if err != nil {
		return nil, err
	}
	return c06Sections(l, ch, st, lv)
}

func c06Sections(l *c06Layout, ch, st, lv *array.Array32) ([]byte, error) {
	w := &bytes.Buffer{}
	for _, a := range []*array.Array32{ch, st, lv} {
		if err := c06Section(w, a, l.Header); err != nil {
			return nil, err
		}
	}
	return w.Bytes(), nil
}

// ---------------------------------------------------------------- 0.5.10 / 0.5.11 emitter

// c06Slim0510 is the 0.5.10 message: today's trie.Slim plus the fields 12, 13
// and 15 that were removed in 0.5.12 (now `reserved`). Sub-messages are the
// repository's own types; proto.Marshal emits fields in tag order.
type c06Slim0510 struct {
	BigInnerCnt     int32           `protobuf:"varint,11,opt,name=BigInnerCnt,proto3"`
	BigInnerOffset  int32           `protobuf:"varint,12,opt,name=BigInnerOffset,proto3"`
	ShortMinusInner int32           `protobuf:"varint,13,opt,name=ShortMinusInner,proto3"`
	ShortSize       int32           `protobuf:"varint,14,opt,name=ShortSize,proto3"`
	ShortMask       uint64          `protobuf:"varint,15,opt,name=ShortMask,proto3"`
	NodeTypeBM      *trie.Bitmap    `protobuf:"bytes,20,opt,name=NodeTypeBM,proto3"`
	Inners          *trie.Bitmap    `protobuf:"bytes,30,opt,name=Inners,proto3"`
	ShortBM         *trie.Bitmap    `protobuf:"bytes,31,opt,name=ShortBM,proto3"`
	ShortTable      []uint32        `protobuf:"varint,32,rep,packed,name=ShortTable,proto3"`
	InnerPrefixes   *trie.VLenArray `protobuf:"bytes,38,opt,name=InnerPrefixes,proto3"`
	LeafPrefixes    *trie.VLenArray `protobuf:"bytes,58,opt,name=LeafPrefixes,proto3"`
	Leaves          *trie.VLenArray `protobuf:"bytes,60,opt,name=Leaves,proto3"`
	ver             string
}

func (m *c06Slim0510) Reset()             { *m = c06Slim0510{} }
func (m *c06Slim0510) String() string     { return "c06Slim0510" }
func (*c06Slim0510) ProtoMessage()        {}
func (m *c06Slim0510) GetVersion() string { return m.ver }

// c06CtlPrefix converts one bitstr prefix (payload bytes + trailing mask byte)
// to the 0.5.10 control-byte form of the same bit string: byte 0 = 0 when the
// bit length is a multiple of 8, else 1 and the bit after the last payload bit
// is set. The two forms have the same number of bytes.
func c06CtlPrefix(bs []byte) []byte {
	n := int(bitstr.Len(bs))
	out := make([]byte, 0, len(bs))
	if n&7 == 0 {
		out = append(out, 0)
		out = append(out, bs[:n>>3]...)
		return out
	}
	out = append(out, 1)
	out = append(out, bs[:(n+7)>>3]...)
	out[len(out)-1] |= 0x80 >> uint(n&7)
	return out
}

// c06WriteSlim writes keys/values in the 0.5.10/0.5.11 layout. The node
// arrays are produced by the repository's current builder with the matching
// prefix options (big nodes, short table and all); the acceptance test shows
// that this reproduces the archived 0.5.10 files.
func c06WriteSlim(l *c06Layout, enc encode.Encoder, keys []string, values interface{}) ([]byte, error) {
	w := &bytes.Buffer{}
	m := &c06Slim0510{ver: l.Header}
	if len(keys) > 0 {
		// 0.5.10 did have the option (ReduceSameValue); all values in C06 are distinct.
		st, err := trie.NewSlimTrie(enc, keys, values, trie.Opt{
			DedupValue:  trie.Bool(false),
			InnerPrefix: trie.Bool(l.InnerPref),
			LeafPrefix:  trie.Bool(l.LeafPref),
		})
		if err != nil {
			return nil, err
		}
		// deep copy through the wire so that the live trie is not touched
		raw, err := proto.Marshal(st.VerifInner())
		if err != nil {
			return nil, err
		}
		ns := &trie.Slim{}
		if err := proto.Unmarshal(raw, ns); err != nil {
			return nil, err
		}
		m.BigInnerCnt = ns.BigInnerCnt
		m.ShortSize = ns.ShortSize
		m.BigInnerOffset = (257 - 17) * ns.BigInnerCnt
		m.ShortMinusInner = ns.ShortSize - 17
		m.ShortMask = uint64(1)<<uint(ns.ShortSize) - 1
		m.NodeTypeBM, m.Inners, m.ShortBM, m.ShortTable = ns.NodeTypeBM, ns.Inners, ns.ShortBM, ns.ShortTable
		m.InnerPrefixes, m.LeafPrefixes = ns.InnerPrefixes, ns.LeafPrefixes
		if ip := m.InnerPrefixes; ip != nil && ip.PositionBM != nil && len(ip.Bytes) > 0 {
			pos := bitmap.ToArray(ip.PositionBM.Words)
			nb := make([]byte, 0, len(ip.Bytes))
			for i := 0; i+1 < len(pos); i++ {
				nb = append(nb, c06CtlPrefix(ip.Bytes[pos[i]:pos[i+1]])...)
			}
			if len(nb) != len(ip.Bytes) {
				return nil, fmt.Errorf("control-byte prefixes: %d bytes, bitstr prefixes: %d bytes", len(nb), len(ip.Bytes))
			}
			ip.Bytes = nb
		}
		// 0.5.10 stored SelectIndex[k] = index of the WORD holding the 32k-th set
		// bit; today's builder stores its bit position (found by diffing the
		// archived allpref/innpref files: the only differing field). Today's
		// reader shifts the stored value right by 6 once more and then scans
		// forward over RankIndex, so a smaller start only costs time.
		for _, va := range []*trie.VLenArray{m.InnerPrefixes, m.LeafPrefixes} {
			if va != nil && va.PositionBM != nil {
				for k := range va.PositionBM.SelectIndex {
					va.PositionBM.SelectIndex[k] >>= 6
				}
			}
		}
		if ns.Leaves != nil {
			m.Leaves = &trie.VLenArray{Bytes: ns.Leaves.Bytes}
		}
	}
	if _, err := pbcmpl.Marshal(w, m); err != nil {
		return nil, err
	}
	return w.Bytes(), nil
}

// c06Write dispatches on the layout. vals are the encoded values, values the
// typed slice for the repository's builder.
func c06Write(l *c06Layout, enc encode.Encoder, keys []string, vals [][]byte, values interface{}) (buf []byte, err error) {
	defer func() {
		if r := recover(); r != nil {
			err = fmt.Errorf("writer panic: %v", r)
		}
	}()
	if l.Slim {
		return c06WriteSlim(l, enc, keys, values)
	}
	return c06WriteArrays(l, keys, vals)
}
